(* C10, the token-TEXT clause: for every input, the text of each token (its value, or the spelling of its type) is its raw
   span up to the documented normalisations - Spec/Normalise.norm_ok, the independent specification.
   Route: NM = norm_match without fuel (an inductive relation); `reads cm x text x'` = "going from lexer state x to x' the
   raw characters in between normalise to text, whatever admissible text follows" (a contract closed under composition);
   every pop satisfies it, hence every loop and every sub-parser. *)
From NV Require Import Model.Base Model.Diag Model.Lexer Model.NumRe Spec.TruePos Spec.Normalise Spec.LexProps
  Proofs.StrOrder Proofs.LexInv Proofs.LexInv2 Proofs.LexMain.
From Coq Require Import Lia ZifyBool.

Local Open Scope Z_scope.

(* ------------------------------------------------------------------ the tool's di/trigraph tables are the standard's *)
Lemma trigraphs_std : forallb (fun kv => match fst kv with
                                         | [a; b; c] => match std_trigraph a b c with Some t => str_eqb (snd kv) [t] | None => false end
                                         | _ => false end) trigraphs = true.
Proof. vm_compute. reflexivity. Qed.
Lemma digraphs_std : forallb (fun kv => match fst kv with
                                        | [a; b] => match std_digraph a b with Some t => str_eqb (snd kv) [t] | None => false end
                                        | _ => false end) digraphs = true.
Proof. vm_compute. reflexivity. Qed.

Lemma std_trigraph_assoc a b c t : std_trigraph a b c = Some t -> assoc [a; b; c] trigraphs = Some [t].
Proof.
  unfold std_trigraph. destruct (N.eqb_spec a 63) as [->|]; [|discriminate]. destruct (N.eqb_spec b 63) as [->|]; [|discriminate].
  cbn [andb]. destruct c as [|p]; [discriminate|].
  repeat (destruct p as [p|p|]; try discriminate); intros H; inversion H; reflexivity.
Qed.

Lemma std_digraph_assoc a b t : std_digraph a b = Some t -> assoc [a; b] digraphs = Some [t].
Proof.
  unfold std_digraph. destruct a as [|p]; [discriminate|].
  repeat (destruct p as [p|p|]; try discriminate);
    (destruct b as [|q]; [discriminate|]; repeat (destruct q as [q|q|]; try discriminate); intros H; inversion H; reflexivity).
Qed.

Lemma assoc_trigraph_std k v : assoc k trigraphs = Some v ->
  exists a b c t, k = [a; b; c] /\ std_trigraph a b c = Some t /\ v = [t].
Proof.
  intros H. apply assoc_in in H. pose proof trigraphs_std as T. rewrite forallb_forall in T. specialize (T _ H). cbn [fst snd] in T.
  destruct k as [|a [|b [|c [|? ?]]]]; try discriminate. destruct (std_trigraph a b c) as [t|] eqn:E; [|discriminate].
  apply str_eqb_eq in T. now exists a, b, c, t.
Qed.
Lemma assoc_digraph_std k v : assoc k digraphs = Some v -> exists a b t, k = [a; b] /\ std_digraph a b = Some t /\ v = [t].
Proof.
  intros H. apply assoc_in in H. pose proof digraphs_std as T. rewrite forallb_forall in T. specialize (T _ H). cbn [fst snd] in T.
  destruct k as [|a [|b [|? ?]]]; try discriminate. destruct (std_digraph a b) as [t|] eqn:E; [|discriminate].
  apply str_eqb_eq in T. now exists a, b, t.
Qed.

(* peek1 (the tool) and logical1 (the specification) read the same next character *)
Lemma peek1_logical r ch n : peek1 r = Some (ch, n) -> exists c, ch = [c] /\ logical1 r = Some (c, n).
Proof.
  unfold peek1, logical1. destruct r as [|a r1]; [discriminate|].
  destruct (assoc (firstn 3 (a :: r1)) trigraphs) as [t|] eqn:E3.
  - intros H; inversion H; subst. destruct (assoc_trigraph_std _ _ E3) as (a' & b & c & t' & Hk & Hs & ->).
    destruct r1 as [|b0 [|c0 r2]]; try discriminate. cbn [firstn] in Hk. inversion Hk; subst. rewrite Hs. now exists t'.
  - assert (Htri : match r1 with b :: c :: _ => std_trigraph a b c | _ => None end = None).
    { destruct r1 as [|b [|c r2]]; try reflexivity. destruct (std_trigraph a b c) as [t|] eqn:Es; [|reflexivity].
      apply std_trigraph_assoc in Es. cbn [firstn] in E3. rewrite Es in E3. discriminate. }
    rewrite Htri.
    destruct (assoc (firstn 2 (a :: r1)) digraphs) as [d|] eqn:E2.
    + intros H; inversion H; subst. destruct (assoc_digraph_std _ _ E2) as (a' & b & t' & Hk & Hs & ->).
      destruct r1 as [|b0 r2]; try discriminate. cbn [firstn] in Hk. inversion Hk; subst. rewrite Hs. now exists t'.
    + intros H; inversion H; subst. exists a. split; [reflexivity|].
      destruct r1 as [|b r2]; [reflexivity|]. destruct (std_digraph a b) as [t|] eqn:Es; [|reflexivity].
      apply std_digraph_assoc in Es. cbn [firstn] in E2. rewrite Es in E2. discriminate.
Qed.

(* ------------------------------------------------------------------ logical1: facts *)
Lemma logical1_bounds r ch n : logical1 r = Some (ch, n) -> (1 <= n <= List.length r)%nat.
Proof.
  unfold logical1. destruct r as [|a [|b [|c r]]]; try discriminate.
  - intros H; inversion H; cbn; lia.
  - cbn. destruct (std_digraph a b); intros H; inversion H; cbn; lia.
  - destruct (std_trigraph a b c); [intros H; inversion H; cbn; lia|].
    destruct (std_digraph a b); intros H; inversion H; cbn; lia.
Qed.

(* the decision only depends on the characters it consumes: cutting the text anywhere after them changes nothing *)
Lemma logical1_trunc A tail ch n : logical1 (A ++ tail) = Some (ch, n) -> (n <= List.length A)%nat -> logical1 A = Some (ch, n).
Proof.
  destruct A as [|a [|b [|c A]]].
  - cbn. intros H Hn. apply logical1_bounds in H. lia.
  - cbn [app List.length]. unfold logical1. destruct tail as [|b [|c t]].
    + auto.
    + destruct (std_digraph a b); intros H Hn; inversion H; subst; [lia|reflexivity].
    + destruct (std_trigraph a b c); [intros H Hn; inversion H; subst; lia|].
      destruct (std_digraph a b); intros H Hn; inversion H; subst; [lia|reflexivity].
  - cbn [app List.length]. unfold logical1. destruct tail as [|c t].
    + auto.
    + destruct (std_trigraph a b c); [intros H Hn; inversion H; subst; lia|]. auto.
  - cbn [app]. unfold logical1. auto.
Qed.

Definition simplec (c : N) : bool := negb (chr_in c [63; 60; 37; 58; 92; 10; 9]%N).

Lemma logical1_nohead c r : chr_in c [63; 60; 37; 58]%N = false -> logical1 (c :: r) = Some (c, 1%nat).
Proof.
  intros H. unfold logical1.
  assert (H3 : forall b d, std_trigraph c b d = None).
  { intros b d. unfold std_trigraph. replace (c =? 63)%N with false by (cbn in H; lia). reflexivity. }
  assert (H2 : forall b, std_digraph c b = None).
  { intros b. unfold std_digraph. cbn [chr_in existsb] in H.
    destruct c as [|p]; [reflexivity|]. repeat (destruct p as [p|p|]; try reflexivity); cbn in H; discriminate. }
  destruct r as [|b [|d r]]; try reflexivity; rewrite ?H3, H2; reflexivity.
Qed.

(* ------------------------------------------------------------------ NM: norm_match without fuel *)
Definition is_splice_at (ch : N) (r' : str) : bool := N.eqb ch 92 && match r' with x :: _ => N.eqb x 10 | [] => false end.

Inductive NM (cm : bool) : Z -> str -> str -> Prop :=
| NM_nil c : NM cm c [] []
| NM_drop c r n r'' text : logical1 r = Some (92%N, n) -> skipn n r = 10%N :: r'' -> NM cm 1 r'' text -> NM cm c r text
| NM_keep c r n r'' text : logical1 r = Some (92%N, n) -> skipn n r = 10%N :: r'' -> NM cm 1 r'' text ->
    NM cm c r (92%N :: 10%N :: text)
| NM_nl c r n text : logical1 r = Some (10%N, n) -> NM cm 1 (skipn n r) text -> NM cm c r (10%N :: text)
| NM_tab c r n text : logical1 r = Some (9%N, n) -> NM cm (c + (4 - (c - 1) mod 4)) (skipn n r) text ->
    NM cm c r ((if cm then repeat 32%N (Z.to_nat (4 - (c - 1) mod 4)) else [9%N]) ++ text)
| NM_chr c r ch n text : logical1 r = Some (ch, n) -> is_splice_at ch (skipn n r) = false -> N.eqb ch 10 = false ->
    N.eqb ch 9 = false -> NM cm (c + Z.of_nat n) (skipn n r) text -> NM cm c r (ch :: text).

Lemma prefix_drop_app p x : prefix_drop p (p ++ x) = Some x.
Proof. induction p as [|a p IH]; [reflexivity|]. cbn. now rewrite N.eqb_refl. Qed.

Lemma NM_norm_match cm c r text : NM cm c r text -> forall fuel, (List.length r < fuel)%nat -> norm_match fuel cm c r text = true.
Proof.
  induction 1 as [c|c r n r'' text Hl Hs _ IH|c r n r'' text Hl Hs _ IH|c r n text Hl _ IH|c r n text Hl _ IH|c r ch n text Hl Hsp H10 H9 _ IH];
    intros fuel Hf; (destruct fuel as [|fuel]; [lia|]); cbn [norm_match].
  - reflexivity.
  - rewrite Hl, Hs. cbn [N.eqb Pos.eqb andb skipn]. pose proof (logical1_bounds _ _ _ Hl).
    rewrite IH; [reflexivity|]. assert (List.length (skipn n r) = List.length r - n)%nat by apply skipn_length. rewrite Hs in H0. cbn in H0. lia.
  - rewrite Hl, Hs. cbn [N.eqb Pos.eqb andb skipn prefix_drop]. pose proof (logical1_bounds _ _ _ Hl).
    rewrite IH; [apply orb_true_r|]. assert (List.length (skipn n r) = List.length r - n)%nat by apply skipn_length. rewrite Hs in H0. cbn in H0. lia.
  - rewrite Hl. pose proof (logical1_bounds _ _ _ Hl).
    replace (N.eqb 10 92 && _) with false by reflexivity. cbn [N.eqb Pos.eqb andb].
    apply IH. rewrite skipn_length. lia.
  - rewrite Hl. pose proof (logical1_bounds _ _ _ Hl).
    replace (N.eqb 9 92 && _) with false by reflexivity. cbn [N.eqb Pos.eqb]. rewrite prefix_drop_app.
    apply IH. rewrite skipn_length. lia.
  - rewrite Hl. pose proof (logical1_bounds _ _ _ Hl). unfold is_splice_at in Hsp. rewrite Hsp, H10, H9, N.eqb_refl. cbn [andb].
    apply IH. rewrite skipn_length. lia.
Qed.

Lemma NM_norm_ok cm c seg text : NM cm c seg text -> norm_ok cm c seg text = true.
Proof. intros H. unfold norm_ok. apply NM_norm_match; [assumption|lia]. Qed.

(* ------------------------------------------------------------------ the contract `reads` *)
Definition prefix (A R : str) : Prop := exists tail, R = A ++ tail.

Lemma prefix_nil R : prefix [] R.
Proof. now exists R. Qed.
Lemma prefix_app_inv A B R : prefix (A ++ B) R -> prefix B (skipn (List.length A) R).
Proof. intros [t ->]. exists t. rewrite <- app_assoc, skipn_app, skipn_all, Nat.sub_diag. reflexivity. Qed.

Definition reads (cm : bool) (x : st) (text : str) (x' : st) : Prop :=
  exists n, (n <= List.length (rest x))%nat /\ rest x' = skipn n (rest x) /\ off x' = (off x + n)%nat /\
    forall seg' text', prefix seg' (rest x') -> NM cm (col x') seg' text' ->
      NM cm (col x) (firstn n (rest x) ++ seg') (text ++ text').

Lemma reads_refl cm x : reads cm x [] x.
Proof. exists 0%nat. repeat split; try lia; try reflexivity. intros seg' text' _ H. exact H. Qed.

Lemma firstn_add {A} (n m : nat) (l : list A) : firstn (n + m) l = firstn n l ++ firstn m (skipn n l).
Proof. apply firstn_app_skipn_firstn. Qed.

Lemma reads_trans cm x t1 x1 t2 x2 : reads cm x t1 x1 -> reads cm x1 t2 x2 -> reads cm x (t1 ++ t2) x2.
Proof.
  intros (n1 & L1 & R1 & O1 & H1) (n2 & L2 & R2 & O2 & H2). exists (n1 + n2)%nat.
  rewrite R1, skipn_length in L2. split; [lia|]. split; [rewrite R2, R1; apply skipn_skipn'|]. split; [lia|].
  intros seg' text' Hp Hn. rewrite firstn_add, <- !app_assoc. rewrite <- R1.
  apply H1; [|now apply H2].
  destruct Hp as [tail Ht]. exists tail. rewrite <- app_assoc, <- Ht, R2. symmetry. apply firstn_skipn.
Qed.

(* the same positions with other diagnostics *)
Definition same_pos (x y : st) : Prop := rest y = rest x /\ off y = off x /\ col y = col x.
Lemma reads_same_l cm x y t x' : same_pos x y -> reads cm x t x' -> reads cm y t x'.
Proof. intros (A & B & C) (n & L & R & O & H). exists n. rewrite A, B, C. repeat split; assumption. Qed.
Lemma reads_same_r cm x t x' y' : same_pos x' y' -> reads cm x t x' -> reads cm x t y'.
Proof. intros (A & B & C) (n & L & R & O & H). exists n. rewrite A, B, C. repeat split; assumption. Qed.
Lemma same_pos_add_err d x : same_pos x (add_err d x).
Proof. repeat split. Qed.
Lemma same_pos_refl x : same_pos x x.
Proof. repeat split. Qed.

(* what a finished token says: the raw characters between the two states normalise to text *)
Lemma reads_NM cm x text x' : reads cm x text x' -> NM cm (col x) (firstn (off x' - off x) (rest x)) text.
Proof.
  intros (n & L & R & O & H). replace (off x' - off x)%nat with n by lia.
  specialize (H [] [] (prefix_nil _) (NM_nil _ _)). now rewrite !app_nil_r in H.
Qed.

(* ------------------------------------------------------------------ one logical character, seen from the lexer state *)
Lemma cut_facts n R seg' : (n <= List.length R)%nat -> prefix seg' (skipn n R) ->
  (exists tail, R = (firstn n R ++ seg') ++ tail) /\ skipn n (firstn n R ++ seg') = seg' /\ (n <= List.length (firstn n R ++ seg'))%nat.
Proof.
  intros Hn [tail Ht]. assert (Hl : List.length (firstn n R) = n) by (apply firstn_length_le; lia). split; [|split].
  - exists tail. rewrite <- app_assoc, <- Ht. symmetry. apply firstn_skipn.
  - rewrite skipn_app, Hl, Nat.sub_diag. rewrite <- Hl at 1. now rewrite skipn_all.
  - rewrite app_length. lia.
Qed.

Lemma head_prefix seg' R : prefix seg' R -> forall f : N -> bool,
  match seg' with x :: _ => f x | [] => false end = true -> match R with x :: _ => f x | [] => false end = true.
Proof. intros [t ->] f. destruct seg'; [discriminate|]. auto. Qed.

Lemma splice_at_prefix ch seg' R : prefix seg' R -> is_splice_at ch R = false -> is_splice_at ch seg' = false.
Proof.
  intros Hp H. unfold is_splice_at in *. destruct (N.eqb ch 92); [|reflexivity]. cbn [andb] in *.
  destruct (match seg' with x :: _ => N.eqb x 10 | [] => false end) eqn:E; [|reflexivity].
  rewrite (head_prefix _ _ Hp (fun x => N.eqb x 10) E) in H. discriminate.
Qed.

Lemma step_chr cm c R ch n seg' text' : logical1 R = Some (ch, n) -> prefix seg' (skipn n R) ->
  is_splice_at ch seg' = false -> N.eqb ch 10 = false -> N.eqb ch 9 = false ->
  NM cm (c + Z.of_nat n) seg' text' -> NM cm c (firstn n R ++ seg') (ch :: text').
Proof.
  intros Hl Hp Hs H10 H9 Hn. pose proof (logical1_bounds _ _ _ Hl) as Hb.
  destruct (cut_facts n R seg' (proj2 Hb) Hp) as ([tail Ht] & Hsk & Hlen).
  apply (NM_chr cm c _ ch n); try assumption.
  - apply (logical1_trunc _ tail); [now rewrite <- Ht|assumption].
  - now rewrite Hsk.
  - now rewrite Hsk.
Qed.

Lemma step_nl cm c R n seg' text' : logical1 R = Some (10%N, n) -> prefix seg' (skipn n R) ->
  NM cm 1 seg' text' -> NM cm c (firstn n R ++ seg') (10%N :: text').
Proof.
  intros Hl Hp Hn. pose proof (logical1_bounds _ _ _ Hl) as Hb.
  destruct (cut_facts n R seg' (proj2 Hb) Hp) as ([tail Ht] & Hsk & Hlen).
  apply (NM_nl cm c _ n); [apply (logical1_trunc _ tail); [now rewrite <- Ht|assumption]|now rewrite Hsk].
Qed.

Lemma step_tab cm c R n seg' text' : logical1 R = Some (9%N, n) -> prefix seg' (skipn n R) ->
  NM cm (c + (4 - (c - 1) mod 4)) seg' text' ->
  NM cm c (firstn n R ++ seg') ((if cm then repeat 32%N (Z.to_nat (4 - (c - 1) mod 4)) else [9%N]) ++ text').
Proof.
  intros Hl Hp Hn. pose proof (logical1_bounds _ _ _ Hl) as Hb.
  destruct (cut_facts n R seg' (proj2 Hb) Hp) as ([tail Ht] & Hsk & Hlen).
  apply (NM_tab cm c _ n); [apply (logical1_trunc _ tail); [now rewrite <- Ht|assumption]|now rewrite Hsk].
Qed.

(* backslash (n raw characters) + newline: removed *)
Lemma step_drop cm c R n R'' seg' text' : logical1 R = Some (92%N, n) -> skipn n R = 10%N :: R'' -> prefix seg' R'' ->
  NM cm 1 seg' text' -> NM cm c (firstn (S n) R ++ seg') text'.
Proof.
  intros Hl Hs Hp Hn. pose proof (logical1_bounds _ _ _ Hl) as Hb.
  assert (E : firstn (S n) R = firstn n R ++ [10%N]).
  { replace (S n) with (n + 1)%nat by lia. rewrite firstn_add, Hs. reflexivity. }
  rewrite E, <- app_assoc. cbn [app].
  assert (Hp' : prefix (10%N :: seg') (skipn n R)).
  { rewrite Hs. destruct Hp as [t ->]. now exists t. }
  destruct (cut_facts n R (10%N :: seg') (proj2 Hb) Hp') as ([tail Ht] & Hsk & Hlen).
  apply (NM_drop cm c _ n seg'); [apply (logical1_trunc _ tail); [now rewrite <- Ht|assumption]|exact Hsk|exact Hn].
Qed.

(* backslash + newline kept verbatim (the backslash was the second character of an escape pair) *)
Lemma step_keep cm c R n seg'' t'' : logical1 R = Some (92%N, n) -> prefix (10%N :: seg'') (skipn n R) ->
  NM cm 1 seg'' t'' -> NM cm c (firstn n R ++ 10%N :: seg'') (92%N :: 10%N :: t'').
Proof.
  intros Hl Hp Hn. pose proof (logical1_bounds _ _ _ Hl) as Hb.
  destruct (cut_facts n R (10%N :: seg'') (proj2 Hb) Hp) as ([tail Ht] & Hsk & Hlen).
  apply (NM_keep cm c _ n seg''); [apply (logical1_trunc _ tail); [now rewrite <- Ht|assumption]|exact Hsk|exact Hn].
Qed.

Lemma logical1_nl r : logical1 (10%N :: r) = Some (10%N, 1%nat).
Proof. now apply logical1_nohead. Qed.

Lemma NM_nl_inv cm c r text : NM cm c (10%N :: r) text -> exists t', text = 10%N :: t' /\ NM cm 1 r t'.
Proof.
  intros H. inversion H; subst; try (rewrite logical1_nl in *; match goal with H : Some _ = Some _ |- _ => inversion H; subst end);
    try discriminate.
  - eexists. split; [reflexivity|]. assumption.
Qed.

(* a backslash that the lexer hands out as text, whatever follows it in the token: if a newline follows (the backslash
   was the second half of an escape pair) the pair backslash-newline is kept verbatim *)
Lemma step_bs cm c R n seg' text' : logical1 R = Some (92%N, n) -> prefix seg' (skipn n R) ->
  NM cm (c + Z.of_nat n) seg' text' -> NM cm c (firstn n R ++ seg') (92%N :: text').
Proof.
  intros Hl Hp Hn. destruct seg' as [|s0 seg''].
  - apply step_chr; try assumption; reflexivity.
  - destruct (N.eqb_spec s0 10) as [->|Hne].
    + destruct (NM_nl_inv _ _ _ _ Hn) as [t'' [-> Hn'']]. now apply step_keep.
    + apply step_chr; try assumption; try reflexivity. unfold is_splice_at. cbn [N.eqb Pos.eqb andb].
      now apply N.eqb_neq.
Qed.

(* any other character *)
Lemma step_other cm c R ch n seg' text' : logical1 R = Some (ch, n) -> prefix seg' (skipn n R) ->
  N.eqb ch 92 = false -> N.eqb ch 10 = false -> N.eqb ch 9 = false ->
  NM cm (c + Z.of_nat n) seg' text' -> NM cm c (firstn n R ++ seg') (ch :: text').
Proof. intros Hl Hp H92 H10 H9 Hn. apply step_chr; try assumption. unfold is_splice_at. now rewrite H92. Qed.

(* a run of characters that start no di/trigraph and are no backslash, newline or tab *)
Lemma NM_simple_run cm : forall ds c rest text', forallb simplec ds = true ->
  NM cm (c + Z.of_nat (List.length ds)) rest text' -> NM cm c (ds ++ rest) (ds ++ text').
Proof.
  induction ds as [|d ds IH]; intros c rest text' Hd Hn; cbn [app List.length] in *.
  - now replace (c + Z.of_nat 0) with c in Hn by lia.
  - cbn [forallb] in Hd. apply andb_true_iff in Hd as [Hd0 Hd]. unfold simplec in Hd0. cbn [chr_in existsb] in Hd0.
    apply (NM_chr cm c _ d 1%nat).
    + apply logical1_nohead. cbn [chr_in existsb]. lia.
    + unfold is_splice_at. replace (N.eqb d 92) with false by lia. reflexivity.
    + lia.
    + lia.
    + cbn [skipn]. apply IH; [assumption|].
      match goal with |- NM _ ?k _ _ => replace k with (c + Z.of_nat (S (List.length ds))) by lia end. exact Hn.
Qed.

(* ------------------------------------------------------------------ pop_finish, explicitly *)
Lemma pf_nl us x size : exists X, pop_finish us x [10%N] size = PopOk [10%N] X /\
  rest X = skipn size (rest x) /\ off X = (off x + size)%nat /\ col X = Z.of_nat size.
Proof. eexists. unfold pop_finish. cbn. split; [reflexivity|]. repeat split. Qed.

Lemma pf_tab us x size : exists X,
  pop_finish us x [9%N] size =
    PopOk (if us then repeat 32%N (Z.to_nat (4 - ((col x + Z.of_nat size - 1 - 1) mod 4))) else [9%N]) X /\
  rest X = skipn size (rest x) /\ off X = (off x + size)%nat /\
  col X = col x + (4 - ((col x + Z.of_nat size - 1 - 1) mod 4)) - 1 + Z.of_nat size.
Proof.
  eexists. unfold pop_finish. replace (is_nl [9%N]) with false by reflexivity. replace (ends_with [9%N] [9%N]) with true by reflexivity.
  replace (str_eqb [9%N] [9%N]) with true by reflexivity. rewrite andb_true_r. cbv zeta. cbn [line col set_pos advance rest off].
  split; [reflexivity|]. repeat split.
Qed.

Lemma pf_text us x char size : is_nl char = false -> ends_with [9%N] char = false -> exists X,
  pop_finish us x char size = PopOk char X /\ rest X = skipn size (rest x) /\ off X = (off x + size)%nat /\
  col X = col x + Z.of_nat size.
Proof. intros H1 H2. eexists. unfold pop_finish. rewrite H1, H2. cbn. split; [reflexivity|]. repeat split. Qed.

(* backslash + tab (an unknown escape): the text keeps the tab, the column goes to the tab stop *)
Lemma pf_bs_tab us x size : exists X,
  pop_finish us x [92%N; 9%N] size = PopOk [92%N; 9%N] X /\ rest X = skipn size (rest x) /\ off X = (off x + size)%nat /\
  col X = col x + (4 - ((col x + Z.of_nat size - 1 - 1) mod 4)) - 1 + Z.of_nat size.
Proof.
  eexists. unfold pop_finish. replace (is_nl [92%N; 9%N]) with false by reflexivity.
  replace (ends_with [9%N] [92%N; 9%N]) with true by reflexivity. replace (str_eqb [92%N; 9%N] [9%N]) with false by reflexivity.
  rewrite andb_false_r. cbv zeta. cbn [line col set_pos advance rest off]. split; [reflexivity|]. repeat split.
Qed.

(* ------------------------------------------------------------------ pops *)
Lemma std_trigraph_out a b c t : std_trigraph a b c = Some t -> chr_in t [123; 125; 91; 93; 35; 92; 94; 124; 126]%N = true.
Proof.
  unfold std_trigraph. destruct (N.eqb a 63 && N.eqb b 63); [|discriminate]. destruct c as [|p]; [discriminate|].
  repeat (destruct p as [p|p|]; try discriminate); intros H; inversion H; reflexivity.
Qed.
Lemma std_digraph_out a b t : std_digraph a b = Some t -> chr_in t [123; 125; 91; 93; 35; 92; 94; 124; 126]%N = true.
Proof.
  unfold std_digraph. destruct a as [|p]; [discriminate|].
  repeat (destruct p as [p|p|]; try discriminate);
    (destruct b as [|q]; [discriminate|]; repeat (destruct q as [q|q|]; try discriminate); intros H; inversion H; reflexivity).
Qed.

(* a translated character is one of the nine; every other logical character is its own single raw character *)
Lemma logical1_graph r ch n : logical1 r = Some (ch, n) ->
  (n = 1%nat /\ exists t, r = ch :: t) \/ chr_in ch [123; 125; 91; 93; 35; 92; 94; 124; 126]%N = true.
Proof.
  unfold logical1. destruct r as [|a [|b [|c r]]]; try discriminate.
  - intros H; inversion H; subst. left. split; [reflexivity|now exists []].
  - destruct (std_digraph a b) eqn:E; intros H; inversion H; subst; [right; eapply std_digraph_out; eassumption|left; split; [reflexivity|now eexists]].
  - destruct (std_trigraph a b c) eqn:E3; [intros H; inversion H; subst; right; eapply std_trigraph_out; eassumption|].
    destruct (std_digraph a b) eqn:E; intros H; inversion H; subst; [right; eapply std_digraph_out; eassumption|left; split; [reflexivity|now eexists]].
Qed.

Lemma logical1_raw r ch n : logical1 r = Some (ch, n) -> chr_in ch [123; 125; 91; 93; 35; 92; 94; 124; 126]%N = false ->
  n = 1%nat /\ exists t, r = ch :: t.
Proof. intros H Hc. destruct (logical1_graph _ _ _ H) as [?|E]; [assumption|congruence]. Qed.

Lemma same_pos_sym x y : same_pos x y -> same_pos y x.
Proof. intros (A & B & C). repeat split; congruence. Qed.

Lemma mk_reads cm x text X n : (n <= List.length (rest x))%nat -> rest X = skipn n (rest x) -> off X = (off x + n)%nat ->
  (forall seg' text', prefix seg' (skipn n (rest x)) -> NM cm (col X) seg' text' ->
     NM cm (col x) (firstn n (rest x) ++ seg') (text ++ text')) -> reads cm x text X.
Proof. intros L R O H. exists n. repeat split; try assumption. intros seg' text' Hp. rewrite R in Hp. now apply H. Qed.

Definition tabs_ok (us ue cm : bool) (text : str) : Prop :=
  (ue = true -> cm = false) /\ (us = cm \/ (us = false /\ ~ In 9%N text)).

(* one translated character handed to pop_finish *)
Lemma reads_single cm us x c0 size text X : logical1 (rest x) = Some (c0, size) ->
  pop_finish us x [c0] size = PopOk text X -> (us = cm \/ (us = false /\ ~ In 9%N text)) -> reads cm x text X.
Proof.
  intros Hl Hp Ht. pose proof (logical1_bounds _ _ _ Hl) as Hb.
  destruct (N.eqb_spec c0 10) as [->|H10].
  - destruct (pf_nl us x size) as (X' & E & R & O & C). rewrite E in Hp. inversion Hp; subst.
    destruct (logical1_raw _ _ _ Hl eq_refl) as [-> _].
    apply (mk_reads cm x _ X 1%nat); try assumption; try lia. intros seg' text' Hpre Hn. rewrite C in Hn.
    now apply step_nl.
  - destruct (N.eqb_spec c0 9) as [->|H9].
    + destruct (pf_tab us x size) as (X' & E & R & O & C). rewrite E in Hp. inversion Hp; subst. clear Hp.
      destruct (logical1_raw _ _ _ Hl eq_refl) as [-> _].
      replace (col x + Z.of_nat 1 - 1 - 1) with (col x - 1) in * by lia.
      apply (mk_reads cm x _ X 1%nat); try assumption; try lia. intros seg' text' Hpre Hn. rewrite C in Hn.
      replace (col x + (4 - (col x - 1) mod 4) - 1 + Z.of_nat 1) with (col x + (4 - (col x - 1) mod 4)) in Hn by lia.
      destruct Ht as [->|[-> Hno]].
      * now apply step_tab.
      * exfalso. apply Hno. now left.
    + assert (E1 : is_nl [c0] = false) by (unfold is_nl, nl; cbn [str_eqb andb]; lia).
      assert (E2 : ends_with [9%N] [c0] = false).
      { unfold ends_with. cbn [List.length Nat.leb Nat.sub skipn str_eqb andb]. lia. }
      destruct (pf_text us x [c0] size E1 E2) as (X' & E & R & O & C). rewrite E in Hp. inversion Hp; subst. clear Hp.
      apply (mk_reads cm x _ X size); try assumption; try lia. intros seg' text' Hpre Hn. rewrite C in Hn. cbn [app].
      destruct (N.eqb_spec c0 92) as [->|H92].
      * now apply step_bs.
      * apply step_other; try assumption; now apply N.eqb_neq.
Qed.

(* backslash followed by something that is no newline: the head of what follows is no raw newline either *)
Lemma next_not_nl R1 tc tsize : logical1 R1 = Some (tc, tsize) -> N.eqb tc 10 = false ->
  forall more, is_splice_at 92%N (firstn tsize R1 ++ more) = false.
Proof.
  intros Hl Hne more. pose proof (logical1_bounds _ _ _ Hl) as Hb. unfold is_splice_at. cbn [N.eqb Pos.eqb andb].
  destruct R1 as [|a R1]; [cbn in Hb; lia|]. destruct tsize as [|k]; [lia|]. cbn [firstn app].
  destruct (N.eqb_spec a 10) as [->|]; [|reflexivity]. rewrite logical1_nl in Hl. inversion Hl; subst. discriminate.
Qed.

Lemma prefix_mid n R seg' : (n <= List.length R)%nat -> forall k, prefix seg' (skipn (k + n) R) ->
  prefix (firstn n (skipn k R) ++ seg') (skipn k R).
Proof.
  intros _ k [t Ht]. exists t. rewrite <- app_assoc, <- Ht, <- skipn_skipn'. symmetry. apply firstn_skipn.
Qed.

(* backslash + one more logical character that is neither newline nor tab, kept as the two characters *)
Lemma reads_pair cm x size tc tsize X : logical1 (rest x) = Some (92%N, size) ->
  logical1 (skipn size (rest x)) = Some (tc, tsize) -> N.eqb tc 10 = false -> N.eqb tc 9 = false ->
  rest X = skipn (size + tsize) (rest x) -> off X = (off x + (size + tsize))%nat -> col X = col x + Z.of_nat (size + tsize) ->
  reads cm x [92%N; tc] X.
Proof.
  intros Hl Hl2 H10 H9 R O C. pose proof (logical1_bounds _ _ _ Hl) as Hb. pose proof (logical1_bounds _ _ _ Hl2) as Hb2.
  rewrite skipn_length in Hb2.
  apply (mk_reads cm x _ X (size + tsize)%nat); try assumption; try lia. intros seg' text' Hpre Hn. rewrite C in Hn.
  rewrite firstn_add, <- app_assoc. cbn [app].
  apply step_chr; try reflexivity.
  - assumption.
  - apply prefix_mid; [lia|exact Hpre].
  - now apply (next_not_nl _ tc).
  - assert (Hpre2 : prefix seg' (skipn tsize (skipn size (rest x)))) by now rewrite skipn_skipn'.
    replace (col x + Z.of_nat (size + tsize)) with (col x + Z.of_nat size + Z.of_nat tsize) in Hn by lia.
    destruct (N.eqb_spec tc 92) as [->|H92].
    + now apply step_bs.
    + apply step_other; try assumption. now apply N.eqb_neq.
Qed.

(* backslash + a run of simple raw characters (x and hexadecimal digits, octal digits) *)
Lemma reads_bs_run cm x size ds R2 X : logical1 (rest x) = Some (92%N, size) -> skipn size (rest x) = ds ++ R2 ->
  ds <> [] -> forallb simplec ds = true ->
  rest X = skipn (size + List.length ds) (rest x) -> off X = (off x + (size + List.length ds))%nat ->
  col X = col x + Z.of_nat (size + List.length ds) -> reads cm x (92%N :: ds) X.
Proof.
  intros Hl Hs Hne Hd R O C. pose proof (logical1_bounds _ _ _ Hl) as Hb.
  assert (Hlen : (size + List.length ds <= List.length (rest x))%nat).
  { assert (List.length (skipn size (rest x)) = List.length (rest x) - size)%nat by apply skipn_length.
    rewrite Hs, app_length in H. lia. }
  apply (mk_reads cm x _ X (size + List.length ds)%nat); try assumption. intros seg' text' Hpre Hn. rewrite C in Hn.
  rewrite firstn_add, Hs, firstn_app_exact, <- app_assoc. cbn [app].
  rewrite <- skipn_skipn', Hs, skipn_app, skipn_all, Nat.sub_diag in Hpre. cbn [app skipn] in Hpre.
  apply step_chr; try reflexivity.
  - assumption.
  - rewrite Hs. destruct Hpre as [t ->]. exists t. now rewrite app_assoc.
  - unfold is_splice_at. cbn [N.eqb Pos.eqb andb]. destruct ds as [|d ds]; [congruence|]. cbn [app].
    cbn [forallb] in Hd. apply andb_true_iff in Hd as [Hd _]. unfold simplec in Hd. cbn [chr_in existsb] in Hd. lia.
  - apply NM_simple_run; [assumption|]. replace (col x + Z.of_nat size + Z.of_nat (List.length ds)) with (col x + Z.of_nat (size + List.length ds)) by lia.
    exact Hn.
Qed.

(* ------------------------------------------------------------------ the escape branch of pop *)
Lemma simple_plain ds : forallb simplec ds = true -> plain ds.
Proof.
  unfold plain. intros H. apply forallb_forall. intros y Hy. rewrite forallb_forall in H. specialize (H y Hy).
  unfold simplec in H. unfold plainc. cbn [chr_in existsb] in H. lia.
Qed.
Lemma hexdigits_simple : forallb simplec hexadecimal_digits = true.
Proof. vm_compute. reflexivity. Qed.
Lemma octdigits_simple : forallb simplec octal_digits = true.
Proof. vm_compute. reflexivity. Qed.
Lemma chr_in_simple c l : forallb simplec l = true -> chr_in c l = true -> simplec c = true.
Proof. intros Hl Hc. apply chr_in_In in Hc. rewrite forallb_forall in Hl. now apply Hl. Qed.

Lemma hex_after_simple r : exists b, r = hex_after r ++ b /\ forallb simplec (hex_after r) = true.
Proof.
  unfold hex_after. destruct r as [|a r']; [exists []; now split|].
  destruct (chr_in a hexadecimal_digits) eqn:Ea; [|exists (a :: r'); now split].
  pose proof (chr_in_simple _ _ hexdigits_simple Ea) as Pa.
  destruct r' as [|b r'']; [exists []; split; [reflexivity|cbn; now rewrite Pa]|].
  destruct (chr_in b hexadecimal_digits) eqn:Eb.
  - pose proof (chr_in_simple _ _ hexdigits_simple Eb) as Pb. exists r''. split; [reflexivity|cbn; now rewrite Pa, Pb].
  - exists (b :: r''). split; [reflexivity|cbn; now rewrite Pa].
Qed.

(* pop_finish on backslash + simple run *)
Lemma pf_bs_run us x ds size : forallb simplec ds = true -> exists X,
  pop_finish us x (92%N :: ds) size = PopOk (92%N :: ds) X /\ rest X = skipn size (rest x) /\ off X = (off x + size)%nat /\
  col X = col x + Z.of_nat size.
Proof. intros H. destruct (plain_bs_text ds (simple_plain _ H)) as [E1 E2]. now apply pf_text. Qed.

Opaque hex_after.
Lemma reads_escape cm us x size tc tsize char' size' x1 text X :
  logical1 (rest x) = Some (92%N, size) -> logical1 (skipn size (rest x)) = Some (tc, tsize) -> N.eqb tc 10 = false ->
  pop_escape x [92%N] size [tc] tsize = (char', size', x1) -> pop_finish us x1 char' size' = PopOk text X -> cm = false ->
  reads cm x text X.
Proof.
  intros Hl Hl2 H10 He Hp Hcm. subst cm. pose proof (logical1_bounds _ _ _ Hl) as Hb. pose proof (logical1_bounds _ _ _ Hl2) as Hb2.
  rewrite skipn_length in Hb2. unfold pop_escape in He.
  (* a pair backslash + character (tc neither newline nor tab) *)
  assert (Hpair : forall y, same_pos x y -> N.eqb tc 9 = false ->
            pop_finish us y [92%N; tc] (size + tsize) = PopOk text X -> reads false x text X).
  { intros y Hy H9 Hpf.
    assert (E1 : is_nl [92%N; tc] = false) by reflexivity.
    assert (E2 : ends_with [9%N] [92%N; tc] = false).
    { unfold ends_with. cbn [List.length Nat.leb Nat.sub skipn str_eqb andb]. lia. }
    destruct (pf_text us y _ (size + tsize) E1 E2) as (X' & E & R & O & C). rewrite E in Hpf. inversion Hpf; subst. clear Hpf.
    destruct Hy as (A & B & D). rewrite A in R. rewrite B in O. rewrite D in C. now apply (reads_pair false x size tc tsize). }
  (* backslash + simple run *)
  assert (Hrun : forall y ds R2, same_pos x y -> skipn size (rest x) = ds ++ R2 -> ds <> [] -> forallb simplec ds = true ->
            pop_finish us y (92%N :: ds) (size + List.length ds) = PopOk text X -> reads false x text X).
  { intros y ds R2 Hy Hs Hne Hd Hpf.
    destruct (pf_bs_run us y ds (size + List.length ds) Hd) as (X' & E & R & O & C). rewrite E in Hpf. inversion Hpf; subst. clear Hpf.
    destruct Hy as (A & B & D). rewrite A in R. rewrite B in O. rewrite D in C. now apply (reads_bs_run false x size ds R2). }
  destruct (is_substr [tc] pop_escape_letters) eqn:B1.
  { injection He as <- <- <-. pose proof (is_substr1_plain _ _ escape_letters_plain B1) as Pc. unfold plainc in Pc.
    apply (Hpair x (same_pos_refl x)); [lia|exact Hp]. }
  destruct (str_eqb [tc] (s "x")) eqn:B2.
  { apply str_eqb_eq in B2. change (s "x") with [120%N] in B2. inversion B2; subst tc.
    destruct (logical1_raw _ _ _ Hl2 eq_refl) as [-> [t Ht]].
    assert (Hafter : skipn (S size) (rest x) = t).
    { replace (S size) with (size + 1)%nat by lia. now rewrite <- skipn_skipn', Ht. }
    cbv zeta in He. rewrite Hafter in He.
    assert (Hnohex : forall d, pop_finish us (add_err d x) ([92%N] ++ [120%N]) (S size) = PopOk text X -> reads false x text X).
    { intros d Hpf. apply (Hrun (add_err d x) [120%N] t (same_pos_add_err d x) Ht); [discriminate|reflexivity|].
      cbn [List.length app] in *. now replace (size + 1)%nat with (S size) by lia. }
    destruct t as [|a t'].
    - injection He as <- <- <-. eapply Hnohex; eassumption.
    - destruct (chr_in a hexadecimal_digits) eqn:Eh.
      + injection He as <- <- <-. destruct (hex_after_simple (a :: t')) as [b [Hh1 Hh2]].
        set (h := hex_after (a :: t')) in *.
        apply (Hrun x (120%N :: h) b (same_pos_refl x)); [rewrite Ht, Hh1; reflexivity|discriminate|cbn [forallb]; now rewrite Hh2|].
        cbn [List.length app] in *. now replace (size + S (List.length h))%nat with (S size + List.length h)%nat by lia.
      + injection He as <- <- <-. eapply Hnohex; eassumption. }
  destruct (is_substr [tc] octal_digits) eqn:B3.
  { destruct (NumRe.span (fun c => chr_in c octal_digits) (skipn size (rest x))) as [o r2] eqn:Es.
    injection He as <- <- <-. destruct (span_prefix _ _ _ _ Es) as [Ho1 Ho2].
    assert (Hos : forallb simplec o = true).
    { apply forallb_forall. intros y Hy. rewrite forallb_forall in Ho2. eapply chr_in_simple; [apply octdigits_simple|now apply Ho2]. }
    assert (Hne : o <> []).
    { apply is_substr1_In in B3. pose proof octdigits_simple as Hs. rewrite forallb_forall in Hs. specialize (Hs _ B3).
      assert (Hraw : chr_in tc [123; 125; 91; 93; 35; 92; 94; 124; 126]%N = false).
      { unfold simplec in Hs. clear - B3. vm_compute in B3. repeat (destruct B3 as [<-|B3]; [reflexivity|]). contradiction. }
      destruct (logical1_raw _ _ _ Hl2 Hraw) as [_ [t Ht]]. rewrite Ht in Es. cbn [NumRe.span] in Es.
      assert (Hin : chr_in tc octal_digits = true) by (apply existsb_exists; exists tc; split; [assumption|apply N.eqb_refl]).
      rewrite Hin in Es. destruct (NumRe.span (fun c => chr_in c octal_digits) t). inversion Es. discriminate. }
    apply (Hrun x o r2 (same_pos_refl x) Ho1 Hne Hos). exact Hp. }
  (* unknown escape *)
  injection He as <- <- <-. destruct (N.eqb_spec tc 9) as [->|H9].
  - destruct (logical1_raw _ _ _ Hl2 eq_refl) as [-> [t Ht]].
    match type of Hp with pop_finish _ ?y _ _ = _ => set (y0 := y) in * end.
    destruct (pf_bs_tab us y0 (size + 1)) as (X' & E & R & O & C). change ([92%N] ++ [9%N]) with [92%N; 9%N] in Hp.
    rewrite E in Hp. inversion Hp; subst. clear Hp E.
    change (rest y0) with (rest x) in R. change (off y0) with (off x) in O. change (col y0) with (col x) in C.
    apply (mk_reads false x _ X (size + 1)%nat); try assumption; try lia. intros seg' text' Hpre Hn. rewrite C in Hn.
    rewrite firstn_add, <- app_assoc. cbn [app].
    apply step_chr; try reflexivity; [assumption|apply prefix_mid; [lia|exact Hpre]|now apply (next_not_nl _ 9%N)|].
    assert (Hpre2 : prefix seg' (skipn 1 (skipn size (rest x)))) by now rewrite skipn_skipn'.
    pose proof (step_tab false (col x + Z.of_nat size) _ 1%nat seg' text' Hl2 Hpre2) as Hst. cbn [app] in Hst. apply Hst.
    replace (col x + Z.of_nat (size + 1) - 1 - 1) with (col x + Z.of_nat size - 1) in Hn by lia.
    match goal with |- NM _ ?k _ _ => match type of Hn with NM _ ?k' _ _ => replace k with k' by lia end end. exact Hn.
  - match type of Hp with pop_finish _ ?y _ _ = _ => apply (Hpair y) end; [apply same_pos_add_err|reflexivity|exact Hp].
Qed.
Transparent hex_after.

(* ------------------------------------------------------------------ pop, popn *)
Lemma is_bs_92 c0 : is_bs [c0] = true -> c0 = 92%N.
Proof. unfold is_bs, bs. cbn. rewrite andb_true_r. apply N.eqb_eq. Qed.
Lemma is_nl_10 c0 : is_nl [c0] = (c0 =? 10)%N.
Proof. unfold is_nl, nl. cbn. apply andb_true_r. Qed.

Lemma pop_finish_ok us x c sz : exists t X, pop_finish us x c sz = PopOk t X.
Proof. unfold pop_finish. destruct (ends_with [9%N] c); eexists; eexists; reflexivity. Qed.

(* backslash (size raw characters) + newline: the lexer moves past both, to column 1 *)
Lemma reads_splice cm x size tsize : logical1 (rest x) = Some (92%N, size) ->
  logical1 (skipn size (rest x)) = Some (10%N, tsize) ->
  reads cm x [] (set_pos (line x + 1) 1 (advance (S size) x)).
Proof.
  intros Hl Hl2. pose proof (logical1_bounds _ _ _ Hl) as Hb. pose proof (logical1_bounds _ _ _ Hl2) as Hb2.
  rewrite skipn_length in Hb2. destruct (logical1_raw _ _ _ Hl2 eq_refl) as [-> [t Ht]].
  apply (mk_reads cm x [] _ (S size)); try reflexivity; try lia.
  intros seg' text' Hpre Hn. cbn [col set_pos app] in *.
  apply (step_drop cm (col x) (rest x) size t); try assumption.
  replace (S size) with (size + 1)%nat in Hpre by lia. now rewrite <- skipn_skipn', Ht in Hpre.
Qed.

Lemma pop_inner_reads cm : forall fuel us ue x text x',
  pop_inner fuel us ue x = PopOk text x' -> tabs_ok us ue cm text -> reads cm x text x'.
Proof.
  induction fuel as [|fuel IH]; intros us ue x text x' H [Hue Hus]; cbn [pop_inner] in H; [discriminate|].
  destruct (peek1 (rest x)) as [[char size]|] eqn:Ep; [|discriminate].
  destruct (peek1_logical _ _ _ Ep) as [c0 [-> Hl]].
  destruct (is_bs [c0]) eqn:Ebs; cbn [negb] in H; [|now apply (reads_single cm us x c0 size)].
  apply is_bs_92 in Ebs. subst c0.
  destruct (peek1 (skipn size (rest x))) as [[temp tsize]|] eqn:Ep2; [|now apply (reads_single cm us x 92%N size)].
  destruct (peek1_logical _ _ _ Ep2) as [tc [-> Hl2]]. rewrite is_nl_10 in H.
  destruct (N.eqb_spec tc 10) as [E10|Hne]; cbn [negb] in H; [subst tc|].
  - set (x2 := set_pos (line x + 1) 1 (advance (S size) x)) in *.
    destruct (peek1 (rest x2)); [|discriminate].
    change text with ([] ++ text). apply (reads_trans cm x [] x2); [now apply (reads_splice cm x size tsize)|].
    apply (IH us ue); [assumption|now split].
  - destruct ue.
    + destruct (pop_escape x [92%N] size [tc] tsize) as [[char' size'] x1] eqn:Ee.
      apply (reads_escape cm us x size tc tsize char' size' x1); try assumption; [now apply N.eqb_neq|now apply Hue].
    + now apply (reads_single cm us x 92%N size).
Qed.

Lemma pop_inner_eof cm : forall fuel us ue x x', pop_inner fuel us ue x = PopEOF x' -> reads cm x [] x' /\ rest x' = [].
Proof.
  induction fuel as [|fuel IH]; intros us ue x x' H; cbn [pop_inner] in H; [discriminate|].
  destruct (peek1 (rest x)) as [[char size]|] eqn:Ep.
  2: { inversion H; subst. split; [apply reads_refl|now apply peek1_none]. }
  assert (Hfin : forall y c sz, pop_finish us y c sz = PopEOF x' -> False).
  { intros y c sz Hf. destruct (pop_finish_ok us y c sz) as (t & X & E). congruence. }
  destruct (peek1_logical _ _ _ Ep) as [c0 [-> Hl]].
  destruct (is_bs [c0]) eqn:Ebs; cbn [negb] in H; [|destruct (Hfin _ _ _ H)].
  apply is_bs_92 in Ebs. subst c0.
  destruct (peek1 (skipn size (rest x))) as [[temp tsize]|] eqn:Ep2; [|destruct (Hfin _ _ _ H)].
  destruct (peek1_logical _ _ _ Ep2) as [tc [-> Hl2]]. rewrite is_nl_10 in H.
  destruct (N.eqb_spec tc 10) as [E10|Hne]; cbn [negb] in H; [subst tc|].
  - set (x2 := set_pos (line x + 1) 1 (advance (S size) x)) in *.
    pose proof (reads_splice cm x size tsize Hl Hl2) as Hsp. fold x2 in Hsp.
    destruct (peek1 (rest x2)) eqn:Ep3.
    + destruct (IH us ue x2 x' H) as [Hr He]. split; [|exact He]. change (@nil N) with (@nil N ++ []). now apply (reads_trans cm x [] x2).
    + inversion H; subst. split; [exact Hsp|now apply peek1_none].
  - destruct ue; [|destruct (Hfin _ _ _ H)].
    destruct (pop_escape x [92%N] size [tc] tsize) as [[char' size'] x1]. destruct (Hfin _ _ _ H).
Qed.

Lemma pop1_reads cm us ue x text x' : pop1 us ue x = PopOk text x' -> tabs_ok us ue cm text -> reads cm x text x'.
Proof. apply pop_inner_reads. Qed.
Lemma pop1_eof cm us ue x x' : pop1 us ue x = PopEOF x' -> reads cm x [] x' /\ rest x' = [].
Proof. apply pop_inner_eof. Qed.

Lemma tabs_ok_plain text : tabs_ok false false false text.
Proof. split; [discriminate|now left]. Qed.
Lemma tabs_ok_escape text : tabs_ok false true false text.
Proof. split; [reflexivity|now left]. Qed.
Lemma tabs_ok_comment text : tabs_ok true false true text.
Proof. split; [discriminate|now left]. Qed.

Lemma popn_S n x acc : popn (S n) x acc =
  match pop1 false false x with PopOk c x' => popn n x' (acc ++ c) | PopEOF x' => PopEOF x' | PopMIL => PopMIL end.
Proof. reflexivity. Qed.

Lemma popn_reads : forall n x acc text x', popn n x acc = PopOk text x' -> exists t, text = acc ++ t /\ reads false x t x'.
Proof.
  induction n as [|n IH]; intros x acc text x' H.
  - cbn [popn] in H. inversion H; subst. exists []. split; [now rewrite app_nil_r|apply reads_refl].
  - rewrite popn_S in H. destruct (pop1 false false x) as [c x1|x1|] eqn:E; try discriminate.
    destruct (IH _ _ _ _ H) as [t [-> Hr]]. exists (c ++ t). split; [now rewrite app_assoc|].
    apply (reads_trans false x c x1); [|exact Hr]. apply (pop1_reads false false false); [assumption|apply tabs_ok_plain].
Qed.

(* ------------------------------------------------------------------ loops: the value grows by what the pops read *)
Lemma same_pos_trans x y z : same_pos x y -> same_pos y z -> same_pos x z.
Proof. intros (A & B & C) (D & E & F). repeat split; congruence. Qed.

Lemma ident_loop_S fuel value x : ident_loop (S fuel) value x =
  match rest x with
  | [] => IDone value x
  | c :: _ =>
      if negb (is_ident_char c) then IDone value x
      else match pop1 false false x with
           | PopOk t x' => ident_loop fuel (value ++ t) x'
           | PopEOF _ => IExn UnexpectedEOF
           | PopMIL => IExn MaybeInfiniteLoop
           end
  end.
Proof. reflexivity. Qed.
Lemma lc_loop_S fuel value x : lc_loop (S fuel) value x =
  match peek1 (rest x) with
  | None => LDone value x
  | Some (c, _) =>
      if is_nl c then LDone value x
      else match pop1 false false x with
           | PopMIL => LMIL
           | PopEOF x' => LDone value x'
           | PopOk t x' => lc_loop fuel (value ++ t) x'
           end
  end.
Proof. reflexivity. Qed.
Lemma string_loop_S fuel value x : string_loop (S fuel) value x =
  match peek1 (rest x) with
  | None => SDone value false x
  | Some _ =>
      match pop1 false true x with
      | PopMIL => SMIL
      | PopEOF x' => string_loop fuel value x'
      | PopOk c x' => if str_eqb c [34%N] then SDone (value ++ c) true x' else string_loop fuel (value ++ c) x'
      end
  end.
Proof. reflexivity. Qed.
Lemma mc_loop_S fuel value x : mc_loop (S fuel) value x =
  match peek1 (rest x) with
  | None => MDone value true x
  | Some _ =>
      match pop1 true false x with
      | PopMIL => MMIL
      | PopEOF x' => MDone value true x'
      | PopOk c x' => let v := value ++ c in if ends_with (s "*/") v then MDone v false x' else mc_loop fuel v x'
      end
  end.
Proof. reflexivity. Qed.
Lemma char_loop_S fuel l0 c0 value chars x : char_loop (S fuel) l0 c0 value chars x =
  match pop1 false true x with
  | PopMIL => CMIL
  | PopEOF x' =>
      CDone value chars (add_err (from_name (s "UNEXPECTED_EOF_CHR") lv_error [mkhl l0 c0 (Some (zl value)) None]) x')
  | PopOk c x' =>
      if is_nl c then
        CDone value chars
          (add_err (from_name (s "UNEXPECTED_EOL_CHR") lv_error
                      [mkhl l0 c0 (Some (zl value)) None;
                       mkhl l0 (c0 + zl value) (Some 1) (Some (s "Perhaps you forgot a single quote (')?"))])
                   (mkst (rest x) (off x) (line x) (col x) (errs x')))
      else if str_eqb c [39%N] then CDone (value ++ c) chars x'
      else char_loop fuel l0 c0 (value ++ c) (S chars) x'
  end.
Proof. reflexivity. Qed.

Lemma ident_loop_reads : forall fuel value x v' x', ident_loop fuel value x = IDone v' x' ->
  exists t, v' = value ++ t /\ reads false x t x'.
Proof.
  induction fuel as [|fuel IH]; intros value x v' x' H; [cbn in H; discriminate|]. rewrite ident_loop_S in H.
  assert (Hdone : IDone value x = IDone v' x' -> exists t, v' = value ++ t /\ reads false x t x').
  { intros E; inversion E; subst. exists []. split; [now rewrite app_nil_r|apply reads_refl]. }
  destruct (rest x) as [|c r] eqn:Er; [now apply Hdone|].
  destruct (negb (is_ident_char c)); [now apply Hdone|].
  destruct (pop1 false false x) as [t x1|x1|] eqn:Ep; try discriminate.
  destruct (IH _ _ _ _ H) as [t2 [-> Hr]]. exists (t ++ t2). split; [now rewrite app_assoc|].
  apply (reads_trans false x t x1); [|exact Hr]. apply (pop1_reads false false false); [assumption|apply tabs_ok_plain].
Qed.

Lemma lc_loop_reads : forall fuel value x v' x', lc_loop fuel value x = LDone v' x' ->
  exists t, v' = value ++ t /\ reads false x t x'.
Proof.
  induction fuel as [|fuel IH]; intros value x v' x' H; [cbn in H; discriminate|]. rewrite lc_loop_S in H.
  assert (Hdone : LDone value x = LDone v' x' -> exists t, v' = value ++ t /\ reads false x t x').
  { intros E; inversion E; subst. exists []. split; [now rewrite app_nil_r|apply reads_refl]. }
  destruct (peek1 (rest x)) as [[c n]|]; [|now apply Hdone].
  destruct (is_nl c); [now apply Hdone|].
  destruct (pop1 false false x) as [t x1|x1|] eqn:Ep; try discriminate.
  - destruct (IH _ _ _ _ H) as [t2 [-> Hr]]. exists (t ++ t2). split; [now rewrite app_assoc|].
    apply (reads_trans false x t x1); [|exact Hr]. apply (pop1_reads false false false); [assumption|apply tabs_ok_plain].
  - inversion H; subst. exists []. split; [now rewrite app_nil_r|]. now apply (pop1_eof false false false).
Qed.

Lemma string_loop_reads : forall fuel value x v' cl x', string_loop fuel value x = SDone v' cl x' ->
  exists t, v' = value ++ t /\ reads false x t x'.
Proof.
  induction fuel as [|fuel IH]; intros value x v' cl x' H; [cbn in H; discriminate|]. rewrite string_loop_S in H.
  destruct (peek1 (rest x)) as [[c n]|].
  2: { inversion H; subst. exists []. split; [now rewrite app_nil_r|apply reads_refl]. }
  destruct (pop1 false true x) as [t x1|x1|] eqn:Ep; try discriminate.
  - pose proof (pop1_reads false false true x t x1 Ep (tabs_ok_escape t)) as Hr1.
    destruct (str_eqb t [34%N]).
    + inversion H; subst. exists t. split; [reflexivity|]. rewrite <- (app_nil_r t). apply (reads_trans false x t x'); [assumption|apply reads_refl].
    + destruct (IH _ _ _ _ _ H) as [t2 [-> Hr]]. exists (t ++ t2). split; [now rewrite app_assoc|]. now apply (reads_trans false x t x1).
  - destruct (IH _ _ _ _ _ H) as [t2 [-> Hr]]. exists t2. split; [reflexivity|].
    change t2 with ([] ++ t2). apply (reads_trans false x [] x1); [now apply (pop1_eof false false true)|exact Hr].
Qed.

Lemma char_loop_reads : forall fuel l0 c0 value chars x v' ch' x', char_loop fuel l0 c0 value chars x = CDone v' ch' x' ->
  exists t, v' = value ++ t /\ reads false x t x'.
Proof.
  induction fuel as [|fuel IH]; intros l0 c0 value chars x v' ch' x' H; [cbn in H; discriminate|]. rewrite char_loop_S in H.
  destruct (pop1 false true x) as [t x1|x1|] eqn:Ep; try discriminate.
  - pose proof (pop1_reads false false true x t x1 Ep (tabs_ok_escape t)) as Hr1.
    destruct (is_nl t).
    + inversion H; subst. exists []. split; [now rewrite app_nil_r|].
      apply (reads_same_r false x [] x); [repeat split|apply reads_refl].
    + destruct (str_eqb t [39%N]).
      * inversion H; subst. exists t. split; [reflexivity|]. rewrite <- (app_nil_r t). apply (reads_trans false x t x'); [assumption|apply reads_refl].
      * destruct (IH _ _ _ _ _ _ _ _ H) as [t2 [-> Hr]]. exists (t ++ t2). split; [now rewrite app_assoc|]. now apply (reads_trans false x t x1).
  - inversion H; subst. exists []. split; [now rewrite app_nil_r|].
    apply (reads_same_r false x [] x1); [apply same_pos_add_err|now apply (pop1_eof false false true)].
Qed.

Lemma mc_loop_reads : forall fuel value x v' eof x', mc_loop fuel value x = MDone v' eof x' ->
  exists t, v' = value ++ t /\ reads true x t x'.
Proof.
  induction fuel as [|fuel IH]; intros value x v' eof x' H; [cbn in H; discriminate|]. rewrite mc_loop_S in H.
  destruct (peek1 (rest x)) as [[c n]|].
  2: { inversion H; subst. exists []. split; [now rewrite app_nil_r|apply reads_refl]. }
  destruct (pop1 true false x) as [t x1|x1|] eqn:Ep; try discriminate.
  - pose proof (pop1_reads true true false x t x1 Ep (tabs_ok_comment t)) as Hr1. cbv zeta in H.
    destruct (ends_with (s "*/") (value ++ t)).
    + inversion H; subst. exists t. split; [reflexivity|]. rewrite <- (app_nil_r t). apply (reads_trans true x t x'); [assumption|apply reads_refl].
    + destruct (IH _ _ _ _ _ H) as [t2 [-> Hr]]. exists (t ++ t2). split; [now rewrite app_assoc|]. now apply (reads_trans true x t x1).
  - inversion H; subst. exists []. split; [now rewrite app_nil_r|]. now apply (pop1_eof true true false).
Qed.

Lemma quote_prefix_reads q : forall ps x pre x1, quote_prefix q ps x = Some (PopOk pre x1) -> reads false x pre x1.
Proof.
  induction ps as [|p ps IH]; intros x pre x1 H; cbn [quote_prefix] in H.
  - inversion H; subst. apply reads_refl.
  - destruct (raw_peek (S (List.length p)) (rest x)) as [[|a r]|]; try discriminate.
    destruct (starts_with p (a :: r) && ends_with [q] (a :: r)); [|now apply IH].
    inversion H as [E]. destruct (popn_reads _ _ _ _ _ E) as [t [-> Hr]]. exact Hr.
Qed.

(* ------------------------------------------------------------------ sub-parsers *)
Definition tok_cm (t : token) : bool := str_eqb (t_type t) (s "MULT_COMMENT").
Definition tok_ok (x : st) (r : pres) : Prop :=
  match r with
  | PTok t x' => exists text, text_of t = Some text /\ reads (tok_cm t) x text x'
  | _ => True
  end.

Lemma of_popres_ok x r k : (forall t x1, r = PopOk t x1 -> tok_ok x (k t x1)) -> tok_ok x (of_popres r k).
Proof. intros H. destruct r; cbn; auto. Qed.

Lemma if_add_err_pos (b : bool) d x : same_pos x (if b then add_err d x else x).
Proof. destruct b; [apply same_pos_add_err|apply same_pos_refl]. Qed.

Lemma parse_char_literal_text x : tok_ok x (parse_char_literal x).
Proof.
  unfold parse_char_literal.
  destruct (quote_prefix 39%N quote_prefixes x) as [[pre x1|x1|]|] eqn:Eq; try exact I.
  destruct (negb (first_is 39%N (rest x1))); [exact I|].
  destruct (pop1 false false x1) as [q x2|x2|] eqn:Ep; try exact I.
  destruct (char_loop char_loop_bound (line x) (col x) (pre ++ q) 0 x2) as [value chars x3|] eqn:Ec; [|exact I].
  cbv zeta. cbn [tok_ok]. exists value. split; [reflexivity|]. change (tok_cm _) with false.
  destruct (char_loop_reads _ _ _ _ _ _ _ _ _ Ec) as [t [-> Hr3]].
  eapply reads_same_r; [eapply same_pos_trans; apply if_add_err_pos|].
  rewrite <- app_assoc. apply (reads_trans false x pre x1); [now apply (quote_prefix_reads 39%N quote_prefixes)|].
  apply (reads_trans false x1 q x2); [apply (pop1_reads false false false); [assumption|apply tabs_ok_plain]|exact Hr3].
Qed.

Lemma parse_string_literal_text x : tok_ok x (parse_string_literal x).
Proof.
  unfold parse_string_literal. destruct (peek1 (rest x)); [|exact I].
  destruct (quote_prefix 34%N quote_prefixes x) as [[pre x1|x1|]|] eqn:Eq; try exact I.
  destruct (negb (first_is 34%N (rest x1))); [exact I|].
  destruct (pop1 false false x1) as [q x2|x2|] eqn:Ep; try exact I.
  destruct (string_loop (S (List.length (rest x2))) (pre ++ q) x2) as [value closed x3| |] eqn:Ec; try exact I.
  cbv zeta. cbn [tok_ok]. exists value. split; [reflexivity|]. change (tok_cm _) with false.
  destruct (string_loop_reads _ _ _ _ _ _ Ec) as [t [-> Hr3]].
  assert (Hr : reads false x ((pre ++ q) ++ t) x3).
  { rewrite <- app_assoc. apply (reads_trans false x pre x1); [now apply (quote_prefix_reads 34%N quote_prefixes)|].
    apply (reads_trans false x1 q x2); [apply (pop1_reads false false false); [assumption|apply tabs_ok_plain]|exact Hr3]. }
  destruct closed; [exact Hr|]. eapply reads_same_r; [apply same_pos_add_err|exact Hr].
Qed.

Lemma parse_identifier_text_val x : match parse_identifier x with
  | PTok t x' => exists v, reads false x v x' /\
      match assoc v keywords with Some k => t = mktok k (line x) (col x) None | None => t = mktok (s "IDENTIFIER") (line x) (col x) (Some v) end
  | _ => True end.
Proof.
  unfold parse_identifier. destruct (rest x) as [|c r] eqn:Er; [exact I|].
  destruct (negb (is_ident_start c)); [exact I|].
  destruct (pop1 false false x) as [v x1|x1|] eqn:Ep; cbn [of_popres]; try exact I.
  destruct (ident_loop (S (List.length (rest x1))) v x1) as [value x2|e] eqn:Ei; [|exact I].
  destruct (ident_loop_reads _ _ _ _ _ Ei) as [t [-> Hr]].
  assert (Hrr : reads false x (v ++ t) x2).
  { apply (reads_trans false x v x1); [apply (pop1_reads false false false); [assumption|apply tabs_ok_plain]|exact Hr]. }
  destruct (assoc (v ++ t) keywords) as [k|] eqn:Ek; exists (v ++ t); (split; [exact Hrr|]); rewrite Ek; reflexivity.
Qed.

(* the dictionary: a token type determines its spelling *)
Definition none_of_ws (k : str) : bool :=
  negb (str_eqb k (s "MULT_COMMENT")) && negb (str_eqb k (s "SPACE")) && negb (str_eqb k (s "TAB")) && negb (str_eqb k (s "NEWLINE")).
Lemma keywords_fact : forallb (fun kv => none_of_ws (snd kv) &&
    match rassoc (snd kv) keywords with Some v => str_eqb v (fst kv) | None => false end) keywords = true.
Proof. vm_compute. reflexivity. Qed.
Lemma operators_fact : forallb (fun kv => none_of_ws (snd kv) &&
    match rassoc (snd kv) keywords with Some _ => false | None => true end &&
    match rassoc (snd kv) operators with Some v => str_eqb v (fst kv) | None => false end) operators = true.
Proof. vm_compute. reflexivity. Qed.
Lemma brackets_fact : forallb (fun kv => none_of_ws (snd kv) &&
    match rassoc (snd kv) keywords with Some _ => false | None => true end &&
    match rassoc (snd kv) operators with Some _ => false | None => true end &&
    match rassoc (snd kv) brackets with Some v => str_eqb v (fst kv) | None => false end) brackets = true.
Proof. vm_compute. reflexivity. Qed.

Lemma none_of_ws_spec k : none_of_ws k = true ->
  str_eqb k (s "MULT_COMMENT") = false /\ str_eqb k (s "SPACE") = false /\ str_eqb k (s "TAB") = false /\ str_eqb k (s "NEWLINE") = false.
Proof. unfold none_of_ws. intros H. repeat (apply andb_true_iff in H as [H ?]). repeat split; now apply negb_true_iff. Qed.

Lemma text_of_keyword v k l c : assoc v keywords = Some k ->
  text_of (mktok k l c None) = Some v /\ tok_cm (mktok k l c None) = false.
Proof.
  intros H. apply assoc_in in H. pose proof keywords_fact as F. rewrite forallb_forall in F. specialize (F _ H). cbn [fst snd] in F.
  apply andb_true_iff in F as [Fw Fr]. destruct (none_of_ws_spec _ Fw) as (A & B & C & D).
  unfold text_of, tok_cm. cbn [t_val t_type]. rewrite A, B, C, D.
  destruct (rassoc k keywords) as [v'|]; [|discriminate]. apply str_eqb_eq in Fr. subst. now split.
Qed.
Lemma text_of_operator v k l c : assoc v operators = Some k ->
  text_of (mktok k l c None) = Some v /\ tok_cm (mktok k l c None) = false.
Proof.
  intros H. apply assoc_in in H. pose proof operators_fact as F. rewrite forallb_forall in F. specialize (F _ H). cbn [fst snd] in F.
  apply andb_true_iff in F as [F Fr]. apply andb_true_iff in F as [Fw Fk]. destruct (none_of_ws_spec _ Fw) as (A & B & C & D).
  unfold text_of, tok_cm. cbn [t_val t_type]. rewrite A, B, C, D.
  destruct (rassoc k keywords); [discriminate|].
  destruct (rassoc k operators) as [v'|]; [|discriminate]. apply str_eqb_eq in Fr. subst. now split.
Qed.
Lemma text_of_bracket v k l c : assoc v brackets = Some k ->
  text_of (mktok k l c None) = Some v /\ tok_cm (mktok k l c None) = false.
Proof.
  intros H. apply assoc_in in H. pose proof brackets_fact as F. rewrite forallb_forall in F. specialize (F _ H). cbn [fst snd] in F.
  apply andb_true_iff in F as [F Fr]. apply andb_true_iff in F as [F Fo]. apply andb_true_iff in F as [Fw Fk].
  destruct (none_of_ws_spec _ Fw) as (A & B & C & D).
  unfold text_of, tok_cm. cbn [t_val t_type]. rewrite A, B, C, D.
  destruct (rassoc k keywords); [discriminate|]. destruct (rassoc k operators); [discriminate|].
  destruct (rassoc k brackets) as [v'|]; [|discriminate]. apply str_eqb_eq in Fr. subst. now split.
Qed.

Lemma parse_identifier_text x : tok_ok x (parse_identifier x).
Proof.
  pose proof (parse_identifier_text_val x) as H. destruct (parse_identifier x) as [|t x'|]; try exact I.
  destruct H as [v [Hr Ht]]. cbn [tok_ok]. destruct (assoc v keywords) as [k|] eqn:Ek; subst t.
  - destruct (text_of_keyword v k (line x) (col x) Ek) as [E1 E2]. exists v. rewrite E2. now split.
  - exists v. split; [reflexivity|exact Hr].
Qed.

Lemma op_token_text x r : (forall t x1, r = PopOk t x1 -> reads false x t x1) -> tok_ok x (op_token x r).
Proof.
  intros H. unfold op_token. apply of_popres_ok. intros t x1 E. destruct (assoc t operators) as [ty|] eqn:Ea; [|exact I].
  cbn [tok_ok]. destruct (text_of_operator t ty (line x) (col x) Ea) as [E1 E2]. exists t. rewrite E2. split; [exact E1|now apply H].
Qed.

Lemma popn0_reads n x t x1 : popn n x [] = PopOk t x1 -> reads false x t x1.
Proof. intros H. destruct (popn_reads _ _ _ _ _ H) as [t' [-> Hr]]. exact Hr. Qed.

Lemma parse_operator_text x : tok_ok x (parse_operator x).
Proof.
  unfold parse_operator. destruct (peek1 (rest x)) as [[char n]|]; [|exact I].
  destruct (negb (is_substr char op_start_chars)); [exact I|]. cbv zeta.
  assert (H1 : tok_ok x (op_token x (pop1 false false x))).
  { apply op_token_text. intros t x1 E. apply (pop1_reads false false false); [assumption|apply tabs_ok_plain]. }
  assert (H2 : tok_ok x (op_token x (popn 2 x []))) by (apply op_token_text; intros t x1 E; now apply (popn0_reads 2)).
  assert (H3 : tok_ok x (op_token x (popn 3 x []))) by (apply op_token_text; intros t x1 E; now apply (popn0_reads 3)).
  destruct (is_substr char op_multi_chars); [|exact H1].
  destruct (match raw_peek 3 (rest x) with Some r => str_in r op_three | None => false end); [exact H3|].
  destruct (peek2 (rest x)) as [[temp n2]|]; [|exact I].
  destruct (str_in temp op_two); [exact H2|].
  destruct (str_eqb temp (char ++ s "=") && _); [exact H2|].
  destruct (is_substr char op_double_chars && str_eqb temp (char ++ char)); [exact H2|exact H1].
Qed.

Lemma parse_brackets_text x : tok_ok x (parse_brackets x).
Proof.
  unfold parse_brackets. destruct (peek1 (rest x)) as [[char n]|]; [|exact I].
  destruct (assoc char brackets); [|exact I]. apply of_popres_ok. intros v x1 E.
  destruct (assoc v brackets) as [ty|] eqn:Ea; [|exact I]. cbn [tok_ok].
  destruct (text_of_bracket v ty (line x) (col x) Ea) as [E1 E2]. exists v. rewrite E2. split; [exact E1|].
  apply (pop1_reads false false false); [assumption|apply tabs_ok_plain].
Qed.

Lemma parse_line_comment_text x : tok_ok x (parse_line_comment x).
Proof.
  unfold parse_line_comment. destruct (raw_peek 2 (rest x)) as [r|]; [|exact I].
  destruct (negb (str_eqb r (s "//"))); [exact I|]. apply of_popres_ok. intros v x1 E.
  destruct (lc_loop (S (List.length (rest x1))) v x1) as [value x2| |] eqn:El; try exact I.
  destruct (lc_loop_reads _ _ _ _ _ El) as [t [-> Hr]]. cbn [tok_ok]. exists (v ++ t). split; [reflexivity|].
  change (tok_cm _) with false. apply (reads_trans false x v x1); [now apply (popn0_reads 2)|exact Hr].
Qed.

Lemma same_pos_check_bad_prefix name bucket l0 c0 p c x : same_pos x (check_bad_prefix name bucket l0 c0 p c x).
Proof. unfold check_bad_prefix. destruct (bad_digit_hls _ _ _ _ _); [apply same_pos_refl|apply same_pos_add_err]. Qed.

Lemma parse_integer_literal_text uw ud x : tok_ok x (parse_integer_literal uw ud x).
Proof.
  unfold parse_integer_literal. destruct (int_match uw ud (rest x)) as [[[p c] sfx]|]; [|exact I]. cbv zeta.
  apply of_popres_ok. intros slice x1 E. cbn [tok_ok]. exists slice. split; [reflexivity|]. change (tok_cm _) with false.
  set (x2 := if str_in sfx integer_suffixes then x1 else _).
  assert (H2 : same_pos x1 x2).
  { unfold x2. destruct (str_in sfx integer_suffixes); [apply same_pos_refl|].
    destruct sfx as [|c1 sfx']; [apply same_pos_refl|]. destruct (chr_in c1 (s "+-")); apply same_pos_add_err. }
  clearbody x2.
  apply (reads_same_r false x slice x2); [|apply (reads_same_r false x slice x1 x2 H2); exact (popn0_reads _ _ _ _ E)].
  destruct (str_in p [s "0b"; s "0B"]); [apply same_pos_check_bad_prefix|].
  destruct (str_eqb p (s "0")); [apply same_pos_check_bad_prefix|].
  destruct (str_in p [s "0x"; s "0X"]); [apply same_pos_check_bad_prefix|apply same_pos_refl].
Qed.

Lemma parse_float_literal_text uw ud x : tok_ok x (parse_float_literal uw ud x).
Proof.
  unfold parse_float_literal. destruct (rest x) as [|a r] eqn:Er; [exact I|]. cbv zeta.
  match goal with |- tok_ok _ (match ?m with Some _ => _ | None => PNone end) => destruct m as [[ty [[c e] sfx]]|] end; [|exact I].
  match goal with |- tok_ok _ (match ?v with Some err => _ | None => PNone end) => destruct v as [err|] end; [|exact I].
  apply of_popres_ok. intros slice x2 E. cbn [tok_ok]. exists slice. split; [reflexivity|]. change (tok_cm _) with false.
  eapply reads_same_l; [|exact (popn0_reads _ _ _ _ E)].
  destruct err; [apply same_pos_sym; apply same_pos_add_err|apply same_pos_refl].
Qed.

(* ------------------------------------------------------------------ a first character that starts no di/trigraph *)
Lemma std_digraph_head a b t : std_digraph a b = Some t -> chr_in a [60; 37; 58]%N = true.
Proof.
  unfold std_digraph. destruct a as [|p]; [discriminate|].
  repeat (destruct p as [p|p|]; try discriminate); intros _; reflexivity.
Qed.

Lemma peek1_nohead' c r : chr_in c [63; 60; 37; 58]%N = false -> peek1 (c :: r) = Some ([c], 1%nat).
Proof.
  intros H. unfold peek1.
  destruct (assoc (firstn 3 (c :: r)) trigraphs) as [v|] eqn:E3.
  { exfalso. destruct (assoc_trigraph_std _ _ E3) as (a & b & c' & t & Hk & Hs & _).
    assert (a = c) by (destruct r as [|? [|? ?]]; cbn in Hk; inversion Hk; reflexivity). subst a.
    unfold std_trigraph in Hs. destruct (N.eqb_spec c 63) as [->|]; [discriminate|]. cbn in Hs. discriminate. }
  destruct (assoc (firstn 2 (c :: r)) digraphs) as [v|] eqn:E2; [|reflexivity].
  exfalso. destruct (assoc_digraph_std _ _ E2) as (a & b & t & Hk & Hs & _).
  assert (a = c) by (destruct r as [|? ?]; cbn in Hk; inversion Hk; reflexivity). subst a.
  apply std_digraph_head in Hs. cbn [chr_in existsb] in *. lia.
Qed.

Lemma pop_inner_S f us ue x : pop_inner (S f) us ue x =
  match peek1 (rest x) with
  | None => PopEOF x
  | Some (char, size) =>
      if negb (is_bs char) then pop_finish us x char size
      else
        match peek1 (skipn size (rest x)) with
        | None => pop_finish us x char size
        | Some (temp, tsize) =>
            if negb (is_nl temp) then
              if ue then let '(char', size', x') := pop_escape x char size temp tsize in pop_finish us x' char' size'
              else pop_finish us x char size
            else
              let x' := set_pos (line x + 1) 1 (advance (S size) x) in
              match peek1 (rest x') with None => PopEOF x' | Some _ => pop_inner f us ue x' end
        end
  end.
Proof. reflexivity. Qed.

Lemma pop1_first us ue x c r : rest x = c :: r -> chr_in c [63; 60; 37; 58; 92]%N = false ->
  pop1 us ue x = pop_finish us x [c] 1.
Proof.
  intros Hr Hc. unfold pop1, pop_loop_bound. rewrite pop_inner_S, Hr, peek1_nohead'; [|cbn [chr_in existsb] in *; lia].
  unfold is_bs, bs. cbn [str_eqb]. cbn [chr_in existsb] in Hc. replace (c =? 92)%N with false by lia. reflexivity.
Qed.

(* a plain character is popped as itself *)
Lemma pop1_simple cm ue x c r : rest x = c :: r -> simplec c = true ->
  exists X, pop1 false ue x = PopOk [c] X /\ rest X = r /\ reads cm x [c] X.
Proof.
  intros Hr Hc. unfold simplec in Hc. cbn [chr_in existsb] in Hc.
  rewrite (pop1_first false ue x c r Hr) by (cbn [chr_in existsb]; lia).
  assert (E1 : is_nl [c] = false) by (rewrite is_nl_10; lia).
  assert (E2 : ends_with [9%N] [c] = false) by (unfold ends_with; cbn [List.length Nat.leb Nat.sub skipn str_eqb andb]; lia).
  destruct (pf_text false x [c] 1 E1 E2) as (X & E & R & O & C). exists X. split; [exact E|]. split; [now rewrite R, Hr|].
  apply (reads_single cm false x c 1%nat); [rewrite Hr; apply logical1_nohead; cbn [chr_in existsb]; lia|exact E|].
  right. split; [reflexivity|]. intros [H|[]]. lia.
Qed.

Lemma parse_whitespace_text x : tok_ok x (parse_whitespace x).
Proof.
  unfold parse_whitespace. destruct (rest x) as [|c r] eqn:Er; [exact I|].
  destruct (negb (chr_in c ws_chars)); [exact I|]. cbv zeta.
  destruct (N.eqb_spec c 32) as [->|H32].
  { destruct (pop1_simple false false x 32%N r Er eq_refl) as (X & E & _ & Hr). rewrite E. cbn [of_popres tok_ok].
    exists [32%N]. split; [reflexivity|exact Hr]. }
  destruct (N.eqb_spec c 9) as [->|H9].
  { rewrite (pop1_first false false x 9%N r Er eq_refl). destruct (pf_tab false x 1) as (X & E & R & O & C).
    rewrite E. cbn [of_popres tok_ok]. exists [9%N]. split; [reflexivity|].
    apply (reads_single false false x 9%N 1%nat); [rewrite Er; now apply logical1_nohead|exact E|now left]. }
  destruct (N.eqb_spec c 10) as [->|H10]; [|exact I].
  rewrite (pop1_first false false x 10%N r Er eq_refl). destruct (pf_nl false x 1) as (X & E & R & O & C).
  rewrite E. cbn [of_popres tok_ok]. exists [10%N]. split; [reflexivity|].
  apply (reads_single false false x 10%N 1%nat); [rewrite Er; now apply logical1_nohead|exact E|now left].
Qed.

Lemma parse_multi_line_comment_text x : tok_ok x (parse_multi_line_comment x).
Proof.
  unfold parse_multi_line_comment. destruct (raw_peek 2 (rest x)) as [r|] eqn:Ep; [|exact I].
  destruct (str_eqb r (s "/*")) eqn:Es; [|exact I].
  apply str_eqb_eq in Es. subst r. change (negb true) with false. cbv iota.
  assert (Hr : exists r', rest x = 47%N :: 42%N :: r').
  { unfold raw_peek in Ep. destruct (rest x) as [|a [|b r']]; try discriminate; cbn in Ep; inversion Ep. now exists r'. }
  destruct Hr as [r' Hr].
  destruct (pop1_simple true false x 47%N (42%N :: r') Hr eq_refl) as (X1 & E1 & R1 & Hr1).
  destruct (pop1_simple true false X1 42%N r' R1 eq_refl) as (X2 & E2 & R2 & Hr2).
  assert (Epop : popn 2 x [] = PopOk (s "/*") X2).
  { cbn [popn]. rewrite E1. cbn [app]. rewrite E2. reflexivity. }
  rewrite Epop. cbn [of_popres].
  destruct (mc_loop (S (List.length (rest X2))) (s "/*") X2) as [value eof x2| |] eqn:El; try exact I.
  destruct (mc_loop_reads _ _ _ _ _ _ El) as [t [-> Hr3]]. cbn [tok_ok]. exists (s "/*" ++ t). split; [reflexivity|].
  change (tok_cm _) with true.
  assert (Hall : reads true x (s "/*" ++ t) x2).
  { change (s "/*" ++ t) with ([47%N] ++ [42%N] ++ t). apply (reads_trans true x [47%N] X1); [exact Hr1|].
    apply (reads_trans true X1 [42%N] X2); [exact Hr2|exact Hr3]. }
  destruct eof; [eapply reads_same_r; [apply same_pos_add_err|exact Hall]|exact Hall].
Qed.

(* ------------------------------------------------------------------ dispatch, step, the whole tokenizer *)
Lemma run_parser_text uw ud name x : tok_ok x (run_parser uw ud name x).
Proof.
  unfold run_parser.
  repeat match goal with |- tok_ok _ (if ?b then _ else _) => destruct b end;
    auto using parse_float_literal_text, parse_integer_literal_text, parse_char_literal_text, parse_string_literal_text,
      parse_identifier_text, parse_whitespace_text, parse_line_comment_text, parse_multi_line_comment_text,
      parse_operator_text, parse_brackets_text.
  exact I.
Qed.

Lemma try_parsers_text uw ud : forall names x, tok_ok x (try_parsers uw ud names x).
Proof.
  induction names as [|n names IH]; intros x; cbn [try_parsers]; [exact I|].
  pose proof (run_parser_text uw ud n x) as H. destruct (run_parser uw ud n x); [apply IH|exact H|exact I].
Qed.

Lemma step_text uw ud x t lo hi x' : step uw ud x = StepItem (ITok t lo hi) x' ->
  tok_ok x (PTok t x') /\ lo = off x /\ hi = off x'.
Proof.
  unfold step. pose proof (try_parsers_text uw ud parsers x) as H.
  destruct (rest x) as [|c r].
  - destruct (try_parsers uw ud parsers x) as [|t0 x0|e]; try discriminate. intros E; inversion E; subst. now repeat split.
  - destruct (at_splice (c :: r)).
    + destruct (peek1 (c :: r)) as [[? ?]|]; discriminate.
    + destruct (try_parsers uw ud parsers x) as [|t0 x0|e]; try discriminate. intros E; inversion E; subst. now repeat split.
Qed.

Lemma tok_ok_c10 src E x t x' : wf (src, E) x -> tok_ok x (PTok t x') -> c10_tok_ok src t (off x) (off x') = true.
Proof.
  intros Hw [text [Ht Hr]]. unfold c10_tok_ok. rewrite Ht. fold (tok_cm t).
  pose proof (wf_true_pos _ _ Hw) as Htp. cbn [fst] in Htp. rewrite Htp. cbn [snd].
  unfold sub. rewrite (wf_skipn src E x Hw). apply NM_norm_ok. now apply reads_NM.
Qed.

Section Text.
  Variable uw ud : N -> bool.
  Variable src : str.

  Definition item_text_ok (i : item) : Prop :=
    match i with ITok t lo hi => c10_tok_ok src t lo hi = true | _ => True end.

  Lemma lex_loop_text : forall fuel E x acc items xf, wf (src, E) x ->
    lex_loop uw ud fuel x acc = Ok (items, xf) -> (forall i, In i acc -> item_text_ok i) ->
    forall i, In i items -> item_text_ok i.
  Proof.
    induction fuel as [|fuel IH]; intros E x acc items xf Hw; cbn [lex_loop]; [discriminate|].
    pose proof (step_post_holds (src, E) uw ud x Hw) as Hp.
    destruct (step uw ud x) as [|i x'|e] eqn:Est; [| |discriminate].
    - intros Eq Hacc j Hj. inversion Eq; subst. apply Hacc. now apply in_rev.
    - intros Eq Hacc. cbn in Hp. destruct Hp as [Hw' _]. apply (IH E x' (i :: acc) items xf Hw' Eq).
      intros j [<-|Hj]; [|now apply Hacc].
      destruct i as [t lo hi|lo|lo hi]; cbn [item_text_ok]; try exact I.
      destruct (step_text uw ud x t lo hi x' Est) as [Hok [-> ->]]. now apply (tok_ok_c10 src E).
  Qed.

  (* C10, the token-text clause, for every input and every token *)
  Theorem c10_text items xf : lex uw ud src = Ok (items, xf) ->
    forall t lo hi, In (ITok t lo hi) items -> c10_tok_ok src t lo hi = true.
  Proof.
    intros H t lo hi Hin. unfold lex in H.
    exact (lex_loop_text _ [] (init src) [] items xf (wf_init src) H (fun i (F : In i []) => match F with end) (ITok t lo hi) Hin).
  Qed.

  (* ... hence the full executable statement c10_ok *)
  Theorem c10_full items xf : lex uw ud src = Ok (items, xf) -> c10_ok src items (errs xf) = true.
  Proof.
    intros H. destruct (lex_positions_and_tiling uw ud src items xf H) as [Ht [_ [_ [_ Hr]]]].
    unfold c10_ok. rewrite Ht. cbn [andb]. apply forallb_forall. intros i Hi.
    rewrite forallb_forall in Hr. specialize (Hr i Hi).
    destruct i as [t lo hi|lo|lo hi]; cbn [c10_item_ok]; [now apply (c10_text items xf H)|exact Hr|exact Hr].
  Qed.
End Text.

(* ------------------------------------------------------------------ the statement is neither vacuous nor trivially true:
   evaluated through lex + c10_ok on the tricky inputs (and the specification rejects a wrong text) *)
Definition c10_eval (src : str) : bool :=
  match lex (fun _ => false) (fun _ => false) src with Ok (items, xf) => c10_ok src items (errs xf) | _ => false end.

Example c10_tricky_inputs :
  (* escaped trigraph / digraph inside a string; \\ followed by a real newline inside a string (pair kept verbatim) *)
  c10_eval ([34; 97; 92; 63; 63; 47; 98; 34]%N ++ s ";") = true /\
  c10_eval ([34; 92; 60; 58; 34]%N) = true /\
  c10_eval ([34; 97; 92; 92; 10; 98; 34]%N) = true /\
  (* a line splice inside an identifier, inside an operator, a trigraph splice *)
  c10_eval (s "ab" ++ [92; 10]%N ++ s "cd = 1;") = true /\
  c10_eval (s "a +" ++ [92; 10]%N ++ s "= b") = true /\
  c10_eval (s "in" ++ [63; 63; 47; 10]%N ++ s "t x") = true /\
  (* tabs in a block comment: after a splice (column 1), after text, escaped tab in a character constant *)
  c10_eval (s "/*" ++ [92; 10; 9]%N ++ s "*/") = true /\
  c10_eval (s "x" ++ [92; 10]%N ++ s "/*a" ++ [9]%N ++ s "b" ++ [9; 10; 9]%N ++ s "*/") = true /\
  c10_eval ([39; 92; 9; 39]%N) = true /\
  c10_eval (s "// c" ++ [9]%N ++ s "<:" ++ [92; 10]%N ++ s "d") = true /\
  (* the specification is not trivially satisfied: a wrong text, a dropped character, an unexpanded comment tab *)
  norm_ok false 1 (s "a<:b") (s "a[b") = true /\ norm_ok false 1 (s "a<:b") (s "a<:b") = false /\
  norm_ok false 1 (s "abc") (s "ac") = false /\
  norm_ok true 3 [9%N] (s "  ") = true /\ norm_ok true 3 [9%N] [9%N] = false /\ norm_ok false 3 [9%N] [9%N] = true.
Proof. vm_compute. repeat split; reflexivity. Qed.
