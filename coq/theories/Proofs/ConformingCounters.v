(* C01: the four counted limits are silent AT the limit (corollaries of the C03 counter theorems: Proofs/ScopeTraceProofs,
   Proofs/CounterProofs over Gen/ScopeOps.v and Gen/Counters.v, regenerated from the source on every run).
   At most 25 body lines / 5 functions / 5 variables / 4 parameters: no TOO_MANY_LINES / TOO_MANY_FUNCS /
   TOO_MANY_VARS_FUNC / TOO_MANY_ARGS, for every file / body / parameter list of the trace models. *)
From NV Require Import Model.Base Model.RuleChecks Model.CounterBase Gen.Counters Model.ScopeBase Gen.ScopeOps Model.ScopeTrace
  Model.ScopeBody Model.CounterTrace Proofs.ScopeTraceProofs Proofs.CounterProofs.
From Coq Require Import Lia.
Local Open Scope Z_scope.

Lemma zlen_zero_nil {A} (l : list A) : zlen l = 0 -> l = [].
Proof. destruct l; [reflexivity|]. unfold zlen. cbn [List.length]. lia. Qed.

(* CheckFunctionsCount (the whole check): at most 5 function definitions in the file *)
Theorem functions_count_silent : forall f, file f -> nfuncs f <= functions_limit ->
  exists q, crun cstate0 f = Some q /\ fems q = [].
Proof.
  intros f Hf Hn. destruct (funcs_iff f Hf) as (q & H1 & _ & _ & H4). exists q. split; [exact H1|].
  apply zlen_zero_nil. rewrite H4. lia.
Qed.

(* TOO_MANY_LINES (CheckBrace at the closing brace, `{` alone on its line): a body of at most 25 line ends *)
Theorem lines_silent : forall g rest hs E nl b nlc, isglobal g -> last_ok hs -> body b -> total_nl b <= 25 ->
  exists q, run (mkstate (g :: rest) hs E) (block_of (s_func nl) [] 1 b nlc) = Some q /\ ems q = E.
Proof.
  intros g rest hs E nl b nlc Hg Hl Hb Hn. destruct (too_many_lines_25 g rest hs E nl b nlc Hg Hl Hb) as (q & H1 & _ & H3).
  exists q. split; [exact H1|]. now apply H3.
Qed.

(* TOO_MANY_VARS_FUNC (CheckVariableDeclaration's counter): at most 5 declarations at the start of the function *)
Theorem vars_silent : forall q nl gap nlo nls rest nlc, at_file_level q -> cinv q -> gap_ok gap -> body rest ->
  forallb (fun x => negb (is_vdecl x)) rest = true -> zlen nls <= vars_limit ->
  exists q', crun q (block_of (s_func nl) gap nlo (map vdecl nls ++ rest) nlc) = Some q' /\ vems q' = vems q.
Proof.
  intros q nl gap nlo nls rest nlc H1 H2 H3 H4 H5 Hn.
  destruct (vars_iff q nl gap nlo nls rest nlc H1 H2 H3 H4 H5) as (q' & R & V & L & _).
  exists q'. split; [exact R|]. rewrite V. rewrite (zlen_zero_nil (tmv_list 0 (map vdecl nls))); [reflexivity|]. rewrite L. lia.
Qed.

(* TOO_MANY_ARGS (CheckFuncDeclaration's parameter counter): at most 4 parameters (n = number of top-level commas <= 3) *)
Theorem args_silent : forall pre name lp l n rp tp post scope v,
  t_type lp = ty_lpar -> t_type rp = ty_rpar -> plist l n -> args_start + n <= args_limit ->
  check_func_decl_args (pre ++ name :: lp :: l ++ rp :: tp :: post) scope (zlen pre) v
  = Ok (args_start + n, zlen pre + 2 + zlen l + 1, []).
Proof.
  intros pre name lp l n rp tp post scope v H1 H2 H3 Hn. rewrite (args_iff pre name lp l n rp tp post scope v H1 H2 H3).
  replace (args_start + n >? args_limit) with false by (symmetry; rewrite Z.gtb_ltb; apply Z.ltb_ge; lia). reflexivity.
Qed.

Definition counters_silent_statement : Prop :=
  (forall f, file f -> nfuncs f <= functions_limit -> exists q, crun cstate0 f = Some q /\ fems q = []) /\
  (forall g rest hs E nl b nlc, isglobal g -> last_ok hs -> body b -> total_nl b <= 25 ->
     exists q, run (mkstate (g :: rest) hs E) (block_of (s_func nl) [] 1 b nlc) = Some q /\ ems q = E) /\
  (forall q nl gap nlo nls rest nlc, at_file_level q -> cinv q -> gap_ok gap -> body rest ->
     forallb (fun x => negb (is_vdecl x)) rest = true -> zlen nls <= vars_limit ->
     exists q', crun q (block_of (s_func nl) gap nlo (map vdecl nls ++ rest) nlc) = Some q' /\ vems q' = vems q) /\
  (forall pre name lp l n rp tp post scope v, t_type lp = ty_lpar -> t_type rp = ty_rpar -> plist l n -> args_start + n <= args_limit ->
     check_func_decl_args (pre ++ name :: lp :: l ++ rp :: tp :: post) scope (zlen pre) v
     = Ok (args_start + n, zlen pre + 2 + zlen l + 1, [])).
Lemma counters_silent : counters_silent_statement.
Proof. split; [exact functions_count_silent|]. split; [exact lines_silent|]. split; [exact vars_silent|exact args_silent]. Qed.
