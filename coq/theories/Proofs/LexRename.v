(* C17 / C18, lexer level (Model/Lexer.v): what the sub-parsers do on an identifier lexeme and on plain content
   characters.  Everything here is unbounded (all lexemes, all states, all continuations). *)
From NV Require Import Model.Base Model.Diag Model.Lexer Model.Obs Proofs.StrOrder Proofs.ObsProofs.
From Coq Require Import Lia.

Local Open Scope Z_scope.

(* the state after consuming n plain characters: same line, column + n, offset + n *)
Definition shift (n : nat) (x : st) : st :=
  mkst (skipn n (rest x)) (off x + n) (line x) (col x + Z.of_nat n) (errs x).

Lemma shift_0 x : shift 0 x = x.
Proof. destruct x. unfold shift. cbn. f_equal; lia. Qed.
Lemma shift_shift1 n x : shift n (shift 1 x) = shift (S n) x.
Proof.
  unfold shift. cbn [rest off line col errs]. f_equal; try lia.
  destruct (rest x); [now rewrite skipn_nil|reflexivity].
Qed.
Lemma rest_shift n x : rest (shift n x) = skipn n (rest x).
Proof. reflexivity. Qed.

(* ------------------------------------------------------------------ peek on a character that starts no di/trigraph *)
Lemma assoc_none_head (c : N) (heads : str) tbl t :
  forallb (fun kv => match fst kv with h :: _ => chr_in h heads | [] => false end) tbl = true ->
  chr_in c heads = false -> assoc (c :: t) tbl = None.
Proof.
  intros Ht Hc. induction tbl as [|[k v] tbl IH]; [reflexivity|].
  cbn [forallb fst] in Ht. apply andb_true_iff in Ht as [Hk Ht]. cbn [assoc].
  destruct k as [|h k]; [discriminate|]. cbn [str_eqb].
  destruct (N.eqb_spec c h) as [->|]; [congruence|]. cbn [andb]. now apply IH.
Qed.

Lemma trigraph_heads : forallb (fun kv => match fst kv with h :: _ => chr_in h [63%N] | [] => false end) trigraphs = true.
Proof. vm_compute. reflexivity. Qed.
Lemma digraph_heads : forallb (fun kv => match fst kv with h :: _ => chr_in h [60; 58; 37]%N | [] => false end) digraphs = true.
Proof. vm_compute. reflexivity. Qed.

(* a character other than ? < : % is its own translation, whatever follows *)
Lemma peek1_nohead c r : chr_in c [63; 60; 58; 37]%N = false -> peek1 (c :: r) = Some ([c], 1%nat).
Proof.
  intros H. unfold peek1.
  assert (H3 : chr_in c [63%N] = false) by (cbn in *; repeat (apply orb_false_iff in H as [? H]); now rewrite H0).
  assert (H2 : chr_in c [60; 58; 37]%N = false).
  { cbn in *. apply orb_false_iff in H as [_ H]. exact H. }
  cbn [firstn]. rewrite (assoc_none_head c _ _ _ trigraph_heads H3), (assoc_none_head c _ _ _ digraph_heads H2).
  reflexivity.
Qed.

(* `<` is its own translation unless `:` or `%` follows *)
Definition next_ok (r : str) : bool := match r with [] => true | d :: _ => negb (chr_in d [37; 58]%N) end.

Lemma assoc_digraph_lt r : next_ok r = true -> assoc (firstn 2 (60%N :: r)) digraphs = None.
Proof.
  intros H. pose proof ObsProofs.digraphs_need_pct_colon as Ht.
  assert (Hk : forall a b, firstn 2 (60%N :: r) = [a; b] -> chr_in a [37; 58]%N = false /\ chr_in b [37; 58]%N = false).
  { intros a b E. destruct r as [|d r]; [discriminate|]. cbn in E. inversion E; subst.
    cbn [next_ok] in H. apply negb_true_iff in H. split; [reflexivity|exact H]. }
  revert Hk. generalize (firstn 2 (60%N :: r)). intros k Hk.
  induction digraphs as [|[key v] tbl IH]; [reflexivity|].
  cbn [forallb fst] in Ht. apply andb_true_iff in Ht as [Hkey Ht]. cbn [assoc].
  destruct (str_eqb k key) eqn:E; [|now apply IH].
  apply str_eqb_eq in E. subst key. destruct k as [|a [|b [|? ?]]]; try discriminate.
  destruct (Hk a b eq_refl) as [Ha Hb]. rewrite Ha, Hb in Hkey. discriminate.
Qed.

Definition inert (c : N) : bool := negb (chr_in c [10; 9; 92; 63; 37; 58]%N).

Lemma peek1_inert c r : inert c = true -> next_ok r = true -> peek1 (c :: r) = Some ([c], 1%nat).
Proof.
  intros Hi Hn. destruct (N.eqb_spec c 60) as [->|Hc].
  - unfold peek1. cbn [firstn]. rewrite (assoc_none_head 60%N [63%N] _ _ trigraph_heads eq_refl).
    pose proof (assoc_digraph_lt r Hn) as Hd. cbn [firstn] in Hd. rewrite Hd. reflexivity.
  - apply peek1_nohead. unfold inert in Hi. apply negb_true_iff in Hi. cbn in Hi |- *.
    repeat (apply orb_false_iff in Hi as [? Hi]).
    apply N.eqb_neq in Hc. rewrite Hc. repeat (apply orb_false_iff; split); assumption.
Qed.

(* ------------------------------------------------------------------ pop on a plain character *)
Lemma pop_inner_S f us ue x : pop_inner (S f) us ue x =
  match peek1 (rest x) with
  | None => PopEOF x
  | Some (char, size) =>
      if negb (is_bs char) then pop_finish us x char size
      else
        match peek1 (skipn size (rest x)) with
        | None => pop_finish us x char size
        | Some (temp, tsize) =>
            if negb (is_nl temp) then
              if ue then let '(char', size', x') := pop_escape x char size temp tsize in pop_finish us x' char' size'
              else pop_finish us x char size
            else
              let x' := set_pos (line x + 1) 1 (advance (S size) x) in
              match peek1 (rest x') with None => PopEOF x' | Some _ => pop_inner f us ue x' end
        end
  end.
Proof. reflexivity. Qed.

Lemma pop1_plain us ue x c r : rest x = c :: r -> peek1 (c :: r) = Some ([c], 1%nat) ->
  chr_in c [10; 9; 92]%N = false -> pop1 us ue x = PopOk [c] (shift 1 x).
Proof.
  intros Hr Hp Hc. unfold pop1, pop_loop_bound. rewrite pop_inner_S. rewrite Hr, Hp.
  cbn in Hc. apply orb_false_iff in Hc as [H10 Hc]. apply orb_false_iff in Hc as [H9 Hc]. apply orb_false_iff in Hc as [H92 _].
  unfold is_bs, bs. cbn [str_eqb]. rewrite H92. cbn [andb negb].
  unfold pop_finish, is_nl, nl. cbn [str_eqb]. rewrite H10. cbn [andb].
  unfold ends_with. cbn [List.length Nat.leb Nat.sub skipn str_eqb andb]. rewrite N.eqb_sym, H9. cbn [andb].
  unfold shift, advance, set_pos. cbn [rest off line col errs]. reflexivity.
Qed.

(* ------------------------------------------------------------------ identifiers *)
Lemma ident_char_nohead c : is_ident_char c = true -> chr_in c [63; 60; 58; 37]%N = false /\ chr_in c [10; 9; 92]%N = false.
Proof.
  intros H. split; cbn; repeat match goal with |- context [N.eqb c ?k] => destruct (N.eqb_spec c k) as [->|_]; [vm_compute in H; discriminate|] end; reflexivity.
Qed.

Lemma pop1_ident us ue x c r : rest x = c :: r -> is_ident_char c = true -> pop1 us ue x = PopOk [c] (shift 1 x).
Proof.
  intros Hr Hc. destruct (ident_char_nohead c Hc) as [H1 H2]. eapply pop1_plain; eauto. now apply peek1_nohead.
Qed.

Definition boundary (r : str) : bool := match r with [] => true | d :: _ => negb (is_ident_char d) end.

Lemma ident_loop_run : forall v fuel acc x r,
  forallb is_ident_char v = true -> rest x = v ++ r -> boundary r = true -> (List.length v < fuel)%nat ->
  ident_loop fuel acc x = IDone (acc ++ v) (shift (List.length v) x).
Proof.
  induction v as [|c v IH]; intros fuel acc x r Hv Hr Hb Hf; (destruct fuel as [|fuel]; [cbn in Hf; lia|]); cbn [ident_loop].
  - cbn [app] in Hr. rewrite Hr, app_nil_r, shift_0. destruct r as [|d r]; [reflexivity|].
    cbn [boundary] in Hb. now rewrite Hb.
  - cbn [app] in Hr. rewrite Hr. cbn [forallb] in Hv. apply andb_true_iff in Hv as [Hc Hv]. rewrite Hc. cbn [negb].
    rewrite (pop1_ident false false x c (v ++ r) Hr Hc).
    rewrite (IH fuel (acc ++ [c]) (shift 1 x) r Hv); [|rewrite rest_shift, Hr; reflexivity|assumption|cbn in Hf; lia].
    rewrite shift_shift1, <- app_assoc. reflexivity.
Qed.

Definition ident_token (x : st) (v : str) : token :=
  match assoc v keywords with
  | Some k => mktok k (line x) (col x) None
  | None => mktok (s "IDENTIFIER") (line x) (col x) (Some v)
  end.

(* parse_identifier on an identifier lexeme v (maximal: followed by the end or a non-identifier character):
   one token spanning exactly v, at the position of the state, column advanced by |v| *)
Theorem lex_ident : forall x c v r,
  is_ident_start c = true -> forallb is_ident_char v = true -> rest x = (c :: v) ++ r -> boundary r = true ->
  parse_identifier x = PTok (ident_token x (c :: v)) (shift (List.length (c :: v)) x).
Proof.
  intros x c v r Hc Hv Hr Hb. unfold parse_identifier. cbn [app] in Hr. rewrite Hr, Hc. cbn [negb].
  assert (Hic : is_ident_char c = true).
  { pose proof Hc as Hc2. unfold is_ident_start in Hc2. unfold is_ident_char. rewrite Hc2. reflexivity. }
  rewrite (pop1_ident false false x c (v ++ r) Hr Hic). cbn [of_popres].
  rewrite (ident_loop_run v _ [c] (shift 1 x) r Hv); [|rewrite rest_shift, Hr; reflexivity|assumption|].
  - rewrite shift_shift1. cbn [app List.length]. unfold ident_token. cbn [line col shift].
    destruct (assoc (c :: v) keywords); reflexivity.
  - rewrite rest_shift, Hr. cbn [skipn]. rewrite app_length. lia.
Qed.

(* C18 at the lexer: two states that agree on everything but the identifier lexeme at the front (same length,
   neither a keyword) produce tokens of the same type at the same position, and end in states that agree on
   offset, line, column, diagnostics and remaining text *)
Theorem lex_ident_rename : forall x x' c v c' v' r,
  is_ident_start c = true -> forallb is_ident_char v = true -> is_ident_start c' = true -> forallb is_ident_char v' = true ->
  List.length v' = List.length v -> boundary r = true ->
  assoc (c :: v) keywords = None -> assoc (c' :: v') keywords = None ->
  rest x = (c :: v) ++ r -> rest x' = (c' :: v') ++ r ->
  off x' = off x -> line x' = line x -> col x' = col x -> errs x' = errs x ->
  exists t t' y y',
    parse_identifier x = PTok t y /\ parse_identifier x' = PTok t' y' /\
    t_type t = s "IDENTIFIER" /\ t_type t' = t_type t /\ t_line t' = t_line t /\ t_col t' = t_col t /\
    t_val t = Some (c :: v) /\ t_val t' = Some (c' :: v') /\
    y' = y /\ rest y = r /\ off y = (off x + S (List.length v))%nat /\ line y = line x /\ col y = col x + Z.of_nat (S (List.length v)).
Proof.
  intros x x' c v c' v' r Hc Hv Hc' Hv' Hl Hb Hk Hk' Hr Hr' Ho Hli Hco He.
  exists (ident_token x (c :: v)), (ident_token x' (c' :: v')), (shift (List.length (c :: v)) x), (shift (List.length (c' :: v')) x').
  rewrite (lex_ident x c v r), (lex_ident x' c' v' r) by assumption.
  unfold ident_token. rewrite Hk, Hk'. cbn [t_type t_line t_col t_val].
  repeat split; try congruence.
  - unfold shift. rewrite Hr, Hr', Ho, Hli, Hco, He. cbn [List.length]. rewrite Hl. f_equal.
    change (c' :: v') with ([c'] ++ v'). change (c :: v) with ([c] ++ v).
    cbn [app skipn]. rewrite <- Hl at 1. now rewrite !skipn_app, !skipn_all, !Nat.sub_diag.
  - cbn [shift rest]. rewrite Hr. cbn [List.length app skipn]. now rewrite skipn_app, skipn_all, Nat.sub_diag.
Qed.

(* ------------------------------------------------------------------ contents of comments and literals *)
(* a content character allowed by replace_ok is one pop: value extended by that character, column + 1 *)
Lemma content_char_facts k c : content_char_ok k c = true -> inert c = true /\ chr_in c [10; 9; 92]%N = false.
Proof.
  unfold content_char_ok, inert. intros H. apply andb_true_iff in H as [H _]. split; [exact H|].
  apply negb_true_iff in H. cbn in H |- *. repeat (apply orb_false_iff in H as [? H]).
  repeat (apply orb_false_iff; split); assumption.
Qed.

Lemma pop1_content k us ue x c r : rest x = c :: r -> content_char_ok k c = true -> next_ok r = true ->
  pop1 us ue x = PopOk [c] (shift 1 x).
Proof.
  intros Hr Hc Hn. destruct (content_char_facts k c Hc) as [Hi H3]. eapply pop1_plain; eauto. now apply peek1_inert.
Qed.

(* the characters after a content character: more content, or the closing delimiter *)
Definition plain_content (k : ckind) (v : str) : bool := forallb (content_char_ok k) v.

Lemma next_ok_content k v tail : plain_content k v = true -> next_ok tail = true -> next_ok (v ++ tail) = true.
Proof.
  destruct v as [|c v]; [auto|]. cbn [plain_content forallb app next_ok]. intros H _. apply andb_true_iff in H as [H _].
  destruct (content_char_facts k c H) as [Hi _]. cbn.
  destruct (N.eqb_spec c 37) as [->|_]; [vm_compute in Hi; discriminate|].
  destruct (N.eqb_spec c 58) as [->|_]; [vm_compute in Hi; discriminate|]. reflexivity.
Qed.

(* // comment: lc_loop runs over plain content up to the newline (or the end) *)
Lemma lc_loop_run : forall v fuel acc x tail,
  plain_content KLine v = true -> rest x = v ++ tail -> (tail = [] \/ exists t, tail = 10%N :: t) -> (List.length v < fuel)%nat ->
  lc_loop fuel acc x = LDone (acc ++ v) (shift (List.length v) x).
Proof.
  induction v as [|c v IH]; intros fuel acc x tail Hv Hr Ht Hf; (destruct fuel as [|fuel]; [cbn in Hf; lia|]); cbn [lc_loop].
  - cbn [app] in Hr. rewrite Hr, app_nil_r, shift_0. destruct Ht as [->|[t ->]]; [reflexivity|].
    rewrite (peek1_nohead 10%N t eq_refl). reflexivity.
  - cbn [app] in Hr. rewrite Hr. cbn [plain_content forallb] in Hv. apply andb_true_iff in Hv as [Hc Hv].
    assert (Hn : next_ok (v ++ tail) = true).
    { apply (next_ok_content KLine); [exact Hv|]. destruct Ht as [->|[t ->]]; reflexivity. }
    destruct (content_char_facts _ _ Hc) as [Hi H3].
    rewrite (peek1_inert c _ Hi Hn).
    assert (Hnl : is_nl [c] = false).
    { unfold is_nl, nl. cbn. cbn in H3. apply orb_false_iff in H3 as [H10 _]. now rewrite H10. }
    rewrite Hnl. rewrite (pop1_content KLine false false x c (v ++ tail) Hr Hc Hn).
    rewrite (IH fuel (acc ++ [c]) (shift 1 x) tail Hv); [|rewrite rest_shift, Hr; reflexivity|assumption|cbn in Hf; lia].
    rewrite shift_shift1, <- app_assoc. reflexivity.
Qed.

(* string literal body: string_loop runs over plain content up to the closing quote *)
Lemma string_loop_run : forall v fuel acc x tail,
  plain_content KString v = true -> rest x = v ++ 34%N :: tail -> (List.length v < fuel)%nat ->
  string_loop fuel acc x = SDone (acc ++ v ++ [34%N]) true (shift (S (List.length v)) x).
Proof.
  induction v as [|c v IH]; intros fuel acc x tail Hv Hr Hf; (destruct fuel as [|fuel]; [cbn in Hf; lia|]); cbn [string_loop].
  - cbn [app] in Hr. rewrite Hr. rewrite (peek1_nohead 34%N tail eq_refl).
    rewrite (pop1_plain false true x 34%N tail Hr (peek1_nohead 34%N tail eq_refl) eq_refl).
    cbn [str_eqb N.eqb Pos.eqb andb List.length app]. reflexivity.
  - cbn [app] in Hr. rewrite Hr. cbn [plain_content forallb] in Hv. apply andb_true_iff in Hv as [Hc Hv].
    assert (Hn : next_ok (v ++ 34%N :: tail) = true) by (apply (next_ok_content KString); [exact Hv|reflexivity]).
    destruct (content_char_facts _ _ Hc) as [Hi H3].
    rewrite (peek1_inert c _ Hi Hn).
    rewrite (pop1_content KString false true x c _ Hr Hc Hn).
    assert (Hq : str_eqb [c] [34%N] = false).
    { unfold content_char_ok in Hc. apply andb_true_iff in Hc as [_ Hc]. apply negb_true_iff in Hc. cbn. now rewrite Hc. }
    rewrite Hq.
    rewrite (IH fuel (acc ++ [c]) (shift 1 x) tail Hv); [|rewrite rest_shift, Hr; reflexivity|cbn in Hf; lia].
    rewrite shift_shift1, <- !app_assoc. reflexivity.
Qed.

(* ------------------------------------------------------------------ the known finding, on the lexer model *)
Definition nf : N -> bool := fun _ => false.
Definition comment_value (src : str) : option str :=
  match lex nf nf src with
  | Ok (items, _) =>
      match filter (fun t => str_eqb (t_type t) (s "COMMENT")) (tokens_of items) with
      | t :: _ => t_val t
      | [] => None
      end
  | _ => None
  end.

(* replacement text made of operator characters, same displayed width, no delimiter / backslash / line break:
   the digraph `<:` is translated inside the comment, the token value (what the width rules measure) gets shorter *)
Theorem digraph_in_comment_width_refuted :
  exists old new : str,
    List.length new = List.length old /\
    forallb (fun c => negb (chr_in c [10; 9; 92; 34; 39]%N)) new = true /\
    exists v v', comment_value (s "//" ++ old ++ [10%N]) = Some v /\ comment_value (s "//" ++ new ++ [10%N]) = Some v' /\
      eval_obs [] [] FLen v' <> eval_obs [] [] FLen v.
Proof.
  exists (s "ab"), (s "<:"). split; [reflexivity|]. split; [reflexivity|].
  exists (s "//ab"), (s "//["). split; [vm_compute; reflexivity|]. split; [vm_compute; reflexivity|].
  vm_compute. discriminate.
Qed.

(* ... and replace_ok excludes exactly that *)
Example replace_ok_excludes_digraph : replace_ok KLine (s "ab") (s "<:") = false /\ replace_ok KLine (s "ab") (s "<;") = true.
Proof. vm_compute. split; reflexivity. Qed.

(* non-vacuity of the hypotheses of lex_ident / lc_loop_run / string_loop_run *)
Example lex_ident_example :
  let x := mkst (s "iff_2 = 1;") 7 3 5 [] in
  parse_identifier x = PTok (mktok (s "IDENTIFIER") 3 5 (Some (s "iff_2"))) (mkst (s " = 1;") 12 3 10 []).
Proof. vm_compute. reflexivity. Qed.
Example lex_ident_keyword_example :
  let x := mkst (s "int x") 0 1 1 [] in
  exists y, parse_identifier x = PTok (mktok (s "INT") 1 1 None) y /\ boundary (s " x") = true.
Proof. eexists. vm_compute. split; reflexivity. Qed.
Example loops_example :
  plain_content KLine (s " };<if(") = true /\ plain_content KString (s "a'b;") = true
  /\ lc_loop 20 (s "//") (mkst (s " };<if(" ++ [10%N]) 2 1 3 []) = LDone (s "// };<if(") (mkst [10%N] 9 1 10 []).
Proof. vm_compute. repeat split; reflexivity. Qed.
