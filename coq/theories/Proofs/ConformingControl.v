(* C01: CheckControlStatement (the translated part: WRONG_SCOPE, EXP_NEWLINE, FORBIDDEN_CS, ASSIGN_IN_CONTROL; Gen.MoreChecks,
   regenerated from the source on every run) emits NOTHING on a conforming control line `if (...)`, `else if (...)`, `while (...)`,
   `else`: invariant of the scanning loop and of the parenthesis scan it starts at every `(`.
   Conditions on the line (tokens 0 .. n-1, the line end at n): not at global scope; no `;`, no for / switch / case / goto, no
   assignment operator; every `(` is closed before the line end (closes_at = the depth count of check_nest). *)
From NV Require Import Model.Base Model.RuleChecks Model.CounterBase Gen.MoreChecks Proofs.StrOrder Proofs.RuleChecksProofs
  Proofs.MoreChecksProofs.
From Coq Require Import Lia.
Local Open Scope Z_scope.

Definition cs_inert (toks : list token) (j : Z) : bool :=
  negb (is_true (checkl toks j control_assigns)) && negb (is_true (checkl toks j control_forbidden_cs)).

(* the depth count of check_nest from position i with depth d: back at 0 within k tokens *)
Fixpoint closes_at (toks : list token) (i d : Z) (k : nat) : bool :=
  match k with
  | O => false
  | S k' =>
      match peek toks i with
      | None => false
      | Some t =>
          let d1 := if str_eqb (t_type t) (s "LPARENTHESIS") then d + 1 else d in
          let d2 := if str_eqb (t_type t) (s "RPARENTHESIS") then d1 - 1 else d1 in
          if d2 <=? 0 then true else closes_at toks (i + 1) d2 k'
      end
  end.

Lemma nest_quiet toks scope v : forall (k : nat) fuel i d E, 1 <= d -> (k < fuel)%nat -> closes_at toks i d k = true ->
  (forall j, i <= j < i + Z.of_nat k -> cs_inert toks j = true) ->
  exists r i' d', check_control_nest_loop1 fuel toks scope i d E v = Ok (r, (i', d', E, v)) /\ r <> Some true.
Proof.
  induction k as [|k IH]; intros fuel i d E Hd Hf Hc Hin; [discriminate|].
  destruct fuel as [|f]; [lia|]. cbn [closes_at] in Hc. destruct (peek toks i) as [t|] eqn:Pt; [|discriminate].
  assert (HI := Hin i ltac:(lia)). unfold cs_inert in HI. apply andb_true_iff in HI as [HA HF]. apply negb_true_iff in HA, HF.
  cbn [check_control_nest_loop1]. cbv zeta. rewrite HA, HF.
  replace (d >? 0) with true by (symmetry; rewrite Z.gtb_ltb; apply Z.ltb_lt; lia).
  rewrite Pt. cbn [is_none negb andb]. rewrite !(check1_some _ _ _ _ Pt).
  cbv zeta in Hc.
  destruct (str_eqb (t_type t) (s "LPARENTHESIS")) eqn:L; cbn [is_true];
  destruct (str_eqb (t_type t) (s "RPARENTHESIS")) eqn:R; cbn [is_true].
  all: match type of Hc with (if ?c then _ else _) = _ => destruct c eqn:Z0 end.
  all: match goal with |- context [?c && (?x <? 1)] => destruct (c && (x <? 1)) eqn:NL end.
  all: try (eexists _, _, _; split; [reflexivity|discriminate]).
  (* depth back at 0 (or below): the next test of the loop ends it *)
  all: try (destruct f as [|f']; [lia|]; cbn [check_control_nest_loop1]; cbv zeta;
            match goal with |- context [(?x >? 0) && _] => replace (x >? 0) with false by (symmetry; rewrite Z.gtb_ltb; apply Z.ltb_ge; apply Z.leb_le in Z0; lia) end;
            cbn [andb]; eexists _, _, _; split; [reflexivity|discriminate]).
  (* still inside: on to the next token *)
  all: apply IH; [apply Z.leb_gt in Z0; lia|lia|exact Hc|intros j Hj; apply Hin; lia].
Qed.

Definition cs_pos_ok (toks : list token) (n j : Z) : bool :=
  is_false (check1 toks j (s "NEWLINE")) && negb (is_true (check1 toks j (s "SEMI_COLON"))) && cs_inert toks j
  && (negb (is_true (check1 toks j (s "LPARENTHESIS"))) || closes_at toks (j + 1) 1 (Z.to_nat (n - j - 1))).

Lemma control_quiet_run toks scope v n : n <= zlen toks ->
  (forall j, 0 <= j < n -> cs_pos_ok toks n j = true) -> is_false (check1 toks n (s "NEWLINE")) = false ->
  forall (k : nat) fuel i E, 0 <= i -> i + Z.of_nat k = n -> (k < fuel)%nat ->
  check_control_statement_loop1 fuel toks scope i E v = Ok (None, (n, E, v)).
Proof.
  intros Hn Hok Hend. induction k as [|k IH]; intros fuel i E Hi Hk Hf; (destruct fuel as [|f]; [lia|]);
    cbn [check_control_statement_loop1]; cbv zeta.
  - replace i with n by lia. rewrite Hend. reflexivity.
  - assert (H := Hok i ltac:(lia)). unfold cs_pos_ok in H.
    apply andb_true_iff in H as [H HP]. apply andb_true_iff in H as [H HI]. apply andb_true_iff in H as [HN HS].
    apply negb_true_iff in HS. rewrite HN, HS.
    pose proof HI as HI'. unfold cs_inert in HI'. apply andb_true_iff in HI' as [_ HF]. apply negb_true_iff in HF. rewrite HF.
    assert (R : check_control_statement_loop1 f toks scope (i + 1) E v = Ok (None, (n, E, v))) by (apply (IH f (i + 1) E); lia).
    destruct (is_true (check1 toks i (s "LPARENTHESIS"))) eqn:L; [|exact R].
    cbn [negb orb] in HP. unfold check_control_nest. cbv zeta.
    destruct (nest_quiet toks scope v (Z.to_nat (n - i - 1)) (loop_fuel toks) (i + 1) 1 E ltac:(lia)) as (r & i' & d' & Hr & Hne).
    + unfold loop_fuel, zlen in *. lia.
    + exact HP.
    + intros j Hj. assert (Hj' : 0 <= j < n) by lia. specialize (Hok j Hj'). unfold cs_pos_ok in Hok.
      apply andb_true_iff in Hok as [Hok _]. now apply andb_true_iff in Hok as [_ Hok].
    + rewrite Hr. cbn [bind]. destruct r as [[|]|]; [congruence| |]; cbn [bind]; exact R.
Qed.

Theorem control_statement_silent toks scope v n : str_eqb (v_scope_name v) (s "GlobalScope") = false ->
  0 <= n <= zlen toks -> (forall j, 0 <= j < n -> cs_pos_ok toks n j = true) ->
  is_false (check1 toks n (s "NEWLINE")) = false ->
  check_control_statement toks scope v = Ok ([], v).
Proof.
  intros Hs Hn Hok Hend. unfold check_control_statement. cbv zeta. rewrite Hs.
  rewrite (control_quiet_run toks scope v n (proj2 Hn) Hok Hend (Z.to_nat n) (loop_fuel toks) 0 []); [reflexivity|lia|lia|].
  unfold loop_fuel, zlen in *. lia.
Qed.
