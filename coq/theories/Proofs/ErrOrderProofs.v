(* The generated comparators (Gen.ErrOrder, translated from errors.py) are strict weak orders;
   the sorted report is ascending in (line, column); status/exit arithmetic. *)
From NV Require Import Model.Base Model.Diag Model.Errors Model.Cli Proofs.StrOrder Proofs.SortProofs.
From Coq Require Import Lia Sorting.Sorted Sorting.Permutation.

(* ------------------------------------------------------------------ Highlight.__lt__ *)
Definition hkey (h : hl) : Z * Z * Z := (h_line h, h_col h, zlen (or_empty (h_hint h))).
Definition lex3 (a b : Z * Z * Z) : Prop :=
  let '(a1, a2, a3) := a in let '(b1, b2, b3) := b in
  a1 < b1 \/ (a1 = b1 /\ (a2 < b2 \/ (a2 = b2 /\ a3 < b3))).

Lemma hl_lt_spec a b : hl_lt a b = true <-> lex3 (hkey a) (hkey b).
Proof.
  unfold hl_lt, hkey, lex3.
  repeat match goal with |- context [Z.eqb ?x ?y] => destruct (Z.eqb_spec x y) end;
    rewrite ?Z.ltb_lt; lia.
Qed.

Lemma hl_lt_false a b : hl_lt a b = false <-> ~ lex3 (hkey a) (hkey b).
Proof. rewrite <- hl_lt_spec. destruct (hl_lt a b); split; congruence. Qed.

Lemma hl_lt_irrefl a : hl_lt a a = false.
Proof. apply hl_lt_false. unfold lex3, hkey. lia. Qed.

Lemma hl_lt_trans a b c : hl_lt a b = true -> hl_lt b c = true -> hl_lt a c = true.
Proof. rewrite !hl_lt_spec. unfold lex3, hkey. lia. Qed.

Lemma hl_lt_negtrans a b c : hl_lt a b = false -> hl_lt b c = false -> hl_lt a c = false.
Proof. rewrite !hl_lt_false. unfold lex3, hkey. lia. Qed.

Definition Any {A} (_ : A) : Prop := True.

Lemma Forall_Any {A} (l : list A) : Forall Any l.
Proof. apply Forall_forall. intros; exact I. Qed.

Definition hmin (l : list hl) : hl := min_by hl_lt hl0 l.

Lemma hmin_spec l : l <> [] -> In (hmin l) l /\ forall x, In x l -> ~ lex3 (hkey x) (hkey (hmin l)).
Proof.
  intros Hl.
  destruct (min_by_spec hl_lt Any (fun a _ => hl_lt_irrefl a)
              (fun a b c _ _ _ => hl_lt_trans a b c) (fun a b c _ _ _ => hl_lt_negtrans a b c)
              hl0 l Hl (Forall_Any l)) as [H1 H2].
  split; [exact H1|]. intros x Hx. apply hl_lt_false. now apply H2.
Qed.

(* ------------------------------------------------------------------ Error.__lt__ *)
Definition has_hl (d : diag) : Prop := d_hls d <> [].

(* the sort key of a diagnostic: position of its minimal highlight, then its name *)
Definition kline (d : diag) : Z := h_line (hmin (d_hls d)).
Definition kcol (d : diag) : Z := h_col (hmin (d_hls d)).

Definition key_lt (a b : diag) : Prop :=
  kline a < kline b \/ (kline a = kline b /\
    (kcol a < kcol b \/ (kcol a = kcol b /\ str_ltb (d_name a) (d_name b) = true))).

Lemma nonempty_true {A} (l : list A) : l <> [] -> nonempty l = true.
Proof. destruct l; [congruence|reflexivity]. Qed.

Lemma err_lt_spec a b : has_hl a -> has_hl b -> (err_lt a b = true <-> key_lt a b).
Proof.
  intros Ha Hb. unfold err_lt, key_lt, kline, kcol, hmin, pair_ltb.
  rewrite (nonempty_true _ Ha), (nonempty_true _ Hb). cbn [negb fst snd].
  set (ah := min_by hl_lt hl0 (d_hls a)). set (bh := min_by hl_lt hl0 (d_hls b)).
  destruct (Z.eqb_spec (h_col ah) (h_col bh)), (Z.eqb_spec (h_line ah) (h_line bh));
    cbn [andb]; rewrite ?Z.ltb_lt; try lia.
  split; [intros H; right; split; [lia|right; split; [lia|exact H]]|].
  intros [H|[_ [H|[_ H]]]]; [lia|lia|exact H].
Qed.

Lemma err_lt_false a b : has_hl a -> has_hl b -> (err_lt a b = false <-> ~ key_lt a b).
Proof. intros Ha Hb. rewrite <- (err_lt_spec a b Ha Hb). destruct (err_lt a b); split; congruence. Qed.

Lemma err_lt_irrefl a : has_hl a -> err_lt a a = false.
Proof.
  intros Ha. apply err_lt_false; [assumption..|]. unfold key_lt. rewrite str_ltb_irrefl.
  intros [H|[_ [H|[_ H]]]]; [lia|lia|discriminate].
Qed.

Lemma err_lt_trans a b c : has_hl a -> has_hl b -> has_hl c ->
  err_lt a b = true -> err_lt b c = true -> err_lt a c = true.
Proof.
  intros Ha Hb Hc. rewrite !err_lt_spec by assumption. unfold key_lt.
  intros [H1|[E1 [H1|[F1 H1]]]] [H2|[E2 [H2|[F2 H2]]]]; try (left; lia); try (right; split; [lia|left; lia]).
  right; split; [lia|]. right; split; [lia|]. eapply str_ltb_trans; eassumption.
Qed.

Lemma str_ltb_negtrans a b c : str_ltb a b = false -> str_ltb b c = false -> str_ltb a c = false.
Proof.
  intros H1 H2. destruct (str_ltb a c) eqn:E; [|reflexivity]. exfalso.
  destruct (str_ltb b a) eqn:E2.
  - pose proof (str_ltb_trans _ _ _ E2 E). congruence.
  - pose proof (str_ltb_total _ _ H1 E2). subst. congruence.
Qed.

Lemma err_lt_negtrans a b c : has_hl a -> has_hl b -> has_hl c ->
  err_lt a b = false -> err_lt b c = false -> err_lt a c = false.
Proof.
  intros Ha Hb Hc. rewrite !err_lt_false by assumption. unfold key_lt. intros H1 H2 H3.
  assert (L1 : kline b <= kline a) by (destruct (Z_lt_le_dec (kline a) (kline b)); [exfalso; apply H1; now left|assumption]).
  assert (L2 : kline c <= kline b) by (destruct (Z_lt_le_dec (kline b) (kline c)); [exfalso; apply H2; now left|assumption]).
  destruct H3 as [H3|[E3 H3]]; [lia|].
  assert (E1 : kline a = kline b) by lia. assert (E2 : kline b = kline c) by lia.
  assert (C1 : kcol b <= kcol a).
  { destruct (Z_lt_le_dec (kcol a) (kcol b)); [exfalso; apply H1; right; split; [assumption|now left]|assumption]. }
  assert (C2 : kcol c <= kcol b).
  { destruct (Z_lt_le_dec (kcol b) (kcol c)); [exfalso; apply H2; right; split; [assumption|now left]|assumption]. }
  destruct H3 as [H3|[F3 H3]]; [lia|].
  assert (F1 : kcol a = kcol b) by lia. assert (F2 : kcol b = kcol c) by lia.
  assert (N1 : str_ltb (d_name a) (d_name b) = false).
  { destruct (str_ltb (d_name a) (d_name b)) eqn:E; [|reflexivity]. exfalso. apply H1. right; split; [assumption|]. right; split; [assumption|first [assumption|reflexivity]]. }
  assert (N2 : str_ltb (d_name b) (d_name c) = false).
  { destruct (str_ltb (d_name b) (d_name c)) eqn:E; [|reflexivity]. exfalso. apply H2. right; split; [assumption|]. right; split; [assumption|first [assumption|reflexivity]]. }
  pose proof (str_ltb_negtrans _ _ _ N1 N2). congruence.
Qed.

(* the three laws together: err_lt is a strict weak order on diagnostics with >= 1 highlight *)
Theorem err_lt_swo :
  (forall a, has_hl a -> err_lt a a = false) /\
  (forall a b c, has_hl a -> has_hl b -> has_hl c -> err_lt a b = true -> err_lt b c = true -> err_lt a c = true) /\
  (forall a b c, has_hl a -> has_hl b -> has_hl c -> err_lt a b = false -> err_lt b c = false -> err_lt a c = false).
Proof. repeat split; [apply err_lt_irrefl|apply err_lt_trans|apply err_lt_negtrans]. Qed.

(* ------------------------------------------------------------------ the sorted report *)
Definition pos_le (a b : Z * Z) : Prop := fst a < fst b \/ (fst a = fst b /\ snd a <= snd b).
Definition kpos (d : diag) : Z * Z := (kline d, kcol d).

Lemma sort_diags_perm ds : Permutation ds (sort_diags ds).
Proof. apply sort_by_perm. Qed.

Lemma sort_diags_sorted_key ds : Forall has_hl ds ->
  StronglySorted (fun x y => pos_le (kpos x) (kpos y)) (sort_diags ds).
Proof.
  intros Hd.
  pose proof (sort_by_sorted err_lt has_hl err_lt_irrefl err_lt_trans ds Hd) as S.
  assert (Hp : Forall has_hl (sort_diags ds)).
  { rewrite Forall_forall in *. intros x Hx. apply Hd. eapply Permutation_in; [symmetry; apply sort_diags_perm|exact Hx]. }
  fold (sort_diags ds) in S. revert S Hp. generalize (sort_diags ds) as l.
  induction l as [|x l IH]; intros S Hp; [constructor|].
  inversion S as [|? ? S' Hx]; subst. inversion Hp as [|? ? Px Pl]; subst.
  constructor; [now apply IH|].
  rewrite Forall_forall in *. intros y Hy. specialize (Hx y Hy). unfold le in Hx.
  apply err_lt_false in Hx; [|now apply Pl|assumption].
  unfold key_lt in Hx. unfold pos_le, kpos; cbn [fst snd].
  destruct (Z_lt_le_dec (kline x) (kline y)); [now left|]. right.
  assert (kline y <= kline x) by lia.
  destruct (Z_lt_le_dec (kline y) (kline x)); [exfalso; apply Hx; now left|].
  split; [lia|].
  destruct (Z_lt_le_dec (kcol y) (kcol x)); [exfalso; apply Hx; right; split; [lia|now left]|lia].
Qed.

(* The formatter prints highlights[0].  It is the key position whenever the first highlight is
   position-minimal among the highlights of its diagnostic (true of every emission site: the
   lexer adds highlights left to right, the engine builds exactly one). *)
Definition hpos (h : hl) : Z * Z := (h_line h, h_col h).
Definition first_min (d : diag) : Prop :=
  match d_hls d with
  | [] => False
  | h :: r => forall x, In x r -> pos_le (hpos h) (hpos x)
  end.
Definition shown (d : diag) : Z * Z := hpos (hd hl0 (d_hls d)).

Lemma first_min_shown d : first_min d -> shown d = kpos d.
Proof.
  unfold first_min, shown, kpos, kline, kcol. destruct (d_hls d) as [|h r] eqn:E; [intros []|]. intros Hm.
  cbn [hd]. destruct (hmin_spec (h :: r)) as [Hin Hmin]; [discriminate|].
  specialize (Hmin h (or_introl eq_refl)).
  assert (Hle : pos_le (hpos h) (hpos (hmin (h :: r)))).
  { destruct Hin as [<-|Hin]; [unfold pos_le; cbn; lia|now apply Hm]. }
  unfold lex3, hkey in Hmin. unfold pos_le, hpos in *. cbn [fst snd] in *. f_equal; lia.
Qed.

Lemma first_min_has_hl d : first_min d -> has_hl d.
Proof. unfold first_min, has_hl. destruct (d_hls d); [intros []|discriminate]. Qed.

Theorem displayed_sorted ds : Forall first_min ds ->
  StronglySorted (fun x y => pos_le (shown x) (shown y)) (sort_diags ds).
Proof.
  intros Hf.
  assert (Hh : Forall has_hl ds) by (eapply Forall_impl; [apply first_min_has_hl|exact Hf]).
  pose proof (sort_diags_sorted_key ds Hh) as S.
  assert (Hp : Forall first_min (sort_diags ds)).
  { rewrite Forall_forall in *. intros x Hx. apply Hf. eapply Permutation_in; [symmetry; apply sort_diags_perm|exact Hx]. }
  revert S Hp. generalize (sort_diags ds) as l.
  induction l as [|x l IH]; intros S Hp; [constructor|].
  inversion S as [|? ? S' Hx]; subst. inversion Hp as [|? ? Px Pl]; subst.
  constructor; [now apply IH|].
  rewrite Forall_forall in *. intros y Hy. rewrite (first_min_shown x Px), (first_min_shown y (Pl y Hy)). now apply Hx.
Qed.

(* ------------------------------------------------------------------ status / exit status *)
Lemma s_ok_ne_error : s "OK" <> s "Error".
Proof. discriminate. Qed.

Lemma status_cases ds : status ds = s "OK" \/ status ds = s "Error".
Proof. unfold status. destruct (forallb _ ds); [now left|now right]. Qed.

Theorem status_ok_iff ds : status ds = s "OK" <-> forall d, In d ds -> d_level d = s "Notice".
Proof.
  unfold status. destruct (forallb _ ds) eqn:E.
  - split; [|reflexivity]. intros _ d Hd. rewrite forallb_forall in E. apply str_eqb_eq. now apply E.
  - split; [intros H; symmetry in H; now apply s_ok_ne_error in H|].
    intros H. exfalso. assert (forallb (fun x_it => str_eqb (d_level x_it) (s "Notice")) ds = true); [|congruence].
    apply forallb_forall. intros d Hd. apply str_eqb_eq. now apply H.
Qed.

Theorem exit_iff files : exit_code files = 0 <-> forall f, In f files -> status (f_errors f) = s "OK".
Proof.
  unfold exit_code. destruct (existsb _ files) eqn:E.
  - split; [discriminate|]. intros H. apply existsb_exists in E as [f [Hf Hs]]. apply str_eqb_eq in Hs.
    rewrite (H f Hf) in Hs. now apply s_ok_ne_error in Hs.
  - split; [|reflexivity]. intros _ f Hf.
    destruct (status_cases (f_errors f)) as [H|H]; [assumption|]. exfalso.
    assert (existsb (fun x_it => str_eqb (status (f_errors x_it)) (s "Error")) files = true); [|congruence].
    apply existsb_exists. exists f. split; [assumption|]. now apply str_eqb_eq.
Qed.

Theorem exit_01 files : exit_code files = 0 \/ exit_code files = 1.
Proof. unfold exit_code. destruct (existsb _ files); [now right|now left]. Qed.
