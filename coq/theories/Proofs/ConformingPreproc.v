(* C01: CheckPreprocessorIndent (Gen/PreprocChecks.check_preproc_indent, regenerated from the source on every run) emits NOTHING
   on a conforming directive line:  `#` in column 1, at global scope (glob = true), no tab between `#` and the directive name, the
   name at distance = the expected indentation (max 0 of preproc.indent, one less for if / else / ifdef / ifndef / elif: the
   generated ppi_indent_of; preproc.indent itself is a view hypothesis, maintained by IsPreprocessorStatement - Gen/Guard's directive
   table models it for C14), and - for a directive with an argument - exactly one space before the argument (or the line ends). *)
From NV Require Import Model.Base Model.Lexer Model.RuleChecks Model.PreprocBase Gen.PreprocChecks.
From Coq Require Import Lia.
Local Open Scope Z_scope.

(* the spacing between the directive name and its argument: position i4 = the token after the name *)
Definition ppi_args_ok (toks : list token) (i4 : Z) : bool :=
  truthy (check1 toks (skip_ws_c toks i4) ppi_nl2) || is_none (peek toks (skip_ws_c toks i4))
  || (truthy (checkl toks i4 [ppi_sp2; ppi_tab2])
      && negb (truthy (check1 toks (skip_while toks (fun x => truthy (check1 toks x ppi_sp3)) i4) ppi_tab3))
      && negb (skip_ws toks i4 - i4 >? 1)).

Lemma ppi_args_quiet toks i4 E4 : ppi_args_ok toks i4 = true -> ppi_args toks i4 E4 = Ok E4.
Proof.
  unfold ppi_args_ok, ppi_args. cbv zeta. intros H.
  destruct (truthy (check1 toks (skip_ws_c toks i4) ppi_nl2) || is_none (peek toks (skip_ws_c toks i4))); [reflexivity|].
  cbn [orb] in H. apply andb_true_iff in H as [H C]. apply andb_true_iff in H as [A B]. apply negb_true_iff in B, C.
  rewrite A. cbn [negb bind]. rewrite B. cbn [bind]. rewrite C. reflexivity.
Qed.

Definition ppi_line_ok (toks : list token) (pindent : Z) : bool :=
  let i0 := skip_ws toks 0 in
  let i1 := i0 + 1 in
  match peek toks i0 with
  | None => false
  | Some h =>
      (t_col h =? 1)
      && (truthy (check1 toks (skip_ws_c toks i1) ppi_nl1)
          || (negb (truthy (check1 toks (skip_while toks (fun x => truthy (check1 toks x ppi_sp1)) i1) ppi_tab1))
              && match peek toks (skip_ws toks i1) with
                 | None => false
                 | Some t3 =>
                     match ppi_indent_of toks (skip_ws toks i1) t3 pindent with
                     | Ok ind1 =>
                         (t_col t3 - t_col h - 1 =? Z.max 0 ind1)
                         && (negb (truthy (checkl toks (skip_ws toks i1) [ppi_id2; ppi_if2]) && optstr_in (t_val t3) ppi_argumented)
                             || ppi_args_ok toks (skip_ws toks i1 + 1))
                     | _ => false
                     end
                 end))
  end.

Theorem preproc_indent_silent toks pindent : ppi_line_ok toks pindent = true -> check_preproc_indent toks true pindent = Ok [].
Proof.
  unfold ppi_line_ok, check_preproc_indent. cbv zeta. intros H.
  destruct (peek toks (skip_ws toks 0)) as [h|]; [|discriminate]. apply andb_true_iff in H as [C1 H]. rewrite C1. cbn [negb bind].
  destruct (truthy (check1 toks (skip_ws_c toks (skip_ws toks 0 + 1)) ppi_nl1)); [reflexivity|]. cbn [orb] in H.
  apply andb_true_iff in H as [T H]. apply negb_true_iff in T. rewrite T. cbn [bind].
  destruct (peek toks (skip_ws toks (skip_ws toks 0 + 1))) as [t3|]; [|discriminate]. cbn [need_tok]. unfold ppi_body. cbv zeta.
  destruct (ppi_indent_of toks (skip_ws toks (skip_ws toks 0 + 1)) t3 pindent) as [ind1| | |]; try discriminate. cbn [bind].
  apply andb_true_iff in H as [I A]. apply Z.eqb_eq in I. rewrite I.
  replace (Z.max 0 ind1 >? Z.max 0 ind1) with false by (symmetry; rewrite Z.gtb_ltb; apply Z.ltb_irrefl).
  rewrite Z.ltb_irrefl. cbn [app].
  destruct (truthy (checkl toks (skip_ws toks (skip_ws toks 0 + 1)) [ppi_id2; ppi_if2]) && optstr_in (t_val t3) ppi_argumented); [|reflexivity].
  cbn [negb orb] in A. now apply ppi_args_quiet.
Qed.

(* non-vacuity: `#ifndef FOO_H` / `# define FOO_H` / `# include <a.h>` at indentation 0 / 1 / 1 *)
From Coq Require Import String.
Local Open Scope string_scope.
Definition tkv (ty : string) (l c : Z) (v : option string) : token := mktok (s ty) l c (match v with Some x => Some (s x) | None => None end).
Definition ex_ifndef : list token := [tkv "HASH" 1 1 None; tkv "IDENTIFIER" 1 2 (Some "ifndef"); tkv "SPACE" 1 8 None; tkv "IDENTIFIER" 1 9 (Some "FOO_H"); tkv "NEWLINE" 1 14 None].
Definition ex_define : list token := [tkv "HASH" 2 1 None; tkv "SPACE" 2 2 None; tkv "IDENTIFIER" 2 3 (Some "define"); tkv "SPACE" 2 9 None; tkv "IDENTIFIER" 2 10 (Some "FOO_H"); tkv "NEWLINE" 2 15 None].
Definition ex_endif : list token := [tkv "HASH" 9 1 None; tkv "IDENTIFIER" 9 2 (Some "endif"); tkv "NEWLINE" 9 7 None].
Example ppi_examples : ppi_line_ok ex_ifndef 1 = true /\ ppi_line_ok ex_define 1 = true /\ ppi_line_ok ex_endif 0 = true /\
  ppi_line_ok ex_define 0 = false /\ check_preproc_indent ex_define true 1 = Ok [].
Proof. vm_compute. repeat split. Qed.
