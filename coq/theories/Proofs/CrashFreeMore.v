(* C05 for the second batch of translated checks (Gen/MoreChecks.v): which outcomes they can have. *)
From NV Require Import Model.Base Model.RuleChecks Model.CounterBase Gen.MoreChecks Proofs.StrOrder Proofs.RuleChecksProofs Proofs.SpacingTotal
  Proofs.CrashFree.
From Coq Require Import Lia.
Local Open Scope Z_scope.

Lemma is_false_some toks j c : is_false (check1 toks j c) = true -> exists t, peek toks j = Some t.
Proof. unfold check1. destruct (peek toks j) as [t|]; [eexists; reflexivity|discriminate]. Qed.
Lemma is_true_some toks j c : is_true (check1 toks j c) = true -> exists t, peek toks j = Some t.
Proof. unfold check1. destruct (peek toks j) as [t|]; [eexists; reflexivity|discriminate]. Qed.
Lemma is_truel_some toks j c : is_true (checkl toks j c) = true -> exists t, peek toks j = Some t.
Proof. unfold checkl. destruct (peek toks j) as [t|]; [eexists; reflexivity|discriminate]. Qed.
Lemma is_falsel_some toks j c : is_false (checkl toks j c) = true -> exists t, peek toks j = Some t.
Proof. unfold checkl. destruct (peek toks j) as [t|]; [eexists; reflexivity|discriminate]. Qed.

(* ------------------------------------------------------------------ CheckUtypeDeclaration (the translated slice) *)
Theorem check_utype_total_in_registry : forall toks scope ftype v t, peek toks (skip_ws toks 0) = Some t ->
  exists r, check_utype_forbidden toks scope ftype v = Ok r.
Proof.
  intros toks scope ftype v t P. unfold check_utype_forbidden. cbv zeta. rewrite P. cbn [need_tok].
  destruct (negb (str_in (v_scope_name v) _)); cbn [emit bind];
    (destruct (str_eqb ftype (s ".c")); [|eexists; reflexivity]);
    (destruct (_ && _); cbn [emit bind]; eexists; reflexivity).
Qed.
Theorem check_utype_crash_without_token : forall toks scope v, peek toks (skip_ws toks 0) = None ->
  check_utype_forbidden toks scope (s ".c") v = Crash AttributeError.
Proof.
  intros toks scope v P. unfold check_utype_forbidden. cbv zeta. rewrite P.
  replace (str_eqb (s ".c") (s ".c")) with true by reflexivity. destruct (negb _); reflexivity.
Qed.

(* ------------------------------------------------------------------ CheckExpressionStatement: a result or skip_nest's CParsingError *)
Ltac conds :=
  repeat match goal with
  | Q : (_ && _) = true |- _ => apply andb_true_iff in Q as [? ?]
  end.
Ltac some_tok :=
  match goal with
  | Q : is_false (check1 ?t ?e _) = true |- context [emit _ (peek ?t ?e) _] => let tt := fresh "tt" in let PP := fresh "PP" in destruct (is_false_some _ _ _ Q) as [tt PP]; rewrite PP
  | Q : is_true (check1 ?t ?e _) = true |- context [emit _ (peek ?t ?e) _] => let tt := fresh "tt" in let PP := fresh "PP" in destruct (is_true_some _ _ _ Q) as [tt PP]; rewrite PP
  | Q : is_true (checkl ?t ?e _) = true |- context [emit _ (peek ?t ?e) _] => let tt := fresh "tt" in let PP := fresh "PP" in destruct (is_truel_some _ _ _ Q) as [tt PP]; rewrite PP
  end.

Lemma expr_loop_total toks scope : forall fuel i E v, 0 <= i -> Z.max 0 (zlen toks - i) < Z.of_nat fuel ->
  (exists r, check_expression_statement_loop1 fuel toks scope i E v = Ok r) \/
  (exists m, check_expression_statement_loop1 fuel toks scope i E v = Fatal m).
Proof.
  induction fuel as [|f IH]; intros i E v Hi Hf; [lia|].
  cbn [check_expression_statement_loop1]. cbv zeta.
  destruct (is_false (checkl toks i [s "SEMI_COLON"; s "NEWLINE"])) eqn:Q0; [|left; eexists; reflexivity].
  destruct (is_falsel_some _ _ _ Q0) as [ti Pi]. pose proof (peek_some_lt toks i ti Hi Pi) as Hil.
  assert (Next : forall E', (exists r, check_expression_statement_loop1 f toks scope (i + 1) E' v = Ok r) \/
                            (exists m, check_expression_statement_loop1 f toks scope (i + 1) E' v = Fatal m)) by (intros E'; apply IH; lia).
  repeat first
    [ match goal with |- (exists r, Ok _ = Ok r) \/ _ => left; eexists; reflexivity end
    | match goal with |- _ \/ (exists m, Fatal _ = Fatal m) => right; eexists; reflexivity end
    | match goal with |- (exists r, check_expression_statement_loop1 _ _ _ _ _ _ = Ok r) \/ _ => apply Next end
    | progress cbn [emit bind]
    | match goal with |- context [if ?c then _ else _] => let Q := fresh "Q" in destruct c eqn:Q; conds end
    | some_tok
    | match goal with |- context [bind (skip_nest ?t ?p) _] =>
        let R := fresh "R" in let j := fresh "j" in let Hj := fresh "Hj" in let m := fresh "m" in
        assert (0 <= p) by (pose proof (skip_ws_ge toks (i + 1)); lia);
        destruct (skip_nest_total t p) as [[j [R Hj]]|[m R]]; [assumption|rewrite R|rewrite R]; cbn [bind] end ].
Qed.

Theorem check_expression_statement_outcomes : forall toks scope v,
  (exists r, check_expression_statement toks scope v = Ok r) \/ (exists m, check_expression_statement toks scope v = Fatal m).
Proof.
  intros toks scope v. unfold check_expression_statement. cbv zeta.
  destruct (expr_loop_total toks scope (loop_fuel toks) 0 [] v) as [[[ret [[i1 E1] v1]] R]|[m R]]; [lia|unfold loop_fuel, zlen; lia| |];
    rewrite R; cbn [bind]; [left; destruct ret; eexists; reflexivity|right; eexists; reflexivity].
Qed.

(* ------------------------------------------------------------------ CheckControlStatement: total.  Its helper check_nest stops at the
   end of the tokens (`while depth > 0 and context.peek_token(i) is not None`): the index grows in every turn, no fuel runs out,
   every new_error has its token *)
Lemma nest_loop_total toks scope : forall fuel i d E v, 0 <= i -> Z.max 0 (zlen toks - i) < Z.of_nat fuel ->
  exists r, check_control_nest_loop1 fuel toks scope i d E v = Ok r.
Proof.
  induction fuel as [|f IH]; intros i d E v Hi Hf; [lia|].
  cbn [check_control_nest_loop1]. cbv zeta.
  destruct ((d >? 0) && negb (is_none (peek toks i))) eqn:C; [|eexists; reflexivity].
  apply andb_true_iff in C as [_ C]. destruct (peek toks i) as [ti|] eqn:Pi; [|discriminate].
  pose proof (peek_some_lt toks i ti Hi Pi) as Hil.
  repeat first
    [ match goal with |- exists r, Ok _ = Ok r => eexists; reflexivity end
    | match goal with |- exists r, check_control_nest_loop1 _ _ _ _ _ _ _ = Ok r => apply IH; lia end
    | progress cbn [emit bind]
    | match goal with |- context [if ?c then _ else _] => let Q := fresh "Q" in destruct c eqn:Q; conds end ].
Qed.

Lemma control_nest_total toks scope v i E : 0 <= i -> exists r, check_control_nest toks scope v i E = Ok r.
Proof.
  intros Hi. unfold check_control_nest. cbv zeta.
  destruct (nest_loop_total toks scope (loop_fuel toks) (i + 1) 1 E v) as [[ret [[[i1 d1] E1] v1]] R]; [lia|unfold loop_fuel, zlen; lia|].
  rewrite R. cbn [bind]. destruct ret; eexists; reflexivity.
Qed.

Lemma control_loop_total toks scope : forall fuel i E v, 0 <= i -> Z.max 0 (zlen toks - i) < Z.of_nat fuel ->
  exists r, check_control_statement_loop1 fuel toks scope i E v = Ok r.
Proof.
  induction fuel as [|f IH]; intros i E v Hi Hf; [lia|].
  cbn [check_control_statement_loop1].
  destruct (is_false (check1 toks i (s "NEWLINE"))) eqn:Q0; [|eexists; reflexivity].
  destruct (is_false_some _ _ _ Q0) as [ti Pi]. pose proof (peek_some_lt toks i ti Hi Pi) as Hil. rewrite Pi.
  destruct (is_true (check1 toks i (s "SEMI_COLON"))); cbn [emit bind]; [eexists; reflexivity|].
  destruct (is_true (checkl toks i control_forbidden_cs)); cbn [emit bind]; [eexists; reflexivity|].
  destruct (is_true (check1 toks i (s "LPARENTHESIS"))); [|apply IH; lia].
  destruct (control_nest_total toks scope v i E Hi) as [[b E1] R]. rewrite R. cbn [bind].
  destruct b; [eexists; reflexivity|apply IH; lia].
Qed.

Theorem check_control_statement_total : forall toks scope v, toks <> [] -> exists r, check_control_statement toks scope v = Ok r.
Proof.
  intros toks scope v Ht. destruct (nonempty_peek0 toks Ht) as [t0 P0].
  unfold check_control_statement. cbv zeta. rewrite P0.
  assert (T : forall E0, exists r, bind (check_control_statement_loop1 (loop_fuel toks) toks scope 0 E0 v)
       (fun rs => let '(ret, st) := rs in let '(x_i, E, v) := st in match ret with Some _ => Ok (E, v) | None => Ok (E, v) end) = Ok r).
  { intros E0. destruct (control_loop_total toks scope (loop_fuel toks) 0 E0 v) as [[ret [[i1 E1] v1]] R]; [lia|unfold loop_fuel, zlen; lia|].
    rewrite R. cbn [bind]. destruct ret; eexists; reflexivity. }
  destruct (str_eqb (v_scope_name v) (s "GlobalScope")); cbn [emit bind]; apply T.
Qed.

(* the invocation that did not return before the repair (`<TAB>else(` in a function body, recorded from the implementation:
   IsControlStatement matches `else` + anything without looking for the closing parenthesis): the scan now ends with the tokens *)
Definition else_paren_tokens : list token :=
  [mk_tok (s "TAB") 3 1; mk_tok (s "ELSE") 3 5; mk_tok (s "LPARENTHESIS") 3 9; mk_tok (s "NEWLINE") 3 10; mk_tok (s "RBRACE") 4 1; mk_tok (s "NEWLINE") 4 2].
Definition else_paren_view : view := mkview [s "IsControlStatement"; s "IsBlockStart"; s "IsFuncDeclaration"] (s "Function") false 1 false false.
Theorem check_control_statement_returns_on_else_paren : check_control_statement else_paren_tokens 2 else_paren_view = Ok ([], else_paren_view).
Proof. vm_compute. reflexivity. Qed.
