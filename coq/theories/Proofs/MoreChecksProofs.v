(* Token-local theorems for the second batch of translated checks (Gen/MoreChecks.v): CheckUtypeDeclaration's FORBIDDEN_<type>
   test (T01-T04), CheckExpressionStatement (S11, O07), CheckControlStatement (S01, S02, S06). *)
From NV Require Import Model.Base Model.RuleChecks Model.CounterBase Gen.MoreChecks Proofs.StrOrder Proofs.RuleChecksProofs.
From Coq Require Import Lia.
Local Open Scope Z_scope.

Lemma peek_mid pre t post : peek (pre ++ t :: post) (zlen pre) = Some t.
Proof.
  rewrite peek_nonneg by apply zlen_nonneg. unfold zlen. rewrite app_length. cbn [Datatypes.length].
  destruct (Z.ltb_spec (Z.of_nat (Datatypes.length pre)) (Z.of_nat (Datatypes.length pre + S (Datatypes.length post)))); [|lia].
  rewrite Nat2Z.id, nth_error_app2 by lia. now rewrite Nat.sub_diag.
Qed.
Lemma zlen_app {A} (a b : list A) : zlen (a ++ b) = zlen a + zlen b.
Proof. unfold zlen. rewrite app_length. lia. Qed.
Lemma zlen_cons {A} (x : A) l : zlen (x :: l) = 1 + zlen l.
Proof. unfold zlen. cbn [Datatypes.length]. lia. Qed.
Ltac zl := repeat (rewrite zlen_app || rewrite zlen_cons); unfold zlen; cbn [Datatypes.length Z.of_nat]; lia.

(* ------------------------------------------------------------------ T01-T04: struct / union / enum / typedef in a .c file *)
Definition utype_keywords : list str := [s "STRUCT"; s "UNION"; s "ENUM"; s "TYPEDEF"].
Definition utype_scopes : list str := [s "UserDefinedType"; s "UserDefinedEnum"].

Theorem utype_forbidden_in_c toks scope v k tk :
  leading toks ws_no_nl k -> peek toks (Z.of_nat k) = Some tk ->
  str_in (t_type tk) utype_keywords = true -> str_in (v_scope_name v) utype_scopes = false ->
  exists E, check_utype_forbidden toks scope (s ".c") v = Ok (E, v) /\ In (s "FORBIDDEN_" ++ t_type tk, t_line tk, t_col tk) E.
Proof.
  intros Hl Hp Hk Hs. unfold check_utype_forbidden. cbv zeta. rewrite (skip_ws_leading _ _ Hl), Hp.
  replace (str_eqb (s ".c") (s ".c")) with true by reflexivity. cbn [need_tok].
  fold utype_keywords utype_scopes. rewrite Hk, Hs. cbn [negb andb].
  destruct (negb (str_in (v_scope_name v) [s "GlobalScope"; s "UserDefinedType"])); cbn [emit bind app]; eexists; (split; [reflexivity|]); cbn [In]; auto.
Qed.

(* in any other kind of file the test is not even evaluated *)
Theorem utype_not_forbidden_elsewhere toks scope ftype v E v' : str_eqb ftype (s ".c") = false ->
  check_utype_forbidden toks scope ftype v = Ok (E, v') -> forall e, In e E -> em_code e = s "TYPE_NOT_GLOBAL".
Proof.
  intros Hf. unfold check_utype_forbidden. cbv zeta. rewrite Hf. intros H.
  destruct (negb _); [destruct (peek toks (skip_ws toks 0)); cbn [emit bind] in H; [|discriminate]|]; inversion H; subst;
    intros e He; cbn in He; [destruct He as [<-|[]]; reflexivity|destruct He].
Qed.

(* ------------------------------------------------------------------ CheckControlStatement: S01, S02 (for / switch), S06 (assignment) *)
Definition ty_nl := s "NEWLINE".
Definition ty_semi := s "SEMI_COLON".
Definition ty_lpar := s "LPARENTHESIS".
Definition ty_rpar := s "RPARENTHESIS".
(* a token the scanning loop of run steps over without a word *)
Definition inert_c (t : token) : bool :=
  negb (str_in (t_type t) ([ty_nl; ty_semi; ty_lpar] ++ control_forbidden_cs)).

Lemma inert_c_spec t : inert_c t = true ->
  str_eqb (t_type t) ty_nl = false /\ str_eqb (t_type t) ty_semi = false /\ str_eqb (t_type t) ty_lpar = false /\
  str_in (t_type t) control_forbidden_cs = false.
Proof.
  unfold inert_c. intros H. apply negb_true_iff in H. unfold str_in in *. cbn [app existsb] in H.
  apply orb_false_iff in H as [A H]. apply orb_false_iff in H as [B H]. apply orb_false_iff in H as [C H].
  repeat split; assumption.
Qed.

Lemma control_loop_reach v scope : forall l0 pre rest fuel E, forallb inert_c l0 = true ->
  check_control_statement_loop1 (Datatypes.length l0 + fuel) (pre ++ l0 ++ rest) scope (zlen pre) E v
  = check_control_statement_loop1 fuel (pre ++ l0 ++ rest) scope (zlen pre + zlen l0) E v.
Proof.
  induction l0 as [|t l0 IH]; intros pre rest fuel E Hi.
  - cbn [Datatypes.length Nat.add app]. f_equal. zl.
  - cbn [forallb] in Hi. apply andb_true_iff in Hi as [Ht Hi]. destruct (inert_c_spec t Ht) as [A [B [C D]]].
    cbn [Datatypes.length Nat.add app check_control_statement_loop1].
    rewrite !(check1_some _ _ _ _ (peek_mid pre t (l0 ++ rest))), (checkl_some _ _ _ _ (peek_mid pre t (l0 ++ rest))).
    fold ty_nl ty_semi ty_lpar. rewrite A, B, C, D. cbn [is_false is_true].
    replace (pre ++ t :: l0 ++ rest) with ((pre ++ [t]) ++ l0 ++ rest) by (rewrite <- app_assoc; reflexivity).
    replace (zlen pre + 1) with (zlen (pre ++ [t])) by zl.
    rewrite (IH (pre ++ [t]) rest fuel E Hi). f_equal. zl.
Qed.

Lemma forbidden_not_nl_semi ty : str_in ty control_forbidden_cs = true -> str_eqb ty ty_nl = false /\ str_eqb ty ty_semi = false.
Proof.
  unfold str_in, control_forbidden_cs. cbn [existsb]. rewrite orb_false_r. intros H.
  repeat (apply orb_true_iff in H as [H|H]); apply str_eqb_eq in H; subst; split; reflexivity.
Qed.

(* S01, S02: a `for` / `switch` (case, goto) token reached by the scan - i.e. before any `(`, `;` or line end of the statement -
   is reported at that token (given that IsControlStatement matched, on which the check depends) *)
Theorem control_forbidden_cs_reported l0 tf rest scope v :
  forallb inert_c l0 = true -> str_in (t_type tf) control_forbidden_cs = true ->
  exists E, check_control_statement (l0 ++ tf :: rest) scope v = Ok (E, v) /\ In (s "FORBIDDEN_CS", t_line tf, t_col tf) E.
Proof.
  intros Hi Hf. destruct (forbidden_not_nl_semi _ Hf) as [A B].
  assert (T : forall E0, exists E, bind (check_control_statement_loop1 (loop_fuel (l0 ++ tf :: rest)) (l0 ++ tf :: rest) scope 0 E0 v)
       (fun rs => let '(ret, st) := rs in let '(x_i, E, v) := st in match ret with Some _ => Ok (E, v) | None => Ok (E, v) end) = Ok (E, v)
       /\ In (s "FORBIDDEN_CS", t_line tf, t_col tf) E).
  { intros E0. unfold loop_fuel. rewrite app_length. cbn [Datatypes.length].
    replace (S (S (2 * (Datatypes.length l0 + S (Datatypes.length rest))))) with (Datatypes.length l0 + S (S (Datatypes.length l0 + 2 + 2 * Datatypes.length rest)))%nat by lia.
    change (l0 ++ tf :: rest) with ([] ++ l0 ++ tf :: rest). change 0 with (zlen (@nil token)).
    rewrite (control_loop_reach v scope l0 [] (tf :: rest) _ E0 Hi).
    cbn [check_control_statement_loop1]. cbn [app].
    replace (zlen (@nil token) + zlen l0) with (zlen l0) by zl.
    rewrite !(check1_some _ _ _ _ (peek_mid l0 tf rest)), (checkl_some _ _ _ _ (peek_mid l0 tf rest)). fold ty_nl ty_semi. rewrite A, B, Hf.
    cbn [is_false is_true]. rewrite (peek_mid l0 tf rest). cbn [emit bind]. eexists. split; [reflexivity|]. apply in_or_app. right. now left. }
  unfold check_control_statement. cbv zeta. destruct (str_eqb (v_scope_name v) (s "GlobalScope")); [|apply T].
  assert (P0 : exists t0, peek (l0 ++ tf :: rest) 0 = Some t0).
  { destruct l0 as [|x l0']; [exists tf|exists x]; reflexivity. }
  destruct P0 as [t0 P0]. rewrite P0. cbn [emit bind]. apply T.
Qed.

(* inside the parentheses of the condition: anything but a closing parenthesis or an assignment operator *)
Definition inert_n (t : token) : bool := negb (str_eqb (t_type t) ty_rpar) && negb (str_in (t_type t) control_assigns).

Lemma assign_not_paren ty : str_in ty control_assigns = true -> str_eqb ty ty_lpar = false /\ str_eqb ty ty_rpar = false.
Proof.
  unfold str_in, control_assigns. cbn [existsb]. rewrite orb_false_r. intros H.
  repeat (apply orb_true_iff in H as [H|H]); apply str_eqb_eq in H; subst; split; reflexivity.
Qed.

Lemma nest_loop_reach v scope : forall l1 pre rest fuel d E, 1 <= d -> forallb inert_n l1 = true ->
  exists d' X, 1 <= d' /\
  check_control_nest_loop1 (Datatypes.length l1 + fuel) (pre ++ l1 ++ rest) scope (zlen pre) d E v
  = check_control_nest_loop1 fuel (pre ++ l1 ++ rest) scope (zlen pre + zlen l1) d' (E ++ X) v.
Proof.
  induction l1 as [|t l1 IH]; intros pre rest fuel d E Hd Hi.
  - exists d, []. split; [exact Hd|]. cbn [Datatypes.length Nat.add app]. rewrite app_nil_r. f_equal. zl.
  - cbn [forallb] in Hi. apply andb_true_iff in Hi as [Ht Hi]. unfold inert_n in Ht. apply andb_true_iff in Ht as [A B].
    apply negb_true_iff in A, B.
    cbn [Datatypes.length Nat.add app check_control_nest_loop1]. cbv zeta.
    replace (d >? 0) with true by (symmetry; apply Z.gtb_lt; lia).
    rewrite !(check1_some _ _ _ _ (peek_mid pre t (l1 ++ rest))), !(checkl_some _ _ _ _ (peek_mid pre t (l1 ++ rest))), (peek_mid pre t (l1 ++ rest)).
    cbn [is_none negb andb].
    fold ty_rpar ty_lpar ty_nl. rewrite A, B. cbn [is_true].
    assert (Step : forall d2 E2, 1 <= d2 -> exists d' X, 1 <= d' /\
       (if (if str_eqb (t_type t) ty_nl then true else false) && (d2 <? 1) then Ok (Some false, (zlen pre, d2, E2, v))
        else check_control_nest_loop1 (Datatypes.length l1 + fuel) (pre ++ t :: l1 ++ rest) scope (zlen pre + 1) d2 E2 v)
       = check_control_nest_loop1 fuel (pre ++ t :: l1 ++ rest) scope (zlen pre + zlen (t :: l1)) d' (E2 ++ X) v).
    { intros d2 E2 Hd2. replace (d2 <? 1) with false by (symmetry; apply Z.ltb_ge; lia). rewrite andb_false_r.
      replace (pre ++ t :: l1 ++ rest) with ((pre ++ [t]) ++ l1 ++ rest) by (rewrite <- app_assoc; reflexivity).
      replace (zlen pre + 1) with (zlen (pre ++ [t])) by zl.
      destruct (IH (pre ++ [t]) rest fuel d2 E2 Hd2 Hi) as [d' [X [Hd' R]]]. exists d', X. split; [exact Hd'|]. rewrite R. f_equal. zl. }
    destruct (str_eqb (t_type t) ty_lpar).
    + destruct (str_in (t_type t) control_forbidden_cs); cbn [emit bind].
      * destruct (Step (d + 1) (E ++ [(s "FORBIDDEN_CS", t_line t, t_col t)])) as [d' [X [Hd' R]]]; [lia|].
        exists d', ((s "FORBIDDEN_CS", t_line t, t_col t) :: X). split; [exact Hd'|]. rewrite R. f_equal. now rewrite <- app_assoc.
      * apply Step. lia.
    + destruct (str_in (t_type t) control_forbidden_cs); cbn [emit bind].
      * destruct (Step d (E ++ [(s "FORBIDDEN_CS", t_line t, t_col t)])) as [d' [X [Hd' R]]]; [lia|].
        exists d', ((s "FORBIDDEN_CS", t_line t, t_col t) :: X). split; [exact Hd'|]. rewrite R. f_equal. now rewrite <- app_assoc.
      * apply Step. lia.
Qed.

(* S06: an assignment operator inside the parentheses of the condition, before they close, is reported at the operator *)
Theorem control_assign_reported l0 lp l1 ta rest scope v :
  forallb inert_c l0 = true -> t_type lp = ty_lpar -> forallb inert_n l1 = true -> str_in (t_type ta) control_assigns = true ->
  exists E, check_control_statement (l0 ++ lp :: l1 ++ ta :: rest) scope v = Ok (E, v) /\ In (s "ASSIGN_IN_CONTROL", t_line ta, t_col ta) E.
Proof.
  intros Hi Hlp Hn Ha. destruct (assign_not_paren _ Ha) as [A1 A2].
  set (toks := l0 ++ lp :: l1 ++ ta :: rest).
  (* the helper, called at the opening parenthesis *)
  assert (N : forall E0, exists E, check_control_nest toks scope v (zlen l0) E0 = Ok (true, E) /\ In (s "ASSIGN_IN_CONTROL", t_line ta, t_col ta) E).
  { intros E0. unfold check_control_nest. cbv zeta. unfold loop_fuel, toks.
    replace (l0 ++ lp :: l1 ++ ta :: rest) with ((l0 ++ [lp]) ++ l1 ++ ta :: rest) by (rewrite <- app_assoc; reflexivity).
    replace (zlen l0 + 1) with (zlen (l0 ++ [lp])) by zl.
    assert (HL : (Datatypes.length l1 <= Datatypes.length ((l0 ++ [lp]) ++ l1 ++ ta :: rest))%nat) by (rewrite !app_length; lia).
    set (L := Datatypes.length ((l0 ++ [lp]) ++ l1 ++ ta :: rest)) in *.
    replace (S (S (2 * L))) with (Datatypes.length l1 + S (S (2 * L) - Datatypes.length l1))%nat by lia.
    destruct (nest_loop_reach v scope l1 (l0 ++ [lp]) (ta :: rest) (S (S (2 * L) - Datatypes.length l1)) 1 E0)
      as [d' [X [Hd' R]]]; [lia|exact Hn|]. rewrite R. clear R.
    cbn [check_control_nest_loop1]. cbv zeta. replace (d' >? 0) with true by (symmetry; apply Z.gtb_lt; lia).
    replace ((l0 ++ [lp]) ++ l1 ++ ta :: rest) with (((l0 ++ [lp]) ++ l1) ++ ta :: rest) by (rewrite <- app_assoc; reflexivity).
    replace (zlen (l0 ++ [lp]) + zlen l1) with (zlen ((l0 ++ [lp]) ++ l1)) by zl.
    rewrite !(check1_some _ _ _ _ (peek_mid _ ta rest)), !(checkl_some _ _ _ _ (peek_mid _ ta rest)), (peek_mid _ ta rest).
    cbn [is_none negb andb].
    fold ty_lpar ty_rpar. rewrite A1, A2, Ha. cbn [is_true emit bind]. eexists. split; [reflexivity|]. apply in_or_app. right. now left. }
  assert (T : forall E0, exists E, bind (check_control_statement_loop1 (loop_fuel toks) toks scope 0 E0 v)
       (fun rs => let '(ret, st) := rs in let '(x_i, E, v) := st in match ret with Some _ => Ok (E, v) | None => Ok (E, v) end) = Ok (E, v)
       /\ In (s "ASSIGN_IN_CONTROL", t_line ta, t_col ta) E).
  { intros E0. unfold loop_fuel.
    assert (HL : (Datatypes.length l0 <= Datatypes.length toks)%nat) by (unfold toks; rewrite !app_length; lia).
    set (L := Datatypes.length toks) in *.
    replace (S (S (2 * L))) with (Datatypes.length l0 + S (S (2 * L) - Datatypes.length l0))%nat by lia.
    unfold toks at 1. change (l0 ++ lp :: l1 ++ ta :: rest) with ([] ++ l0 ++ lp :: l1 ++ ta :: rest). change 0 with (zlen (@nil token)).
    rewrite (control_loop_reach v scope l0 [] (lp :: l1 ++ ta :: rest) _ E0 Hi).
    cbn [check_control_statement_loop1]. cbn [app]. fold toks.
    replace (zlen (@nil token) + zlen l0) with (zlen l0) by zl.
    assert (Plp : peek toks (zlen l0) = Some lp) by apply peek_mid.
    rewrite !(check1_some _ _ _ _ Plp), (checkl_some _ _ _ _ Plp). fold ty_nl ty_semi ty_lpar. rewrite Hlp.
    replace (str_eqb ty_lpar ty_nl) with false by reflexivity. replace (str_eqb ty_lpar ty_semi) with false by reflexivity.
    replace (str_in ty_lpar control_forbidden_cs) with false by reflexivity. replace (str_eqb ty_lpar ty_lpar) with true by reflexivity.
    cbn [is_false is_true].
    destruct (N E0) as [E1 [R1 I1]]. rewrite R1. cbn [bind]. eexists. split; [reflexivity|exact I1]. }
  unfold check_control_statement. cbv zeta. fold toks. destruct (str_eqb (v_scope_name v) (s "GlobalScope")); [|apply T].
  assert (P0 : exists t0, peek toks 0 = Some t0).
  { unfold toks. destruct l0 as [|x l0']; [exists lp|exists x]; reflexivity. }
  destruct P0 as [t0 P0]. rewrite P0. cbn [emit bind]. apply T.
Qed.

(* ------------------------------------------------------------------ CheckExpressionStatement: S11 (return without parentheses), O07 *)
Definition ty_return := s "RETURN".
Definition inert_e (t : token) : bool := negb (str_in (t_type t) [ty_semi; ty_nl; ty_return]).
Definition after_kw_ok : list str := [s "SPACE"; s "NEWLINE"; s "RPARENTHESIS"; s "COMMENT"; s "MULT_COMMENT"].

Ltac es_step H :=
  match type of H with
  | (if ?c then _ else _) = _ => destruct c
  | bind (emit _ ?o _) _ = _ => destruct o; cbn [emit bind] in H
  | bind (skip_nest ?t ?p) _ = _ => destruct (skip_nest t p); cbn [bind] in H
  end.

(* the loop only appends diagnostics *)
Lemma expr_loop_mono toks scope : forall fuel i E v ret i' E' v',
  check_expression_statement_loop1 fuel toks scope i E v = Ok (ret, (i', E', v')) -> v' = v /\ exists X, E' = E ++ X.
Proof.
  induction fuel as [|f IH]; intros i E v ret i' E' v' H; [discriminate|].
  cbn [check_expression_statement_loop1] in H. cbv zeta in H.
  repeat es_step H; try discriminate;
  try (inversion H; subst; split; [reflexivity|]; rewrite <- ?app_assoc; eexists; try reflexivity; now rewrite app_nil_r);
  apply IH in H as [-> [X ->]]; (split; [reflexivity|]); rewrite <- ?app_assoc; eexists; reflexivity.
Qed.

(* one turn of the loop on a token that is neither `;`, a line end nor `return`: on to the next token, possibly after a
   SPACE_AFTER_KW diagnostic *)
Lemma expr_step scope v pre t post f E : inert_e t = true ->
  exists X, check_expression_statement_loop1 (S f) (pre ++ t :: post) scope (zlen pre) E v
          = check_expression_statement_loop1 f (pre ++ t :: post) scope (zlen pre + 1) (E ++ X) v.
Proof.
  intros Hi. unfold inert_e in Hi. apply negb_true_iff in Hi. unfold str_in in Hi. cbn [existsb] in Hi.
  apply orb_false_iff in Hi as [A Hi]. apply orb_false_iff in Hi as [B Hi]. apply orb_false_iff in Hi as [C _].
  cbn [check_expression_statement_loop1]. cbv zeta.
  rewrite !(checkl_some _ _ _ _ (peek_mid pre t post)), !(check1_some _ _ _ _ (peek_mid pre t post)), (peek_mid pre t post).
  unfold str_in at 1. cbn [existsb]. fold ty_semi ty_nl ty_return. rewrite A, B, C. cbn [orb is_false is_true].
  assert (Fin : forall E2, exists X, check_expression_statement_loop1 f (pre ++ t :: post) scope (zlen pre + 1) E2 v
                 = check_expression_statement_loop1 f (pre ++ t :: post) scope (zlen pre + 1) (E ++ X) v -> True) by (intros; exists []; auto).
  clear Fin.
  (* the star / ampersand branch *)
  assert (M : forall E2, exists Y,
    (if (if str_in (t_type t) [s "MULT"; s "BWISE_AND"] then true else false) && (zlen pre >? 0)
     then if is_true (check1 (pre ++ t :: post) (zlen pre - 1) (s "IDENTIFIER"))
          then bind (emit (s "SPACE_AFTER_KW") (peek (pre ++ t :: post) (zlen pre - 1)) E2)
                 (fun E3 => check_expression_statement_loop1 f (pre ++ t :: post) scope (zlen pre + 1) E3 v)
          else check_expression_statement_loop1 f (pre ++ t :: post) scope (zlen pre + 1) E2 v
     else check_expression_statement_loop1 f (pre ++ t :: post) scope (zlen pre + 1) E2 v)
    = check_expression_statement_loop1 f (pre ++ t :: post) scope (zlen pre + 1) (E2 ++ Y) v).
  { intros E2. destruct ((if str_in (t_type t) _ then true else false) && (zlen pre >? 0)); [|exists []; now rewrite app_nil_r].
    unfold check1. destruct (peek (pre ++ t :: post) (zlen pre - 1)) as [tp|]; cbn [is_true]; [|exists []; now rewrite app_nil_r].
    destruct (str_eqb (t_type tp) (s "IDENTIFIER")); cbn [emit bind]; [eexists; reflexivity|exists []; now rewrite app_nil_r]. }
  destruct (if str_in (t_type t) expression_kw then true else false).
  - destruct (is_false (checkl (pre ++ t :: post) (zlen pre + 1) _)); cbn [emit bind].
    + destruct (M (E ++ [(s "SPACE_AFTER_KW", t_line t, t_col t)])) as [Y R]. rewrite R. rewrite <- app_assoc. eexists. reflexivity.
    + destruct (M E) as [Y R]. rewrite R. eexists. reflexivity.
  - destruct (M E) as [Y R]. rewrite R. eexists. reflexivity.
Qed.

Lemma expr_reach scope v : forall l0 pre rest fuel E, forallb inert_e l0 = true ->
  exists X, check_expression_statement_loop1 (Datatypes.length l0 + fuel) (pre ++ l0 ++ rest) scope (zlen pre) E v
          = check_expression_statement_loop1 fuel (pre ++ l0 ++ rest) scope (zlen pre + zlen l0) (E ++ X) v.
Proof.
  induction l0 as [|t l0 IH]; intros pre rest fuel E Hi.
  - exists []. cbn [Datatypes.length Nat.add app]. rewrite app_nil_r. f_equal. zl.
  - cbn [forallb] in Hi. apply andb_true_iff in Hi as [Ht Hi]. cbn [Datatypes.length Nat.add app].
    destruct (expr_step scope v pre t (l0 ++ rest) (Datatypes.length l0 + fuel) E Ht) as [X R]. rewrite R.
    replace (pre ++ t :: l0 ++ rest) with ((pre ++ [t]) ++ l0 ++ rest) by (rewrite <- app_assoc; reflexivity).
    replace (zlen pre + 1) with (zlen (pre ++ [t])) by zl.
    destruct (IH (pre ++ [t]) rest fuel (E ++ X) Hi) as [Y R2]. rewrite R2. exists (X ++ Y).
    replace (zlen (pre ++ [t]) + zlen l0) with (zlen pre + zlen (t :: l0)) by zl. rewrite <- (app_assoc E X Y). reflexivity.
Qed.

Lemma fuel_split (toks l0 : list token) : (Datatypes.length l0 < Datatypes.length toks)%nat ->
  loop_fuel toks = (Datatypes.length l0 + S (S (2 * Datatypes.length toks) - Datatypes.length l0))%nat.
Proof. intros H. unfold loop_fuel. lia. Qed.

(* S11: `return` reached by the scan and followed - after blanks - by a token that is neither `;` nor `(`: RETURN_PARENTHESIS at
   that token *)
Theorem return_parenthesis_reported l0 tr rest scope v tx :
  forallb inert_e l0 = true -> t_type tr = ty_return ->
  peek (l0 ++ tr :: rest) (skip_ws (l0 ++ tr :: rest) (zlen l0 + 1)) = Some tx ->
  str_eqb (t_type tx) ty_semi = false -> str_eqb (t_type tx) ty_lpar = false ->
  exists E, check_expression_statement (l0 ++ tr :: rest) scope v = Ok (E, v) /\ In (s "RETURN_PARENTHESIS", t_line tx, t_col tx) E.
Proof.
  intros Hi Hr Px Hs Hl. set (toks := l0 ++ tr :: rest) in *.
  unfold check_expression_statement. cbv zeta.
  rewrite (fuel_split toks l0) by (unfold toks; rewrite app_length; cbn [Datatypes.length]; lia).
  unfold toks at 2. change (l0 ++ tr :: rest) with ([] ++ l0 ++ tr :: rest). change 0 with (zlen (@nil token)).
  destruct (expr_reach scope v l0 [] (tr :: rest) (S (S (2 * Datatypes.length toks) - Datatypes.length l0)) [] Hi) as [X R].
  rewrite R. clear R. cbn [app]. fold toks. replace (zlen (@nil token) + zlen l0) with (zlen l0) by zl.
  cbn [check_expression_statement_loop1]. cbv zeta.
  assert (Pr : peek toks (zlen l0) = Some tr) by apply peek_mid.
  rewrite !(checkl_some _ _ _ _ Pr), !(check1_some _ _ _ _ Pr), Pr, Hr.
  replace (str_in ty_return [s "SEMI_COLON"; s "NEWLINE"]) with false by reflexivity.
  replace (str_in ty_return expression_kw) with true by reflexivity.
  replace (str_in ty_return [s "MULT"; s "BWISE_AND"]) with false by reflexivity.
  replace (str_eqb ty_return (s "RETURN")) with true by reflexivity. cbn [is_false is_true andb].
  rewrite !(check1_some _ _ _ _ Px). fold ty_semi ty_lpar. rewrite Hs, Hl, Px. cbn [is_false andb].
  destruct (is_false (checkl toks (zlen l0 + 1) _)); cbn [emit bind]; eexists; (split; [reflexivity|]);
    rewrite ?in_app_iff; cbn [In]; auto 8.
Qed.

(* O07: a keyword reached by the scan and directly followed by a token that is no blank, line end, `)` or comment *)
Theorem space_after_kw_reported l0 tk rest scope v tn E v' :
  forallb inert_e l0 = true -> str_in (t_type tk) expression_kw = true ->
  str_in (t_type tk) [ty_semi; ty_nl] = false ->
  peek (l0 ++ tk :: rest) (zlen l0 + 1) = Some tn -> str_in (t_type tn) after_kw_ok = false ->
  check_expression_statement (l0 ++ tk :: rest) scope v = Ok (E, v') ->
  In (s "SPACE_AFTER_KW", t_line tk, t_col tk) E.
Proof.
  intros Hi Hk Hns Pn Hn H. set (toks := l0 ++ tk :: rest) in *.
  unfold check_expression_statement in H. cbv zeta in H.
  rewrite (fuel_split toks l0) in H by (unfold toks; rewrite app_length; cbn [Datatypes.length]; lia).
  unfold toks at 2 in H. change (l0 ++ tk :: rest) with ([] ++ l0 ++ tk :: rest) in H. change 0 with (zlen (@nil token)) in H.
  destruct (expr_reach scope v l0 [] (tk :: rest) (S (S (2 * Datatypes.length toks) - Datatypes.length l0)) [] Hi) as [X R].
  rewrite R in H. clear R. cbn [app] in H. fold toks in H. replace (zlen (@nil token) + zlen l0) with (zlen l0) in H by zl.
  cbn [check_expression_statement_loop1] in H. cbv zeta in H.
  assert (Pk : peek toks (zlen l0) = Some tk) by apply peek_mid.
  rewrite !(checkl_some _ _ _ _ Pk), Pk, (checkl_some _ _ _ _ Pn) in H. fold after_kw_ok in H. rewrite Hn in H. fold ty_semi ty_nl in H. rewrite Hns, Hk in H.
  cbn [is_false is_true emit bind] in H.
  (* everything after the emission only appends *)
  match type of H with bind ?x _ = _ => destruct x as [[ret [[i1 E1] v1]]| | |] eqn:L; cbn [bind] in H; try discriminate end.
  assert (HE : E = E1) by (destruct ret; inversion H; reflexivity). subst E1.
  repeat es_step L; try discriminate;
    try (inversion L; subst; rewrite ?in_app_iff; cbn [In]; auto 8);
    apply expr_loop_mono in L as [_ [Y ->]]; rewrite ?in_app_iff; cbn [In]; auto 10.
Qed.
