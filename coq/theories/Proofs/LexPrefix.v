(* C17 / C18: lookahead locality of the tokenizer model on a prefix made of simple lexemes, and the file-level theorems
   WITHOUT the prefix assumption.  A prefix is described by a list of lexemes (blank, tab, newline; identifier or keyword;
   one-character operator; bracket); the boolean lexs_ok checks, for each lexeme, the boundary condition on the single
   character that follows it (the only thing the sub-parsers look at beyond the lexeme).  Under it the run over the prefix
   produces items and positions that depend on the lexemes only - whatever text follows. *)
From NV Require Import Model.Base Model.Diag Model.Lexer Model.NumRe Model.Obs Gen.LexTables
  Proofs.StrOrder Proofs.LexInv Proofs.LexRename Proofs.CConstUnbounded Proofs.CConstUnbounded2 Proofs.LexText Proofs.ObsProofs
  Proofs.LexCompose.
From Coq Require Import Lia ZifyBool.

Local Open Scope Z_scope.

Lemma shift_with_rest1 p a Y : shift (List.length a) (with_rest p (a ++ Y)) = with_rest (shift (List.length a) p) Y.
Proof.
  unfold shift, with_rest. cbn [rest off line col errs]. now rewrite skipn_app, skipn_all, Nat.sub_diag.
Qed.

(* ------------------------------------------------------------------ characters that start neither a number, a literal, an
   identifier nor a blank: operators and brackets *)
Definition punct_char (c : N) : bool :=
  (c <? 128)%N && negb (ascii_digit c) && negb (is_ident_start c) && negb (chr_in c [46; 34; 39; 10; 9; 32; 92]%N).

(* the next character is no operator character and no backslash: nothing the operator parser could join with *)
Definition safe_next (h : N) : bool := negb (chr_in h (op_start_chars ++ [92%N])).

Section Prefix.
  Variable uw ud : N -> bool.

  Lemma punct_declines x c t : rest x = c :: t -> punct_char c = true ->
    parse_float_literal uw ud x = PNone /\ parse_integer_literal uw ud x = PNone /\ parse_char_literal x = PNone /\
    parse_string_literal x = PNone /\ parse_identifier x = PNone /\ parse_whitespace x = PNone.
  Proof.
    intros Hr Hc. unfold punct_char in Hc. cbn [chr_in existsb] in Hc.
    assert (Hd : isd ud c = false) by (unfold isd; replace (c <? 128)%N with true by lia; lia).
    destruct (numbers_decline uw ud x c t Hr Hd ltac:(lia) ltac:(unfold ascii_digit in Hc; lia)) as [H1 H2].
    assert (Hl : chr_in c [108; 76; 117; 85]%N = false).
    { unfold is_ident_start, is_letter in Hc. cbn [chr_in existsb]. lia. }
    destruct (quotes_decline uw ud x c t Hr ltac:(lia) ltac:(lia) (or_introl Hl)) as [H3 H4].
    repeat split; try assumption.
    - unfold parse_identifier. rewrite Hr. replace (is_ident_start c) with false by lia. reflexivity.
    - unfold parse_whitespace. rewrite Hr. replace (chr_in c ws_chars) with false; [reflexivity|].
      change ws_chars with [10; 9; 32]%N. cbn [chr_in existsb]. lia.
  Qed.

  (* ------------------------------------------------------------------ a one-character operator *)
  Lemma parse_operator_single x c h Y ty : rest x = c :: h :: Y ->
    is_substr [c] op_start_chars = true -> assoc [c] operators = Some ty -> chr_in c [10; 9; 92]%N = false ->
    safe_next h = true ->
    parse_operator x = PTok (mktok ty (line x) (col x) None) (shift 1 x).
  Proof.
    intros Hr F1 F2 F3 Hh.
    assert (Hcin : In c op_start_chars) by now apply is_substr1_In.
    unfold safe_next in Hh. apply negb_true_iff in Hh.
    assert (Hhc : forall y, In y op_start_chars -> (h =? y)%N = false).
    { intros y Hy. destruct (N.eqb_spec h y) as [->|]; [|reflexivity]. exfalso.
      assert (chr_in y (op_start_chars ++ [92%N]) = true); [|congruence].
      apply existsb_exists. exists y. split; [apply in_or_app; now left|apply N.eqb_refl]. }
    assert (Hh' : chr_in h [63; 60; 37; 58; 62; 61; 46; 47; 42; 92]%N = false).
    { change op_start_chars with (s "+-*/,<>^&|!=%;:.~?#") in Hh.
      cbn [chr_in existsb app s List.map list_ascii_of_string N_of_ascii N_of_digits] in Hh |- *. lia. }
    cbn [chr_in existsb] in Hh'.
    assert (Hpk : peek1 (c :: h :: Y) = Some ([c], 1%nat)).
    { apply peek1_nograph. unfold nograph. cbn [chr_in existsb]. replace ((h =? 63) || ((h =? 37) || ((h =? 58) || ((h =? 62) || false))))%N with false by lia.
      now rewrite orb_true_r. }
    assert (Hpk2 : peek1 (h :: Y) = Some ([h], 1%nat)) by (apply peek1_nohead'; cbn [chr_in existsb]; lia).
    assert (Hpop : pop1 false false x = PopOk [c] (shift 1 x)) by (apply (pop1_plain false false x c (h :: Y) Hr Hpk F3)).
    unfold parse_operator. rewrite Hr, Hpk, F1. cbn [negb]. cbv zeta. rewrite Hpop.
    assert (Hsingle : op_token x (PopOk [c] (shift 1 x)) = PTok (mktok ty (line x) (col x) None) (shift 1 x)).
    { unfold op_token. cbn [of_popres]. now rewrite F2. }
    rewrite Hsingle. destruct (is_substr [c] op_multi_chars); [|reflexivity].
    assert (E3 : match raw_peek 3 (c :: h :: Y) with Some r => str_in r op_three | None => false end = false).
    { unfold raw_peek. change op_three with [[62; 62; 61]%N; [60; 60; 61]%N; [46; 46; 46]%N].
      destruct Y as [|y Y']; cbn [firstn str_in existsb str_eqb]; lia. }
    rewrite E3.
    assert (E2 : peek2 (c :: h :: Y) = Some ([c] ++ [h], 2%nat)) by (unfold peek2; rewrite Hpk; cbn [skipn]; now rewrite Hpk2).
    rewrite E2.
    assert (E4 : str_in ([c] ++ [h]) op_two = false).
    { change op_two with [[62; 62]%N; [60; 60]%N; [45; 62]%N]. cbn [app str_in existsb str_eqb]. lia. }
    rewrite E4.
    assert (E5 : str_eqb ([c] ++ [h]) ([c] ++ s "=") = false).
    { change (s "=") with [61%N]. cbn [app str_eqb]. lia. }
    rewrite E5. cbn [andb].
    assert (E6 : str_eqb ([c] ++ [h]) ([c] ++ [c]) = false).
    { cbn [app str_eqb]. rewrite (Hhc c Hcin). now rewrite N.eqb_refl. }
    rewrite E6, andb_false_r. reflexivity.
  Qed.

  Lemma comments_decline x c t : rest x = c :: t ->
    ((c =? 47)%N = false \/ match t with h :: _ => negb (h =? 47)%N && negb (h =? 42)%N | [] => true end = true) ->
    parse_line_comment x = PNone /\ parse_multi_line_comment x = PNone.
  Proof.
    intros Hr Hc. unfold parse_line_comment, parse_multi_line_comment. rewrite Hr. unfold raw_peek.
    change (s "//") with [47; 47]%N. change (s "/*") with [47; 42]%N.
    destruct t as [|h t']; cbn [firstn str_eqb].
    - rewrite !andb_false_r. split; reflexivity.
    - assert (E1 : (c =? 47)%N && ((h =? 47)%N && true) = false) by (destruct Hc as [Hc|Hc]; lia).
      assert (E2 : (c =? 47)%N && ((h =? 42)%N && true) = false) by (destruct Hc as [Hc|Hc]; lia).
      rewrite E1, E2. split; reflexivity.
  Qed.

  Lemma try_parsers_operator x t y : parse_float_literal uw ud x = PNone -> parse_integer_literal uw ud x = PNone ->
    parse_char_literal x = PNone -> parse_string_literal x = PNone -> parse_identifier x = PNone -> parse_whitespace x = PNone ->
    parse_line_comment x = PNone -> parse_multi_line_comment x = PNone -> parse_operator x = PTok t y ->
    try_parsers uw ud parsers x = PTok t y.
  Proof.
    intros H1 H2 H3 H4 H5 H6 H7 H8 H9.
    assert (E1 : run_parser uw ud (s "parse_float_literal") x = parse_float_literal uw ud x) by reflexivity.
    assert (E2 : run_parser uw ud (s "parse_integer_literal") x = parse_integer_literal uw ud x) by reflexivity.
    assert (E3 : run_parser uw ud (s "parse_char_literal") x = parse_char_literal x) by reflexivity.
    assert (E4 : run_parser uw ud (s "parse_string_literal") x = parse_string_literal x) by reflexivity.
    assert (E5 : run_parser uw ud (s "parse_identifier") x = parse_identifier x) by reflexivity.
    assert (E6 : run_parser uw ud (s "parse_whitespace") x = parse_whitespace x) by reflexivity.
    assert (E7 : run_parser uw ud (s "parse_line_comment") x = parse_line_comment x) by reflexivity.
    assert (E8 : run_parser uw ud (s "parse_multi_line_comment") x = parse_multi_line_comment x) by reflexivity.
    assert (E9 : run_parser uw ud (s "parse_operator") x = parse_operator x) by reflexivity.
    unfold parsers. cbn [try_parsers]. rewrite E1, H1, E2, H2, E3, H3, E4, H4, E5, H5, E6, H6, E7, H7, E8, H8, E9, H9. reflexivity.
  Qed.

  Lemma try_parsers_bracket x t y : parse_float_literal uw ud x = PNone -> parse_integer_literal uw ud x = PNone ->
    parse_char_literal x = PNone -> parse_string_literal x = PNone -> parse_identifier x = PNone -> parse_whitespace x = PNone ->
    parse_line_comment x = PNone -> parse_multi_line_comment x = PNone -> parse_operator x = PNone -> parse_brackets x = PTok t y ->
    try_parsers uw ud parsers x = PTok t y.
  Proof.
    intros H1 H2 H3 H4 H5 H6 H7 H8 H9 H10.
    assert (E1 : run_parser uw ud (s "parse_float_literal") x = parse_float_literal uw ud x) by reflexivity.
    assert (E2 : run_parser uw ud (s "parse_integer_literal") x = parse_integer_literal uw ud x) by reflexivity.
    assert (E3 : run_parser uw ud (s "parse_char_literal") x = parse_char_literal x) by reflexivity.
    assert (E4 : run_parser uw ud (s "parse_string_literal") x = parse_string_literal x) by reflexivity.
    assert (E5 : run_parser uw ud (s "parse_identifier") x = parse_identifier x) by reflexivity.
    assert (E6 : run_parser uw ud (s "parse_whitespace") x = parse_whitespace x) by reflexivity.
    assert (E7 : run_parser uw ud (s "parse_line_comment") x = parse_line_comment x) by reflexivity.
    assert (E8 : run_parser uw ud (s "parse_multi_line_comment") x = parse_multi_line_comment x) by reflexivity.
    assert (E9 : run_parser uw ud (s "parse_operator") x = parse_operator x) by reflexivity.
    assert (E10 : run_parser uw ud (s "parse_brackets") x = parse_brackets x) by reflexivity.
    unfold parsers. cbn [try_parsers]. rewrite E1, H1, E2, H2, E3, H3, E4, H4, E5, H5, E6, H6, E7, H7, E8, H8, E9, H9, E10, H10. reflexivity.
  Qed.

  Definition op1_ok (c : N) : bool :=
    punct_char c && is_substr [c] op_start_chars && match assoc [c] operators with Some _ => true | None => false end.
  Definition op1_type (c : N) : str := match assoc [c] operators with Some ty => ty | None => [] end.

  Lemma step_operator p c h Y : op1_ok c = true -> safe_next h = true ->
    step uw ud (with_rest p (c :: h :: Y)) =
      StepItem (ITok (mktok (op1_type c) (line p) (col p) None) (off p) (off p + 1)) (with_rest (shift 1 p) (h :: Y)).
  Proof.
    intros Hc Hh. unfold op1_ok in Hc. apply andb_true_iff in Hc as [Hc F2]. apply andb_true_iff in Hc as [Hp F1].
    set (x := with_rest p (c :: h :: Y)). assert (Hr : rest x = c :: h :: Y) by reflexivity.
    destruct (punct_declines x c (h :: Y) Hr Hp) as (H1 & H2 & H3 & H4 & H5 & H6).
    assert (Hh47 : negb (h =? 47)%N && negb (h =? 42)%N = true).
    { unfold safe_next in Hh. change op_start_chars with (s "+-*/,<>^&|!=%;:.~?#") in Hh.
      cbn [chr_in existsb app s List.map list_ascii_of_string N_of_ascii N_of_digits] in Hh. lia. }
    destruct (comments_decline x c (h :: Y) Hr (or_intror Hh47)) as [H7 H8].
    unfold op1_type. destruct (assoc [c] operators) as [ty|] eqn:Ea; [|discriminate].
    assert (F3 : chr_in c [10; 9; 92]%N = false) by (unfold punct_char in Hp; cbn [chr_in existsb] in Hp |- *; lia).
    pose proof (parse_operator_single x c h Y ty Hr F1 Ea F3 Hh) as H9.
    assert (Hc92 : (c =? 92)%N = false /\ (c =? 63)%N = false \/ True) by now right.
    unfold step. rewrite Hr.
    assert (Hsp : at_splice (c :: h :: Y) = false).
    { unfold at_splice, raw_peek. cbn [firstn str_eqb]. unfold punct_char in Hp. cbn [chr_in existsb] in Hp.
      replace (c =? 92)%N with false by lia. cbn [andb orb].
      destruct (N.eqb_spec c 63) as [->|]; [|reflexivity]. unfold safe_next in Hh. change op_start_chars with (s "+-*/,<>^&|!=%;:.~?#") in Hh.
      cbn [chr_in existsb app s List.map list_ascii_of_string N_of_ascii N_of_digits] in Hh. replace (h =? 63)%N with false by lia. reflexivity. }
    rewrite Hsp, (try_parsers_operator x _ _ H1 H2 H3 H4 H5 H6 H7 H8 H9).
    change (shift 1 x) with (shift (List.length [c]) (with_rest p ([c] ++ h :: Y))). rewrite shift_with_rest1. reflexivity.
  Qed.

  (* ------------------------------------------------------------------ a bracket *)
  Definition br_ok (c : N) : bool := chr_in c [40; 41; 123; 125; 91; 93]%N.
  Definition br_type (c : N) : str := match assoc [c] brackets with Some ty => ty | None => [] end.

  Lemma step_bracket p c Y : br_ok c = true ->
    step uw ud (with_rest p (c :: Y)) =
      StepItem (ITok (mktok (br_type c) (line p) (col p) None) (off p) (off p + 1)) (with_rest (shift 1 p) Y).
  Proof.
    intros Hc. set (x := with_rest p (c :: Y)). assert (Hr : rest x = c :: Y) by reflexivity.
    assert (Hp : punct_char c = true /\ (c =? 47)%N = false /\ is_substr [c] op_start_chars = false /\
                 (exists ty, assoc [c] brackets = Some ty) /\ chr_in c [63; 60; 37; 58]%N = false /\ chr_in c [10; 9; 92]%N = false /\ (c =? 63)%N = false).
    { unfold br_ok in Hc. apply chr_in_In in Hc. cbn [In] in Hc.
      repeat (destruct Hc as [<-|Hc]; [repeat split; try reflexivity; eexists; reflexivity|]). destruct Hc. }
    destruct Hp as (Hp & H47 & Hop & [ty Hty] & Hg & Hn & H63).
    destruct (punct_declines x c Y Hr Hp) as (H1 & H2 & H3 & H4 & H5 & H6).
    destruct (comments_decline x c Y Hr (or_introl H47)) as [H7 H8].
    pose proof (peek1_nohead' c Y Hg) as Hpk.
    assert (H9 : parse_operator x = PNone) by (unfold parse_operator; rewrite Hr, Hpk, Hop; reflexivity).
    assert (H10 : parse_brackets x = PTok (mktok ty (line x) (col x) None) (shift 1 x)).
    { unfold parse_brackets. rewrite Hr, Hpk, Hty. rewrite (pop1_plain false false x c Y Hr Hpk Hn). cbn [of_popres]. now rewrite Hty. }
    unfold step. rewrite Hr.
    assert (Hsp : at_splice (c :: Y) = false).
    { unfold punct_char in Hp. cbn [chr_in existsb] in Hp. apply at_splice_plain; [lia|exact H63]. }
    rewrite Hsp, (try_parsers_bracket x _ _ H1 H2 H3 H4 H5 H6 H7 H8 H9 H10).
    unfold br_type. rewrite Hty.
    change (shift 1 x) with (shift (List.length [c]) (with_rest p ([c] ++ Y))). rewrite shift_with_rest1. reflexivity.
  Qed.
End Prefix.

(* ------------------------------------------------------------------ decimal integer constants without suffix (and 0) *)
Section Numbers.
  Variable uw ud : N -> bool.

  Lemma step_from_try x c t tok x' : rest x = c :: t -> at_splice (c :: t) = false ->
    try_parsers uw ud parsers x = PTok tok x' -> step uw ud x = StepItem (ITok tok (off x) (off x')) x'.
  Proof. intros Hr Hs Ht. unfold step. rewrite Ht, Hr, Hs. reflexivity. Qed.

  Definition dec_ok (w : str) : bool :=
    match w with
    | [48%N] => true
    | d :: ds => nonzero_digit d && forallb ascii_digit ds
    | [] => false
    end.

  Lemma step_decimal p w Y : dec_ok w = true -> delim Y = true ->
    step uw ud (with_rest p (w ++ Y)) =
      StepItem (ITok (mktok (s "CONSTANT") (line p) (col p) (Some w)) (off p) (off p + List.length w)) (with_rest (shift (List.length w) p) Y).
  Proof.
    intros Hw Hdl. set (x := with_rest p (w ++ Y)).
    pose proof (tail_ok_app ud [] Y eq_refl Hdl) as HT. cbn [app] in HT.
    assert (Hdig : forallb ascii_digit w = true /\ w <> [] /\ exists d t, w = d :: t /\ ascii_digit d = true).
    { unfold dec_ok in Hw. destruct w as [|d ds]; [discriminate|]. split; [|split; [discriminate|]].
      - destruct (N.eqb_spec d 48) as [->|Hn].
        + destruct ds; [reflexivity|]. apply andb_true_iff in Hw as [Hw _]. discriminate.
        + assert (Hnz : nonzero_digit d && forallb ascii_digit ds = true).
          { destruct d as [|pd]; [discriminate|]. repeat (destruct pd as [pd|pd|]; try exact Hw). congruence. }
          apply andb_true_iff in Hnz as [H1 H2]. cbn [forallb]. rewrite H2. unfold nonzero_digit in H1. unfold ascii_digit. lia.
      - exists d, ds. split; [reflexivity|]. destruct (N.eqb_spec d 48) as [->|Hn]; [reflexivity|].
        assert (Hnz : nonzero_digit d && forallb ascii_digit ds = true).
        { destruct d as [|pd]; [discriminate|]. repeat (destruct pd as [pd|pd|]; try exact Hw). congruence. }
        apply andb_true_iff in Hnz as [H1 _]. unfold nonzero_digit in H1. unfold ascii_digit. lia. }
    destruct Hdig as (Hds & Hne & d & t & Ew & Hd).
    assert (Hr : rest x = w ++ Y) by reflexivity.
    assert (Hfl : parse_float_literal uw ud x = PNone).
    { apply parse_float_none; rewrite Hr.
      - apply fexp_none; [now apply digits_isd|now apply tail_stops_isd|now apply (tail_stops_e ud)].
      - apply ffrac_none; [now apply digits_isd|now apply tail_stops_isd|now apply (tail_stops_46 ud)].
      - rewrite Ew. cbn [app]. destruct (N.eqb_spec d 48) as [->|Hn]; [|apply fhex_none_nonzero; now apply N.eqb_neq].
        apply fhex_none_nox. destruct t as [|t0 t']; [cbn [app]; now apply (tail_stops_x ud)|].
        cbn [app]. apply digit_stops_x. rewrite Ew in Hds. cbn [forallb] in Hds. lia. }
    assert (Hm : int_match uw ud (rest x) = Some ([], w, [])).
    { rewrite Hr. destruct (N.eqb_spec d 48) as [->|Hn].
      - (* the constant 0 *)
        assert (t = []) as ->.
        { unfold dec_ok in Hw. rewrite Ew in Hw. destruct t; [reflexivity|]. apply andb_true_iff in Hw as [Hw _]. discriminate. }
        subst w. cbn [app]. rewrite (int_match_zero uw ud _ (tail_stops_x ud _ HT)). rewrite (span_stop _ _ (tail_stops_bx ud _ HT)).
        cbn [List.length int_prefixes firstn skipn app hexok_of]. rewrite (int_const_none ud _ (tail_stops_isd ud _ HT)).
        change (48%N :: Y) with ([48%N] ++ Y).
        rewrite (int_const_dec ud [48%N] Y eq_refl); [|discriminate|now apply tail_stops_isd].
        replace (int_suffix uw ud [48%N] Y) with (@nil N); [reflexivity|].
        symmetry. exact (suffix_after_digits uw ud [48%N] [] Y eq_refl ltac:(discriminate) eq_refl Hdl).
      - rewrite Ew. cbn [app]. rewrite (int_match_nonzero uw ud d _ ltac:(now apply N.eqb_neq)).
        change (d :: t ++ Y) with ((d :: t) ++ Y). rewrite <- Ew.
        rewrite (int_const_dec ud w Y Hds Hne (tail_stops_isd ud _ HT)).
        replace (int_suffix uw ud w Y) with (@nil N); [reflexivity|].
        symmetry. exact (suffix_after_digits uw ud w [] Y Hds Hne eq_refl Hdl). }
    assert (Hok : forallb okc ([] ++ w ++ []) = true).
    { cbn [app]. rewrite app_nil_r. apply forallb_forall. intros y Hy. rewrite forallb_forall in Hds. apply alnum_okc. unfold alnum. now rewrite (Hds y Hy). }
    pose proof (parse_int_ok uw ud x [] w [] Y Hm ltac:(cbn [app]; rewrite app_nil_r; exact Hr) Hok eq_refl eq_refl) as Hp.
    cbn [app] in Hp. rewrite app_nil_r in Hp.
    assert (Hrx : rest x = d :: t ++ Y) by (rewrite Hr, Ew; reflexivity).
    rewrite (step_from_try x d (t ++ Y) _ _ Hrx (at_splice_digit d (t ++ Y) Hd) (try_parsers_int uw ud x _ _ Hfl Hp)).
    unfold x. rewrite shift_with_rest1. reflexivity.
  Qed.
End Numbers.

Section Prefix2.
  Variable uw ud : N -> bool.

  (* ------------------------------------------------------------------ blank, tab, newline *)
  Definition ws_type (c : N) : str := if (c =? 32)%N then s "SPACE" else if (c =? 9)%N then s "TAB" else s "NEWLINE".
  (* the position after the character, as pop computes it (tab stop, next line) *)
  Definition ws_next (p : st) (c : N) : st :=
    match pop_finish false (with_rest p [c]) [c] 1 with PopOk _ X => X | _ => p end.

  Lemma step_ws p c Y : chr_in c [32; 9; 10]%N = true ->
    step uw ud (with_rest p (c :: Y)) =
      StepItem (ITok (mktok (ws_type c) (line p) (col p) None) (off p) (off p + 1)) (with_rest (ws_next p c) Y).
  Proof.
    intros Hc. set (x := with_rest p (c :: Y)). assert (Hr : rest x = c :: Y) by reflexivity.
    assert (Hd : isd ud c = false /\ (c =? 46)%N = false /\ (c =? 48)%N = false /\ (c =? 34)%N = false /\ (c =? 39)%N = false /\
                 chr_in c [108; 76; 117; 85]%N = false /\ is_ident_start c = false /\ (c =? 92)%N = false /\ (c =? 63)%N = false).
    { apply chr_in_In in Hc. cbn [In] in Hc. repeat (destruct Hc as [<-|Hc]; [repeat split; reflexivity|]). destruct Hc. }
    destruct Hd as (Hd & H46 & H48 & H34 & H39 & Hl & Hi & H92 & H63).
    destruct (numbers_decline uw ud x c Y Hr Hd H46 H48) as [H1 H2].
    destruct (quotes_decline uw ud x c Y Hr H34 H39 (or_introl Hl)) as [H3 H4].
    assert (H5 : parse_identifier x = PNone) by (unfold parse_identifier; rewrite Hr, Hi; reflexivity).
    assert (H6 : parse_whitespace x = PTok (mktok (ws_type c) (line p) (col p) None) (with_rest (ws_next p c) Y)).
    { unfold parse_whitespace. rewrite Hr. apply chr_in_In in Hc. cbn [In] in Hc.
      repeat (destruct Hc as [<-|Hc];
        [rewrite (pop1_first false false x _ Y Hr eq_refl); reflexivity|]). destruct Hc. }
    assert (E1 : run_parser uw ud (s "parse_float_literal") x = parse_float_literal uw ud x) by reflexivity.
    assert (E2 : run_parser uw ud (s "parse_integer_literal") x = parse_integer_literal uw ud x) by reflexivity.
    assert (E3 : run_parser uw ud (s "parse_char_literal") x = parse_char_literal x) by reflexivity.
    assert (E4 : run_parser uw ud (s "parse_string_literal") x = parse_string_literal x) by reflexivity.
    assert (E5 : run_parser uw ud (s "parse_identifier") x = parse_identifier x) by reflexivity.
    assert (E6 : run_parser uw ud (s "parse_whitespace") x = parse_whitespace x) by reflexivity.
    unfold step. rewrite Hr, (at_splice_plain c Y H92 H63). unfold parsers. cbn [try_parsers].
    rewrite E1, H1, E2, H2, E3, H3, E4, H4, E5, H5, E6, H6.
    apply chr_in_In in Hc. cbn [In] in Hc. repeat (destruct Hc as [<-|Hc]; [reflexivity|]). destruct Hc.
  Qed.

  (* ------------------------------------------------------------------ lexemes of a prefix *)
  Inductive plex := PWs (c : N) | PId (c : N) (v : str) | POp (c : N) | PBr (c : N) | PNum (w : str).

  Definition lex_raw (l : plex) : str :=
    match l with PWs c => [c] | PId c v => c :: v | POp c => [c] | PBr c => [c] | PNum w => w end.
  Definition raws (ls : list plex) : str := flat_map lex_raw ls.

  Definition hd1 (Y : str) : option N := match Y with [] => None | h :: _ => Some h end.

  (* the boundary condition of a lexeme on the character that follows it *)
  Definition lex_ok (l : plex) (next : option N) : bool :=
    match l with
    | PWs c => chr_in c [32; 9; 10]%N
    | PId c v => is_ident_start c && forallb is_ident_char v &&
                 match next with Some h => negb (is_ident_char h) && negb (h =? 34)%N && negb (h =? 39)%N | None => true end
    | POp c => op1_ok c && match next with Some h => safe_next h | None => false end
    | PBr c => br_ok c
    | PNum w => dec_ok w && match next with Some h => delimc h | None => true end
    end.

  Definition lex_item (p : st) (l : plex) : item :=
    match l with
    | PWs c => ITok (mktok (ws_type c) (line p) (col p) None) (off p) (off p + 1)
    | PId c v => ITok (ident_token p (c :: v)) (off p) (off p + S (List.length v))
    | POp c => ITok (mktok (op1_type c) (line p) (col p) None) (off p) (off p + 1)
    | PBr c => ITok (mktok (br_type c) (line p) (col p) None) (off p) (off p + 1)
    | PNum w => ITok (mktok (s "CONSTANT") (line p) (col p) (Some w)) (off p) (off p + List.length w)
    end.
  Definition lex_next (p : st) (l : plex) : st :=
    match l with
    | PWs c => ws_next p c
    | PId c v => shift (S (List.length v)) p
    | POp _ | PBr _ => shift 1 p
    | PNum w => shift (List.length w) p
    end.

  Lemma lex_step p l Y : lex_ok l (hd1 Y) = true ->
    step uw ud (with_rest p (lex_raw l ++ Y)) = StepItem (lex_item p l) (with_rest (lex_next p l) Y).
  Proof.
    destruct l as [c|c v|c|c|w]; cbn [lex_ok lex_raw lex_item lex_next app]; intros H.
    - now apply step_ws.
    - apply andb_true_iff in H as [H Hn]. apply andb_true_iff in H as [Hc Hv].
      assert (Hs : ident_site c v Y).
      { unfold ident_site. repeat split; try assumption; destruct Y as [|h Y']; try reflexivity; cbn [hd1 boundary] in *; lia. }
      rewrite (step_identifier uw ud (with_rest p (c :: v ++ Y)) c v Y Hs eq_refl).
      change (S (List.length v)) with (List.length (c :: v)) at 2. change (c :: v ++ Y) with ((c :: v) ++ Y).
      rewrite shift_with_rest1. reflexivity.
    - apply andb_true_iff in H as [Hc Hn]. destruct Y as [|h Y']; [discriminate|]. now apply step_operator.
    - now apply step_bracket.
    - apply andb_true_iff in H as [Hw Hn]. apply step_decimal; [exact Hw|]. destruct Y; [reflexivity|exact Hn].
  Qed.

  Fixpoint lexs_ok (ls : list plex) (X : str) : bool :=
    match ls with
    | [] => true
    | l :: r => lex_ok l (hd1 (raws r ++ X)) && lexs_ok r X
    end.
  Fixpoint lex_items (p : st) (ls : list plex) : list item :=
    match ls with [] => [] | l :: r => lex_item p l :: lex_items (lex_next p l) r end.
  Fixpoint lex_nexts (p : st) (ls : list plex) : st :=
    match ls with [] => p | l :: r => lex_nexts (lex_next p l) r end.

  (* the run over the prefix: items and final position depend on the lexemes only, whatever text X follows *)
  Lemma run_prefix : forall ls p acc X, lexs_ok ls X = true ->
    run uw ud (List.length ls) (with_rest p (raws ls ++ X)) acc (with_rest (lex_nexts p ls) X) (rev (lex_items p ls) ++ acc).
  Proof.
    induction ls as [|l ls IH]; intros p acc X H; cbn [lexs_ok raws flat_map List.length lex_items lex_nexts rev app] in *.
    - apply run_0.
    - apply andb_true_iff in H as [Hl Hr]. fold (raws ls) in *. rewrite <- app_assoc.
      eapply run_S; [apply lex_step; exact Hl|].
      rewrite <- app_assoc. cbn [app]. apply IH. exact Hr.
  Qed.

  Definition pos0 : st := mkst [] 0 1 1 [].
  Lemma init_with_rest src : init src = with_rest pos0 src.
  Proof. reflexivity. Qed.

  (* ------------------------------------------------------------------ C18 at file level, no prefix assumption *)
  Theorem lex_rename_file : forall ls c v c' v' r items xf,
    lexs_ok ls ((c :: v) ++ r) = true -> lexs_ok ls ((c' :: v') ++ r) = true ->
    ident_site c v r -> ident_site c' v' r -> List.length v' = List.length v ->
    assoc (c :: v) keywords = None -> assoc (c' :: v') keywords = None ->
    lex uw ud (raws ls ++ (c :: v) ++ r) = Ok (items, xf) ->
    let x := lex_nexts pos0 ls in
    exists later,
      items = lex_items pos0 ls ++ ITok (mktok (s "IDENTIFIER") (line x) (col x) (Some (c :: v))) (off x) (off x + S (List.length v)) :: later /\
      lex uw ud (raws ls ++ (c' :: v') ++ r) =
        Ok (lex_items pos0 ls ++ ITok (mktok (s "IDENTIFIER") (line x) (col x) (Some (c' :: v'))) (off x) (off x + S (List.length v)) :: later, xf).
  Proof.
    intros ls c v c' v' r items xf Hok Hok' Hs Hs' Hl Hk Hk' Hlex. cbv zeta.
    pose proof (run_prefix ls pos0 [] _ Hok) as R1. pose proof (run_prefix ls pos0 [] _ Hok') as R2.
    rewrite app_nil_r in R1, R2. rewrite <- init_with_rest in R1, R2.
    assert (Hlen : List.length (raws ls ++ (c' :: v') ++ r) = List.length (raws ls ++ (c :: v) ++ r)).
    { rewrite !app_length. cbn [List.length]. now rewrite Hl. }
    destruct (lex_rename_file_partial uw ud _ _ _ _ _ c v c' v' r items xf Hlen R1 R2 Hs Hs' Hl Hk Hk' Hlex) as [later [E1 E2]].
    exists later. rewrite rev_involutive in E1, E2. now split.
  Qed.

  (* ------------------------------------------------------------------ C17 (// comments) at file level, no prefix assumption *)
  Theorem lex_comment_replace_file : forall ls v v' tail items xf,
    lexs_ok ls (47%N :: 47%N :: v ++ tail) = true ->
    plain_content KLine v = true -> plain_content KLine v' = true -> List.length v' = List.length v -> line_end tail ->
    lex uw ud (raws ls ++ 47%N :: 47%N :: v ++ tail) = Ok (items, xf) ->
    let x := lex_nexts pos0 ls in
    exists later,
      items = lex_items pos0 ls ++ ITok (mktok (s "COMMENT") (line x) (col x) (Some (47%N :: 47%N :: v))) (off x) (off x + (2 + List.length v)) :: later /\
      lex uw ud (raws ls ++ 47%N :: 47%N :: v' ++ tail) =
        Ok (lex_items pos0 ls ++ ITok (mktok (s "COMMENT") (line x) (col x) (Some (47%N :: 47%N :: v'))) (off x) (off x + (2 + List.length v)) :: later, xf).
  Proof.
    intros ls v v' tail items xf Hok Hv Hv' Hl Ht Hlex. cbv zeta.
    assert (Hok' : lexs_ok ls (47%N :: 47%N :: v' ++ tail) = true).
    { clear - Hok. induction ls as [|l ls IH]; [reflexivity|]. cbn [lexs_ok] in *. apply andb_true_iff in Hok as [H1 H2].
      rewrite (IH H2), andb_true_r. destruct (raws ls); exact H1. }
    pose proof (run_prefix ls pos0 [] _ Hok) as R1. pose proof (run_prefix ls pos0 [] _ Hok') as R2.
    rewrite app_nil_r in R1, R2. rewrite <- init_with_rest in R1, R2.
    assert (Hlen : List.length (raws ls ++ 47%N :: 47%N :: v' ++ tail) = List.length (raws ls ++ 47%N :: 47%N :: v ++ tail)).
    { rewrite !app_length. cbn [List.length]. rewrite !app_length. now rewrite Hl. }
    destruct (lex_comment_replace_file_partial uw ud _ _ _ _ _ v v' tail items xf Hlen R1 R2 Hv Hv' Hl Ht Hlex) as [later [E1 E2]].
    exists later. rewrite rev_involutive in E1, E2. now split.
  Qed.
End Prefix2.


(* ================================================================== observation invariance at file level, no prefix assumption *)
Section FileObs2.
  Variable uw ud : N -> bool.

  (* C18: the file is  <prefix lexemes> <identifier lexeme> <anything>.  Named boundary condition: lexs_ok (each prefix lexeme
     is followed by a character its sub-parser does not join with) and ident_site (the lexeme is maximal and not followed by
     a quote).  Conclusion: both files lex to the same items except for the value of the one IDENTIFIER token, same final
     state and diagnostics, and every covered observation of that value is unchanged. *)
  Theorem rename_file_obs : forall ls c v c' v' r items xf guard f,
    lexs_ok ls ((c :: v) ++ r) = true -> lexs_ok ls ((c' :: v') ++ r) = true ->
    ident_site c v r -> ident_site c' v' r -> List.length v' = List.length v ->
    assoc (c :: v) keywords = None -> assoc (c' :: v') keywords = None ->
    pair_ok guard (c :: v, c' :: v') = true -> rename_inv f = true -> no_other f = true ->
    lex uw ud (raws ls ++ (c :: v) ++ r) = Ok (items, xf) ->
    let x := lex_nexts pos0 ls in
    exists later t t',
      items = lex_items pos0 ls ++ ITok t (off x) (off x + S (List.length v)) :: later /\
      lex uw ud (raws ls ++ (c' :: v') ++ r) = Ok (lex_items pos0 ls ++ ITok t' (off x) (off x + S (List.length v)) :: later, xf) /\
      t_type t' = t_type t /\ t_line t' = t_line t /\ t_col t' = t_col t /\
      t_val t = Some (c :: v) /\ t_val t' = Some (c' :: v') /\
      forall o1 o2, eval_obs guard o1 f (c' :: v') = eval_obs guard o2 f (c :: v).
  Proof.
    intros ls c v c' v' r items xf guard f Hok Hok' Hs Hs' Hl Hk Hk' Hp Hf Hn Hlex. cbv zeta.
    destruct (lex_rename_file uw ud ls c v c' v' r items xf Hok Hok' Hs Hs' Hl Hk Hk' Hlex) as [later [E1 E2]].
    eexists later, _, _. split; [exact E1|]. split; [exact E2|]. cbn [t_type t_line t_col t_val]. repeat split.
    intros o1 o2. now apply obs_pair.
  Qed.

  (* C17, // comments: named boundary condition lexs_ok on the prefix and line_end after the comment *)
  Theorem comment_replace_file_obs : forall ls v v' tail items xf guard other f,
    lexs_ok ls (47%N :: 47%N :: v ++ tail) = true ->
    plain_content KLine v = true -> plain_content KLine v' = true -> List.length v' = List.length v -> line_end tail ->
    replace_inv f = true ->
    lex uw ud (raws ls ++ 47%N :: 47%N :: v ++ tail) = Ok (items, xf) ->
    let x := lex_nexts pos0 ls in
    exists later t t',
      items = lex_items pos0 ls ++ ITok t (off x) (off x + (2 + List.length v)) :: later /\
      lex uw ud (raws ls ++ 47%N :: 47%N :: v' ++ tail) = Ok (lex_items pos0 ls ++ ITok t' (off x) (off x + (2 + List.length v)) :: later, xf) /\
      t_type t' = t_type t /\ t_line t' = t_line t /\ t_col t' = t_col t /\
      t_val t = Some (47%N :: 47%N :: v) /\ t_val t' = Some (47%N :: 47%N :: v') /\
      eval_obs guard other f (47%N :: 47%N :: v') = eval_obs guard other f (47%N :: 47%N :: v).
  Proof.
    intros ls v v' tail items xf guard other f Hok Hv Hv' Hl Ht Hf Hlex. cbv zeta.
    destruct (lex_comment_replace_file uw ud ls v v' tail items xf Hok Hv Hv' Hl Ht Hlex) as [later [E1 E2]].
    eexists later, _, _. split; [exact E1|]. split; [exact E2|]. cbn [t_type t_line t_col t_val]. repeat split.
    pose proof (obs_invariant_replace guard other KLine (s "//") [] v v' f (or_introl eq_refl) (plain_replace_ok KLine v v' Hv Hv' Hl) Hf) as H.
    rewrite !app_nil_r in H. exact H.
  Qed.
End FileObs2.

(* ------------------------------------------------------------------ a real program meets the boundary conditions *)
Definition demo_prefix1 : list plex :=
  [PId 105 (s "nt"); PWs 9; PId 109 (s "ain"); PBr 40; PId 118 (s "oid"); PBr 41; PWs 10; PBr 123; PWs 10;
   PWs 9; PId 105 (s "nt"); PWs 9]%N.
Definition demo_rest1 : str :=
  s ";" ++ [10; 10; 9]%N ++ s "count = 0; // done" ++ [10; 9]%N ++ s "return (count);" ++ [10]%N ++ s "}" ++ [10]%N.
Definition demo_prefix2 : list plex :=
  demo_prefix1 ++ [PId 99 (s "ount"); POp 59; PWs 10; PWs 10; PWs 9; PId 99 (s "ount"); PWs 32; POp 61; PWs 32; PNum (s "0"); POp 59; PWs 32]%N.

Example demo_program_meets_conditions :
  (* int<TAB>main(void) { <TAB>int<TAB>count; ... : the first `count` is the rename site, `// done` the comment site *)
  raws demo_prefix1 ++ s "count" ++ demo_rest1 =
    s "int" ++ [9%N] ++ s "main(void)" ++ [10%N] ++ s "{" ++ [10; 9]%N ++ s "int" ++ [9%N] ++ s "count;" ++ [10; 10; 9]%N ++
    s "count = 0; // done" ++ [10; 9]%N ++ s "return (count);" ++ [10%N] ++ s "}" ++ [10%N] /\
  lexs_ok demo_prefix1 (s "count" ++ demo_rest1) = true /\ lexs_ok demo_prefix1 (s "iff_2" ++ demo_rest1) = true /\
  ident_site 99%N (s "ount") demo_rest1 /\ ident_site 105%N (s "ff_2") demo_rest1 /\
  lexs_ok demo_prefix2 (s "// done" ++ [10; 9]%N ++ s "return (count);" ++ [10]%N ++ s "}" ++ [10]%N) = true /\
  plain_content KLine (s " done") = true /\ plain_content KLine (s " };<(") = true.
Proof. vm_compute. repeat split; reflexivity. Qed.
