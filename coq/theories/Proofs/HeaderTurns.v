(* C13, the parser half of file -> trace for the header: on the header's tokens the first eleven turns of Registry.run
   are IsComment matches of two tokens each (IsPreprocessorStatement, the only primary tried earlier, returns False),
   CheckHeader receives exactly header_events f, and - with the lexer half (Proofs/HeaderLex.v) and the machine theorem
   (Proofs/HeaderProofs.accept) - a file that starts with a well-formed header gets no INVALID_HEADER, whatever follows. *)
From NV Require Import Model.Base Model.Diag Model.Lexer Model.RuleChecks Model.EngineTok0 Model.Engine Model.RegistryOrder
  Gen.Registry Gen.IsComment Model.EngineTok
  Model.HeaderRe Model.HeaderState Gen.HeaderRe Gen.HeaderSM Model.Header Proofs.HeaderProofs
  Proofs.LineShift Proofs.LineShiftCor Proofs.CommentLines Proofs.HeaderLex.
From Coq Require Import Lia.

Local Open Scope Z_scope.

(* ------------------------------------------------------------------ ties *)
Lemma eol_pinned : eol_fingerprint = "9a0c1c8b8c7f30bfd678"%string.
Proof. reflexivity. Qed.

Lemma registry_loop_pinned :
  registry_primary_loop =
    ["if rule.scope and context.scope not in rule.scope:     continue"%string;
     "ret, jump = self.run_rules(context, rule)"%string;
     "if ret is True: ... context.pop_tokens(jump); break"%string].
Proof. reflexivity. Qed.

(* the order in which Registry.run tries the primaries starts with these two, and both are tried at global scope *)
Lemma order_head : exists r, primaries_order = s "IsPreprocessorStatement" :: s "IsComment" :: r.
Proof. vm_compute. eexists. reflexivity. Qed.
Lemma applies_first_two : applies_global (s "IsPreprocessorStatement") = true /\ applies_global (s "IsComment") = true.
Proof. split; vm_compute; reflexivity. Qed.
(* CheckHeader is among the checks that run_rules runs after IsComment matched *)
Lemma checkheader_runs_on_iscomment : str_in (s "CheckHeader") (checks_run_on (s "IsComment")) = true.
Proof. vm_compute. reflexivity. Qed.

(* ------------------------------------------------------------------ token access *)
Lemma peek_0 (a : token) l : peek (a :: l) 0 = Some a.
Proof. unfold peek, py_nth, zlen. cbn [List.length]. rewrite Nat2Z.inj_succ. cbn [Z.leb Z.compare].
  replace (0 <? Z.succ (Z.of_nat (List.length l))) with true by (symmetry; apply Z.ltb_lt; lia). reflexivity. Qed.

Lemma peek_1 (a b : token) l : peek (a :: b :: l) 1 = Some b.
Proof. unfold peek, py_nth, zlen. cbn [List.length]. rewrite !Nat2Z.inj_succ.
  replace (1 <? Z.succ (Z.succ (Z.of_nat (List.length l)))) with true by (symmetry; apply Z.ltb_lt; lia). reflexivity. Qed.

Lemma skip_while_f_stop f p i : p i = false -> skip_while_f (S f) p i = i.
Proof. intros H. cbn [skip_while_f]. rewrite H. reflexivity. Qed.

(* a statement whose first token is a block comment: skip_ws(0) = 0 *)
Lemma skip_ws_comment (t1 : token) l : t_type t1 = MULT_COMMENT -> skip_ws (t1 :: l) 0 = 0.
Proof.
  intros H. unfold skip_ws, skip_while, loop_fuel. apply skip_while_f_stop.
  unfold checkl. rewrite peek_0, H. vm_compute. reflexivity.
Qed.

(* ------------------------------------------------------------------ the two primaries on `MULT_COMMENT NEWLINE ...` *)
Theorem iscomment_matches_comment_line : forall (t1 t2 : token) rest,
  t_type t1 = MULT_COMMENT -> t_type t2 = NEWLINE -> iscomment_run (t1 :: t2 :: rest) = (true, 2).
Proof.
  intros t1 t2 rest H1 H2. unfold iscomment_run. rewrite (skip_ws_comment t1 _ H1). cbv zeta.
  unfold checkl at 1. rewrite peek_0, H1.
  change (is_true (Some (str_in MULT_COMMENT [s "MULT_COMMENT"; s "COMMENT"]))) with true. cbv iota.
  change (0 + 1) with 1. unfold eol, loop_fuel. cbn [eol_f]. unfold checkl, check1. rewrite peek_1, H2.
  change (is_true (Some (str_in NEWLINE [s "TAB"; s "SPACE"; s "NEWLINE"]))) with true.
  change (truthy (Some (str_eqb NEWLINE (s "NEWLINE")))) with true. reflexivity.
Qed.

Theorem earlier_primaries_do_not_match : forall (t1 : token) rest,
  t_type t1 = MULT_COMMENT -> ispreproc_prefix (t1 :: rest) = Some (false, 0).
Proof.
  intros t1 rest H1. unfold ispreproc_prefix. rewrite (skip_ws_comment t1 _ H1). cbv zeta.
  unfold check1. rewrite peek_0, H1. vm_compute. reflexivity.
Qed.

Theorem turn_on_comment_line : forall (t1 t2 : token) rest,
  t_type t1 = MULT_COMMENT -> t_type t2 = NEWLINE ->
  turn primaries_order (t1 :: t2 :: rest) = Some (Matched (s "IsComment") 2).
Proof.
  intros t1 t2 rest H1 H2. destruct order_head as (r & ->). destruct applies_first_two as [A1 A2].
  cbn [turn]. rewrite A1, A2. cbn [negb].
  change (prim_run (s "IsPreprocessorStatement") (t1 :: t2 :: rest)) with (ispreproc_prefix (t1 :: t2 :: rest)).
  rewrite (earlier_primaries_do_not_match t1 _ H1).
  change (prim_run (s "IsComment") (t1 :: t2 :: rest)) with (Some (iscomment_run (t1 :: t2 :: rest))).
  rewrite (iscomment_matches_comment_line t1 t2 rest H1 H2). reflexivity.
Qed.

(* ------------------------------------------------------------------ the tokens of k comment lines *)
Definition ce (b : str) : hevent := mkev (s "IsComment") MULT_COMMENT (comment_text b).

Lemma tokens_of_app : forall a b, tokens_of (a ++ b) = tokens_of a ++ tokens_of b.
Proof. intros. unfold tokens_of. apply flat_map_app. Qed.

Lemma comment_tokens_at : forall bs o l X k, (k < List.length bs)%nat ->
  exists t1 t2 rest, skipn (2 * k) (tokens_of (comment_items o l bs) ++ X) = t1 :: t2 :: rest /\
                     t_type t1 = MULT_COMMENT /\ t_type t2 = NEWLINE /\ t_val t1 = Some (comment_text (nth k bs [])).
Proof.
  induction bs as [|b bs IH]; intros o l X k Hk; [cbn in Hk; lia|].
  destruct k as [|k].
  - cbn [comment_items]. unfold tokens_of. cbn [flat_map app Nat.mul skipn nth].
    eexists _, _, _. repeat split; reflexivity.
  - cbn [List.length] in Hk. destruct (IH (o + List.length b + 4 + 1)%nat (l + 1) X k) as (t1 & t2 & rest & E & H1 & H2 & H3); [lia|].
    exists t1, t2, rest. replace (2 * S k)%nat with (S (S (2 * k))) by lia.
    cbn [comment_items nth]. unfold tokens_of in *. cbn [flat_map app skipn]. auto.
Qed.

Lemma skipn_skipn' {A} : forall a b (l : list A), skipn a (skipn b l) = skipn (b + a) l.
Proof. intros a b. revert a. induction b as [|b IH]; intros a l; [reflexivity|]. destruct l; [destruct a; reflexivity|]. cbn [skipn Nat.add]. apply IH. Qed.

Lemma pop_two (t1 t2 : token) rest : pop_toks (t1 :: t2 :: rest) 2 = rest.
Proof.
  unfold pop_toks, slice_from. cbn [List.length]. change (2 <? 0) with false. cbv iota.
  replace (S (S (List.length rest)) - (S (S (List.length rest)) - Z.to_nat 2))%nat with 2%nat by (change (Z.to_nat 2) with 2%nat; lia).
  reflexivity.
Qed.

Section Induced.
  Variable oracle : nat -> tryres.
  Variable bs : list str.
  Variable o : nat.
  Variable l : Z.
  Variable X : list token.
  Let toks := tokens_of (comment_items o l bs) ++ X.
  Hypothesis Hind : induced oracle toks.

  (* the first |bs| turns: IsComment, two tokens each *)
  Theorem comment_turns : forall k, (k <= List.length bs)%nat ->
    remaining oracle toks k = skipn (2 * k) toks /\ (forall j, (j < k)%nat -> oracle j = Matched (s "IsComment") 2).
  Proof.
    induction k as [|k IH]; intros Hk; [split; [reflexivity|intros j Hj; lia]|].
    destruct IH as [Hr Ho]; [lia|].
    destruct (comment_tokens_at bs o l X k) as (t1 & t2 & rest & E & H1 & H2 & _); [lia|]. fold toks in E.
    assert (Hok : oracle k = Matched (s "IsComment") 2).
    { apply Hind; rewrite Hr, E; [discriminate|]. apply turn_on_comment_line; assumption. }
    split.
    - cbn [remaining]. rewrite Hok, Hr, E, pop_two. replace (2 * S k)%nat with (2 * k + 2)%nat by lia.
      rewrite <- skipn_skipn', E. reflexivity.
    - intros j Hj. destruct (Nat.eq_dec j k) as [->|]; [exact Hok|apply Ho; lia].
  Qed.

  (* CheckHeader sees one event per comment line: (IsComment, MULT_COMMENT, the comment text) *)
  Lemma comment_events_range : forall c k, (k + c = List.length bs)%nat ->
    events_range oracle toks k c = map ce (skipn k bs).
  Proof.
    induction c as [|c IH]; intros k Hk.
    - rewrite skipn_all2 by lia. reflexivity.
    - destruct (comment_turns (S k)) as [_ Ho]; [lia|]. destruct (comment_turns k) as [Hr _]; [lia|].
      destruct (comment_tokens_at bs o l X k) as (t1 & t2 & rest & E & H1 & H2 & H3); [lia|]. fold toks in E.
      cbn [events_range]. rewrite (Ho k) by lia. rewrite Hr, E. cbn [event_of app]. rewrite H1, H3.
      rewrite IH by lia.
      assert (Es : skipn k bs = nth k bs [] :: skipn (S k) bs).
      { clear -Hk. revert k Hk. induction bs as [|b0 bs0 IHb]; intros k Hk; [cbn in Hk; lia|].
        destruct k; [reflexivity|]. cbn [skipn nth]. apply IHb. cbn in Hk. lia. }
      rewrite Es. reflexivity.
  Qed.

  Lemma events_range_split : forall a b st,
    events_range oracle toks st (a + b) = events_range oracle toks st a ++ events_range oracle toks (st + a) b.
  Proof.
    induction a as [|a IH]; intros b st; [cbn; rewrite Nat.add_0_r; reflexivity|].
    cbn [Nat.add events_range]. rewrite IH, <- app_assoc. replace (S st + a)%nat with (st + S a)%nat by lia. reflexivity.
  Qed.

  Theorem comment_events : forall m,
    events_upto oracle toks (List.length bs + m) = map ce bs ++ events_range oracle toks (List.length bs) m.
  Proof.
    intros m. unfold events_upto. rewrite events_range_split. rewrite (comment_events_range (List.length bs) 0) by lia.
    reflexivity.
  Qed.
End Induced.

(* ------------------------------------------------------------------ the header *)
Lemma header_events_are : forall f, map ce (template_mids f) = header_events f.
Proof.
  intros f. unfold header_events, template. rewrite map_map. apply map_ext. intros m. reflexivity.
Qed.

(* the first eleven turns on the tokens of header ++ anything *)
Theorem header_turns : forall f X oracle, induced oracle (tokens_of (comment_items 0 1 (template_mids f)) ++ X) ->
  (forall k, (k < 11)%nat -> oracle k = Matched (s "IsComment") 2) /\
  remaining oracle (tokens_of (comment_items 0 1 (template_mids f)) ++ X) 11 = X /\
  forall m, events_upto oracle (tokens_of (comment_items 0 1 (template_mids f)) ++ X) (11 + m) =
            header_events f ++ events_range oracle (tokens_of (comment_items 0 1 (template_mids f)) ++ X) 11 m.
Proof.
  intros f X oracle Hind.
  destruct (comment_turns oracle (template_mids f) 0%nat 1 X Hind 11) as [Hr Ho]; [reflexivity|].
  repeat split.
  - exact Ho.
  - rewrite Hr. change (2 * 11)%nat with (List.length (tokens_of (comment_items 0 1 (template_mids f)))).
    rewrite skipn_app, skipn_all, Nat.sub_diag. reflexivity.
  - intros m. rewrite <- header_events_are.
    exact (comment_events oracle (template_mids f) 0%nat 1 X Hind m).
Qed.

Lemma events_range_split_gen : forall oracle toks a b st,
  events_range oracle toks st (a + b) = events_range oracle toks st a ++ events_range oracle toks (st + a) b.
Proof.
  intros oracle toks. induction a as [|a IH]; intros b st; [cbn; rewrite Nat.add_0_r; reflexivity|].
  cbn [Nat.add events_range]. rewrite IH, <- app_assoc. replace (S st + a)%nat with (st + S a)%nat by lia. reflexivity.
Qed.

(* the count of emitted diagnostics never decreases along a run *)
Lemma cnt_mono : forall evs st, (cnt st <= cnt (run_from st evs))%nat.
Proof.
  induction evs as [|ev evs IHe]; intros st; [unfold run_from; cbn [fold_left]; lia|]. rewrite run_from_cons.
  specialize (IHe (run_step st ev)). rewrite run_step_spec in *. unfold step_spec in *.
  destruct (hs_parsed st); [exact IHe|]. destruct (is_block_ev ev).
  - destruct st as [a0 b0 h0 e0]. unfold cnt, count_code in *. cbn [hs_errs hs_header] in *. exact IHe.
  - destruct (hs_started st).
    + destruct (cnt_verdict st) as [Ev|Ev]; rewrite Ev in IHe; lia.
    + destruct st as [a0 b0 h0 e0]. cbn [hs_header hs_errs] in IHe. rewrite cnt_emit in IHe.
      unfold cnt, count_code in *. cbn [hs_errs hs_header] in *. lia.
Qed.

(* ------------------------------------------------------------------ C13, accept direction, at file level *)
(* text = header ++ src, any src that the tokenizer accepts; ANY oracle for the primaries that agrees with the translated
   IsComment / IsPreprocessorStatement-prefix wherever they decide the turn (everything else - all other primaries, all
   statements after the header - is arbitrary); n = any number of turns: CheckHeader emits no INVALID_HEADER. *)
Theorem file_accept : forall uw ud f src items xf items' xf' oracle n,
  fields_lex_ok f = true -> stamps_ok f = true ->
  lex uw ud src = Ok (items, xf) ->
  lex uw ud (lines_text (template f) ++ src) = Ok (items', xf') ->
  induced oracle (tokens_of items') ->
  count_code INVALID_HEADER (run_from ctx_init (events_upto oracle (tokens_of items') n)) = 0%nat.
Proof.
  intros uw ud f src items xf items' xf' oracle n Hl Hs Hsrc Hfile Hind.
  rewrite (header_then_text_lexed uw ud f src items xf Hl Hsrc) in Hfile.
  apply (f_equal (fun r : outcome (list item * st) => match r with Ok (i, _) => i | _ => [] end)) in Hfile.
  cbv beta iota in Hfile. subst items'. clear xf'.
  rewrite tokens_of_app in *.
  destruct (header_turns f _ oracle Hind) as (_ & _ & Hev).
  set (T := tokens_of (comment_items 0 1 (template_mids f)) ++
            tokens_of (map (sh_item 11 (List.length (lines_text (template f)))) items)) in *.
  destruct (Nat.le_gt_cases 11 n) as [Hn|Hn].
  - replace n with (11 + (n - 11))%nat by lia. rewrite Hev. apply (accept f _ Hs).
  - (* fewer than eleven turns: a prefix of the header events, all block comments: nothing emitted *)
    assert (P : forall a b, count_code INVALID_HEADER (run_from ctx_init (a ++ b)) = 0%nat ->
                count_code INVALID_HEADER (run_from ctx_init a) = 0%nat).
    { intros a b H. rewrite run_from_app in H.
      pose proof (cnt_mono b (run_from ctx_init a)) as M. unfold cnt in M. lia. }
    pose proof (Hev 0%nat) as H0. rewrite Nat.add_0_r in H0. cbn [events_range] in H0. rewrite app_nil_r in H0.
    unfold events_upto in *. replace 11%nat with (n + (11 - n))%nat in H0 by lia. rewrite events_range_split_gen in H0.
    apply (P _ (events_range oracle T (0 + n) (11 - n))). rewrite H0.
    pose proof (accept f [] Hs) as A. rewrite app_nil_r in A. exact A.
Qed.

(* non-vacuity: for the repository's own header alone, the oracle "IsComment, 2 tokens" eleven times is induced *)
Example induced_satisfiable :
  induced (fun k => if Nat.ltb k 11 then Matched (s "IsComment") 2 else NoMatch)
          (tokens_of (comment_items 0 1 (template_mids hud_fields))).
Proof.
  set (T := tokens_of (comment_items 0 1 (template_mids hud_fields))).
  set (o := fun k => if Nat.ltb k 11 then Matched (s "IsComment") 2 else NoMatch).
  assert (E : forall j, remaining o T (11 + j) = []).
  { induction j as [|j IH]; [vm_compute; reflexivity|]. replace (11 + S j)%nat with (S (11 + j)) by lia.
    cbn [remaining]. rewrite IH. unfold o. replace (Nat.ltb (11 + j) 11) with false by (symmetry; apply Nat.ltb_ge; lia). reflexivity. }
  intros k r Hne Ht. destruct (Nat.lt_ge_cases k 11) as [Hk|Hk].
  - do 11 (destruct k as [|k]; [vm_compute in Ht; inversion Ht; reflexivity|]). lia.
  - exfalso. apply Hne. replace k with (11 + (k - 11))%nat by lia. apply E.
Qed.
