(* C14 at FILE level: text -> tokenizer model -> turns of the registry loop -> the generated check.
   File = [42 header] `#ifndef X \n` `# define Y \n` R, R any text the tokenizer accepts.
   Proved: the tokens of the two opening lines and the views prot_run gets of them (lexer + token access), the header
   turns (Proofs/HeaderTurns, from `induced`), the bookkeeping of the remaining tokens, and through
   Proofs/GuardTok + Proofs/GuardProofs the verdict.
   Assumed (hypotheses of the theorems, each one checked by the recorded per-statement correspondence of the check):
     O1/O2  the primaries recognise the two opening lines as IsPreprocessorStatement with jump 5 / 6 (the tail of
            IsPreprocessorStatement.run after its first test is not translated; Model/EngineTok.turn answers None there);
     body   the turns over R up to the closing line are simulated by abstract statements (Proofs/GuardTok.simulates);
     endif  the closing `#endif` line is what remains then, recognised with some jump, followed by `after`. *)
From NV Require Import Model.Base Model.GuardBase Gen.Guard Model.Guard Model.GuardTok Proofs.GuardProofs Proofs.GuardTok.
From NV Require Import Model.Diag Model.Lexer Model.RuleChecks Model.EngineTok0 Model.Engine Model.RegistryOrder
  Gen.Registry Gen.IsComment Model.EngineTok
  Model.HeaderRe Model.HeaderState Gen.HeaderRe Gen.HeaderSM Model.Header
  Proofs.LineShift Proofs.LineShiftCor Proofs.CommentLines Proofs.HeaderLex Proofs.HeaderTurns Proofs.GuardLex.
From Coq Require Import Lia.

Local Open Scope Z_scope.

Lemma pop_prefix : forall (l r : list token), pop_toks (l ++ r) (Z.of_nat (List.length l)) = r.
Proof.
  intros l r. unfold pop_toks, slice_from.
  replace (Z.of_nat (List.length l) <? 0) with false by (symmetry; apply Z.ltb_ge; lia).
  rewrite Nat2Z.id, app_length.
  replace (List.length l + List.length r - (List.length l + List.length r - List.length l))%nat with (List.length l) by lia.
  rewrite skipn_app, skipn_all, Nat.sub_diag. reflexivity.
Qed.

Lemma remaining_S : forall oracle toks k,
  remaining oracle toks (S k) =
  match oracle k with
  | Matched _ j => pop_toks (remaining oracle toks k) j
  | NoMatch => tl (remaining oracle toks k)
  | _ => []
  end.
Proof. reflexivity. Qed.

Lemma tv_length : forall l line, map tv l = line -> List.length l = List.length line.
Proof. intros l line <-. symmetry. apply map_length. Qed.

Definition comments11 : list stmt := repeat SComment 11.

(* the rest of the shape, relative to the turn at which the body starts *)
Record rest_shape (oracle : nat -> tryres) (toks : list token) (start : nat) (body : list stmt) (after : list token) : Prop := {
  rs_body : forall tl, existsb (fun s0 => negb (is_trivia s0)) tl = true -> simulates oracle toks start body tl;
  rs_endif : exists l3 j, remaining oracle toks (start + List.length body) = l3 ++ after /\ map tv l3 = endif_line /\
                          oracle (start + List.length body)%nat = Matched PRE j;
  rs_after : after = [] \/ exists t more, after = t :: more /\ is_trivia_ty (t_type t) = false
}.

Section File.
Variables uw ud : N -> bool.

(* ---- without the 42 header ---- *)
Theorem file_shape_plain : forall x y R itemsR xR items' xf' oracle body after,
  ident_ok x -> ident_ok y ->
  lex uw ud R = Ok (itemsR, xR) ->
  lex uw ud (ifndef_text x ++ define_text y ++ R) = Ok (items', xf') ->
  oracle 0%nat = Matched PRE 5 -> oracle 1%nat = Matched PRE 6 ->
  rest_shape oracle (tokens_of items') 2 body after ->
  guarded_shape oracle (tokens_of items') [] body x y after.
Proof.
  intros x y R itemsR xR items' xf' oracle body after Hx Hy HR Hfile O1 O2 [Hb He Ha].
  destruct (lex_guard_open uw ud x y R itemsR xR Hx Hy HR) as (its1 & its2 & m & E & T1 & T2).
  rewrite E in Hfile. inversion Hfile; subst items' xf'. clear Hfile.
  rewrite !tokens_of_app' in *.
  set (l1 := tokens_of its1) in *. set (l2 := tokens_of its2) in *.
  set (TR := tokens_of (map (sh_item 2 m) itemsR)) in *.
  assert (L1 : List.length l1 = 5%nat) by (rewrite (tv_length _ _ T1); reflexivity).
  assert (L2 : List.length l2 = 6%nat) by (rewrite (tv_length _ _ T2); reflexivity).
  assert (R1 : remaining oracle (l1 ++ l2 ++ TR) 1 = l2 ++ TR).
  { cbn [remaining]. rewrite O1. change 5 with (Z.of_nat 5). rewrite <- L1. apply pop_prefix. }
  constructor.
  - intros i s0 Hi. destruct i; discriminate Hi.
  - exists l1, (l2 ++ TR), 5. cbn [List.length]. repeat split; [exact T1|exact O1].
  - exists l2, TR, 6. cbn [List.length]. rewrite R1. repeat split; [exact T2|exact O2].
  - exact Hb.
  - exact He.
  - exact Ha.
Qed.

(* ---- behind the 42 header ---- *)
Theorem file_shape_header : forall f x y R itemsR xR items' xf' oracle body after,
  fields_lex_ok f = true -> ident_ok x -> ident_ok y ->
  lex uw ud R = Ok (itemsR, xR) ->
  lex uw ud (lines_text (template f) ++ ifndef_text x ++ define_text y ++ R) = Ok (items', xf') ->
  induced oracle (tokens_of items') ->
  oracle 11%nat = Matched PRE 5 -> oracle 12%nat = Matched PRE 6 ->
  rest_shape oracle (tokens_of items') 13 body after ->
  guarded_shape oracle (tokens_of items') comments11 body x y after.
Proof.
  intros f x y R itemsR xR items' xf' oracle body after Hf Hx Hy HR Hfile Hind O1 O2 [Hb He Ha].
  destruct (lex_header_guard_open uw ud f x y R itemsR xR Hf Hx Hy HR) as (its1 & its2 & itsR & xf & E & T1 & T2 & _).
  rewrite E in Hfile.
  apply (f_equal (fun r : outcome (list item * st) => match r with Ok (i, _) => i | _ => [] end)) in Hfile.
  cbv beta iota in Hfile. subst items'. clear E xf'.
  set (CI := comment_items 0 1 (template_mids f)) in *.
  rewrite !tokens_of_app' in *.
  set (l1 := tokens_of its1) in *. set (l2 := tokens_of its2) in *. set (TR := tokens_of itsR) in *.
  subst CI.
  destruct (header_turns f (l1 ++ l2 ++ TR) oracle Hind) as (Ho & Hr & _).
  assert (L1 : List.length l1 = 5%nat) by (rewrite (tv_length _ _ T1); reflexivity).
  assert (L2 : List.length l2 = 6%nat) by (rewrite (tv_length _ _ T2); reflexivity).
  set (toks := tokens_of (comment_items 0 1 (template_mids f)) ++ l1 ++ l2 ++ TR) in *.
  assert (R1 : remaining oracle toks 12 = l2 ++ TR).
  { rewrite (remaining_S oracle toks 11), O1, Hr. change 5 with (Z.of_nat 5). rewrite <- L1. apply pop_prefix. }
  constructor.
  - intros i s0 Hi.
    assert (Hlt : (i < 11)%nat).
    { change 11%nat with (List.length comments11). apply nth_error_Some. rewrite Hi. discriminate. }
    assert (s0 = SComment).
    { unfold comments11 in Hi. apply nth_error_In in Hi. apply repeat_spec in Hi. exact Hi. }
    subst s0. exists 2. left. split; [reflexivity|]. apply Ho. exact Hlt.
  - exists l1, (l2 ++ TR), 5. change (List.length comments11) with 11%nat. rewrite Hr. repeat split; [exact T1|exact O1].
  - exists l2, TR, 6. change (S (List.length comments11)) with 12%nat. rewrite R1. repeat split; [exact T2|exact O2].
  - change (S (S (List.length comments11))) with 13%nat. exact Hb.
  - change (S (S (List.length comments11))) with 13%nat. exact He.
  - exact Ha.
Qed.

(* ------------------------------------------------------------------ verdicts at file level *)
Section Verdicts.
Variable base : str.
Hypothesis Hh : file_type base = s ".h".
Variable f : fields.
Hypothesis Hf : fields_lex_ok f = true.
Variables (R : str) (itemsR : list item) (xR : st).
Hypothesis HR : lex uw ud R = Ok (itemsR, xR).
Variable oracle : nat -> tryres.
Variable body : list stmt.
Let n := turns comments11 body.

(* accept: the header, `#ifndef G`, `# define G`, R; the turns over R are simulated by a balanced body and end with the
   `#endif` line, after which nothing is left: no HEADER_PROT_* in the whole run *)
Theorem file_accept_partial : forall items' xf', ident_ok (guard_of base) ->
  lex uw ud (lines_text (template f) ++ ifndef_text (guard_of base) ++ define_text (guard_of base) ++ R) = Ok (items', xf') ->
  induced oracle (tokens_of items') -> oracle 11%nat = Matched PRE 5 -> oracle 12%nat = Matched PRE 6 ->
  rest_shape oracle (tokens_of items') 13 body [] -> balanced body ->
  tok_emitted base oracle (tokens_of items') n = [].
Proof.
  intros items' xf' Hg Hfile Hind O1 O2 Hrest Hb.
  apply (tok_accept base Hh); [exact Hb|].
  exact (file_shape_header f _ _ R itemsR xR items' xf' oracle body [] Hf Hg Hg HR Hfile Hind O1 O2 Hrest).
Qed.

Theorem file_G1_partial : forall x y items' xf', ident_ok x -> ident_ok y ->
  x <> guard_of base -> py_upper x <> guard_of base ->
  lex uw ud (lines_text (template f) ++ ifndef_text x ++ define_text y ++ R) = Ok (items', xf') ->
  induced oracle (tokens_of items') -> oracle 11%nat = Matched PRE 5 -> oracle 12%nat = Matched PRE 6 ->
  rest_shape oracle (tokens_of items') 13 body [] ->
  In (s "HEADER_PROT_NAME") (tok_emitted base oracle (tokens_of items') n).
Proof.
  intros x y items' xf' Hx Hy Hne Hu Hfile Hind O1 O2 Hrest.
  apply (tok_G1 base Hh oracle _ comments11 body x y Hne Hu).
  exact (file_shape_header f x y R itemsR xR items' xf' oracle body [] Hf Hx Hy HR Hfile Hind O1 O2 Hrest).
Qed.

Theorem file_G2_partial : forall x y items' xf', ident_ok x -> ident_ok y ->
  x <> guard_of base -> py_upper x = guard_of base ->
  lex uw ud (lines_text (template f) ++ ifndef_text x ++ define_text y ++ R) = Ok (items', xf') ->
  induced oracle (tokens_of items') -> oracle 11%nat = Matched PRE 5 -> oracle 12%nat = Matched PRE 6 ->
  rest_shape oracle (tokens_of items') 13 body [] ->
  In (s "HEADER_PROT_UPPER") (tok_emitted base oracle (tokens_of items') n).
Proof.
  intros x y items' xf' Hx Hy Hne Hu Hfile Hind O1 O2 Hrest.
  apply (tok_G2 base Hh oracle _ comments11 body x y Hne Hu).
  exact (file_shape_header f x y R itemsR xR items' xf' oracle body [] Hf Hx Hy HR Hfile Hind O1 O2 Hrest).
Qed.

Theorem file_G3_partial : forall x y items' xf', ident_ok x -> ident_ok y ->
  y <> guard_of base -> balanced body -> defines (guard_of base) body = false ->
  lex uw ud (lines_text (template f) ++ ifndef_text x ++ define_text y ++ R) = Ok (items', xf') ->
  induced oracle (tokens_of items') -> oracle 11%nat = Matched PRE 5 -> oracle 12%nat = Matched PRE 6 ->
  rest_shape oracle (tokens_of items') 13 body [] ->
  In (s "HEADER_PROT_NODEF") (tok_emitted base oracle (tokens_of items') n).
Proof.
  intros x y items' xf' Hx Hy Hne Hb Hd Hfile Hind O1 O2 Hrest.
  apply (tok_G3 base Hh oracle _ comments11 body x y Hne Hb Hd).
  exact (file_shape_header f x y R itemsR xR items' xf' oracle body [] Hf Hx Hy HR Hfile Hind O1 O2 Hrest).
Qed.

Theorem file_G6_partial : forall x y t more items' xf', ident_ok x -> ident_ok y ->
  is_trivia_ty (t_type t) = false -> balanced body ->
  lex uw ud (lines_text (template f) ++ ifndef_text x ++ define_text y ++ R) = Ok (items', xf') ->
  induced oracle (tokens_of items') -> oracle 11%nat = Matched PRE 5 -> oracle 12%nat = Matched PRE 6 ->
  rest_shape oracle (tokens_of items') 13 body (t :: more) ->
  In (s "HEADER_PROT_ALL_AF") (tok_emitted base oracle (tokens_of items') n).
Proof.
  intros x y t more items' xf' Hx Hy Ht Hb Hfile Hind O1 O2 Hrest.
  apply (tok_G6 base Hh oracle _ comments11 body x y t more Ht Hb).
  exact (file_shape_header f x y R itemsR xR items' xf' oracle body (t :: more) Hf Hx Hy HR Hfile Hind O1 O2 Hrest).
Qed.

End Verdicts.

(* without the 42 header (the check does not care): accept *)
Theorem file_accept_plain_partial : forall base R itemsR xR items' xf' oracle body,
  file_type base = s ".h" -> ident_ok (guard_of base) ->
  lex uw ud R = Ok (itemsR, xR) ->
  lex uw ud (ifndef_text (guard_of base) ++ define_text (guard_of base) ++ R) = Ok (items', xf') ->
  oracle 0%nat = Matched PRE 5 -> oracle 1%nat = Matched PRE 6 ->
  rest_shape oracle (tokens_of items') 2 body [] -> balanced body ->
  tok_emitted base oracle (tokens_of items') (turns [] body) = [].
Proof.
  intros base R itemsR xR items' xf' oracle body Hh Hg HR Hfile O1 O2 Hrest Hb.
  apply (tok_accept base Hh); [exact Hb|].
  exact (file_shape_plain _ _ R itemsR xR items' xf' oracle body [] Hg Hg HR Hfile O1 O2 Hrest).
Qed.

End File.

(* ------------------------------------------------------------------ non-vacuity: a complete small file, no hypothesis left *)
(* `#ifndef A_H \n # define A_H \n #endif \n` under the name a.h: the tokenizer model is run, the oracle is the obvious one *)
Definition nouni_ : N -> bool := fun _ => false.
Definition ex_text : str := ifndef_text (s "A_H") ++ define_text (s "A_H") ++ endif_text.
Definition ex_oracle (k : nat) : tryres :=
  match k with 0%nat => Matched PRE 5 | 1%nat => Matched PRE 6 | 2%nat => Matched PRE 3 | _ => NoMatch end.

Example ex_file_accept :
  match lex nouni_ nouni_ ex_text with
  | Ok (items, _) =>
      rest_shape ex_oracle (tokens_of items) 2 [] [] /\ tok_emitted (s "a.h") ex_oracle (tokens_of items) 3 = []
      /\ guard_of (s "a.h") = s "A_H"
  | _ => False
  end.
Proof.
  vm_compute lex. split; [|split; vm_compute; reflexivity].
  constructor.
  - intros tl _ i x Hx. destruct i; discriminate Hx.
  - eexists [_; _; _], 3. split; [vm_compute; reflexivity|]. split; reflexivity.
  - left. reflexivity.
Qed.
