(* str_eqb decides equality; str_ltb is a strict total order (Python's str comparison). *)
From NV Require Import Model.Base.
From Coq Require Import Lia.

Lemma str_eqb_refl a : str_eqb a a = true.
Proof. induction a as [|x a IH]; cbn; [reflexivity|]. now rewrite N.eqb_refl, IH. Qed.

Lemma str_eqb_eq a b : str_eqb a b = true <-> a = b.
Proof.
  split.
  - revert b; induction a as [|x a IH]; intros [|y b] H; cbn in H; try discriminate; [reflexivity|].
    apply andb_true_iff in H as [H1 H2]. apply N.eqb_eq in H1. subst. f_equal. now apply IH.
  - intros ->. apply str_eqb_refl.
Qed.

Lemma str_eqb_neq a b : str_eqb a b = false <-> a <> b.
Proof.
  split.
  - intros H E. apply str_eqb_eq in E. congruence.
  - intros H. destruct (str_eqb a b) eqn:E; [|reflexivity]. apply str_eqb_eq in E. contradiction.
Qed.

Lemma str_ltb_irrefl a : str_ltb a a = false.
Proof. induction a as [|x a IH]; cbn; [reflexivity|]. now rewrite N.ltb_irrefl. Qed.

Lemma str_ltb_trans a b c : str_ltb a b = true -> str_ltb b c = true -> str_ltb a c = true.
Proof.
  revert b c; induction a as [|x a IH]; intros [|y b] [|z c] H1 H2; cbn in *; try discriminate; try reflexivity.
  destruct (N.ltb_spec x y), (N.ltb_spec y x), (N.ltb_spec y z), (N.ltb_spec z y),
    (N.ltb_spec x z), (N.ltb_spec z x); try discriminate; try reflexivity; try lia.
  eapply IH; eassumption.
Qed.

Lemma str_ltb_total a b : str_ltb a b = false -> str_ltb b a = false -> a = b.
Proof.
  revert b; induction a as [|x a IH]; intros [|y b] H1 H2; cbn in *; try discriminate; [reflexivity|].
  destruct (N.ltb_spec x y), (N.ltb_spec y x); try discriminate; try lia.
  assert (x = y) by lia. subst. f_equal. now apply IH.
Qed.

Lemma str_ltb_asym a b : str_ltb a b = true -> str_ltb b a = false.
Proof.
  intros H. destruct (str_ltb b a) eqn:E; [|reflexivity].
  pose proof (str_ltb_trans _ _ _ H E) as T. rewrite str_ltb_irrefl in T. discriminate.
Qed.
