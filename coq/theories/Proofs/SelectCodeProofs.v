(* The hand-written model of main()'s file selection (Model/Select.v) EQUALS the statement-by-statement translation of
   the source (Gen/SelectCode.v, regenerated on every run), when the abstract operating-system interface of the
   translation is instantiated with the model's file system, glob, pathlib and git oracle.  Every theorem about
   `select` is therefore a theorem about the translated code. *)
From NV Require Import Model.Base Model.Select Model.PyStmt Gen.SelectCode Proofs.SelectProofs.
From Coq Require Import Lia.

Section Instance.
  Variable root : node.
  Variable cwd : path.
  Variable check_ignore : item -> Z.

  Notation apath := (apath cwd).

  (* the interface, as the model understands it *)
  Definition m_exists (it : item) : bool := match lookup root (apath it) with Some _ => true | None => false end.
  Definition m_is_file (it : item) : bool := match lookup root (apath it) with Some File => true | _ => false end.
  Definition m_is_dir (it : item) : bool := match lookup root (apath it) with Some (Dir _) => true | _ => false end.
  Definition m_suffix (it : item) : str := py_suffix (item_name it).
  Definition m_repr (it : item) : str := py_repr (i_raw it).
  (* the pattern strings are those of Gen.Select (read from the same constants); any other pattern finds nothing *)
  Definition m_glob (pat : string) (recursive : bool) : list item :=
    if String.eqb pat glob_cwd_pattern then
      match lookup root cwd with
      | Some n => map (fun gm => rel_item (fst gm)) (glob_items glob_cwd_last recursive n)
      | None => []
      end
    else [].
  Definition m_glob_under (it : item) (pat : string) (recursive : bool) : list item :=
    if String.eqb pat glob_dir_pattern then
      match lookup root (apath it) with
      | Some n => map (fun gm => child_item it (fst gm)) (glob_items glob_dir_last recursive n)
      | None => []
      end
    else [].
  Definition m_run (argv : list string) (it : item) : Z := check_ignore it.

  Definition code (fuel : nat) (g : bool) (args : list item) : res item :=
    selection_code item (fun x => x) m_exists m_is_file m_is_dir m_suffix item_name render (fun x => x) (fun x => x)
                   m_repr m_is_dir m_glob m_glob_under m_run args g fuel.

  Definition body := body_for_item_in_stack item (fun x => x) m_exists m_is_file m_is_dir m_suffix item_name render (fun x => x) m_is_dir m_glob_under.
  Definition gbody := body_for_target_in_files item (fun x => x) m_repr m_run.

  Definition to_outcome (r : res item) : outcome sel_result :=
    match r with
    | Next s => Ok (Selected (st_files item s) (st_out item s))
    | Exit c o => Ok (Exited c o)
    | Stuck => Hang
    end.

  Lemma filter_not_dir l : filter (fun x => negb (m_is_dir x)) l = filter (not_dir root cwd) l.
  Proof.
    apply filter_ext. intros x. unfold m_is_dir, not_dir. destruct (lookup root (apath x)) as [[|?]|]; reflexivity.
  Qed.

  (* the work-list loop of the translation and of the model, from any intermediate state *)
  Lemma for_stack_eq : forall fuel q files tmp out,
    match loop root cwd fuel q (rev files) (rev out) with
    | Ok (Selected fs ms) => s_for_stack fuel body (mkst item q files tmp out) = Next (mkst item [] fs tmp ms)
    | Ok (Exited c ms) => s_for_stack fuel body (mkst item q files tmp out) = Exit c ms
    | Hang => s_for_stack fuel body (mkst item q files tmp out) = Stuck
    | _ => False
    end.
  Proof.
    induction fuel as [|f IH]; intros q files tmp out.
    - destruct q; cbn; [now rewrite !rev_involutive|reflexivity].
    - destruct q as [|it q]; [cbn; now rewrite !rev_involutive|].
      set (s0 := mkst item q files tmp out).
      assert (U : s_for_stack (S f) body (mkst item (it :: q) files tmp out) =
                  match body it s0 with Next s' => s_for_stack f body s' | r => r end) by reflexivity.
      rewrite U. clear U. cbn [loop].
      destruct (lookup root (apath it)) as [[|ch]|] eqn:L.
      + (* a regular file *)
        unfold suffix_accepted. change accepted_suffixes with [s ".c"; s ".h"].
        destruct (str_in (py_suffix (item_name it)) [s ".c"; s ".h"]) eqn:A.
        * assert (B : body it s0 = Next (mkst item q (files ++ [it]) tmp out)).
          { unfold body, body_for_item_in_stack, m_exists, m_is_file, m_is_dir, m_suffix. rewrite L, A. reflexivity. }
          rewrite B. specialize (IH q (files ++ [it]) tmp out). rewrite rev_unit in IH. exact IH.
        * assert (B : body it s0 = Next (mkst item q files tmp (out ++ [bad_suffix_msg it]))).
          { unfold body, body_for_item_in_stack, m_exists, m_is_file, m_is_dir, m_suffix. rewrite L, A. reflexivity. }
          rewrite B. rewrite render_bad. cbn [bind]. change exit_bad_suffix with (@None Z). cbn iota.
          specialize (IH q files tmp (out ++ [bad_suffix_msg it])). rewrite rev_unit in IH. exact IH.
      + (* a directory *)
        assert (B : body it s0 = Next (mkst item (q ++ kids root cwd it (Dir ch)) files tmp out)).
        { unfold body, body_for_item_in_stack, m_exists, m_is_file, m_is_dir at 1, m_glob_under. rewrite L.
          change (String.eqb "/**/*.[ch]" glob_dir_pattern) with true. cbn iota. rewrite filter_not_dir. reflexivity. }
        rewrite B. exact (IH (q ++ kids root cwd it (Dir ch)) files tmp out).
      + (* missing *)
        assert (B : body it s0 = Exit 1 (out ++ [missing_msg it])).
        { unfold body, body_for_item_in_stack, m_exists. rewrite L. reflexivity. }
        rewrite B. rewrite render_missing. cbn [bind]. change exit_missing with 1. cbn [rev]. now rewrite rev_involutive.
  Qed.

  Lemma for_git_eq fs : forall stk files tmp out,
    match git_filter check_ignore fs (rev tmp) out with
    | Ok (Selected fs' ms) => s_for_list gbody fs (mkst item stk files tmp out) = Next (mkst item stk files fs' ms)
    | Ok (Exited c ms) => s_for_list gbody fs (mkst item stk files tmp out) = Exit c ms
    | _ => False
    end.
  Proof.
    induction fs as [|x r IH]; intros stk files tmp out.
    - cbn. now rewrite rev_involutive.
    - set (s0 := mkst item stk files tmp out).
      assert (U : s_for_list gbody (x :: r) s0 = match gbody x s0 with Next s' => s_for_list gbody r s' | e => e end) by reflexivity.
      rewrite U. clear U. cbn [git_filter].
      change git_codes with [(0, "drop"); (1, "keep"); (128, "exit")]%string. cbn [git_action].
      destruct (Z.eqb (check_ignore x) 0) eqn:E0.
      + assert (B : gbody x s0 = Next s0).
        { unfold gbody, body_for_target_in_files, m_run. rewrite E0. reflexivity. }
        rewrite B. exact (IH stk files tmp out).
      + destruct (Z.eqb (check_ignore x) 1) eqn:E1.
        * assert (B : gbody x s0 = Next (mkst item stk files (tmp ++ [x]) out)).
          { unfold gbody, body_for_target_in_files, m_run. rewrite E0, E1. reflexivity. }
          rewrite B. specialize (IH stk files (tmp ++ [x]) out). rewrite rev_unit in IH. exact IH.
        * destruct (Z.eqb (check_ignore x) 128) eqn:E2.
          -- assert (B : gbody x s0 = Exit 0 (out ++ [git_fatal_msg x])).
             { unfold gbody, body_for_target_in_files, m_run, m_repr. rewrite E0, E1, E2. reflexivity. }
             rewrite B. cbn [String.eqb Ascii.eqb Bool.eqb andb]. rewrite render_git. reflexivity.
          -- assert (B : gbody x s0 = Next s0).
             { unfold gbody, body_for_target_in_files, m_run. rewrite E0, E1, E2. reflexivity. }
             rewrite B. exact (IH stk files tmp out).
  Qed.

  Lemma stack0_code args :
    (match args with
     | [] => filter (fun v => negb (m_is_dir v)) (m_glob "**/*.[ch]" true)
     | _ :: _ => args
     end) = stack0 root cwd args.
  Proof.
    destruct args; [|reflexivity]. cbn [stack0]. unfold m_glob.
    change (String.eqb "**/*.[ch]" glob_cwd_pattern) with true. cbn iota.
    destruct (lookup root cwd); [apply filter_not_dir|reflexivity].
  Qed.

  (* the model IS the translated code *)
  Theorem select_is_translated_code : forall g args,
    to_outcome (code (S (cost root cwd (stack0 root cwd args))) g args) = select root cwd check_ignore g args.
  Proof.
    intros g args. unfold code, selection_code, selection_stmt, gitignore_stmt, select.
    fold body. fold gbody.
    rewrite stack0_code.
    set (q := stack0 root cwd args). set (fuel := S (cost root cwd q)).
    unfold s_seq at 1 2 3 4. unfold s_stack_set at 1. unfold s_stack_extend.
    cbn [st_stack st_files st_tmp st_out app].
    assert (H := for_stack_eq fuel q [] [] []). cbn [rev] in H.
    destruct (loop root cwd fuel q [] []) as [[fs ms|c ms]| | |]; try contradiction; rewrite H; cbn [bind to_outcome]; try reflexivity.
    unfold s_stack_set. cbn [st_stack st_files st_tmp st_out].
    destruct g; unfold s_if; [|reflexivity].
    unfold s_seq, s_tmp_set, s_for_files, s_files_set_tmp. cbn [st_stack st_files st_tmp st_out].
    assert (G := for_git_eq fs [] fs [] ms). cbn [rev] in G.
    destruct (git_filter check_ignore fs [] ms) as [[fs' ms'|c ms']| | |]; try contradiction; rewrite G; reflexivity.
  Qed.

  Notation run_code g args := (code (S (cost root cwd (stack0 root cwd args))) g args).

  (* the theorems of the model, read on the translated code *)
  Corollary translated_code_sound g args s : run_code g args = Next s ->
    forall f, In f (st_files item s) ->
      In (apath f) (wanted_files root cwd args) /\ lookup root (apath f) = Some File /\ is_src (item_name f) = true.
  Proof.
    intros E. apply (select_sound root cwd check_ignore g args (st_files item s) (st_out item s)).
    rewrite <- select_is_translated_code, E. reflexivity.
  Qed.

  Corollary translated_code_missing_aborts g args a : In a args -> lookup root (apath a) = None ->
    exists b ms, run_code g args = Exit 1 (ms ++ [missing_msg b]) /\ In b args /\ lookup root (apath b) = None.
  Proof.
    intros Hin L. destruct (missing_aborts root cwd check_ignore g args a Hin L) as (b & ms & E & Hb & Lb).
    exists b, ms. split; [|now split]. rewrite <- select_is_translated_code in E.
    destruct (run_code g args); cbn in E; inversion E; subst; reflexivity.
  Qed.

  Corollary translated_code_complete_partial args :
    wfb root = true -> (exists ch, lookup root cwd = Some (Dir ch)) ->
    (forall a, In a (eff_args args) -> guarded root cwd a = true) ->
    wanted_abort root cwd args = false ->
    exists s, run_code false args = Next s /\
              Permutation.Permutation (map apath (st_files item s)) (wanted_files root cwd args) /\
              st_out item s = map bad_suffix_msg (wanted_rejects root cwd args).
  Proof.
    intros W C G A. destruct (select_complete_partial root cwd check_ignore args W C G A) as (fs & ms & E & P & M).
    rewrite <- select_is_translated_code in E.
    destruct (run_code false args) as [s|c o|]; cbn in E; inversion E; subst. exists s. now split.
  Qed.

  Corollary translated_code_terminates g args : wfb root = true -> run_code g args <> Stuck.
  Proof.
    intros W E. apply (select_terminates root cwd check_ignore g args W).
    rewrite <- select_is_translated_code, E. reflexivity.
  Qed.
End Instance.
