(* K03 at file level: over the generic registry loop (Model/Engine.v) - CheckComment is a `_rule` check, it runs on every matched
   statement, and its result does not depend on anything the engine model leaves open except the history and the scope class, over
   which the statement is quantified. *)
From NV Require Import Model.Base Model.RuleChecks Model.NameBase Gen.NameChecks Proofs.StrOrder Proofs.RuleChecksProofs Proofs.NameChecksProofs.
From NV Require Import Model.Engine Model.RegistryOrder Gen.Registry Proofs.EngineProofs.
Local Open Scope Z_scope.

Lemma name_checks_run_always p c : In c [s "CheckComment"; s "CheckIdentifierName"] -> In c (checks_run_on p).
Proof.
  intros H. unfold checks_run_on. apply in_or_app. right.
  assert (E : forallb (fun c => str_in c (sort_names (rule_checks_unsorted checks))) [s "CheckComment"; s "CheckIdentifierName"] = true)
    by (vm_compute; reflexivity).
  rewrite forallb_forall in E. specialize (E _ H). unfold str_in in E. apply existsb_exists in E as [y [Hy Q]].
  apply str_eqb_eq in Q. now subst.
Qed.

(* every statement of a run that ends normally whose first line holds a comment after some other token and before a token that is
   neither blank nor comment gets COMMENT_ON_INSTR at that comment from the CheckComment invocation on it *)
Theorem file_comment_on_instr oracle (ftoks : list token) segs name before after l0 tc r :
  good oracle -> run_file oracle 0 (List.length ftoks) = Ok segs -> In (SMatch name before after) segs ->
  let rem := skipn (List.length ftoks - before) ftoks in
  collect_line rem (skip_ws rem 0) = l0 ++ tc :: r -> l0 <> [] -> is_comment tc = true -> comment_is_last r = false ->
  In (s "CheckComment") (checks_run_on name) /\
  forall hist cls, In (c_on_instr, t_line tc, t_col tc) (check_comment rem hist cls).
Proof.
  intros _ _ _ rem HL H0 Hc Hr. split; [apply name_checks_run_always; cbn; auto|].
  intros hist cls. eapply comment_on_instr_reported; eassumption.
Qed.
