(* The tokenizer never branches on the LINE number nor on the raw OFFSET: it only records them.
   shl k d x = the state x with `line + k`, `off + d` and every recorded diagnostic k lines lower; every function
   of Model/Lexer.v, applied to shl k d x, gives the shifted result of the function applied to x.
   Corollaries: a line splice in front of a text (C12) and text continued after a prefix of complete lines (C19)
   give the shifted items. *)
From NV Require Import Model.Base Model.Diag Model.Lexer.
From Coq Require Import Lia.

Section Shift.
  Variable k : Z.
  Variable d : nat.
  Variable uw ud : N -> bool.

  Definition sh_hl (h : hl) : hl := mkhl (h_line h + k) (h_col h) (h_len h) (h_hint h).
  Definition sh_diag (g : diag) : diag := mkdiag (d_name g) (d_text g) (d_level g) (map sh_hl (d_hls g)).
  Definition shl (x : st) : st := mkst (rest x) (off x + d)%nat (line x + k) (col x) (map sh_diag (errs x)).
  Definition sh_tok (t : token) : token := mktok (t_type t) (t_line t + k) (t_col t) (t_val t).

  Definition sh_pop (r : popres) : popres :=
    match r with PopOk t x => PopOk t (shl x) | PopEOF x => PopEOF (shl x) | PopMIL => PopMIL end.
  Definition sh_triple (r : str * nat * st) : str * nat * st :=
    match r with (c, n, x) => (c, n, shl x) end.
  Definition sh_opop (r : option popres) : option popres :=
    match r with Some p => Some (sh_pop p) | None => None end.
  Definition sh_pres (r : pres) : pres :=
    match r with PNone => PNone | PTok t x => PTok (sh_tok t) (shl x) | PExn e => PExn e end.
  Definition sh_cloop (r : cloop) : cloop :=
    match r with CDone v c x => CDone v c (shl x) | CMIL => CMIL end.
  Definition sh_sloop (r : sloop) : sloop :=
    match r with SDone v c x => SDone v c (shl x) | SMIL => SMIL | SHang => SHang end.
  Definition sh_mloop (r : mloop) : mloop :=
    match r with MDone v e x => MDone v e (shl x) | MMIL => MMIL | MHang => MHang end.
  Definition sh_lloop (r : lloop) : lloop :=
    match r with LDone v x => LDone v (shl x) | LMIL => LMIL | LHang => LHang end.
  Definition sh_iloop (r : iloop) : iloop :=
    match r with IDone v x => IDone v (shl x) | IExn e => IExn e end.
  Definition sh_item (i : item) : item :=
    match i with
    | ITok t lo hi => ITok (sh_tok t) (lo + d)%nat (hi + d)%nat
    | IBad lo => IBad (lo + d)%nat
    | ISkip lo hi => ISkip (lo + d)%nat (hi + d)%nat
    end.
  Definition sh_step (r : stepres) : stepres :=
    match r with StepEnd => StepEnd | StepItem i x => StepItem (sh_item i) (shl x) | StepExn e => StepExn e end.
  Definition sh_out (r : outcome (list item * st)) : outcome (list item * st) :=
    match r with
    | Ok (items, x) => Ok (map sh_item items, shl x)
    | Fatal m => Fatal m | Crash e => Crash e | Hang => Hang
    end.

  (* ---------------------------------------------------------------- the tactic *)
  Ltac sh_simpl :=
    cbn [shl sh_tok sh_pop sh_triple sh_opop sh_pres sh_cloop sh_sloop sh_mloop sh_lloop sh_iloop sh_item sh_step
         rest off line col errs set_pos add_err advance tok_at map
         h_line h_col h_len h_hint d_name d_text d_level d_hls t_type t_line t_col t_val].

  Ltac sh_done :=
    try reflexivity;
    unfold advance, set_pos, add_err, tok_at, from_name, shl, sh_tok, sh_diag, sh_hl;
    cbn [rest off line col errs map h_line h_col h_len h_hint d_name d_text d_level d_hls t_type t_line t_col t_val];
    repeat (f_equal; try lia).

  Ltac sh_destr :=
    match goal with
    | |- context [match ?a with _ => _ end] =>
        lazymatch a with
        | context [match _ with _ => _ end] => fail      (* innermost scrutinees first *)
        | sh_pop ?r => destruct r eqn:?
        | sh_triple ?r => destruct r as [[? ?] ?] eqn:?
        | sh_opop ?r => destruct r eqn:?
        | sh_pres ?r => destruct r eqn:?
        | sh_cloop ?r => destruct r eqn:?
        | sh_sloop ?r => destruct r eqn:?
        | sh_mloop ?r => destruct r eqn:?
        | sh_lloop ?r => destruct r eqn:?
        | sh_iloop ?r => destruct r eqn:?
        | map sh_hl ?r => destruct r eqn:?
        | _ => destruct a eqn:?
        end
    end.

  Ltac sh_go := repeat (sh_simpl; try autorewrite with shl; sh_simpl; first [solve [sh_done] | sh_destr]).

  (* diagnostics built at a shifted line are the shifted diagnostics; adding one to a shifted state *)
  Lemma from_name_sh1 : forall n l a c ln h,
    from_name n l [mkhl (a + k) c ln h] = sh_diag (from_name n l [mkhl a c ln h]).
  Proof. reflexivity. Qed.
  Lemma from_name_sh2 : forall n l a c ln h c' ln' h',
    from_name n l [mkhl (a + k) c ln h; mkhl (a + k) c' ln' h'] = sh_diag (from_name n l [mkhl a c ln h; mkhl a c' ln' h']).
  Proof. reflexivity. Qed.
  Lemma from_name_shmap : forall n l hls, from_name n l (map sh_hl hls) = sh_diag (from_name n l hls).
  Proof. reflexivity. Qed.
  Lemma add_err_fold : forall g x, add_err (sh_diag g) (shl x) = shl (add_err g x).
  Proof. reflexivity. Qed.
  Hint Rewrite from_name_sh1 from_name_sh2 from_name_shmap add_err_fold : shl.

  (* ---------------------------------------------------------------- pop *)
  Lemma pop_escape_shl : forall x char size temp tsize,
    pop_escape (shl x) char size temp tsize = sh_triple (pop_escape x char size temp tsize).
  Proof. intros. unfold pop_escape. sh_go. Qed.
  Hint Rewrite pop_escape_shl : shl.

  Lemma pop_finish_shl : forall us x char size, pop_finish us (shl x) char size = sh_pop (pop_finish us x char size).
  Proof. intros. unfold pop_finish. sh_go. Qed.
  Hint Rewrite pop_finish_shl : shl.

  Lemma pop_inner_shl : forall fuel us ue x, pop_inner fuel us ue (shl x) = sh_pop (pop_inner fuel us ue x).
  Proof.
    induction fuel as [|fuel IH]; intros; [reflexivity|]. cbn [pop_inner]. sh_simpl.
    destruct (peek1 (rest x)) as [[char size]|]; [|reflexivity].
    destruct (negb (is_bs char)); [apply pop_finish_shl|].
    destruct (peek1 (skipn size (rest x))) as [[temp tsize]|]; [|apply pop_finish_shl].
    destruct (negb (is_nl temp)).
    - destruct ue; [|apply pop_finish_shl]. rewrite pop_escape_shl.
      destruct (pop_escape x char size temp tsize) as [[c' s'] x']. sh_simpl. apply pop_finish_shl.
    - assert (E : set_pos (line x + k + 1) 1 (advance (S size) (shl x)) = shl (set_pos (line x + 1) 1 (advance (S size) x)))
        by sh_done.
      rewrite E. destruct (peek1 (skipn (S size) (rest x))); [apply IH|reflexivity].
  Qed.
  Hint Rewrite pop_inner_shl : shl.

  Lemma pop1_shl : forall us ue x, pop1 us ue (shl x) = sh_pop (pop1 us ue x).
  Proof. intros. unfold pop1. apply pop_inner_shl. Qed.
  Hint Rewrite pop1_shl : shl.

  Lemma popn_shl : forall times x acc, popn times (shl x) acc = sh_pop (popn times x acc).
  Proof.
    induction times as [|t IH]; intros; [reflexivity|]. cbn [popn]. rewrite pop1_shl.
    destruct (pop1 false false x); sh_simpl; auto.
  Qed.
  Hint Rewrite popn_shl : shl.

  Ltac sh_fix IH := repeat (sh_simpl; try rewrite IH; try autorewrite with shl; sh_simpl; first [solve [sh_done] | sh_destr]).

  (* ---------------------------------------------------------------- literals *)
  Lemma quote_prefix_shl : forall q ps x, quote_prefix q ps (shl x) = sh_opop (quote_prefix q ps x).
  Proof. induction ps as [|p ps IH]; intros; [reflexivity|]. cbn [quote_prefix]. sh_fix IH. Qed.
  Hint Rewrite quote_prefix_shl : shl.

  Lemma char_loop_shl : forall fuel l0 c0 value chars x,
    char_loop fuel (l0 + k) c0 value chars (shl x) = sh_cloop (char_loop fuel l0 c0 value chars x).
  Proof. induction fuel as [|fuel IH]; intros; [reflexivity|]. cbn [char_loop]. sh_fix IH. Qed.
  Hint Rewrite char_loop_shl : shl.

  Lemma parse_char_literal_shl : forall x, parse_char_literal (shl x) = sh_pres (parse_char_literal x).
  Proof. intros. unfold parse_char_literal. sh_go. Qed.
  Hint Rewrite parse_char_literal_shl : shl.

  Lemma string_loop_shl : forall fuel value x, string_loop fuel value (shl x) = sh_sloop (string_loop fuel value x).
  Proof. induction fuel as [|fuel IH]; intros; [reflexivity|]. cbn [string_loop]. sh_fix IH. Qed.
  Hint Rewrite string_loop_shl : shl.

  Lemma parse_string_literal_shl : forall x, parse_string_literal (shl x) = sh_pres (parse_string_literal x).
  Proof. intros. unfold parse_string_literal. sh_go. Qed.
  Hint Rewrite parse_string_literal_shl : shl.

  (* ---------------------------------------------------------------- numbers *)
  Lemma bad_digit_hls_shl : forall cs l0 c0 idx bucket,
    bad_digit_hls (l0 + k) c0 idx bucket cs = map sh_hl (bad_digit_hls l0 c0 idx bucket cs).
  Proof.
    induction cs as [|c cs IH]; intros; [reflexivity|]. cbn [bad_digit_hls]. rewrite IH, map_app.
    destruct (chr_in c bucket); reflexivity.
  Qed.

  Lemma check_bad_prefix_shl : forall name bucket l0 c0 prefix const x,
    check_bad_prefix name bucket (l0 + k) c0 prefix const (shl x) = shl (check_bad_prefix name bucket l0 c0 prefix const x).
  Proof.
    intros. unfold check_bad_prefix. rewrite bad_digit_hls_shl.
    destruct (bad_digit_hls l0 c0 (zl prefix) bucket const); reflexivity.
  Qed.
  Hint Rewrite check_bad_prefix_shl : shl.

  Lemma parse_integer_literal_shl : forall x, parse_integer_literal uw ud (shl x) = sh_pres (parse_integer_literal uw ud x).
  Proof. intros. unfold parse_integer_literal, of_popres. sh_go. Qed.
  Hint Rewrite parse_integer_literal_shl : shl.

  Lemma parse_float_literal_shl : forall x, parse_float_literal uw ud (shl x) = sh_pres (parse_float_literal uw ud x).
  Proof. intros. unfold parse_float_literal, of_popres. sh_go. Qed.
  Hint Rewrite parse_float_literal_shl : shl.

  (* ---------------------------------------------------------------- comments, identifiers, operators, blanks *)
  Lemma mc_loop_shl : forall fuel value x, mc_loop fuel value (shl x) = sh_mloop (mc_loop fuel value x).
  Proof. induction fuel as [|fuel IH]; intros; [reflexivity|]. cbn [mc_loop]. sh_fix IH. Qed.
  Hint Rewrite mc_loop_shl : shl.

  Lemma parse_multi_line_comment_shl : forall x, parse_multi_line_comment (shl x) = sh_pres (parse_multi_line_comment x).
  Proof. intros. unfold parse_multi_line_comment, of_popres. sh_go. Qed.
  Hint Rewrite parse_multi_line_comment_shl : shl.

  Lemma lc_loop_shl : forall fuel value x, lc_loop fuel value (shl x) = sh_lloop (lc_loop fuel value x).
  Proof. induction fuel as [|fuel IH]; intros; [reflexivity|]. cbn [lc_loop]. sh_fix IH. Qed.
  Hint Rewrite lc_loop_shl : shl.

  Lemma parse_line_comment_shl : forall x, parse_line_comment (shl x) = sh_pres (parse_line_comment x).
  Proof. intros. unfold parse_line_comment, of_popres. sh_go. Qed.
  Hint Rewrite parse_line_comment_shl : shl.

  Lemma ident_loop_shl : forall fuel value x, ident_loop fuel value (shl x) = sh_iloop (ident_loop fuel value x).
  Proof. induction fuel as [|fuel IH]; intros; [reflexivity|]. cbn [ident_loop]. sh_fix IH. Qed.
  Hint Rewrite ident_loop_shl : shl.

  Lemma parse_identifier_shl : forall x, parse_identifier (shl x) = sh_pres (parse_identifier x).
  Proof. intros. unfold parse_identifier, of_popres. sh_go. Qed.
  Hint Rewrite parse_identifier_shl : shl.

  Lemma op_token_shl : forall x0 r, op_token (shl x0) (sh_pop r) = sh_pres (op_token x0 r).
  Proof. intros. unfold op_token, of_popres. sh_go. Qed.
  Hint Rewrite op_token_shl : shl.

  Lemma parse_operator_shl : forall x, parse_operator (shl x) = sh_pres (parse_operator x).
  Proof. intros. unfold parse_operator. sh_go. Qed.
  Hint Rewrite parse_operator_shl : shl.

  Lemma parse_whitespace_shl : forall x, parse_whitespace (shl x) = sh_pres (parse_whitespace x).
  Proof. intros. unfold parse_whitespace, of_popres. sh_go. Qed.
  Hint Rewrite parse_whitespace_shl : shl.

  Lemma parse_brackets_shl : forall x, parse_brackets (shl x) = sh_pres (parse_brackets x).
  Proof. intros. unfold parse_brackets, of_popres. sh_go. Qed.
  Hint Rewrite parse_brackets_shl : shl.

  (* ---------------------------------------------------------------- the dispatcher, one step, the loop *)
  Lemma run_parser_shl : forall name x, run_parser uw ud name (shl x) = sh_pres (run_parser uw ud name x).
  Proof. intros. unfold run_parser. sh_go. Qed.
  Hint Rewrite run_parser_shl : shl.

  Lemma try_parsers_shl : forall names x, try_parsers uw ud names (shl x) = sh_pres (try_parsers uw ud names x).
  Proof. induction names as [|n names IH]; intros; [reflexivity|]. cbn [try_parsers]. sh_fix IH. Qed.
  Hint Rewrite try_parsers_shl : shl.

  Lemma step_shl : forall x, step uw ud (shl x) = sh_step (step uw ud x).
  Proof. intros. unfold step. sh_go. Qed.
  Hint Rewrite step_shl : shl.

  Lemma lex_loop_shl : forall fuel x acc,
    lex_loop uw ud fuel (shl x) (map sh_item acc) = sh_out (lex_loop uw ud fuel x acc).
  Proof.
    induction fuel as [|fuel IH]; intros; [reflexivity|]. cbn [lex_loop]. rewrite step_shl.
    destruct (step uw ud x) as [|i x'|e]; cbn [sh_step sh_out].
    - rewrite map_rev. reflexivity.
    - change (sh_item i :: map sh_item acc) with (map sh_item (i :: acc)). apply IH.
    - reflexivity.
  Qed.
End Shift.

