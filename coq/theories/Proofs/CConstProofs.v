(* C11: the sweep theorems.  The families are finite and enumerated in Spec/CConst.v (the bound is part
   of every statement); `vm_compute` evaluates the lexer model on every member, `forallb_forall` lifts the
   boolean to the quantified statement.  The tables (suffix lists, prefixes, escape letters, patterns) come
   from Gen/, regenerated from the source on every run. *)
From NV Require Import Model.Base Model.Diag Model.Lexer Spec.CConst Gen.LexTables.

Lemma sweep_with_spec dl ty guard ws :
  sweep_with dl ty guard ws = true ->
  forall w r, In w ws -> In r (dl w) -> guard w r = true -> lex_one_ok ty w r = true.
Proof.
  unfold sweep_with. intros H w r Hw Hr Hg.
  rewrite forallb_forall in H. specialize (H _ Hw). rewrite forallb_forall in H. specialize (H _ Hr).
  rewrite Hg in H. exact H.
Qed.

Lemma int_sweep : sweep_with delims (s "CONSTANT") guard_int (int_consts integer_suffixes) = true.
Proof. vm_cast_no_check (eq_refl true). Qed.
Lemma int_sweep_all_delims : sweep_with delims_all (s "CONSTANT") guard_int (cat int_reprs integer_suffixes) = true.
Proof. vm_cast_no_check (eq_refl true). Qed.
Lemma float_sweep : sweep_with delims (s "CONSTANT") (fun w _ => guard_float w) (float_consts float_suffixes) = true.
Proof. vm_cast_no_check (eq_refl true). Qed.
Lemma float_sweep_all_delims : sweep_with delims_all (s "CONSTANT") (fun w _ => guard_float w) (cat float_reprs float_suffixes) = true.
Proof. vm_cast_no_check (eq_refl true). Qed.
Lemma char_sweep : sweep_with delims (s "CHAR_CONST") (fun w _ => guard_char w) char_consts = true.
Proof. vm_cast_no_check (eq_refl true). Qed.
Lemma string_sweep : sweep_with delims (s "STRING") (fun w _ => guard_string w) string_consts = true.
Proof. vm_cast_no_check (eq_refl true). Qed.
Lemma malformed_closed_ok : closed_sweep malformed = true.
Proof. vm_cast_no_check (eq_refl true). Qed.
Lemma malformed_open_ok : open_sweep malformed_open = true.
Proof. vm_cast_no_check (eq_refl true). Qed.

Lemma closed_sweep_spec fams : closed_sweep fams = true ->
  forall fam name ws w r, In (fam, name, ws) fams -> In w ws -> In r m_rests -> lex_one_diag name w r = true.
Proof.
  unfold closed_sweep. intros H fam name ws w r Hf Hw Hr.
  rewrite forallb_forall in H. specialize (H _ Hf). cbn [fst snd] in H.
  rewrite forallb_forall in H. specialize (H _ Hw). rewrite forallb_forall in H. exact (H _ Hr).
Qed.
Lemma open_sweep_spec fams : open_sweep fams = true ->
  forall fam name ws w r, In (fam, name, ws) fams -> In (w, r) ws -> lex_one_diag name w r = true.
Proof.
  unfold open_sweep. intros H fam name ws w r Hf Hw.
  rewrite forallb_forall in H. specialize (H _ Hf). cbn [fst snd] in H.
  rewrite forallb_forall in H. exact (H _ Hw).
Qed.

Lemma accept_int w r : In w (int_consts integer_suffixes) -> In r (delims w) -> guard_int w r = true ->
  lex_one_ok (s "CONSTANT") w r = true.
Proof. intros Hw Hr Hg. exact (sweep_with_spec delims _ guard_int _ int_sweep w r Hw Hr Hg). Qed.
Lemma accept_int_all_delims w r : In w (cat int_reprs integer_suffixes) -> In r (delims_all w) -> guard_int w r = true ->
  lex_one_ok (s "CONSTANT") w r = true.
Proof. intros Hw Hr Hg. exact (sweep_with_spec delims_all _ guard_int _ int_sweep_all_delims w r Hw Hr Hg). Qed.
Lemma accept_float w r : In w (float_consts float_suffixes) -> In r (delims w) -> guard_float w = true ->
  lex_one_ok (s "CONSTANT") w r = true.
Proof. intros Hw Hr Hg. exact (sweep_with_spec delims _ (fun w _ => guard_float w) _ float_sweep w r Hw Hr Hg). Qed.
Lemma accept_float_all_delims w r : In w (cat float_reprs float_suffixes) -> In r (delims_all w) -> guard_float w = true ->
  lex_one_ok (s "CONSTANT") w r = true.
Proof. intros Hw Hr Hg. exact (sweep_with_spec delims_all _ (fun w _ => guard_float w) _ float_sweep_all_delims w r Hw Hr Hg). Qed.
Lemma accept_char w r : In w char_consts -> In r (delims w) -> guard_char w = true ->
  lex_one_ok (s "CHAR_CONST") w r = true.
Proof. intros Hw Hr Hg. exact (sweep_with_spec delims _ (fun w _ => guard_char w) _ char_sweep w r Hw Hr Hg). Qed.
Lemma accept_string w r : In w string_consts -> In r (delims w) -> guard_string w = true ->
  lex_one_ok (s "STRING") w r = true.
Proof. intros Hw Hr Hg. exact (sweep_with_spec delims _ (fun w _ => guard_string w) _ string_sweep w r Hw Hr Hg). Qed.

Lemma reject_family fam name ws w r : In (fam, name, ws) malformed -> In w ws -> In r m_rests ->
  lex_one_diag name w r = true.
Proof. exact (closed_sweep_spec malformed malformed_closed_ok fam name ws w r). Qed.
Lemma reject_open fam name ws w r : In (fam, name, ws) malformed_open -> In (w, r) ws -> lex_one_diag name w r = true.
Proof. exact (open_sweep_spec malformed_open malformed_open_ok fam name ws w r). Qed.

(* the suffix tables the families are built from are the source's own: every suffix spelling is covered *)
Lemma suffix_tables_nonempty : (20 <= List.length integer_suffixes)%nat /\ (6 <= List.length float_suffixes)%nat.
Proof. split; apply Nat.leb_le; vm_compute; reflexivity. Qed.

(* refuted shapes (genuine defects, KNOWN_FINDINGS): each witness is valid C and is NOT accepted *)
(* the former finding K1 (repaired in the source): constants of the shape shape_k1 are accepted *)
Lemma accepted_k1_shape : shape_k1 (s "0xb3ba") = true /\ int_body (s "0xb3ba") = Some Hex /\ lex_one_ok (s "CONSTANT") (s "0xb3ba") (s ";") = true
  /\ lex_one_diag (s "INVALID_SUFFIX") (s "0xb3ba") (s ";") = false
  /\ shape_k1 (s "0XBB98Bl") = true /\ lex_one_ok (s "CONSTANT") (s "0XBB98Bl") (s ";") = true.
Proof. vm_compute. repeat split. Qed.
Lemma refuted_hex_e_suffix : lex_one_ok (s "CONSTANT") (s "0x1eu") (s "+1") = false /\ lex_one_ok (s "CONSTANT") (s "0x1eu") (s ";") = true.
Proof. vm_compute. repeat split. Qed.
(* the former findings hexfloat-empty-part / hexfloat-hex-suffix (repaired in the source): accepted now *)
Lemma accepted_hexfloat_empty_part : shape_hexfloat_empty_part (s "0x1.p3") = true /\ shape_hexfloat_empty_part (s "0x.8p1") = true /\
  lex_one_ok (s "CONSTANT") (s "0x1.p3") (s ";") = true /\ lex_one_ok (s "CONSTANT") (s "0x.8p1") (s ";") = true.
Proof. vm_compute. repeat split. Qed.
Lemma accepted_hexfloat_hex_suffix : str_in (s "fi") float_suffixes = true /\ shape_hexfloat_hex_suffix (s "0x1.8p3fi") = true /\
  lex_one_ok (s "CONSTANT") (s "0x1.8p3fi") (s ";") = true /\ lex_one_ok (s "CONSTANT") (s "1.5fi") (s ";") = true.
Proof. vm_compute. repeat split. Qed.
Lemma refuted_ucn : lex_one_ok (s "CHAR_CONST") (qt ++ bsl ++ s "u1234" ++ qt) (s ";") = false
  /\ lex_one_ok (s "STRING") (dq ++ bsl ++ s "u1234" ++ dq) (s ";") = false.
Proof. vm_compute. repeat split. Qed.
Lemma refuted_long_hex_char : lex_one_ok (s "CHAR_CONST") (s "L" ++ qt ++ bsl ++ s "x1234" ++ qt) (s ";") = false.
Proof. vm_compute. repeat split. Qed.

(* the tool's suffix tables against the independent suffix grammar: same integer suffix set, float suffixes included *)
Lemma integer_suffix_table_is_the_grammar :
  forallb (fun x => str_in x integer_suffixes) spec_int_suffixes = true /\
  forallb (fun x => str_in x spec_int_suffixes) integer_suffixes = true /\
  forallb (fun x => str_in x float_suffixes) spec_float_suffixes = true.
Proof. vm_compute. repeat split. Qed.
