(* The value of a block-comment token vs. visual width: for comment text without line splices, di/trigraph
   openers and newlines, the documented normalisation (Spec/Normalise: tabs expanded at the true column) turns a raw
   line into a text whose LENGTH is the visual width it occupies - so `len(line)` in CheckCommentLineLen measures
   columns.  (di/trigraphs inside comments: recorded finding C17-digraph-in-comment-width.) *)
From Coq Require Import List ZArith NArith Bool Lia.
From NV Require Import Model.Base Model.Lexer Spec.TruePos Spec.Normalise.
Import ListNotations.
Local Open Scope Z_scope.

(* no newline, backslash, ?, <, :, % : nothing is spliced or respelt *)
Definition plainc (ch : N) : bool :=
  negb (N.eqb ch 10 || N.eqb ch 92 || N.eqb ch 63 || N.eqb ch 60 || N.eqb ch 58 || N.eqb ch 37).

Lemma plainc_inv : forall ch, plainc ch = true ->
  ch <> 10%N /\ ch <> 92%N /\ ch <> 63%N /\ ch <> 60%N /\ ch <> 58%N /\ ch <> 37%N.
Proof.
  intros ch H. unfold plainc in H. apply negb_true_iff in H.
  repeat (apply orb_false_iff in H; destruct H as [H ?]).
  repeat match goal with h : N.eqb _ _ = false |- _ => apply N.eqb_neq in h end. repeat split; assumption.
Qed.

Lemma logical1_plain : forall a r, plainc a = true -> logical1 (a :: r) = Some (a, 1%nat).
Proof.
  intros a r H. destruct (plainc_inv a H) as [_ [_ [H63 [H60 [H58 H37]]]]].
  unfold logical1.
  assert (Ht : match r with b :: c :: _ => std_trigraph a b c | _ => None end = None).
  { destruct r as [|b [|c r']]; try reflexivity. unfold std_trigraph.
    apply N.eqb_neq in H63. now rewrite H63. }
  rewrite Ht. destruct r as [|b r']; [reflexivity|].
  assert (Hd : std_digraph a b = None).
  { unfold std_digraph.
    destruct a as [|pa]; [reflexivity|].
    do 7 (try (destruct pa as [pa|pa|])); try reflexivity; try congruence. }
  now rewrite Hd.
Qed.

(* the column after a newline-free text that starts in column c *)
Definition col_after (c : Z) (r : str) : Z := snd (pos_after (1, c) r).

Lemma pos_after_line : forall r l c, forallb plainc r = true -> fst (pos_after (l, c) r) = l.
Proof.
  induction r as [|a r IH]; intros l c H; [reflexivity|]. cbn [forallb] in H. apply andb_true_iff in H as [Ha Hr].
  unfold pos_after. cbn [fold_left]. destruct (plainc_inv a Ha) as [H10 _]. apply N.eqb_neq in H10.
  unfold adv at 2. rewrite H10. destruct (N.eqb a 9); exact (IH _ _ Hr).
Qed.

Theorem normalise_plain_width : forall r fuel c, forallb plainc r = true -> (List.length r < fuel)%nat ->
  c + zl (normalise_from fuel true c r) = col_after c r.
Proof.
  induction r as [|a r IH]; intros fuel c H Hf.
  - destruct fuel as [|f]; [cbn in Hf; lia|]. cbn [normalise_from logical1]. unfold col_after, pos_after, zl.
    cbn [fold_left snd List.length Z.of_nat]. apply Z.add_0_r.
  - destruct fuel as [|f]; [cbn in Hf; lia|]. cbn [forallb] in H. apply andb_true_iff in H as [Ha Hr].
    cbn [normalise_from]. rewrite (logical1_plain a r Ha). cbn [skipn].
    destruct (plainc_inv a Ha) as [H10 [H92 _]].
    apply N.eqb_neq in H10. apply N.eqb_neq in H92. rewrite H92. cbn [andb]. rewrite H10.
    assert (Hf' : (List.length r < f)%nat) by (cbn in Hf; lia).
    unfold col_after, pos_after. cbn [fold_left]. unfold adv at 2. rewrite H10.
    destruct (N.eqb a 9) eqn:E9.
    + specialize (IH f (c + (4 - (c - 1) mod 4)) Hr Hf'). unfold col_after, pos_after in IH. rewrite <- IH.
      unfold zl. rewrite app_length, repeat_length.
      assert (0 < 4 - (c - 1) mod 4) by (pose proof (Z.mod_pos_bound (c - 1) 4); lia).
      rewrite Nat2Z.inj_add, Z2Nat.id by lia. lia.
    + specialize (IH f (c + 1) Hr Hf'). unfold col_after, pos_after in IH. rewrite <- IH.
      unfold zl. cbn [List.length]. rewrite Nat2Z.inj_succ. change (Z.of_nat 1) with 1. lia.
Qed.

(* what CheckCommentLineLen computes for the first line of a comment that starts in column c0 (c0 - 1 columns of
   padding + the length of the value's line) is the visual column of the line's last character; for a later line
   (starting in column 1) the length of the value's line is its visual width *)
Corollary comment_first_line_len_is_end_column : forall r c0, forallb plainc r = true ->
  (c0 - 1) + zl (normalise true c0 r) = col_after c0 r - 1.
Proof. intros r c0 H. unfold normalise. pose proof (normalise_plain_width r (S (List.length r)) c0 H (Nat.lt_succ_diag_r _)). lia. Qed.

Corollary comment_later_line_len_is_width : forall r, forallb plainc r = true ->
  zl (normalise true 1 r) = col_after 1 r - 1.
Proof. intros r H. pose proof (comment_first_line_len_is_end_column r 1 H). lia. Qed.

Example tabs_in_a_comment_line :
  zl (normalise true 1 (s "**" ++ 9%N :: s "ab" ++ 9%N :: s "c")) = 9 /\
  col_after 1 (s "**" ++ 9%N :: s "ab" ++ 9%N :: s "c") = 10.
Proof. vm_compute. split; reflexivity. Qed.
