(* C08 (positions inside the file): every position the independent scanner assigns to an offset of the text lies inside
   the file - line between 1 and 1 + (number of newlines), column at least 1 - hence, by the lexer's position theorem,
   so does the position of every token; engine diagnostics are located at tokens (Highlight.from_token copies the position). *)
From Coq Require Import Lia ZifyBool.
From NV Require Import Model.Base Model.Diag Model.Lexer Spec.TruePos Spec.LexProps Spec.Width Proofs.LexInv Proofs.LexMain Proofs.WidthProofs.
Ltac Zify.zify_post_hook ::= Z.to_euclidean_division_equations.

Lemma adv_col_ge1 lc ch : 1 <= snd lc -> 1 <= snd (adv lc ch).
Proof.
  destruct lc as [l c]. unfold adv. cbn [snd]. intros Hc.
  destruct (N.eqb ch 10); [cbn; lia|]. destruct (N.eqb ch 9); cbn [snd]; lia.
Qed.

Lemma pos_after_col_ge1 : forall text lc, 1 <= snd lc -> 1 <= snd (pos_after lc text).
Proof.
  induction text as [|ch r IH]; intros lc H; cbn [pos_after fold_left]; [exact H|].
  fold (pos_after (adv lc ch) r). apply IH, adv_col_ge1, H.
Qed.

Lemma count_nl_app a b : count_nl (a ++ b) = count_nl a + count_nl b.
Proof. unfold count_nl. rewrite filter_app, app_length. lia. Qed.
Lemma count_nl_nonneg a : 0 <= count_nl a.
Proof. unfold count_nl. lia. Qed.

Theorem true_pos_in_file src off :
  1 <= fst (true_pos src off) <= 1 + count_nl src /\ 1 <= snd (true_pos src off).
Proof.
  unfold true_pos. split.
  - rewrite pos_after_line_count. cbn [fst].
    assert (E : count_nl src = count_nl (firstn off src) + count_nl (skipn off src)).
    { rewrite <- count_nl_app. now rewrite firstn_skipn. }
    pose proof (count_nl_nonneg (firstn off src)). pose proof (count_nl_nonneg (skipn off src)). lia.
  - apply pos_after_col_ge1. cbn. lia.
Qed.

Theorem token_position_in_file uw ud src items xf t lo hi :
  lex uw ud src = Ok (items, xf) -> In (ITok t lo hi) items ->
  1 <= t_line t <= 1 + count_nl src /\ 1 <= t_col t.
Proof.
  intros Hlex Hin. destruct (lex_positions_and_tiling uw ud src items xf Hlex) as [_ [Hc _]].
  unfold c09_ok in Hc. rewrite forallb_forall in Hc. specialize (Hc _ Hin). cbn in Hc. unfold c09_tok_ok in Hc.
  pose proof (true_pos_in_file src lo) as Hb. destruct (true_pos src lo) as [l c]. cbn [fst snd] in Hb.
  apply andb_true_iff in Hc as [H1 H2]. apply Z.eqb_eq in H1, H2. subst. exact Hb.
Qed.
