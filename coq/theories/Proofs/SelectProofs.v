(* C15: which files main() checks.  Theorems about Model.Select for ALL trees and ALL argument lists. *)
From NV Require Import Model.Base Model.Select.
From Coq Require Import Lia Permutation.

(* ------------------------------------------------------------------ ties to the current source *)
(* The selection code of main() itself is tied by translation: Gen/SelectCode.v + Proofs/SelectCodeProofs.v
   (select_is_translated_code); the tables the model reads from Gen.Select are pinned here. *)
Lemma selection_tables_pinned :
  glob_cwd_pattern = "**/*.[ch]"%string /\ glob_cwd_recursive = true /\
  glob_dir_pattern = "/**/*.[ch]"%string /\ glob_dir_recursive = true /\
  glob_cwd_last = glob_dir_last /\ glob_cwd_files_only = true /\ glob_dir_files_only = true /\
  accepted_suffixes = [s ".c"; s ".h"] /\
  test_order = ["not path.exists()"; "path.is_file()"; "path.suffix not in ('.c', '.h')"; "path.is_dir()"]%string /\
  exit_missing = 1 /\ exit_bad_suffix = None /\ exit_git_fatal = 0 /\
  git_command = ["git"; "check-ignore"; "-q"; "target.path"]%string /\
  git_codes = [(0, "drop"); (1, "keep"); (128, "exit")]%string.
Proof. repeat split; reflexivity. Qed.

(* ------------------------------------------------------------------ induction on trees *)
Section NodeInd.
  Variable P : node -> Prop.
  Hypothesis HF : P File.
  Hypothesis HD : forall ch, (forall x m, In (x, m) ch -> P m) -> P (Dir ch).
  Lemma node_ind2 : forall n, P n.
  Proof.
    fix IH 1. intros [|ch]. exact HF. apply HD.
    induction ch as [|[y k] r IHr]; intros x m H.
    - destruct H.
    - destruct H as [E|H].
      + assert (Hk : P k) by apply IH. assert (Ekm : k = m) by congruence. rewrite <- Ekm. exact Hk.
      + eapply IHr; eauto.
  Qed.
End NodeInd.

(* ------------------------------------------------------------------ unfolding the nested fixpoints *)
Definition deep (pat : list patom) (ch : list (str * node)) : list (path * node) :=
  flat_map (fun xm : str * node => if hidden (fst xm) then [] else map (pref (fst xm)) (glob_rec pat (snd xm))) ch.

Lemma glob_rec_dir pat ch : glob_rec pat (Dir ch) = direct pat ch ++ deep pat ch.
Proof.
  cbn [glob_rec]. f_equal. unfold deep.
  induction ch as [|[x m] r IH]; cbn [flat_map fst snd]; [reflexivity|]. now rewrite IH.
Qed.

Fixpoint wsum (pat : list patom) (ch : list (str * node)) : nat :=
  match ch with
  | [] => O
  | xm :: r =>
      ((if visible pat (fst xm) then S (weight pat (snd xm)) else O) +
       (if hidden (fst xm) then O else weight pat (snd xm)) + wsum pat r)%nat
  end.

Lemma weight_dir pat ch : weight pat (Dir ch) = wsum pat ch.
Proof.
  cbn [weight].
  induction ch as [|[x m] r IH]; cbn [wsum fst snd]; [reflexivity|]. rewrite <- IH. reflexivity.
Qed.

Definition src_kids (ch : list (str * node)) : list path :=
  flat_map (fun xm : str * node =>
    match snd xm with
    | File => if is_src (fst xm) then [[fst xm]] else []
    | Dir _ => map (cons (fst xm)) (src_below (snd xm))
    end) ch.

Lemma src_below_dir ch : src_below (Dir ch) = src_kids ch.
Proof.
  cbn [src_below]. unfold src_kids.
  induction ch as [|[x m] r IH]; cbn [flat_map fst snd]; [reflexivity|]. now rewrite IH.
Qed.

Lemma wfb_dir ch : wfb (Dir ch) = nodupb (map fst ch) && forallb (fun xm : str * node => wfb (snd xm)) ch.
Proof.
  cbn [wfb]. f_equal.
  induction ch as [|[x m] r IH]; cbn [forallb snd]; [reflexivity|]. now rewrite IH.
Qed.

Lemma cleanb_dir ch : cleanb (Dir ch) =
  forallb (fun xm : str * node =>
    negb (hidden (fst xm)) && cleanb (snd xm)) ch.
Proof.
  cbn [cleanb].
  induction ch as [|[x m] r IH]; cbn [forallb fst snd]; [reflexivity|]. now rewrite IH.
Qed.

(* ------------------------------------------------------------------ strings and names *)
Lemma str_eqb_refl a : str_eqb a a = true.
Proof. induction a; cbn; [reflexivity|]. now rewrite N.eqb_refl. Qed.

Lemma str_eqb_eq a b : str_eqb a b = true <-> a = b.
Proof.
  split; [|intros ->; apply str_eqb_refl].
  revert b; induction a as [|x a IH]; intros [|y b]; cbn; try discriminate; auto.
  intros H. apply andb_prop in H as [H1 H2]. apply N.eqb_eq in H1. subst. f_equal. auto.
Qed.

(* the fnmatch of the pattern of the source is "ends in .c or .h" *)
Lemma fnm_is_src x : fnm glob_dir_last x = is_src x.
Proof.
  change glob_dir_last with [PStar; PLit 46%N; PSet [99; 104]%N].
  cbn [fnm].
  induction x as [|a r IH]; [reflexivity|].
  cbn [is_src]. rewrite <- IH. clear IH.
  destruct r as [|b [|c r']].
  - cbn -[N.eqb]. rewrite ?andb_false_r. reflexivity.
  - cbn -[N.eqb]. rewrite ?andb_false_r, ?andb_true_r, ?orb_false_r. rewrite (N.eqb_sym 46 a).
    destruct (N.eqb a 46), (N.eqb b 99), (N.eqb b 104); reflexivity.
  - cbn -[N.eqb]. rewrite ?andb_false_r. reflexivity.
Qed.

Lemma visible_spec x : visible glob_dir_last x = negb (hidden x) && is_src x.
Proof. unfold visible. rewrite fnm_is_src. reflexivity. Qed.

(* is_src x: x = pre ++ ['.'; b] with b = c or h *)
Lemma is_src_split x : is_src x = true ->
  exists pre b, x = pre ++ [46%N; b] /\ (b = 99%N \/ b = 104%N).
Proof.
  induction x as [|a r IH]; [discriminate|].
  cbn [is_src]. destruct r as [|b [|c r']].
  - intros H. cbn in H. discriminate.
  - intros H. apply andb_prop in H as [H1 H2]. apply N.eqb_eq in H1. subst.
    exists [], b. split; [reflexivity|]. apply orb_prop in H2 as [H|H]; apply N.eqb_eq in H; auto.
  - intros H. destruct (IH H) as (pre & b' & E & Hb). exists (a :: pre), b'. split; [|exact Hb]. cbn. now rewrite E.
Qed.

Lemma is_src_app pre b : (b = 99%N \/ b = 104%N) -> is_src (pre ++ [46%N; b]) = true.
Proof.
  intros Hb. induction pre as [|a r IH].
  - cbn. destruct Hb; subst; reflexivity.
  - cbn [app is_src]. remember (r ++ [46%N; b]) as l eqn:E. destruct l as [|x [|y l']].
    + destruct r; discriminate.
    + destruct r as [|c0 r0]; [discriminate|]. destruct r0; discriminate.
    + exact IH.
Qed.

Lemma last_dot_tail_app pre t t' : last_dot_tail t = Some t' -> last_dot_tail (pre ++ t) = Some t'.
Proof. intros H. induction pre as [|c r IH]; cbn; [exact H|]. now rewrite IH. Qed.

Lemma last_dot_tail_suffix x t : last_dot_tail x = Some t -> exists pre, x = pre ++ t.
Proof.
  revert t; induction x as [|c r IH]; intros t; cbn; [discriminate|].
  destruct (last_dot_tail r) as [t0|].
  - intros E; inversion E; subst. destruct (IH t eq_refl) as [pre ->]. now exists (c :: pre).
  - destruct (N.eqb c 46); [|discriminate]. intros E; inversion E; subst. now exists [].
Qed.

(* pathlib's suffix is accepted only for names that end in .c or .h ... *)
Lemma accepted_is_src name : suffix_accepted name = true -> is_src name = true.
Proof.
  unfold suffix_accepted, py_suffix.
  change accepted_suffixes with [s ".c"; s ".h"].
  destruct (last_dot_tail name) as [t|] eqn:E; [|discriminate].
  destruct (Nat.ltb (List.length t) (List.length name) && Nat.ltb 1 (List.length t)); [|discriminate].
  destruct (last_dot_tail_suffix _ _ E) as [pre ->].
  intros H. unfold str_in in H. cbn [existsb] in H. rewrite orb_false_r in H.
  apply orb_prop in H as [H|H]; apply str_eqb_eq in H; subst t; apply is_src_app; auto.
Qed.

(* ... and, for names that do not start with '.', for all of them *)
Lemma src_accepted name : hidden name = false -> is_src name = true -> suffix_accepted name = true.
Proof.
  intros Hh H. destruct (is_src_split _ H) as (pre & b & -> & Hb).
  unfold suffix_accepted, py_suffix.
  assert (T : last_dot_tail [46%N; b] = Some [46%N; b]) by (destruct Hb; subst; reflexivity).
  rewrite (last_dot_tail_app pre _ _ T).
  destruct pre as [|p0 pre].
  - cbn in Hh. discriminate.
  - replace (Nat.ltb (List.length [46%N; b]) (List.length ((p0 :: pre) ++ [46%N; b]))) with true.
    2:{ symmetry. apply Nat.ltb_lt. rewrite app_length. cbn. lia. }
    cbn [List.length Nat.ltb Nat.leb andb].
    destruct Hb; subst; reflexivity.
Qed.

(* the messages of the source, rendered *)
Definition missing_msg (it : item) : str := s "Error: '" ++ render it ++ s "' no such file or directory".
Definition bad_suffix_msg (it : item) : str := s "Error: " ++ py_repr (item_name it) ++ s " is not valid C or C header file".
Definition git_fatal_msg (it : item) : str := s "Error: something wrong with --use-gitignore option " ++ py_repr (i_raw it).

Lemma render_missing it : render_msg msg_missing it = Ok (missing_msg it).
Proof. unfold missing_msg. cbn. rewrite ?app_nil_r. reflexivity. Qed.
Lemma render_bad it : render_msg msg_bad_suffix it = Ok (bad_suffix_msg it).
Proof. unfold bad_suffix_msg. cbn. rewrite ?app_nil_r. reflexivity. Qed.
Lemma render_git it : render_msg msg_git_fatal it = Ok (git_fatal_msg it).
Proof. unfold git_fatal_msg. cbn. rewrite ?app_nil_r. reflexivity. Qed.

(* ------------------------------------------------------------------ lookup and glob *)
Lemma lookup_app n p q :
  lookup n (p ++ q) = match lookup n p with Some m => lookup m q | None => None end.
Proof.
  revert n; induction p as [|c p IH]; intros n; cbn [app lookup]; [reflexivity|].
  destruct n as [|ch]; [reflexivity|]. destruct (find_child c ch); [apply IH|reflexivity].
Qed.

Lemma find_child_in x ch m : find_child x ch = Some m -> In (x, m) ch.
Proof.
  induction ch as [|[y k] r IH]; cbn; [discriminate|].
  destruct (str_eqb x y) eqn:E.
  - apply str_eqb_eq in E. subst. intros H; inversion H; subst. now left.
  - intros H. right. auto.
Qed.

Lemma str_in_map_fst x (m : node) ch : In (x, m) ch -> str_in x (map fst ch) = true.
Proof.
  unfold str_in. intros H. apply existsb_exists. exists x. split; [|apply str_eqb_refl].
  apply in_map_iff. now exists (x, m).
Qed.

Lemma find_child_nodup x m ch : nodupb (map fst ch) = true -> In (x, m) ch -> find_child x ch = Some m.
Proof.
  induction ch as [|[y k] r IH]; cbn [map fst nodupb find_child]; [intros _ []|].
  intros H Hin. apply andb_prop in H as [H1 H2].
  destruct Hin as [E|Hin].
  - inversion E; subst. now rewrite str_eqb_refl.
  - destruct (str_eqb x y) eqn:E.
    + apply str_eqb_eq in E. subst. rewrite (str_in_map_fst _ _ _ Hin) in H1. discriminate.
    + auto.
Qed.

Lemma wfb_child ch x m : wfb (Dir ch) = true -> In (x, m) ch -> wfb m = true.
Proof.
  rewrite wfb_dir. intros H Hin. apply andb_prop in H as [_ H].
  rewrite forallb_forall in H. exact (H _ Hin).
Qed.

Lemma lookup_wf p : forall n m, wfb n = true -> lookup n p = Some m -> wfb m = true.
Proof.
  induction p as [|c p IH]; intros n m W; cbn [lookup].
  - intros E; inversion E; now subst.
  - destruct n as [|ch]; [discriminate|]. destruct (find_child c ch) as [k|] eqn:F; [|discriminate].
    apply IH. apply (wfb_child ch c k W). now apply find_child_in.
Qed.

Lemma in_direct pat ch g m : In (g, m) (direct pat ch) ->
  exists x, g = [x] /\ In (x, m) ch /\ visible pat x = true.
Proof.
  unfold direct. rewrite in_flat_map. intros ([x k] & Hin & H). cbn [fst snd] in H.
  destruct (visible pat x) eqn:V; [|destruct H]. destruct H as [E|[]]. inversion E; subst. now exists x.
Qed.

Lemma in_deep pat ch g m : In (g, m) (deep pat ch) ->
  exists x k g', g = x :: g' /\ In (x, k) ch /\ hidden x = false /\ In (g', m) (glob_rec pat k).
Proof.
  unfold deep. rewrite in_flat_map. intros ([x k] & Hin & H). cbn [fst snd] in H.
  destruct (hidden x) eqn:V; [destruct H|]. rewrite in_map_iff in H. destruct H as ([g' m'] & E & H).
  unfold pref in E. cbn in E. inversion E; subst. now exists x, k, g'.
Qed.

Lemma glob_nonempty pat n g m : In (g, m) (glob_rec pat n) -> g <> [].
Proof.
  destruct n as [|ch]; [intros []|]. rewrite glob_rec_dir, in_app_iff. intros [H|H].
  - apply in_direct in H as (x & -> & _). discriminate.
  - apply in_deep in H as (x & k & g' & -> & _). discriminate.
Qed.

Lemma glob_lookup pat : forall n, wfb n = true -> forall g m, In (g, m) (glob_rec pat n) -> lookup n g = Some m.
Proof.
  apply (node_ind2 (fun n => wfb n = true -> forall g m, In (g, m) (glob_rec pat n) -> lookup n g = Some m)).
  - intros _ g m [].
  - intros ch IH W g m. rewrite glob_rec_dir, in_app_iff.
    assert (ND : nodupb (map fst ch) = true) by (rewrite wfb_dir in W; now apply andb_prop in W).
    intros [H|H].
    + apply in_direct in H as (x & -> & Hin & _). cbn [lookup]. now rewrite (find_child_nodup _ _ _ ND Hin).
    + apply in_deep in H as (x & k & g' & -> & Hin & _ & H). cbn [lookup].
      rewrite (find_child_nodup _ _ _ ND Hin). eapply IH; eauto. eapply wfb_child; eauto.
Qed.

(* the fuel weight of a directory is exactly what its glob results cost *)
Lemma weight_eq pat : forall n,
  weight pat n = list_sum (map (fun gm : path * node => S (weight pat (snd gm))) (glob_rec pat n)).
Proof.
  apply node_ind2; [reflexivity|]. intros ch IH.
  rewrite weight_dir, glob_rec_dir, map_app, list_sum_app.
  set (f := fun gm : path * node => S (weight pat (snd gm))).
  assert (G : forall l, (forall x m, In (x, m) l -> weight pat m = list_sum (map f (glob_rec pat m))) ->
            wsum pat l = (list_sum (map f (direct pat l)) + list_sum (map f (deep pat l)))%nat).
  { induction l as [|[x m] r IHl]; intros H; [reflexivity|].
    cbn [wsum direct deep flat_map fst snd]. rewrite !map_app, !list_sum_app.
    fold (direct pat r). fold (deep pat r). rewrite IHl by (intros; eapply H; right; eauto).
    assert (E : list_sum (map f (if hidden x then [] else map (pref x) (glob_rec pat m))) = if hidden x then O else weight pat m).
    { destruct (hidden x); [reflexivity|]. rewrite map_map. unfold pref, f. cbn [snd]. symmetry. apply (H x m). now left. }
    rewrite E. destruct (visible pat x);
      [change (list_sum (map f [([x], m)])) with (S (weight pat m) + 0)%nat | change (list_sum (map f [])) with O]; unfold path in *; lia. }
  apply G. exact IH.
Qed.

Lemma last_app_ne {A} (l g : list A) d : g <> [] -> last (l ++ g) d = last g d.
Proof.
  intros Hg. induction l as [|a l IH]; [reflexivity|]. cbn [app]. 
  destruct (l ++ g) eqn:E; [destruct l; [contradiction|discriminate]|]. rewrite <- IH. reflexivity.
Qed.

(* membership in the specification's list of sources below a directory *)
Lemma in_src_kids_file x ch : In (x, File) ch -> is_src x = true -> In [x] (src_kids ch).
Proof.
  intros Hin Hs. unfold src_kids. apply in_flat_map. exists (x, File). split; [exact Hin|]. cbn. rewrite Hs. now left.
Qed.
Lemma in_src_kids_dir x ch' g ch : In (x, Dir ch') ch -> In g (src_below (Dir ch')) -> In (x :: g) (src_kids ch).
Proof.
  intros Hin Hg. unfold src_kids. apply in_flat_map. exists (x, Dir ch'). split; [exact Hin|]. cbn [fst snd]. now apply in_map.
Qed.

Lemma lookup_src_below g : forall n, g <> [] -> lookup n g = Some File -> is_src (last g []) = true -> In g (src_below n).
Proof.
  induction g as [|x g IH]; intros n Hne; [contradiction|]. cbn [lookup].
  destruct n as [|ch]; [discriminate|]. destruct (find_child x ch) as [k|] eqn:F; [|discriminate].
  apply find_child_in in F. rewrite src_below_dir. destruct g as [|y g'].
  - cbn [lookup last]. intros E Hs. inversion E; subst. now apply in_src_kids_file.
  - intros L Hs. destruct k as [|ch']; [discriminate|].
    eapply in_src_kids_dir; eauto. apply IH; [discriminate|exact L|exact Hs].
Qed.

(* ================================================================== the work list *)
Section Loop.
  Variable root : node.
  Variable cwd : path.
  Variable check_ignore : item -> Z.

  Notation apath := (apath cwd).
  Notation loop := (loop root cwd).
  Notation kids := (kids root cwd).
  Notation not_dir := (not_dir root cwd).
  Notation pat := glob_dir_last.

  Lemma apath_child it g : apath (child_item it g) = apath it ++ g.
  Proof. unfold Select.apath, child_item. cbn. destruct (i_abs it); [reflexivity|apply app_assoc]. Qed.

  Lemma name_child it g : g <> [] -> item_name (child_item it g) = last g [].
  Proof. intros H. unfold item_name, child_item. cbn. now apply last_app_ne. Qed.

  Lemma kids_eq it n :
    kids it n = filter not_dir (map (fun gm : path * node => child_item it (fst gm)) (glob_rec pat n)).
  Proof. reflexivity. Qed.

  Lemma in_kids it n x : In x (kids it n) -> exists g m, In (g, m) (glob_rec pat n) /\ x = child_item it g /\ not_dir x = true.
  Proof.
    rewrite kids_eq, filter_In. intros [H F]. apply in_map_iff in H as ([g m] & <- & Hin). now exists g, m.
  Qed.

  Lemma cost_filter f q : (cost root cwd (filter f q) <= cost root cwd q)%nat.
  Proof. unfold cost. induction q as [|a q IH]; [apply le_n|]. cbn [filter]. destruct (f a); simpl; lia. Qed.

  Lemma cost_app q1 q2 : cost root cwd (q1 ++ q2) = (cost root cwd q1 + cost root cwd q2)%nat.
  Proof. unfold cost. now rewrite map_app, list_sum_app. Qed.

  Lemma kids_cost it n : wfb n = true -> lookup root (apath it) = Some n ->
    (cost root cwd (kids it n) <= weight pat n)%nat.
  Proof.
    intros W L. rewrite kids_eq. eapply Nat.le_trans; [apply cost_filter|]. apply Nat.eq_le_incl.
    unfold cost. rewrite map_map. rewrite (weight_eq pat n).
    f_equal. apply map_ext_in. intros [g m] Hin. cbn [fst snd]. f_equal.
    unfold item_weight. rewrite apath_child, lookup_app, L. now rewrite (glob_lookup pat n W g m Hin).
  Qed.

  (* the fuel given by `select` is enough: on a tree whose directories list every name once the loop ends *)
  Lemma no_hang : wfb root = true -> forall fuel q files msgs,
    (cost root cwd q < fuel)%nat -> loop fuel q files msgs <> Hang.
  Proof.
    intros W. induction fuel as [|f IH]; intros q files msgs Hc.
    - destruct q; [discriminate|]. exfalso. unfold cost in Hc. cbn in Hc. lia.
    - destruct q as [|it q]; [discriminate|]. cbn [Select.loop].
      assert (Hq : cost root cwd (it :: q) = S (item_weight root cwd it + cost root cwd q)) by reflexivity.
      unfold item_weight in Hq.
      destruct (lookup root (apath it)) as [[|ch]|] eqn:L.
      + destruct (suffix_accepted (item_name it)).
        * apply IH. lia.
        * rewrite render_bad. cbn [bind]. change exit_bad_suffix with (@None Z). cbn iota. apply IH. lia.
      + apply IH. rewrite cost_app.
        assert (K := kids_cost it (Dir ch) (lookup_wf _ _ _ W L) L). lia.
      + rewrite render_missing. discriminate.
  Qed.

  (* ---------------------------------------------------------------- an invariant of the loop *)
  Definition good (f : item) : Prop :=
    lookup root (apath f) = Some File /\ suffix_accepted (item_name f) = true.

  Section Inv.
    Variable P : item -> Prop.
    Hypothesis P_kids : forall it ch g m, P it -> lookup root (apath it) = Some (Dir ch) ->
      In (g, m) (glob_rec pat (Dir ch)) -> P (child_item it g).

    Lemma loop_inv : forall fuel q files msgs fs ms,
      (forall it, In it q -> P it) -> (forall f, In f files -> P f /\ good f) ->
      loop fuel q files msgs = Ok (Selected fs ms) -> forall f, In f fs -> P f /\ good f.
    Proof.
      induction fuel as [|fu IH]; intros q files msgs fs ms Hq Hf.
      - destruct q; [|discriminate]. cbn. intros E f Hin. inversion E; subst. apply Hf. now apply in_rev.
      - destruct q as [|it q].
        + cbn. intros E f Hin. inversion E; subst. apply Hf. now apply in_rev.
        + cbn [Select.loop]. destruct (lookup root (apath it)) as [[|ch]|] eqn:L.
          * destruct (suffix_accepted (item_name it)) eqn:A.
            -- apply IH. { intros; apply Hq; now right. }
               intros f [<-|Hin]; [|now apply Hf]. split; [apply Hq; now left|]. now split.
            -- rewrite render_bad. cbn [bind]. change exit_bad_suffix with (@None Z). cbn iota.
               apply IH; [intros; apply Hq; now right|exact Hf].
          * apply IH; [|exact Hf]. intros x Hx. apply in_app_iff in Hx as [Hx|Hx]; [apply Hq; now right|].
            apply in_kids in Hx as (g & m & Hin & -> & _).
            eapply P_kids; eauto. apply Hq. now left.
          * rewrite render_missing. discriminate.
    Qed.
  End Inv.

  (* "named, or found below a named directory" *)
  Definition under (args : list item) (f : item) : Prop :=
    In f args \/
    exists a g ch, In a args /\ lookup root (apath a) = Some (Dir ch) /\ g <> [] /\
                   apath f = apath a ++ g /\ item_name f = last g [].

  Lemma under_kids args it ch g m : under args it -> lookup root (apath it) = Some (Dir ch) ->
    In (g, m) (glob_rec pat (Dir ch)) -> under args (child_item it g).
  Proof.
    intros U L Hin. assert (Hg : g <> []) by (eapply glob_nonempty; eauto). right.
    destruct U as [Ha|(a & g0 & ch0 & Ha & La & Hg0 & Ep & En)].
    - exists it, g, ch. repeat split; auto. apply apath_child. now apply name_child.
    - exists a, (g0 ++ g), ch0. repeat split; auto.
      + intros E. apply app_eq_nil in E as [_ E]. contradiction.
      + rewrite apath_child, Ep. now rewrite app_assoc.
      + rewrite name_child by exact Hg. symmetry. now apply last_app_ne.
  Qed.

  Lemma under_wanted args f : args <> [] -> under args f -> good f ->
    In (apath f) (wanted_files root cwd args).
  Proof.
    intros Hne U [Lf Af]. apply accepted_is_src in Af.
    unfold wanted_files. replace (eff_args args) with args by (destruct args; [contradiction|reflexivity]).
    apply in_flat_map.
    destruct U as [Ha|(a & g & ch & Ha & La & Hg & Ep & En)].
    - exists f. split; [exact Ha|]. unfold want_of. rewrite Lf, Af. now left.
    - exists a. split; [exact Ha|]. unfold want_of. rewrite La. rewrite Ep. apply in_map.
      apply lookup_src_below; [exact Hg| |now rewrite <- En].
      rewrite Ep, lookup_app, La in Lf. exact Lf.
  Qed.

  Lemma git_filter_sub fs : forall acc ms fs' ms',
    git_filter check_ignore fs acc ms = Ok (Selected fs' ms') ->
    ms' = ms /\ forall f, In f fs' -> In f acc \/ In f fs.
  Proof.
    induction fs as [|x r IH]; intros acc ms fs' ms'; cbn [git_filter].
    - intros E; inversion E; subst. split; [reflexivity|]. intros f Hin. left. now apply in_rev.
    - destruct (String.eqb _ "keep").
      + intros E. destruct (IH _ _ _ _ E) as [-> H]. split; [reflexivity|]. intros f Hin.
        destruct (H f Hin) as [[<-|Ha]|Hr]; cbn; auto.
      + destruct (String.eqb _ "exit").
        * rewrite render_git. discriminate.
        * intros E. destruct (IH _ _ _ _ E) as [-> H]. split; [reflexivity|]. intros f Hin.
          destruct (H f Hin) as [Ha|Hr]; cbn; auto.
  Qed.

  Lemma stack0_under args : forall it, In it (stack0 root cwd args) -> under (eff_args args) it.
  Proof.
    destruct args as [|a args]; [|intros it H; now left].
    cbn [stack0 eff_args]. destruct (lookup root cwd) as [n|] eqn:L; [|intros it []].
    intros it H. change (keep_files root cwd glob_cwd_files_only) with (filter not_dir) in H.
    apply filter_In in H as [H _]. apply in_map_iff in H as ([g m] & <- & Hin). cbn [fst].
    change (glob_items glob_cwd_last glob_cwd_recursive n) with (glob_rec pat n) in Hin.
    assert (Hg : g <> []) by (eapply glob_nonempty; eauto).
    destruct n as [|ch]; [destruct Hin|].
    right. exists dot_item, g, ch. repeat split; auto.
    - now left.
    - unfold Select.apath. cbn. now rewrite app_nil_r.
    - unfold Select.apath. cbn. now rewrite app_nil_r.
  Qed.

  (* the loop part of select, before the gitignore filter *)
  Lemma select_loop_sound args fs ms :
    loop (S (cost root cwd (stack0 root cwd args))) (stack0 root cwd args) [] [] = Ok (Selected fs ms) ->
    forall f, In f fs -> under (eff_args args) f /\ good f.
  Proof.
    intros E. refine (loop_inv (under (eff_args args)) _ _ _ _ _ _ _ _ _ E).
    - intros; eapply under_kids; eauto.
    - apply stack0_under.
    - intros f [].
  Qed.

  Lemma eff_args_ne args : eff_args args <> [].
  Proof. destruct args; discriminate. Qed.
  Lemma wanted_eff args : wanted_files root cwd (eff_args args) = wanted_files root cwd args.
  Proof. destruct args; reflexivity. Qed.

  (* C15, soundness: whatever is checked is a regular file whose name ends in .c or .h and that is named or lies
     below a named directory (below the current directory when there is no argument) - with or without
     --use-gitignore, for every tree and every argument list *)
  Theorem select_sound g args fs ms :
    select root cwd check_ignore g args = Ok (Selected fs ms) ->
    forall f, In f fs ->
      In (apath f) (wanted_files root cwd args) /\
      lookup root (apath f) = Some File /\ is_src (item_name f) = true.
  Proof.
    unfold select.
    destruct (Select.loop root cwd _ _ [] []) as [[fs0 ms0|c ms0]| | |] eqn:E; cbn [bind]; try discriminate.
    - assert (S0 := select_loop_sound args fs0 ms0 E).
      assert (K : forall f, In f fs0 -> In (apath f) (wanted_files root cwd args) /\
                  lookup root (apath f) = Some File /\ is_src (item_name f) = true).
      { intros f Hin. destruct (S0 f Hin) as [U G]. split.
        - rewrite <- wanted_eff. apply under_wanted; auto. apply eff_args_ne.
        - destruct G as [G1 G2]. split; [exact G1|now apply accepted_is_src]. }
      destruct g.
      + intros G f Hin. apply git_filter_sub in G as [_ G]. destruct (G f Hin) as [[]|H]. now apply K.
      + intros G; inversion G; subst. exact K.
  Qed.
End Loop.

Section Loop2.
  Variable root : node.
  Variable cwd : path.
  Variable check_ignore : item -> Z.

  Notation apath := (apath cwd).
  Notation loop := (loop root cwd).
  Notation pat := glob_dir_last.

  (* ---------------------------------------------------------------- a nonexistent path aborts *)
  Lemma loop_missing : forall pre a rest fuel files msgs,
    (forall x, In x pre -> lookup root (apath x) <> None) -> lookup root (apath a) = None ->
    (List.length pre < fuel)%nat ->
    exists ms, loop fuel (pre ++ a :: rest) files msgs = Ok (Exited 1 (ms ++ [missing_msg a])).
  Proof.
    induction pre as [|x pre IH]; intros a rest fuel files msgs Hp La Hf.
    - destruct fuel as [|f]; [cbn in Hf; lia|]. cbn [app Select.loop]. rewrite La, render_missing. cbn [bind].
      exists (rev msgs). reflexivity.
    - destruct fuel as [|f]; [cbn in Hf; lia|]. cbn [app Select.loop].
      assert (Hp' : forall y, In y pre -> lookup root (apath y) <> None) by (intros; apply Hp; now right).
      assert (Hf' : (List.length pre < f)%nat) by (cbn in Hf; lia).
      destruct (lookup root (apath x)) as [[|ch]|] eqn:L.
      + destruct (suffix_accepted (item_name x)).
        * now apply IH.
        * rewrite render_bad. cbn [bind]. change exit_bad_suffix with (@None Z). cbn iota. now apply IH.
      + rewrite <- app_assoc. cbn [app]. now apply IH.
      + exfalso. apply (Hp x); [now left|exact L].
  Qed.

  Lemma first_missing (args : list item) a : In a args -> lookup root (apath a) = None ->
    exists pre b rest, args = pre ++ b :: rest /\ (forall x, In x pre -> lookup root (apath x) <> None) /\
                       lookup root (apath b) = None.
  Proof.
    induction args as [|x r IH]; [intros []|]. intros Hin La.
    destruct (lookup root (apath x)) eqn:L.
    - destruct Hin as [->|Hin]; [congruence|]. destruct (IH Hin La) as (pre & b & rest & -> & Hp & Lb).
      exists (x :: pre), b, rest. split; [reflexivity|split; [|exact Lb]]. intros y [<-|Hy]; [congruence|auto].
    - exists [], x, r. split; [reflexivity|split; [|exact L]]. intros y [].
  Qed.

  Lemma cost_ge_len q : (List.length q <= cost root cwd q)%nat.
  Proof. unfold cost. induction q; simpl; lia. Qed.

  (* C15: a nonexistent path aborts the run with status 1 and names the (first) missing path; nothing is checked *)
  Theorem missing_aborts g args a : In a args -> lookup root (apath a) = None ->
    exists b ms, select root cwd check_ignore g args = Ok (Exited 1 (ms ++ [missing_msg b])) /\
                 In b args /\ lookup root (apath b) = None.
  Proof.
    intros Hin La. destruct (first_missing args a Hin La) as (pre & b & rest & E & Hp & Lb). subst args.
    assert (S0 : stack0 root cwd (pre ++ b :: rest) = pre ++ b :: rest) by (destruct pre; reflexivity).
    unfold select. rewrite S0.
    destruct (loop_missing pre b rest (S (cost root cwd (pre ++ b :: rest))) [] [] Hp Lb) as [ms Hm].
    { assert (H := cost_ge_len (pre ++ b :: rest)). rewrite app_length in H. simpl in H. lia. }
    exists b, ms. rewrite Hm. cbn [bind]. split; [reflexivity|]. split; [|exact Lb]. apply in_app_iff. right. now left.
  Qed.

  (* ---------------------------------------------------------------- a named file with another suffix *)
  Lemma loop_msgs : forall fuel q files msgs fs ms,
    loop fuel q files msgs = Ok (Selected fs ms) ->
    (forall m, In m msgs -> In m ms) /\
    (forall it, In it q -> lookup root (apath it) = Some File -> suffix_accepted (item_name it) = false ->
                In (bad_suffix_msg it) ms).
  Proof.
    induction fuel as [|fu IH]; intros q files msgs fs ms.
    - destruct q; [|discriminate]. cbn. intros E; inversion E; subst. split; [intros m H; now apply in_rev in H|intros it []].
    - destruct q as [|it q].
      + cbn. intros E; inversion E; subst. split; [intros m H; now apply in_rev in H|intros x []].
      + cbn [Select.loop]. destruct (lookup root (apath it)) as [[|ch]|] eqn:L.
        * destruct (suffix_accepted (item_name it)) eqn:A.
          -- intros E. destruct (IH _ _ _ _ _ E) as [M B]. split; [exact M|].
             intros x [<-|Hx] Lx Ax; [congruence|auto].
          -- rewrite render_bad. cbn [bind]. change exit_bad_suffix with (@None Z). cbn iota.
             intros E. destruct (IH _ _ _ _ _ E) as [M B]. split; [intros m Hm; apply M; now right|].
             intros x [<-|Hx] Lx Ax; [apply M; now left|auto].
        * intros E. destruct (IH _ _ _ _ _ E) as [M B]. split; [exact M|].
          intros x [<-|Hx] Lx Ax; [congruence|]. apply B; auto. apply in_app_iff. now left.
        * rewrite render_missing. discriminate.
  Qed.

  (* C15: a named regular file whose name does not end in .c/.h is rejected with the message and not checked *)
  Theorem bad_suffix_message g args fs ms a :
    select root cwd check_ignore g args = Ok (Selected fs ms) ->
    In a args -> lookup root (apath a) = Some File -> is_src (item_name a) = false ->
    In (bad_suffix_msg a) ms /\ ~ In a fs.
  Proof.
    intros E Hin La Hs. split.
    - assert (A : suffix_accepted (item_name a) = false).
      { destruct (suffix_accepted (item_name a)) eqn:A; [|reflexivity]. apply accepted_is_src in A. congruence. }
      assert (S0 : stack0 root cwd args = args) by (destruct args; [destruct Hin|reflexivity]).
      unfold select in E. rewrite S0 in E.
      destruct (Select.loop root cwd _ _ [] []) as [[fs0 ms0|c ms0]| | |] eqn:EL; cbn [bind] in E; try discriminate.
      destruct (loop_msgs _ _ _ _ _ _ EL) as [_ B].
      assert (In (bad_suffix_msg a) ms0) by (apply B; auto).
      destruct g.
      + apply git_filter_sub in E as [-> _]. assumption.
      + inversion E; subst. assumption.
    - intros Hf. destruct (select_sound root cwd check_ignore g args fs ms E a Hf) as (_ & _ & S1). congruence.
  Qed.

  (* ---------------------------------------------------------------- --use-gitignore, relative to the oracle *)
  Lemma git_filter_01 fs : forall acc ms,
    (forall f, In f fs -> check_ignore f = 0 \/ check_ignore f = 1) ->
    git_filter check_ignore fs acc ms = Ok (Selected (rev acc ++ filter (fun f => Z.eqb (check_ignore f) 1) fs) ms).
  Proof.
    induction fs as [|x r IH]; intros acc ms H; cbn [git_filter filter].
    - now rewrite app_nil_r.
    - assert (Hr : forall f, In f r -> check_ignore f = 0 \/ check_ignore f = 1) by (intros; apply H; now right).
      destruct (H x (or_introl eq_refl)) as [E|E]; rewrite E; cbn.
      + now apply IH.
      + rewrite IH by exact Hr. cbn [rev]. now rewrite <- app_assoc.
  Qed.

  (* C15: with --use-gitignore exactly the files for which `git check-ignore` answers 0 (ignored) are left out *)
  Theorem gitignore_filters args fs ms :
    select root cwd check_ignore false args = Ok (Selected fs ms) ->
    (forall f, In f fs -> check_ignore f = 0 \/ check_ignore f = 1) ->
    select root cwd check_ignore true args = Ok (Selected (filter (fun f => Z.eqb (check_ignore f) 1) fs) ms) /\
    forall f, In f (filter (fun f => Z.eqb (check_ignore f) 1) fs) <-> In f fs /\ check_ignore f <> 0.
  Proof.
    unfold select.
    destruct (Select.loop root cwd _ _ [] []) as [[fs0 ms0|c ms0]| | |]; cbn [bind]; try discriminate.
    intros E H. inversion E; subst. split.
    - now rewrite git_filter_01.
    - intros f. rewrite filter_In. split; intros [H1 H2]; (split; [exact H1|]).
      + apply Z.eqb_eq in H2. lia.
      + destruct (H f H1) as [E0|E1]; [contradiction|]. now rewrite E1.
  Qed.

  (* what the code does when git itself fails (status 128: not a repository, path outside it): message, exit status 0 *)
  Theorem git_fatal_exits_zero args pre f rest ms :
    select root cwd check_ignore false args = Ok (Selected (pre ++ f :: rest) ms) ->
    (forall x, In x pre -> check_ignore x = 0 \/ check_ignore x = 1) -> check_ignore f = 128 ->
    select root cwd check_ignore true args = Ok (Exited 0 (ms ++ [git_fatal_msg f])).
  Proof.
    unfold select.
    destruct (Select.loop root cwd _ _ [] []) as [[fs0 ms0|c ms0]| | |]; cbn [bind]; try discriminate.
    intros E H F. inversion E; subst. clear E.
    generalize (@nil item). induction pre as [|x pre IH]; intros acc; cbn [app git_filter].
    - rewrite F. unfold git_fatal_msg. cbn. rewrite ?app_nil_r. reflexivity.
    - destruct (H x (or_introl eq_refl)) as [E|E]; rewrite E; cbn; apply IH; intros; apply H; now right.
  Qed.

  (* ---------------------------------------------------------------- completeness under the guard *)
  Lemma cleanb_child ch x m : cleanb (Dir ch) = true -> In (x, m) ch -> hidden x = false /\ cleanb m = true.
  Proof.
    rewrite cleanb_dir, forallb_forall. intros H Hin. specialize (H _ Hin). cbn [fst snd] in H.
    apply andb_prop in H as [H1 H2]. split; [now destruct (hidden x)|exact H2].
  Qed.

  Lemma glob_clean : forall n, cleanb n = true -> forall g m, In (g, m) (glob_rec pat n) ->
    hidden (last g []) = false /\ is_src (last g []) = true.
  Proof.
    apply (node_ind2 (fun n => cleanb n = true -> forall g m, In (g, m) (glob_rec pat n) ->
                               hidden (last g []) = false /\ is_src (last g []) = true)).
    - intros _ g m [].
    - intros ch IH C g m. rewrite glob_rec_dir, in_app_iff. intros [H|H].
      + apply in_direct in H as (x & -> & Hin & V). rewrite visible_spec in V. apply andb_prop in V as [V1 V2].
        destruct (cleanb_child ch x m C Hin) as (Hh & _). cbn [last]. auto.
      + apply in_deep in H as (x & k & g' & -> & Hin & _ & H).
        destruct (cleanb_child ch x k C Hin) as (_ & Ck).
        assert (Hg : g' <> []) by (eapply glob_nonempty; eauto).
        replace (last (x :: g') []) with (last g' []) by (destruct g'; [contradiction|reflexivity]).
        eapply IH; eauto.
  Qed.

  (* the glob results that survive `not os.path.isdir` *)
  Definition isfile (gm : path * node) : bool := match snd gm with File => true | Dir _ => false end.

  Lemma filter_pref x l : filter isfile (map (pref x) l) = map (pref x) (filter isfile l).
  Proof.
    induction l as [|gm l IH]; [reflexivity|]. cbn [map filter].
    change (isfile (pref x gm)) with (isfile gm). destruct (isfile gm); cbn [map]; now rewrite IH.
  Qed.

  (* without dot-names the files glob finds are exactly the sources below the directory (in another order) *)
  Lemma glob_perm : forall n, cleanb n = true ->
    Permutation (map fst (filter isfile (glob_rec pat n))) (src_below n).
  Proof.
    apply (node_ind2 (fun n => cleanb n = true -> Permutation (map fst (filter isfile (glob_rec pat n))) (src_below n))).
    - intros _. apply perm_nil.
    - intros ch IH C. rewrite glob_rec_dir, src_below_dir, filter_app, map_app.
      assert (G : forall l, (forall x m, In (x, m) l -> In (x, m) ch) ->
                Permutation (map fst (filter isfile (direct pat l)) ++ map fst (filter isfile (deep pat l))) (src_kids l)).
      { induction l as [|[x m] r IHl]; intros Hsub; [apply perm_nil|].
        cbn [direct deep src_kids flat_map fst snd]. fold (direct pat r). fold (deep pat r). fold (src_kids r).
        rewrite !filter_app, !map_app.
        assert (Hin : In (x, m) ch) by (apply Hsub; now left).
        destruct (cleanb_child ch x m C Hin) as (Hh & Cm).
        assert (IHr : Permutation (map fst (filter isfile (direct pat r)) ++ map fst (filter isfile (deep pat r))) (src_kids r))
          by (apply IHl; intros; apply Hsub; now right).
        rewrite Hh, visible_spec, Hh. cbn [negb andb].
        destruct m as [|ch'].
        - cbn [glob_rec map filter app]. destruct (is_src x); cbn [map filter isfile snd fst app]; [now apply perm_skip|exact IHr].
        - destruct (is_src x); cbn [filter isfile snd map app]; rewrite filter_pref, map_map;
            (replace (map (fun gm : path * node => fst (pref x gm)) (filter isfile (glob_rec pat (Dir ch'))))
               with (map (cons x) (map fst (filter isfile (glob_rec pat (Dir ch'))))) by (rewrite map_map; reflexivity));
            (eapply perm_trans; [apply Permutation_app_swap_app|]);
            (apply Permutation_app; [|exact IHr]); apply Permutation_map; eapply IH; eauto. }
      apply G. auto.
  Qed.

  Lemma filter_map_swap {A B} (p : B -> bool) (q : A -> bool) (f : A -> B) l :
    (forall a, In a l -> p (f a) = q a) -> filter p (map f l) = map f (filter q l).
  Proof.
    induction l as [|a l IH]; intros H; [reflexivity|]. cbn [map filter].
    rewrite (H a (or_introl eq_refl)), IH by (intros; apply H; now right). now destruct (q a).
  Qed.

  (* on a tree whose directories list a name once, `not os.path.isdir(result)` keeps exactly the listed regular files *)
  Lemma kids_files it n : wfb n = true -> lookup root (apath it) = Some n ->
    kids root cwd it n = map (fun gm : path * node => child_item it (fst gm)) (filter isfile (glob_rec pat n)).
  Proof.
    intros W L. rewrite kids_eq. apply filter_map_swap. intros [g m] Hin. cbn [fst].
    unfold not_dir, isfile. rewrite apath_child, lookup_app, L, (glob_lookup pat n W g m Hin). now destruct m.
  Qed.

  Lemma stack0_files n : wfb n = true -> lookup root cwd = Some n ->
    stack0 root cwd [] = map (fun gm : path * node => rel_item (fst gm)) (filter isfile (glob_rec pat n)).
  Proof.
    intros W L. cbn [stack0]. rewrite L.
    change (keep_files root cwd glob_cwd_files_only) with (filter (not_dir root cwd)).
    change (glob_items glob_cwd_last glob_cwd_recursive n) with (glob_rec pat n).
    apply filter_map_swap. intros [g m] Hin. cbn [fst].
    unfold not_dir, isfile, Select.apath. cbn [rel_item i_abs i_comps snd].
    rewrite lookup_app, L, (glob_lookup pat n W g m Hin). now destruct m.
  Qed.

  Definition is_named (a : item) : bool :=
    match lookup root (apath a) with Some File => suffix_accepted (item_name a) | _ => false end.
  Definition is_reject (a : item) : bool :=
    match lookup root (apath a) with Some File => negb (suffix_accepted (item_name a)) | _ => false end.
  Definition dirkids (args : list item) : list item :=
    flat_map (fun a => match lookup root (apath a) with Some (Dir ch) => kids root cwd a (Dir ch) | _ => [] end) args.

  (* the guard of the partial theorem, per argument: below a named directory no name starts with '.';
     a named file's own name does not start with '.' *)
  Definition guarded (a : item) : bool :=
    match lookup root (apath a) with
    | Some File => negb (hidden (item_name a))
    | Some (Dir ch) => cleanb (Dir ch)
    | None => true
    end.

  Lemma good_of_glob p n it g : wfb n = true -> cleanb n = true -> lookup root p = Some n ->
    In (g, File) (glob_rec pat n) -> apath it = p ++ g -> item_name it = last g [] -> good root cwd it.
  Proof.
    intros W C L Hin Ep En. destruct (glob_clean n C g File Hin) as (Hh & Hs). split.
    - rewrite Ep, lookup_app, L. exact (glob_lookup pat n W g File Hin).
    - rewrite En. now apply src_accepted.
  Qed.

  Lemma in_filter_isfile g m l : In (g, m) (filter isfile l) -> m = File /\ In (g, m) l.
  Proof. rewrite filter_In. unfold isfile. cbn [snd]. intros [H F]. destruct m; [now split|discriminate]. Qed.

  Lemma loop_guarded : wfb root = true -> forall fuel args pend files msgs,
    (forall p, In p pend -> good root cwd p) ->
    (forall a, In a args -> lookup root (apath a) <> None /\ guarded a = true) ->
    loop fuel (args ++ pend) files msgs = Hang \/
    loop fuel (args ++ pend) files msgs =
      Ok (Selected (rev files ++ filter is_named args ++ pend ++ dirkids args)
                   (rev msgs ++ map bad_suffix_msg (filter is_reject args))).
  Proof.
    intros W. induction fuel as [|fu IH]; intros args pend files msgs Hp Ha.
    - destruct args as [|a args]; [destruct pend as [|p pend]|]; cbn; auto.
      right. now rewrite !app_nil_r.
    - destruct args as [|a args].
      + destruct pend as [|p pend]; cbn [app].
        * right. cbn. now rewrite !app_nil_r.
        * cbn [Select.loop]. destruct (Hp p (or_introl eq_refl)) as [Lp Ap]. rewrite Lp, Ap.
          destruct (IH [] pend (p :: files) msgs) as [H|H]; [intros; apply Hp; now right|intros ? []|now left|].
          right. cbn [app] in H. rewrite H. cbn [rev filter dirkids flat_map map app]. now rewrite <- app_assoc.
      + cbn [app Select.loop]. destruct (Ha a (or_introl eq_refl)) as [Le Ga].
        assert (Ha' : forall x, In x args -> lookup root (apath x) <> None /\ guarded x = true) by (intros; apply Ha; now right).
        unfold guarded in Ga. cbn [filter dirkids flat_map]. unfold is_named at 1, is_reject at 1.
        destruct (lookup root (apath a)) as [[|ch]|] eqn:L; [| |contradiction].
        * destruct (suffix_accepted (item_name a)) eqn:A; cbn [negb].
          -- destruct (IH args pend (a :: files) msgs Hp Ha') as [H|H]; [now left|right].
             rewrite H. cbn [rev app]. now rewrite <- app_assoc.
          -- rewrite render_bad. cbn [bind]. change exit_bad_suffix with (@None Z). cbn iota.
             destruct (IH args pend files (bad_suffix_msg a :: msgs) Hp Ha') as [H|H]; [now left|right].
             rewrite H. cbn [rev map app]. now rewrite <- app_assoc.
        * rewrite <- app_assoc.
          assert (Wd : wfb (Dir ch) = true) by (eapply lookup_wf; eauto).
          destruct (IH args (pend ++ kids root cwd a (Dir ch)) files msgs) as [H|H]; [|exact Ha'|now left|].
          { intros p Hin. apply in_app_iff in Hin as [Hin|Hin]; [now apply Hp|].
            rewrite (kids_files a (Dir ch) Wd L) in Hin. apply in_map_iff in Hin as ([g m] & <- & Hin). cbn [fst].
            apply in_filter_isfile in Hin as [-> Hin].
            assert (Hg : g <> []) by (eapply glob_nonempty; eauto).
            eapply (good_of_glob (apath a) (Dir ch)); eauto.
            - apply apath_child.
            - now apply name_child. }
          right. rewrite H. fold (dirkids args). now rewrite <- !app_assoc.
  Qed.

  Lemma perm_args args : wfb root = true ->
    (forall a, In a args -> lookup root (apath a) <> None /\ guarded a = true) ->
    Permutation (map apath (filter is_named args ++ dirkids args))
                (flat_map (fun a => match want_of root cwd a with WFiles ps => ps | _ => [] end) args) /\
    filter is_reject args = filter (fun a => match want_of root cwd a with WReject _ => true | _ => false end) args.
  Proof.
    intros W. induction args as [|a args IH]; intros Ha; [split; [apply perm_nil|reflexivity]|].
    destruct (Ha a (or_introl eq_refl)) as [Le Ga].
    destruct IH as [IH1 IH2]; [intros; apply Ha; now right|].
    cbn [filter dirkids flat_map]. fold (dirkids args). unfold is_named at 1, is_reject at 1, want_of at 1 3.
    unfold guarded in Ga.
    destruct (lookup root (apath a)) as [[|ch]|] eqn:L; [| |contradiction].
    - apply negb_true_iff in Ga.
      destruct (suffix_accepted (item_name a)) eqn:A; cbn [negb].
      + rewrite (accepted_is_src _ A). split; [|exact IH2]. cbn [app map]. now apply perm_skip.
      + assert (Hs : is_src (item_name a) = false).
        { destruct (is_src (item_name a)) eqn:Hs; [|reflexivity]. rewrite (src_accepted _ Ga Hs) in A. discriminate. }
        rewrite Hs. cbn [app]. split; [exact IH1|now rewrite IH2].
    - split; [|exact IH2]. rewrite map_app in *. rewrite map_app.
      eapply perm_trans; [apply Permutation_app_swap_app|].
      apply Permutation_app; [|exact IH1].
      rewrite (kids_files a (Dir ch) (lookup_wf _ _ _ W L) L), map_map.
      replace (map (fun gm : path * node => apath (child_item a (fst gm))) (filter isfile (glob_rec pat (Dir ch))))
        with (map (app (apath a)) (map fst (filter isfile (glob_rec pat (Dir ch))))).
      2:{ rewrite map_map. apply map_ext. intros gm. now rewrite apath_child. }
      apply Permutation_map. now apply glob_perm.
  Qed.

  (* C15, completeness - PARTIAL: stated for trees in which every directory lists a name once, the current directory is a
     directory, and - the guard that excludes exactly the remaining known finding - below every named directory no name
     starts with '.' (and a named file's own name does not start with '.').  Directories named *.c / *.h are covered.
     Then, if no argument is missing, the selection ends normally, the checked files are a permutation of the wanted ones
     (so: each once per mention), and the messages are exactly those of the rejected arguments, in order. *)
  Theorem select_complete_partial args :
    wfb root = true -> (exists ch, lookup root cwd = Some (Dir ch)) ->
    (forall a, In a (eff_args args) -> guarded a = true) ->
    wanted_abort root cwd args = false ->
    exists fs ms, select root cwd check_ignore false args = Ok (Selected fs ms) /\
                  Permutation (map apath fs) (wanted_files root cwd args) /\
                  ms = map bad_suffix_msg (wanted_rejects root cwd args).
  Proof.
    intros W [chc Lc] G Hab.
    assert (Ha : forall a, In a (eff_args args) -> lookup root (apath a) <> None /\ guarded a = true).
    { intros a Hin. split; [|now apply G]. intros E. unfold wanted_abort in Hab.
      assert (X : existsb (fun a => match want_of root cwd a with WMissing => true | _ => false end) (eff_args args) = true).
      { apply existsb_exists. exists a. split; [exact Hin|]. unfold want_of. now rewrite E. }
      congruence. }
    unfold select, wanted_files, wanted_rejects.
    destruct args as [|a0 args].
    - (* no argument: the current directory *)
      assert (Wc : wfb (Dir chc) = true) by (eapply lookup_wf; eauto).
      rewrite (stack0_files (Dir chc) Wc Lc). cbn [eff_args] in *.
      set (q := map (fun gm : path * node => rel_item (fst gm)) (filter isfile (glob_rec pat (Dir chc)))).
      assert (Ld : lookup root (apath dot_item) = Some (Dir chc)) by (unfold Select.apath; cbn; now rewrite app_nil_r).
      assert (Cd : cleanb (Dir chc) = true).
      { specialize (G dot_item (or_introl eq_refl)). unfold guarded in G. now rewrite Ld in G. }
      assert (Hq : forall p, In p q -> good root cwd p).
      { intros p Hin. apply in_map_iff in Hin as ([g m] & <- & Hin). cbn [fst].
        apply in_filter_isfile in Hin as [-> Hin].
        eapply (good_of_glob cwd (Dir chc)); eauto. }
      destruct (loop_guarded W (S (cost root cwd q)) [] q [] [] Hq) as [H|H]; [intros ? []| |].
      + exfalso. revert H. apply (no_hang root cwd W). apply Nat.lt_succ_diag_r.
      + cbn [app] in H. rewrite H. cbn [bind rev filter dirkids flat_map map app]. rewrite app_nil_r.
        exists q, []. split; [reflexivity|]. split.
        * unfold want_of. rewrite Ld. cbn [flat_map]. rewrite app_nil_r.
          unfold q. rewrite map_map.
          replace (map (fun gm : path * node => apath (rel_item (fst gm))) (filter isfile (glob_rec pat (Dir chc))))
            with (map (app (apath dot_item)) (map fst (filter isfile (glob_rec pat (Dir chc))))).
          2:{ rewrite map_map. apply map_ext. intros gm. unfold Select.apath. cbn. now rewrite app_nil_r. }
          apply Permutation_map. now apply glob_perm.
        * unfold want_of. cbn [filter]. now rewrite Ld.
    - cbn [stack0 eff_args] in *.
      destruct (loop_guarded W (S (cost root cwd (a0 :: args))) (a0 :: args) [] [] [] (fun p (H : In p []) => match H with end) Ha) as [H|H].
      + exfalso. rewrite app_nil_r in H. revert H. apply (no_hang root cwd W). apply Nat.lt_succ_diag_r.
      + rewrite app_nil_r in H. rewrite H. cbn [bind rev app].
        destruct (perm_args (a0 :: args) W Ha) as [P1 P2].
        eexists _, _. split; [reflexivity|]. split; [exact P1|]. now rewrite P2.
  Qed.
End Loop2.

(* ================================================================== termination, no argument = current directory *)
Section Loop3.
  Variable root : node.
  Variable cwd : path.
  Variable check_ignore : item -> Z.

  Notation apath := (apath cwd).
  Notation loop := (loop root cwd).
  Notation pat := glob_dir_last.

  Lemma git_filter_no_hang fs : forall acc ms, git_filter check_ignore fs acc ms <> Hang.
  Proof.
    induction fs as [|x r IH]; intros acc ms; cbn [git_filter]; [discriminate|].
    destruct (String.eqb _ "keep"); [apply IH|]. destruct (String.eqb _ "exit"); [|apply IH].
    rewrite render_git. discriminate.
  Qed.

  (* the selection always ends (the fuel of the model is never exhausted) on trees whose directories list a name once *)
  Theorem select_terminates g args : wfb root = true -> select root cwd check_ignore g args <> Hang.
  Proof.
    intros W. unfold select.
    assert (H := no_hang root cwd W (S (cost root cwd (stack0 root cwd args))) (stack0 root cwd args) [] []
                   (Nat.lt_succ_diag_r _)).
    destruct (Select.loop root cwd _ _ [] []) as [[fs ms|c ms]| | |]; cbn [bind]; try discriminate; try contradiction.
    destruct g; [apply git_filter_no_hang|discriminate].
  Qed.

  Lemma loop_fuel_mono : forall f q files msgs, loop f q files msgs <> Hang ->
    forall f', (f <= f')%nat -> loop f' q files msgs = loop f q files msgs.
  Proof.
    induction f as [|f IH]; intros q files msgs H f' Hle.
    - destruct q; [destruct f'; reflexivity|]. now contradiction H.
    - destruct f' as [|f']; [lia|]. destruct q as [|it q]; [reflexivity|].
      cbn [Select.loop] in *. destruct (lookup root (apath it)) as [[|ch]|]; [| |reflexivity].
      + destruct (suffix_accepted (item_name it)); [apply IH; [exact H|lia]|].
        rewrite render_bad in *. cbn [bind] in *. change exit_bad_suffix with (@None Z) in *. cbn iota in *.
        apply IH; [exact H|lia].
      + apply IH; [exact H|lia].
  Qed.

  (* two work-list entries that denote the same path (they may be spelled differently) *)
  Definition same_path (a b : item) : Prop := i_abs a = i_abs b /\ i_comps a = i_comps b.
  Definition res_equiv (r r' : outcome sel_result) : Prop :=
    match r, r' with
    | Ok (Selected fs ms), Ok (Selected fs' ms') => Forall2 same_path fs fs' /\ ms = ms'
    | Ok (Exited c ms), Ok (Exited c' ms') => c = c' /\ ms = ms'
    | Hang, Hang => True
    | _, _ => False
    end.

  Lemma Forall2_rev' {A} (R : A -> A -> Prop) l l' : Forall2 R l l' -> Forall2 R (rev l) (rev l').
  Proof. induction 1; cbn; [constructor|]. apply Forall2_app; [assumption|]. now constructor. Qed.

  Lemma not_dir_same a b : same_path a b -> not_dir root cwd a = not_dir root cwd b.
  Proof. intros [E1 E2]. unfold not_dir, Select.apath. now rewrite E1, E2. Qed.

  Lemma Forall2_filter_same l l' : Forall2 same_path l l' ->
    Forall2 same_path (filter (not_dir root cwd) l) (filter (not_dir root cwd) l').
  Proof.
    induction 1 as [|a b l l' Hab H IH]; [constructor|]. cbn [filter]. rewrite (not_dir_same a b Hab).
    destruct (not_dir root cwd b); [now constructor|exact IH].
  Qed.

  Lemma same_kids a b n : same_path a b -> Forall2 same_path (kids root cwd a n) (kids root cwd b n).
  Proof.
    intros [E1 E2]. rewrite !kids_eq. apply Forall2_filter_same.
    induction (glob_rec pat n) as [|gm l IH]; cbn [map]; constructor; [|exact IH].
    unfold same_path, child_item. cbn. now rewrite E2.
  Qed.

  Lemma loop_erase : forall fuel q q' files files' msgs,
    Forall2 same_path q q' -> Forall2 same_path files files' ->
    res_equiv (loop fuel q files msgs) (loop fuel q' files' msgs).
  Proof.
    induction fuel as [|fu IH]; intros q q' files files' msgs Hq Hf.
    - destruct Hq; cbn; [|exact I]. split; [now apply Forall2_rev'|reflexivity].
    - destruct Hq as [|a b q q' Hab Hq]; cbn [Select.loop res_equiv].
      + split; [now apply Forall2_rev'|reflexivity].
      + assert (Ea : apath a = apath b) by (destruct Hab as [E1 E2]; unfold Select.apath; now rewrite E1, E2).
        assert (En : item_name a = item_name b) by (destruct Hab as [E1 E2]; unfold item_name; now rewrite E2).
        assert (Er : render a = render b) by (destruct Hab as [E1 E2]; unfold render; now rewrite E1, E2).
        rewrite <- Ea, <- En. destruct (lookup root (apath a)) as [[|ch]|].
        * destruct (suffix_accepted (item_name a)).
          -- apply IH; [exact Hq|now constructor].
          -- rewrite !render_bad. cbn [bind]. change exit_bad_suffix with (@None Z). cbn iota.
             unfold bad_suffix_msg. rewrite <- En. now apply IH.
        * apply IH; [|exact Hf]. apply Forall2_app; [exact Hq|now apply same_kids].
        * rewrite !render_missing. unfold missing_msg. rewrite <- Er. cbn. split; reflexivity.
  Qed.

  Lemma stack0_dot ch : lookup root cwd = Some (Dir ch) ->
    Forall2 same_path (stack0 root cwd []) (kids root cwd dot_item (Dir ch)).
  Proof.
    intros L. cbn [stack0]. rewrite L, kids_eq.
    change (keep_files root cwd glob_cwd_files_only) with (filter (not_dir root cwd)).
    change (glob_items glob_cwd_last glob_cwd_recursive (Dir ch)) with (glob_rec pat (Dir ch)).
    apply Forall2_filter_same.
    induction (glob_rec pat (Dir ch)) as [|gm l IH]; cbn [map]; constructor; [|exact IH].
    split; reflexivity.
  Qed.

  (* C15: with no argument the current directory tree is used - for every tree: running without arguments selects the
     same paths, prints the same messages and ends the same way as running with the single argument "." *)
  Theorem no_args_is_cwd_tree : wfb root = true -> (exists ch, lookup root cwd = Some (Dir ch)) ->
    res_equiv (select root cwd check_ignore false []) (select root cwd check_ignore false [dot_item]).
  Proof.
    intros W [ch L]. unfold select.
    set (q0 := stack0 root cwd []). cbn [stack0].
    set (c1 := S (cost root cwd q0)). set (c2 := cost root cwd [dot_item]).
    assert (Ld : lookup root (apath dot_item) = Some (Dir ch)) by (unfold Select.apath; cbn; now rewrite app_nil_r).
    assert (HA : loop c1 q0 [] [] <> Hang) by (apply (no_hang root cwd W); apply Nat.lt_succ_diag_r).
    assert (HB : loop (S c2) [dot_item] [] [] <> Hang) by (apply (no_hang root cwd W); apply Nat.lt_succ_diag_r).
    set (F := Nat.max c1 c2).
    assert (EA : loop F q0 [] [] = loop c1 q0 [] []) by (apply loop_fuel_mono; [exact HA|apply Nat.le_max_l]).
    assert (EB : loop (S F) [dot_item] [] [] = loop (S c2) [dot_item] [] [])
      by (apply loop_fuel_mono; [exact HB|apply le_n_S, Nat.le_max_r]).
    assert (X : res_equiv (loop F q0 [] []) (loop (S F) [dot_item] [] [])).
    { cbn [Select.loop]. rewrite Ld. cbn [app]. apply loop_erase; [now apply stack0_dot|constructor]. }
    rewrite EA, EB in X. clear EA EB.
    destruct (loop c1 q0 [] []) as [[fs ms|c ms]| | |], (loop (S c2) [dot_item] [] []) as [[fs' ms'|c' ms']| | |];
      cbn [bind]; cbn in X; try contradiction; exact X.
  Qed.
End Loop3.

(* ================================================================== the known findings, as refutations *)
Definition A_ (x : string) : item := mkitem (s x) false [s x].
Definition always_kept (_ : item) : Z := 1.

(* C15-dir-named-like-source (repaired): `d/lib.c/x.c` with argument d is wanted once and checked once; directories named
   like sources, nested, are inside the guard of select_complete_partial *)
Definition tree_lib : node :=
  Dir [(s "d", Dir [(s "lib.c", Dir [(s "x.c", File); (s "inc.h", Dir [(s "y.h", File)])]); (s "z.c", File)])].
Theorem dir_named_like_source_once :
  exists fs ms,
    wfb tree_lib = true /\ guarded tree_lib [] (A_ "d") = true /\
    select tree_lib [] always_kept false [A_ "d"] = Ok (Selected fs ms) /\
    map (apath []) fs = [[s "d"; s "z.c"]; [s "d"; s "lib.c"; s "x.c"]; [s "d"; s "lib.c"; s "inc.h"; s "y.h"]] /\
    Permutation (map (apath []) fs) (wanted_files tree_lib [] [A_ "d"]) /\
    select tree_lib [s "d"] always_kept false [] = Ok (Selected (map (fun f => mkitem (skipn 2 (i_raw f)) false (tl (i_comps f))) fs) ms).
Proof.
  eexists _, _. split; [reflexivity|]. split; [reflexivity|]. split; [vm_compute; reflexivity|].
  split; [reflexivity|]. split; [|vm_compute; reflexivity].
  vm_compute. apply perm_trans with (l' := [[s "d"; s "lib.c"; s "x.c"]; [s "d"; s "z.c"]; [s "d"; s "lib.c"; s "inc.h"; s "y.h"]]).
  - apply perm_swap.
  - apply perm_skip. apply perm_swap.
Qed.

(* C15-dot-names-skipped: `d/.hid/h.c` and `d/.x.c` with argument d: wanted, not checked *)
Definition tree_dot : node := Dir [(s "d", Dir [(s ".hid", Dir [(s "h.c", File)]); (s ".x.c", File)])].
Theorem dot_names_skipped_refuted :
  exists root cwd args ms,
    wfb root = true /\ select root cwd always_kept false args = Ok (Selected [] ms) /\
    wanted_files root cwd args = [[s "d"; s ".hid"; s "h.c"]; [s "d"; s ".x.c"]].
Proof.
  exists tree_dot, [], [A_ "d"]. eexists. split; [reflexivity|]. split; vm_compute; reflexivity.
Qed.

(* the same family: a file named exactly `.c`, given as argument, is rejected although its name ends in .c *)
Theorem dot_c_argument_refuted :
  exists root cwd a ms,
    select root cwd always_kept false [a] = Ok (Selected [] ms) /\ wanted_files root cwd [a] = [apath cwd a] /\
    ms = [s "Error: '.c' is not valid C or C header file"].
Proof.
  exists (Dir [(s ".c", File)]), [], (A_ ".c"). eexists. split; [vm_compute; reflexivity|]. split; vm_compute; reflexivity.
Qed.

(* ================================================================== non-vacuity *)
Definition tree_ex : node :=
  Dir [(s "tmp", Dir [(s "w", Dir [
      (s "src", Dir [(s "a.c", File); (s "b b.h", File); (s "n.cc", File); (s "x.c.bak", File); (s "empty", Dir []);
                     (s "deep", Dir [(s "k.v2.c", File); (s "README", File)])]);
      (s "main.c", File); (s "notes.txt", File)])])].
Definition cwd_ex : path := [s "tmp"; s "w"].
Definition args_ex : list item :=
  [A_ "main.c"; A_ "src"; A_ "notes.txt"; A_ "main.c"; mkitem (s "/tmp/w/src/deep") true [s "tmp"; s "w"; s "src"; s "deep"]].

(* the hypotheses of select_complete_partial hold for it, and its conclusion is not trivial: 5 files, one message *)
Example complete_nonvacuous :
  wfb tree_ex = true /\ (exists ch, lookup tree_ex cwd_ex = Some (Dir ch)) /\
  (forall a, In a (eff_args args_ex) -> guarded tree_ex cwd_ex a = true) /\
  wanted_abort tree_ex cwd_ex args_ex = false /\
  List.length (wanted_files tree_ex cwd_ex args_ex) = 6%nat /\
  exists fs, select tree_ex cwd_ex always_kept false args_ex =
             Ok (Selected fs [s "Error: 'notes.txt' is not valid C or C header file"]) /\ List.length fs = 6%nat.
Proof.
  split; [reflexivity|]. split; [eexists; vm_compute; reflexivity|]. split.
  { intros a H. cbn in H. repeat (destruct H as [<-|H]; [vm_compute; reflexivity|]). destruct H. }
  split; [vm_compute; reflexivity|]. split; [vm_compute; reflexivity|].
  eexists. split; vm_compute; reflexivity.
Qed.

Example missing_nonvacuous :
  exists ms, select tree_ex cwd_ex always_kept false [A_ "main.c"; A_ "notes.txt"; A_ "nope"; A_ "src"] =
    Ok (Exited 1 (ms ++ [s "Error: 'nope' no such file or directory"])).
Proof. exists [s "Error: 'notes.txt' is not valid C or C header file"]. vm_compute. reflexivity. Qed.

Example gitignore_nonvacuous :
  let ign (it : item) := if is_src (item_name it) && str_eqb (item_name it) (s "a.c") then 0 else 1 in
  exists fs ms, select tree_ex cwd_ex ign true [A_ "src"] = Ok (Selected fs ms) /\ List.length fs = 2%nat /\
  exists fs0, select tree_ex cwd_ex ign false [A_ "src"] = Ok (Selected fs0 ms) /\ List.length fs0 = 3%nat.
Proof. eexists _, _. split; [vm_compute; reflexivity|]. split; [reflexivity|]. eexists. split; vm_compute; reflexivity. Qed.

Example no_args_nonvacuous :
  exists fs, select tree_ex cwd_ex always_kept false [] = Ok (Selected fs []) /\ List.length fs = 4%nat.
Proof. eexists. split; vm_compute; reflexivity. Qed.

(* the look-alike suffixes of the property's quantifier *)
Example lookalike_suffixes :
  map is_src [s "a.c"; s "a.h"; s "a.cc"; s "a.hh"; s "a.C"; s "a.c.bak"; s "a.h.txt"; s "a b.c"; s "a..h"; s "c"; s ".c"; s "a.c."]
  = [true; true; false; false; false; false; false; true; true; false; true; false] /\
  map suffix_accepted [s "a.c"; s "a.h"; s "a.cc"; s "a.hh"; s "a.C"; s "a.c.bak"; s "a.h.txt"; s "a b.c"; s "a..h"; s "c"; s ".c"; s "a.c."]
  = [true; true; false; false; false; false; false; true; true; false; false; false].
Proof. split; vm_compute; reflexivity. Qed.

(* ================================================================== reported under its base name *)
(* os.path.basename (what File.basename and the humanized report use): what follows the last '/' of the string *)
Fixpoint bn (acc x : str) : str :=
  match x with
  | [] => rev acc
  | c :: r => if N.eqb c 47 then bn [] r else bn (c :: acc) r
  end.
Definition py_basename (x : str) : str := bn [] x.

Definition noslash (x : str) : bool := negb (chr_in 47%N x).

(* no name in the tree contains '/' (a file system cannot have such a name) *)
Fixpoint names_okb (n : node) : bool :=
  match n with
  | File => true
  | Dir ch =>
      (fix all (l : list (str * node)) : bool :=
         match l with [] => true | (x, m) :: r => noslash x && names_okb m && all r end) ch
  end.

Lemma names_okb_dir ch : names_okb (Dir ch) = forallb (fun xm : str * node => noslash (fst xm) && names_okb (snd xm)) ch.
Proof.
  cbn [names_okb]. induction ch as [|[x m] r IH]; cbn [forallb fst snd]; [reflexivity|]. now rewrite IH.
Qed.

Lemma names_ok_child ch x m : names_okb (Dir ch) = true -> In (x, m) ch -> noslash x = true /\ names_okb m = true.
Proof.
  rewrite names_okb_dir, forallb_forall. intros H Hin. specialize (H _ Hin). cbn [fst snd] in H. now apply andb_prop in H.
Qed.

Lemma lookup_names_ok p : forall n m, names_okb n = true -> lookup n p = Some m -> names_okb m = true.
Proof.
  induction p as [|c p IH]; intros n m W; cbn [lookup].
  - intros E; inversion E; now subst.
  - destruct n as [|ch]; [discriminate|]. destruct (find_child c ch) as [k|] eqn:F; [|discriminate].
    apply IH. apply find_child_in in F. now destruct (names_ok_child ch c k W F).
Qed.

Lemma glob_names_ok pat : forall n, names_okb n = true -> forall g m, In (g, m) (glob_rec pat n) -> noslash (last g []) = true.
Proof.
  apply (node_ind2 (fun n => names_okb n = true -> forall g m, In (g, m) (glob_rec pat n) -> noslash (last g []) = true)).
  - intros _ g m [].
  - intros ch IH W g m. rewrite glob_rec_dir, in_app_iff. intros [H|H].
    + apply in_direct in H as (x & -> & Hin & _). cbn [last]. now destruct (names_ok_child ch x m W Hin).
    + apply in_deep in H as (x & k & g' & -> & Hin & _ & H).
      assert (Hg : g' <> []) by (eapply glob_nonempty; eauto).
      replace (last (x :: g') []) with (last g' []) by (destruct g'; [contradiction|reflexivity]).
      eapply IH; eauto. now destruct (names_ok_child ch x k W Hin).
Qed.

Lemma bn_skip X : forall acc Y, bn acc (X ++ 47%N :: Y) = bn [] Y.
Proof.
  induction X as [|c X IH]; intros acc Y; cbn [app bn].
  - reflexivity.
  - destruct (N.eqb c 47); apply IH.
Qed.

Lemma bn_noslash x : forall acc, noslash x = true -> bn acc x = rev acc ++ x.
Proof.
  induction x as [|c x IH]; intros acc H; cbn [bn].
  - now rewrite app_nil_r.
  - unfold noslash in H. cbn [chr_in existsb] in H. rewrite negb_orb in H. apply andb_prop in H as [H1 H2].
    rewrite N.eqb_sym. destruct (N.eqb 47 c); [discriminate|]. rewrite IH by exact H2. cbn [rev]. now rewrite <- app_assoc.
Qed.

Lemma basename_join g : g <> [] -> noslash (last g []) = true -> py_basename (join_slash g) = last g [].
Proof.
  unfold py_basename. induction g as [|x g IH]; intros Hne Hs; [contradiction|].
  destruct g as [|y r].
  - cbn [join_slash last] in *. now rewrite bn_noslash.
  - change (join_slash (x :: y :: r)) with (x ++ 47%N :: join_slash (y :: r)). rewrite bn_skip.
    change (last (x :: y :: r) []) with (last (y :: r) []). apply IH; [discriminate|exact Hs].
Qed.

Section Basename.
  Variable root : node.
  Variable cwd : path.
  Variable check_ignore : item -> Z.
  Notation pat := glob_dir_last.

  (* C15: every checked file is reported under its base name: the name main() gives to File (os.path.basename of the
     work-list string) is the last component of the file's path - for every tree without '/' inside a name and every
     argument list whose file arguments are spelled without a trailing '/' *)
  Theorem reported_under_basename g args fs ms :
    names_okb root = true ->
    (forall a, In a args -> py_basename (i_raw a) = item_name a) ->
    select root cwd check_ignore g args = Ok (Selected fs ms) ->
    forall f, In f fs -> py_basename (i_raw f) = item_name f /\ item_name f = last (apath cwd f) [].
  Proof.
    intros W Ha. unfold select.
    destruct (Select.loop root cwd _ _ [] []) as [[fs0 ms0|c ms0]| | |] eqn:E; cbn [bind]; try discriminate.
    assert (K : forall f, In f fs0 -> py_basename (i_raw f) = item_name f /\ good root cwd f).
    { refine (loop_inv root cwd (fun it => py_basename (i_raw it) = item_name it) _ _ _ _ _ _ _ _ _ E).
      - intros it ch gg m _ L Hin. assert (Hg : gg <> []) by (eapply glob_nonempty; eauto).
        rewrite name_child by exact Hg. unfold child_item, py_basename. cbn [i_raw]. rewrite bn_skip.
        apply basename_join; [exact Hg|]. eapply glob_names_ok; [|exact Hin]. eapply lookup_names_ok; eauto.
      - destruct args as [|a0 args']; [|exact Ha]. cbn [stack0].
        destruct (lookup root cwd) as [n|] eqn:L; [|intros it []].
        intros it Hin. change (keep_files root cwd glob_cwd_files_only) with (filter (not_dir root cwd)) in Hin.
        apply filter_In in Hin as [Hin _]. apply in_map_iff in Hin as ([gg m] & <- & Hin). cbn [fst rel_item i_raw].
        change (glob_items glob_cwd_last glob_cwd_recursive n) with (glob_rec pat n) in Hin.
        assert (Hg : gg <> []) by (eapply glob_nonempty; eauto).
        apply basename_join; [exact Hg|]. eapply glob_names_ok; [|exact Hin]. eapply lookup_names_ok; eauto.
      - intros f []. }
    assert (K2 : forall f, In f fs0 -> py_basename (i_raw f) = item_name f /\ item_name f = last (apath cwd f) []).
    { intros f Hin. destruct (K f Hin) as [B [Lf Af]]. split; [exact B|].
      unfold item_name, Select.apath in *. destruct (i_abs f); [reflexivity|].
      destruct (i_comps f) as [|c0 cs] eqn:Ec; [|symmetry; apply last_app_ne; discriminate].
      exfalso. cbn in Af. discriminate. }
    destruct g.
    - intros G f Hin. apply git_filter_sub in G as [_ G]. destruct (G f Hin) as [[]|H]. now apply K2.
    - intros G; inversion G; subst. exact K2.
  Qed.
End Basename.

Example basename_examples :
  map py_basename [s "a.c"; s "d/a.c"; s "/tmp/x y/b.h"; s "./d/./a.c"; s "d/"] = [s "a.c"; s "a.c"; s "b.h"; s "a.c"; []].
Proof. reflexivity. Qed.
