(* C16 - noninterference for def/use programs, and what it says about the translated main(). *)
From NV Require Import Model.Base Model.OptFlow Model.Options Gen.OptFlow.
From Coq Require Import Lia.

Lemma smem_app x a b : smem x (a ++ b) = smem x a || smem x b.
Proof. unfold smem. apply existsb_app. Qed.

Lemma intersects_false a b : intersects a b = false -> forall x, In x a -> smem x b = false.
Proof.
  unfold intersects. intros H x Hx. destruct (smem x b) eqn:E; [|reflexivity].
  assert (existsb (fun y => smem y b) a = true) by (apply existsb_exists; exists x; auto). congruence.
Qed.

Lemma index_of_none x l : index_of x l = None -> smem x l = false.
Proof.
  induction l as [|y r IH]; [reflexivity|]. cbn [index_of smem existsb].
  destruct (String.eqb x y); [discriminate|]. destruct (index_of x r); [discriminate|]. intros _. apply IH. reflexivity.
Qed.

Lemma index_of_some x l i : index_of x l = Some i -> smem x l = true.
Proof.
  revert i. induction l as [|y r IH]; intros i; [discriminate|]. cbn [index_of smem existsb].
  destruct (String.eqb x y); [reflexivity|]. destruct (index_of x r) as [j|]; [|discriminate]. intros _. exact (IH j eq_refl).
Qed.

Section NI.
  Context {V : Type}.
  Variable sem : fstmt -> list V -> list V.

  Lemma exec_agree T st e1 e2 : agree_off T e1 e2 -> agree_off (taint_step T st) (exec sem st e1) (exec sem st e2).
  Proof.
    intros H x Hx. unfold taint_step in Hx. unfold exec.
    destruct (intersects (fs_uses st) T) eqn:EI.
    - rewrite smem_app in Hx. apply orb_false_iff in Hx as [Hd HT].
      destruct (index_of x (fs_defs st)) as [i|] eqn:Ei; [apply index_of_some in Ei; congruence|]. apply H. exact HT.
    - assert (Em : map e1 (fs_uses st) = map e2 (fs_uses st)).
      { apply map_ext_in. intros u Hu. apply H. exact (intersects_false _ _ EI u Hu). }
      rewrite Em. rewrite (H x Hx). reflexivity.
  Qed.

  (* two runs of ANY def/use program under ANY statement semantics that start from environments equal outside T end in
     environments equal outside taint_all T p *)
  Theorem noninterference : forall p T e1 e2, agree_off T e1 e2 ->
    agree_off (taint_all T p) (run_flow sem p e1) (run_flow sem p e2).
  Proof.
    induction p as [|st r IH]; intros T e1 e2 H; [exact H|]. cbn [taint_all run_flow fold_left].
    apply IH. apply exec_agree. exact H.
  Qed.
End NI.

(* ---- the translated main() *)
Definition analysis_part : list fstmt := firstn (S analysis_loop_index) main_flow.

(* after the analysis loop the two runs can differ on `format` (the formatter class) and the three option values only *)
Lemma taint_after_analysis :
  taint_all presentation_sources analysis_part = ("format" :: presentation_sources)%string.
Proof. vm_compute. reflexivity. Qed.

(* colours / format / -o reach: the choice of the formatter class, the formatter call after the loop, and what follows *)
Lemma presentation_reaches_only :
  reached presentation_sources main_flow =
  ["format = next(filter(lambda it: it.name == args.format, formatters))";
   "errors = format(files, use_colors=not args.no_colors)";
   "print(errors, end='')";
   "sys.exit(1 if any((it.errors.status == 'Error' for it in files)) else 0)"]%string
  /\ (analysis_loop_index < format_call_index)%nat
  /\ option_map fs_label (nth_error main_flow analysis_loop_index) = Some "for file in files"%string
  /\ option_map fs_label (nth_error main_flow format_call_index) = Some "errors = format(files, use_colors=not args.no_colors)"%string.
Proof. repeat split; vm_compute; reflexivity || lia. Qed.

(* whatever the statements do: the heap (every File object with its diagnostics, and what was printed so far), the list
   of files, the debug level and whether main() has exited are the same at the end of the analysis loop *)
Theorem analysis_independent_of_presentation : forall (V : Type) (sem : fstmt -> list V -> list V) (e1 e2 : env),
  agree_off presentation_sources e1 e2 ->
  forall x, smem x ("format" :: presentation_sources)%string = false ->
    run_flow sem analysis_part e1 x = run_flow sem analysis_part e2 x.
Proof.
  intros V sem e1 e2 H x Hx. pose proof (noninterference sem analysis_part _ _ _ H) as N.
  rewrite taint_after_analysis in N. apply N. exact Hx.
Qed.

Corollary heap_after_analysis : forall (V : Type) (sem : fstmt -> list V -> list V) (e1 e2 : env),
  agree_off presentation_sources e1 e2 ->
  run_flow sem analysis_part e1 "HEAP"%string = run_flow sem analysis_part e2 "HEAP"%string /\
  run_flow sem analysis_part e1 "files"%string = run_flow sem analysis_part e2 "files"%string /\
  run_flow sem analysis_part e1 "EXIT"%string = run_flow sem analysis_part e2 "EXIT"%string.
Proof. intros V sem e1 e2 H. repeat split; apply (analysis_independent_of_presentation V sem e1 e2 H); reflexivity. Qed.

(* ---- Context(file, tokens, debug, args.R) and Context.__init__ *)
Lemma context_plumbing :
  nth_error context_call_args 2 = Some "debug"%string /\ nth_error context_init_params 2 = Some context_debug_param /\
  nth_error context_call_args 3 = Some "args.R"%string /\ nth_error context_init_params 3 = Some context_skip_param /\
  existsb (fun st => String.eqb (fs_label st) "debug = args.debug" && smem "args.debug" (fs_uses st)
                     && smem "debug" (fs_defs st)) main_flow = true /\
  (* `debug` is assigned nowhere else before or in the loop *)
  List.length (filter (fun st => smem "debug" (fs_defs st)) main_flow) = 1%nat.
Proof. repeat split; vm_compute; reflexivity. Qed.

(* the model's ctx_of_args is the translated Context.__init__ applied to (args.debug, args.R) *)
Theorem ctx_of_args_from_source : forall a, ctx_of_args a = mkctxopts (gen_ctx_debug (a_debug a)) (gen_ctx_skip (a_R a)).
Proof.
  intros a. unfold ctx_of_args, gen_ctx_debug, gen_ctx_skip, skip_define_of, py_or_nil. f_equal.
  destruct (a_R a) as [[|c r]|]; reflexivity.
Qed.

(* ================================================================== the formatters (from C08's theorems) *)
From NV Require Import Model.Diag Model.Errors Model.Cli Props.C08.
From Coq Require Import Sorting.Permutation.

(* -f: what the JSON report shows about a file is what the humanized report shows (C08_formats_agree), so for every pair
   of option sets the per-file (verdict, diagnostics) lists are equal *)
Theorem format_views_from_C08 : forall a1 a2 files, views a1 files = views a2 files.
Proof.
  intros a1 a2 files. unfold views. induction files as [|f r IH]; [reflexivity|]. cbn [omap]. rewrite IH.
  assert (E : forall j, file_view j f = human_view f) by (intros [|]; [apply C08_formats_agree|reflexivity]).
  rewrite !E. reflexivity.
Qed.

(* ... and that list is the file's own diagnostics, none dropped, none added, whatever the format: the diagnostics
   shown are the views of a permutation (the sorted list, C08_sort_is_permutation) of File.errors, and the verdict is
   Errors.status of File.errors *)
Theorem shown_is_the_files_diagnostics : forall a f v, file_view (is_json a) f = Some v ->
  v_status v = status (f_errors f) /\
  exists ds, Permutation (f_errors f) ds /\ omap dview_of ds = Some (v_diags v).
Proof.
  intros a f v H.
  assert (E : human_view f = Some v).
  { destruct (is_json a); cbn [file_view] in H; [rewrite <- C08_formats_agree|]; exact H. }
  unfold human_view in E. destruct (omap dview_of (sort_diags (f_errors f))) as [vs|] eqn:Es; [|discriminate].
  inversion E; subst. cbn [v_status v_diags]. split; [reflexivity|].
  exists (sort_diags (f_errors f)). split; [apply C08_sort_is_permutation|exact Es].
Qed.
