(* Lines made of one block comment: the tokenizer model reads `/* body */ NEWLINE` as two items whatever follows
   (locality), hence a prefix of such lines composes unconditionally with any text (C19), and the 42 header is lexed
   into its 11 comment tokens (the lexer half of C13's file -> trace link). *)
From NV Require Import Model.Base Model.Diag Model.Lexer Model.NumRe Spec.TruePos Spec.Normalise
  Proofs.LexText Proofs.LineShift Proofs.LineShiftCor.
From Coq Require Import Lia.

Local Open Scope Z_scope.

(* ------------------------------------------------------------------ characters and pairs *)
(* a character that is popped as itself: no backslash (splice / escape), no `?` (trigraph), no newline, no tab *)
Definition cok (c : N) : bool := negb (N.eqb c 92 || N.eqb c 63 || N.eqb c 10 || N.eqb c 9).
(* two neighbours that form neither a digraph nor the closing `*/` *)
Definition pair_ok (a b : N) : bool :=
  match std_digraph a b with Some _ => false | None => true end && negb (N.eqb a 42 && N.eqb b 47).
Fixpoint chain_ok (prev : N) (b : str) : bool :=
  match b with
  | [] => true
  | c :: b' => cok c && pair_ok prev c && chain_ok c b'
  end.
(* the text between `/*` and `*/` of a one-line block comment (the closing star is part of the chain) *)
Definition body_ok (body : str) : bool := chain_ok 42 (body ++ [42%N]).

Lemma digraph_none a b : std_digraph a b = None -> assoc [a; b] digraphs = None.
Proof.
  intros H. destruct (assoc [a; b] digraphs) as [v|] eqn:E; [|reflexivity].
  destruct (assoc_digraph_std _ _ E) as (a' & b' & t & Hk & Hs & _). inversion Hk; subst. congruence.
Qed.

Lemma trigraph_none c k : N.eqb c 63 = false -> assoc (c :: k) trigraphs = None.
Proof.
  intros H. destruct (assoc (c :: k) trigraphs) as [v|] eqn:E; [|reflexivity].
  destruct (assoc_trigraph_std _ _ E) as (a' & b' & c' & t & Hk & Hs & _). inversion Hk; subst.
  unfold std_trigraph in Hs. rewrite H in Hs. discriminate.
Qed.

Lemma digraph_short c : assoc [c] digraphs = None.
Proof.
  destruct (assoc [c] digraphs) as [v|] eqn:E; [|reflexivity].
  destruct (assoc_digraph_std _ _ E) as (a' & b' & t & Hk & _). discriminate.
Qed.

Lemma peek1_single c t : N.eqb c 63 = false ->
  match t with d :: _ => std_digraph c d = None | [] => True end -> peek1 (c :: t) = Some ([c], 1%nat).
Proof.
  intros H3 Hd. unfold peek1. change (firstn 3 (c :: t)) with (c :: firstn 2 t). rewrite (trigraph_none c _ H3).
  destruct t as [|d t']; cbn [firstn].
  - rewrite digraph_short. reflexivity.
  - rewrite (digraph_none c d Hd). reflexivity.
Qed.

Lemma cok_inv c : cok c = true -> N.eqb c 92 = false /\ N.eqb c 63 = false /\ N.eqb c 10 = false /\ N.eqb c 9 = false.
Proof.
  unfold cok. intros H. apply negb_true_iff in H. repeat (apply orb_false_iff in H; destruct H as [H ?]). auto.
Qed.

Lemma pop_inner_S f us ue x : pop_inner (S f) us ue x =
  match peek1 (rest x) with
  | None => PopEOF x
  | Some (char, size) =>
      if negb (is_bs char) then pop_finish us x char size
      else
        match peek1 (skipn size (rest x)) with
        | None => pop_finish us x char size
        | Some (temp, tsize) =>
            if negb (is_nl temp) then
              if ue then let '(char', size', x') := pop_escape x char size temp tsize in pop_finish us x' char' size'
              else pop_finish us x char size
            else
              let x' := set_pos (line x + 1) 1 (advance (S size) x) in
              match peek1 (rest x') with
              | None => PopEOF x'
              | Some _ => pop_inner f us ue x'
              end
        end
  end.
Proof. reflexivity. Qed.

(* popping one ordinary character *)
Lemma pop1_single us c t x : rest x = c :: t -> cok c = true ->
  match t with d :: _ => std_digraph c d = None | [] => True end ->
  pop1 us false x = PopOk [c] (mkst t (off x + 1)%nat (line x) (col x + 1) (errs x)).
Proof.
  intros Hr Hc Hd. destruct (cok_inv c Hc) as (H92 & H63 & H10 & H9).
  unfold pop1, pop_loop_bound. rewrite pop_inner_S. rewrite Hr, (peek1_single c t H63 Hd).
  unfold is_bs, bs. cbn [str_eqb]. rewrite H92. cbn [andb negb].
  unfold pop_finish, is_nl, nl, ends_with. cbn [str_eqb List.length Nat.leb Nat.sub skipn andb]. rewrite H10.
  rewrite (N.eqb_sym 9 c), H9. cbn [andb]. unfold advance, set_pos. cbn [rest off line col errs]. rewrite Hr. reflexivity.
Qed.

(* ------------------------------------------------------------------ the comment loop stops at the first `*/` *)
Lemma ends2 a b w x y : ends_with [a; b] (w ++ [x; y]) = N.eqb a x && (N.eqb b y && true).
Proof.
  unfold ends_with. rewrite app_length. cbn [List.length].
  replace (List.length w + 2 - 2)%nat with (List.length w) by lia.
  rewrite skipn_app, skipn_all, Nat.sub_diag. cbn [skipn app str_eqb].
  replace (Nat.leb 2 (List.length w + 2)) with true by (symmetry; apply Nat.leb_le; lia). reflexivity.
Qed.

Lemma ends3 a b w p x y : ends_with [a; b] (w ++ [p; x; y]) = N.eqb a x && (N.eqb b y && true).
Proof. change (w ++ [p; x; y]) with (w ++ [p] ++ [x; y]). rewrite app_assoc. apply ends2. Qed.

Lemma pair_ok_inv a b : pair_ok a b = true -> std_digraph a b = None /\ N.eqb a 42 && N.eqb b 47 = false.
Proof.
  unfold pair_ok. intros H. apply andb_prop in H. destruct H as [H1 H2]. apply negb_true_iff in H2.
  destruct (std_digraph a b); [discriminate|]. auto.
Qed.

Lemma chain_head c b z more : chain_ok c (b ++ [z]) = true ->
  match b ++ z :: more with d :: _ => std_digraph c d = None | [] => True end.
Proof.
  destruct b as [|d b']; cbn [app chain_ok]; intros H; apply andb_prop in H; destruct H as [H _];
    apply andb_prop in H; destruct H as [_ H]; apply pair_ok_inv in H; tauto.
Qed.

Lemma mc_chain : forall b prev w x tail fuel,
  rest x = b ++ 42%N :: 47%N :: tail -> chain_ok prev (b ++ [42%N]) = true -> (List.length b + 2 <= fuel)%nat ->
  mc_loop fuel (w ++ [prev]) x =
    MDone (w ++ [prev] ++ b ++ [42%N; 47%N]) false
          (mkst tail (off x + List.length b + 2)%nat (line x) (col x + Z.of_nat (List.length b) + 2) (errs x)).
Proof.
  induction b as [|c b IH]; intros prev w x tail fuel Hr Hc Hf.
  - destruct fuel as [|[|f]]; try (cbn in Hf; lia). cbn [app] in Hr.
    cbn [mc_loop]. rewrite Hr, (peek1_single 42 (47%N :: tail) eq_refl eq_refl).
    rewrite (pop1_single true 42 (47%N :: tail) x Hr eq_refl eq_refl).
    change (s "*/") with [42%N; 47%N]. rewrite <- app_assoc. cbn [app]. rewrite ends2. cbn [N.eqb Pos.eqb andb].
    rewrite andb_false_r.
    assert (Hd : match tail with d :: _ => std_digraph 47 d = None | [] => True end) by (destruct tail; [exact I|reflexivity]).
    cbn [rest]. rewrite (peek1_single 47 tail eq_refl Hd).
    rewrite (pop1_single true 47 tail (mkst (47%N :: tail) _ _ _ _) eq_refl eq_refl Hd).
    rewrite <- app_assoc. cbn [app]. rewrite ends3. cbn [N.eqb Pos.eqb andb].
    cbn [app rest off line col errs List.length]. f_equal. f_equal; lia.
  - destruct fuel as [|f]; [cbn in Hf; lia|]. cbn [app] in Hr, Hc. cbn [chain_ok] in Hc.
    apply andb_prop in Hc. destruct Hc as [Hc Hch]. apply andb_prop in Hc. destruct Hc as [Hcok Hp].
    destruct (cok_inv c Hcok) as (_ & H63 & _ & _). pose proof (chain_head c b 42 (47%N :: tail) Hch) as Hd.
    cbn [mc_loop]. rewrite Hr, (peek1_single c _ H63 Hd). rewrite (pop1_single true c _ x Hr Hcok Hd).
    change (s "*/") with [42%N; 47%N]. rewrite <- app_assoc. cbn [app]. rewrite ends2.
    destruct (pair_ok_inv prev c Hp) as [_ Hpc].
    replace (N.eqb 42 prev && (N.eqb 47 c && true)) with false
      by (rewrite andb_true_r, (N.eqb_sym 42 prev), (N.eqb_sym 47 c); symmetry; exact Hpc).
    change (w ++ [prev; c]) with (w ++ [prev] ++ [c]). rewrite app_assoc.
    rewrite (IH c (w ++ [prev]) _ tail f); [|reflexivity|exact Hch|cbn in Hf; lia].
    cbn [rest off line col errs List.length app]. rewrite <- !app_assoc. cbn [app]. f_equal. f_equal; lia.
Qed.

(* ------------------------------------------------------------------ one step on `/* body */ ...` *)
Definition MULT_COMMENT : str := s "MULT_COMMENT".
Definition NEWLINE : str := s "NEWLINE".
Definition comment_text (body : str) : str := 47%N :: 42%N :: body ++ [42%N; 47%N].

Lemma run_parser_names uw ud x :
  run_parser uw ud (s "parse_float_literal") x = parse_float_literal uw ud x /\
  run_parser uw ud (s "parse_integer_literal") x = parse_integer_literal uw ud x /\
  run_parser uw ud (s "parse_char_literal") x = parse_char_literal x /\
  run_parser uw ud (s "parse_string_literal") x = parse_string_literal x /\
  run_parser uw ud (s "parse_identifier") x = parse_identifier x /\
  run_parser uw ud (s "parse_whitespace") x = parse_whitespace x /\
  run_parser uw ud (s "parse_line_comment") x = parse_line_comment x /\
  run_parser uw ud (s "parse_multi_line_comment") x = parse_multi_line_comment x.
Proof. repeat split; reflexivity. Qed.

Lemma parsers_on_comment uw ud T o l c e t x' :
  parse_multi_line_comment (mkst (47%N :: 42%N :: T) o l c e) = PTok t x' ->
  try_parsers uw ud parsers (mkst (47%N :: 42%N :: T) o l c e) = PTok t x'.
Proof.
  intros HP. set (x := mkst (47%N :: 42%N :: T) o l c e) in *.
  destruct (run_parser_names uw ud x) as (E1 & E2 & E3 & E4 & E5 & E6 & E7 & E8).
  unfold parsers. cbn [try_parsers]. rewrite E1, E2, E3, E4, E5, E6, E7, E8.
  assert (F1 : parse_float_literal uw ud x = PNone) by (subst x; cbn; reflexivity).
  assert (F2 : parse_integer_literal uw ud x = PNone) by (subst x; cbn; reflexivity).
  assert (F3 : parse_char_literal x = PNone) by (subst x; cbn; reflexivity).
  assert (F4 : parse_string_literal x = PNone) by (subst x; cbn; reflexivity).
  assert (F5 : parse_identifier x = PNone) by (subst x; cbn; reflexivity).
  assert (F6 : parse_whitespace x = PNone) by (subst x; cbn; reflexivity).
  assert (F7 : parse_line_comment x = PNone) by (subst x; cbn; reflexivity).
  rewrite F1, F2, F3, F4, F5, F6, F7, HP. reflexivity.
Qed.

Lemma parse_comment_line body tail o l c e : body_ok body = true ->
  parse_multi_line_comment (mkst (47%N :: 42%N :: body ++ 42%N :: 47%N :: tail) o l c e) =
    PTok (mktok MULT_COMMENT l c (Some (comment_text body)))
         (mkst tail (o + List.length body + 4)%nat l (c + Z.of_nat (List.length body) + 4) e).
Proof.
  intros Hb. set (T := body ++ 42%N :: 47%N :: tail).
  assert (Hd : match T with d :: _ => std_digraph 42 d = None | [] => True end) by (destruct T; [exact I|reflexivity]).
  unfold parse_multi_line_comment. cbn [rest raw_peek firstn].
  change (negb (str_eqb [47%N; 42%N] (s "/*"))) with false. cbn iota. unfold of_popres. cbn [popn].
  rewrite (pop1_single false 47 (42%N :: T) (mkst (47%N :: 42%N :: T) _ _ _ _) eq_refl eq_refl eq_refl).
  rewrite (pop1_single false 42 T (mkst (42%N :: T) _ _ _ _) eq_refl eq_refl Hd). cbn [app rest off line col errs].
  change [47%N; 42%N] with ([47%N] ++ [42%N]).
  rewrite (mc_chain body 42 [47%N] _ tail); [|reflexivity|exact Hb|subst T; rewrite app_length; cbn [List.length]; lia].
  cbn [rest off line col errs app]. unfold comment_text, MULT_COMMENT. f_equal. f_equal; lia.
Qed.

Lemma step_comment uw ud body tail o l c e : body_ok body = true ->
  step uw ud (mkst (47%N :: 42%N :: body ++ 42%N :: 47%N :: tail) o l c e) =
    StepItem (ITok (mktok MULT_COMMENT l c (Some (comment_text body))) o (o + List.length body + 4)%nat)
             (mkst tail (o + List.length body + 4)%nat l (c + Z.of_nat (List.length body) + 4) e).
Proof.
  intros Hb. unfold step. cbn [rest].
  assert (A : at_splice (47%N :: 42%N :: body ++ 42%N :: 47%N :: tail) = false) by (cbn; reflexivity).
  rewrite A, (parsers_on_comment uw ud _ o l c e _ _ (parse_comment_line body tail o l c e Hb)). reflexivity.
Qed.

Lemma pop1_nl r o l c e :
  pop1 false false (mkst (10%N :: r) o l c e) = PopOk [10%N] (mkst r (o + 1)%nat (l + 1) 1 e).
Proof.
  assert (Hd : match r with d :: _ => std_digraph 10 d = None | [] => True end) by (destruct r; [exact I|reflexivity]).
  unfold pop1, pop_loop_bound. rewrite pop_inner_S. cbn [rest]. rewrite (peek1_single 10 r eq_refl Hd). reflexivity.
Qed.

Lemma step_newline uw ud r o l c e :
  step uw ud (mkst (10%N :: r) o l c e) =
    StepItem (ITok (mktok NEWLINE l c None) o (o + 1)%nat) (mkst r (o + 1)%nat (l + 1) 1 e).
Proof.
  unfold step. cbn [rest].
  assert (A : at_splice (10%N :: r) = false) by (cbn; reflexivity). rewrite A.
  set (x := mkst (10%N :: r) o l c e).
  destruct (run_parser_names uw ud x) as (E1 & E2 & E3 & E4 & E5 & E6 & _).
  unfold parsers. cbn [try_parsers]. rewrite E1, E2, E3, E4, E5, E6.
  assert (F1 : parse_float_literal uw ud x = PNone) by (subst x; cbn; reflexivity).
  assert (F2 : parse_integer_literal uw ud x = PNone) by (subst x; cbn; reflexivity).
  assert (F3 : parse_char_literal x = PNone) by (subst x; cbn; reflexivity).
  assert (F4 : parse_string_literal x = PNone) by (subst x; cbn; reflexivity).
  assert (F5 : parse_identifier x = PNone) by (subst x; cbn; reflexivity).
  rewrite F1, F2, F3, F4, F5.
  assert (F6 : parse_whitespace x = PTok (mktok NEWLINE l c None) (mkst r (o + 1)%nat (l + 1) 1 e)).
  { subst x. unfold parse_whitespace. cbn [rest]. change (negb (chr_in 10 ws_chars)) with false. cbn iota.
    change (N.eqb 10 32) with false. change (N.eqb 10 9) with false. change (N.eqb 10 10) with true. cbn iota.
    unfold of_popres. rewrite pop1_nl. reflexivity. }
  rewrite F6. reflexivity.
Qed.

(* ------------------------------------------------------------------ k comment lines, then any text *)
Definition text_of_lines (ls : list str) : str := List.concat (map (fun l => l ++ [10%N]) ls).
Definition comment_lines (bs : list str) : str := text_of_lines (map comment_text bs).

Fixpoint comment_items (o : nat) (l : Z) (bs : list str) : list item :=
  match bs with
  | [] => []
  | b :: r =>
      ITok (mktok MULT_COMMENT l 1 (Some (comment_text b))) o (o + List.length b + 4)%nat
      :: ITok (mktok NEWLINE l (1 + Z.of_nat (List.length b) + 4) None) (o + List.length b + 4)%nat (o + List.length b + 4 + 1)%nat
      :: comment_items (o + List.length b + 4 + 1)%nat (l + 1) r
  end.

Lemma comment_lines_cons b bs X :
  comment_lines (b :: bs) ++ X = 47%N :: 42%N :: b ++ 42%N :: 47%N :: 10%N :: (comment_lines bs ++ X).
Proof.
  unfold comment_lines, text_of_lines, comment_text. cbn [map List.concat app]. repeat (rewrite <- app_assoc; cbn [app]).
  reflexivity.
Qed.

Lemma comment_lines_length b bs :
  List.length (comment_lines (b :: bs)) = (List.length b + 4 + 1 + List.length (comment_lines bs))%nat.
Proof.
  pose proof (comment_lines_cons b bs []) as H. rewrite !app_nil_r in H. rewrite H. cbn [List.length].
  rewrite app_length. cbn [List.length]. lia.
Qed.

Lemma comment_lines_long bs : (5 * List.length bs <= List.length (comment_lines bs))%nat.
Proof. induction bs as [|b bs IH]; [cbn; lia|]. rewrite comment_lines_length. cbn [List.length]. lia. Qed.

Section Compose.
  Variable uw ud : N -> bool.

  Lemma lex_lines : forall bs src o l e acc fuel, forallb body_ok bs = true -> (2 * List.length bs <= fuel)%nat ->
    lex_loop uw ud fuel (mkst (comment_lines bs ++ src) o l 1 e) acc =
    lex_loop uw ud (fuel - 2 * List.length bs) (mkst src (o + List.length (comment_lines bs))%nat (l + Z.of_nat (List.length bs)) 1 e)
             (rev (comment_items o l bs) ++ acc).
  Proof.
    induction bs as [|b bs IH]; intros src o l e acc fuel Hb Hf.
    - cbn [comment_lines text_of_lines map List.concat app List.length comment_items rev]. f_equal; try lia. f_equal; lia.
    - cbn [forallb] in Hb. apply andb_prop in Hb. destruct Hb as [Hb Hbs].
      destruct fuel as [|[|f]]; try (cbn [List.length] in Hf; lia).
      rewrite comment_lines_cons. cbn [lex_loop]. rewrite (step_comment uw ud b _ o l 1 e Hb).
      rewrite step_newline. rewrite IH; [|exact Hbs|cbn [List.length] in Hf; lia].
      rewrite comment_lines_length. cbn [List.length comment_items rev]. rewrite <- !app_assoc. cbn [app].
      f_equal; [lia|f_equal; lia].
  Qed.

  (* the composition, unconditionally *)
  Theorem lex_comment_lines_then_text : forall bs src items xf, forallb body_ok bs = true ->
    lex uw ud src = Ok (items, xf) ->
    lex uw ud (comment_lines bs ++ src) =
      Ok (comment_items 0 1 bs ++ map (sh_item (Z.of_nat (List.length bs)) (List.length (comment_lines bs))) items,
          shl (Z.of_nat (List.length bs)) (List.length (comment_lines bs)) xf).
  Proof.
    intros bs src items xf Hb Hs. unfold lex at 1. unfold init. pose proof (comment_lines_long bs) as HL.
    rewrite lex_lines; [|exact Hb|rewrite app_length; lia].
    change (0 + List.length (comment_lines bs))%nat with (List.length (comment_lines bs)).
    rewrite (continue_after_prefix uw ud src _ _ _ items xf _ Hs); [|rewrite app_length; lia].
    rewrite app_nil_r, rev_involutive. reflexivity.
  Qed.

  (* the steps inside the comment lines are local: the hypothesis of prefix_then_text_given_locality holds *)
  Lemma step_end o l c e : step uw ud (mkst [] o l c e) = StepEnd.
  Proof. reflexivity. Qed.

  Lemma comment_lines_local : forall bs src o l e fuel, forallb body_ok bs = true ->
    steps_local uw ud src fuel (mkst (comment_lines bs) o l 1 e).
  Proof.
    induction bs as [|b bs IH]; intros src o l e fuel Hb.
    - destruct fuel; [exact I|]. cbn [steps_local]. change (comment_lines []) with (@nil N). rewrite step_end. exact I.
    - cbn [forallb] in Hb. apply andb_prop in Hb. destruct Hb as [Hb Hbs].
      destruct fuel as [|fuel]; [exact I|]. cbn [steps_local].
      pose proof (comment_lines_cons b bs []) as E0. rewrite !app_nil_r in E0. rewrite E0.
      rewrite (step_comment uw ud b _ o l 1 e Hb). split.
      + unfold ext. cbn [rest off line col errs]. rewrite <- E0, comment_lines_cons.
        rewrite (step_comment uw ud b _ o l 1 e Hb). reflexivity.
      + destruct fuel as [|fuel]; [exact I|]. cbn [steps_local]. rewrite step_newline. split.
        * unfold ext. cbn [rest off line col errs app]. rewrite step_newline. reflexivity.
        * apply IH. exact Hbs.
  Qed.
End Compose.
