(* Lines made of one block comment: the tokenizer model reads `/* body */ NEWLINE` as two items whatever follows
   (locality), hence a prefix of such lines composes unconditionally with any text (C19), and the 42 header is lexed
   into its 11 comment tokens (the lexer half of C13's file -> trace link). *)
From NV Require Import Model.Base Model.Diag Model.Lexer Model.NumRe Spec.TruePos Spec.Normalise
  Proofs.LexText Proofs.LineShift Proofs.LineShiftCor.
From Coq Require Import Lia.

Local Open Scope Z_scope.

(* ------------------------------------------------------------------ characters and pairs *)
(* a character that is popped as itself: no backslash (splice / escape), no `?` (trigraph), no newline, no tab *)
Definition cok (c : N) : bool := negb (N.eqb c 92 || N.eqb c 63 || N.eqb c 10 || N.eqb c 9).
(* two neighbours that form neither a digraph nor the closing `*/` *)
Definition pair_ok (a b : N) : bool :=
  match std_digraph a b with Some _ => false | None => true end && negb (N.eqb a 42 && N.eqb b 47).
Fixpoint chain_ok (prev : N) (b : str) : bool :=
  match b with
  | [] => true
  | c :: b' => cok c && pair_ok prev c && chain_ok c b'
  end.
(* the text between `/*` and `*/` of a one-line block comment (the closing star is part of the chain) *)
Definition body_ok (body : str) : bool := chain_ok 42 (body ++ [42%N]).

Lemma digraph_none a b : std_digraph a b = None -> assoc [a; b] digraphs = None.
Proof.
  intros H. destruct (assoc [a; b] digraphs) as [v|] eqn:E; [|reflexivity].
  destruct (assoc_digraph_std _ _ E) as (a' & b' & t & Hk & Hs & _). inversion Hk; subst. congruence.
Qed.

Lemma trigraph_none c k : N.eqb c 63 = false -> assoc (c :: k) trigraphs = None.
Proof.
  intros H. destruct (assoc (c :: k) trigraphs) as [v|] eqn:E; [|reflexivity].
  destruct (assoc_trigraph_std _ _ E) as (a' & b' & c' & t & Hk & Hs & _). inversion Hk; subst.
  unfold std_trigraph in Hs. rewrite H in Hs. discriminate.
Qed.

Lemma digraph_short c : assoc [c] digraphs = None.
Proof.
  destruct (assoc [c] digraphs) as [v|] eqn:E; [|reflexivity].
  destruct (assoc_digraph_std _ _ E) as (a' & b' & t & Hk & _). discriminate.
Qed.

Lemma peek1_single c t : N.eqb c 63 = false ->
  match t with d :: _ => std_digraph c d = None | [] => True end -> peek1 (c :: t) = Some ([c], 1%nat).
Proof.
  intros H3 Hd. unfold peek1. change (firstn 3 (c :: t)) with (c :: firstn 2 t). rewrite (trigraph_none c _ H3).
  destruct t as [|d t']; cbn [firstn].
  - rewrite digraph_short. reflexivity.
  - rewrite (digraph_none c d Hd). reflexivity.
Qed.

Lemma cok_inv c : cok c = true -> N.eqb c 92 = false /\ N.eqb c 63 = false /\ N.eqb c 10 = false /\ N.eqb c 9 = false.
Proof.
  unfold cok. intros H. apply negb_true_iff in H. repeat (apply orb_false_iff in H; destruct H as [H ?]). auto.
Qed.

(* popping one ordinary character *)
Lemma pop1_single us c t x : rest x = c :: t -> cok c = true ->
  match t with d :: _ => std_digraph c d = None | [] => True end ->
  pop1 us false x = PopOk [c] (mkst t (off x + 1)%nat (line x) (col x + 1) (errs x)).
Proof.
  intros Hr Hc Hd. destruct (cok_inv c Hc) as (H92 & H63 & H10 & H9).
  unfold pop1, pop_loop_bound. cbn [pop_inner]. rewrite Hr, (peek1_single c t H63 Hd).
  unfold is_bs, bs. cbn [str_eqb]. rewrite H92. cbn [andb negb].
  unfold pop_finish, is_nl, nl, ends_with. cbn [str_eqb List.length Nat.leb Nat.sub skipn andb]. rewrite H10.
  rewrite (N.eqb_sym 9 c), H9. cbn [andb]. unfold advance, set_pos. cbn [rest off line col errs]. rewrite Hr. reflexivity.
Qed.
