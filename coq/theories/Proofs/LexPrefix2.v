(* C17 / C18: the file-level theorems for prefixes that also contain block comments (possibly over several lines),
   // comments and plain string literals - in particular files that start with the 42 header.  The prefix lexemes of
   Proofs/LexPrefix.v are kept (PS l); PBlock body is a block comment whose body satisfies bodym_ok
   (Proofs/MultiLineComment.v: one MULT_COMMENT token for any tail), PLine v a // comment with plain content that is
   followed by a newline or the end of the text, PStr v a string literal "v" with plain content (no quote, backslash,
   newline, question mark ... inside; no encoding prefix). *)
From NV Require Import Model.Base Model.Diag Model.Lexer Model.NumRe Model.Header Proofs.CommentLines Proofs.MultiLineComment.
From NV Require Import Model.Obs Gen.LexTables
  Proofs.StrOrder Proofs.LexInv Proofs.LexRename Proofs.CConstUnbounded Proofs.CConstUnbounded2 Proofs.LexText Proofs.ObsProofs
  Proofs.LexCompose Proofs.LexPrefix.
From Coq Require Import Lia ZifyBool.

Local Open Scope Z_scope.

Section Prefix3.
  Variable uw ud : N -> bool.

  (* ------------------------------------------------------------------ a string literal with plain content, any tail *)
  Lemma step_string_plain x v Y : plain_content KString v = true -> rest x = 34%N :: v ++ 34%N :: Y ->
    step uw ud x = StepItem (ITok (mktok (s "STRING") (line x) (col x) (Some (34%N :: v ++ [34%N]))) (off x) (off x + (2 + List.length v)))
                            (shift (2 + List.length v) x).
  Proof.
    intros Hv Hr.
    assert (Hc : lit_head 34 = true) by reflexivity.
    destruct (lit_head_facts ud 34%N Hc) as (_ & _ & _ & H92 & H63).
    assert (Hp : parse_string_literal x = PTok (mktok (s "STRING") (line x) (col x) (Some (34%N :: v ++ [34%N]))) (shift (2 + List.length v) x)).
    { unfold parse_string_literal.
      destruct (peek1 (rest x)) as [pk|] eqn:Ep; [|apply peek1_none in Ep; rewrite Hr in Ep; discriminate].
      rewrite (quote_prefix_found 34%N [] x (v ++ 34%N :: Y) (or_introl eq_refl) (or_introl eq_refl) Hr).
      cbn [List.length]. rewrite shift_0.
      rewrite Hr. cbn [first_is N.eqb Pos.eqb negb].
      rewrite (pop1_plain false false x 34%N _ Hr (peek1_nohead' 34%N _ eq_refl) eq_refl).
      assert (Hr2 : rest (shift 1 x) = v ++ 34%N :: Y) by (rewrite rest_shift, Hr; reflexivity).
      rewrite (string_loop_run v _ ([] ++ [34%N]) _ Y Hv Hr2); [|rewrite Hr2, app_length; cbn [List.length]; lia].
      rewrite shift_add. cbv zeta. reflexivity. }
    assert (Hcn : parse_char_literal x = PNone).
    { unfold parse_char_literal. rewrite (quote_prefix_other [] x _ (or_introl eq_refl) Hr), Hr. reflexivity. }
    rewrite (step_from_try uw ud x 34%N _ _ _ Hr (at_splice_plain 34%N _ H92 H63)
               (try_parsers_string uw ud x _ _ (float_none_lit uw ud x 34%N _ Hr Hc) (int_none_lit uw ud x 34%N _ Hr Hc) Hcn Hp)).
    reflexivity.
  Qed.

  Lemma shift_with_rest_n n p a Y : List.length a = n -> shift n (with_rest p (a ++ Y)) = with_rest (shift n p) Y.
  Proof. intros <-. apply shift_with_rest1. Qed.

  Inductive plex2 := PS (l : plex) | PBlock (body : str) | PLine (v : str) | PStr (v : str).

  Definition lex_raw2 (l : plex2) : str :=
    match l with PS l => lex_raw l | PBlock b => comment_text b | PLine v => 47%N :: 47%N :: v | PStr v => 34%N :: v ++ [34%N] end.
  Definition raws2 (ls : list plex2) : str := flat_map lex_raw2 ls.

  (* boundary conditions: a block comment needs none (its end is the first star-slash, bodym_ok excludes one inside);
     a // comment must be followed by a newline or the end of the text; a plain string needs none *)
  Definition lex_ok2 (l : plex2) (next : option N) : bool :=
    match l with
    | PS l => lex_ok l next
    | PBlock b => bodym_ok b
    | PLine v => plain_content KLine v && match next with Some h => (h =? 10)%N | None => true end
    | PStr v => plain_content KString v
    end.

  Definition block_next (p : st) (b : str) : st :=
    mkst (rest p) (off p + List.length b + 4)%nat (fst (posm (line p) (col p + 2) b)) (snd (posm (line p) (col p + 2) b) + 2) (errs p).

  Definition lex_item2 (p : st) (l : plex2) : item :=
    match l with
    | PS l => lex_item p l
    | PBlock b => ITok (mktok MULT_COMMENT (line p) (col p) (Some (comment_text b))) (off p) (off p + List.length b + 4)%nat
    | PLine v => ITok (mktok (s "COMMENT") (line p) (col p) (Some (47%N :: 47%N :: v))) (off p) (off p + (2 + List.length v))
    | PStr v => ITok (mktok (s "STRING") (line p) (col p) (Some (34%N :: v ++ [34%N]))) (off p) (off p + (2 + List.length v))
    end.
  Definition lex_next2 (p : st) (l : plex2) : st :=
    match l with
    | PS l => lex_next p l
    | PBlock b => block_next p b
    | PLine v | PStr v => shift (2 + List.length v) p
    end.

  Lemma lex_step2 p l Y : lex_ok2 l (hd1 Y) = true ->
    step uw ud (with_rest p (lex_raw2 l ++ Y)) = StepItem (lex_item2 p l) (with_rest (lex_next2 p l) Y).
  Proof.
    destruct l as [l|b|v|v]; cbn [lex_ok2 lex_raw2 lex_item2 lex_next2]; intros H.
    - now apply lex_step.
    - unfold comment_text. cbn [app]. rewrite <- app_assoc. cbn [app]. unfold with_rest, block_next. cbn [rest off line col errs].
      exact (step_comment_ml uw ud b Y (off p) (line p) (col p) (errs p) H).
    - apply andb_true_iff in H as [Hv Hn].
      assert (Ht : line_end Y).
      { destruct Y as [|h Y']; [now left|right]. cbn [hd1] in Hn. apply N.eqb_eq in Hn. subst h. now exists Y'. }
      cbn [app].
      rewrite (step_line_comment uw ud (with_rest p (47%N :: 47%N :: v ++ Y)) v Y Hv Ht eq_refl).
      change (47%N :: 47%N :: v ++ Y) with ((47%N :: 47%N :: v) ++ Y).
      rewrite shift_with_rest_n; reflexivity.
    - assert (E : (34%N :: v ++ [34%N]) ++ Y = 34%N :: v ++ 34%N :: Y) by (cbn [app]; rewrite <- app_assoc; reflexivity).
      rewrite (step_string_plain (with_rest p ((34%N :: v ++ [34%N]) ++ Y)) v Y H E).
      rewrite shift_with_rest_n; [reflexivity|]. cbn [List.length]. rewrite app_length. cbn [List.length]. lia.
  Qed.

  Fixpoint lexs_ok2 (ls : list plex2) (X : str) : bool :=
    match ls with
    | [] => true
    | l :: r => lex_ok2 l (hd1 (raws2 r ++ X)) && lexs_ok2 r X
    end.
  Fixpoint lex_items2 (p : st) (ls : list plex2) : list item :=
    match ls with [] => [] | l :: r => lex_item2 p l :: lex_items2 (lex_next2 p l) r end.
  Fixpoint lex_nexts2 (p : st) (ls : list plex2) : st :=
    match ls with [] => p | l :: r => lex_nexts2 (lex_next2 p l) r end.

  Lemma run_prefix2 : forall ls p acc X, lexs_ok2 ls X = true ->
    run uw ud (List.length ls) (with_rest p (raws2 ls ++ X)) acc (with_rest (lex_nexts2 p ls) X) (rev (lex_items2 p ls) ++ acc).
  Proof.
    induction ls as [|l ls IH]; intros p acc X H; cbn [lexs_ok2 raws2 flat_map List.length lex_items2 lex_nexts2 rev app] in *.
    - apply run_0.
    - apply andb_true_iff in H as [Hl Hr]. fold (raws2 ls) in *. rewrite <- app_assoc.
      eapply run_S; [apply lex_step2; exact Hl|].
      rewrite <- app_assoc. cbn [app]. apply IH. exact Hr.
  Qed.

  (* the condition on the prefix looks at the first character of the text that follows, nothing else *)
  Lemma lexs_ok2_hd : forall ls X X', hd1 X = hd1 X' -> lexs_ok2 ls X = lexs_ok2 ls X'.
  Proof.
    induction ls as [|l ls IH]; intros X X' E; [reflexivity|]. cbn [lexs_ok2]. rewrite (IH X X' E). f_equal. f_equal.
    destruct (raws2 ls); [exact E|reflexivity].
  Qed.

  (* ------------------------------------------------------------------ C18 at file level *)
  Theorem lex_rename_file2 : forall ls c v c' v' r items xf,
    lexs_ok2 ls ((c :: v) ++ r) = true -> lexs_ok2 ls ((c' :: v') ++ r) = true ->
    ident_site c v r -> ident_site c' v' r -> List.length v' = List.length v ->
    assoc (c :: v) keywords = None -> assoc (c' :: v') keywords = None ->
    lex uw ud (raws2 ls ++ (c :: v) ++ r) = Ok (items, xf) ->
    let x := lex_nexts2 pos0 ls in
    exists later,
      items = lex_items2 pos0 ls ++ ITok (mktok (s "IDENTIFIER") (line x) (col x) (Some (c :: v))) (off x) (off x + S (List.length v)) :: later /\
      lex uw ud (raws2 ls ++ (c' :: v') ++ r) =
        Ok (lex_items2 pos0 ls ++ ITok (mktok (s "IDENTIFIER") (line x) (col x) (Some (c' :: v'))) (off x) (off x + S (List.length v)) :: later, xf).
  Proof.
    intros ls c v c' v' r items xf Hok Hok' Hs Hs' Hl Hk Hk' Hlex. cbv zeta.
    pose proof (run_prefix2 ls pos0 [] _ Hok) as R1. pose proof (run_prefix2 ls pos0 [] _ Hok') as R2.
    rewrite app_nil_r in R1, R2. rewrite <- init_with_rest in R1, R2.
    assert (Hlen : List.length (raws2 ls ++ (c' :: v') ++ r) = List.length (raws2 ls ++ (c :: v) ++ r)).
    { rewrite !app_length. cbn [List.length]. now rewrite Hl. }
    destruct (lex_rename_file_partial uw ud _ _ _ _ _ c v c' v' r items xf Hlen R1 R2 Hs Hs' Hl Hk Hk' Hlex) as [later [E1 E2]].
    exists later. rewrite rev_involutive in E1, E2. now split.
  Qed.

  (* ------------------------------------------------------------------ C17 (// comments) at file level *)
  Theorem lex_comment_replace_file2 : forall ls v v' tail items xf,
    lexs_ok2 ls (47%N :: 47%N :: v ++ tail) = true ->
    plain_content KLine v = true -> plain_content KLine v' = true -> List.length v' = List.length v -> line_end tail ->
    lex uw ud (raws2 ls ++ 47%N :: 47%N :: v ++ tail) = Ok (items, xf) ->
    let x := lex_nexts2 pos0 ls in
    exists later,
      items = lex_items2 pos0 ls ++ ITok (mktok (s "COMMENT") (line x) (col x) (Some (47%N :: 47%N :: v))) (off x) (off x + (2 + List.length v)) :: later /\
      lex uw ud (raws2 ls ++ 47%N :: 47%N :: v' ++ tail) =
        Ok (lex_items2 pos0 ls ++ ITok (mktok (s "COMMENT") (line x) (col x) (Some (47%N :: 47%N :: v'))) (off x) (off x + (2 + List.length v)) :: later, xf).
  Proof.
    intros ls v v' tail items xf Hok Hv Hv' Hl Ht Hlex. cbv zeta.
    assert (Hok' : lexs_ok2 ls (47%N :: 47%N :: v' ++ tail) = true).
    { rewrite <- Hok. now apply lexs_ok2_hd. }
    pose proof (run_prefix2 ls pos0 [] _ Hok) as R1. pose proof (run_prefix2 ls pos0 [] _ Hok') as R2.
    rewrite app_nil_r in R1, R2. rewrite <- init_with_rest in R1, R2.
    assert (Hlen : List.length (raws2 ls ++ 47%N :: 47%N :: v' ++ tail) = List.length (raws2 ls ++ 47%N :: 47%N :: v ++ tail)).
    { rewrite !app_length. cbn [List.length]. rewrite !app_length. now rewrite Hl. }
    destruct (lex_comment_replace_file_partial uw ud _ _ _ _ _ v v' tail items xf Hlen R1 R2 Hv Hv' Hl Ht Hlex) as [later [E1 E2]].
    exists later. rewrite rev_involutive in E1, E2. now split.
  Qed.
End Prefix3.

(* ================================================================== observation invariance at file level *)
Section FileObs3.
  Variable uw ud : N -> bool.

  Theorem rename_file_obs2 : forall ls c v c' v' r items xf guard f,
    lexs_ok2 ls ((c :: v) ++ r) = true -> lexs_ok2 ls ((c' :: v') ++ r) = true ->
    ident_site c v r -> ident_site c' v' r -> List.length v' = List.length v ->
    assoc (c :: v) keywords = None -> assoc (c' :: v') keywords = None ->
    pair_ok guard (c :: v, c' :: v') = true -> rename_inv f = true -> no_other f = true ->
    lex uw ud (raws2 ls ++ (c :: v) ++ r) = Ok (items, xf) ->
    let x := lex_nexts2 pos0 ls in
    exists later t t',
      items = lex_items2 pos0 ls ++ ITok t (off x) (off x + S (List.length v)) :: later /\
      lex uw ud (raws2 ls ++ (c' :: v') ++ r) = Ok (lex_items2 pos0 ls ++ ITok t' (off x) (off x + S (List.length v)) :: later, xf) /\
      t_type t' = t_type t /\ t_line t' = t_line t /\ t_col t' = t_col t /\
      t_val t = Some (c :: v) /\ t_val t' = Some (c' :: v') /\
      forall o1 o2, eval_obs guard o1 f (c' :: v') = eval_obs guard o2 f (c :: v).
  Proof.
    intros ls c v c' v' r items xf guard f Hok Hok' Hs Hs' Hl Hk Hk' Hp Hf Hn Hlex. cbv zeta.
    destruct (lex_rename_file2 uw ud ls c v c' v' r items xf Hok Hok' Hs Hs' Hl Hk Hk' Hlex) as [later [E1 E2]].
    eexists later, _, _. split; [exact E1|]. split; [exact E2|]. cbn [t_type t_line t_col t_val]. repeat split.
    intros o1 o2. now apply obs_pair.
  Qed.

  Theorem comment_replace_file_obs2 : forall ls v v' tail items xf guard other f,
    lexs_ok2 ls (47%N :: 47%N :: v ++ tail) = true ->
    plain_content KLine v = true -> plain_content KLine v' = true -> List.length v' = List.length v -> line_end tail ->
    replace_inv f = true ->
    lex uw ud (raws2 ls ++ 47%N :: 47%N :: v ++ tail) = Ok (items, xf) ->
    let x := lex_nexts2 pos0 ls in
    exists later t t',
      items = lex_items2 pos0 ls ++ ITok t (off x) (off x + (2 + List.length v)) :: later /\
      lex uw ud (raws2 ls ++ 47%N :: 47%N :: v' ++ tail) = Ok (lex_items2 pos0 ls ++ ITok t' (off x) (off x + (2 + List.length v)) :: later, xf) /\
      t_type t' = t_type t /\ t_line t' = t_line t /\ t_col t' = t_col t /\
      t_val t = Some (47%N :: 47%N :: v) /\ t_val t' = Some (47%N :: 47%N :: v') /\
      eval_obs guard other f (47%N :: 47%N :: v') = eval_obs guard other f (47%N :: 47%N :: v).
  Proof.
    intros ls v v' tail items xf guard other f Hok Hv Hv' Hl Ht Hf Hlex. cbv zeta.
    destruct (lex_comment_replace_file2 uw ud ls v v' tail items xf Hok Hv Hv' Hl Ht Hlex) as [later [E1 E2]].
    eexists later, _, _. split; [exact E1|]. split; [exact E2|]. cbn [t_type t_line t_col t_val]. repeat split.
    pose proof (obs_invariant_replace guard other KLine (s "//") [] v v' f (or_introl eq_refl) (plain_replace_ok KLine v v' Hv Hv' Hl) Hf) as H.
    rewrite !app_nil_r in H. exact H.
  Qed.
End FileObs3.

(* ------------------------------------------------------------------ a real file: the repository's sample 42 header
   (tools/harness/data/hdr.txt = template hud_fields, Proofs/HeaderProofs.v hud_is_the_sample), an empty line, a function *)
Definition header_prefix : list plex2 := flat_map (fun m => [PBlock m; PS (PWs 10)]) (template_mids hud_fields).
Definition hdemo_prefix1 : list plex2 := header_prefix ++ PS (PWs 10) :: map PS demo_prefix1.
Definition hdemo_prefix2 : list plex2 := header_prefix ++ PS (PWs 10) :: map PS demo_prefix2.
(* ... up to the `count` of the return statement: the // comment is part of the prefix *)
Definition hdemo_prefix3 : list plex2 :=
  hdemo_prefix2 ++ [PLine (s " done"); PS (PWs 10); PS (PWs 9); PS (PId 114 (s "eturn")); PS (PWs 32); PS (PBr 40)]%N.
Definition hdemo_rest3 : str := s ");" ++ [10]%N ++ s "}" ++ [10]%N.
Definition hdemo_file : str :=
  lines_text (template hud_fields) ++ [10%N] ++
  s "int" ++ [9%N] ++ s "main(void)" ++ [10%N] ++ s "{" ++ [10; 9]%N ++ s "int" ++ [9%N] ++ s "count;" ++ [10; 10; 9]%N ++
  s "count = 0; // done" ++ [10; 9]%N ++ s "return (count);" ++ [10%N] ++ s "}" ++ [10%N].

Example header_program_meets_conditions :
  let nouni := fun _ : N => false in
  (* the three decompositions spell the same file *)
  raws2 hdemo_prefix1 ++ s "count" ++ demo_rest1 = hdemo_file /\
  raws2 hdemo_prefix2 ++ s "// done" ++ [10; 9]%N ++ s "return (count);" ++ [10]%N ++ s "}" ++ [10]%N = hdemo_file /\
  raws2 hdemo_prefix3 ++ s "count" ++ hdemo_rest3 = hdemo_file /\
  (* rename site 1: the declared `count`, prefix = header, empty line, `int main(void) { int ` *)
  lexs_ok2 hdemo_prefix1 (s "count" ++ demo_rest1) = true /\ lexs_ok2 hdemo_prefix1 (s "iff_2" ++ demo_rest1) = true /\
  ident_site 99%N (s "ount") demo_rest1 /\ ident_site 105%N (s "ff_2") demo_rest1 /\
  (* rename site 2: the `count` of the return statement, the prefix contains header, function start and the // comment *)
  lexs_ok2 hdemo_prefix3 (s "count" ++ hdemo_rest3) = true /\ lexs_ok2 hdemo_prefix3 (s "iff_2" ++ hdemo_rest3) = true /\
  ident_site 99%N (s "ount") hdemo_rest3 /\ ident_site 105%N (s "ff_2") hdemo_rest3 /\
  (* comment site: `// done` *)
  lexs_ok2 hdemo_prefix2 (s "// done" ++ [10; 9]%N ++ s "return (count);" ++ [10]%N ++ s "}" ++ [10]%N) = true /\
  plain_content KLine (s " done") = true /\ plain_content KLine (s " };<(") = true /\
  (* the file lexes, and the prefix items are what the tokenizer produces: 22 header tokens first *)
  match lex nouni nouni hdemo_file with
  | Ok (items, _) => firstn (List.length hdemo_prefix3) items = lex_items2 pos0 hdemo_prefix3 /\
                     List.length header_prefix = 22%nat /\ line (lex_nexts2 pos0 hdemo_prefix3) = 18 /\ col (lex_nexts2 pos0 hdemo_prefix3) = 13
  | _ => False
  end.
Proof. vm_compute. repeat split; reflexivity. Qed.

(* ... and one with a string literal in the prefix: header, empty line, a global with a string initialiser, empty line, `int main` *)
Definition sdemo_prefix : list plex2 :=
  header_prefix ++
  [PS (PWs 10); PS (PId 99 (s "har")); PS (PWs 9); PS (POp 42); PS (PId 103 (s "_msg")); PS (PWs 32); PS (POp 61); PS (PWs 32);
   PStr (s "hello, world"); PS (POp 59); PS (PWs 10); PS (PWs 10); PS (PId 105 (s "nt")); PS (PWs 9)]%N.
Definition sdemo_rest : str := s "(void)" ++ [10%N] ++ s "{" ++ [10; 9]%N ++ s "return (0);" ++ [10%N] ++ s "}" ++ [10%N].

Definition sdemo_file : str :=
  lines_text (template hud_fields) ++ [10%N] ++ s "char" ++ [9%N] ++ s "*g_msg = " ++ [34%N] ++ s "hello, world" ++ [34%N] ++ s ";" ++
  [10; 10]%N ++ s "int" ++ [9%N] ++ s "main(void)" ++ [10%N] ++ s "{" ++ [10; 9]%N ++ s "return (0);" ++ [10%N] ++ s "}" ++ [10%N].

Example string_program_meets_conditions :
  let nouni := fun _ : N => false in
  raws2 sdemo_prefix ++ s "main" ++ sdemo_rest = sdemo_file /\
  lexs_ok2 sdemo_prefix (s "main" ++ sdemo_rest) = true /\ lexs_ok2 sdemo_prefix (s "nul_" ++ sdemo_rest) = true /\
  ident_site 109%N (s "ain") sdemo_rest /\ ident_site 110%N (s "ul_") sdemo_rest /\
  match lex nouni nouni sdemo_file with
  | Ok (items, _) => firstn (List.length sdemo_prefix) items = lex_items2 pos0 sdemo_prefix /\
                     line (lex_nexts2 pos0 sdemo_prefix) = 15 /\ col (lex_nexts2 pos0 sdemo_prefix) = 5
  | _ => False
  end.
Proof. vm_compute. repeat split; reflexivity. Qed.
