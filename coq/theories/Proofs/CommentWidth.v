(* CheckCommentLineLen (Spec/Width.block_comment_check, line_comment_check; pinned to the source by the fingerprint of
   Gen/LineLen and the limits of Gen/Limits): which lines of a block comment are reported. *)
From Coq Require Import List ZArith NArith Bool Lia.
From NV Require Import Model.Base Model.Lexer Spec.Width Proofs.WidthProofs.
Import ListNotations.
Local Open Scope Z_scope.

Fixpoint join_nl (ls : list str) : str :=
  match ls with
  | [] => []
  | [l] => l
  | l :: r => l ++ 10%N :: join_nl r
  end.

Lemma split_nl_nonempty : forall x cur, split_nl x cur <> [].
Proof. induction x as [|c r IH]; intros cur; cbn [split_nl]; [discriminate|]. destruct (N.eqb c 10); [discriminate|apply IH]. Qed.

(* the lines of the value, joined by newlines again, are the value: nothing is lost or invented by the split *)
Lemma split_nl_join : forall x cur, join_nl (split_nl x cur) = rev cur ++ x.
Proof.
  induction x as [|c r IH]; intros cur; cbn [split_nl].
  - cbn [join_nl]. now rewrite app_nil_r.
  - destruct (N.eqb c 10) eqn:E.
    + apply N.eqb_eq in E. subst c. specialize (IH []). cbn [rev app] in IH.
      destruct (split_nl r []) as [|l1 rest] eqn:Es; [exfalso; eapply split_nl_nonempty; exact Es|].
      cbn [join_nl]. cbn [join_nl] in IH. rewrite IH. reflexivity.
    + rewrite IH. cbn [rev]. rewrite <- app_assoc. reflexivity.
Qed.

Lemma split_nl_no_newline : forall x cur l, In l (split_nl x cur) -> forallb (fun c => negb (N.eqb c 10)) cur = true ->
  forallb (fun c => negb (N.eqb c 10)) l = true.
Proof.
  induction x as [|c r IH]; intros cur l H Hc; cbn [split_nl] in H.
  - destruct H as [<-|[]]. rewrite forallb_forall in *. intros y Hy. apply Hc. now apply in_rev.
  - destruct (N.eqb c 10) eqn:E.
    + destruct H as [<-|H].
      * rewrite forallb_forall in *. intros y Hy. apply Hc. now apply in_rev.
      * exact (IH [] l H eq_refl).
    + apply (IH (c :: cur) l H). cbn [forallb]. now rewrite E, Hc.
Qed.

Lemma long_lines_iff : forall ls l0 n,
  In n (long_lines l0 ls) <-> exists i line, nth_error ls i = Some line /\ n = l0 + Z.of_nat i /\ comment_len_limit < zl line.
Proof.
  induction ls as [|l r IH]; intros l0 n; cbn [long_lines].
  - split; [contradiction|]. intros [i [line [H _]]]. destruct i; discriminate.
  - rewrite in_app_iff, IH. split.
    + intros [H|[i [line [H1 [H2 H3]]]]].
      * destruct (comment_len_limit <? zl l) eqn:E; [|contradiction]. destruct H as [<-|[]].
        exists 0%nat, l. repeat split; [lia|]. now apply Z.ltb_lt.
      * exists (S i), line. repeat split; [exact H1|lia|exact H3].
    + intros [i [line [H1 [H2 H3]]]]. destruct i as [|i].
      * left. cbn in H1. inversion H1; subst. apply Z.ltb_lt in H3. rewrite H3. left. lia.
      * right. exists i, line. repeat split; [exact H1|lia|exact H3].
Qed.

(* CheckCommentLineLen on a block comment at (l0, c0): line l0 + i is reported iff the i-th line of the value - the
   first one behind c0 - 1 columns of padding - is longer than the limit (80) *)
Theorem block_comment_check_iff : forall l0 c0 v n,
  In n (block_comment_check l0 c0 v) <->
  exists first more i line, split_nl v [] = first :: more /\
    nth_error ((repeat 32%N (Z.to_nat (c0 - 1)) ++ first) :: more) i = Some line /\ n = l0 + Z.of_nat i /\ 80 < zl line.
Proof.
  intros l0 c0 v n. unfold block_comment_check. destruct (split_nl v []) as [|first more] eqn:E.
  - exfalso. eapply split_nl_nonempty; exact E.
  - rewrite long_lines_iff. destruct comment_limits as [H80 _]. rewrite H80. split.
    + intros [i [line H]]. exists first, more, i, line. split; [reflexivity|exact H].
    + intros [f [m [i [line [H1 H2]]]]]. inversion H1; subst. exists i, line. exact H2.
Qed.

Theorem block_comment_lines_are_the_value : forall v, join_nl (split_nl v []) = v.
Proof. intros v. exact (split_nl_join v []). Qed.

(* a one-line value (no newline): the only candidate line is l0, reported iff padding + text exceeds 80 *)
Corollary block_comment_one_line : forall l0 c0 v, forallb (fun c => negb (N.eqb c 10)) v = true -> 1 <= c0 ->
  block_comment_check l0 c0 v = if 80 <? (c0 - 1) + zl v then [l0] else [].
Proof.
  intros l0 c0 v Hv Hc. unfold block_comment_check.
  assert (Hs : forall x cur, forallb (fun c => negb (N.eqb c 10)) x = true -> split_nl x cur = [rev cur ++ x]).
  { induction x as [|c r IH]; intros cur Hx; cbn [split_nl]; [now rewrite app_nil_r|].
    cbn [forallb] in Hx. apply andb_true_iff in Hx as [H1 H2]. apply negb_true_iff in H1. rewrite H1.
    rewrite (IH (c :: cur) H2). cbn [rev]. now rewrite <- app_assoc. }
  rewrite (Hs v [] Hv). cbn [rev app long_lines]. destruct comment_limits as [H80 _]. rewrite H80.
  unfold zl. rewrite app_length, repeat_length. rewrite Nat2Z.inj_add, Z2Nat.id by lia. now rewrite app_nil_r.
Qed.

Theorem line_comment_check_iff : forall c0 v, line_comment_check c0 v = true <-> 80 < c0 + zl v - 1.
Proof.
  intros c0 v. unfold line_comment_check. destruct comment_limits as [_ H81]. rewrite H81. rewrite Z.ltb_lt. lia.
Qed.

Example block_comment_example :
  block_comment_check 5 3 (s "/* a" ++ 10%N :: repeat 120%N 81 ++ 10%N :: s "*/") = [6].
Proof. vm_compute. reflexivity. Qed.
