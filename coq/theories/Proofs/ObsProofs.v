(* C17 / C18, engine level: every observation form of the covered vocabulary gives the same result on a spelling
   and on its admissibly renamed / replaced version, and every syntactic read of a spelling in the rules
   (Gen/ValueReads.v, regenerated on every run) is of a covered form. *)
From NV Require Import Model.Base Model.Obs Gen.ValueReads Proofs.StrOrder.
From Coq Require Import Lia.

Local Open Scope N_scope.

(* ------------------------------------------------------------------ small facts *)
Lemma str_in_In x l : str_in x l = true -> In x l.
Proof. unfold str_in. intros H. apply existsb_exists in H as [y [Hy E]]. apply str_eqb_eq in E. now subst. Qed.
Lemma In_str_in x l : In x l -> str_in x l = true.
Proof. intros H. unfold str_in. apply existsb_exists. exists x. split; [assumption|apply str_eqb_refl]. Qed.
Lemma str_in_false x l : (forall y, In y l -> str_eqb x y = false) -> str_in x l = false.
Proof.
  intros H. unfold str_in. destruct (existsb (str_eqb x) l) eqn:E; [|reflexivity].
  apply existsb_exists in E as [y [Hy E]]. rewrite (H _ Hy) in E. discriminate.
Qed.

Lemma assoc_In k l v : assoc k l = Some v -> In (k, v) l.
Proof.
  induction l as [|[a b] l IH]; cbn; [discriminate|]. destruct (str_eqb k a) eqn:E.
  - intros H. inversion H; subst. apply str_eqb_eq in E. subst. now left.
  - intros H. right. now apply IH.
Qed.
Lemma In_assoc_some k (l : list (str * str)) : In k (List.map fst l) -> exists v, assoc k l = Some v.
Proof.
  induction l as [|[a b] l IH]; cbn; [intros []|]. destruct (str_eqb k a) eqn:E; [intros _; now exists b|].
  intros [H|H]; [subst; rewrite str_eqb_refl in E; discriminate|now apply IH].
Qed.

Lemma assoc_inj sigma : nodupb (List.map snd sigma) = true ->
  forall v w b, assoc v sigma = Some b -> assoc w sigma = Some b -> v = w.
Proof.
  induction sigma as [|[a c] r IH]; cbn [List.map snd nodupb assoc]; [discriminate|].
  intros Hn v w b. apply andb_true_iff in Hn as [Hc Hr]. apply negb_true_iff in Hc.
  assert (Hno : forall x, assoc x r = Some c -> False).
  { intros x Hx. apply assoc_In in Hx. apply (in_map snd) in Hx. cbn in Hx. apply In_str_in in Hx. congruence. }
  destruct (str_eqb v a) eqn:Ev, (str_eqb w a) eqn:Ew.
  - apply str_eqb_eq in Ev, Ew. congruence.
  - intros H1 H2. inversion H1; subst. destruct (Hno _ H2).
  - intros H1 H2. inversion H2; subst. destruct (Hno _ H1).
  - now apply IH.
Qed.

(* ------------------------------------------------------------------ ASCII case *)
Lemma lower_upper_c c : lower_c (upper_c c) = lower_c c.
Proof.
  unfold lower_c, upper_c, is_lower, is_upper.
  destruct (N.leb_spec 97 c), (N.leb_spec c 122); cbn [andb];
    repeat match goal with |- context [N.leb ?a ?b] => destruct (N.leb_spec a b) end; cbn [andb]; lia.
Qed.
Lemma lower_lower_c c : lower_c (lower_c c) = lower_c c.
Proof.
  unfold lower_c, is_upper.
  destruct (N.leb_spec 65 c), (N.leb_spec c 90); cbn [andb];
    repeat match goal with |- context [N.leb ?a ?b] => destruct (N.leb_spec a b) end; cbn [andb]; lia.
Qed.
Lemma lower_upper v : lower (upper v) = lower v.
Proof. unfold lower, upper. rewrite map_map. apply map_ext. apply lower_upper_c. Qed.
Lemma lower_lower v : lower (lower v) = lower v.
Proof. unfold lower. rewrite map_map. apply map_ext. apply lower_lower_c. Qed.

(* ------------------------------------------------------------------ names that are not special *)
Lemma special_sep a x l : is_special a = false -> lower x = lower a -> lit_special l = true -> str_eqb x l = false.
Proof.
  intros Ha Hx Hl. destruct (str_eqb x l) eqn:E; [|reflexivity]. apply str_eqb_eq in E. subst l.
  unfold lit_special in Hl. unfold is_special in Ha. rewrite Hx in Hl. congruence.
Qed.
Lemma special_sep_in a x ls : is_special a = false -> lower x = lower a -> forallb lit_special ls = true -> str_in x ls = false.
Proof.
  intros Ha Hx Hl. apply str_in_false. intros y Hy. rewrite forallb_forall in Hl. eapply special_sep; eauto.
Qed.
Lemma index_of_none x ls : str_in x ls = false -> forall k, index_of x ls k = None.
Proof.
  induction ls as [|l r IH]; cbn; [reflexivity|]. intros H k. apply orb_false_iff in H as [H1 H2].
  rewrite H1. now apply IH.
Qed.

Lemma inner_lits_sep guard o1 o2 a b x y g : is_special a = false -> is_special b = false ->
  lower x = lower b -> lower y = lower a ->
  inner_lits_ok lit_special g = true -> eval_obs guard o1 g x = eval_obs guard o2 g y.
Proof.
  intros Ha Hb Hx Hy Hg. destruct g; try discriminate; cbn in Hg |- *.
  - now rewrite (special_sep b x l), (special_sep a y l).
  - now rewrite (special_sep_in b x ls), (special_sep_in a y ls).
  - rewrite !index_of_none; [reflexivity|now apply (special_sep_in a)|now apply (special_sep_in b)].
Qed.

(* ------------------------------------------------------------------ identifiers contain no newline *)
Lemma ident_char_not_nl c : ident_char c = true -> (c =? 10) = false.
Proof. destruct (N.eqb_spec c 10) as [->|]; [vm_compute; discriminate|reflexivity]. Qed.
Lemma split_lens_ident v : forallb ident_char v = true -> forall cur, split_lens_aux 10 cur v = [(cur + List.length v)%nat].
Proof.
  induction v as [|c v IH]; cbn [split_lens_aux forallb List.length]; intros H cur; [f_equal; lia|].
  apply andb_true_iff in H as [Hc Hv]. rewrite (ident_char_not_nl _ Hc), IH by assumption. f_equal. lia.
Qed.

(* ------------------------------------------------------------------ (a) C18: one admissible pair *)
Definition no_other (f : form) : bool := match f with FEqOther => false | _ => true end.

Lemma obs_other_irrelevant guard o1 o2 f v : rename_inv f = true -> no_other f = true ->
  eval_obs guard o1 f v = eval_obs guard o2 f v.
Proof.
  intros Hf Hn. destruct f; try reflexivity; try discriminate; cbn in Hf |- *.
  - destruct f; try discriminate; reflexivity.
  - destruct f; try discriminate; reflexivity.
Qed.

Lemma obs_pair guard o1 o2 f a b : pair_ok guard (a, b) = true -> rename_inv f = true -> no_other f = true ->
  eval_obs guard o1 f b = eval_obs guard o2 f a.
Proof.
  intros Hp Hf Hn. unfold pair_ok in Hp. apply orb_true_iff in Hp as [Hp|Hp].
  { apply str_eqb_eq in Hp. subst b. now apply obs_other_irrelevant. }
  repeat (apply andb_true_iff in Hp as [Hp ?]).
  repeat match goal with H : negb _ = true |- _ => apply negb_true_iff in H end.
  unfold same_class in *.
  match goal with H : _ && _ && _ && _ && _ = true |- _ => rename H into Hc end.
  repeat (apply andb_true_iff in Hc as [Hc ?]).
  apply Nat.eqb_eq in Hc.
  repeat match goal with H : Nat.eqb _ _ = true |- _ => apply Nat.eqb_eq in H end.
  match goal with H : Bool.eqb _ _ = true |- _ => apply eqb_prop in H; rename H into Hup end.
  match goal with H : forallb _ prefixes5 = true |- _ => rename H into Hpre end.
  match goal with H : ident_ok b = true |- _ => rename H into Hib end.
  assert (Hia : ident_ok a = true) by assumption.
  assert (Hsa : is_special a = false) by assumption.
  assert (Hsb : is_special b = false) by assumption.
  destruct f; try reflexivity; try discriminate; cbn [eval_obs rename_inv] in Hf |- *.
  - (* FLen *) now rewrite Hc.
  - (* FLenStr *) now rewrite Hc.
  - (* FTruthy *) destruct a, b; try reflexivity; cbn in Hc; discriminate.
  - (* FEqLit *) now apply (inner_lits_sep guard o1 o2 a b b a (FEqLit l)).
  - (* FInLits *) now apply (inner_lits_sep guard o1 o2 a b b a (FInLits ls)).
  - (* FStartsWith *) apply str_in_In in Hf. rewrite forallb_forall in Hpre. specialize (Hpre _ Hf).
    apply eqb_prop in Hpre. now rewrite Hpre.
  - (* FIsUpper *) now rewrite Hup.
  - (* FCharsNotIn *) apply str_eqb_eq in Hf. subst set. f_equal. f_equal. congruence.
  - (* FCharsIn *) apply andb_true_iff in Hf as [Hs Hb]. apply str_eqb_eq in Hs. subst set brk. cbn [fires]. f_equal. congruence.
  - (* FUpper *) destruct f; try discriminate.
    + apply (inner_lits_sep guard o1 o2 a b); auto using lower_upper.
    + apply (inner_lits_sep guard o1 o2 a b); auto using lower_upper.
    + cbn [eval_obs]. f_equal. congruence.
    + apply (inner_lits_sep guard o1 o2 a b); auto using lower_upper.
  - (* FLower *) apply (inner_lits_sep guard o1 o2 a b); auto using lower_lower.
  - (* FSplitLens *) apply str_eqb_eq in Hf. subst sep. unfold split_lens.
    unfold ident_ok in Hia, Hib. destruct a as [|ca a]; [discriminate|]. destruct b as [|cb b]; [discriminate|].
    apply andb_true_iff in Hia as [_ Hia]. apply andb_true_iff in Hib as [_ Hib].
    rewrite !split_lens_ident by assumption. now rewrite Hc.
  - (* FEqFileDerived *) f_equal. congruence.
  - (* FDispatch *) now apply (inner_lits_sep guard o1 o2 a b b a (FDispatch names)).
Qed.

(* ------------------------------------------------------------------ (a) C18: obs_invariant_rename *)
Lemma rename_pair guard sigma v : forallb (pair_ok guard) sigma = true -> In v (List.map fst sigma) ->
  assoc v sigma = Some (rename sigma v) /\ pair_ok guard (v, rename sigma v) = true.
Proof.
  intros Hs Hv. destruct (In_assoc_some _ _ Hv) as [b Hb]. unfold rename. rewrite Hb. split; [reflexivity|].
  rewrite forallb_forall in Hs. apply Hs. now apply assoc_In.
Qed.

Lemma rename_injective guard sigma v w : rename_ok guard sigma = true ->
  In v (List.map fst sigma) -> In w (List.map fst sigma) -> rename sigma v = rename sigma w -> v = w.
Proof.
  intros Hok Hv Hw E. unfold rename_ok in Hok. apply andb_true_iff in Hok as [Hp Hn]. apply andb_true_iff in Hp as [Hp _].
  destruct (rename_pair guard sigma v Hp Hv) as [Av _]. destruct (rename_pair guard sigma w Hp Hw) as [Aw _].
  rewrite <- E in Aw. eapply assoc_inj; eassumption.
Qed.

(* every covered observation of a name of the file (possibly compared with another name w of the file) is
   unchanged by an admissible renaming; unbounded in sigma, v, w, guard *)
Theorem obs_invariant_rename : forall guard sigma f v w,
  rename_ok guard sigma = true -> In v (List.map fst sigma) -> In w (List.map fst sigma) -> rename_inv f = true ->
  eval_obs guard (rename sigma w) f (rename sigma v) = eval_obs guard w f v.
Proof.
  intros guard sigma f v w Hok Hv Hw Hf.
  destruct (no_other f) eqn:Hn.
  - unfold rename_ok in Hok. apply andb_true_iff in Hok as [Hp _]. apply andb_true_iff in Hp as [Hp _].
    destruct (rename_pair guard sigma v Hp Hv) as [_ Pv]. now apply obs_pair.
  - destruct f; try discriminate. cbn [eval_obs]. f_equal.
    destruct (str_eqb v w) eqn:E.
    + apply str_eqb_eq in E. subst w. apply str_eqb_refl.
    + apply str_eqb_neq. intros E2. apply str_eqb_neq in E. apply E. eapply rename_injective; eassumption.
Qed.

(* ------------------------------------------------------------------ (b) C17: obs_invariant_replace *)
Lemma replace_ok_length k : forall old new, replace_ok k old new = true -> List.length new = List.length old.
Proof.
  induction old as [|a o IH]; intros [|b n]; cbn [replace_ok]; try discriminate; [reflexivity|].
  intros H. apply andb_true_iff in H as [_ H]. cbn. f_equal. now apply IH.
Qed.

Lemma content_char_not_nl k b : content_char_ok k b = true -> (b =? 10) = false.
Proof.
  unfold content_char_ok. intros H. apply andb_true_iff in H as [H _]. apply negb_true_iff in H.
  destruct (N.eqb_spec b 10) as [->|]; [discriminate|reflexivity].
Qed.

Lemma replace_ok_split k tail : forall old new, replace_ok k old new = true ->
  forall cur, split_lens_aux 10 cur (new ++ tail) = split_lens_aux 10 cur (old ++ tail).
Proof.
  induction old as [|a o IH]; intros [|b n]; cbn [replace_ok]; try discriminate; [reflexivity|].
  intros H cur. apply andb_true_iff in H as [Hc H]. cbn [app split_lens_aux].
  destruct (N.eqb_spec a 10) as [->|Ha].
  - cbn in Hc. apply N.eqb_eq in Hc. subst b. cbn. now rewrite IH.
  - destruct (N.eqb_spec a 9) as [->|Ha9].
    + cbn in Hc. apply N.eqb_eq in Hc. subst b. cbn. now rewrite IH.
    + cbn in Hc. rewrite (content_char_not_nl _ _ Hc). now apply IH.
Qed.

Lemma split_prefix c o x y : (forall cur, split_lens_aux c cur x = split_lens_aux c cur y) ->
  forall cur, split_lens_aux c cur (o ++ x) = split_lens_aux c cur (o ++ y).
Proof.
  intros H. induction o as [|a o IH]; intros cur; cbn [app split_lens_aux]; [apply H|].
  destruct (a =? c); now rewrite IH.
Qed.

(* every opening delimiter holds a character that no identifier-like literal contains *)
Definition nonident (c : N) : bool := negb (ident_char c).
Lemma opens_have_nonident : forallb (fun o => existsb nonident o) all_opens = true.
Proof. vm_compute. reflexivity. Qed.

Lemma frame_open k o c : In (o, c) (frames k) -> In o all_opens.
Proof.
  intros H. unfold all_opens. apply (in_map fst) in H. cbn [fst] in H. rewrite !map_app.
  destruct k; rewrite ?in_app_iff; tauto.
Qed.

Lemma existsb_app_l {A} (p : A -> bool) a b : existsb p a = true -> existsb p (a ++ b) = true.
Proof. intros H. rewrite existsb_app, H. reflexivity. Qed.

Lemma plain_lit_ne v l : existsb nonident v = true -> lit_plain l = true -> str_eqb v l = false.
Proof.
  intros Hv Hl. destruct (str_eqb v l) eqn:E; [|reflexivity]. apply str_eqb_eq in E. subst l.
  apply existsb_exists in Hv as [c [Hc Hn]]. unfold lit_plain in Hl. rewrite forallb_forall in Hl.
  unfold nonident in Hn. rewrite (Hl _ Hc) in Hn. discriminate.
Qed.

Lemma nonident_map (g : N -> N) v : (forall c, ident_char c = false -> g c = c) ->
  existsb nonident v = true -> existsb nonident (List.map g v) = true.
Proof.
  intros Hg. induction v as [|c v IH]; cbn; [discriminate|]. intros H. apply orb_true_iff in H as [H|H].
  - unfold nonident in H. apply negb_true_iff in H. rewrite (Hg _ H). unfold nonident. now rewrite H.
  - rewrite (IH H). apply orb_true_r.
Qed.
Lemma upper_c_nonident c : ident_char c = false -> upper_c c = c.
Proof.
  unfold ident_char, upper_c. intros H. destruct (is_lower c); [discriminate|reflexivity].
Qed.
Lemma lower_c_nonident c : ident_char c = false -> lower_c c = c.
Proof.
  unfold ident_char, lower_c. intros H. destruct (is_upper c); [|reflexivity].
  rewrite orb_true_r in H. discriminate.
Qed.

Lemma inner_plain guard o1 o2 x y g : existsb nonident x = true -> existsb nonident y = true ->
  inner_lits_ok lit_plain g = true -> eval_obs guard o1 g x = eval_obs guard o2 g y.
Proof.
  intros Hx Hy Hg. destruct g; try discriminate; cbn in Hg |- *.
  - now rewrite (plain_lit_ne x l), (plain_lit_ne y l).
  - rewrite forallb_forall in Hg.
    rewrite (str_in_false x ls), (str_in_false y ls); [reflexivity| |]; intros z Hz; apply plain_lit_ne; auto.
  - rewrite forallb_forall in Hg.
    rewrite !index_of_none; [reflexivity| |]; apply str_in_false; intros z Hz; apply plain_lit_ne; auto.
Qed.

Lemma sw_decided : forall p o x y, decided p o = true -> starts_with p (o ++ x) = starts_with p (o ++ y).
Proof.
  induction p as [|a p IH]; intros o x y H; [reflexivity|].
  destruct o as [|b o].
  - unfold decided in H. cbn in H. discriminate.
  - cbn [app starts_with]. destruct (N.eqb_spec a b) as [->|Hab]; [|reflexivity]. cbn [andb].
    apply IH. unfold decided in *. cbn [List.length starts_with] in H. rewrite N.eqb_refl in H. cbn [andb] in H.
    exact H.
Qed.

(* the value of a comment / literal token is open ++ content ++ close; replacing the content admissibly changes
   no covered observation.  Unbounded in the contents. *)
Theorem obs_invariant_replace : forall guard other k o c old new f,
  In (o, c) (frames k) -> replace_ok k old new = true -> replace_inv f = true ->
  eval_obs guard other f (o ++ new ++ c) = eval_obs guard other f (o ++ old ++ c).
Proof.
  intros guard other k o c old new f Hfr Hr Hf.
  pose proof (replace_ok_length _ _ _ Hr) as Hlen.
  pose proof (frame_open _ _ _ Hfr) as Ho.
  pose proof opens_have_nonident as Hno. rewrite forallb_forall in Hno. specialize (Hno _ Ho).
  assert (Hl : List.length (o ++ new ++ c) = List.length (o ++ old ++ c)) by (rewrite !app_length; lia).
  assert (Nn : existsb nonident (o ++ new ++ c) = true) by now apply existsb_app_l.
  assert (Nd : existsb nonident (o ++ old ++ c) = true) by now apply existsb_app_l.
  destruct f; try reflexivity; try discriminate; cbn [eval_obs replace_inv] in Hf |- *.
  - now rewrite Hl.
  - now rewrite Hl.
  - destruct o as [|x o]; [discriminate|reflexivity].
  - now apply (inner_plain guard other other _ _ (FEqLit l)).
  - now apply (inner_plain guard other other _ _ (FInLits ls)).
  - rewrite forallb_forall in Hf. f_equal. apply sw_decided. now apply Hf.
  - apply inner_plain; [apply nonident_map; [apply upper_c_nonident|assumption]|apply nonident_map; [apply upper_c_nonident|assumption]|assumption].
  - apply inner_plain; [apply nonident_map; [apply lower_c_nonident|assumption]|apply nonident_map; [apply lower_c_nonident|assumption]|assumption].
  - apply str_eqb_eq in Hf. subst sep. f_equal. unfold split_lens. apply split_prefix.
    intros cur. now apply (replace_ok_split k c).
  - now apply (inner_plain guard other other _ _ (FDispatch names)).
Qed.

(* ------------------------------------------------------------------ (c) the tie to the source *)
(* every syntactic read of a spelling in the rules is of a form covered by (a) for identifiers and by (b) for
   comment / literal contents (or provably never applied to that token kind, or a reviewed site) *)
Theorem value_reads_covered : forallb covered value_reads = true.
Proof. vm_compute. reflexivity. Qed.

(* every literal a spelling is compared with today is in the reviewed list of special names *)
Theorem special_literals_reviewed : forallb lit_special special_literals = true.
Proof. vm_compute. reflexivity. Qed.

(* the lexer's keyword table holds only the reviewed keywords: no user name has become a keyword *)
Theorem keywords_reviewed : forallb (fun kv => str_in (fst kv) reviewed_keywords) keywords = true.
Proof. vm_compute. reflexivity. Qed.

(* the table is not empty and contains the reads the properties' anchors name *)
Theorem value_reads_nonempty : (40 <=? N.of_nat (List.length value_reads)) = true.
Proof. vm_compute. reflexivity. Qed.

(* why `<` and `>` may appear in replacement text: no trigraph without `?`, no digraph without `%` or `:` *)
Theorem trigraphs_start_with_qmark : forallb (fun kv => match fst kv with c :: _ => c =? 63 | [] => false end) trigraphs = true.
Proof. vm_compute. reflexivity. Qed.
Theorem digraphs_need_pct_colon :
  forallb (fun kv => match fst kv with [a; b] => chr_in a [37; 58] || chr_in b [37; 58] | _ => false end) digraphs = true.
Proof. vm_compute. reflexivity. Qed.

(* ------------------------------------------------------------------ non-vacuity *)
Example rename_ok_example :
  rename_ok (s "FOO_H") [(s "count", s "iff_2"); (s "g_tab", s "g_nul"); (s "BUF", s "B_X2"); (s "t_list", s "t_int_");
                         (s "include", s "include"); (s "FOO_H", s "FOO_H"); (s "main", s "mai_")] = false
  /\ rename_ok (s "FOO_H") [(s "count", s "iff_2"); (s "g_tab", s "g_nul"); (s "BUF", s "BXF"); (s "t_list", s "t_int_");
                         (s "include", s "include"); (s "FOO_H", s "FOO_H"); (s "main", s "mai_")] = true.
Proof. vm_compute. split; reflexivity. Qed.
Example rename_ok_rejects :
  rename_ok [] [(s "abc", s "int")] = false /\ rename_ok [] [(s "abc", s "g_c")] = false
  /\ rename_ok [] [(s "abc", s "abcd")] = false /\ rename_ok [] [(s "abc", s "aBc")] = false
  /\ rename_ok [] [(s "ab", s "xy"); (s "cd", s "xy")] = false /\ rename_ok [] [(s "ifndex", s "ifndef")] = false
  /\ rename_ok (s "A_H") [(s "a_h", s "b_h")] = false /\ rename_ok [] [(s "abc", s "a_1")] = true
  /\ rename_ok [] [(s "a12", s "_12")] = false /\ rename_ok [] [(s "a12", s "b_2"); (s "x", s "y")] = true.
Proof. vm_compute. repeat split; reflexivity. Qed.
Example obs_rename_example :
  let sigma := [(s "g_tab", s "g_nul"); (s "BUF", s "BXF")] in
  eval_obs [] [] (FStartsWith (s "g_")) (rename sigma (s "g_tab")) = OB true
  /\ eval_obs [] [] FIsUpper (rename sigma (s "BUF")) = OB true
  /\ eval_obs [] (rename sigma (s "BUF")) FEqOther (rename sigma (s "g_tab")) = OB false.
Proof. vm_compute. repeat split; reflexivity. Qed.
Example replace_ok_example :
  replace_ok KBlock (s "a b" ++ [10] ++ s " c") (s "};<" ++ [10] ++ s "if") = true
  /\ replace_ok KBlock (s "abc") (s "a/b") = false /\ replace_ok KString (s "abc") ([97; 34; 98]) = false
  /\ replace_ok KString (s "abc") (s "a'b") = true /\ replace_ok KLine (s "abc") (s "<:b") = false
  /\ replace_ok KLine (s "abc") (s "ab") = false /\ replace_ok KChar (s "a") (s ";") = true
  /\ In (s "/*", s "*/") (frames KBlock) /\ In (s "u8" ++ [34], [34]) (frames KString).
Proof. vm_compute. repeat split; try reflexivity; tauto. Qed.
Example obs_replace_example :
  eval_obs [] [] (FSplitLens [10]) (s "/*" ++ (s "a b" ++ [10] ++ s " c") ++ s "*/") = OL [5; 4]%nat
  /\ eval_obs [] [] (FSplitLens [10]) (s "/*" ++ (s "};<" ++ [10] ++ s "if") ++ s "*/") = OL [5; 4]%nat.
Proof. vm_compute. split; reflexivity. Qed.

(* why the string of CheckPreprocessorInclude.run is "the string of an #include" (reviewed_not_content): the only test that
   rule makes on an IDENTIFIER spelling are `== "include"` (the directive name) and `== "h"` (the extension inside <...>).  A rule that starts treating another
   directive's string the same way (#import ...) changes this table and breaks the theorem. *)
Definition include_guard_literals : list (option str) :=
  List.map (fun e : entry => let '(_, _, _, f) := e in match f with FEqLit l => Some l | _ => None end)
    (filter (fun e : entry => let '(file, fn, kinds, _) := e in
               String.eqb file "norminette/rules/check_preprocessor_include.py" && String.eqb fn "CheckPreprocessorInclude.run"
               && match kinds with [k] => String.eqb k "IDENTIFIER" | _ => false end) value_reads).
Theorem include_string_guarded : include_guard_literals = [Some (s "h"); Some (s "include")].
Proof. vm_compute. reflexivity. Qed.
