(* Token-local theorems about the generated models of the small checks (Gen/RuleChecks.v):
   for EVERY token list, statement length and context view, if the statement contains the pattern an edit
   operator of the C02 catalogue creates, the check emits the expected code on that line. *)
From NV Require Import Model.Base Model.RuleChecks Gen.RuleChecks Proofs.StrOrder.
From Coq Require Import Lia.
Local Open Scope Z_scope.

(* ------------------------------------------------------------------ basics *)
Lemma zlen_nonneg {A} (l : list A) : 0 <= zlen l.
Proof. unfold zlen. lia. Qed.

Lemma peek_nonneg toks i : 0 <= i -> peek toks i = if i <? zlen toks then nth_error toks (Z.to_nat i) else None.
Proof.
  intros H. unfold peek, py_nth. destruct (Z.leb_spec 0 i); [|lia]. cbn [andb].
  destruct (Z.ltb_spec i (zlen toks)); [reflexivity|].
  destruct (Z.ltb_spec i 0); [lia|]. reflexivity.
Qed.

Lemma peek_some_lt toks i t : 0 <= i -> peek toks i = Some t -> i < zlen toks.
Proof. intros H. rewrite peek_nonneg by assumption. destruct (Z.ltb_spec i (zlen toks)); [lia|discriminate]. Qed.

Lemma in_zrange lo hi x : In x (zrange lo hi) <-> lo <= x < hi.
Proof.
  unfold zrange. rewrite in_map_iff. split.
  - intros [k [E H]]. apply in_seq in H. lia.
  - intros H. exists (Z.to_nat (x - lo)). split; [lia|]. apply in_seq. lia.
Qed.

(* `while p(i): i += 1` started at i runs through k consecutive positive positions and stops *)
Lemma skip_while_f_run : forall (k : nat) fuel p i,
  (forall j, i <= j < i + Z.of_nat k -> p j = true) -> p (i + Z.of_nat k) = false -> (k < fuel)%nat ->
  skip_while_f fuel p i = i + Z.of_nat k.
Proof.
  induction k as [|k IH]; intros fuel p i Hrun Hstop Hf.
  - destruct fuel; [lia|]. cbn [skip_while_f]. replace (i + Z.of_nat 0) with i in Hstop by lia. rewrite Hstop. lia.
  - destruct fuel; [lia|]. cbn [skip_while_f]. rewrite Hrun by lia.
    rewrite IH; [lia| |replace (i + 1 + Z.of_nat k) with (i + Z.of_nat (S k)) by lia; exact Hstop|lia].
    intros j Hj. apply Hrun. lia.
Qed.

(* the result of such a loop is never before its start *)
Lemma skip_while_f_ge fuel p i : i <= skip_while_f fuel p i.
Proof.
  revert i; induction fuel as [|f IH]; intros i; cbn [skip_while_f]; [lia|].
  destruct (p i); [|lia]. specialize (IH (i + 1)). lia.
Qed.

Lemma skip_while_run toks p i (k : nat) :
  (forall j, i <= j < i + Z.of_nat k -> p j = true) -> p (i + Z.of_nat k) = false ->
  (forall j, p j = true -> 0 <= i -> j < zlen toks) -> 0 <= i ->
  skip_while toks p i = i + Z.of_nat k.
Proof.
  intros Hrun Hstop Hb Hi. unfold skip_while. apply skip_while_f_run; [assumption|assumption|].
  unfold loop_fuel. destruct k as [|k]; [lia|].
  assert (i + Z.of_nat (S k) - 1 < zlen toks) by (apply Hb; [apply Hrun; lia|lia]).
  unfold zlen in *. lia.
Qed.

Lemma check1_true_lt toks j ty : 0 <= j -> truthy (check1 toks j ty) = true -> j < zlen toks.
Proof.
  intros Hj H. unfold check1 in H. destruct (peek toks j) eqn:E; [|discriminate]. eapply peek_some_lt; eassumption.
Qed.
Lemma checkl_true_lt toks j tys : 0 <= j -> truthy (checkl toks j tys) = true -> j < zlen toks.
Proof.
  intros Hj H. unfold checkl in H. destruct (peek toks j) eqn:E; [|discriminate]. eapply peek_some_lt; eassumption.
Qed.

Lemma check1_some toks i t ty : peek toks i = Some t -> check1 toks i ty = Some (str_eqb (t_type t) ty).
Proof. intros H. unfold check1. now rewrite H. Qed.
Lemma checkl_some toks i t tys : peek toks i = Some t -> checkl toks i tys = Some (str_in (t_type t) tys).
Proof. intros H. unfold checkl. now rewrite H. Qed.

(* the statement starts with exactly k tokens whose type is in `tys` *)
Definition leading (toks : list token) (tys : list str) (k : nat) : Prop :=
  (forall j, 0 <= j < Z.of_nat k -> exists t, peek toks j = Some t /\ str_in (t_type t) tys = true) /\
  (forall t, peek toks (Z.of_nat k) = Some t -> str_in (t_type t) tys = false).

Lemma skip_ws_leading toks k : leading toks ws_no_nl k -> skip_ws toks 0 = Z.of_nat k.
Proof.
  intros [H1 H2]. unfold skip_ws. rewrite (skip_while_run toks _ 0 k); [lia| | | |lia].
  - intros j Hj. destruct (H1 j) as [t [E Q]]; [lia|]. now rewrite (checkl_some _ _ _ _ E), Q.
  - cbn [Z.add]. unfold checkl. destruct (peek toks (Z.of_nat k)) eqn:E; [|reflexivity]. now rewrite (H2 _ eq_refl).
  - intros j Hp _. destruct (Z.ltb_spec j 0) as [Hn|Hn].
    + pose proof (zlen_nonneg toks). lia.
    + eapply checkl_true_lt; eassumption.
Qed.

(* ------------------------------------------------------------------ CheckTernary (operator S05) *)
Definition c_ternary := s "TERNARY_FBIDDEN".
Definition ty_tern := s "TERN_CONDITION".

Definition tern_em (toks : list token) (i : Z) : list em :=
  match peek toks i with
  | Some t => if str_eqb (t_type t) ty_tern then [(c_ternary, t_line t, t_col t)] else []
  | None => []
  end.

Lemma check_ternary_fold toks v : forall l E0,
  for_each l (fun x_i (st : list em * view) => let '(E, v) := st in
     if is_true (check1 toks x_i ty_tern)
     then bind (emit c_ternary (peek toks x_i) E) (fun E => Ok (false, (E, v)))
     else Ok (false, (E, v))) (E0, v)
  = Ok (E0 ++ flat_map (tern_em toks) l, v).
Proof.
  induction l as [|i l IH]; intros E0; cbn [for_each flat_map]; [now rewrite app_nil_r|].
  unfold check1, tern_em at 1. destruct (peek toks i) as [t|] eqn:E; cbn [is_true].
  - destruct (str_eqb (t_type t) ty_tern); cbn [emit bind].
    + rewrite IH. now rewrite <- app_assoc.
    + rewrite IH. reflexivity.
  - rewrite IH. reflexivity.
Qed.

Theorem check_ternary_value toks scope v :
  check_ternary toks scope v = Ok (flat_map (tern_em toks) (zrange 0 scope), v).
Proof. unfold check_ternary. cbv zeta. fold ty_tern c_ternary. rewrite check_ternary_fold. reflexivity. Qed.

(* the check reports exactly the ternary tokens of the statement, each at its own position *)
Theorem check_ternary_iff toks scope v : exists E, check_ternary toks scope v = Ok (E, v) /\
  forall e, In e E <-> exists i t, 0 <= i < scope /\ peek toks i = Some t /\ t_type t = ty_tern /\ e = (c_ternary, t_line t, t_col t).
Proof.
  eexists; split; [apply check_ternary_value|]. intros e. rewrite in_flat_map. split.
  - intros [i [Hi He]]. apply in_zrange in Hi. unfold tern_em in He. destruct (peek toks i) as [t|] eqn:E; [|destruct He].
    destruct (str_eqb (t_type t) ty_tern) eqn:Q; [|destruct He]. destruct He as [He|[]].
    exists i, t. apply str_eqb_eq in Q. repeat split; try lia; auto.
  - intros [i [t [Hi [E [Q He]]]]]. exists i. split; [apply in_zrange; lia|]. unfold tern_em. rewrite E, Q, str_eqb_refl. now left.
Qed.

Theorem check_ternary_reports toks scope v i t :
  0 <= i < scope -> peek toks i = Some t -> t_type t = ty_tern ->
  exists E, check_ternary toks scope v = Ok (E, v) /\ In (c_ternary, t_line t, t_col t) E.
Proof.
  intros Hi E Q. destruct (check_ternary_iff toks scope v) as [X [H1 H2]]. exists X. split; [exact H1|].
  apply H2. exists i, t. auto.
Qed.

Theorem check_ternary_emits_only toks scope v E v' :
  check_ternary toks scope v = Ok (E, v') -> v' = v /\ forall e, In e E -> em_code e = c_ternary.
Proof.
  intros H. destruct (check_ternary_iff toks scope v) as [X [H1 H2]]. rewrite H1 in H. inversion H; subst. split; [reflexivity|].
  intros e He. apply H2 in He as [i [t [_ [_ [_ ->]]]]]. reflexivity.
Qed.

(* ------------------------------------------------------------------ CheckLineLen (operator L01) *)
Definition c_linelen := s "LINE_TOO_LONG".

Definition ll_body := (fun (x_tkn : token) (st : Z * list Z * list em * view) => let '(x_i, x_line_too_long, E, v) := st in
   let join1 := fun (x_i : Z) (x_line_too_long : list Z) (E : list em) (v : view) =>
     let x_i := x_i + 1 in Ok (false, (x_i, x_line_too_long, E, v)) in
   if ((t_col x_tkn) >? 81) && (negb (z_in (t_line x_tkn) x_line_too_long))
   then (bind (emit c_linelen (Some x_tkn) E) (fun E =>
         let x_line_too_long := (t_line x_tkn) :: x_line_too_long in join1 x_i x_line_too_long E v))
   else (join1 x_i x_line_too_long E v)).

Lemma z_in_cons x y l : z_in x (y :: l) = (x =? y) || z_in x l.
Proof. reflexivity. Qed.

Lemma check_line_len_fold v : forall l i0 d0 E0,
  exists i1 d1 X, for_each l ll_body (i0, d0, E0, v) = Ok (i1, d1, E0 ++ X, v) /\
    (forall n, z_in n d1 = true <-> z_in n d0 = true \/ exists c, In (c_linelen, n, c) X) /\
    (forall t, In t l -> t_col t > 81 -> z_in (t_line t) d1 = true) /\
    (forall e, In e X -> exists t, In t l /\ t_col t > 81 /\ e = (c_linelen, t_line t, t_col t)).
Proof.
  induction l as [|t l IH]; intros i0 d0 E0.
  - exists i0, d0, []. cbn [for_each]. rewrite app_nil_r. split; [reflexivity|]. split; [|split].
    + intros n. split; [auto|]. intros [H|[c []]]. exact H.
    + intros t [].
    + intros e [].
  - cbn [for_each]. unfold ll_body at 1. cbv zeta.
    destruct ((t_col t >? 81) && negb (z_in (t_line t) d0)) eqn:C; cbn [emit bind].
    + apply andb_true_iff in C as [C1 C2]. apply Z.gtb_lt in C1. apply negb_true_iff in C2.
      destruct (IH (i0 + 1) (t_line t :: d0) (E0 ++ [(c_linelen, t_line t, t_col t)])) as [i1 [d1 [X [H1 [H2 [H3 H4]]]]]].
      exists i1, d1, ((c_linelen, t_line t, t_col t) :: X). rewrite H1. rewrite <- app_assoc. split; [reflexivity|]. split; [|split].
      * intros n. rewrite H2, z_in_cons. split.
        -- intros [H|[c Hc]].
           ++ apply orb_true_iff in H as [H|H]; [|now left]. apply Z.eqb_eq in H. subst n. right. exists (t_col t). now left.
           ++ right. exists c. now right.
        -- intros [H|[c [Hc|Hc]]].
           ++ left. rewrite H. apply orb_true_r.
           ++ inversion Hc; subst. left. rewrite Z.eqb_refl. reflexivity.
           ++ right. exists c. exact Hc.
      * intros t' [<-|Ht'] Hc.
        -- apply H2. left. rewrite z_in_cons, Z.eqb_refl. reflexivity.
        -- now apply H3.
      * intros e [<-|He].
        -- exists t. split; [now left|]. split; [lia|reflexivity].
        -- destruct (H4 e He) as [t' [A [B D]]]. exists t'. split; [now right|auto].
    + destruct (IH (i0 + 1) d0 E0) as [i1 [d1 [X [H1 [H2 [H3 H4]]]]]].
      exists i1, d1, X. split; [exact H1|]. split; [exact H2|]. split.
      * intros t' [<-|Ht'] Hc; [|now apply H3]. apply H2. left.
        apply andb_false_iff in C as [C|C].
        -- rewrite Z.gtb_ltb in C. rewrite Z.ltb_ge in C. lia.
        -- now apply negb_false_iff in C.
      * intros e He. destruct (H4 e He) as [t' [A B]]. exists t'. split; [now right|exact B].
Qed.

(* every line of the statement that holds a token beyond column 81 is reported once, at a token of that line beyond
   column 81; nothing else is reported *)
Theorem check_line_len_spec toks scope v : exists E, check_line_len toks scope v = Ok (E, v) /\
  (forall t, In t (py_slice_to toks scope) -> t_col t > 81 -> exists c, c > 81 /\ In (c_linelen, t_line t, c) E) /\
  (forall e, In e E -> exists t, In t (py_slice_to toks scope) /\ t_col t > 81 /\ e = (c_linelen, t_line t, t_col t)).
Proof.
  unfold check_line_len. cbv zeta. fold c_linelen.
  change (fun (x_tkn : token) (st : Z * list Z * list em * view) => _) with ll_body.
  destruct (check_line_len_fold v (py_slice_to toks scope) 0 [] []) as [i1 [d1 [X [H1 [H2 [H3 H4]]]]]].
  rewrite H1. cbn [bind app]. exists X. split; [reflexivity|]. split; [|exact H4].
  intros t Ht Hc. apply H3 in Ht; [|exact Hc]. apply H2 in Ht as [Ht|[c Hc']]; [discriminate|].
  exists c. split; [|exact Hc']. destruct (H4 _ Hc') as [t' [_ [B D]]]. inversion D; subst. exact B.
Qed.

Theorem check_line_len_emits_only toks scope v E v' :
  check_line_len toks scope v = Ok (E, v') -> v' = v /\ forall e, In e E -> em_code e = c_linelen.
Proof.
  intros H. destruct (check_line_len_spec toks scope v) as [X [H1 [_ H3]]]. rewrite H1 in H. inversion H; subst. split; [reflexivity|].
  intros e He. destruct (H3 e He) as [t [_ [_ ->]]]. reflexivity.
Qed.

(* ------------------------------------------------------------------ CheckLabel (operators S03, S04) *)
Definition c_goto := s "GOTO_FBIDDEN".
Definition c_label := s "LABEL_FBIDDEN".
Definition in_function (v : view) : bool := str_in (v_scope_name v) [s "Function"; s "ControlStructure"].

(* `goto` as the first token after the indentation of a statement inside a function *)
Theorem check_label_goto toks scope v k t0 tg :
  in_function v = true -> leading toks ws_no_nl k -> peek toks (Z.of_nat k) = Some tg -> t_type tg = s "GOTO" ->
  peek toks 0 = Some t0 ->
  check_label toks scope v = Ok ([(c_goto, t_line t0, t_col t0)], v).
Proof.
  intros Hf Hl Hg Hty H0. unfold check_label. cbv zeta. fold (in_function v). rewrite Hf. cbn [negb].
  rewrite (skip_ws_leading _ _ Hl). rewrite (check1_some _ _ _ _ Hg), Hty, str_eqb_refl. cbn [truthy].
  rewrite H0. reflexivity.
Qed.

(* `identifier :` (a label) at the start of a statement inside a function *)
Theorem check_label_label toks scope v k k2 t0 ti tc :
  in_function v = true -> leading toks ws_no_nl k -> peek toks (Z.of_nat k) = Some ti -> t_type ti = s "IDENTIFIER" ->
  skip_ws toks (Z.of_nat k + 1) = k2 -> peek toks k2 = Some tc -> t_type tc = s "COLON" ->
  peek toks 0 = Some t0 ->
  check_label toks scope v = Ok ([(c_label, t_line t0, t_col t0)], v).
Proof.
  intros Hf Hl Hi Hty Hk2 Hc Hcty H0. unfold check_label. cbv zeta. fold (in_function v). rewrite Hf. cbn [negb].
  rewrite (skip_ws_leading _ _ Hl). rewrite !(check1_some _ _ _ _ Hi), Hty. cbn [truthy is_false].
  replace (str_eqb (s "IDENTIFIER") (s "GOTO")) with false by reflexivity. rewrite str_eqb_refl. cbn [truthy is_false].
  rewrite Hk2, (check1_some _ _ _ _ Hc), Hcty, str_eqb_refl. cbn [truthy]. rewrite H0. reflexivity.
Qed.

Theorem check_label_emits_only toks scope v E v' :
  check_label toks scope v = Ok (E, v') -> v' = v /\ forall e, In e E -> em_code e = c_goto \/ em_code e = c_label.
Proof.
  unfold check_label. cbv zeta. intros H.
  repeat match type of H with
  | (if ?c then _ else _) = _ => destruct c
  | bind (emit _ ?o _) _ = _ => destruct o; cbn [emit bind] in H
  end; try discriminate; inversion H; subst; (split; [reflexivity|]); intros e He; cbn in He;
  repeat (destruct He as [<-|He]; [auto|]); destruct He.
Qed.

(* ------------------------------------------------------------------ CheckManyInstructions (operators S07, S08) *)
Definition c_many := s "TOO_MANY_INSTR".

(* the statement does not start in column 1 <-> TOO_MANY_INSTR at its first token *)
Theorem check_many_instructions_value toks scope v t0 : peek toks 0 = Some t0 ->
  check_many_instructions toks scope v = Ok (if t_col t0 >? 1 then [(c_many, t_line t0, t_col t0)] else [], v).
Proof.
  intros H0. unfold check_many_instructions. cbv zeta. rewrite H0. cbn [need_tok]. destruct (t_col t0 >? 1); reflexivity.
Qed.
Definition r_empty := s "IsEmptyLine".
Definition r_preproc := s "IsPreprocessorStatement".
Definition r_comment := s "IsComment".
Definition r_vardecl := s "IsVarDeclaration".
Definition r_blockend := s "IsBlockEnd".
Definition n_global := s "GlobalScope".

Ltac str_consts :=
  repeat match goal with
  | |- context [str_eqb (s ?a) (s ?b)] =>
      let r := eval vm_compute in (str_eqb (s a) (s b)) in change (str_eqb (s a) (s b)) with r
  | |- context [str_in (s ?a) ?l] =>
      let r := eval vm_compute in (str_in (s a) l) in change (str_in (s a) l) with r
  end.

Ltac len_facts :=
  repeat match goal with
  | |- context [Z.of_nat (Datatypes.length ?l) =? 1] =>
      first [ replace (Z.of_nat (Datatypes.length l) =? 1) with true by (symmetry; apply Z.eqb_eq; cbn [Datatypes.length]; lia)
            | replace (Z.of_nat (Datatypes.length l) =? 1) with false by (symmetry; apply Z.eqb_neq; cbn [Datatypes.length]; lia) ]
  | |- context [Z.of_nat (Datatypes.length ?l) >? 1] =>
      first [ replace (Z.of_nat (Datatypes.length l) >? 1) with true by (symmetry; rewrite Z.gtb_ltb; apply Z.ltb_lt; cbn [Datatypes.length]; lia)
            | replace (Z.of_nat (Datatypes.length l) >? 1) with false by (symmetry; rewrite Z.gtb_ltb; apply Z.ltb_ge; cbn [Datatypes.length]; lia) ]
  end.
(* unfold the generated function on a history of known shape *)
Ltac el_open Hh :=
  unfold check_empty_line; cbv zeta;
  unfold hist_len, hist_back, hist_back_d, set_vdecl_allowed, zlen, r_empty, r_preproc, r_comment, r_vardecl, r_blockend, n_global in *;
  cbn [v_history v_scope_name v_vdecl_allowed]; rewrite Hh;
  cbn [nth_error nth Nat.sub need_hist]; len_facts.
Ltac el_split :=
  repeat match goal with
  | |- context [if ?c then _ else _] => destruct c
  end; cbn [emit bind app].
Ltac in_list := cbn [In]; repeat (first [left; reflexivity | right]).
Ltac el_done := el_split; do 2 eexists; (split; [reflexivity|]); in_list.

Theorem empty_line_file_start toks scope v t0 :
  v_history v = [r_empty] -> peek toks 0 = Some t0 ->
  check_empty_line toks scope v = Ok ([(s "EMPTY_LINE_FILE_START", t_line t0, t_col t0)], v).
Proof.
  intros Hh H0. el_open Hh. rewrite H0. str_consts. reflexivity.
Qed.

Theorem empty_line_consecutive toks scope v t0 rest :
  v_history v = r_empty :: r_empty :: rest -> peek toks 0 = Some t0 ->
  exists E v', check_empty_line toks scope v = Ok (E, v') /\ In (s "CONSECUTIVE_NEWLINES", t_line t0, t_col t0) E.
Proof.
  intros Hh H0. el_open Hh. rewrite H0. str_consts. cbn [negb andb need_hist]. rewrite ?andb_false_r. el_done.
Qed.

Theorem empty_line_space toks scope v t0 h2 rest :
  v_history v = r_empty :: h2 :: rest -> peek toks 0 = Some t0 -> t_type t0 <> s "NEWLINE" ->
  exists E v', check_empty_line toks scope v = Ok (E, v') /\ In (s "SPACE_EMPTY_LINE", t_line t0, t_col t0) E.
Proof.
  intros Hh H0 Hn. apply str_eqb_neq in Hn. el_open Hh. rewrite (check1_some _ _ _ _ H0), H0, Hn. str_consts.
  cbn [negb andb need_hist is_false truthy]. rewrite ?andb_false_r. el_done.
Qed.

Theorem empty_line_function toks scope v t0 h2 rest :
  v_history v = r_empty :: h2 :: rest -> h2 <> r_vardecl -> v_scope_name v <> n_global -> peek toks 0 = Some t0 ->
  exists E v', check_empty_line toks scope v = Ok (E, v') /\ In (s "EMPTY_LINE_FUNCTION", t_line t0, t_col t0) E.
Proof.
  intros Hh H2 Hs H0. apply str_eqb_neq in H2, Hs. el_open Hh. rewrite H0, H2, Hs. str_consts.
  cbn [negb andb need_hist]. rewrite ?andb_false_r. el_done.
Qed.

Theorem empty_line_eof toks scope v t0 h2 rest :
  v_history v = r_empty :: h2 :: rest -> peek toks 0 = Some t0 -> t_type t0 = s "NEWLINE" -> peek toks 1 = None ->
  exists E v', check_empty_line toks scope v = Ok (E, v') /\ In (s "EMPTY_LINE_EOF", t_line t0, t_col t0) E.
Proof.
  intros Hh H0 Hn H1. el_open Hh. rewrite (check1_some _ _ _ _ H0), H0, Hn. change (0 + 1) with 1. rewrite H1. str_consts.
  cbn [negb andb need_hist is_false truthy is_none]. rewrite ?andb_false_r. el_done.
Qed.

Theorem empty_line_after_preproc toks scope v t0 h1 rest :
  v_history v = h1 :: r_preproc :: rest -> str_in h1 [r_preproc; r_empty; r_comment] = false -> v_scope_name v = n_global ->
  peek toks 0 = Some t0 ->
  check_empty_line toks scope v = Ok ([(s "NL_AFTER_PREPROC", t_line t0, t_col t0)], v).
Proof.
  intros Hh H1 Hs H0. cbn [str_in existsb] in H1. apply orb_false_iff in H1 as [A H1]. apply orb_false_iff in H1 as [B H1].
  apply orb_false_iff in H1 as [C _].
  el_open Hh. rewrite H0, Hs, A, B, C. str_consts. cbn [negb andb need_hist emit bind app]. reflexivity.
Qed.

Theorem empty_line_after_var_decl toks scope v t0 h1 rest :
  v_history v = h1 :: rest -> str_in h1 [r_vardecl; r_empty; r_comment] = false ->
  v_scope_name v <> n_global -> v_vdecl_allowed v = true ->
  (str_eqb h1 r_blockend && str_eqb (v_scope_name v) (s "Function")) = false ->
  peek toks 0 = Some t0 ->
  check_empty_line toks scope v = Ok ([(s "NL_AFTER_VAR_DECL", t_line t0, t_col t0)], set_vdecl_allowed v false).
Proof.
  intros Hh H1 Hs Hv Hb H0. cbn [str_in existsb] in H1. apply orb_false_iff in H1 as [A H1]. apply orb_false_iff in H1 as [B H1].
  apply orb_false_iff in H1 as [C _]. apply str_eqb_neq in Hs.
  el_open Hh. rewrite H0, Hs, Hv, A, B. cbn [str_in existsb]. rewrite B, C, Hb, ?andb_false_r. cbn [negb andb orb need_hist emit bind app].
  reflexivity.
Qed.

Theorem check_empty_line_emits_only toks scope v E v' :
  check_empty_line toks scope v = Ok (E, v') -> forall e, In e E -> str_in (em_code e) check_empty_line_codes = true.
Proof.
  unfold check_empty_line. cbv zeta. intros H.
  repeat match type of H with
  | (if ?c then _ else _) = _ => destruct c
  | need_hist ?o _ = _ => destruct o; cbn [need_hist] in H
  | bind (emit _ ?o _) _ = _ => destruct o; cbn [emit bind] in H
  end; try discriminate; inversion H; subst; intros e He; cbn [In app] in He;
  repeat (destruct He as [<-|He]; [reflexivity|]); destruct He.
Qed.

