(* C03, line length.  From the position theorem of the lexer (C09: every token sits at the true position of its
   first raw character) and the independent position specification: the NEWLINE token that ends a line sits in column
   width + 1, no token of the line sits further right, hence `some token of the line has a column beyond 81` is
   equivalent to `the line is wider than 80` - for every source text, every line, every mix of tabs and text. *)
From Coq Require Import Lia ZifyBool.
From NV Require Import Model.Base Model.Diag Model.Lexer Spec.TruePos Spec.LexProps Spec.Width Gen.Limits
  Proofs.LexInv Proofs.LexMain.
Ltac Zify.zify_post_hook ::= Z.to_euclidean_division_equations.

Lemma adv_line_nonl lc ch : N.eqb ch 10 = false -> fst (adv lc ch) = fst lc.
Proof. destruct lc as [l c]. unfold adv. intros ->. destruct (N.eqb ch 9); reflexivity. Qed.
Lemma adv_col_mono lc ch : N.eqb ch 10 = false -> 1 <= snd lc -> snd lc < snd (adv lc ch).
Proof.
  destruct lc as [l c]. unfold adv. intros -> Hc. cbn [snd] in *. destruct (N.eqb ch 9); cbn [snd]; lia.
Qed.
Lemma adv_col_shift l l' c ch : N.eqb ch 10 = false -> snd (adv (l, c) ch) = snd (adv (l', c) ch).
Proof. unfold adv. intros ->. destruct (N.eqb ch 9); reflexivity. Qed.

Lemma pos_after_nonl : forall text lc, no_nl text = true ->
  fst (pos_after lc text) = fst lc /\ (1 <= snd lc -> snd lc <= snd (pos_after lc text)).
Proof.
  induction text as [|ch r IH]; intros lc H; cbn [pos_after fold_left].
  - split; [reflexivity|lia].
  - cbn [no_nl forallb] in H. apply andb_true_iff in H as [Hc Hr]. apply negb_true_iff in Hc.
    destruct (IH (adv lc ch) Hr) as [H1 H2]. fold (pos_after (adv lc ch) r). split.
    + rewrite H1. now apply adv_line_nonl.
    + intros Hc1. pose proof (adv_col_mono lc ch Hc Hc1). lia.
Qed.

(* the column after a newline-free text does not depend on the line number *)
Lemma pos_after_col_line : forall text l l' c, no_nl text = true ->
  snd (pos_after (l, c) text) = snd (pos_after (l', c) text).
Proof.
  induction text as [|ch r IH]; intros l l' c H; cbn [pos_after fold_left]; [reflexivity|].
  cbn [no_nl forallb] in H. apply andb_true_iff in H as [Hc Hr]. apply negb_true_iff in Hc.
  fold (pos_after (adv (l, c) ch) r). fold (pos_after (adv (l', c) ch) r).
  destruct (adv (l, c) ch) as [l1 c1] eqn:E1. destruct (adv (l', c) ch) as [l2 c2] eqn:E2.
  assert (c1 = c2) as ->. { pose proof (adv_col_shift l l' c ch Hc) as Hs. rewrite E1, E2 in Hs. exact Hs. }
  apply IH, Hr.
Qed.

(* prefixes of a newline-free text end no further right than the whole text *)
Lemma pos_after_prefix_le text k lc : no_nl text = true -> 1 <= snd lc ->
  snd (pos_after lc (firstn k text)) <= snd (pos_after lc text).
Proof.
  intros H Hc. rewrite <- (firstn_skipn k text) at 2. rewrite pos_after_app.
  assert (Hs : no_nl (skipn k text) = true).
  { unfold no_nl in *. rewrite forallb_forall in *. intros x Hx. apply H. rewrite <- (firstn_skipn k text). apply in_or_app. now right. }
  assert (Hf : no_nl (firstn k text) = true).
  { unfold no_nl in *. rewrite forallb_forall in *. intros x Hx. apply H. rewrite <- (firstn_skipn k text). apply in_or_app. now left. }
  destruct (pos_after_nonl (firstn k text) lc Hf) as [_ H2].
  destruct (pos_after_nonl (skipn k text) (pos_after lc (firstn k text)) Hs) as [_ H3]. specialize (H2 Hc). lia.
Qed.

(* after a text that is empty or ends with a newline we are in column 1 of line 1 + (number of newlines) *)
Definition ends_lines (pre : str) : bool := match rev pre with [] => true | c :: _ => N.eqb c 10 end.

Lemma pos_after_line_count : forall pre lc, fst (pos_after lc pre) = fst lc + count_nl pre.
Proof.
  induction pre as [|ch r IH]; intros [l c]; cbn [pos_after fold_left].
  - unfold count_nl. cbn. lia.
  - fold (pos_after (adv (l, c) ch) r). rewrite IH. unfold count_nl, adv. cbn [filter].
    destruct (N.eqb ch 10) eqn:E.
    + rewrite N.eqb_sym in E. rewrite E. cbn [fst List.length]. lia.
    + rewrite N.eqb_sym in E. rewrite E. destruct (N.eqb ch 9); cbn [fst]; lia.
Qed.

Lemma pos_after_ends_lines pre lc : pre <> [] -> ends_lines pre = true -> snd (pos_after lc pre) = 1.
Proof.
  intros Hne He. unfold ends_lines in He. destruct (rev pre) as [|c r] eqn:E.
  - apply (f_equal (@rev N)) in E. rewrite rev_involutive in E. cbn in E. contradiction.
  - apply (f_equal (@rev N)) in E. rewrite rev_involutive in E. cbn in E. subst pre.
    rewrite pos_after_app. cbn [pos_after fold_left]. apply N.eqb_eq in He. subst c.
    destruct (pos_after lc (rev r)) as [l0 c0]. reflexivity.
Qed.

Lemma start_of_line pre : ends_lines pre = true -> pos_after (1, 1) pre = (1 + count_nl pre, 1).
Proof.
  intros He. destruct pre as [|a p] eqn:E.
  - reflexivity.
  - rewrite <- E in *. assert (Hne : pre <> []) by (subst; discriminate).
    pose proof (pos_after_line_count pre (1, 1)) as H1. pose proof (pos_after_ends_lines pre (1, 1) Hne He) as H2.
    destruct (pos_after (1, 1) pre) as [l c]. cbn [fst snd] in *. subst. reflexivity.
Qed.

Section Lines.
  (* a source text cut at one of its lines: pre (complete lines), the line, and what follows *)
  Variables pre line post : str.
  Hypothesis Hpre : ends_lines pre = true.
  Hypothesis Hline : no_nl line = true.
  Let src := pre ++ line ++ post.
  Let lno := 1 + count_nl pre.

  Lemma firstn_in_line k : (k <= List.length line)%nat ->
    firstn (List.length pre + k) src = pre ++ firstn k line.
  Proof.
    intros Hk. unfold src. rewrite firstn_app, firstn_all2 by lia.
    replace (List.length pre + k - List.length pre)%nat with k by lia.
    rewrite firstn_app. replace (k - List.length line)%nat with 0%nat by lia. cbn [firstn]. now rewrite app_nil_r.
  Qed.

  (* the position of the k-th character of the line *)
  Theorem pos_in_line k : (k <= List.length line)%nat ->
    true_pos src (List.length pre + k) = (lno, snd (pos_after (1, 1) (firstn k line))).
  Proof.
    intros Hk. unfold true_pos. rewrite (firstn_in_line k Hk), pos_after_app, (start_of_line pre Hpre).
    assert (Hf : no_nl (firstn k line) = true).
    { unfold no_nl in *. rewrite forallb_forall in *. intros x Hx. apply Hline. rewrite <- (firstn_skipn k line). apply in_or_app. now left. }
    destruct (pos_after_nonl (firstn k line) (1 + count_nl pre, 1) Hf) as [H1 _].
    rewrite (pos_after_col_line (firstn k line) 1 (1 + count_nl pre) 1 Hf).
    destruct (pos_after (1 + count_nl pre, 1) (firstn k line)) as [l c]. cbn [fst snd] in *. subst. reflexivity.
  Qed.

  (* the character that ends the line (its newline, or the end of the text) sits in column width + 1 *)
  Corollary pos_end_of_line : true_pos src (List.length pre + List.length line) = (lno, line_width line + 1).
  Proof. rewrite (pos_in_line (List.length line) (le_n _)), firstn_all. unfold line_width. f_equal. lia. Qed.

  (* nothing on the line sits further right *)
  Corollary pos_in_line_le k : (k <= List.length line)%nat ->
    fst (true_pos src (List.length pre + k)) = lno /\ snd (true_pos src (List.length pre + k)) <= line_width line + 1.
  Proof.
    intros Hk. rewrite (pos_in_line k Hk). cbn [fst snd]. split; [reflexivity|].
    pose proof (pos_after_prefix_le line k (1, 1) Hline). cbn [snd] in H. unfold line_width. lia.
  Qed.

  (* with the lexer's position theorem: tokens of this line *)
  Variables uw ud : N -> bool.
  Variables (items : list item) (xf : st).
  Hypothesis Hlex : lex uw ud src = Ok (items, xf).

  Lemma token_pos t lo hi : In (ITok t lo hi) items -> true_pos src lo = (t_line t, t_col t).
  Proof.
    intros Hin. destruct (lex_positions_and_tiling uw ud src items xf Hlex) as [_ [Hc _]].
    unfold c09_ok in Hc. rewrite forallb_forall in Hc. specialize (Hc _ Hin). cbn in Hc. unfold c09_tok_ok in Hc.
    destruct (true_pos src lo) as [l c]. apply andb_true_iff in Hc as [H1 H2]. apply Z.eqb_eq in H1, H2. now subst.
  Qed.

  (* a token that starts on this line is on line lno, at a column <= width + 1 *)
  Theorem token_in_line t lo hi k : In (ITok t lo hi) items -> lo = (List.length pre + k)%nat -> (k <= List.length line)%nat ->
    t_line t = lno /\ t_col t <= line_width line + 1.
  Proof.
    intros Hin -> Hk. pose proof (token_pos t _ hi Hin) as Hp. destruct (pos_in_line_le k Hk) as [H1 H2].
    rewrite Hp in H1, H2. exact (conj H1 H2).
  Qed.

  (* the token that starts at the end of the line (the NEWLINE token when the line is code) is at column width + 1 *)
  Theorem end_token_column t hi : In (ITok t (List.length pre + List.length line) hi) items ->
    t_line t = lno /\ t_col t = line_width line + 1.
  Proof.
    intros Hin. pose proof (token_pos t _ hi Hin) as Hp. rewrite pos_end_of_line in Hp. inversion Hp. split; reflexivity.
  Qed.

  (* the equivalence CheckLineLen relies on: given the end-of-line token, `some token starting on this line has a
     column beyond L + 1` iff `the line is wider than L`, for every L *)
  Theorem width_iff_token_beyond (L : Z) tn hn : In (ITok tn (List.length pre + List.length line) hn) items ->
    ((exists t lo hi k, In (ITok t lo hi) items /\ lo = (List.length pre + k)%nat /\ (k <= List.length line)%nat /\ L + 1 < t_col t)
     <-> L < line_width line).
  Proof.
    intros Hn. split.
    - intros [t [lo [hi [k [Hin [Hlo [Hk Hc]]]]]]]. destruct (token_in_line t lo hi k Hin Hlo Hk) as [_ Hle]. lia.
    - intros Hw. exists tn, (List.length pre + List.length line)%nat, hn, (List.length line).
      destruct (end_token_column tn hn Hn) as [_ Hc]. repeat split; try assumption; try lia.
  Qed.
End Lines.

(* ------------------------------------------------------------------ CheckLineLen on a statement *)
Lemma col_limit_is_81 : col_limit = 81.
Proof. reflexivity. Qed.
Lemma comment_limits : comment_len_limit = 80 /\ line_comment_limit = 81.
Proof. split; reflexivity. Qed.

Lemma line_len_check_sound : forall toks seen l c, In (l, c) (line_len_check seen toks) ->
  exists t, In t toks /\ t_line t = l /\ t_col t = c /\ col_limit < c /\ ~ In l seen.
Proof.
  induction toks as [|t r IH]; intros seen l c H; cbn [line_len_check] in H; [contradiction|].
  destruct ((col_limit <? t_col t) && negb (existsb (Z.eqb (t_line t)) seen)) eqn:E.
  - destruct H as [H|H].
    + inversion H; subst. apply andb_true_iff in E as [E1 E2]. exists t. repeat split; try (now left); try lia.
      apply negb_true_iff in E2. intros Hin. assert (existsb (Z.eqb (t_line t)) seen = true).
      { apply existsb_exists. exists (t_line t). split; [exact Hin|apply Z.eqb_refl]. } congruence.
    + destruct (IH _ _ _ H) as [t' [H1 [H2 [H3 [H4 H5]]]]]. exists t'. repeat split; auto; [now right|].
      intros Hin. apply H5. now right.
  - destruct (IH _ _ _ H) as [t' [H1 [H2 [H3 [H4 H5]]]]]. exists t'. repeat split; auto. now right.
Qed.

(* a line of the statement that has a token beyond the limit is reported (unless already reported) *)
Lemma line_len_check_complete : forall toks seen t, In t toks -> col_limit < t_col t -> ~ In (t_line t) seen ->
  exists c, In (t_line t, c) (line_len_check seen toks).
Proof.
  induction toks as [|t0 r IH]; intros seen t Hin Hc Hs; [contradiction|]. cbn [line_len_check].
  destruct ((col_limit <? t_col t0) && negb (existsb (Z.eqb (t_line t0)) seen)) eqn:E.
  - destruct (Z.eq_dec (t_line t0) (t_line t)) as [El|El].
    + exists (t_col t0). left. now rewrite El.
    + destruct Hin as [->|Hin]; [contradiction|].
      destruct (IH (t_line t0 :: seen) t Hin Hc) as [c H]; [intros [H|H]; [contradiction|contradiction]|].
      exists c. now right.
  - destruct Hin as [->|Hin].
    + exfalso. apply andb_false_iff in E as [E|E]; [lia|]. apply negb_false_iff, existsb_exists in E as [x [Hx Hx2]].
      apply Z.eqb_eq in Hx2. subst. contradiction.
    + exact (IH seen t Hin Hc Hs).
Qed.

(* each line is reported at most once per statement *)
Lemma line_len_check_once : forall toks seen, NoDup (map fst (line_len_check seen toks)) /\
  (forall l, In l (map fst (line_len_check seen toks)) -> ~ In l seen).
Proof.
  induction toks as [|t r IH]; intros seen; cbn [line_len_check]; [split; [constructor|intros l []]|].
  destruct ((col_limit <? t_col t) && negb (existsb (Z.eqb (t_line t)) seen)) eqn:E.
  - destruct (IH (t_line t :: seen)) as [H1 H2]. cbn [map fst]. split.
    + constructor; [|exact H1]. intros Hin. apply (H2 _ Hin). now left.
    + intros l [<-|Hl].
      * apply andb_true_iff in E as [_ E2]. apply negb_true_iff in E2. intros Hin.
        assert (existsb (Z.eqb (t_line t)) seen = true) by (apply existsb_exists; exists (t_line t); split; [exact Hin|apply Z.eqb_refl]).
        congruence.
      * intros Hin. apply (H2 _ Hl). now right.
  - exact (IH seen).
Qed.

Theorem line_len_check_iff toks l :
  In l (map fst (line_len_check [] toks)) <-> exists t, In t toks /\ t_line t = l /\ 81 < t_col t.
Proof.
  rewrite <- col_limit_is_81. split.
  - intros H. apply in_map_iff in H as [[l' c] [E H]]. cbn in E. subst l'.
    destruct (line_len_check_sound _ _ _ _ H) as [t [H1 [H2 [H3 [H4 _]]]]]. exists t. repeat split; auto. lia.
  - intros [t [H1 [H2 H3]]]. destruct (line_len_check_complete toks [] t H1 H3 (fun x => x)) as [c Hc].
    apply in_map_iff. exists (t_line t, c). split; [exact H2|exact Hc].
Qed.

Example width_example :
  line_width (s "	int	x;") = 10 /\ line_width ([9; 9; 97]%N) = 9 /\
  line_len_check [] [mktok (s "IDENTIFIER") 3 80 (Some (s "ab")); mktok (s "SEMI_COLON") 3 82 None; mktok (s "NEWLINE") 3 83 None] = [(3, 82)].
Proof. vm_compute. repeat split. Qed.
