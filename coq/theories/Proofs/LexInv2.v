(* Part 2: every sub-parser, get_next_token's step, and the whole tokenizer preserve the position
   invariant, advance, and stamp tokens with the position of the state they started in. *)
From NV Require Import Model.Base Model.Diag Model.Lexer Model.NumRe Spec.TruePos Spec.Normalise Spec.LexProps Proofs.StrOrder Proofs.LexInv.
From Coq Require Import Lia.

Local Open Scope Z_scope.

Definition tok_post (src : ctx) (x : st) (r : pres) : Prop :=
  match r with
  | PTok t x' => wf src x' /\ (off x < off x')%nat /\ t_line t = line x /\ t_col t = col x
  | _ => True
  end.

(* a state reachable from x by consuming at least m raw characters *)
Definition after (src : ctx) (x : st) (m : nat) (x' : st) : Prop := wf src x' /\ (off x + m <= off x')%nat.

Lemma after_le src x m m' x' : after src x m x' -> (m' <= m)%nat -> after src x m' x'.
Proof. intros [H1 H2] H. split; [assumption|lia]. Qed.

Lemma after_trans src x m x1 k x2 : after src x m x1 -> after src x1 k x2 -> after src x (m + k) x2.
Proof. intros [H1 H2] [H3 H4]. split; [assumption|lia]. Qed.

Lemma after_add_err src x m d x' : after src x m x' -> after src x m (add_err d x').
Proof. intros [H1 H2]. split; [now apply wf_add_err|exact H2]. Qed.

Lemma pop1_after src us ue x : wf src x ->
  match pop1 us ue x with
  | PopOk _ x' => after src x 1 x'
  | PopEOF x' => after src x 0 x'
  | PopMIL => True
  end.
Proof.
  intros Hw. pose proof (pop1_post src us ue x Hw) as H.
  destruct (pop1 us ue x); cbn in H; [destruct H; split; [assumption|lia]|destruct H; split; [assumption|lia]|exact I].
Qed.

Lemma popn_after src n x acc : wf src x ->
  match popn n x acc with
  | PopOk _ x' => after src x n x'
  | PopEOF x' => after src x 0 x'
  | PopMIL => True
  end.
Proof.
  intros Hw. pose proof (popn_post src n x acc Hw) as H.
  destruct (popn n x acc); [destruct H; split; [assumption|lia]|destruct H; split; [assumption|lia]|exact I].
Qed.

Lemma of_popres_post src x0 (P : pres -> Prop) r k m :
  match r with PopOk _ x' => after src x0 m x' | PopEOF x' => after src x0 0 x' | PopMIL => True end ->
  (forall t x', after src x0 m x' -> P (k t x')) ->
  (forall e, P (PExn e)) ->
  P (of_popres r k).
Proof. intros Hr Hk He. destruct r; cbn; auto. Qed.

(* ------------------------------------------------------------------ loops *)
Lemma char_loop_after src : forall fuel l0 c0 value chars x, wf src x ->
  match char_loop fuel l0 c0 value chars x with
  | CDone _ _ x' => after src x 0 x'
  | CMIL => True
  end.
Proof.
  induction fuel as [|fuel IH]; intros l0 c0 value chars x Hw; cbn [char_loop]; [exact I|].
  pose proof (pop1_after src false true x Hw) as H.
  destruct (pop1 false true x) as [c x'|x'|]; [| |exact I].
  - destruct (is_nl c).
    + apply after_add_err. destruct H as [Hw' _]. split; [now apply wf_restore|cbn; lia].
    + destruct (str_eqb c [39%N]); [eapply after_le; [exact H|lia]|].
      destruct H as [Hw' Ho]. specialize (IH l0 c0 (value ++ c) (S chars) x' Hw').
      destruct (char_loop fuel l0 c0 (value ++ c) (S chars) x'); [|exact I].
      destruct IH. split; [assumption|lia].
  - now apply after_add_err.
Qed.

Lemma string_loop_after src : forall fuel value x, wf src x ->
  match string_loop fuel value x with
  | SDone _ _ x' => after src x 0 x'
  | _ => True
  end.
Proof.
  induction fuel as [|fuel IH]; intros value x Hw; cbn [string_loop]; [exact I|].
  destruct (peek1 (rest x)); [|split; [assumption|lia]].
  pose proof (pop1_after src false true x Hw) as H.
  destruct (pop1 false true x) as [c x'|x'|]; [| |exact I].
  - destruct (str_eqb c [34%N]); [eapply after_le; [exact H|lia]|].
    destruct H as [Hw' Ho]. specialize (IH (value ++ c) x' Hw').
    destruct (string_loop fuel (value ++ c) x'); try exact I. destruct IH. split; [assumption|lia].
  - destruct H as [Hw' Ho]. specialize (IH value x' Hw').
    destruct (string_loop fuel value x'); try exact I. destruct IH. split; [assumption|lia].
Qed.

Lemma mc_loop_after src : forall fuel value x, wf src x ->
  match mc_loop fuel value x with
  | MDone _ _ x' => after src x 0 x'
  | _ => True
  end.
Proof.
  induction fuel as [|fuel IH]; intros value x Hw; cbn [mc_loop]; [exact I|].
  destruct (peek1 (rest x)); [|split; [assumption|lia]].
  pose proof (pop1_after src true false x Hw) as H.
  destruct (pop1 true false x) as [c x'|x'|]; [|exact H|exact I].
  cbv zeta. destruct (ends_with (s "*/") (value ++ c)); [eapply after_le; [exact H|lia]|].
  destruct H as [Hw' Ho]. specialize (IH (value ++ c) x' Hw').
  destruct (mc_loop fuel (value ++ c) x'); try exact I. destruct IH. split; [assumption|lia].
Qed.

Lemma lc_loop_after src : forall fuel value x, wf src x ->
  match lc_loop fuel value x with
  | LDone _ x' => after src x 0 x'
  | _ => True
  end.
Proof.
  induction fuel as [|fuel IH]; intros value x Hw; cbn [lc_loop]; [exact I|].
  destruct (peek1 (rest x)) as [[c n]|]; [|split; [assumption|lia]].
  destruct (is_nl c); [split; [assumption|lia]|].
  pose proof (pop1_after src false false x Hw) as H.
  destruct (pop1 false false x) as [t x'|x'|]; [|exact H|exact I].
  destruct H as [Hw' Ho]. specialize (IH (value ++ t) x' Hw').
  destruct (lc_loop fuel (value ++ t) x'); try exact I. destruct IH. split; [assumption|lia].
Qed.

Lemma ident_loop_after src : forall fuel value x, wf src x ->
  match ident_loop fuel value x with
  | IDone _ x' => after src x 0 x'
  | _ => True
  end.
Proof.
  induction fuel as [|fuel IH]; intros value x Hw; cbn [ident_loop]; [exact I|].
  destruct (rest x) as [|c r] eqn:Er; [split; [assumption|lia]|].
  destruct (is_ident_char c); cbn [negb]; [|split; [assumption|lia]].
  pose proof (pop1_after src false false x Hw) as H.
  destruct (pop1 false false x) as [t x'|x'|]; [|exact I|exact I].
  destruct H as [Hw' Ho]. specialize (IH (value ++ t) x' Hw').
  destruct (ident_loop fuel (value ++ t) x'); try exact I. destruct IH. split; [assumption|lia].
Qed.

Lemma quote_prefix_after src q : forall ps x, wf src x ->
  match quote_prefix q ps x with
  | Some (PopOk _ x') => after src x 0 x'
  | _ => True
  end.
Proof.
  induction ps as [|p ps IH]; intros x Hw; cbn [quote_prefix]; [split; [assumption|lia]|].
  destruct (raw_peek (S (List.length p)) (rest x)) as [[|a r]|]; try exact I.
  destruct (starts_with p (a :: r) && ends_with [q] (a :: r)); [|now apply IH].
  pose proof (popn_after src (List.length p) x [] Hw) as H.
  destruct (popn (List.length p) x []); try exact I. eapply after_le; [exact H|lia].
Qed.

(* ------------------------------------------------------------------ sub-parsers *)
Lemma wf_if_add_err src (b : bool) d x : wf src x -> wf src (if b then add_err d x else x).
Proof. destruct b; [apply wf_add_err|auto]. Qed.
Lemma off_if_add_err (b : bool) d x : off (if b then add_err d x else x) = off x.
Proof. now destruct b. Qed.

Lemma parse_char_literal_post src x : wf src x -> tok_post src x (parse_char_literal x).
Proof.
  intros Hw. unfold parse_char_literal.
  pose proof (quote_prefix_after src 39%N quote_prefixes x Hw) as H1.
  destruct (quote_prefix 39%N quote_prefixes x) as [[pre x1|x1|]|]; try exact I.
  destruct (first_is 39%N (rest x1)); cbn [negb]; [|exact I].
  destruct H1 as [Hw1 Ho1].
  pose proof (pop1_after src false false x1 Hw1) as H2.
  destruct (pop1 false false x1) as [q x2|x2|]; try exact I.
  destruct H2 as [Hw2 Ho2].
  pose proof (char_loop_after src char_loop_bound (line x) (col x) (pre ++ q) 0 x2 Hw2) as H3.
  destruct (char_loop char_loop_bound (line x) (col x) (pre ++ q) 0 x2) as [value chars x3|]; [|exact I].
  destruct H3 as [Hw3 Ho3]. cbv zeta. cbn [tok_post t_line t_col].
  split; [apply wf_if_add_err, wf_if_add_err; assumption|].
  split; [rewrite !off_if_add_err; lia|]. split; reflexivity.
Qed.

Lemma parse_string_literal_post src x : wf src x -> tok_post src x (parse_string_literal x).
Proof.
  intros Hw. unfold parse_string_literal.
  destruct (peek1 (rest x)); [|exact I].
  pose proof (quote_prefix_after src 34%N quote_prefixes x Hw) as H1.
  destruct (quote_prefix 34%N quote_prefixes x) as [[pre x1|x1|]|]; try exact I.
  destruct (first_is 34%N (rest x1)); cbn [negb]; [|exact I].
  destruct H1 as [Hw1 Ho1].
  pose proof (pop1_after src false false x1 Hw1) as H2.
  destruct (pop1 false false x1) as [q x2|x2|]; try exact I.
  destruct H2 as [Hw2 Ho2].
  pose proof (string_loop_after src (S (List.length (rest x2))) (pre ++ q) x2 Hw2) as H3.
  destruct (string_loop (S (List.length (rest x2))) (pre ++ q) x2) as [value closed x3| |]; try exact I.
  destruct H3 as [Hw3 Ho3]. cbv zeta. cbn [tok_post t_line t_col].
  split; [destruct closed; [assumption|now apply wf_add_err]|].
  split; [destruct closed; cbn; lia|]. split; reflexivity.
Qed.

Lemma parse_multi_line_comment_post src x : wf src x -> tok_post src x (parse_multi_line_comment x).
Proof.
  intros Hw. unfold parse_multi_line_comment.
  destruct (raw_peek 2 (rest x)) as [r|]; [|exact I].
  destruct (str_eqb r (s "/*")); cbn [negb]; [|exact I].
  apply (of_popres_post src x (tok_post src x) _ _ 2%nat); [now apply popn_after| |intros; exact I].
  intros v x1 [Hw1 Ho1]. cbv zeta.
  pose proof (mc_loop_after src (S (List.length (rest x1))) v x1 Hw1) as H3.
  destruct (mc_loop (S (List.length (rest x1))) v x1) as [value eof x2| |]; try exact I.
  destruct H3 as [Hw2 Ho2]. cbn [tok_post t_line t_col].
  split; [destruct eof; [now apply wf_add_err|assumption]|].
  split; [destruct eof; cbn; lia|]. split; reflexivity.
Qed.

Lemma parse_line_comment_post src x : wf src x -> tok_post src x (parse_line_comment x).
Proof.
  intros Hw. unfold parse_line_comment.
  destruct (raw_peek 2 (rest x)) as [r|]; [|exact I].
  destruct (str_eqb r (s "//")); cbn [negb]; [|exact I].
  apply (of_popres_post src x (tok_post src x) _ _ 2%nat); [now apply popn_after| |intros; exact I].
  intros v x1 [Hw1 Ho1].
  pose proof (lc_loop_after src (S (List.length (rest x1))) v x1 Hw1) as H3.
  destruct (lc_loop (S (List.length (rest x1))) v x1) as [value x2| |]; try exact I.
  destruct H3 as [Hw2 Ho2]. cbn [tok_post t_line t_col].
  split; [assumption|]. split; [lia|]. split; reflexivity.
Qed.

Lemma parse_identifier_post src x : wf src x -> tok_post src x (parse_identifier x).
Proof.
  intros Hw. unfold parse_identifier.
  destruct (rest x) as [|c r] eqn:Er; [exact I|].
  destruct (is_ident_start c); cbn [negb]; [|exact I].
  apply (of_popres_post src x (tok_post src x) _ _ 1%nat); [now apply pop1_after| |intros; exact I].
  intros v x1 [Hw1 Ho1].
  pose proof (ident_loop_after src (S (List.length (rest x1))) v x1 Hw1) as H3.
  destruct (ident_loop (S (List.length (rest x1))) v x1) as [value x2|]; try exact I.
  destruct H3 as [Hw2 Ho2].
  destruct (assoc value keywords); cbn [tok_post t_line t_col]; (split; [assumption|]; split; [lia|]; split; reflexivity).
Qed.

Lemma op_token_post src x r m : (1 <= m)%nat ->
  match r with PopOk _ x' => after src x m x' | PopEOF x' => after src x 0 x' | PopMIL => True end ->
  tok_post src x (op_token x r).
Proof.
  intros Hm Hr. unfold op_token.
  apply (of_popres_post src x (tok_post src x) _ _ m); [exact Hr| |intros; exact I].
  intros t x1 [Hw1 Ho1]. destruct (assoc t operators); [|exact I].
  cbn [tok_post t_line t_col]. split; [assumption|]. split; [lia|]. split; reflexivity.
Qed.

Lemma parse_operator_post src x : wf src x -> tok_post src x (parse_operator x).
Proof.
  intros Hw. unfold parse_operator.
  destruct (peek1 (rest x)) as [[char n]|]; [|exact I].
  destruct (is_substr char op_start_chars); cbn [negb]; [|exact I].
  cbv zeta.
  assert (H1 : tok_post src x (op_token x (pop1 false false x))).
  { apply (op_token_post src x _ 1%nat); [lia|now apply pop1_after]. }
  assert (H2 : tok_post src x (op_token x (popn 2 x []))).
  { apply (op_token_post src x _ 2%nat); [lia|now apply popn_after]. }
  assert (H3 : tok_post src x (op_token x (popn 3 x []))).
  { apply (op_token_post src x _ 3%nat); [lia|now apply popn_after]. }
  destruct (is_substr char op_multi_chars); [|exact H1].
  destruct (match raw_peek 3 (rest x) with Some r => str_in r op_three | None => false end); [exact H3|].
  destruct (peek2 (rest x)) as [[temp n2]|]; [|exact I].
  destruct (str_in temp op_two); [exact H2|].
  destruct (str_eqb temp (char ++ s "=") && _); [exact H2|].
  destruct (is_substr char op_double_chars && str_eqb temp (char ++ char)); [exact H2|exact H1].
Qed.

Lemma parse_whitespace_post src x : wf src x -> tok_post src x (parse_whitespace x).
Proof.
  intros Hw. unfold parse_whitespace.
  destruct (rest x) as [|c r] eqn:Er; [exact I|].
  destruct (chr_in c ws_chars); cbn [negb]; [|exact I].
  cbv zeta.
  destruct (if N.eqb c 32 then Some (s "SPACE") else if N.eqb c 9 then Some (s "TAB")
            else if N.eqb c 10 then Some (s "NEWLINE") else None) as [ty|]; [|exact I].
  apply (of_popres_post src x (tok_post src x) _ _ 1%nat); [now apply pop1_after| |intros; exact I].
  intros v x1 [Hw1 Ho1]. cbn [tok_post t_line t_col]. split; [assumption|]. split; [lia|]. split; reflexivity.
Qed.

Lemma parse_brackets_post src x : wf src x -> tok_post src x (parse_brackets x).
Proof.
  intros Hw. unfold parse_brackets.
  destruct (peek1 (rest x)) as [[char n]|]; [|exact I].
  destruct (assoc char brackets); [|exact I].
  apply (of_popres_post src x (tok_post src x) _ _ 1%nat); [now apply pop1_after| |intros; exact I].
  intros v x1 [Hw1 Ho1]. destruct (assoc v brackets); [|exact I].
  cbn [tok_post t_line t_col]. split; [assumption|]. split; [lia|]. split; reflexivity.
Qed.

(* ------------------------------------------------------------------ the numeric matchers consume something *)
Lemma nonnil_ne x : nonnil x = true -> x <> [].
Proof. destruct x; [discriminate|discriminate]. Qed.

Lemma int_const_nonempty ud hexok r c r' : int_const ud hexok r = Some (c, r') -> c <> [].
Proof.
  unfold int_const. destruct (NumRe.span (ishex ud) r) as [h r1].
  destruct (hexok && nonnil h) eqn:E.
  - intros H; inversion H; subst. apply andb_true_iff in E as [_ E]. now apply nonnil_ne.
  - destruct (NumRe.span (isd ud) r) as [d r2]. destruct (nonnil d) eqn:E2; [|discriminate].
    intros H; inversion H; subst. now apply nonnil_ne.
Qed.

Lemma int_prefixes_nonempty ud bx aft : forall i pt c r, int_prefixes ud bx aft i = Some (pt, c, r) -> c <> [].
Proof.
  induction i as [|i IH]; intros pt c r; cbn [int_prefixes].
  - destruct (int_const ud _ _) as [[c0 r0]|] eqn:E; [|discriminate].
    intros H; inversion H; subst. eapply int_const_nonempty; eassumption.
  - destruct (int_const ud _ _) as [[c0 r0]|] eqn:E.
    + intros H; inversion H; subst. eapply int_const_nonempty; eassumption.
    + apply IH.
Qed.

Lemma span_head_nonempty (p : N -> bool) h t : p h = true -> fst (NumRe.span p (h :: t)) <> [].
Proof. intros H. cbn [NumRe.span]. rewrite H. destruct (NumRe.span p t). discriminate. Qed.

Lemma int_match_old_nonempty uw ud r p c sfx : int_match_old uw ud r = Some (p, c, sfx) -> c <> [].
Proof.
  unfold int_match_old.
  assert (Hplain : match int_const ud false r with
                   | Some (c0, r0) => Some ([], c0, int_suffix uw ud c0 r0)
                   | None => None
                   end = Some (p, c, sfx) -> c <> []).
  { destruct (int_const ud false r) as [[c0 r0]|] eqn:E; [|discriminate].
    intros H; inversion H; subst. eapply int_const_nonempty; eassumption. }
  destruct r as [|a t]; [exact Hplain|].
  destruct (N.eqb_spec a 48) as [->|Hne].
  - destruct (NumRe.span (in_set [98; 66; 120; 88]%N) t) as [bx aft].
    destruct (int_prefixes ud bx aft (List.length bx)) as [[[pt c0] r0]|] eqn:E.
    + intros H; inversion H; subst. eapply int_prefixes_nonempty; eassumption.
    + exact Hplain.
  - destruct a as [|pa]; [exact Hplain|].
    repeat (destruct pa as [pa|pa|]; try exact Hplain). congruence.
Qed.

Lemma int_match_nonempty uw ud r p c sfx : int_match uw ud r = Some (p, c, sfx) -> c <> [].
Proof.
  unfold int_match. destruct (hex_start ud r) eqn:Eh; [|apply int_match_old_nonempty].
  unfold hex_start in Eh. destruct r as [|a [|xc [|h t]]]; try discriminate; try (rewrite ?andb_false_r in Eh; discriminate).
  apply andb_true_iff in Eh as [_ Eh]. apply andb_true_iff in Eh as [_ Eh]. cbn [skipn].
  pose proof (span_head_nonempty (ishex ud) h t Eh) as Hn.
  destruct (NumRe.span (ishex ud) (h :: t)) as [c0 r0]. intros H; inversion H; subst. exact Hn.
Qed.

Lemma fexp_match_nonempty uw ud r c e sfx : fexp_match uw ud r = Some (c, e, sfx) -> c <> [].
Proof.
  unfold fexp_match. destruct (NumRe.span (isd ud) r) as [c0 r0]. destruct (nonnil c0) eqn:E; [|discriminate].
  destruct (exp_match _ _ _ _) as [[e0 r1]|]; [|discriminate].
  intros H; inversion H; subst. now apply nonnil_ne.
Qed.

Lemma ffrac_match_nonempty uw ud r c e sfx : ffrac_match uw ud r = Some (c, e, sfx) -> c <> [].
Proof.
  unfold ffrac_match. destruct (NumRe.span (isd ud) r) as [d r0].
  destruct r0 as [|a r1]; [discriminate|].
  destruct (N.eqb_spec a 46) as [->|Hne].
  - destruct (NumRe.span (isd ud) r1) as [f r2].
    destruct (nonnil f).
    + destruct (exp_match _ _ _ _) as [[e0 r4]|]; intros H; inversion H; subst; intros E; apply app_eq_nil in E as [_ E]; discriminate.
    + destruct (nonnil d); [|discriminate].
      destruct (exp_match _ _ _ _) as [[e0 r4]|]; intros H; inversion H; subst; intros E; apply app_eq_nil in E as [_ E]; discriminate.
  - destruct a as [|pa]; [discriminate|].
    repeat (destruct pa as [pa|pa|]; try discriminate). congruence.
Qed.

Lemma fhex_match_nonempty uw ud r c e sfx : fhex_match uw ud r = Some (c, e, sfx) -> c <> [].
Proof.
  unfold fhex_match. destruct r as [|a t]; [discriminate|].
  destruct (N.eqb_spec a 48) as [->|Hne].
  - destruct (NumRe.span (in_set [120; 88]%N) t) as [xs r]. destruct (nonnil xs); [|discriminate].
    destruct (NumRe.span (ishex ud) r) as [h r1].
    match goal with |- match ?cr0 with Some _ => _ | None => None end = _ -> _ => set (cr := cr0) end.
    assert (Hc : forall c0 r3, cr = Some (c0, r3) -> c0 <> []).
    { unfold cr. intros c0 r3. destruct (nonnil h).
      - destruct r1 as [|b r2]; [intros H; inversion H; discriminate|].
        destruct b as [|pb]; [intros H; inversion H; discriminate|].
        repeat (destruct pb as [pb|pb|]; try (intros H; inversion H; discriminate)).
        destruct (NumRe.span (ishex ud) r2) as [f r2']. intros H; inversion H; discriminate.
      - destruct r1 as [|b r2]; [discriminate|].
        destruct b as [|pb]; [discriminate|].
        repeat (destruct pb as [pb|pb|]; try discriminate).
        destruct (NumRe.span (ishex ud) r2) as [f r2']. destruct (nonnil f); [|discriminate]. intros H; inversion H; discriminate. }
    destruct cr as [[c0 r3]|]; [|discriminate]. specialize (Hc c0 r3 eq_refl).
    destruct (exp_match _ _ _ _) as [[e0 r4]|]; intros H; inversion H; subst; exact Hc.
  - destruct a as [|pa]; [discriminate|].
    repeat (destruct pa as [pa|pa|]; try discriminate). congruence.
Qed.

Lemma len_pos {A} (l : list A) : l <> [] -> (1 <= List.length l)%nat.
Proof. destruct l; [congruence|cbn; lia]. Qed.

Lemma wf_check_bad_prefix src name bucket l0 c0 p c x : wf src x -> wf src (check_bad_prefix name bucket l0 c0 p c x).
Proof. unfold check_bad_prefix. destruct (bad_digit_hls _ _ _ _ _); [auto|apply wf_add_err]. Qed.
Lemma off_check_bad_prefix name bucket l0 c0 p c x : off (check_bad_prefix name bucket l0 c0 p c x) = off x.
Proof. unfold check_bad_prefix. destruct (bad_digit_hls _ _ _ _ _); reflexivity. Qed.

Lemma parse_integer_literal_post src uw ud x : wf src x -> tok_post src x (parse_integer_literal uw ud x).
Proof.
  intros Hw. unfold parse_integer_literal.
  destruct (int_match uw ud (rest x)) as [[[p c] sfx]|] eqn:E; [|exact I].
  pose proof (len_pos _ (int_match_nonempty _ _ _ _ _ _ E)) as Hc. cbv zeta.
  apply (of_popres_post src x (tok_post src x) _ _ (List.length p + List.length c + List.length sfx)%nat);
    [now apply popn_after| |intros; exact I].
  intros slice x1 [Hw1 Ho1]. cbn [tok_post t_line t_col].
  set (x2 := if str_in sfx integer_suffixes then x1 else _).
  assert (Hx2 : wf src x2 /\ off x2 = off x1).
  { unfold x2. destruct (str_in sfx integer_suffixes); [now split|].
    destruct sfx as [|c1 sfx']; [now split|]. destruct (chr_in c1 (s "+-")); (split; [now apply wf_add_err|reflexivity]). }
  destruct Hx2 as [Hw2 Ho2].
  set (x3 := if str_in p [s "0b"; s "0B"] then _ else _).
  assert (Hx3 : wf src x3 /\ off x3 = off x2).
  { unfold x3. destruct (str_in p [s "0b"; s "0B"]); [split; [now apply wf_check_bad_prefix|apply off_check_bad_prefix]|].
    destruct (str_eqb p (s "0")); [split; [now apply wf_check_bad_prefix|apply off_check_bad_prefix]|].
    destruct (str_in p [s "0x"; s "0X"]); [split; [now apply wf_check_bad_prefix|apply off_check_bad_prefix]|now split]. }
  destruct Hx3 as [Hw3 Ho3].
  split; [assumption|]. split; [lia|]. split; reflexivity.
Qed.

Lemma parse_float_literal_post src uw ud x : wf src x -> tok_post src x (parse_float_literal uw ud x).
Proof.
  intros Hw. unfold parse_float_literal.
  destruct (rest x) as [|a r] eqn:Er; [exact I|]. cbv zeta.
  set (m := match fexp_match uw ud (a :: r) with Some g => _ | None => _ end).
  assert (Hm : forall ty c e sfx, m = Some (ty, (c, e, sfx)) -> (1 <= List.length c)%nat).
  { unfold m. intros ty c e sfx.
    destruct (fexp_match uw ud (a :: r)) as [[[c0 e0] s0]|] eqn:E1.
    - intros H; inversion H; subst. apply len_pos. eapply fexp_match_nonempty; eassumption.
    - destruct (ffrac_match uw ud (a :: r)) as [[[c0 e0] s0]|] eqn:E2.
      + intros H; inversion H; subst. apply len_pos. eapply ffrac_match_nonempty; eassumption.
      + destruct (fhex_match uw ud (a :: r)) as [[[c0 e0] s0]|] eqn:E3; [|discriminate].
        intros H; inversion H; subst. apply len_pos. eapply fhex_match_nonempty; eassumption. }
  destruct m as [[ty [[c e] sfx]]|]; [|exact I].
  specialize (Hm ty c e sfx eq_refl).
  match goal with |- tok_post _ _ (match ?v with Some err => _ | None => PNone end) => destruct v as [err|] end; [|exact I].
  set (x1 := match err with Some e0 => add_err e0 x | None => x end).
  assert (Hx1 : wf src x1 /\ off x1 = off x).
  { unfold x1. destruct err; (split; [try apply wf_add_err; assumption|reflexivity]). }
  destruct Hx1 as [Hw1 Ho1].
  pose proof (popn_after src (List.length c + List.length e + List.length sfx) x1 [] Hw1) as Hp.
  destruct (popn (List.length c + List.length e + List.length sfx) x1 []) as [slice x2|x2|]; cbn [of_popres]; try exact I.
  destruct Hp as [Hw2 Ho2]. cbn [tok_post t_line t_col]. split; [assumption|]. split; [lia|]. split; reflexivity.
Qed.

(* ------------------------------------------------------------------ dispatch *)
Lemma run_parser_post src uw ud name x : wf src x -> tok_post src x (run_parser uw ud name x).
Proof.
  intros Hw. unfold run_parser.
  repeat match goal with |- tok_post _ _ (if ?b then _ else _) => destruct b end;
    auto using parse_float_literal_post, parse_integer_literal_post, parse_char_literal_post,
      parse_string_literal_post, parse_identifier_post, parse_whitespace_post, parse_line_comment_post,
      parse_multi_line_comment_post, parse_operator_post, parse_brackets_post.
  exact I.
Qed.

Lemma try_parsers_post src uw ud : forall names x, wf src x -> tok_post src x (try_parsers uw ud names x).
Proof.
  induction names as [|n names IH]; intros x Hw; cbn [try_parsers]; [exact I|].
  pose proof (run_parser_post src uw ud n x Hw) as H.
  destruct (run_parser uw ud n x); [now apply IH|exact H|exact I].
Qed.

Lemma try_parsers_none uw ud : forall names x n, try_parsers uw ud names x = PNone -> In n names ->
  run_parser uw ud n x = PNone.
Proof.
  induction names as [|m names IH]; intros x n H Hin; [destruct Hin|].
  cbn [try_parsers] in H. destruct (run_parser uw ud m x) eqn:E; try discriminate.
  destruct Hin as [<-|Hin]; [exact E|now apply IH].
Qed.

Lemma whitespace_in_parsers : In (s "parse_whitespace") parsers.
Proof. vm_compute. tauto. Qed.

Lemma run_parser_whitespace uw ud x : run_parser uw ud (s "parse_whitespace") x = parse_whitespace x.
Proof. reflexivity. Qed.

Lemma ws_chars_has_nl_tab : chr_in 10%N ws_chars = true /\ chr_in 9%N ws_chars = true.
Proof. split; reflexivity. Qed.

Lemma of_popres_not_none r k : (forall t x, k t x <> PNone) -> of_popres r k <> PNone.
Proof. intros H. destruct r; cbn; [apply H|discriminate|discriminate]. Qed.

Lemma parse_whitespace_none x c r : rest x = c :: r -> parse_whitespace x = PNone -> plainc c = true.
Proof.
  intros Er. unfold parse_whitespace. rewrite Er.
  destruct (chr_in c ws_chars) eqn:E; cbn [negb].
  - cbv zeta.
    destruct (if N.eqb c 32 then Some (s "SPACE") else if N.eqb c 9 then Some (s "TAB")
              else if N.eqb c 10 then Some (s "NEWLINE") else None) as [ty|]; [|discriminate].
    intros H. exfalso. revert H. apply of_popres_not_none. intros; discriminate.
  - intros _. destruct ws_chars_has_nl_tab as [H1 H2]. unfold plainc.
    destruct (N.eqb_spec c 10) as [->|]; [congruence|]. destruct (N.eqb_spec c 9) as [->|]; [congruence|]. reflexivity.
Qed.

(* ------------------------------------------------------------------ step *)
Lemma at_splice_cases r : at_splice r = true ->
  (exists r', r = 92%N :: 10%N :: r') \/ (exists r', r = 63%N :: 63%N :: 47%N :: 10%N :: r').
Proof.
  unfold at_splice, raw_peek. destruct r as [|a r]; [discriminate|].
  intros H. apply orb_true_iff in H as [H|H]; apply str_eqb_eq in H.
  - left. destruct r as [|b r]; [discriminate|]. cbn in H. inversion H; subst. now exists r.
  - right. destruct r as [|b [|c [|d r]]]; try discriminate. cbn in H. inversion H; subst. now exists r.
Qed.

Lemma peek1_splice1 r : peek1 (92%N :: 10%N :: r) = Some ([92%N], 1%nat).
Proof. destruct r; reflexivity. Qed.
Lemma peek1_splice2 r : peek1 (63%N :: 63%N :: 47%N :: 10%N :: r) = Some ([92%N], 3%nat).
Proof. reflexivity. Qed.


Definition step_post (src : ctx) (x : st) (r : stepres) : Prop :=
  match r with
  | StepEnd => rest x = []
  | StepItem i x' =>
      wf src x' /\ (off x < off x')%nat /\ item_lo i = off x /\ item_hi i = off x' /\
      match i with ITok t _ _ => t_line t = line x /\ t_col t = col x | _ => True end
  | StepExn _ => True
  end.

Lemma step_post_holds src uw ud x : wf src x -> step_post src x (step uw ud x).
Proof.
  intros Hw. unfold step.
  destruct (rest x) as [|c r] eqn:Er.
  - pose proof (try_parsers_post src uw ud parsers x Hw) as H.
    destruct (try_parsers uw ud parsers x) as [|t x'|e] eqn:E; cbn; [exact Er| |exact I].
    destruct H as [H1 [H2 [H3 H4]]]. split; [exact H1|]. repeat split; assumption.
  - destruct (at_splice (c :: r)) eqn:Es.
    + destruct (at_splice_cases _ Es) as [[r' E]|[r' E]]; rewrite E.
      * rewrite peek1_splice1. cbn [step_post item_lo item_hi].
        assert (Hx : set_pos (line x + 1) 1 (advance 2 x) = raw_advance 2 x).
        { unfold raw_advance. rewrite Er, E. cbn. reflexivity. }
        rewrite Hx. split; [apply wf_raw_advance; [assumption|rewrite Er, E; cbn; lia]|].
        rewrite off_raw_advance. repeat split; lia.
      * rewrite peek1_splice2. cbn [step_post item_lo item_hi].
        assert (Hx : set_pos (line x + 1) 1 (advance 4 x) = raw_advance 4 x).
        { unfold raw_advance. rewrite Er, E. cbn. reflexivity. }
        rewrite Hx. split; [apply wf_raw_advance; [assumption|rewrite Er, E; cbn; lia]|].
        rewrite off_raw_advance. repeat split; lia.
    + pose proof (try_parsers_post src uw ud parsers x Hw) as H.
      destruct (try_parsers uw ud parsers x) as [|t x'|e] eqn:E; [| |exact I].
      * (* bad lexeme *)
        assert (Pc : plainc c = true).
        { eapply parse_whitespace_none; [exact Er|]. rewrite <- (run_parser_whitespace uw ud).
          eapply try_parsers_none; [exact E|apply whitespace_in_parsers]. }
        cbv zeta. cbn [step_post item_lo item_hi].
        set (d := from_name _ _ _).
        assert (Hx : advance 1 (set_pos (line x) (col x + 1) (add_err d x)) = raw_advance 1 (add_err d x)).
        { unfold raw_advance. cbn [rest line col add_err]. rewrite Er. cbn [firstn].
          unfold pos_after. cbn [fold_left]. rewrite (adv_plainc _ _ _ Pc). reflexivity. }
        rewrite Hx. split; [apply wf_raw_advance; [now apply wf_add_err|cbn; rewrite Er; cbn; lia]|].
        rewrite off_raw_advance. cbn. repeat split; lia.
      * cbn. destruct H as [H1 [H2 [H3 H4]]]. split; [exact H1|]. repeat split; assumption.
Qed.
