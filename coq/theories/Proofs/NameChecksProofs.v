(* Token-local theorems for the third batch (Gen/NameChecks.v): CheckIdentifierName (N01, N02) and CheckComment (K01, K02, K03). *)
From NV Require Import Model.Base Model.RuleChecks Model.NameBase Gen.NameChecks Proofs.StrOrder Proofs.RuleChecksProofs.
From Coq Require Import Lia.
Local Open Scope Z_scope.

(* ------------------------------------------------------------------ CheckIdentifierName *)
Definition c_char_name := s "FORBIDDEN_CHAR_NAME".
Definition illegal_name (x : str) : bool := existsb (fun c => negb (chr_in c ident_legal)) x.

Lemma emit_each_some {A} code t (l : list A) : forall E,
  emit_each code (Some t) l E = Ok (E ++ repeat (code, t_line t, t_col t) (List.length l)).
Proof.
  induction l as [|x l IH]; intros E; cbn [emit_each emit Datatypes.length repeat]; [now rewrite app_nil_r|].
  rewrite IH, <- app_assoc. reflexivity.
Qed.

Lemma illegal_filter x : illegal_name x = true -> filter (fun c => negb (chr_in c ident_legal)) x <> [].
Proof.
  unfold illegal_name. intros H. apply existsb_exists in H as [c [Hc Hi]]. intros E.
  assert (In c (filter (fun c => negb (chr_in c ident_legal)) x)) by (apply filter_In; split; assumption). rewrite E in H. destruct H.
Qed.

Definition var_diags (vars : list (str * Z * Z)) : list em :=
  flat_map (fun x => if illegal_name (fst (fst x)) then [(c_char_name, snd (fst x), snd x)] else []) vars.

(* what the check returns on a statement that is no function definition: one diagnostic per variable with an illegal character *)
Theorem ident_value_other toks last glob udt fname fpos vars : str_eqb last ident_func_rule = false ->
  check_identifier_name toks last glob udt fname fpos vars = Ok (var_diags vars).
Proof. intros H. unfold check_identifier_name. rewrite H. reflexivity. Qed.

(* N02: a declared name with a character outside a-z 0-9 _ is reported at its token - whatever else the statement is *)
Lemma var_diags_in vars val l c : In (val, l, c) vars -> illegal_name val = true -> In (c_char_name, l, c) (var_diags vars).
Proof.
  intros Hin Hill. unfold var_diags. apply in_flat_map. exists (val, l, c). split; [exact Hin|].
  change (fst (fst (val, l, c))) with val. rewrite Hill. now left.
Qed.
Lemma Ok_inj {A} (a b : A) : Ok a = Ok b -> a = b.
Proof. intros H. now inversion H. Qed.
Lemma ident_shape toks last glob udt fname fpos vars E :
  check_identifier_name toks last glob udt fname fpos vars = Ok E -> exists E0, E = E0 ++ var_diags vars.
Proof.
  unfold check_identifier_name. fold illegal_name. change (s "FORBIDDEN_CHAR_NAME") with c_char_name. fold (var_diags vars).
  intros H.
  match type of H with bind ?x _ = _ => destruct x as [E0| | |]; cbn [bind] in H; try discriminate end.
  exists E0. symmetry. apply Ok_inj. exact H.
Qed.
Theorem ident_var_reported toks last glob udt fname fpos vars E val l c :
  check_identifier_name toks last glob udt fname fpos vars = Ok E -> In (val, l, c) vars -> illegal_name val = true ->
  In (c_char_name, l, c) E.
Proof.
  intros H Hin Hill. destruct (ident_shape _ _ _ _ _ _ _ _ H) as [E0 ->]. apply in_or_app. right. eapply var_diags_in; eassumption.
Qed.
Theorem ident_var_iff toks last fname fpos vars l c : str_eqb last ident_func_rule = false ->
  exists E, check_identifier_name toks last true false fname fpos vars = Ok E /\
    (In (c_char_name, l, c) E <-> exists val, In (val, l, c) vars /\ illegal_name val = true).
Proof.
  intros H. exists (var_diags vars). split; [apply ident_value_other; exact H|]. unfold var_diags. rewrite in_flat_map. split.
  - intros [[[val l0] c0] [Hin Hx]]. cbn [fst snd] in Hx. destruct (illegal_name val) eqn:Q; [|destruct Hx].
    destruct Hx as [Hx|[]]. inversion Hx; subst. exists val. split; assumption.
  - intros [val [Hin Hill]]. exists (val, l, c). split; [exact Hin|]. cbn [fst snd]. rewrite Hill. now left.
Qed.

(* N01: at a function definition (IsFuncDeclaration matched, global scope) whose name has a character outside a-z 0-9 _:
   FORBIDDEN_CHAR_NAME at the name token (once per such character) *)
Theorem ident_func_reported toks fname fpos vars t udt :
  illegal_name fname = true -> peek toks fpos = Some t ->
  exists E, check_identifier_name toks ident_func_rule true udt (Some fname) fpos vars = Ok E /\ In (c_char_name, t_line t, t_col t) E.
Proof.
  intros Hill Hp. unfold check_identifier_name. rewrite str_eqb_refl. cbn [negb andb bind]. rewrite Hp, emit_each_some. cbn [bind app].
  eexists. split; [reflexivity|]. apply in_or_app. left.
  destruct (filter (fun c => negb (chr_in c ident_legal)) fname) eqn:F; [exfalso; eapply illegal_filter; eauto|]. cbn. now left.
Qed.
(* ... and none from the name when all its characters are legal *)
Theorem ident_func_silent toks fname fpos vars t udt :
  illegal_name fname = false -> peek toks fpos = Some t ->
  check_identifier_name toks ident_func_rule true udt (Some fname) fpos vars = Ok (var_diags vars).
Proof.
  intros Hleg Hp. unfold check_identifier_name. rewrite str_eqb_refl. cbn [negb andb bind]. rewrite Hp, emit_each_some.
  replace (filter (fun c => negb (chr_in c ident_legal)) fname) with (@nil N); [reflexivity|].
  symmetry. unfold illegal_name in Hleg. induction fname as [|c f IH]; [reflexivity|]. cbn [existsb] in Hleg. apply orb_false_iff in Hleg as [A B].
  cbn [filter]. rewrite A. apply IH. exact B.
Qed.

(* ------------------------------------------------------------------ CheckComment *)
Definition c_wrong_scope := s "WRONG_SCOPE_COMMENT".
Definition c_on_instr := s "COMMENT_ON_INSTR".
Definition is_comment (t : token) : bool := str_in (t_type t) comment_types.

Lemma comment_scan_suffix inside : forall l0 first l x, In x (comment_scan inside false l) -> (first = false \/ l0 <> []) ->
  In x (comment_scan inside first (l0 ++ l)).
Proof.
  induction l0 as [|t l0 IH]; intros first l x Hx Hf.
  - destruct Hf as [->|Hf]; [exact Hx|congruence].
  - cbn [app comment_scan]. apply in_or_app. right. apply (IH false); [exact Hx|now left].
Qed.

(* K03: a comment that is not the first token of the statement's first line and is followed, on that line, by something other than
   blanks and comments: COMMENT_ON_INSTR at the comment - for every history and scope *)
Theorem comment_on_instr_reported toks hist cls l0 tc r :
  collect_line toks (skip_ws toks 0) = l0 ++ tc :: r -> l0 <> [] -> is_comment tc = true -> comment_is_last r = false ->
  In (c_on_instr, t_line tc, t_col tc) (check_comment toks hist cls).
Proof.
  intros HL H0 Hc Hr. unfold check_comment. rewrite HL. apply comment_scan_suffix; [|now right].
  cbn [comment_scan]. unfold is_comment in Hc. rewrite Hc, Hr. cbn [orb]. apply in_or_app. left. apply in_or_app. right. now left.
Qed.
(* ... and only then *)
Theorem comment_on_instr_only inside : forall l first li co,
  In (c_on_instr, li, co) (comment_scan inside first l) ->
  exists l0 tc r, l = l0 ++ tc :: r /\ (first = false \/ l0 <> []) /\ is_comment tc = true /\ comment_is_last r = false /\
                  li = t_line tc /\ co = t_col tc.
Proof.
  induction l as [|t l IH]; intros first li co H; cbn [comment_scan] in H; [destruct H|].
  apply in_app_or in H as [H|H].
  - destruct (str_in (t_type t) comment_types) eqn:C; [|destruct H]. apply in_app_or in H as [H|H].
    + destruct inside; [|destruct H]. destruct H as [H|[]]. inversion H.
    + destruct (first || comment_is_last l) eqn:F; [destruct H|]. destruct H as [H|[]]. inversion H; subst.
      apply orb_false_iff in F as [F1 F2]. exists [], t, l. repeat split; auto.
  - destruct (IH false li co H) as [l0 [tc [r [E [_ [A [B [C D]]]]]]]]. exists (t :: l0), tc, r. subst l. repeat split; auto. right. discriminate.
Qed.

(* K01, K02: inside a function every comment of the line is reported *)
Theorem comment_wrong_scope_reported toks hist cls l0 tc r :
  comment_inside_function hist cls = true -> collect_line toks (skip_ws toks 0) = l0 ++ tc :: r -> is_comment tc = true ->
  In (c_wrong_scope, t_line tc, t_col tc) (check_comment toks hist cls).
Proof.
  intros Hi HL Hc. unfold check_comment. rewrite HL, Hi.
  assert (G : forall first, In (c_wrong_scope, t_line tc, t_col tc) (comment_scan true first (tc :: r))).
  { intros first. cbn [comment_scan]. unfold is_comment in Hc. rewrite Hc. apply in_or_app. left. apply in_or_app. left. now left. }
  destruct l0 as [|x l0']; [apply G|]. apply comment_scan_suffix; [apply G|right; discriminate].
Qed.
(* the scope is a Function, or the statement directly follows the function's opening brace: is_inside_a_function holds *)
Theorem comment_inside_function_direct hist cls :
  str_eqb cls comment_func_class = true \/ (exists rest, hist = s "IsBlockStart" :: s "IsFuncDeclaration" :: rest) ->
  comment_inside_function hist cls = true.
Proof.
  intros [H|[rest ->]]; unfold comment_inside_function.
  - rewrite H. apply orb_true_iff. left. apply orb_true_r.
  - cbn [firstn rev app]. replace (strs_eqb [s "IsFuncDeclaration"; s "IsBlockStart"] comment_func_pair) with true by reflexivity. reflexivity.
Qed.
(* outside any function nothing of that kind *)
Theorem comment_wrong_scope_only l : forall first li co, ~ In (c_wrong_scope, li, co) (comment_scan false first l).
Proof.
  induction l as [|t l IH]; intros first li co H; cbn [comment_scan] in H; [destruct H|].
  apply in_app_or in H as [H|H]; [|eapply IH; exact H].
  destruct (str_in (t_type t) comment_types); [|destruct H]. cbn [app] in H.
  destruct (first || comment_is_last l); [destruct H|]. destruct H as [H|[]]. inversion H.
Qed.

(* ------------------------------------------------------------------ non-vacuity *)
Definition tk (ty : string) (l c : Z) : token := mk_tok (s ty) l c.
(* `<TAB>x = /* c */ 1;` *)
Definition ex_line : list token := [tk "TAB" 5 1; tk "IDENTIFIER" 5 5; tk "SPACE" 5 6; tk "ASSIGN" 5 7; tk "SPACE" 5 8; tk "MULT_COMMENT" 5 9; tk "SPACE" 5 16;
  tk "CONSTANT" 5 17; tk "SEMI_COLON" 5 18; tk "NEWLINE" 5 19; tk "TAB" 6 1].
Example ex_comment_on_instr : check_comment ex_line [s "IsAssignation"; s "IsBlockStart"; s "IsFuncDeclaration"] (s "function")
  = [(c_wrong_scope, 5, 9); (c_on_instr, 5, 9)].
Proof. vm_compute. reflexivity. Qed.
Example ex_comment_hyps : collect_line ex_line (skip_ws ex_line 0)
  = [tk "IDENTIFIER" 5 5; tk "SPACE" 5 6; tk "ASSIGN" 5 7; tk "SPACE" 5 8] ++ tk "MULT_COMMENT" 5 9 :: [tk "SPACE" 5 16; tk "CONSTANT" 5 17; tk "SEMI_COLON" 5 18]
  /\ comment_is_last [tk "SPACE" 5 16; tk "CONSTANT" 5 17; tk "SEMI_COLON" 5 18] = false.
Proof. split; vm_compute; reflexivity. Qed.
(* nested two blocks deep in a function: the history scan finds the function *)
Example ex_inside_nested : comment_inside_function [s "IsBlockStart"; s "IsControlStatement"; s "IsAssignation"; s "IsBlockStart"; s "IsFuncDeclaration"; s "IsEmptyLine"]
  (s "controlstructure") = true /\ comment_inside_function [s "IsEmptyLine"; s "IsBlockEnd"; s "IsAssignation"; s "IsBlockStart"; s "IsFuncDeclaration"] (s "globalscope") = false.
Proof. split; vm_compute; reflexivity. Qed.
Example ex_ident : check_identifier_name [tk "INT" 3 1; tk "TAB" 3 4; tk "IDENTIFIER" 3 5] ident_func_rule true false (Some (s "ft_Foo")) 2 [(s "aB", 7, 9); (s "ok_1", 8, 9)]
  = Ok [(c_char_name, 3, 5); (c_char_name, 7, 9)].
Proof. vm_compute. reflexivity. Qed.

(* ------------------------------------------------------------------ outcomes (C05) *)
(* CheckComment.run is a total function of the tokens, the history and the scope class (no exception in the model); CheckIdentifierName
   raises only without a function name (IndexError: not after IsFuncDeclaration matched) or without the tokens it points at *)
Theorem ident_total_in_registry toks last glob udt f fpos vars t0 t :
  peek toks 0 = Some t0 -> peek toks fpos = Some t -> exists E, check_identifier_name toks last glob udt (Some f) fpos vars = Ok E.
Proof.
  intros P0 Pf. unfold check_identifier_name. destruct (str_eqb last ident_func_rule); [|eexists; reflexivity].
  rewrite P0, Pf. destruct (negb glob && negb udt); cbn [emit bind]; rewrite emit_each_some; eexists; reflexivity.
Qed.
Theorem ident_crash_without_name toks udt fpos vars : check_identifier_name toks ident_func_rule true udt None fpos vars = Crash IndexError.
Proof. unfold check_identifier_name. rewrite str_eqb_refl. reflexivity. Qed.
