(* C11, UNBOUNDED accept theorems beyond integers: decimal floating constants, string literals, character constants
   (and hexadecimal floats), for all Unicode class oracles uw ud and bodies of any length.
   Reuses Proofs/CConstUnbounded.v (characters, span, popn over plain characters, lex_one_ok_u). *)
From NV Require Import Model.Base Model.Diag Model.Lexer Model.NumRe Spec.CConst Gen.LexTables
  Proofs.StrOrder Proofs.LexRename Proofs.CConstUnbounded.
From Coq Require Import Lia ZifyBool.

Local Open Scope Z_scope.

(* ------------------------------------------------------------------ the float suffix table *)
(* every float suffix is made of ASCII letters and digits and starts with a letter other than e / E *)
Definition fsfx_ok (sfx : str) : bool :=
  forallb alnum sfx && match sfx with [] => true | a :: _ => ascii_alpha a && negb (chr_in a (s "eE")) end.
Lemma float_suffixes_ok : forallb fsfx_ok float_suffixes = true.
Proof. vm_compute. reflexivity. Qed.
Lemma fsuffix_ok sfx : str_in sfx float_suffixes = true -> fsfx_ok sfx = true.
Proof. intros H. apply str_in_In in H. pose proof float_suffixes_ok as T. rewrite forallb_forall in T. now apply T. Qed.

(* ------------------------------------------------------------------ the part of parse_float_literal after the three patterns *)
Definition float_body (ud : N -> bool) (x : st) (ty : nat) (const expo suffix : str) : pres :=
  let l0 := line x in let c0 := col x in
  let column := c0 + zl const in
  let badhex := strip (hexadecimal_digits ++ s ".") const in
  let verdict : option (option diag) :=
    if nonempty expo && negb (exp_ok_in ud (if Nat.eqb ty 2 then [112; 80]%N else [101; 69]%N) expo) then
      Some (Some (from_name (s "BAD_EXPONENT") lv_error [mkhl l0 column (Some (zl expo + zl suffix)) None]))
    else if Nat.eqb ty 2 && negb (chr_in 46%N const) && negb (nonempty expo) then None
    else if Nat.eqb ty 2 && negb (str_in badhex [s "x"; s "X"]) then
      Some (Some (from_name (s "MULTIPLE_X") lv_error [mkhl l0 (column - zl const + 1) (Some (zl badhex)) None]))
    else if Nat.eqb (count_chr 46%N const) 1 && Nat.ltb 0 (count_chr 46%N suffix) then
      Some (Some (from_name (s "MULTIPLE_DOTS") lv_error [mkhl l0 column (Some (zl expo + zl suffix)) None]))
    else if negb (str_in suffix float_suffixes) then
      Some (Some (from_name (s "BAD_FLOAT_SUFFIX") lv_error [mkhl l0 (column + zl expo) (Some (zl suffix)) None]))
    else Some None in
  match verdict with
  | None => PNone
  | Some err =>
    let x1 := match err with Some e => add_err e x | None => x end in
    let n := (List.length const + List.length expo + List.length suffix)%nat in
    of_popres (popn n x1 []) (fun slice x2 => PTok (mktok (s "CONSTANT") l0 c0 (Some slice)) x2)
  end.

Lemma parse_float_unfold uw ud x : parse_float_literal uw ud x =
  match rest x with
  | [] => PNone
  | _ =>
      match (match fexp_match uw ud (rest x) with
             | Some g => Some (0%nat, g)
             | None => match ffrac_match uw ud (rest x) with
                       | Some g => Some (1%nat, g)
                       | None => match fhex_match uw ud (rest x) with Some g => Some (2%nat, g) | None => None end
                       end
             end) with
      | None => PNone
      | Some (ty, (const, expo, suffix)) => float_body ud x ty const expo suffix
      end
  end.
Proof. reflexivity. Qed.

Lemma count_chr_alnum c sfx : forallb alnum sfx = true -> alnum c = false -> count_chr c sfx = 0%nat.
Proof.
  intros H Hc. unfold count_chr. induction sfx as [|a sfx IH]; [reflexivity|]. cbn [forallb filter] in *.
  apply andb_true_iff in H as [Ha H]. destruct (N.eqb_spec c a) as [->|]; [congruence|]. now apply IH.
Qed.

Lemma float_body_ok ud x ty const expo sfx t :
  nonempty expo && negb (exp_ok_in ud (if Nat.eqb ty 2 then [112; 80]%N else [101; 69]%N) expo) = false ->
  Nat.eqb ty 2 && negb (chr_in 46%N const) && negb (nonempty expo) = false ->
  Nat.eqb ty 2 && negb (str_in (strip (hexadecimal_digits ++ s ".") const) [s "x"; s "X"]) = false ->
  forallb alnum sfx = true -> str_in sfx float_suffixes = true ->
  rest x = (const ++ expo ++ sfx) ++ t -> forallb okc (const ++ expo ++ sfx) = true ->
  float_body ud x ty const expo sfx =
    PTok (mktok (s "CONSTANT") (line x) (col x) (Some (const ++ expo ++ sfx))) (shift (List.length (const ++ expo ++ sfx)) x).
Proof.
  intros C1 C2 C3 Hsa Hs Hr Hok. unfold float_body. cbv zeta. rewrite C1, C2, C3.
  rewrite (count_chr_alnum 46%N sfx Hsa eq_refl). cbn [Nat.ltb Nat.leb]. rewrite andb_false_r, Hs. cbn [negb].
  replace (List.length const + List.length expo + List.length sfx)%nat with (List.length (const ++ expo ++ sfx))
    by (rewrite !app_length; lia).
  rewrite (popn_plain _ x [] t Hok Hr). reflexivity.
Qed.

Section Floats.
  Variable uw ud : N -> bool.

  (* ------------------------------------------------------------------ step: the float parser is tried first *)
  Lemma try_parsers_float x t x' : parse_float_literal uw ud x = PTok t x' -> try_parsers uw ud parsers x = PTok t x'.
  Proof.
    intros H. assert (E1 : run_parser uw ud (s "parse_float_literal") x = parse_float_literal uw ud x) by reflexivity.
    unfold parsers. cbn [try_parsers]. rewrite E1, H. reflexivity.
  Qed.

  Lemma at_splice_plain c t : (c =? 92)%N = false -> (c =? 63)%N = false -> at_splice (c :: t) = false.
  Proof. intros H1 H2. unfold at_splice, raw_peek. cbn [firstn str_eqb]. now rewrite H1, H2. Qed.

  Lemma step_tok w rest c t tok x' : w ++ rest = c :: t -> (c =? 92)%N = false -> (c =? 63)%N = false ->
    try_parsers uw ud parsers (init (w ++ rest)) = PTok tok x' ->
    step uw ud (init (w ++ rest)) = StepItem (ITok tok 0 (off x')) x'.
  Proof.
    intros Hr H1 H2 Ht. unfold step. rewrite Ht. cbn [Lexer.rest init]. rewrite Hr, (at_splice_plain c t H1 H2). reflexivity.
  Qed.

  (* the assembly for floats: what remains per form is what the pattern returns *)
  Lemma accept_float_from_match ty const expo sfx rest c t :
    (const ++ expo ++ sfx) ++ rest = c :: t -> (c =? 92)%N = false -> (c =? 63)%N = false ->
    (match fexp_match uw ud ((const ++ expo ++ sfx) ++ rest) with
     | Some g => Some (0%nat, g)
     | None => match ffrac_match uw ud ((const ++ expo ++ sfx) ++ rest) with
               | Some g => Some (1%nat, g)
               | None => match fhex_match uw ud ((const ++ expo ++ sfx) ++ rest) with Some g => Some (2%nat, g) | None => None end
               end
     end) = Some (ty, (const, expo, sfx)) ->
    nonempty expo && negb (exp_ok_in ud (if Nat.eqb ty 2 then [112; 80]%N else [101; 69]%N) expo) = false ->
    Nat.eqb ty 2 && negb (chr_in 46%N const) && negb (nonempty expo) = false ->
    Nat.eqb ty 2 && negb (str_in (strip (hexadecimal_digits ++ s ".") const) [s "x"; s "X"]) = false ->
    forallb alnum sfx = true -> str_in sfx float_suffixes = true -> forallb okc (const ++ expo ++ sfx) = true ->
    lex_one_ok_u uw ud (s "CONSTANT") (const ++ expo ++ sfx) rest.
  Proof.
    intros Hr H1 H2 Hm C1 C2 C3 Hsa Hs Hok. set (w := const ++ expo ++ sfx) in *.
    assert (Hp : parse_float_literal uw ud (init (w ++ rest)) =
                 PTok (mktok (s "CONSTANT") 1 1 (Some w)) (shift (List.length w) (init (w ++ rest)))).
    { rewrite parse_float_unfold. cbn [Lexer.rest init]. rewrite Hm, Hr. rewrite <- Hr.
      apply (float_body_ok ud (init (w ++ rest)) ty const expo sfx rest); try assumption. reflexivity. }
    exists (shift (List.length w) (init (w ++ rest))). split; [|reflexivity].
    rewrite (step_tok w rest c t _ _ Hr H1 H2 (try_parsers_float _ _ _ Hp)). reflexivity.
  Qed.

  (* ------------------------------------------------------------------ exponents *)
  Definition sign_ok (sgn : str) : bool := match sgn with [] => true | [c] => in_set [43; 45]%N c | _ => false end.

  Lemma exp_match_ok E (digit : N -> bool) q e sgn ed T :
    in_set E e = true -> sign_ok sgn = true -> forallb ascii_digit ed = true -> ed <> [] ->
    (forall c, ascii_digit c = true -> digit c = true) ->
    (forall c, ascii_digit c = true \/ in_set [43; 45]%N c = true -> in_set E c = false) ->
    stops digit T = true ->
    exp_match E digit q (e :: sgn ++ ed ++ T) = Some (e :: sgn ++ ed, T).
  Proof.
    intros He Hsg Hd Hne Hdig HE Hst. unfold exp_match. rewrite He.
    assert (Hdd : forallb digit ed = true).
    { apply forallb_forall. intros y Hy. rewrite forallb_forall in Hd. now apply Hdig, Hd. }
    destruct ed as [|d0 ed']; [congruence|]. cbn [forallb] in Hd. apply andb_true_iff in Hd as [Hd0 Hd'].
    assert (Esp : span (in_set E) (e :: sgn ++ (d0 :: ed') ++ T) = ([e], sgn ++ (d0 :: ed') ++ T)).
    { cbn [span]. rewrite He. rewrite span_stop; [reflexivity|].
      destruct sgn as [|c [|? ?]]; try discriminate; cbn [app stops]; rewrite HE; auto. }
    rewrite Esp. destruct sgn as [|c [|? ?]]; try discriminate; cbn [app sign_ok] in *.
    - replace (in_set [43; 45]%N d0) with false by (unfold ascii_digit in Hd0; cbn [in_set existsb]; lia).
      change (d0 :: ed' ++ T) with ((d0 :: ed') ++ T). rewrite (span_app_stop digit (d0 :: ed') T Hdd Hst). reflexivity.
    - rewrite Hsg. change (d0 :: ed' ++ T) with ((d0 :: ed') ++ T). rewrite (span_app_stop digit (d0 :: ed') T Hdd Hst). reflexivity.
  Qed.

  Lemma exp_ok_in_ok E e sgn ed : in_set E e = true -> sign_ok sgn = true -> forallb ascii_digit ed = true -> ed <> [] ->
    exp_ok_in ud E (e :: sgn ++ ed) = true.
  Proof.
    intros He Hsg Hd Hne. unfold exp_ok_in. rewrite He. destruct ed as [|d0 ed']; [congruence|].
    cbn [forallb] in Hd. apply andb_true_iff in Hd as [Hd0 _]. pose proof (digit_isd ud d0 Hd0) as Hi.
    destruct sgn as [|c [|? ?]]; try discriminate; cbn [app sign_ok] in *.
    - replace (in_set [45; 43]%N d0) with false by (unfold ascii_digit in Hd0; cbn [in_set existsb]; lia). now rewrite Hi.
    - replace (in_set [45; 43]%N c) with true by (cbn [in_set existsb] in *; lia). now rewrite Hi.
  Qed.

  (* an optional exponent: nothing, or e/E, an optional sign, at least one digit *)
  Inductive opt_exp (E : str) : str -> Prop :=
  | OE_none : opt_exp E []
  | OE_some e sgn ed : in_set E e = true -> sign_ok sgn = true -> forallb ascii_digit ed = true -> ed <> [] ->
      opt_exp E (e :: sgn ++ ed).

  Lemma eE_not_digit_sign c : ascii_digit c = true \/ in_set [43; 45]%N c = true -> in_set [101; 69]%N c = false.
  Proof. unfold ascii_digit. cbn [in_set existsb]. lia. Qed.

  (* the tail after a decimal float: suffix + continuation *)
  Definition ftailc (c : N) : bool := negb (isd ud c) && negb (chr_in c (s "eE")) && negb (c =? 46)%N.
  Definition ftail_ok (T : str) : bool := match T with [] => true | c :: _ => ftailc c end.

  Lemma ftail_ok_app sfx rest : fsfx_ok sfx = true -> delim rest = true -> ftail_ok (sfx ++ rest) = true.
  Proof.
    unfold fsfx_ok. intros H Hd. apply andb_true_iff in H as [_ H]. destruct sfx as [|a sfx]; cbn [app ftail_ok].
    - destruct rest as [|c r]; [reflexivity|]. cbn [delim ftail_ok] in Hd |- *. unfold ftailc. rewrite (delimc_isd ud c Hd).
      unfold delimc, alnum, ascii_alpha, ascii_digit in Hd. cbn [chr_in existsb s List.map list_ascii_of_string N_of_ascii N_of_digits]. lia.
    - unfold ftailc, isd. unfold ascii_alpha, ascii_digit in *. cbn [chr_in existsb s List.map list_ascii_of_string N_of_ascii N_of_digits] in *.
      replace (a <? 128)%N with true by lia. lia.
  Qed.

  Lemma ftail_stops_isd T : ftail_ok T = true -> stops (isd ud) T = true.
  Proof. destruct T as [|c T]; [reflexivity|]. cbn. unfold ftailc. lia. Qed.
  Lemma ftail_stops_e T : ftail_ok T = true -> stops (in_set [101; 69]%N) T = true.
  Proof. destruct T as [|c T]; [reflexivity|]. cbn. unfold ftailc. cbn [chr_in existsb s List.map list_ascii_of_string N_of_ascii N_of_digits]. lia. Qed.

  Lemma suffix_run_ok sfx rest : forallb alnum sfx = true -> delim rest = true -> suffix_run uw ud (sfx ++ rest) = sfx.
  Proof.
    intros Hs Hd. unfold suffix_run. rewrite (span_app_stop _ sfx rest); [reflexivity| |].
    - apply forallb_forall. intros y Hy. rewrite forallb_forall in Hs. now rewrite (alnum_isw uw ud y (Hs y Hy)).
    - destruct rest as [|b r]; [reflexivity|]. cbn [delim stops] in Hd |- *. rewrite (delimc_isw uw ud b Hd).
      unfold delimc in Hd. lia.
  Qed.

  (* exponent (possibly none) then suffix then continuation *)
  Lemma exp_then_tail ex sfx rest : opt_exp [101; 69]%N ex -> fsfx_ok sfx = true -> delim rest = true ->
    stops (isd ud) (ex ++ sfx ++ rest) = true /\ suffix_run uw ud (sfx ++ rest) = sfx /\
    ((ex = [] /\ exp_match [101; 69]%N (isd ud) false (sfx ++ rest) = None) \/
     (ex <> [] /\ exp_match [101; 69]%N (isd ud) false (ex ++ sfx ++ rest) = Some (ex, sfx ++ rest))).
  Proof.
    intros Hex Hso Hd. pose proof (ftail_ok_app sfx rest Hso Hd) as HT.
    assert (Hsa : forallb alnum sfx = true) by (unfold fsfx_ok in Hso; apply andb_true_iff in Hso as [Hso' _]; exact Hso').
    split; [|split; [now apply suffix_run_ok|]].
    - destruct Hex as [|e sgn ed He Hsg Hed Hne]; [now apply ftail_stops_isd|].
      cbn [app stops]. unfold isd. cbn [in_set existsb] in He. replace (e <? 128)%N with true by lia. unfold ascii_digit. lia.
    - destruct Hex as [|e sgn ed He Hsg Hed Hne].
      + left. split; [reflexivity|]. apply exp_match_none. now apply ftail_stops_e.
      + right. split; [discriminate|]. cbn [app]. rewrite <- app_assoc.
        apply (exp_match_ok [101; 69]%N (isd ud) false e sgn ed (sfx ++ rest) He Hsg Hed Hne (digit_isd ud) eE_not_digit_sign (ftail_stops_isd _ HT)).
  Qed.

  Lemma opt_exp_okc E ex : (forall c, in_set E c = true -> alnum c = true) -> opt_exp E ex -> forallb okc ex = true.
  Proof.
    intros HE [|e sgn ed He Hsg Hed Hne]; [reflexivity|]. cbn [forallb]. rewrite (alnum_okc e (HE e He)). rewrite forallb_app.
    assert (H1 : forallb okc sgn = true).
    { destruct sgn as [|c [|? ?]]; try discriminate; [reflexivity|]. cbn [sign_ok in_set existsb forallb] in *. unfold okc. cbn [chr_in existsb]. lia. }
    rewrite H1. apply forallb_forall. intros y Hy. rewrite forallb_forall in Hed. apply alnum_okc. unfold alnum. now rewrite (Hed y Hy).
  Qed.

  Lemma opt_exp_verdict E ex : opt_exp E ex -> nonempty ex && negb (exp_ok_in ud E ex) = false.
  Proof. intros [|e sgn ed He Hsg Hed Hne]; [reflexivity|]. now rewrite exp_ok_in_ok. Qed.

  Lemma eE_alnum c : in_set [101; 69]%N c = true -> alnum c = true.
  Proof. unfold alnum, ascii_digit, ascii_alpha. cbn [in_set existsb]. lia. Qed.

  Lemma okc_digits ds : forallb ascii_digit ds = true -> forallb okc ds = true.
  Proof. intros H. apply forallb_forall. intros y Hy. rewrite forallb_forall in H. apply alnum_okc. unfold alnum. now rewrite (H y Hy). Qed.
  Lemma okc_alnums ds : forallb alnum ds = true -> forallb okc ds = true.
  Proof. intros H. apply forallb_forall. intros y Hy. rewrite forallb_forall in H. now apply alnum_okc, H. Qed.

  (* ------------------------------------------------------------------ (1a) digits . digits [exponent] suffix   and   . digits [exponent] suffix *)
  Theorem accept_float_fractional : forall ip fp ex sfx rest,
    forallb ascii_digit ip = true -> forallb ascii_digit fp = true -> (ip <> [] \/ fp <> []) ->
    opt_exp [101; 69]%N ex -> str_in sfx float_suffixes = true -> delim rest = true ->
    lex_one_ok_u uw ud (s "CONSTANT") ((ip ++ 46%N :: fp) ++ ex ++ sfx) rest.
  Proof.
    intros ip fp ex sfx rest Hip Hfp Hne Hex Hs Hdl.
    pose proof (fsuffix_ok sfx Hs) as Hso. assert (Hsa : forallb alnum sfx = true) by (unfold fsfx_ok in Hso; apply andb_true_iff in Hso as [Hso' _]; exact Hso').
    destruct (exp_then_tail ex sfx rest Hex Hso Hdl) as (Hst & Hsr & Hem).
    assert (Ew : ((ip ++ 46%N :: fp) ++ ex ++ sfx) ++ rest = ip ++ 46%N :: fp ++ ex ++ sfx ++ rest).
    { rewrite <- !app_assoc. cbn [app]. reflexivity. }
    assert (Hhead : exists c t, ((ip ++ 46%N :: fp) ++ ex ++ sfx) ++ rest = c :: t /\ (c =? 92)%N = false /\ (c =? 63)%N = false).
    { rewrite Ew. destruct ip as [|d ip']; cbn [app]; [now eexists; eexists|].
      cbn [forallb] in Hip. apply andb_true_iff in Hip as [Hd0 _]. unfold ascii_digit in Hd0. eexists; eexists. split; [reflexivity|]. lia. }
    destruct Hhead as (c & t & Hct & H92 & H63).
    apply (accept_float_from_match 1%nat (ip ++ 46%N :: fp) ex sfx rest c t Hct H92 H63); try assumption; try reflexivity.
    - rewrite Ew.
      assert (H46 : forall X, stops (isd ud) (46%N :: X) = true) by reflexivity.
      assert (Efe : fexp_match uw ud (ip ++ 46%N :: fp ++ ex ++ sfx ++ rest) = None).
      { unfold fexp_match. rewrite (span_app_stop (isd ud) ip _ (digits_isd ud ip Hip) (H46 _)).
        destruct (nonnil ip); reflexivity. }
      rewrite Efe. unfold ffrac_match. rewrite (span_app_stop (isd ud) ip _ (digits_isd ud ip Hip) (H46 _)).
      rewrite (span_app_stop (isd ud) fp _ (digits_isd ud fp Hfp) Hst).
      assert (Hfin : forall cc : str, match exp_match [101; 69]%N (isd ud) false (ex ++ sfx ++ rest) with
                                | Some (e, r4) => Some (cc, e, suffix_run uw ud r4)
                                | None => Some (cc, [], suffix_run uw ud (ex ++ sfx ++ rest))
                                end = Some (cc, ex, sfx)).
      { intros cc. destruct Hem as [[-> Hn]|[_ Hsome]]; [cbn [app]; now rewrite Hn, Hsr|now rewrite Hsome, Hsr]. }
      destruct fp as [|f0 fp'].
      + destruct ip as [|i0 ip']; [destruct Hne; congruence|]. cbn [nonnil app]. rewrite Hfin. reflexivity.
      + cbn [nonnil]. rewrite Hfin. reflexivity.
    - cbn [Nat.eqb]. now apply opt_exp_verdict.
    - rewrite !forallb_app. cbn [forallb]. rewrite (okc_digits ip Hip), (okc_digits fp Hfp), (opt_exp_okc _ ex eE_alnum Hex), (okc_alnums sfx Hsa).
      reflexivity.
  Qed.

  (* ------------------------------------------------------------------ (1b) digits exponent suffix *)
  Theorem accept_float_exponent : forall ip e sgn ed sfx rest,
    forallb ascii_digit ip = true -> ip <> [] ->
    in_set [101; 69]%N e = true -> sign_ok sgn = true -> forallb ascii_digit ed = true -> ed <> [] ->
    str_in sfx float_suffixes = true -> delim rest = true ->
    lex_one_ok_u uw ud (s "CONSTANT") (ip ++ (e :: sgn ++ ed) ++ sfx) rest.
  Proof.
    intros ip e sgn ed sfx rest Hip Hne He Hsg Hed Hne2 Hs Hdl.
    pose proof (fsuffix_ok sfx Hs) as Hso. assert (Hsa : forallb alnum sfx = true) by (unfold fsfx_ok in Hso; apply andb_true_iff in Hso as [Hso' _]; exact Hso').
    assert (Hex : opt_exp [101; 69]%N (e :: sgn ++ ed)) by now constructor.
    destruct (exp_then_tail _ sfx rest Hex Hso Hdl) as (Hst & Hsr & [[Habs _]|[_ Hem]]); [discriminate|].
    assert (Ew : (ip ++ (e :: sgn ++ ed) ++ sfx) ++ rest = ip ++ (e :: sgn ++ ed) ++ sfx ++ rest) by now rewrite <- !app_assoc.
    destruct ip as [|d ip'] eqn:Eip; [congruence|]. rewrite <- Eip in *.
    assert (Hd0 : ascii_digit d = true) by (rewrite Eip in Hip; cbn [forallb] in Hip; apply andb_true_iff in Hip as [Hip' _]; exact Hip').
    apply (accept_float_from_match 0%nat ip (e :: sgn ++ ed) sfx rest d ((ip' ++ (e :: sgn ++ ed) ++ sfx) ++ rest));
      try assumption; try (unfold ascii_digit in Hd0; clear - Hd0; lia).
    - now rewrite Eip.
    - rewrite Ew. unfold fexp_match. rewrite (span_app_stop (isd ud) ip _ (digits_isd ud ip Hip) Hst).
      rewrite Eip. cbn [nonnil]. rewrite <- Eip.
      rewrite Hem, Hsr. reflexivity.
    - cbn [Nat.eqb]. now apply opt_exp_verdict.
    - rewrite !forallb_app. rewrite (okc_digits ip Hip), (opt_exp_okc _ _ eE_alnum Hex), (okc_alnums sfx Hsa). reflexivity.
  Qed.
End Floats.

(* ================================================================== string literals and character constants *)
From NV Require Import Spec.TruePos Spec.Normalise Spec.LexProps Proofs.LexInv Proofs.LexText.

(* the items of a literal body: a plain character, a simple escape, an octal escape (backslash + octal digits, maximal),
   a hexadecimal escape (backslash x + one or two hexadecimal digits, as many as the tool reads) *)
Inductive sitem := SPlain (c : N) | SEsc (c : N) | SOct (o : str) | SHex (h : str).
Definition sraw (i : sitem) : str :=
  match i with SPlain c => [c] | SEsc c => [92%N; c] | SOct o => 92%N :: o | SHex h => 92%N :: 120%N :: h end.
Definition sraws (items : list sitem) : str := flat_map sraw items.

(* c followed by `next` forms no di/trigraph: c is none of ? < % :, or the next character is none of ? % : > *)
Definition nograph (c : N) (next : str) : bool :=
  negb (chr_in c [63; 60; 37; 58]%N) || match next with [] => true | d :: _ => negb (chr_in d [63; 37; 58; 62]%N) end.
Definition simple_escape_char (c : N) : bool := chr_in c ([39; 34; 63; 92]%N ++ s "abfnrtv").
Definition head_not (p : N -> bool) (next : str) : bool := match next with [] => true | d :: _ => negb (p d) end.

(* q = the delimiter of the literal kind; next = the raw text that follows the item (further items, the closing quote) *)
Definition item_ok (q : N) (it : sitem) (next : str) : bool :=
  match it with
  | SPlain c => negb (chr_in c [q; 92; 10; 9]%N) && nograph c next
  | SEsc c => simple_escape_char c && nograph c next
  | SOct o => nonempty o && forallb is_oct o && head_not is_oct next
  | SHex h => forallb is_hex h && match h with [_] => head_not is_hex next | [_; _] => true | _ => false end
  end.
Fixpoint items_ok (q : N) (items : list sitem) (tail : str) : bool :=
  match items with
  | [] => true
  | it :: r => item_ok q it (sraws r ++ tail) && items_ok q r tail
  end.

Lemma std_digraph_snd a b t : std_digraph a b = Some t -> chr_in b [37; 62; 58]%N = true.
Proof.
  unfold std_digraph. destruct a as [|p]; [discriminate|].
  repeat (destruct p as [p|p|]; try discriminate);
    (destruct b as [|q]; [discriminate|]; repeat (destruct q as [q|q|]; try discriminate); intros _; reflexivity).
Qed.

Lemma peek1_nograph c next : nograph c next = true -> peek1 (c :: next) = Some ([c], 1%nat).
Proof.
  intros H. unfold peek1.
  destruct (assoc (firstn 3 (c :: next)) trigraphs) as [v|] eqn:E3.
  { exfalso. destruct (assoc_trigraph_std _ _ E3) as (a & b & c' & t & Hk & Hs & _).
    destruct next as [|d [|d' r]]; cbn in Hk; inversion Hk; subst.
    unfold std_trigraph in Hs. destruct (N.eqb_spec a 63) as [->|]; [|discriminate]. destruct (N.eqb_spec b 63) as [->|]; [|discriminate].
    unfold nograph in H. cbn in H. discriminate. }
  destruct (assoc (firstn 2 (c :: next)) digraphs) as [v|] eqn:E2; [|reflexivity].
  exfalso. destruct (assoc_digraph_std _ _ E2) as (a & b & t & Hk & Hs & _).
  destruct next as [|d r]; cbn in Hk; inversion Hk; subst.
  pose proof (std_digraph_head _ _ _ Hs) as H1. pose proof (std_digraph_snd _ _ _ Hs) as H2.
  unfold nograph in H. cbn [chr_in existsb] in *. lia.
Qed.

(* ------------------------------------------------------------------ one item = one pop (escapes enabled), no diagnostic *)
Lemma shift_eq n x : advance n (set_pos (line x) (col x + Z.of_nat n) x) = shift n x.
Proof. reflexivity. Qed.

Lemma pf_plain_shift us x char size : is_nl char = false -> ends_with [9%N] char = false ->
  pop_finish us x char size = PopOk char (shift size x).
Proof. intros H1 H2. unfold pop_finish. rewrite H1, H2. reflexivity. Qed.

Lemma escape_letters_fact : forallb (fun c => is_substr [c] pop_escape_letters) ([39; 34; 63; 92]%N ++ s "abfnrtv") = true.
Proof. vm_compute. reflexivity. Qed.
Lemma octal_not_letter : forallb (fun c => negb (is_substr [c] pop_escape_letters) && negb (str_eqb [c] (s "x")) && is_substr [c] octal_digits)
                                 (s "01234567") = true.
Proof. vm_compute. reflexivity. Qed.

Lemma pop1_bs_head ue x r : rest x = 92%N :: r ->
  pop1 false ue x =
    match peek1 r with
    | None => pop_finish false x [92%N] 1
    | Some (temp, tsize) =>
        if negb (is_nl temp) then
          if ue then let '(char', size', x') := pop_escape x [92%N] 1 temp tsize in pop_finish false x' char' size'
          else pop_finish false x [92%N] 1
        else
          let x' := set_pos (line x + 1) 1 (advance 2 x) in
          match peek1 (rest x') with None => PopEOF x' | Some _ => pop_inner 99 false ue x' end
    end.
Proof.
  intros Hr. unfold pop1, pop_loop_bound. rewrite LexText.pop_inner_S, Hr, (peek1_nohead' 92%N r eq_refl). reflexivity.
Qed.

Lemma pop_item q x it next : item_ok q it next = true -> rest x = sraw it ++ next ->
  pop1 false true x = PopOk (sraw it) (shift (List.length (sraw it)) x).
Proof.
  intros Hok Hr. destruct it as [c|c|o|h]; cbn [sraw app item_ok] in *.
  - (* plain *)
    apply andb_true_iff in Hok as [Hc Hg]. cbn [chr_in existsb] in Hc.
    apply (pop1_plain false true x c next Hr (peek1_nograph c next Hg)). cbn [chr_in existsb]. lia.
  - (* simple escape *)
    apply andb_true_iff in Hok as [Hc Hg].
    assert (Hl : is_substr [c] pop_escape_letters = true).
    { pose proof escape_letters_fact as F. rewrite forallb_forall in F. apply F. unfold simple_escape_char in Hc. now apply chr_in_In. }
    assert (Hc9 : (c =? 9)%N = false /\ (c =? 10)%N = false).
    { pose proof (is_substr1_plain _ _ escape_letters_plain Hl) as P. unfold plainc in P. lia. }
    rewrite (pop1_bs_head true x _ Hr), (peek1_nograph c next Hg), is_nl_10. replace (c =? 10)%N with false by lia. cbn [negb].
    unfold pop_escape. rewrite Hl. cbn [app Nat.add].
    apply pf_plain_shift; [reflexivity|]. unfold ends_with. cbn [List.length Nat.leb Nat.sub skipn str_eqb andb]. lia.
  - (* octal escape *)
    apply andb_true_iff in Hok as [Hok Hn]. apply andb_true_iff in Hok as [Hne Ho].
    destruct o as [|d o']; [discriminate|]. cbn [app] in Hr.
    assert (Hd : is_oct d = true) by (cbn [forallb] in Ho; lia).
    assert (Hin : In d (s "01234567")).
    { unfold is_oct in Hd. apply chr_in_In. cbn [chr_in existsb s List.map list_ascii_of_string N_of_ascii N_of_digits]. lia. }
    pose proof octal_not_letter as F. rewrite forallb_forall in F. specialize (F d Hin).
    apply andb_true_iff in F as [F F3]. apply andb_true_iff in F as [F1 F2]. apply negb_true_iff in F1, F2.
    assert (Hpk : peek1 (d :: o' ++ next) = Some ([d], 1%nat)).
    { apply peek1_nohead'. unfold is_oct in Hd. cbn [chr_in existsb]. lia. }
    rewrite (pop1_bs_head true x _ Hr), Hpk, is_nl_10. replace (d =? 10)%N with false by (unfold is_oct in Hd; lia). cbn [negb].
    unfold pop_escape. rewrite F1, F2, F3. rewrite Hr. cbn [skipn].
    assert (Hsp : NumRe.span (fun c => chr_in c octal_digits) (d :: o' ++ next) = (d :: o', next)).
    { change (d :: o' ++ next) with ((d :: o') ++ next). apply span_app_stop.
      - apply forallb_forall. intros y Hy. rewrite forallb_forall in Ho. specialize (Ho y Hy). unfold is_oct in Ho.
        change octal_digits with (s "01234567"). cbn [chr_in existsb s List.map list_ascii_of_string N_of_ascii N_of_digits]. lia.
      - destruct next as [|n0 nr]; [reflexivity|]. cbn [head_not stops] in *. unfold is_oct in Hn.
        change octal_digits with (s "01234567"). cbn [chr_in existsb s List.map list_ascii_of_string N_of_ascii N_of_digits]. lia. }
    rewrite Hsp. cbn [app].
    assert (Hpl : plain (d :: o')).
    { unfold plain. apply forallb_forall. intros y Hy. rewrite forallb_forall in Ho. specialize (Ho y Hy). unfold is_oct in Ho. unfold plainc. lia. }
    destruct (plain_bs_text (d :: o') Hpl) as [E1 E2]. rewrite (pf_plain_shift false x _ _ E2 E1). reflexivity.
  - (* hexadecimal escape *)
    apply andb_true_iff in Hok as [Hh Hn].
    assert (Hpk : peek1 (120%N :: h ++ next) = Some ([120%N], 1%nat)) by now apply peek1_nohead'.
    rewrite (pop1_bs_head true x _ Hr), Hpk. cbn [negb is_nl nl str_eqb N.eqb Pos.eqb andb].
    unfold pop_escape. replace (is_substr [120%N] pop_escape_letters) with false by reflexivity.
    replace (str_eqb [120%N] (s "x")) with true by reflexivity. cbv zeta. rewrite Hr. cbn [skipn].
    assert (Hhexc : forall y, is_hex y = true -> chr_in y hexadecimal_digits = true).
    { intros y Hy. unfold is_hex, is_dec in Hy. change hexadecimal_digits with (s "0123456789abcdefABCDEF").
      cbn [chr_in existsb s List.map list_ascii_of_string N_of_ascii N_of_digits]. lia. }
    assert (Hnhex : forall y, is_hex y = false -> chr_in y hexadecimal_digits = false).
    { intros y Hy. unfold is_hex, is_dec in Hy. change hexadecimal_digits with (s "0123456789abcdefABCDEF").
      cbn [chr_in existsb s List.map list_ascii_of_string N_of_ascii N_of_digits]. lia. }
    assert (Hpl : forall hs, forallb is_hex hs = true -> plain (120%N :: hs)).
    { intros hs Hs. unfold plain. cbn [forallb]. apply andb_true_iff. split; [reflexivity|].
      apply forallb_forall. intros y Hy. rewrite forallb_forall in Hs. specialize (Hs y Hy). unfold is_hex, is_dec in Hs. unfold plainc. lia. }
    destruct h as [|a [|b [|? ?]]]; try discriminate; cbn [forallb] in Hh; cbn [app].
    + assert (Ha : is_hex a = true) by lia. rewrite (Hhexc a Ha).
      assert (Hha : hex_after (a :: next) = [a]).
      { unfold hex_after. rewrite (Hhexc a Ha). destruct next as [|n0 nr]; [reflexivity|]. cbn [head_not] in Hn.
        apply negb_true_iff in Hn. now rewrite (Hnhex n0 Hn). }
      rewrite Hha. cbn [app List.length Nat.add].
      destruct (plain_bs_text [120%N; a] (Hpl [a] ltac:(cbn [forallb]; lia))) as [E1 E2].
      rewrite (pf_plain_shift false x _ _ E2 E1). reflexivity.
    + assert (Ha : is_hex a = true) by lia. assert (Hb : is_hex b = true) by lia. rewrite (Hhexc a Ha).
      assert (Hha : hex_after (a :: b :: next) = [a; b]) by (unfold hex_after; now rewrite (Hhexc a Ha), (Hhexc b Hb)).
      rewrite Hha. cbn [app List.length Nat.add].
      destruct (plain_bs_text [120%N; a; b] (Hpl [a; b] ltac:(cbn [forallb]; lia))) as [E1 E2].
      rewrite (pf_plain_shift false x _ _ E2 E1). reflexivity.
Qed.

(* ------------------------------------------------------------------ the encoding prefixes *)
(* "", L, u, U, u8 *)
Definition c_prefix (pre : str) : Prop := pre = [] \/ pre = [76%N] \/ pre = [117%N] \/ pre = [85%N] \/ pre = [117%N; 56%N].

Lemma shift_add n m x : shift m (shift n x) = shift (n + m) x.
Proof.
  unfold shift. cbn [Lexer.rest off line col errs]. f_equal; try lia. apply skipn_skipn'.
Qed.

Lemma quote_prefix_step q p ps x : quote_prefix q (p :: ps) x =
  match raw_peek (S (List.length p)) (Lexer.rest x) with
  | None => None
  | Some [] => None
  | Some r => if starts_with p r && ends_with [q] r then Some (popn (List.length p) x []) else quote_prefix q ps x
  end.
Proof. reflexivity. Qed.

Lemma popn_prefix pre x t : forallb alnum pre = true -> Lexer.rest x = pre ++ t ->
  popn (List.length pre) x [] = PopOk pre (shift (List.length pre) x).
Proof. intros Ha Hr. exact (popn_plain pre x [] t (okc_alnums pre Ha) Hr). Qed.

Ltac qp_false := rewrite quote_prefix_step;
  match goal with Hr : Lexer.rest _ = _ |- _ => rewrite Hr end;
  cbn [raw_peek app firstn List.length starts_with N.eqb Pos.eqb andb];
  try (unfold ends_with; cbn [List.length Nat.leb Nat.sub skipn str_eqb N.eqb Pos.eqb andb]).

Lemma quote_prefix_found q pre x T : (q = 34%N \/ q = 39%N) -> c_prefix pre -> Lexer.rest x = pre ++ q :: T ->
  quote_prefix q quote_prefixes x = Some (PopOk pre (shift (List.length pre) x)).
Proof.
  intros Hq Hpre Hr. change quote_prefixes with [[108%N]; [76%N]; [117%N]; [85%N]; [117%N; 56%N]].
  destruct Hpre as [->|[->|[->|[->| ->]]]]; destruct Hq as [-> | ->]; cbn [app] in Hr.
  all: repeat qp_false.
  all: try (cbn [quote_prefix]; rewrite shift_0; reflexivity).
  all: f_equal.
  all: try exact (popn_prefix [76%N] x _ eq_refl Hr).
  all: try exact (popn_prefix [117%N] x _ eq_refl Hr).
  all: try exact (popn_prefix [85%N] x _ eq_refl Hr).
  all: exact (popn_prefix [117%N; 56%N] x _ eq_refl Hr).
Qed.

(* ------------------------------------------------------------------ the parsers tried before decline on a letter or a quote *)
Section Literals.
  Variable uw ud : N -> bool.

  Definition lit_head (c : N) : bool := (ascii_alpha c || (c =? 34)%N || (c =? 39)%N).

  Lemma lit_head_facts c : lit_head c = true ->
    isd ud c = false /\ (c =? 46)%N = false /\ (c =? 48)%N = false /\ (c =? 92)%N = false /\ (c =? 63)%N = false.
  Proof. unfold lit_head, isd, ascii_alpha, ascii_digit. intros H. replace (c <? 128)%N with true by lia. lia. Qed.

  Lemma float_none_lit x c t : Lexer.rest x = c :: t -> lit_head c = true -> parse_float_literal uw ud x = PNone.
  Proof.
    intros Hr Hc. destruct (lit_head_facts c Hc) as (Hd & H46 & H48 & _).
    assert (Hst : stops (isd ud) (c :: t) = true) by (cbn [stops]; now rewrite Hd).
    apply parse_float_none; rewrite Hr.
    - unfold fexp_match. rewrite (span_stop (isd ud) _ Hst). reflexivity.
    - apply (ffrac_none uw ud [] (c :: t) eq_refl Hst). cbn [stops]. now rewrite H46.
    - now apply fhex_none_nonzero.
  Qed.

  Lemma int_none_lit x c t : Lexer.rest x = c :: t -> lit_head c = true -> parse_integer_literal uw ud x = PNone.
  Proof.
    intros Hr Hc. destruct (lit_head_facts c Hc) as (Hd & H46 & H48 & _).
    unfold parse_integer_literal. rewrite Hr, (int_match_nonzero uw ud c t H48).
    rewrite (int_const_none ud (c :: t)); [reflexivity|]. cbn [stops]. now rewrite Hd.
  Qed.
End Literals.

Lemma quote_prefix_other pre x T : c_prefix pre -> Lexer.rest x = pre ++ 34%N :: T ->
  quote_prefix 39%N quote_prefixes x = Some (PopOk [] x).
Proof.
  intros Hpre Hr. change quote_prefixes with [[108%N]; [76%N]; [117%N]; [85%N]; [117%N; 56%N]].
  destruct Hpre as [->|[->|[->|[->| ->]]]]; cbn [app] in Hr; repeat qp_false; reflexivity.
Qed.

Lemma sraw_nonempty it : sraw it <> [].
Proof. destruct it; discriminate. Qed.

Lemma sraw_not_quote q it next : item_ok q it next = true -> str_eqb (sraw it) [q] = false.
Proof.
  destruct it as [c|c|o|h]; cbn [sraw item_ok str_eqb]; intros H.
  - apply andb_true_iff in H as [H _]. apply negb_true_iff in H. cbn [chr_in existsb] in H. apply orb_false_iff in H as [H _]. now rewrite H.
  - now rewrite andb_false_r.
  - destruct o; [discriminate|]. now rewrite andb_false_r.
  - now rewrite andb_false_r.
Qed.

(* string_loop over a body of items, up to and including the closing quote: no diagnostic, plain column arithmetic *)
Lemma string_loop_items : forall items fuel acc x rest,
  items_ok 34%N items (34%N :: rest) = true -> Lexer.rest x = sraws items ++ 34%N :: rest ->
  (List.length (sraws items) < fuel)%nat ->
  string_loop fuel acc x = SDone (acc ++ sraws items ++ [34%N]) true (shift (S (List.length (sraws items))) x).
Proof.
  induction items as [|it items IH]; intros fuel acc x rest Hok Hr Hf; (destruct fuel as [|fuel]; [cbn in Hf; lia|]);
    rewrite string_loop_S.
  - cbn [sraws flat_map app List.length] in *. rewrite Hr, (peek1_nohead' 34%N rest eq_refl).
    rewrite (pop1_plain false true x 34%N rest Hr (peek1_nohead' 34%N rest eq_refl) eq_refl). reflexivity.
  - cbn [sraws flat_map items_ok] in *. fold (sraws items) in *. apply andb_true_iff in Hok as [Hit Hok].
    rewrite <- app_assoc in Hr.
    destruct (peek1 (Lexer.rest x)) as [pk|] eqn:Ep.
    2: { apply peek1_none in Ep. rewrite Ep in Hr. destruct (sraw it) eqn:E; [now apply sraw_nonempty in E|discriminate]. }
    rewrite (pop_item 34%N x it _ Hit Hr), (sraw_not_quote 34%N it _ Hit).
    rewrite (IH fuel (acc ++ sraw it) (shift (List.length (sraw it)) x) rest Hok).
    + rewrite shift_add, <- !app_assoc. rewrite app_length. f_equal. f_equal. lia.
    + rewrite rest_shift, Hr, skipn_app, skipn_all, Nat.sub_diag. reflexivity.
    + rewrite app_length in Hf. assert (1 <= List.length (sraw it))%nat by (destruct it; cbn; lia). lia.
Qed.

Section Strings.
  Variable uw ud : N -> bool.

  Lemma try_parsers_string x t x' : parse_float_literal uw ud x = PNone -> parse_integer_literal uw ud x = PNone ->
    parse_char_literal x = PNone -> parse_string_literal x = PTok t x' -> try_parsers uw ud parsers x = PTok t x'.
  Proof.
    intros H1 H2 H3 H4.
    assert (E1 : run_parser uw ud (s "parse_float_literal") x = parse_float_literal uw ud x) by reflexivity.
    assert (E2 : run_parser uw ud (s "parse_integer_literal") x = parse_integer_literal uw ud x) by reflexivity.
    assert (E3 : run_parser uw ud (s "parse_char_literal") x = parse_char_literal x) by reflexivity.
    assert (E4 : run_parser uw ud (s "parse_string_literal") x = parse_string_literal x) by reflexivity.
    unfold parsers. cbn [try_parsers]. rewrite E1, H1, E2, H2, E3, H3, E4, H4. reflexivity.
  Qed.

  Lemma c_prefix_alnum pre : c_prefix pre -> forallb alnum pre = true.
  Proof. intros [->|[->|[->|[->| ->]]]]; reflexivity. Qed.

  Lemma lit_first pre q T : c_prefix pre -> (q = 34%N \/ q = 39%N) -> exists c t, pre ++ q :: T = c :: t /\ lit_head c = true.
  Proof. intros [->|[->|[->|[->| ->]]]] [-> | ->]; cbn [app]; eexists; eexists; (split; [reflexivity|reflexivity]). Qed.

  (* ------------------------------------------------------------------ (3) string literals of any length *)
  Theorem accept_string : forall pre items rest,
    c_prefix pre -> items_ok 34%N items (34%N :: rest) = true ->
    lex_one_ok_u uw ud (s "STRING") (pre ++ 34%N :: sraws items ++ [34%N]) rest.
  Proof.
    intros pre items rest Hpre Hok.
    set (w := pre ++ 34%N :: sraws items ++ [34%N]).
    assert (Ew : w ++ rest = pre ++ 34%N :: sraws items ++ 34%N :: rest).
    { unfold w. rewrite <- app_assoc. cbn [app]. now rewrite <- app_assoc. }
    destruct (lit_first pre 34%N (sraws items ++ 34%N :: rest) Hpre (or_introl eq_refl)) as (c & t & Hct & Hc).
    rewrite <- Ew in Hct. destruct (lit_head_facts ud c Hc) as (_ & _ & _ & H92 & H63).
    set (x := init (w ++ rest)).
    assert (Hr : Lexer.rest x = pre ++ 34%N :: sraws items ++ 34%N :: rest) by exact Ew.
    assert (Hp : parse_string_literal x = PTok (mktok (s "STRING") 1 1 (Some w)) (shift (List.length w) x)).
    { unfold parse_string_literal.
      destruct (peek1 (Lexer.rest x)) as [pk|] eqn:Ep; [|apply peek1_none in Ep; change (Lexer.rest x) with (w ++ rest) in Ep; congruence].
      rewrite (quote_prefix_found 34%N pre x _ (or_introl eq_refl) Hpre Hr).
      assert (Hr1 : Lexer.rest (shift (List.length pre) x) = 34%N :: sraws items ++ 34%N :: rest).
      { rewrite rest_shift, Hr, skipn_app, skipn_all, Nat.sub_diag. reflexivity. }
      rewrite Hr1. cbn [first_is N.eqb Pos.eqb negb].
      rewrite (pop1_plain false false _ 34%N _ Hr1 (peek1_nohead' 34%N _ eq_refl) eq_refl).
      rewrite shift_add.
      assert (Hr2 : Lexer.rest (shift (List.length pre + 1) x) = sraws items ++ 34%N :: rest).
      { rewrite rest_shift, Hr. replace (List.length pre + 1)%nat with (List.length (pre ++ [34%N])) by (rewrite app_length; reflexivity).
        change (pre ++ 34%N :: sraws items ++ 34%N :: rest) with (pre ++ [34%N] ++ sraws items ++ 34%N :: rest).
        rewrite app_assoc, skipn_app, skipn_all, Nat.sub_diag. reflexivity. }
      rewrite (string_loop_items items _ (pre ++ [34%N]) _ rest Hok Hr2); [|rewrite Hr2, app_length; lia].
      rewrite shift_add. cbv zeta. unfold w. f_equal.
      - f_equal. f_equal. rewrite <- app_assoc. reflexivity.
      - f_equal. rewrite !app_length. cbn [List.length]. rewrite app_length. cbn [List.length]. lia. }
    exists (shift (List.length w) x). split; [|reflexivity].
    assert (Hrx : Lexer.rest x = c :: t) by exact Hct.
    assert (Hcn : parse_char_literal x = PNone).
    { unfold parse_char_literal. rewrite (quote_prefix_other pre x _ Hpre Hr), Hr.
      replace (first_is 39%N (pre ++ 34%N :: sraws items ++ 34%N :: rest)) with false; [reflexivity|].
      destruct Hpre as [->|[->|[->|[->| ->]]]]; reflexivity. }
    rewrite (step_tok uw ud w rest c t _ _ Hct H92 H63
               (try_parsers_string x _ _ (float_none_lit uw ud x c t Hrx Hc) (int_none_lit uw ud x c t Hrx Hc) Hcn Hp)).
    reflexivity.
  Qed.
End Strings.

Lemma sraw_not_nl q it next : item_ok q it next = true -> is_nl (sraw it) = false.
Proof.
  unfold is_nl, nl. destruct it as [c|c|o|h]; cbn [sraw item_ok str_eqb]; intros H; try reflexivity.
  apply andb_true_iff in H as [H _]. apply negb_true_iff in H. cbn [chr_in existsb] in H.
  apply orb_false_iff in H as [_ H]. apply orb_false_iff in H as [_ H]. apply orb_false_iff in H as [H _]. now rewrite H.
Qed.

Section Chars.
  Variable uw ud : N -> bool.

  Lemma try_parsers_char x t x' : parse_float_literal uw ud x = PNone -> parse_integer_literal uw ud x = PNone ->
    parse_char_literal x = PTok t x' -> try_parsers uw ud parsers x = PTok t x'.
  Proof.
    intros H1 H2 H3.
    assert (E1 : run_parser uw ud (s "parse_float_literal") x = parse_float_literal uw ud x) by reflexivity.
    assert (E2 : run_parser uw ud (s "parse_integer_literal") x = parse_integer_literal uw ud x) by reflexivity.
    assert (E3 : run_parser uw ud (s "parse_char_literal") x = parse_char_literal x) by reflexivity.
    unfold parsers. cbn [try_parsers]. rewrite E1, H1, E2, H2, E3, H3. reflexivity.
  Qed.

  (* ------------------------------------------------------------------ (3) character constants: exactly one c-char *)
  Theorem accept_char : forall pre it rest,
    c_prefix pre -> item_ok 39%N it (39%N :: rest) = true ->
    lex_one_ok_u uw ud (s "CHAR_CONST") (pre ++ 39%N :: sraw it ++ [39%N]) rest.
  Proof.
    intros pre it rest Hpre Hok.
    set (w := pre ++ 39%N :: sraw it ++ [39%N]).
    assert (Ew : w ++ rest = pre ++ 39%N :: sraw it ++ 39%N :: rest).
    { unfold w. rewrite <- app_assoc. cbn [app]. now rewrite <- app_assoc. }
    destruct (lit_first pre 39%N (sraw it ++ 39%N :: rest) Hpre (or_intror eq_refl)) as (c & t & Hct & Hc).
    rewrite <- Ew in Hct. destruct (lit_head_facts ud c Hc) as (_ & _ & _ & H92 & H63).
    set (x := init (w ++ rest)).
    assert (Hr : Lexer.rest x = pre ++ 39%N :: sraw it ++ 39%N :: rest) by exact Ew.
    assert (Hp : parse_char_literal x = PTok (mktok (s "CHAR_CONST") 1 1 (Some w)) (shift (List.length w) x)).
    { unfold parse_char_literal.
      rewrite (quote_prefix_found 39%N pre x _ (or_intror eq_refl) Hpre Hr).
      assert (Hr1 : Lexer.rest (shift (List.length pre) x) = 39%N :: sraw it ++ 39%N :: rest).
      { rewrite rest_shift, Hr, skipn_app, skipn_all, Nat.sub_diag. reflexivity. }
      rewrite Hr1. cbn [first_is N.eqb Pos.eqb negb].
      rewrite (pop1_plain false false _ 39%N _ Hr1 (peek1_nohead' 39%N _ eq_refl) eq_refl).
      rewrite shift_add.
      assert (Hr2 : Lexer.rest (shift (List.length pre + 1) x) = sraw it ++ 39%N :: rest).
      { rewrite rest_shift, Hr. replace (List.length pre + 1)%nat with (List.length (pre ++ [39%N])) by (rewrite app_length; reflexivity).
        change (pre ++ 39%N :: sraw it ++ 39%N :: rest) with (pre ++ [39%N] ++ sraw it ++ 39%N :: rest).
        rewrite app_assoc, skipn_app, skipn_all, Nat.sub_diag. reflexivity. }
      unfold char_loop_bound. rewrite char_loop_S.
      rewrite (pop_item 39%N _ it _ Hok Hr2), (sraw_not_nl 39%N it _ Hok), (sraw_not_quote 39%N it _ Hok).
      rewrite shift_add, char_loop_S.
      assert (Hr3 : Lexer.rest (shift (List.length pre + 1 + List.length (sraw it)) x) = 39%N :: rest).
      { rewrite <- shift_add, rest_shift, Hr2, skipn_app, skipn_all, Nat.sub_diag. reflexivity. }
      rewrite (pop1_plain false true _ 39%N _ Hr3 (peek1_nohead' 39%N _ eq_refl) eq_refl).
      replace (is_nl [39%N]) with false by reflexivity. replace (str_eqb [39%N] [39%N]) with true by reflexivity.
      rewrite shift_add. cbv zeta. cbn [Nat.eqb Nat.ltb Nat.leb andb].
      unfold w. f_equal.
      - f_equal. f_equal. rewrite <- !app_assoc. reflexivity.
      - f_equal. rewrite !app_length. cbn [List.length]. rewrite app_length. cbn [List.length]. lia. }
    exists (shift (List.length w) x). split; [|reflexivity].
    assert (Hrx : Lexer.rest x = c :: t) by exact Hct.
    rewrite (step_tok uw ud w rest c t _ _ Hct H92 H63
               (try_parsers_char x _ _ (float_none_lit uw ud x c t Hrx Hc) (int_none_lit uw ud x c t Hrx Hc) Hp)).
    reflexivity.
  Qed.
End Chars.

(* ================================================================== (2) hexadecimal floating constants *)
Lemma lstrip_run set a c b : forallb (fun y => chr_in y set) a = true -> chr_in c set = false -> lstrip set (a ++ c :: b) = c :: b.
Proof.
  intros Ha Hc. induction a as [|y a IH]; cbn [app lstrip]; [now rewrite Hc|].
  cbn [forallb] in Ha. apply andb_true_iff in Ha as [Hy Ha]. rewrite Hy. now apply IH.
Qed.

Lemma strip_hex_const set xc body : chr_in 48%N set = true -> chr_in xc set = false ->
  forallb (fun y => chr_in y set) body = true -> strip set (48%N :: xc :: body) = [xc].
Proof.
  intros H0 Hx Hb. unfold strip. cbn [lstrip]. rewrite H0. cbn [lstrip]. rewrite Hx. cbn [rev].
  rewrite (lstrip_run set (rev body) xc []); [reflexivity| |assumption].
  apply forallb_forall. intros y Hy. apply in_rev in Hy. rewrite forallb_forall in Hb. now apply Hb.
Qed.

Section HexFloats.
  Variable uw ud : N -> bool.

  Definition is_pP (c : N) : bool := ((c =? 112) || (c =? 80))%N.

  Lemma pP_not_digit_sign c : ascii_digit c = true \/ in_set [43; 45]%N c = true -> in_set [112; 80]%N c = false.
  Proof. unfold ascii_digit. cbn [in_set existsb]. lia. Qed.

  Lemma hexs_ishex hs : forallb is_hex hs = true -> forallb (ishex ud) hs = true.
  Proof. intros H. apply forallb_forall. intros y Hy. rewrite forallb_forall in H. now apply hex_ishex, H. Qed.

  (* the digits of a hexadecimal float: H+ [ . H* ]  or  . H+   (since the repair of the findings hexfloat-empty-part and
     hexfloat-hex-suffix: fraction or integer part may be empty, not both; the exponent digits are decimal, so every suffix
     of the table is allowed) *)
  Definition hexfloat_digits (hi frac : str) : Prop :=
    forallb is_hex hi = true /\
    ((frac = [] /\ hi <> []) \/ (exists fp, frac = 46%N :: fp /\ forallb is_hex fp = true /\ (hi <> [] \/ fp <> []))).

  Theorem accept_hexfloat : forall xc hi frac p sgn ed sfx rest,
    is_xX xc = true -> hexfloat_digits hi frac ->
    is_pP p = true -> sign_ok sgn = true -> forallb ascii_digit ed = true -> ed <> [] ->
    str_in sfx float_suffixes = true -> delim rest = true ->
    lex_one_ok_u uw ud (s "CONSTANT") ((48%N :: xc :: hi ++ frac) ++ (p :: sgn ++ ed) ++ sfx) rest.
  Proof.
    intros xc hi frac p sgn ed sfx rest Hx [Hhi Hfrac] Hp Hsg Hed Hne Hs Hdl.
    pose proof (fsuffix_ok sfx Hs) as Hso.
    assert (Hsa : forallb alnum sfx = true) by (unfold fsfx_ok in Hso; apply andb_true_iff in Hso as [Hso' _]; exact Hso').
    pose proof (ftail_ok_app ud sfx rest Hso Hdl) as HT.
    assert (Hsr : suffix_run uw ud (sfx ++ rest) = sfx) by now apply suffix_run_ok.
    assert (HpE : in_set [112; 80]%N p = true) by (clear - Hp; unfold is_pP in Hp; cbn [in_set existsb]; lia).
    assert (Hp' : p = 112%N \/ p = 80%N) by (clear - Hp; unfold is_pP in Hp; lia).
    assert (Hxc : xc = 120%N \/ xc = 88%N) by (clear - Hx; unfold is_xX in Hx; lia).
    assert (Hxa : alnum xc = true) by (clear - Hx; unfold is_xX in Hx; unfold alnum, ascii_digit, ascii_alpha; lia).
    clear Hso. remember float_suffixes as FS eqn:EFS.
    set (const := 48%N :: xc :: hi ++ frac). set (expo := p :: sgn ++ ed).
    assert (Hexp : exp_match [112; 80]%N (isd ud) false (expo ++ sfx ++ rest) = Some (expo, sfx ++ rest)).
    { unfold expo. cbn [app]. rewrite <- app_assoc.
      apply (exp_match_ok [112; 80]%N (isd ud) false p sgn ed (sfx ++ rest) HpE Hsg Hed Hne (digit_isd ud) pP_not_digit_sign).
      now apply ftail_stops_isd. }
    assert (Hstx : stops (ishex ud) (expo ++ sfx ++ rest) = true).
    { unfold expo. cbn [app stops]. unfold ishex, isd, ascii_digit. destruct Hp' as [-> | ->]; reflexivity. }
    assert (Hfh : fhex_match uw ud (const ++ expo ++ sfx ++ rest) = Some (const, expo, sfx)).
    { unfold const. cbn [app]. unfold fhex_match. lazy beta iota.
      assert (Hnx : forall R, stops (in_set [120; 88]%N) ((hi ++ frac) ++ R) = true \/ True) by (intros; now right).
      assert (E1 : span (in_set [120; 88]%N) (xc :: (hi ++ frac) ++ expo ++ sfx ++ rest) = ([xc], (hi ++ frac) ++ expo ++ sfx ++ rest)).
      { change (xc :: (hi ++ frac) ++ expo ++ sfx ++ rest) with ([xc] ++ ((hi ++ frac) ++ expo ++ sfx ++ rest)).
        apply span_app_stop; [destruct Hxc as [-> | ->]; reflexivity|].
        destruct hi as [|h hi'].
        - destruct Hfrac as [[_ Habs]|(fp & -> & _ & _)]; [congruence|reflexivity].
        - cbn [app stops]. cbn [forallb] in Hhi. apply andb_true_iff in Hhi as [Hh _]. now rewrite (hex_not_x h Hh). }
      rewrite E1. cbn [nonnil]. rewrite <- app_assoc.
      destruct Hfrac as [[-> Hne1]|(fp & -> & Hfp & Hne1)].
      - (* H+ exponent *)
        cbn [app]. rewrite (span_app_stop (ishex ud) hi (expo ++ sfx ++ rest) (hexs_ishex hi Hhi) Hstx).
        assert (En : nonnil hi = true) by (destruct hi; [congruence|reflexivity]). rewrite En. rewrite app_nil_r.
        unfold expo at 1. cbn [app]. destruct Hp' as [-> | ->]; lazy beta iota; fold expo; rewrite Hexp, Hsr; reflexivity.
      - cbn [app]. rewrite (span_app_stop (ishex ud) hi (46%N :: fp ++ expo ++ sfx ++ rest) (hexs_ishex hi Hhi) eq_refl).
        lazy beta iota. rewrite (span_app_stop (ishex ud) fp (expo ++ sfx ++ rest) (hexs_ishex fp Hfp) Hstx).
        destruct hi as [|h hi'].
        + (* . H+ *)
          destruct Hne1 as [Habs|Hfne]; [congruence|]. cbn [nonnil app].
          assert (Enf : nonnil fp = true) by (destruct fp; [congruence|reflexivity]). rewrite Enf.
          rewrite Hexp, Hsr. reflexivity.
        + (* H+ . H* *)
          cbn [nonnil]. rewrite Hexp, Hsr. rewrite <- ?app_assoc. reflexivity. }
    subst FS.
    apply (accept_float_from_match uw ud 2%nat const expo sfx rest 48%N (xc :: (hi ++ frac) ++ expo ++ sfx ++ rest)); try assumption; try reflexivity.
    - unfold const. cbn [app]. now rewrite <- !app_assoc.
    - rewrite <- !app_assoc in *.
      assert (Efe : fexp_match uw ud (const ++ expo ++ sfx ++ rest) = None).
      { unfold const. change ((48%N :: xc :: hi ++ frac) ++ expo ++ sfx ++ rest) with ([48%N] ++ (xc :: (hi ++ frac) ++ expo ++ sfx ++ rest)).
        apply fexp_none; [reflexivity| |]; destruct Hxc as [-> | ->]; reflexivity. }
      assert (Eff : ffrac_match uw ud (const ++ expo ++ sfx ++ rest) = None).
      { unfold const. change ((48%N :: xc :: hi ++ frac) ++ expo ++ sfx ++ rest) with ([48%N] ++ (xc :: (hi ++ frac) ++ expo ++ sfx ++ rest)).
        apply ffrac_none; [reflexivity| |]; destruct Hxc as [-> | ->]; reflexivity. }
      rewrite Efe, Eff, Hfh. reflexivity.
    - cbn [Nat.eqb]. unfold expo. cbn [nonempty andb]. now rewrite (exp_ok_in_ok ud [112; 80]%N p sgn ed HpE Hsg Hed Hne).
    - unfold expo. cbn [nonempty negb]. now rewrite !andb_false_r.
    - unfold const.
      rewrite (strip_hex_const _ xc (hi ++ frac)); [destruct Hxc as [E|E]; rewrite E; reflexivity|reflexivity|destruct Hxc as [E|E]; rewrite E; reflexivity|].
      apply forallb_forall. intros y Hy. apply in_app_or in Hy as [Hy|Hy].
      + rewrite forallb_forall in Hhi. specialize (Hhi y Hy). clear - Hhi. unfold is_hex, is_dec in Hhi.
        change (hexadecimal_digits ++ s ".") with (s "0123456789abcdefABCDEF."). cbn [chr_in existsb s List.map list_ascii_of_string N_of_ascii N_of_digits]. lia.
      + destruct Hfrac as [[-> _]|(fp & -> & Hfp & _)]; [destruct Hy|]. destruct Hy as [<-|Hy]; [reflexivity|].
        rewrite forallb_forall in Hfp. specialize (Hfp y Hy). clear - Hfp. unfold is_hex, is_dec in Hfp.
        change (hexadecimal_digits ++ s ".") with (s "0123456789abcdefABCDEF."). cbn [chr_in existsb s List.map list_ascii_of_string N_of_ascii N_of_digits]. lia.
    - (* all characters plain *)
      assert (H1 : forallb okc hi = true) by (apply okc_alnums, forallb_forall; intros y Hy; rewrite forallb_forall in Hhi; now apply hex_alnum, Hhi).
      assert (H2 : forallb okc frac = true).
      { destruct Hfrac as [[-> _]|(fp & -> & Hfp & _)]; [reflexivity|]. cbn [forallb]. apply andb_true_iff. split; [reflexivity|].
        apply okc_alnums, forallb_forall. intros y Hy. rewrite forallb_forall in Hfp. now apply hex_alnum, Hfp. }
      assert (H3 : forallb okc sgn = true).
      { destruct sgn as [|c [|? ?]]; try discriminate; [reflexivity|]. cbn [sign_ok in_set existsb forallb] in Hsg |- *. clear - Hsg. unfold okc. cbn [chr_in existsb]. lia. }
      assert (H4 : forallb okc ed = true) by now apply okc_digits.
      assert (H6 : okc p = true) by (apply alnum_okc; clear - Hp; unfold is_pP in Hp; unfold alnum, ascii_alpha, ascii_digit; lia).
      unfold const, expo. repeat (rewrite ?forallb_app; cbn [forallb app]).
      rewrite ?(alnum_okc xc Hxa), ?H1, ?H2, ?H3, ?H4, ?H6, ?(okc_alnums sfx Hsa). reflexivity.
  Qed.
End HexFloats.

(* ================================================================== non-vacuity: instances of the unbounded theorems *)
Example accept_float_instances :
  lex_one_ok (s "CONSTANT") (s "3.14159e-10L") (s ";") = true /\ lex_one_ok (s "CONSTANT") (s ".5f") (s ")") = true /\
  lex_one_ok (s "CONSTANT") (s "5.") (s " ") = true /\ lex_one_ok (s "CONSTANT") (s "1e10") (s "+1") = true.
Proof.
  split; [|split; [|split]]; apply lex_one_ok_of_u.
  - refine (accept_float_fractional nouni nouni (s "3") (s "14159") (s "e-10") (s "L") (s ";") eq_refl eq_refl (or_introl _) _ eq_refl eq_refl).
    + discriminate.
    + apply (OE_some [101; 69]%N 101%N (s "-") (s "10")); try reflexivity. discriminate.
  - refine (accept_float_fractional nouni nouni [] (s "5") [] (s "f") (s ")") eq_refl eq_refl (or_intror _) (OE_none _) eq_refl eq_refl). discriminate.
  - refine (accept_float_fractional nouni nouni (s "5") [] [] [] (s " ") eq_refl eq_refl (or_introl _) (OE_none _) eq_refl eq_refl). discriminate.
  - refine (accept_float_exponent nouni nouni (s "1") 101%N [] (s "10") [] (s "+1") eq_refl _ eq_refl eq_refl eq_refl _ eq_refl eq_refl); discriminate.
Qed.

Example accept_literal_instances :
  (* the string a, escape t, b, escaped double quote, c, escaped backslash; the wide character constant newline escape;
     the empty u8 string; the character constant hexadecimal escape 41; a string with percent and colon *)
  lex_one_ok (s "STRING") ([34; 97; 92; 116; 98; 92; 34; 99; 92; 92; 34]%N) (s ";") = true /\
  lex_one_ok (s "CHAR_CONST") ([76; 39; 92; 110; 39]%N) (s ")") = true /\
  lex_one_ok (s "STRING") ([117; 56; 34; 34]%N) (s ",") = true /\
  lex_one_ok (s "CHAR_CONST") ([39; 92; 120; 52; 49; 39]%N) [] = true /\
  lex_one_ok (s "STRING") ([34]%N ++ s "%d: 50%!" ++ [34]%N) (s ")") = true.
Proof.
  split; [|split; [|split; [|split]]]; apply lex_one_ok_of_u.
  - exact (accept_string nouni nouni [] [SPlain 97; SEsc 116; SPlain 98; SEsc 34; SPlain 99; SEsc 92]%N (s ";") (or_introl eq_refl) eq_refl).
  - exact (accept_char nouni nouni [76%N] (SEsc 110%N) (s ")") (or_intror (or_introl eq_refl)) eq_refl).
  - exact (accept_string nouni nouni [117; 56]%N [] (s ",") (or_intror (or_intror (or_intror (or_intror eq_refl)))) eq_refl).
  - exact (accept_char nouni nouni [] (SHex (s "41")) [] (or_introl eq_refl) eq_refl).
  - exact (accept_string nouni nouni [] (List.map SPlain (s "%d: 50%!")) (s ")") (or_introl eq_refl) eq_refl).
Qed.

Example accept_hexfloat_instances :
  lex_one_ok (s "CONSTANT") (s "0x1.8p3") (s ";") = true /\ lex_one_ok (s "CONSTANT") (s "0XAp-2L") (s ";") = true /\
  (* the former findings: empty fraction, empty integer part, a suffix that starts with a hexadecimal letter and continues *)
  lex_one_ok (s "CONSTANT") (s "0x1.p3") (s ";") = true /\ lex_one_ok (s "CONSTANT") (s "0x.8p1") (s ";") = true /\
  lex_one_ok (s "CONSTANT") (s "0x1.8p3fi") (s ";") = true /\
  shape_hexfloat_empty_part (s "0x1.p3") = true /\ shape_hexfloat_empty_part (s "0x.8p1") = true /\
  shape_hexfloat_hex_suffix (s "0x1.8p3fi") = true.
Proof.
  split; [apply lex_one_ok_of_u;
          refine (accept_hexfloat nouni nouni 120%N (s "1") (s ".8") 112%N [] (s "3") [] (s ";") eq_refl (conj eq_refl (or_intror (ex_intro _ (s "8") (conj eq_refl (conj eq_refl (or_introl _)))))) eq_refl eq_refl eq_refl _ eq_refl eq_refl); discriminate|].
  split; [apply lex_one_ok_of_u;
          refine (accept_hexfloat nouni nouni 88%N (s "A") [] 112%N (s "-") (s "2") (s "L") (s ";") eq_refl (conj eq_refl (or_introl (conj eq_refl _))) eq_refl eq_refl eq_refl _ eq_refl eq_refl); discriminate|].
  split; [apply lex_one_ok_of_u;
          refine (accept_hexfloat nouni nouni 120%N (s "1") (s ".") 112%N [] (s "3") [] (s ";") eq_refl (conj eq_refl (or_intror (ex_intro _ [] (conj eq_refl (conj eq_refl (or_introl _)))))) eq_refl eq_refl eq_refl _ eq_refl eq_refl); discriminate|].
  split; [apply lex_one_ok_of_u;
          refine (accept_hexfloat nouni nouni 120%N [] (s ".8") 112%N [] (s "1") [] (s ";") eq_refl (conj eq_refl (or_intror (ex_intro _ (s "8") (conj eq_refl (conj eq_refl (or_intror _)))))) eq_refl eq_refl eq_refl _ eq_refl eq_refl); discriminate|].
  split; [apply lex_one_ok_of_u;
          refine (accept_hexfloat nouni nouni 120%N (s "1") (s ".8") 112%N [] (s "3") (s "fi") (s ";") eq_refl (conj eq_refl (or_intror (ex_intro _ (s "8") (conj eq_refl (conj eq_refl (or_introl _)))))) eq_refl eq_refl eq_refl _ eq_refl eq_refl); discriminate|].
  vm_compute. repeat split; reflexivity.
Qed.
