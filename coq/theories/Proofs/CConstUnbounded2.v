(* C11, UNBOUNDED accept theorems beyond integers: decimal floating constants, string literals, character constants
   (and hexadecimal floats), for all Unicode class oracles uw ud and bodies of any length.
   Reuses Proofs/CConstUnbounded.v (characters, span, popn over plain characters, lex_one_ok_u). *)
From NV Require Import Model.Base Model.Diag Model.Lexer Model.NumRe Spec.CConst Gen.LexTables
  Proofs.StrOrder Proofs.LexRename Proofs.CConstUnbounded.
From Coq Require Import Lia ZifyBool.

Local Open Scope Z_scope.

(* ------------------------------------------------------------------ the float suffix table *)
(* every float suffix is made of ASCII letters and digits and starts with a letter other than e / E *)
Definition fsfx_ok (sfx : str) : bool :=
  forallb alnum sfx && match sfx with [] => true | a :: _ => ascii_alpha a && negb (chr_in a (s "eE")) end.
Lemma float_suffixes_ok : forallb fsfx_ok float_suffixes = true.
Proof. vm_compute. reflexivity. Qed.
Lemma fsuffix_ok sfx : str_in sfx float_suffixes = true -> fsfx_ok sfx = true.
Proof. intros H. apply str_in_In in H. pose proof float_suffixes_ok as T. rewrite forallb_forall in T. now apply T. Qed.

(* ------------------------------------------------------------------ the part of parse_float_literal after the three patterns *)
Definition float_body (ud : N -> bool) (x : st) (ty : nat) (const expo suffix : str) : pres :=
  let l0 := line x in let c0 := col x in
  let column := c0 + zl const in
  let badhex := strip (hexadecimal_digits ++ s ".") const in
  let verdict : option (option diag) :=
    if nonempty expo && negb (exp_ok_in ud (if Nat.eqb ty 2 then [112; 80]%N else [101; 69]%N) expo) then
      Some (Some (from_name (s "BAD_EXPONENT") lv_error [mkhl l0 column (Some (zl expo + zl suffix)) None]))
    else if Nat.eqb ty 2 && negb (chr_in 46%N const) && negb (nonempty expo) then None
    else if Nat.eqb ty 2 && negb (str_in badhex [s "x"; s "X"]) then
      Some (Some (from_name (s "MULTIPLE_X") lv_error [mkhl l0 (column - zl const + 1) (Some (zl badhex)) None]))
    else if Nat.eqb (count_chr 46%N const) 1 && Nat.ltb 0 (count_chr 46%N suffix) then
      Some (Some (from_name (s "MULTIPLE_DOTS") lv_error [mkhl l0 column (Some (zl expo + zl suffix)) None]))
    else if negb (str_in suffix float_suffixes) then
      Some (Some (from_name (s "BAD_FLOAT_SUFFIX") lv_error [mkhl l0 (column + zl expo) (Some (zl suffix)) None]))
    else Some None in
  match verdict with
  | None => PNone
  | Some err =>
    let x1 := match err with Some e => add_err e x | None => x end in
    let n := (List.length const + List.length expo + List.length suffix)%nat in
    of_popres (popn n x1 []) (fun slice x2 => PTok (mktok (s "CONSTANT") l0 c0 (Some slice)) x2)
  end.

Lemma parse_float_unfold uw ud x : parse_float_literal uw ud x =
  match rest x with
  | [] => PNone
  | _ =>
      match (match fexp_match uw ud (rest x) with
             | Some g => Some (0%nat, g)
             | None => match ffrac_match uw ud (rest x) with
                       | Some g => Some (1%nat, g)
                       | None => match fhex_match uw ud (rest x) with Some g => Some (2%nat, g) | None => None end
                       end
             end) with
      | None => PNone
      | Some (ty, (const, expo, suffix)) => float_body ud x ty const expo suffix
      end
  end.
Proof. reflexivity. Qed.

Lemma count_chr_alnum c sfx : forallb alnum sfx = true -> alnum c = false -> count_chr c sfx = 0%nat.
Proof.
  intros H Hc. unfold count_chr. induction sfx as [|a sfx IH]; [reflexivity|]. cbn [forallb filter] in *.
  apply andb_true_iff in H as [Ha H]. destruct (N.eqb_spec c a) as [->|]; [congruence|]. now apply IH.
Qed.

Lemma float_body_ok ud x ty const expo sfx t :
  nonempty expo && negb (exp_ok_in ud (if Nat.eqb ty 2 then [112; 80]%N else [101; 69]%N) expo) = false ->
  Nat.eqb ty 2 && negb (chr_in 46%N const) && negb (nonempty expo) = false ->
  Nat.eqb ty 2 && negb (str_in (strip (hexadecimal_digits ++ s ".") const) [s "x"; s "X"]) = false ->
  forallb alnum sfx = true -> str_in sfx float_suffixes = true ->
  rest x = (const ++ expo ++ sfx) ++ t -> forallb okc (const ++ expo ++ sfx) = true ->
  float_body ud x ty const expo sfx =
    PTok (mktok (s "CONSTANT") (line x) (col x) (Some (const ++ expo ++ sfx))) (shift (List.length (const ++ expo ++ sfx)) x).
Proof.
  intros C1 C2 C3 Hsa Hs Hr Hok. unfold float_body. cbv zeta. rewrite C1, C2, C3.
  rewrite (count_chr_alnum 46%N sfx Hsa eq_refl). cbn [Nat.ltb Nat.leb]. rewrite andb_false_r, Hs. cbn [negb].
  replace (List.length const + List.length expo + List.length sfx)%nat with (List.length (const ++ expo ++ sfx))
    by (rewrite !app_length; lia).
  rewrite (popn_plain _ x [] t Hok Hr). reflexivity.
Qed.

Section Floats.
  Variable uw ud : N -> bool.

  (* ------------------------------------------------------------------ step: the float parser is tried first *)
  Lemma try_parsers_float x t x' : parse_float_literal uw ud x = PTok t x' -> try_parsers uw ud parsers x = PTok t x'.
  Proof.
    intros H. assert (E1 : run_parser uw ud (s "parse_float_literal") x = parse_float_literal uw ud x) by reflexivity.
    unfold parsers. cbn [try_parsers]. rewrite E1, H. reflexivity.
  Qed.

  Lemma at_splice_plain c t : (c =? 92)%N = false -> (c =? 63)%N = false -> at_splice (c :: t) = false.
  Proof. intros H1 H2. unfold at_splice, raw_peek. cbn [firstn str_eqb]. now rewrite H1, H2. Qed.

  Lemma step_tok w rest c t tok x' : w ++ rest = c :: t -> (c =? 92)%N = false -> (c =? 63)%N = false ->
    try_parsers uw ud parsers (init (w ++ rest)) = PTok tok x' ->
    step uw ud (init (w ++ rest)) = StepItem (ITok tok 0 (off x')) x'.
  Proof.
    intros Hr H1 H2 Ht. unfold step. rewrite Ht. cbn [Lexer.rest init]. rewrite Hr, (at_splice_plain c t H1 H2). reflexivity.
  Qed.

  (* the assembly for floats: what remains per form is what the pattern returns *)
  Lemma accept_float_from_match ty const expo sfx rest c t :
    (const ++ expo ++ sfx) ++ rest = c :: t -> (c =? 92)%N = false -> (c =? 63)%N = false ->
    (match fexp_match uw ud ((const ++ expo ++ sfx) ++ rest) with
     | Some g => Some (0%nat, g)
     | None => match ffrac_match uw ud ((const ++ expo ++ sfx) ++ rest) with
               | Some g => Some (1%nat, g)
               | None => match fhex_match uw ud ((const ++ expo ++ sfx) ++ rest) with Some g => Some (2%nat, g) | None => None end
               end
     end) = Some (ty, (const, expo, sfx)) ->
    nonempty expo && negb (exp_ok_in ud (if Nat.eqb ty 2 then [112; 80]%N else [101; 69]%N) expo) = false ->
    Nat.eqb ty 2 && negb (chr_in 46%N const) && negb (nonempty expo) = false ->
    Nat.eqb ty 2 && negb (str_in (strip (hexadecimal_digits ++ s ".") const) [s "x"; s "X"]) = false ->
    forallb alnum sfx = true -> str_in sfx float_suffixes = true -> forallb okc (const ++ expo ++ sfx) = true ->
    lex_one_ok_u uw ud (s "CONSTANT") (const ++ expo ++ sfx) rest.
  Proof.
    intros Hr H1 H2 Hm C1 C2 C3 Hsa Hs Hok. set (w := const ++ expo ++ sfx) in *.
    assert (Hp : parse_float_literal uw ud (init (w ++ rest)) =
                 PTok (mktok (s "CONSTANT") 1 1 (Some w)) (shift (List.length w) (init (w ++ rest)))).
    { rewrite parse_float_unfold. cbn [Lexer.rest init]. rewrite Hm, Hr. rewrite <- Hr.
      apply (float_body_ok ud (init (w ++ rest)) ty const expo sfx rest); try assumption. reflexivity. }
    exists (shift (List.length w) (init (w ++ rest))). split; [|reflexivity].
    rewrite (step_tok w rest c t _ _ Hr H1 H2 (try_parsers_float _ _ _ Hp)). reflexivity.
  Qed.

  (* ------------------------------------------------------------------ exponents *)
  Definition sign_ok (sgn : str) : bool := match sgn with [] => true | [c] => in_set [43; 45]%N c | _ => false end.

  Lemma exp_match_ok E (digit : N -> bool) q e sgn ed T :
    in_set E e = true -> sign_ok sgn = true -> forallb ascii_digit ed = true -> ed <> [] ->
    (forall c, ascii_digit c = true -> digit c = true) ->
    (forall c, ascii_digit c = true \/ in_set [43; 45]%N c = true -> in_set E c = false) ->
    stops digit T = true ->
    exp_match E digit q (e :: sgn ++ ed ++ T) = Some (e :: sgn ++ ed, T).
  Proof.
    intros He Hsg Hd Hne Hdig HE Hst. unfold exp_match. rewrite He.
    assert (Hdd : forallb digit ed = true).
    { apply forallb_forall. intros y Hy. rewrite forallb_forall in Hd. now apply Hdig, Hd. }
    destruct ed as [|d0 ed']; [congruence|]. cbn [forallb] in Hd. apply andb_true_iff in Hd as [Hd0 Hd'].
    assert (Esp : span (in_set E) (e :: sgn ++ (d0 :: ed') ++ T) = ([e], sgn ++ (d0 :: ed') ++ T)).
    { cbn [span]. rewrite He. rewrite span_stop; [reflexivity|].
      destruct sgn as [|c [|? ?]]; try discriminate; cbn [app stops]; rewrite HE; auto. }
    rewrite Esp. destruct sgn as [|c [|? ?]]; try discriminate; cbn [app sign_ok] in *.
    - replace (in_set [43; 45]%N d0) with false by (unfold ascii_digit in Hd0; cbn [in_set existsb]; lia).
      change (d0 :: ed' ++ T) with ((d0 :: ed') ++ T). rewrite (span_app_stop digit (d0 :: ed') T Hdd Hst). reflexivity.
    - rewrite Hsg. change (d0 :: ed' ++ T) with ((d0 :: ed') ++ T). rewrite (span_app_stop digit (d0 :: ed') T Hdd Hst). reflexivity.
  Qed.

  Lemma exp_ok_in_ok E e sgn ed : in_set E e = true -> sign_ok sgn = true -> forallb ascii_digit ed = true -> ed <> [] ->
    exp_ok_in ud E (e :: sgn ++ ed) = true.
  Proof.
    intros He Hsg Hd Hne. unfold exp_ok_in. rewrite He. destruct ed as [|d0 ed']; [congruence|].
    cbn [forallb] in Hd. apply andb_true_iff in Hd as [Hd0 _]. pose proof (digit_isd ud d0 Hd0) as Hi.
    destruct sgn as [|c [|? ?]]; try discriminate; cbn [app sign_ok] in *.
    - replace (in_set [45; 43]%N d0) with false by (unfold ascii_digit in Hd0; cbn [in_set existsb]; lia). now rewrite Hi.
    - replace (in_set [45; 43]%N c) with true by (cbn [in_set existsb] in *; lia). now rewrite Hi.
  Qed.

  (* an optional exponent: nothing, or e/E, an optional sign, at least one digit *)
  Inductive opt_exp (E : str) : str -> Prop :=
  | OE_none : opt_exp E []
  | OE_some e sgn ed : in_set E e = true -> sign_ok sgn = true -> forallb ascii_digit ed = true -> ed <> [] ->
      opt_exp E (e :: sgn ++ ed).

  Lemma eE_not_digit_sign c : ascii_digit c = true \/ in_set [43; 45]%N c = true -> in_set [101; 69]%N c = false.
  Proof. unfold ascii_digit. cbn [in_set existsb]. lia. Qed.

  (* the tail after a decimal float: suffix + continuation *)
  Definition ftailc (c : N) : bool := negb (isd ud c) && negb (chr_in c (s "eE")) && negb (c =? 46)%N.
  Definition ftail_ok (T : str) : bool := match T with [] => true | c :: _ => ftailc c end.

  Lemma ftail_ok_app sfx rest : fsfx_ok sfx = true -> delim rest = true -> ftail_ok (sfx ++ rest) = true.
  Proof.
    unfold fsfx_ok. intros H Hd. apply andb_true_iff in H as [_ H]. destruct sfx as [|a sfx]; cbn [app ftail_ok].
    - destruct rest as [|c r]; [reflexivity|]. cbn [delim ftail_ok] in Hd |- *. unfold ftailc. rewrite (delimc_isd ud c Hd).
      unfold delimc, alnum, ascii_alpha, ascii_digit in Hd. cbn [chr_in existsb s List.map list_ascii_of_string N_of_ascii N_of_digits]. lia.
    - unfold ftailc, isd. unfold ascii_alpha, ascii_digit in *. cbn [chr_in existsb s List.map list_ascii_of_string N_of_ascii N_of_digits] in *.
      replace (a <? 128)%N with true by lia. lia.
  Qed.

  Lemma ftail_stops_isd T : ftail_ok T = true -> stops (isd ud) T = true.
  Proof. destruct T as [|c T]; [reflexivity|]. cbn. unfold ftailc. lia. Qed.
  Lemma ftail_stops_e T : ftail_ok T = true -> stops (in_set [101; 69]%N) T = true.
  Proof. destruct T as [|c T]; [reflexivity|]. cbn. unfold ftailc. cbn [chr_in existsb s List.map list_ascii_of_string N_of_ascii N_of_digits]. lia. Qed.

  Lemma suffix_run_ok sfx rest : forallb alnum sfx = true -> delim rest = true -> suffix_run uw ud (sfx ++ rest) = sfx.
  Proof.
    intros Hs Hd. unfold suffix_run. rewrite (span_app_stop _ sfx rest); [reflexivity| |].
    - apply forallb_forall. intros y Hy. rewrite forallb_forall in Hs. now rewrite (alnum_isw uw ud y (Hs y Hy)).
    - destruct rest as [|b r]; [reflexivity|]. cbn [delim stops] in Hd |- *. rewrite (delimc_isw uw ud b Hd).
      unfold delimc in Hd. lia.
  Qed.

  (* exponent (possibly none) then suffix then continuation *)
  Lemma exp_then_tail ex sfx rest : opt_exp [101; 69]%N ex -> fsfx_ok sfx = true -> delim rest = true ->
    stops (isd ud) (ex ++ sfx ++ rest) = true /\ suffix_run uw ud (sfx ++ rest) = sfx /\
    ((ex = [] /\ exp_match [101; 69]%N (isd ud) false (sfx ++ rest) = None) \/
     (ex <> [] /\ exp_match [101; 69]%N (isd ud) false (ex ++ sfx ++ rest) = Some (ex, sfx ++ rest))).
  Proof.
    intros Hex Hso Hd. pose proof (ftail_ok_app sfx rest Hso Hd) as HT.
    assert (Hsa : forallb alnum sfx = true) by (unfold fsfx_ok in Hso; lia).
    split; [|split; [now apply suffix_run_ok|]].
    - destruct Hex as [|e sgn ed He Hsg Hed Hne]; [now apply ftail_stops_isd|].
      cbn [app stops]. unfold isd. cbn [in_set existsb] in He. replace (e <? 128)%N with true by lia. unfold ascii_digit. lia.
    - destruct Hex as [|e sgn ed He Hsg Hed Hne].
      + left. split; [reflexivity|]. apply exp_match_none. now apply ftail_stops_e.
      + right. split; [discriminate|]. cbn [app]. rewrite <- app_assoc.
        apply (exp_match_ok [101; 69]%N (isd ud) false e sgn ed (sfx ++ rest) He Hsg Hed Hne (digit_isd ud) eE_not_digit_sign (ftail_stops_isd _ HT)).
  Qed.

  Lemma opt_exp_okc E ex : (forall c, in_set E c = true -> alnum c = true) -> opt_exp E ex -> forallb okc ex = true.
  Proof.
    intros HE [|e sgn ed He Hsg Hed Hne]; [reflexivity|]. cbn [forallb]. rewrite (alnum_okc e (HE e He)). rewrite forallb_app.
    assert (H1 : forallb okc sgn = true).
    { destruct sgn as [|c [|? ?]]; try discriminate; [reflexivity|]. cbn [sign_ok in_set existsb forallb] in *. unfold okc. cbn [chr_in existsb]. lia. }
    rewrite H1. apply forallb_forall. intros y Hy. rewrite forallb_forall in Hed. apply alnum_okc. unfold alnum. now rewrite (Hed y Hy).
  Qed.

  Lemma opt_exp_verdict E ex : opt_exp E ex -> nonempty ex && negb (exp_ok_in ud E ex) = false.
  Proof. intros [|e sgn ed He Hsg Hed Hne]; [reflexivity|]. now rewrite exp_ok_in_ok. Qed.

  Lemma eE_alnum c : in_set [101; 69]%N c = true -> alnum c = true.
  Proof. unfold alnum, ascii_digit, ascii_alpha. cbn [in_set existsb]. lia. Qed.

  Lemma okc_digits ds : forallb ascii_digit ds = true -> forallb okc ds = true.
  Proof. intros H. apply forallb_forall. intros y Hy. rewrite forallb_forall in H. apply alnum_okc. unfold alnum. now rewrite (H y Hy). Qed.
  Lemma okc_alnums ds : forallb alnum ds = true -> forallb okc ds = true.
  Proof. intros H. apply forallb_forall. intros y Hy. rewrite forallb_forall in H. now apply alnum_okc, H. Qed.

  (* ------------------------------------------------------------------ (1a) digits . digits [exponent] suffix   and   . digits [exponent] suffix *)
  Theorem accept_float_fractional : forall ip fp ex sfx rest,
    forallb ascii_digit ip = true -> forallb ascii_digit fp = true -> (ip <> [] \/ fp <> []) ->
    opt_exp [101; 69]%N ex -> str_in sfx float_suffixes = true -> delim rest = true ->
    lex_one_ok_u uw ud (s "CONSTANT") ((ip ++ 46%N :: fp) ++ ex ++ sfx) rest.
  Proof.
    intros ip fp ex sfx rest Hip Hfp Hne Hex Hs Hdl.
    pose proof (fsuffix_ok sfx Hs) as Hso. assert (Hsa : forallb alnum sfx = true) by (unfold fsfx_ok in Hso; lia).
    destruct (exp_then_tail ex sfx rest Hex Hso Hdl) as (Hst & Hsr & Hem).
    assert (Ew : ((ip ++ 46%N :: fp) ++ ex ++ sfx) ++ rest = ip ++ 46%N :: fp ++ ex ++ sfx ++ rest).
    { rewrite <- !app_assoc. cbn [app]. reflexivity. }
    assert (Hhead : exists c t, ((ip ++ 46%N :: fp) ++ ex ++ sfx) ++ rest = c :: t /\ (c =? 92)%N = false /\ (c =? 63)%N = false).
    { rewrite Ew. destruct ip as [|d ip']; cbn [app]; [now eexists; eexists|].
      cbn [forallb] in Hip. apply andb_true_iff in Hip as [Hd0 _]. unfold ascii_digit in Hd0. eexists; eexists. split; [reflexivity|]. lia. }
    destruct Hhead as (c & t & Hct & H92 & H63).
    apply (accept_float_from_match 1%nat (ip ++ 46%N :: fp) ex sfx rest c t Hct H92 H63); try assumption; try reflexivity.
    - rewrite Ew.
      assert (H46 : forall X, stops (isd ud) (46%N :: X) = true) by reflexivity.
      assert (Efe : fexp_match uw ud (ip ++ 46%N :: fp ++ ex ++ sfx ++ rest) = None).
      { unfold fexp_match. rewrite (span_app_stop (isd ud) ip _ (digits_isd ud ip Hip) (H46 _)).
        destruct (nonnil ip); reflexivity. }
      rewrite Efe. unfold ffrac_match. rewrite (span_app_stop (isd ud) ip _ (digits_isd ud ip Hip) (H46 _)).
      rewrite (span_app_stop (isd ud) fp _ (digits_isd ud fp Hfp) Hst).
      assert (Hfin : forall cc : str, match exp_match [101; 69]%N (isd ud) false (ex ++ sfx ++ rest) with
                                | Some (e, r4) => Some (cc, e, suffix_run uw ud r4)
                                | None => Some (cc, [], suffix_run uw ud (ex ++ sfx ++ rest))
                                end = Some (cc, ex, sfx)).
      { intros cc. destruct Hem as [[-> Hn]|[_ Hsome]]; [cbn [app]; now rewrite Hn, Hsr|now rewrite Hsome, Hsr]. }
      destruct fp as [|f0 fp'].
      + destruct ip as [|i0 ip']; [destruct Hne; congruence|]. cbn [nonnil app]. rewrite Hfin. reflexivity.
      + cbn [nonnil]. rewrite Hfin. reflexivity.
    - cbn [Nat.eqb]. now apply opt_exp_verdict.
    - rewrite !forallb_app. cbn [forallb]. rewrite (okc_digits ip Hip), (okc_digits fp Hfp), (opt_exp_okc _ ex eE_alnum Hex), (okc_alnums sfx Hsa).
      reflexivity.
  Qed.

  (* ------------------------------------------------------------------ (1b) digits exponent suffix *)
  Theorem accept_float_exponent : forall ip e sgn ed sfx rest,
    forallb ascii_digit ip = true -> ip <> [] ->
    in_set [101; 69]%N e = true -> sign_ok sgn = true -> forallb ascii_digit ed = true -> ed <> [] ->
    str_in sfx float_suffixes = true -> delim rest = true ->
    lex_one_ok_u uw ud (s "CONSTANT") (ip ++ (e :: sgn ++ ed) ++ sfx) rest.
  Proof.
    intros ip e sgn ed sfx rest Hip Hne He Hsg Hed Hne2 Hs Hdl.
    pose proof (fsuffix_ok sfx Hs) as Hso. assert (Hsa : forallb alnum sfx = true) by (unfold fsfx_ok in Hso; lia).
    assert (Hex : opt_exp [101; 69]%N (e :: sgn ++ ed)) by now constructor.
    destruct (exp_then_tail _ sfx rest Hex Hso Hdl) as (Hst & Hsr & [[Habs _]|[_ Hem]]); [discriminate|].
    assert (Ew : (ip ++ (e :: sgn ++ ed) ++ sfx) ++ rest = ip ++ (e :: sgn ++ ed) ++ sfx ++ rest) by now rewrite <- !app_assoc.
    destruct ip as [|d ip'] eqn:Eip; [congruence|]. rewrite <- Eip in *.
    assert (Hd0 : ascii_digit d = true) by (rewrite Eip in Hip; cbn [forallb] in Hip; lia).
    apply (accept_float_from_match 0%nat ip (e :: sgn ++ ed) sfx rest d ((ip' ++ (e :: sgn ++ ed) ++ sfx) ++ rest));
      try assumption; try reflexivity; try (unfold ascii_digit in Hd0; lia).
    - now rewrite Eip.
    - rewrite Ew. unfold fexp_match. rewrite (span_app_stop (isd ud) ip _ (digits_isd ud ip Hip) Hst).
      rewrite Eip. cbn [nonnil]. rewrite <- Eip.
      rewrite Hem, Hsr. reflexivity.
    - cbn [Nat.eqb]. now apply opt_exp_verdict.
    - rewrite !forallb_app. rewrite (okc_digits ip Hip), (opt_exp_okc _ _ eE_alnum Hex), (okc_alnums sfx Hsa). reflexivity.
  Qed.
End Floats.
