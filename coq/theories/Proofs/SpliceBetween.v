(* C12: a line splice BETWEEN two lexemes of a file (either spelling: backslash-newline, or the trigraph ??/ + newline).
   Files  raws2 ls1 ++ sp ++ raws2 ls2 ++ X  and  raws2 ls1 ++ raws2 ls2 ++ X  (prefix vocabulary of Proofs/LexPrefix2.v:
   blanks, identifiers / keywords, one-character operators, brackets, decimal constants, block comments, // comments,
   plain strings) give the same sequence of token types and values.  Positions: the splice turn of get_next_token's loop
   consumes the |sp| raw characters as one skipped item and sets the position to (line + 1, column 1); the items of ls2
   are those of ls2 laid out from that position; once the column has realigned (condition `realigned`, e.g. ls2 holds a
   newline) every later item is one line lower and |sp| raw characters further, columns equal.
   Boundary conditions (decidable): lexs_ok2 ls1 (sp ++ ...) - the lexeme before the splice does not join with the first
   character of the splice; lexs_ok2 ls1 (raws2 ls2 ++ X) - nor with what follows the splice, i.e. the splice does not
   stand INSIDE a token (where the tool's tokens would change: C's translation phase 2 is not modelled by the tool);
   lexs_ok2 ls2 X. *)
From NV Require Import Model.Base Model.Diag Model.Lexer Proofs.LineShift Proofs.LineShiftCor.
From NV Require Spec.Respell Proofs.RespellProofs.
From NV Require Import Proofs.LexRename Proofs.LexCompose Proofs.LexPrefix Proofs.LexPrefix2.
From Coq Require Import Lia.

Local Open Scope Z_scope.

Local Notation splice1 := Respell.splice1.
Local Notation splice2 := Respell.splice2.

(* the position after the splice turn: |sp| raw characters further, next line, column 1 *)
Definition after_splice (n : nat) (p : st) : st := mkst (rest p) (off p + n)%nat (line p + 1) 1 (errs p).

Definition kv (t : token) : str * option str := (t_type t, t_val t).

Section Splice.
  Variable uw ud : N -> bool.

  (* ------------------------------------------------------------------ the splice turn, with the exact next state *)
  Lemma step_splice_at p sp R : sp = splice1 \/ sp = splice2 ->
    step uw ud (with_rest p (sp ++ R)) =
      StepItem (ISkip (off p) (off p + List.length sp)) (with_rest (after_splice (List.length sp) p) R).
  Proof.
    intros [-> | ->].
    - exact (RespellProofs.step_splice1 uw ud (with_rest p (splice1 ++ R)) R eq_refl).
    - exact (RespellProofs.step_splice2 uw ud (with_rest p (splice2 ++ R)) R eq_refl).
  Qed.

  Lemma run_trans : forall k x acc y accy m z accz,
    run uw ud k x acc y accy -> run uw ud m y accy z accz -> run uw ud (k + m) x acc z accz.
  Proof.
    intros k x acc y accy m z accz H1 H2. induction H1 as [x acc|k x acc i x1 y accy Hs _ IH]; [exact H2|].
    cbn [Nat.add]. eapply run_S; [exact Hs|]. now apply IH.
  Qed.

  Lemma run_needs_fuel : forall n x0 a0 y ay fuel, run uw ud n x0 a0 y ay -> (fuel < n)%nat -> lex_loop uw ud fuel x0 a0 = Hang.
  Proof.
    induction n as [|n IH]; intros x0 a0 y ay fuel Hr Hf; [lia|]. inversion Hr; subst.
    destruct fuel as [|fuel]; [reflexivity|]. cbn [lex_loop]. rewrite H0. eapply IH; [eassumption|lia].
  Qed.

  (* ------------------------------------------------------------------ types and values of the prefix items do not depend on
     the position the prefix is laid out from *)
  Lemma tokens_of_cons i r : tokens_of (i :: r) = match i with ITok t _ _ => [t] | _ => [] end ++ tokens_of r.
  Proof. reflexivity. Qed.
  Lemma tokens_of_app a b : tokens_of (a ++ b) = tokens_of a ++ tokens_of b.
  Proof. unfold tokens_of. apply flat_map_app. Qed.

  Lemma lex_items2_kv : forall ls p q, map kv (tokens_of (lex_items2 p ls)) = map kv (tokens_of (lex_items2 q ls)).
  Proof.
    induction ls as [|l ls IH]; intros p q; [reflexivity|]. cbn [lex_items2]. rewrite !tokens_of_cons, !map_app.
    rewrite (IH (lex_next2 p l) (lex_next2 q l)). f_equal.
    destruct l as [[c|c v|c|c|w]|b|v|v]; cbn [lex_item2 lex_item]; try reflexivity.
    unfold ident_token. destruct (assoc (c :: v) keywords); reflexivity.
  Qed.

  (* the column (and everything else but line and raw offset) after ls2 is the same with and without the splice *)
  Definition realigned (n : nat) (pB : st) (ls2 : list plex2) : Prop :=
    lex_nexts2 (after_splice n pB) ls2 = shl 1 n (lex_nexts2 pB ls2).

  (* ------------------------------------------------------------------ the theorem *)
  Theorem splice_between_lexemes : forall sp ls1 ls2 X itemsB xfB,
    sp = splice1 \/ sp = splice2 ->
    lexs_ok2 ls1 (sp ++ raws2 ls2 ++ X) = true -> lexs_ok2 ls1 (raws2 ls2 ++ X) = true -> lexs_ok2 ls2 X = true ->
    let n := List.length sp in
    let pB := lex_nexts2 pos0 ls1 in
    let pA := after_splice n pB in
    realigned n pB ls2 ->
    lex uw ud (raws2 ls1 ++ raws2 ls2 ++ X) = Ok (itemsB, xfB) ->
    exists later itemsA,
      itemsB = lex_items2 pos0 ls1 ++ lex_items2 pB ls2 ++ later /\
      itemsA = lex_items2 pos0 ls1 ++ ISkip (off pB) (off pB + n) :: lex_items2 pA ls2 ++ map (sh_item 1 n) later /\
      lex uw ud (raws2 ls1 ++ sp ++ raws2 ls2 ++ X) = Ok (itemsA, shl 1 n xfB) /\
      map kv (tokens_of itemsA) = map kv (tokens_of itemsB).
  Proof.
    intros sp ls1 ls2 X itemsB xfB Hsp H1 H1' H2. cbv zeta. intros Hre Hlex.
    set (n := List.length sp) in *. set (pB := lex_nexts2 pos0 ls1) in *. set (pA := after_splice n pB) in *.
    (* run B *)
    pose proof (run_prefix2 uw ud ls1 pos0 [] _ H1') as RB1. rewrite app_nil_r, <- init_with_rest in RB1. fold pB in RB1.
    pose proof (run_prefix2 uw ud ls2 pB (rev (lex_items2 pos0 ls1)) X H2) as RB2.
    pose proof (run_trans _ _ _ _ _ _ _ _ RB1 RB2) as RB.
    (* run A *)
    pose proof (run_prefix2 uw ud ls1 pos0 [] _ H1) as RA1. rewrite app_nil_r, <- init_with_rest in RA1. fold pB in RA1.
    pose proof (step_splice_at pB sp (raws2 ls2 ++ X) Hsp) as Hs. fold n pA in Hs.
    pose proof (run_prefix2 uw ud ls2 pA (ISkip (off pB) (off pB + n) :: rev (lex_items2 pos0 ls1)) X H2) as RA2.
    pose proof (run_trans _ _ _ _ _ _ _ _ RA1 (run_S uw ud _ _ _ _ _ _ _ Hs RA2)) as RA.
    set (kB := (List.length ls1 + List.length ls2)%nat) in *.
    set (srcB := raws2 ls1 ++ raws2 ls2 ++ X) in *. set (srcA := raws2 ls1 ++ sp ++ raws2 ls2 ++ X) in *.
    assert (HlenA : List.length srcA = (List.length srcB + n)%nat).
    { unfold srcA, srcB, n. rewrite !app_length. lia. }
    assert (Hn : (2 <= n)%nat) by (unfold n; destruct Hsp as [-> | ->]; cbn; lia).
    unfold lex in Hlex |- *.
    assert (HkB : (kB <= S (List.length srcB))%nat).
    { destruct (Nat.le_gt_cases kB (S (List.length srcB))) as [Hle|Hgt]; [exact Hle|exfalso].
      rewrite (run_needs_fuel _ _ _ _ _ _ RB Hgt) in Hlex. discriminate. }
    set (fB := (S (List.length srcB) - kB)%nat).
    replace (S (List.length srcB)) with (kB + fB)%nat in Hlex by (unfold fB; lia).
    rewrite (lex_loop_run uw ud _ _ _ _ _ RB) in Hlex.
    destruct (LexCompose.lex_loop_acc uw ud _ _ _ _ _ Hlex) as [later [E Hall]].
    rewrite rev_app_distr, !rev_involutive in E.
    exists later. eexists. split; [rewrite E, <- app_assoc; reflexivity|]. split; [reflexivity|].
    assert (HA : lex_loop uw ud (S (List.length srcA)) (init srcA) [] =
                 Ok (lex_items2 pos0 ls1 ++ ISkip (off pB) (off pB + n) :: lex_items2 pA ls2 ++ map (sh_item 1 n) later, shl 1 n xfB)).
    { replace (S (List.length srcA)) with ((List.length ls1 + S (List.length ls2)) + (fB + (n - 1)))%nat by (unfold fB, kB in *; lia).
      rewrite (lex_loop_run uw ud _ _ _ _ _ RA).
      unfold realigned in Hre. fold pA in Hre.
      assert (ES : with_rest (lex_nexts2 pA ls2) X = shl 1 n (with_rest (lex_nexts2 pB ls2) X)) by (rewrite Hre; reflexivity).
      rewrite ES, lex_from_shift.
      pose proof (Hall []) as H0. cbn [rev app] in H0.
      rewrite (lex_loop_fuel_mono uw ud fB _ [] (fB + (n - 1))%nat); [|rewrite H0; discriminate|lia].
      rewrite H0. cbn [sh_out pre_items]. f_equal. f_equal.
      rewrite rev_app_distr, rev_involutive. cbn [rev]. rewrite rev_involutive, <- !app_assoc. reflexivity. }
    split; [exact HA|].
    rewrite E, !tokens_of_app, tokens_of_cons, !tokens_of_app, !map_app. cbn [app].
    assert (K : map kv (map (sh_tok 1) (tokens_of later)) = map kv (tokens_of later)) by exact (kinds_values_sh 1 _).
    rewrite tokens_of_sh, (lex_items2_kv ls2 pA pB), K. cbn [map app]. rewrite <- app_assoc. reflexivity.
  Qed.
End Splice.

(* ------------------------------------------------------------------ a real file: sample 42 header, empty line, int main(void)
   with `count = 0; // done`; the splice stands between `count` and ` = 0;` (third line of the function) *)
Definition sp_ls1 : list plex2 :=
  hdemo_prefix1 ++ [PS (PId 99 (s "ount")); PS (POp 59); PS (PWs 10); PS (PWs 10); PS (PWs 9); PS (PId 99 (s "ount"))]%N.
Definition sp_ls2 : list plex2 :=
  [PS (PWs 32); PS (POp 61); PS (PWs 32); PS (PNum (s "0")); PS (POp 59); PS (PWs 32); PLine (s " done"); PS (PWs 10)]%N.
Definition sp_X : str := [9%N] ++ s "return (count);" ++ [10%N] ++ s "}" ++ [10%N].

Example splice_in_header_program :
  let nouni := fun _ : N => false in
  let pB := lex_nexts2 pos0 sp_ls1 in
  raws2 sp_ls1 ++ raws2 sp_ls2 ++ sp_X = hdemo_file /\
  lexs_ok2 sp_ls1 (splice1 ++ raws2 sp_ls2 ++ sp_X) = true /\ lexs_ok2 sp_ls1 (splice2 ++ raws2 sp_ls2 ++ sp_X) = true /\
  lexs_ok2 sp_ls1 (raws2 sp_ls2 ++ sp_X) = true /\ lexs_ok2 sp_ls2 sp_X = true /\
  realigned 2 pB sp_ls2 /\ realigned 4 pB sp_ls2 /\
  (line pB, col pB) = (17, 10) /\
  (* the first item after the splice: the blank, now on line 18 in column 1; the last item of ls2 (the newline) in column 15 instead of 24 *)
  hd_error (lex_items2 (after_splice 2 pB) sp_ls2) = Some (ITok (mktok (s "SPACE") 18 1 None) (off pB + 2) (off pB + 3)) /\
  hd_error (lex_items2 pB sp_ls2) = Some (ITok (mktok (s "SPACE") 17 10 None) (off pB) (off pB + 1)) /\
  (* cross-check by running the tokenizer model on both complete files *)
  match lex nouni nouni hdemo_file, lex nouni nouni (raws2 sp_ls1 ++ splice1 ++ raws2 sp_ls2 ++ sp_X),
        lex nouni nouni (raws2 sp_ls1 ++ splice2 ++ raws2 sp_ls2 ++ sp_X) with
  | Ok (iB, _), Ok (iA, _), Ok (iA2, _) =>
      map kv (tokens_of iA) = map kv (tokens_of iB) /\ map kv (tokens_of iA2) = map kv (tokens_of iB) /\
      List.length iA = S (List.length iB) /\ List.length (tokens_of iB) = 59%nat
  | _, _, _ => False
  end.
Proof. vm_compute. repeat split; reflexivity. Qed.

(* ================================================================== a sufficient condition for `realigned`: ls2 holds a
   lexeme after which the column is 1 wherever the part started - a newline, or a block comment with a newline in its
   body.  Every component of the state after a lexeme depends on the same component before it only (the column on the
   column); after such a lexeme the column does not depend on anything. *)
From NV Require Import Proofs.MultiLineComment.
From NV Require Proofs.LexInv.

Definition resets (l : plex2) : bool :=
  match l with PS (PWs c) => (c =? 10)%N | PBlock b => existsb (N.eqb 10) b | _ => false end.
Definition has_newline (ls : list plex2) : bool := existsb resets ls.

Lemma has_newline_mid a b : has_newline (a ++ PS (PWs 10) :: b) = true.
Proof. unfold has_newline. rewrite existsb_app. cbn [existsb resets]. rewrite N.eqb_refl. now rewrite orb_true_r. Qed.

Lemma posm_snd_l : forall b l l' c, snd (posm l c b) = snd (posm l' c b).
Proof. induction b as [|ch b IH]; intros l l' c; [reflexivity|]. cbn [posm]. destruct (N.eqb ch 10); apply IH. Qed.

Lemma posm_snd_nl : forall b l l' c c', existsb (N.eqb 10) b = true -> snd (posm l c b) = snd (posm l' c' b).
Proof.
  induction b as [|ch b IH]; intros l l' c c' H; [discriminate|]. cbn [posm existsb] in *. rewrite (N.eqb_sym 10 ch) in H.
  destruct (N.eqb ch 10); [apply posm_snd_l|]. cbn [orb] in H. now apply IH.
Qed.

(* blank, tab, newline: the next state, component by component *)
Lemma ws_next_components p c : chr_in c [32; 9; 10]%N = true ->
  let q := ws_next (mkst [] 0 0 (col p) []) c in
  ws_next p c = mkst [] (off p + 1)%nat (line p + (if (c =? 10)%N then 1 else 0)) (col q) (errs p).
Proof.
  intros Hc. cbv zeta. destruct p as [r o l co e]. apply LexInv.chr_in_In in Hc. cbn [In] in Hc.
  destruct Hc as [<-|Hc]; [cbv - [Z.add Z.sub Z.modulo Z.mul Nat.add Z.of_nat Z.to_nat]; f_equal; lia|].
  destruct Hc as [<-|Hc]; [cbv - [Z.add Z.sub Z.modulo Z.mul Nat.add Z.of_nat Z.to_nat]; f_equal; lia|].
  destruct Hc as [<-|Hc]; [cbv - [Z.add Z.sub Z.modulo Z.mul Nat.add Z.of_nat Z.to_nat]; f_equal; lia|]. destruct Hc.
Qed.

Lemma ws_next_newline_col p : col (ws_next p 10) = 1.
Proof. destruct p. reflexivity. Qed.

Definition param (p q p' q' : st) : Prop :=
  rest p' = rest q' /\ errs p' = errs p /\ errs q' = errs q /\
  (off p' + off q = off q' + off p)%nat /\ line p' - line p = line q' - line q.

Lemma next2_param l nx p q : lex_ok2 l nx = true -> rest p = rest q ->
  param p q (lex_next2 p l) (lex_next2 q l) /\
  (col p = col q -> col (lex_next2 p l) = col (lex_next2 q l)) /\
  (resets l = true -> col (lex_next2 p l) = col (lex_next2 q l)).
Proof.
  intros Hok Hr. unfold param.
  assert (Hsh : forall k, (rest (shift k p) = rest (shift k q) /\ errs (shift k p) = errs p /\ errs (shift k q) = errs q /\
                          (off (shift k p) + off q = off (shift k q) + off p)%nat /\ line (shift k p) - line p = line (shift k q) - line q) /\
                         (col p = col q -> col (shift k p) = col (shift k q))).
  { intros k. unfold shift. cbn [rest off line col errs]. rewrite Hr. repeat split; try lia. }
  destruct l as [[c|c v|c|c|w]|b|v|v]; cbn [lex_next2 lex_next resets].
  - cbn [lex_ok2 lex_ok] in Hok. rewrite (ws_next_components p c Hok), (ws_next_components q c Hok). cbn [rest off line col errs].
    split; [repeat split; lia|]. split; intros E; [now rewrite E|apply N.eqb_eq in E; subst c; reflexivity].
  - destruct (Hsh (S (List.length v))) as [A B]. split; [exact A|split; [exact B|discriminate]].
  - destruct (Hsh 1%nat) as [A B]. split; [exact A|split; [exact B|discriminate]].
  - destruct (Hsh 1%nat) as [A B]. split; [exact A|split; [exact B|discriminate]].
  - destruct (Hsh (List.length w)) as [A B]. split; [exact A|split; [exact B|discriminate]].
  - unfold block_next. cbn [rest off line col errs]. rewrite !posm_line.
    split; [repeat split; try lia; assumption|]. split; intros E; [rewrite E; f_equal; apply posm_snd_l|f_equal; now apply posm_snd_nl].
  - destruct (Hsh (2 + List.length v)%nat) as [A B]. split; [exact A|split; [exact B|discriminate]].
  - destruct (Hsh (2 + List.length v)%nat) as [A B]. split; [exact A|split; [exact B|discriminate]].
Qed.

Lemma nexts2_param : forall ls X p q, lexs_ok2 ls X = true -> rest p = rest q ->
  param p q (lex_nexts2 p ls) (lex_nexts2 q ls) /\
  (col p = col q \/ has_newline ls = true -> col (lex_nexts2 p ls) = col (lex_nexts2 q ls)).
Proof.
  induction ls as [|l ls IH]; intros X p q Hok Hr; cbn [lex_nexts2 lexs_ok2 has_newline existsb] in *.
  - split; [unfold param; repeat split; try lia; assumption|intros [E|E]; [exact E|discriminate]].
  - apply andb_true_iff in Hok as [Hl Hls].
    destruct (next2_param l _ p q Hl Hr) as ((R1 & E1 & E1' & O1 & L1) & C1 & C1').
    destruct (IH X _ _ Hls R1) as ((R2 & E2 & E2' & O2 & L2) & C2).
    split; [unfold param; repeat split; try congruence; lia|].
    intros [E|E]; apply C2.
    + left. now apply C1.
    + apply orb_true_iff in E as [E|E]; [left; now apply C1'|right; exact E].
Qed.

Lemma errs_nexts2 ls X p : lexs_ok2 ls X = true -> errs (lex_nexts2 p ls) = errs p.
Proof. intros H. destruct (nexts2_param ls X p p H eq_refl) as ((_ & E & _) & _). exact E. Qed.

(* after a part that holds a newline the state realigns: one line lower, n raw characters further, same column *)
Theorem realigned_line : forall n pB ls2 X, lexs_ok2 ls2 X = true -> has_newline ls2 = true -> errs pB = [] ->
  realigned n pB ls2.
Proof.
  intros n pB ls2 X Hok Hnl He. unfold realigned.
  destruct (nexts2_param ls2 X (after_splice n pB) pB Hok eq_refl) as ((R & E & E' & O & L) & C).
  specialize (C (or_intror Hnl)). cbn [after_splice off line errs] in *. unfold after_splice in *. cbn [off line errs] in *.
  destruct (lex_nexts2 {| rest := rest pB; off := off pB + n; line := line pB + 1; col := 1; errs := errs pB |} ls2) as [r1 o1 l1 c1 e1].
  destruct (lex_nexts2 pB ls2) as [r2 o2 l2 c2 e2]. unfold shl. cbn [rest off line col errs] in *.
  subst. rewrite He. cbn [map]. f_equal; lia.
Qed.

Section SpliceLine.
  Variable uw ud : N -> bool.
  Local Notation splice1 := Respell.splice1.
  Local Notation splice2 := Respell.splice2.

  (* the theorem without the realignment hypothesis: the part after the splice holds a newline lexeme *)
  Theorem splice_between_lexemes_line : forall sp ls1 ls2 X itemsB xfB,
    sp = splice1 \/ sp = splice2 ->
    lexs_ok2 ls1 (sp ++ raws2 ls2 ++ X) = true -> lexs_ok2 ls1 (raws2 ls2 ++ X) = true -> lexs_ok2 ls2 X = true ->
    has_newline ls2 = true ->
    let n := List.length sp in
    let pB := lex_nexts2 pos0 ls1 in
    let pA := after_splice n pB in
    lex uw ud (raws2 ls1 ++ raws2 ls2 ++ X) = Ok (itemsB, xfB) ->
    exists later itemsA,
      itemsB = lex_items2 pos0 ls1 ++ lex_items2 pB ls2 ++ later /\
      itemsA = lex_items2 pos0 ls1 ++ ISkip (off pB) (off pB + n) :: lex_items2 pA ls2 ++ map (sh_item 1 n) later /\
      lex uw ud (raws2 ls1 ++ sp ++ raws2 ls2 ++ X) = Ok (itemsA, shl 1 n xfB) /\
      map kv (tokens_of itemsA) = map kv (tokens_of itemsB).
  Proof.
    intros sp ls1 ls2 X itemsB xfB Hsp H1 H1' H2 Hnl. cbv zeta. intros Hlex.
    apply (splice_between_lexemes uw ud sp ls1 ls2 X itemsB xfB Hsp H1 H1' H2); [|exact Hlex].
    apply (realigned_line _ _ ls2 X H2 Hnl). exact (errs_nexts2 ls1 _ pos0 H1').
  Qed.
End SpliceLine.

Example splice_line_example :
  has_newline sp_ls2 = true /\ has_newline [PS (PWs 32); PBlock (s " a" ++ [10%N] ++ s " b ")] = true /\
  has_newline [PS (PWs 32); PLine (s " x")] = false.
Proof. vm_compute. repeat split; reflexivity. Qed.
