(* From statements to files: the token-local theorems composed with the tiling theorem of the generic registry loop
   (Model/Engine.v, Proofs/EngineProofs.v) and the run order of Gen.Registry; non-vacuity examples. *)
From NV Require Import Model.Base Model.RuleChecks Gen.RuleChecks Proofs.StrOrder Proofs.RuleChecksProofs Proofs.RuleChecksProofs2.
From NV Require Import Model.Engine Model.RegistryOrder Gen.Registry Proofs.EngineProofs.
From Coq Require Import Lia.
Local Open Scope Z_scope.

(* ------------------------------------------------------------------ from statements to files (generic engine) *)
(* every position r (counted from the end: r tokens remaining) of a tiled stream lies in one statement *)
Lemma chain_covers : forall segs n, chain segs n = true -> forall r, (1 <= r <= n)%nat ->
  exists x, In x segs /\ (seg_after x < r <= seg_before x)%nat /\ (seg_before x <= n)%nat.
Proof.
  induction segs as [|x segs IH]; intros n H r Hr; cbn [chain] in H.
  - apply Nat.eqb_eq in H. lia.
  - apply andb_true_iff in H as [H H3]. apply andb_true_iff in H as [H1 H2].
    apply Nat.eqb_eq in H1. apply Nat.ltb_lt in H2.
    destruct (Nat.ltb_spec (seg_after x) r) as [Hlt|Hge].
    + exists x. split; [now left|]. lia.
    + destruct (IH _ H3 r) as [y [A [B C]]]; [lia|]. exists y. split; [now right|]. lia.
Qed.

Lemma nth_error_skipn {A} (l : list A) a b : nth_error (skipn a l) b = nth_error l (a + b).
Proof. revert l; induction a as [|a IH]; intros l; [reflexivity|]. destruct l; [now destruct b|]. cbn. apply IH. Qed.

(* A run of the registry loop that ends normally without -d: every token of the file lies in a statement matched by
   some primary `name`; when that statement was examined, context.tokens was the suffix `rem` of the file starting at
   the statement and the token sits at an index below the statement length. *)
Theorem file_token_in_statement oracle (ftoks : list token) segs k t :
  good oracle -> run_file oracle 0 (List.length ftoks) = Ok segs -> nth_error ftoks k = Some t ->
  exists name before after, In (SMatch name before after) segs /\ (after < before <= List.length ftoks)%nat /\
    let rem := skipn (List.length ftoks - before) ftoks in
    let i := Z.of_nat (k - (List.length ftoks - before)) in
    0 <= i < Z.of_nat (before - after) /\ peek rem i = Some t.
Proof.
  intros Hg Hrun Hk. pose proof (run_tiles _ _ _ _ Hg Hrun) as Hc. pose proof (unrecognised_is_fatal _ _ _ Hg Hrun) as Hu.
  assert (Hlt : (k < List.length ftoks)%nat) by (apply nth_error_Some; congruence).
  destruct (chain_covers _ _ Hc (List.length ftoks - k)%nat) as [x [Hin [Hr Hb]]]; [lia|].
  rewrite forallb_forall in Hu. specialize (Hu _ Hin). destruct x as [name before after|b]; [|discriminate].
  cbn [seg_before seg_after] in *. exists name, before, after. split; [exact Hin|]. split; [lia|]. cbv zeta. split; [lia|].
  rewrite peek_nonneg by lia. unfold zlen. rewrite skipn_length.
  destruct (Z.ltb_spec (Z.of_nat (k - (List.length ftoks - before))) (Z.of_nat (List.length ftoks - (List.length ftoks - before)))); [|lia].
  rewrite Nat2Z.id, nth_error_skipn. replace (List.length ftoks - before + (k - (List.length ftoks - before)))%nat with k by lia. exact Hk.
Qed.

(* the `_rule` checks run on every matched statement, whatever primary matched it (Gen.Registry, Model.RegistryOrder) *)
Lemma rule_checks_run_always p c :
  In c [s "CheckTernary"; s "CheckLineLen"; s "CheckLabel"; s "CheckEmptyLine"; s "CheckLineIndent"; s "CheckSpacing"] ->
  In c (checks_run_on p).
Proof.
  intros H. unfold checks_run_on. apply in_or_app. right.
  assert (E : forallb (fun c => str_in c (sort_names (rule_checks_unsorted checks)))
            [s "CheckTernary"; s "CheckLineLen"; s "CheckLabel"; s "CheckEmptyLine"; s "CheckLineIndent"; s "CheckSpacing"] = true)
    by (vm_compute; reflexivity).
  rewrite forallb_forall in E. specialize (E _ H). unfold str_in in E. apply existsb_exists in E as [y [Hy Q]].
  apply str_eqb_eq in Q. now subst.
Qed.

(* S05 at file level: a ternary token anywhere in a file whose run ends normally is reported at its position by the
   CheckTernary invocation on the statement that contains it - for every context view. *)
Theorem file_ternary_reported oracle (ftoks : list token) segs k t :
  good oracle -> run_file oracle 0 (List.length ftoks) = Ok segs -> nth_error ftoks k = Some t -> t_type t = ty_tern ->
  exists name before after, In (SMatch name before after) segs /\ In (s "CheckTernary") (checks_run_on name) /\
    forall v, exists E, check_ternary (skipn (List.length ftoks - before) ftoks) (Z.of_nat (before - after)) v = Ok (E, v)
                        /\ In (c_ternary, t_line t, t_col t) E.
Proof.
  intros Hg Hrun Hk Hty. destruct (file_token_in_statement _ _ _ _ _ Hg Hrun Hk) as [name [before [after [Hin [Hb [Hi Hp]]]]]].
  exists name, before, after. split; [exact Hin|]. split; [apply rule_checks_run_always; cbn; auto|].
  intros v. eapply check_ternary_reports; eassumption.
Qed.

Lemma nth_error_firstn_lt {A} (l : list A) : forall n i, (i < n)%nat -> nth_error (firstn n l) i = nth_error l i.
Proof. induction l as [|x l IH]; intros n i H; destruct n, i; try reflexivity; try lia. cbn. apply IH. lia. Qed.

Lemma peek_in_slice toks scope i t : 0 <= i < scope -> peek toks i = Some t -> In t (py_slice_to toks scope).
Proof.
  intros Hi Hp. unfold py_slice_to. destruct (Z.ltb_spec scope 0); [lia|].
  rewrite peek_nonneg in Hp by lia. destruct (Z.ltb_spec i (zlen toks)); [|discriminate].
  apply nth_error_In with (n := Z.to_nat i). rewrite nth_error_firstn_lt by lia. exact Hp.
Qed.

(* L01 at file level: a token beyond column 81 anywhere in the file makes CheckLineLen report its line *)
Theorem file_line_too_long_reported oracle (ftoks : list token) segs k t :
  good oracle -> run_file oracle 0 (List.length ftoks) = Ok segs -> nth_error ftoks k = Some t -> t_col t > 81 ->
  exists name before after, In (SMatch name before after) segs /\ In (s "CheckLineLen") (checks_run_on name) /\
    forall v, exists E c, check_line_len (skipn (List.length ftoks - before) ftoks) (Z.of_nat (before - after)) v = Ok (E, v)
                        /\ c > 81 /\ In (c_linelen, t_line t, c) E.
Proof.
  intros Hg Hrun Hk Hc. destruct (file_token_in_statement _ _ _ _ _ Hg Hrun Hk) as [name [before [after [Hin [Hb [Hi Hp]]]]]].
  exists name, before, after. split; [exact Hin|]. split; [apply rule_checks_run_always; cbn; auto|].
  intros v. destruct (check_line_len_spec (skipn (List.length ftoks - before) ftoks) (Z.of_nat (before - after)) v) as [E [H1 [H2 _]]].
  destruct (H2 t (peek_in_slice _ _ _ _ Hi Hp) Hc) as [c [Hc1 Hc2]]. exists E, c. auto.
Qed.

(* ------------------------------------------------------------------ non-vacuity *)
Definition tk (ty : string) (l c : Z) : token := mk_tok (s ty) l c.
Definition v_fun : view := mkview [s "IsAssignation"; s "IsBlockStart"; s "IsFuncDeclaration"] (s "Function") false 1 false false.

(* `\tx = c ? a : b;` *)
Definition ex_tern : list token :=
  [tk "TAB" 3 1; tk "IDENTIFIER" 3 5; tk "SPACE" 3 6; tk "ASSIGN" 3 7; tk "SPACE" 3 8; tk "IDENTIFIER" 3 9; tk "SPACE" 3 10;
   tk "TERN_CONDITION" 3 11; tk "SPACE" 3 12; tk "IDENTIFIER" 3 13; tk "SPACE" 3 14; tk "COLON" 3 15; tk "SPACE" 3 16;
   tk "IDENTIFIER" 3 17; tk "SEMI_COLON" 3 18; tk "NEWLINE" 3 19].
Example ex_ternary : check_ternary ex_tern 16 v_fun = Ok ([(c_ternary, 3, 11)], v_fun).
Proof. vm_compute. reflexivity. Qed.
Example ex_ternary_hyps : 0 <= 7 < 16 /\ peek ex_tern 7 = Some (tk "TERN_CONDITION" 3 11) /\ t_type (tk "TERN_CONDITION" 3 11) = ty_tern.
Proof. repeat split; reflexivity || lia. Qed.

Example ex_line_len : check_line_len [tk "IDENTIFIER" 9 80; tk "SEMI_COLON" 9 82; tk "NEWLINE" 9 83] 3 v_fun = Ok ([(c_linelen, 9, 82)], v_fun).
Proof. vm_compute. reflexivity. Qed.

Ltac leading_tac :=
  split; [intros j Hj; assert (Hc : j = 0 \/ j = 1) by lia; destruct Hc as [-> | ->]; try lia; eexists; (split; [vm_compute; reflexivity|reflexivity])
         | intros t E; vm_compute in E; inversion E; subst; reflexivity].
(* `\tgoto l;` *)
Example ex_goto : check_label [tk "TAB" 4 1; tk "GOTO" 4 5; tk "SPACE" 4 9; tk "IDENTIFIER" 4 10; tk "SEMI_COLON" 4 11; tk "NEWLINE" 4 12] 6 v_fun
                  = Ok ([(c_goto, 4, 1)], v_fun).
Proof. apply (check_label_goto _ _ _ 1%nat (tk "TAB" 4 1) (tk "GOTO" 4 5)); try reflexivity. leading_tac. Qed.
(* `\tl:` *)
Example ex_label : check_label [tk "TAB" 4 1; tk "IDENTIFIER" 4 5; tk "COLON" 4 6; tk "NEWLINE" 4 7] 4 v_fun = Ok ([(c_label, 4, 1)], v_fun).
Proof. apply (check_label_label _ _ _ 1%nat 2 (tk "TAB" 4 1) (tk "IDENTIFIER" 4 5) (tk "COLON" 4 6)); try reflexivity. leading_tac. Qed.

Example ex_many : check_many_instructions [tk "IDENTIFIER" 5 9; tk "SEMI_COLON" 5 10; tk "NEWLINE" 5 11] 3 v_fun = Ok ([(c_many, 5, 9)], v_fun).
Proof. rewrite (check_many_instructions_value _ _ _ (tk "IDENTIFIER" 5 9)) by reflexivity. reflexivity. Qed.

Definition v_hist (h : list string) (scope : string) : view := mkview (map s h) (s scope) (String.eqb scope "GlobalScope") 0 false false.
Example ex_file_start : check_empty_line [tk "NEWLINE" 1 1; tk "MULT_COMMENT" 2 1] 1 (v_hist ["IsEmptyLine"%string] "GlobalScope")
  = Ok ([(s "EMPTY_LINE_FILE_START", 1, 1)], v_hist ["IsEmptyLine"%string] "GlobalScope").
Proof. apply (empty_line_file_start _ _ _ (tk "NEWLINE" 1 1)); reflexivity. Qed.
Example ex_consecutive : exists E v', check_empty_line [tk "NEWLINE" 14 1; tk "INT" 15 1] 1 (v_hist ["IsEmptyLine"; "IsEmptyLine"; "IsBlockEnd"]%string "GlobalScope") = Ok (E, v')
  /\ In (s "CONSECUTIVE_NEWLINES", 14, 1) E.
Proof. eapply (empty_line_consecutive _ _ _ (tk "NEWLINE" 14 1)); reflexivity. Qed.
Example ex_space_empty : exists E v', check_empty_line [tk "SPACE" 14 1; tk "NEWLINE" 14 2] 2 (v_hist ["IsEmptyLine"; "IsBlockEnd"]%string "GlobalScope") = Ok (E, v')
  /\ In (s "SPACE_EMPTY_LINE", 14, 1) E.
Proof. eapply (empty_line_space _ _ _ (tk "SPACE" 14 1)); try reflexivity. intros H; vm_compute in H; discriminate. Qed.
Example ex_empty_function : exists E v', check_empty_line [tk "NEWLINE" 20 1; tk "TAB" 21 1] 1 (v_hist ["IsEmptyLine"; "IsAssignation"]%string "Function") = Ok (E, v')
  /\ In (s "EMPTY_LINE_FUNCTION", 20, 1) E.
Proof. eapply (empty_line_function _ _ _ (tk "NEWLINE" 20 1)); try reflexivity; intros H; vm_compute in H; discriminate. Qed.
Example ex_eof : exists E v', check_empty_line [tk "NEWLINE" 30 1] 1 (v_hist ["IsEmptyLine"; "IsBlockEnd"]%string "GlobalScope") = Ok (E, v')
  /\ In (s "EMPTY_LINE_EOF", 30, 1) E.
Proof. eapply (empty_line_eof _ _ _ (tk "NEWLINE" 30 1)); reflexivity. Qed.
Example ex_after_preproc : check_empty_line [tk "INT" 14 1; tk "TAB" 14 4] 6 (v_hist ["IsFuncDeclaration"; "IsPreprocessorStatement"]%string "GlobalScope")
  = Ok ([(s "NL_AFTER_PREPROC", 14, 1)], v_hist ["IsFuncDeclaration"; "IsPreprocessorStatement"]%string "GlobalScope").
Proof. apply (empty_line_after_preproc _ _ _ (tk "INT" 14 1) (s "IsFuncDeclaration") []); reflexivity. Qed.
Definition v_decl : view := mkview [s "IsAssignation"; s "IsVarDeclaration"] (s "Function") false 1 false true.
Example ex_after_var_decl : check_empty_line [tk "TAB" 17 1; tk "IDENTIFIER" 17 5] 6 v_decl = Ok ([(s "NL_AFTER_VAR_DECL", 17, 1)], set_vdecl_allowed v_decl false).
Proof. apply (empty_line_after_var_decl _ _ _ (tk "TAB" 17 1) (s "IsAssignation") [s "IsVarDeclaration"]); try reflexivity. intros H; vm_compute in H; discriminate. Qed.

(* two tabs where the scope wants one: W06 *)
Example ex_too_many_tab : exists v', check_line_indent [tk "TAB" 4 1; tk "TAB" 4 5; tk "IDENTIFIER" 4 9; tk "SEMI_COLON" 4 10; tk "NEWLINE" 4 11] 5 v_fun
  = Ok ([(s "TOO_MANY_TAB", 4, 1)], v') /\ v_scope_indent v' = 1.
Proof.
  assert (Hl : leading [tk "TAB" 4 1; tk "TAB" 4 5; tk "IDENTIFIER" 4 9; tk "SEMI_COLON" 4 10; tk "NEWLINE" 4 11] [ty_tab] 2) by leading_tac.
  assert (Hb : forall t, peek [tk "TAB" 4 1; tk "TAB" 4 5; tk "IDENTIFIER" 4 9; tk "SEMI_COLON" 4 10; tk "NEWLINE" 4 11] (Z.of_nat 2) = Some t ->
               str_in (t_type t) [s "LBRACE"; s "RBRACE"] = false)
    by (intros t E; vm_compute in E; inversion E; reflexivity).
  destruct (check_line_indent_value _ 5 v_fun 2 (s "IsAssignation") [s "IsBlockStart"; s "IsFuncDeclaration"] (tk "TAB" 4 1)
              eq_refl eq_refl Hl Hb eq_refl) as [v' [H1 H2]].
  exists v'. split; [exact H1|exact H2].
Qed.

(* four spaces instead of the tab: W05 *)
Definition ex_sp : list token := [tk "SPACE" 4 1; tk "SPACE" 4 2; tk "SPACE" 4 3; tk "SPACE" 4 4; tk "IDENTIFIER" 4 5; tk "SEMI_COLON" 4 6; tk "NEWLINE" 4 7].
Example ex_space_replace_tab : exists E, check_spacing ex_sp 7 v_fun = Ok (E, v_fun) /\ In (s "SPACE_REPLACE_TAB", 4, 5) E.
Proof. eexists. split; [vm_compute; reflexivity|]. now left. Qed.
Example ex_space_replace_tab_hyps : after_spaces ex_sp 7 = 4 /\ peek ex_sp 4 = Some (tk "IDENTIFIER" 4 5) /\ 0 < slice_len ex_sp 7.
Proof. repeat split; vm_compute; reflexivity. Qed.

(* `\tx = 1; ` with a trailing space: the hypotheses of the W01 theorem hold at i = 7 *)
Definition ex_trail : list token := [tk "TAB" 4 1; tk "IDENTIFIER" 4 5; tk "SPACE" 4 6; tk "ASSIGN" 4 7; tk "SPACE" 4 8; tk "CONSTANT" 4 9;
  tk "SEMI_COLON" 4 10; tk "SPACE" 4 11; tk "NEWLINE" 4 12].
Example ex_trailing_space : check_spacing ex_trail 9 v_fun = Ok ([(s "SPC_BEFORE_NL", 4, 11)], v_fun).
Proof. vm_compute. reflexivity. Qed.
Example ex_trailing_space_hyps : 0 <= 7 < slice_len ex_trail 9 /\ peek ex_trail 7 = Some (tk "SPACE" 4 11) /\
  truthy (check1 ex_trail (7 - 1) ty_space) = false /\ truthy (checkl ex_trail (7 - 1) [s "LBRACE"; s "RBRACE"]) = false /\
  truthy (check1 ex_trail (skip_ws ex_trail 7) (s "NEWLINE")) = true.
Proof. repeat split; vm_compute; reflexivity || discriminate. Qed.
(* `\tx =  1;` and `\tint \tx;` *)
Example ex_double_space : check_spacing [tk "TAB" 4 1; tk "IDENTIFIER" 4 5; tk "SPACE" 4 6; tk "ASSIGN" 4 7; tk "SPACE" 4 8; tk "SPACE" 4 9;
  tk "CONSTANT" 4 10; tk "SEMI_COLON" 4 11; tk "NEWLINE" 4 12] 9 v_fun = Ok ([(s "CONSECUTIVE_SPC", 4, 8)], v_fun).
Proof. vm_compute. reflexivity. Qed.
Example ex_space_tab : check_spacing [tk "TAB" 4 1; tk "INT" 4 5; tk "SPACE" 4 8; tk "TAB" 4 9; tk "IDENTIFIER" 4 13; tk "SEMI_COLON" 4 14;
  tk "NEWLINE" 4 15] 7 v_fun = Ok ([(s "MIXED_SPACE_TAB", 4, 8)], v_fun).
Proof. vm_compute. reflexivity. Qed.

(* `    {` : four spaces, one token, newline *)
Example ex_single_token_line : exists toks scope v E,
  check_spacing toks scope v = Ok (E, v) /\ In (s "SPACE_EMPTY_LINE", 4, 5) E /\
  forall l c, ~ In (s "SPACE_REPLACE_TAB", l, c) E.
Proof.
  exists [tk "SPACE" 4 1; tk "SPACE" 4 2; tk "SPACE" 4 3; tk "SPACE" 4 4; tk "LBRACE" 4 5; tk "NEWLINE" 4 6; tk "TAB" 5 1], 6,
         (mkview [s "IsBlockStart"; s "IsControlStatement"] (s "ControlStructure") false 2 false false),
         [(s "SPACE_EMPTY_LINE", 4, 5)].
  split; [vm_compute; reflexivity|]. split; [now left|]. intros l c [H|[]]. inversion H.
Qed.

(* a file of two statements; the ternary of the second one is found by the file-level theorem *)
Definition ex_file : list token := [tk "MULT_COMMENT" 1 1; tk "NEWLINE" 1 9] ++ ex_tern.
Definition ex_oracle : nat -> tryres := fun i => match i with 0%nat => Matched (s "IsComment") 2 | 1%nat => Matched (s "IsAssignation") 16 | _ => NoMatch end.
Example ex_file_run : good ex_oracle /\ run_file ex_oracle 0 (List.length ex_file) = Ok [SMatch (s "IsComment") 18 16; SMatch (s "IsAssignation") 16 0]
  /\ nth_error ex_file 9 = Some (tk "TERN_CONDITION" 3 11).
Proof.
  split; [|split; reflexivity].
  intros i name j. destruct i as [|[|i]]; intros H; inversion H; subst; discriminate || (cbv; discriminate).
Qed.
