(* The rule order does not depend on the order in which the classes were discovered. *)
From NV Require Import Model.Base Model.Errors Model.RegistryOrder Proofs.StrOrder Proofs.SortProofs.
From Coq Require Import Lia Sorting.Sorted Sorting.Permutation.

Section Unique.
  Context {A : Type} (lt : A -> A -> bool).

  Lemma sorted_unique : forall l1 l2, Permutation l1 l2 ->
    StronglySorted (le lt) l1 -> StronglySorted (le lt) l2 ->
    (forall x y, In x l1 -> In y l1 -> le lt x y -> le lt y x -> x = y) -> l1 = l2.
  Proof.
    induction l1 as [|a r1 IH]; intros l2 Hp S1 S2 Has.
    - apply Permutation_nil in Hp. now subst.
    - destruct l2 as [|b r2]; [apply Permutation_sym, Permutation_nil in Hp; discriminate|].
      inversion S1 as [|? ? S1' F1]; subst. inversion S2 as [|? ? S2' F2]; subst.
      assert (Hab : a = b).
      { assert (Hb : In b (a :: r1)) by (eapply Permutation_in; [apply Permutation_sym, Hp|now left]).
        assert (Ha : In a (b :: r2)) by (eapply Permutation_in; [apply Hp|now left]).
        destruct Hb as [Hb|Hb]; [assumption|]. destruct Ha as [Ha|Ha]; [now symmetry|].
        rewrite Forall_forall in F1, F2. apply Has; [now left|now right|now apply F1|now apply F2]. }
      subst b. f_equal. apply IH; [eapply Permutation_cons_inv; exact Hp|assumption|assumption|].
      intros x y Hx Hy. apply Has; now right.
  Qed.
End Unique.

Lemma NoDup_map_inj {A B} (f : A -> B) l x y : NoDup (map f l) -> In x l -> In y l -> f x = f y -> x = y.
Proof.
  induction l as [|a l IH]; intros Hn Hx Hy E; [destruct Hx|]. cbn in Hn. inversion Hn as [|? ? Hna Hn']; subst.
  destruct Hx as [->|Hx], Hy as [->|Hy]; auto.
  - exfalso. apply Hna. rewrite E. now apply in_map.
  - exfalso. apply Hna. rewrite <- E. now apply in_map.
Qed.

(* ---- primaries, by priority *)
Lemma prio_irrefl a : prio_before a a = false.
Proof. unfold prio_before. apply Z.ltb_irrefl. Qed.
Lemma prio_trans a b c : prio_before a b = true -> prio_before b c = true -> prio_before a c = true.
Proof. unfold prio_before. rewrite !Z.ltb_lt. lia. Qed.

Theorem primaries_order_invariant : forall l l' : list primary_decl, Permutation l l' -> NoDup (map p_priority l) ->
  sort_primaries l = sort_primaries l'.
Proof.
  intros l l' Hp Hn. unfold sort_primaries.
  apply (sorted_unique prio_before).
  - rewrite <- (sort_by_perm prio_before l), <- (sort_by_perm prio_before l'). exact Hp.
  - apply (sort_by_sorted prio_before (fun _ => True)); [intros; apply prio_irrefl|intros; eapply prio_trans; eassumption|].
    apply Forall_forall. intros; exact I.
  - apply (sort_by_sorted prio_before (fun _ => True)); [intros; apply prio_irrefl|intros; eapply prio_trans; eassumption|].
    apply Forall_forall. intros; exact I.
  - intros x y Hx Hy H1 H2. unfold le, prio_before in H1, H2. apply Z.ltb_ge in H1, H2.
    apply (NoDup_map_inj p_priority l); [assumption| | |lia];
      (eapply Permutation_in; [apply Permutation_sym, sort_by_perm|eassumption]).
Qed.

(* ---- dependency lists, by class name *)
Lemma name_irrefl a : name_before a a = false.
Proof. apply str_ltb_irrefl. Qed.
Lemma name_trans a b c : name_before a b = true -> name_before b c = true -> name_before a c = true.
Proof. unfold name_before. intros H1 H2. eapply str_ltb_trans; eassumption. Qed.

Theorem names_order_invariant : forall l l' : list str, Permutation l l' -> sort_names l = sort_names l'.
Proof.
  intros l l' Hp. unfold sort_names.
  apply (sorted_unique name_before).
  - rewrite <- (sort_by_perm name_before l), <- (sort_by_perm name_before l'). exact Hp.
  - apply (sort_by_sorted name_before (fun _ => True)); [intros; apply name_irrefl|intros; eapply name_trans; eassumption|].
    apply Forall_forall. intros; exact I.
  - apply (sort_by_sorted name_before (fun _ => True)); [intros; apply name_irrefl|intros; eapply name_trans; eassumption|].
    apply Forall_forall. intros; exact I.
  - intros x y _ _ H1 H2. unfold le, name_before in H1, H2. now apply str_ltb_total.
Qed.

(* the tables of this source: priorities and check names are pairwise distinct *)
Fixpoint nodup_Z (l : list Z) : bool :=
  match l with [] => true | a :: r => negb (existsb (Z.eqb a) r) && nodup_Z r end.
Lemma nodup_Z_sound l : nodup_Z l = true -> NoDup l.
Proof.
  induction l as [|a r IH]; cbn; [constructor|]. intros H. apply andb_true_iff in H as [H1 H2].
  constructor; [|now apply IH]. intros Hin. apply negb_true_iff in H1.
  assert (existsb (Z.eqb a) r = true); [|congruence]. apply existsb_exists. exists a. split; [assumption|apply Z.eqb_refl].
Qed.

Lemma priorities_distinct : NoDup (map p_priority primaries).
Proof. apply nodup_Z_sound. vm_compute. reflexivity. Qed.

(* the sorted calls of the source are the ones the model assumes *)
Lemma sorted_calls_tie :
  primaries_sorted_call = ["Primary.__subclasses__()"%string; "attrgetter('priority')"%string; "True"%string] /\
  dependencies_sorted_call = ["dependencies"%string; "attrgetter('__name__')"%string; "True"%string].
Proof. split; reflexivity. Qed.

(* what the live process computed on this run (listing order of this machine) is what the model computes *)
Lemma live_order_tie : live_primaries_order = primaries_order.
Proof. vm_compute. reflexivity. Qed.
