(* Ties between hand-written lexer model parts and tables regenerated from the source. *)
From NV Require Import Model.Base Gen.LexTables Gen.Dict Gen.Catalogue Model.NumReExpected Model.CatalogueExpected.

Lemma int_pattern_tie :
  String.eqb INT_LITERAL_PATTERN_tree expected_INT_LITERAL_PATTERN_tree = true /\
  INT_LITERAL_PATTERN_flags = expected_INT_LITERAL_PATTERN_flags.
Proof. split; vm_compute; reflexivity. Qed.
Lemma fexp_pattern_tie :
  String.eqb FLOAT_EXPONENT_LITERAL_PATTERN_tree expected_FLOAT_EXPONENT_LITERAL_PATTERN_tree = true /\
  FLOAT_EXPONENT_LITERAL_PATTERN_flags = expected_FLOAT_EXPONENT_LITERAL_PATTERN_flags.
Proof. split; vm_compute; reflexivity. Qed.
Lemma ffrac_pattern_tie :
  String.eqb FLOAT_FRACTIONAL_LITERAL_PATTERN_tree expected_FLOAT_FRACTIONAL_LITERAL_PATTERN_tree = true /\
  FLOAT_FRACTIONAL_LITERAL_PATTERN_flags = expected_FLOAT_FRACTIONAL_LITERAL_PATTERN_flags.
Proof. split; vm_compute; reflexivity. Qed.
Lemma fhex_pattern_tie :
  String.eqb FLOAT_HEXADECIMAL_LITERAL_PATTERN_tree expected_FLOAT_HEXADECIMAL_LITERAL_PATTERN_tree = true /\
  FLOAT_HEXADECIMAL_LITERAL_PATTERN_flags = expected_FLOAT_HEXADECIMAL_LITERAL_PATTERN_flags.
Proof. split; vm_compute; reflexivity. Qed.

(* the ten sub-parsers, in the order the model's dispatcher knows them *)
Lemma parsers_known :
  forallb (fun n => str_in n [s "parse_float_literal"; s "parse_integer_literal"; s "parse_char_literal";
                              s "parse_string_literal"; s "parse_identifier"; s "parse_whitespace";
                              s "parse_line_comment"; s "parse_multi_line_comment"; s "parse_operator";
                              s "parse_brackets"]) parsers = true.
Proof. vm_compute. reflexivity. Qed.

(* every published (pinned) catalogue entry is in today's catalogue with exactly the same text *)
Lemma catalogue_tie :
  forallb (fun kv => match assoc (fst kv) catalogue with Some t => str_eqb t (snd kv) | None => false end)
          expected_catalogue = true.
Proof. vm_compute. reflexivity. Qed.
