(* C13, Hm5 at file level: the header written as ONE block comment (the inner delimiters replaced by `**`), a newline,
   then a text whose first token is not a block comment: exactly one INVALID_HEADER. *)
From NV Require Import Model.Base Model.Diag Model.Lexer Model.RuleChecks Model.EngineTok0 Model.Engine Model.RegistryOrder
  Gen.Registry Gen.IsComment Model.EngineTok
  Model.HeaderRe Model.HeaderState Gen.HeaderRe Gen.HeaderSM Model.Header Proofs.HeaderReProofs Proofs.HeaderProofs
  Proofs.LineShift Proofs.LineShiftCor Proofs.CommentLines Proofs.HeaderLex Proofs.HeaderTurns Proofs.HeaderReject
  Proofs.MultiLineComment.
From Coq Require Import Lia.

Local Open Scope Z_scope.

(* ------------------------------------------------------------------ the one-block body is a well-formed multi-line body *)
Lemma cok_cokm c : cok c = true -> cokm c = true.
Proof. intros H. destruct (cok_inv c H) as (A & B & _ & D). unfold cokm. rewrite A, B, D. reflexivity. Qed.

Lemma chain_chainm : forall b p, chain_ok p b = true -> chainm_ok p b = true.
Proof.
  induction b as [|c b IH]; intros p H; [reflexivity|]. cbn [chain_ok chainm_ok] in *.
  apply andb_prop in H. destruct H as [H Hb]. apply andb_prop in H. destruct H as [Hc Hp].
  rewrite (cok_cokm c Hc), Hp, (IH c Hb). reflexivity.
Qed.

Lemma chainm_split : forall A p c B, chainm_ok p (A ++ c :: B) = chainm_ok p (A ++ [c]) && chainm_ok c B.
Proof.
  induction A as [|a A IH]; intros p c B; cbn [app chainm_ok].
  - rewrite andb_true_r. reflexivity.
  - rewrite IH. rewrite !andb_assoc. reflexivity.
Qed.

Lemma join_bodym : forall ms, ms <> [] -> forallb body_ok ms = true -> bodym_ok (join block_sep ms) = true.
Proof.
  induction ms as [|m ms IH]; intros Hne H; [congruence|]. cbn [forallb] in H. apply andb_prop in H. destruct H as [Hm Hms].
  destruct ms as [|m' ms'].
  - cbn [join]. apply chain_chainm. exact Hm.
  - unfold bodym_ok in *. change (join block_sep (m :: m' :: ms')) with (m ++ block_sep ++ join block_sep (m' :: ms')).
    rewrite <- !app_assoc. change (block_sep ++ join block_sep (m' :: ms') ++ [42%N])
      with (42%N :: 42%N :: 10%N :: 42%N :: 42%N :: (join block_sep (m' :: ms') ++ [42%N])).
    rewrite chainm_split. rewrite (chain_chainm _ _ Hm). cbn [andb].
    change (chainm_ok 42 (42%N :: 10%N :: 42%N :: 42%N :: (join block_sep (m' :: ms') ++ [42%N])))
      with (chainm_ok 42 (join block_sep (m' :: ms') ++ [42%N])).
    apply IH; [discriminate|exact Hms].
Qed.

Lemma hm5_body_ok f : fields_lex_ok f = true -> bodym_ok (join block_sep (template_mids f)) = true.
Proof. intros H. apply join_bodym; [unfold template_mids; discriminate|apply template_bodies_ok; exact H]. Qed.

Lemma hm5_text_is f : hm5_text f = comment_text (join block_sep (template_mids f)).
Proof. reflexivity. Qed.

(* ------------------------------------------------------------------ token level: ONE comment statement, then a statement *)
Theorem tokens_reject_one_comment : forall oracle (t1 t2 : token) v X name jmp m,
  t_type t1 = MULT_COMMENT -> t_type t2 = NEWLINE -> t_val t1 = Some v ->
  induced oracle (t1 :: t2 :: X) -> oracle 1%nat = Matched name jmp -> first_tok_not_block X = true ->
  ~ searches header_re (lines_text [v]) ->
  diag_count (events_upto oracle (t1 :: t2 :: X) (2 + m)) = 1%nat.
Proof.
  intros oracle t1 t2 v X name jmp m H1 H2 Hv Hind Ho HX Hn.
  assert (O0 : oracle 0%nat = Matched (s "IsComment") 2).
  { apply Hind; cbn [remaining]; [discriminate|]. apply turn_on_comment_line; assumption. }
  unfold events_upto. change (2 + m)%nat with (S (S m)). cbn [events_range remaining]. rewrite O0, Ho, pop_two.
  cbn [event_of app]. rewrite H1, Hv.
  apply (reject_text (mkev (s "IsComment") MULT_COMMENT v) [] (event_of name X)).
  - reflexivity.
  - apply event_not_block. exact HX.
  - exact Hn.
Qed.

(* ------------------------------------------------------------------ file level *)
Theorem file_reject_Hm5 : forall uw ud f src items xf items' xf' oracle name jmp m,
  fields_lex_ok f = true -> fields_plain f = true ->
  lex uw ud src = Ok (items, xf) -> first_tok_not_block (tokens_of items) = true ->
  lex uw ud (hm5_text f ++ 10%N :: src) = Ok (items', xf') ->
  induced oracle (tokens_of items') -> oracle 1%nat = Matched name jmp ->
  diag_count (events_upto oracle (tokens_of items') (2 + m)) = 1%nat.
Proof.
  intros uw ud f src items xf items' xf' oracle name jmp m Hl Hp Hsrc Hft Hfile Hind Ho.
  rewrite hm5_text_is in Hfile.
  rewrite (lex_block_comment_then_text uw ud _ src items xf (hm5_body_ok f Hl) Hsrc) in Hfile.
  apply (f_equal (fun r : outcome (list item * st) => match r with Ok (i, _) => i | _ => [] end)) in Hfile.
  cbv beta iota in Hfile. subst items'.
  set (body := join block_sep (template_mids f)) in *.
  change (tokens_of (ITok ?a ?b ?c :: ITok ?d ?e ?g :: ?r)) with (a :: d :: tokens_of r) in *.
  eapply tokens_reject_one_comment; try eassumption; try reflexivity.
  - rewrite first_tok_sh. exact Hft.
  - cbn [t_val]. change (comment_text body) with (hm5_text f). apply hm5_rejected. exact Hp.
Qed.

(* non-vacuity: the repository's own header as one block comment: a well-formed 11-line body, lexed to one token *)
Example hm5_hud :
  bodym_ok (join block_sep (template_mids hud_fields)) = true /\
  count_nl (join block_sep (template_mids hud_fields)) = 10 /\
  match lex (fun _ => false) (fun _ => false) (hm5_text hud_fields ++ 10%N :: s "int x;") with
  | Ok (items, _) => map (fun t => (t_type t, t_line t)) (firstn 3 (tokens_of items)) =
                     [(MULT_COMMENT, 1); (NEWLINE, 11); (s "INT", 12)]
  | _ => False
  end.
Proof. vm_compute. repeat split; reflexivity. Qed.
