(* Which source files can emit which diagnostic codes: decided on the generated table of static emission
   sites (Gen/Emitters.v, regenerated from the repository by tools/translate_emitters.py on every run).
   Everything here is boolean and evaluated by vm_compute over the finite tables. *)
From NV Require Import Model.Base Gen.Emitters Gen.Catalogue.
From Coq Require Import String List Bool Ascii Arith.
Import ListNotations.
Local Open Scope string_scope.

Definition site := (string * string * string * string)%type.
Definition site_file (x : site) : string := let '(f, _, _, _) := x in f.
Definition site_fun (x : site) : string := let '(_, g, _, _) := x in g.
Definition site_code (x : site) : string := let '(_, _, c, _) := x in c.
Definition site_level (x : site) : string := let '(_, _, _, l) := x in l.

(* patterns have the same tuple type: (file, function, prefix, suffix) *)
Definition pat_prefix (x : site) : string := site_code x.
Definition pat_suffix (x : site) : string := site_level x.

Fixpoint chars (x : string) : list ascii :=
  match x with
  | EmptyString => []
  | String c r => c :: chars r
  end.

Fixpoint chars_prefix (p x : list ascii) : bool :=
  match p, x with
  | [], _ => true
  | a :: p', b :: x' => Ascii.eqb a b && chars_prefix p' x'
  | _ :: _, [] => false
  end.

Definition suffix (q x : string) : bool := chars_prefix (rev (chars q)) (rev (chars x)).

(* code = p ++ middle ++ q for some middle *)
Definition fits (p q code : string) : bool :=
  String.prefix p code && suffix q code
  && (String.length p + String.length q <=? String.length code)%nat.

Definition is_dynamic (code : string) : bool := String.prefix "<dynamic" code.

Definition pattern_may (code : string) (pt : site) : bool := fits (pat_prefix pt) (pat_suffix pt) code.

Definition same_place (a b : site) : bool :=
  String.eqb (site_file a) (site_file b) && String.eqb (site_fun a) (site_fun b).

(* can this site produce `code`?  literally, or through its f-string pattern *)
Definition may_emit (code : string) (x : site) : bool :=
  String.eqb (site_code x) code
  || (is_dynamic (site_code x)
      && existsb (fun pt => same_place pt x && pattern_may code pt) emitter_patterns).

Definition opaque_free : bool :=
  match emitter_opaque with
  | [] => true
  | _ => false
  end.

Definition only_in (file code : string) : bool :=
  opaque_free
  && forallb (fun x => implb (String.eqb (site_code x) code) (String.eqb (site_file x) file)) emitters
  && forallb (fun pt => implb (pattern_may code pt) (String.eqb (site_file pt) file)) emitter_patterns
  && existsb (fun x => String.eqb (site_file x) file && may_emit code x) emitters.

(* ---- sanity of the helpers ---- *)
Example suffix_yes : suffix "_INT" "INVALID_HEX_INT" = true.
Proof. vm_compute. reflexivity. Qed.
Example suffix_no : suffix "_INT" "INVALID_HEADER" = false.
Proof. vm_compute. reflexivity. Qed.
Example fits_overlap_refused : fits "AB" "BC" "ABC" = false.
Proof. vm_compute. reflexivity. Qed.
Example fits_empty_middle : fits "AB" "C" "ABC" = true.
Proof. vm_compute. reflexivity. Qed.

Lemma chars_prefix_app : forall p x, chars_prefix p (p ++ x)%list = true.
Proof.
  induction p as [|a p IH]; intro x; simpl.
  - reflexivity.
  - rewrite Ascii.eqb_refl. simpl. apply IH.
Qed.

Lemma chars_append : forall a b, chars (a ++ b) = (chars a ++ chars b)%list.
Proof.
  induction a as [|c a IH]; intro b; simpl.
  - reflexivity.
  - rewrite IH. reflexivity.
Qed.

Lemma prefix_append : forall p x, String.prefix p (p ++ x) = true.
Proof.
  induction p as [|c p IH]; intro x; simpl.
  - destruct x; reflexivity.
  - destruct (Ascii.ascii_dec c c) as [_|n]; [apply IH | exfalso; apply n; reflexivity].
Qed.

Lemma length_append : forall a b, String.length (a ++ b) = (String.length a + String.length b)%nat.
Proof.
  induction a as [|c a IH]; intro b; simpl.
  - reflexivity.
  - rewrite IH. reflexivity.
Qed.

(* `fits` accepts every string of the shape the f-string can produce (completeness of the pattern test:
   a code built as prefix ++ anything ++ suffix is never missed) *)
Lemma fits_complete : forall p m q, fits p q (p ++ m ++ q) = true.
Proof.
  intros p m q. unfold fits.
  rewrite prefix_append. simpl.
  assert (Hs : suffix q (p ++ m ++ q) = true).
  { unfold suffix. rewrite !chars_append, !rev_app_distr, <- app_assoc. apply chars_prefix_app. }
  rewrite Hs. simpl.
  rewrite !length_append. apply Nat.leb_le.
  rewrite (Nat.add_comm (String.length m)). rewrite Nat.add_assoc.
  apply Nat.le_add_r.
Qed.

(* ---- the tables themselves ---- *)
Lemma emitters_nonempty : (190 <=? List.length emitters)%nat = true.
Proof. vm_compute. reflexivity. Qed.

Lemma emitters_opaque_free : opaque_free = true.
Proof. vm_compute. reflexivity. Qed.

(* every pattern belongs to a recorded site with a dynamic code *)
Lemma patterns_are_sites :
  forallb (fun pt => existsb (fun x => same_place pt x && is_dynamic (site_code x)) emitters) emitter_patterns = true.
Proof. vm_compute. reflexivity. Qed.

(* the dynamic sites that have no pattern are exactly the forwarding shapes: the wrapper definitions
   (context.py, errors.py) and `errors.add(error)` of an Error built at a neighbouring recorded site *)
Definition wrapper_files : list string := ["norminette/context.py"; "norminette/errors.py"].
Lemma dynamic_sites_accounted :
  forallb (fun x => implb (is_dynamic (site_code x))
                      (existsb (String.eqb (site_file x)) wrapper_files
                       || String.eqb (site_code x) "<dynamic: error>"
                       || existsb (fun pt => same_place pt x) emitter_patterns)) emitters = true.
Proof. vm_compute. reflexivity. Qed.

Lemma levels_are_known :
  forallb (fun x => String.eqb (site_level x) "Error" || String.eqb (site_level x) "Notice"
                    || (String.eqb (site_level x) "<forwarded>"
                        && existsb (String.eqb (site_file x)) wrapper_files)) emitters = true.
Proof. vm_compute. reflexivity. Qed.

(* ---- INVALID_HEADER ---- *)
Lemma only_emitter_INVALID_HEADER : only_in "norminette/rules/check_header.py" "INVALID_HEADER" = true.
Proof. vm_compute. reflexivity. Qed.

(* ---- HEADER_PROT_* ---- *)
Definition string_of_str (x : str) : string := string_of_list_ascii (List.map ascii_of_N x).

Definition catalogue_keys : list str := List.map fst catalogue.

Definition header_prot_keys : list str := List.filter (starts_with (s "HEADER_PROT")) catalogue_keys.

Definition header_prot_codes : list string := List.map string_of_str header_prot_keys.

Example header_prot_codes_are :
  header_prot_codes = ["HEADER_PROT_ALL"; "HEADER_PROT_ALL_AF"; "HEADER_PROT_NAME"; "HEADER_PROT_UPPER";
                       "HEADER_PROT_MULT"; "HEADER_PROT_NODEF"].
Proof. vm_compute. reflexivity. Qed.

Lemma header_prot_codes_nonempty : (1 <=? List.length header_prot_codes)%nat = true.
Proof. vm_compute. reflexivity. Qed.

(* the conversion back to Coq strings loses nothing *)
Lemma header_prot_codes_roundtrip : List.map s header_prot_codes = header_prot_keys.
Proof. vm_compute. reflexivity. Qed.

Lemma only_emitter_HEADER_PROT :
  forallb (only_in "norminette/rules/check_preprocessor_protection.py") header_prot_codes = true.
Proof. vm_compute. reflexivity. Qed.

(* ---- lexical codes ---- *)
Definition lexer_file : string := "norminette/lexer/lexer.py".

Definition lexical_codes : list string :=
  ["NO_HEX_DIGITS"; "UNKNOWN_ESCAPE"; "UNEXPECTED_EOF_CHR"; "UNEXPECTED_EOL_CHR"; "EMPTY_CHAR"; "CHAR_AS_STRING";
   "UNEXPECTED_EOF_STR"; "MAXIMAL_MUNCH"; "INVALID_SUFFIX"; "INVALID_BIN_INT"; "INVALID_OCT_INT"; "INVALID_HEX_INT";
   "BAD_EXPONENT"; "MULTIPLE_X"; "MULTIPLE_DOTS"; "BAD_FLOAT_SUFFIX"; "UNEXPECTED_EOF_MC"; "BAD_LEXEME"].

Lemma only_emitter_lexical : forallb (only_in lexer_file) lexical_codes = true.
Proof. vm_compute. reflexivity. Qed.

Definition invalid_int_expansions : list string := ["INVALID_BIN_INT"; "INVALID_OCT_INT"; "INVALID_HEX_INT"].

Lemma lexical_codes_complete :
  (* every literal code of a site of lexer.py is listed *)
  forallb (fun x => implb (String.eqb (site_file x) lexer_file)
                      (is_dynamic (site_code x) || existsb (String.eqb (site_code x)) lexical_codes)) emitters = true
  (* every listed code is emitted by a site of lexer.py (literally or through the pattern) *)
  /\ forallb (fun c => existsb (fun x => String.eqb (site_file x) lexer_file && may_emit c x) emitters)
       lexical_codes = true
  (* the only pattern of lexer.py is INVALID_..._INT *)
  /\ List.filter (fun pt => String.eqb (site_file pt) lexer_file) emitter_patterns
     = [(lexer_file, "Lexer.parse_integer_literal._check_bad_prefix", "INVALID_", "_INT")]
  (* the listed codes that are not literal in lexer.py are exactly the three expansions of that pattern *)
  /\ List.filter (fun c => negb (existsb (fun x => String.eqb (site_file x) lexer_file
                                                  && String.eqb (site_code x) c) emitters)) lexical_codes
     = invalid_int_expansions.
Proof. repeat split; vm_compute; reflexivity. Qed.

(* ---- catalogue membership ---- *)
Definition in_catalogue (code : string) : bool := existsb (str_eqb (s code)) catalogue_keys.

(* FALSE on the pinned tree as first requested: three literal codes are passed
   to new_error (hence to Error.from_name, a dictionary lookup) without being keys of the catalogue.  The exact
   list of offending sites is pinned below, so a repair or a new offender both change the result. *)
Definition static_sites_missing_from_catalogue : list site :=
  List.filter (fun x => negb (is_dynamic (site_code x)) && negb (in_catalogue (site_code x))) emitters.

Example static_sites_missing_from_catalogue_are :
  static_sites_missing_from_catalogue
  = [("norminette/rules/check_brace.py", "CheckBrace.run", "EXPECTED_BRACE", "Error");
     ("norminette/rules/check_in_header.py", "CheckInHeader.run", "FORBIDDEN_IN_HEADER", "Error");
     ("norminette/rules/check_operators_spacing.py", "CheckOperatorsSpacing.check_prefix", "", "Error")].
Proof. vm_compute. reflexivity. Qed.

Definition codes_missing_from_catalogue : list string :=
  ["EXPECTED_BRACE"; "FORBIDDEN_IN_HEADER"; ""].

Lemma every_static_code_in_catalogue_partial :
  forallb (fun x => is_dynamic (site_code x) || existsb (String.eqb (site_code x)) codes_missing_from_catalogue
                    || in_catalogue (site_code x))
    emitters = true.
Proof. vm_compute. reflexivity. Qed.

(* every exception is real *)
Lemma codes_missing_from_catalogue_are_missing :
  forallb (fun c => negb (in_catalogue c)) codes_missing_from_catalogue = true.
Proof. vm_compute. reflexivity. Qed.

(* the statement with BAD_LEXEME as the only exception does not hold *)
Lemma every_static_code_in_catalogue_refuted :
  forallb (fun x => is_dynamic (site_code x) || String.eqb (site_code x) "BAD_LEXEME" || in_catalogue (site_code x))
    emitters = false.
Proof. vm_compute. reflexivity. Qed.

(* the former finding C08-bad-lexeme-not-in-catalogue is repaired: BAD_LEXEME is a key of the published catalogue, and the
   lexer model builds the diagnostic with from_name (catalogue text) *)
Lemma BAD_LEXEME_in_catalogue : in_catalogue "BAD_LEXEME" = true.
Proof. vm_compute. reflexivity. Qed.

(* exactly one site, in lexer.py *)
Lemma BAD_LEXEME_sites :
  List.filter (fun x => String.eqb (site_code x) "BAD_LEXEME") emitters
  = [(lexer_file, "Lexer.get_next_token", "BAD_LEXEME", "Error")].
Proof. vm_compute. reflexivity. Qed.

Lemma invalid_int_expansions_in_catalogue : forallb in_catalogue invalid_int_expansions = true.
Proof. vm_compute. reflexivity. Qed.

Lemma catalogue_nonempty : (100 <=? List.length catalogue_keys)%nat = true.
Proof. vm_compute. reflexivity. Qed.

(* non-vacuity of the negative side of only_in: a code emitted in two files is refused for either *)
Example only_in_refuses_shared_code :
  existsb (fun x => negb (is_dynamic (site_code x)) && negb (only_in (site_file x) (site_code x))) emitters = true.
Proof. vm_compute. reflexivity. Qed.

Example only_in_refuses_absent_code : only_in "norminette/rules/check_header.py" "HEADER_PROT_ALL" = false.
Proof. vm_compute. reflexivity. Qed.

Example only_in_refuses_unknown_code : only_in "norminette/rules/check_header.py" "NO_SUCH_CODE" = false.
Proof. vm_compute. reflexivity. Qed.

Print Assumptions only_emitter_INVALID_HEADER.
Print Assumptions only_emitter_HEADER_PROT.
Print Assumptions only_emitter_lexical.
Print Assumptions lexical_codes_complete.
Print Assumptions every_static_code_in_catalogue_partial.
Print Assumptions static_sites_missing_from_catalogue_are.
Print Assumptions fits_complete.
