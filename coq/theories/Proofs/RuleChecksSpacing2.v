(* CheckSpacing: theorems for the patterns of W01 (trailing space), W14 (two spaces), W15 (space before tab) at ANY
   position of the statement, from the landing lemma. *)
From NV Require Import Model.Base Model.RuleChecks Gen.RuleChecks Proofs.StrOrder Proofs.RuleChecksProofs Proofs.RuleChecksProofs2 Proofs.RuleChecksSpacing Proofs.RuleChecksSpacing3 Proofs.SpacingTotal.
From Coq Require Import Lia.
Local Open Scope Z_scope.

Ltac sp_step' H :=
  match type of H with
  | (if ?c then _ else _) = _ => let Q := fresh "Q" in destruct c eqn:Q
  | need_tok ?o _ = _ => let Q := fresh "Q" in destruct o eqn:Q; cbn [need_tok] in H |- *
  | bind (emit _ ?o _) _ = _ => let Q := fresh "Q" in destruct o eqn:Q; cbn [emit bind] in H |- *
  end.

Section Patterns.
  Variables (toks : list token) (scope : Z) (i : Z) (ts : token).
  Hypothesis Hi : 0 <= i < slice_len toks scope.
  Hypothesis Hts : peek toks i = Some ts.
  Hypothesis Hty : t_type ts = ty_space.
  Hypothesis Hprev : 0 < i -> truthy (check1 toks (i - 1) ty_space) = false.

  Lemma skip_ws_gt : truthy (checkl toks i ws_no_nl) = true -> i < skip_ws toks i.
  Proof.
    intros H. unfold skip_ws, skip_while, loop_fuel. remember (S (2 * Datatypes.length toks)) as f0. cbn [skip_while_f]. rewrite H.
    pose proof (skip_while_f_ge f0 (fun i0 => truthy (checkl toks i0 ws_no_nl)) (i + 1)). lia.
  Qed.

  (* W01: a SPACE that is not in column 1, not preceded by another SPACE nor by a brace, whose run of blanks ends the line *)
  Theorem check_spacing_trailing_space v h1 rest E v' :
    v_history v = h1 :: rest -> str_in h1 spacing_skipped = false ->
    t_col ts <> 1 ->
    truthy (checkl toks (i - 1) [s "LBRACE"; s "RBRACE"]) = false ->
    truthy (check1 toks (skip_ws toks i) (s "NEWLINE")) = true ->
    check_spacing toks scope v = Ok (E, v') -> In (s "SPC_BEFORE_NL", t_line ts, t_col ts) E.
  Proof.
    intros Hh Hs Hc Hb Hnl H. unfold check_spacing in H. cbv zeta in H. unfold hist_back in H. rewrite Hh in H.
    cbn [Nat.sub nth_error need_hist] in H. fold spacing_skipped in H. rewrite Hs in H.
    destruct (check_spacing_loop1 (loop_fuel toks) toks scope 0 false false [] v) as [[[[[i1 a1] b1] E1] v1]| | |] eqn:L;
      cbn [bind] in H; try discriminate. inversion H; subst E1 v1. clear H.
    destruct (spacing_lands toks scope i ts Hi Hts Hty Hprev _ _ _ _ _ _ _ (conj (Z.le_refl 0) (proj1 Hi)) L) as [fuel' [a' [b' [E' [X [L1 _]]]]]].
    rewrite L1 in L. clear L1.
    assert (Hr : in_range0 i (zlen (py_slice_to toks scope)) = true).
    { unfold in_range0. fold (slice_len toks scope). apply andb_true_iff. split; [apply Z.leb_le|apply Z.ltb_lt]; lia. }
    assert (Hgt : (skip_ws toks i =? i) = false).
    { apply Z.eqb_neq. assert (i < skip_ws toks i); [|lia]. apply skip_ws_gt. rewrite (checkl_some _ _ _ _ Hts), Hty. reflexivity. }
    assert (Hc1 : (t_col ts =? 1) = false) by (apply Z.eqb_neq; exact Hc).
    cbn [check_spacing_loop1] in L. cbv zeta in L. fold ty_space in L. rewrite Hr in L.
    rewrite (check1_some _ _ _ _ Hts), Hty, str_eqb_refl in L. cbn [truthy] in L.
    rewrite Hts in L. cbn [need_tok] in L. rewrite Hc1, Hgt, Hnl, Hb in L. cbn [negb andb] in L.
    repeat sp_step' L; try discriminate; apply spacing_loop_mono in L as [_ [Y ->]];
      repeat match goal with Q : Some _ = Some _ |- _ => inversion Q; subst; clear Q end;
      rewrite ?in_app_iff; cbn [In]; auto 12.
  Qed.

  Lemma flags_inv_init : flags_inv false false [].
  Proof. split; discriminate. Qed.

  (* common start: the run reaches position i with the flag invariant *)
  Lemma spacing_reaches v h1 rest E v' :
    v_history v = h1 :: rest -> str_in h1 spacing_skipped = false ->
    check_spacing toks scope v = Ok (E, v') ->
    exists fuel' a' b' E' i1 a1 b1, flags_inv a' b' E' /\
      check_spacing_loop1 (S fuel') toks scope i a' b' E' v = Ok (i1, a1, b1, E, v').
  Proof.
    intros Hh Hs H. unfold check_spacing in H. cbv zeta in H. unfold hist_back in H. rewrite Hh in H.
    cbn [Nat.sub nth_error need_hist] in H. fold spacing_skipped in H. rewrite Hs in H.
    destruct (check_spacing_loop1 (loop_fuel toks) toks scope 0 false false [] v) as [[[[[i1 a1] b1] E1] v1]| | |] eqn:L;
      cbn [bind] in H; try discriminate. inversion H; subst E1 v1. clear H.
    destruct (spacing_lands_flags toks scope i ts Hi Hts Hty Hprev _ _ _ _ _ _ _ (conj (Z.le_refl 0) (proj1 Hi)) flags_inv_init L)
      as [fuel' [a' [b' [E' [X [L1 [_ Hinv]]]]]]].
    rewrite L1 in L. exists fuel', a', b', E', i1, a1, b1. split; [exact Hinv|exact L].
  Qed.

  (* W14: SPACE SPACE (the first one not in column 1 and not after another SPACE): CONSECUTIVE_SPC is reported at the first
     space, unless the statement already got one for an earlier pair (the diagnostic is given once per statement) *)
  Theorem check_spacing_double_space v h1 rest E v' :
    v_history v = h1 :: rest -> str_in h1 spacing_skipped = false ->
    t_col ts <> 1 -> truthy (check1 toks (i + 1) ty_space) = true ->
    check_spacing toks scope v = Ok (E, v') ->
    In (s "CONSECUTIVE_SPC", t_line ts, t_col ts) E \/ has_code (s "CONSECUTIVE_SPC") E.
  Proof.
    intros Hh Hs Hc Hn H. destruct (spacing_reaches _ _ _ _ _ Hh Hs H) as [fuel' [a' [b' [E' [i1 [a1 [b1 [[HA HB] L]]]]]]]].
    assert (Hr : in_range0 i (zlen (py_slice_to toks scope)) = true).
    { unfold in_range0. fold (slice_len toks scope). apply andb_true_iff. split; [apply Z.leb_le|apply Z.ltb_lt]; lia. }
    assert (Hc1 : (t_col ts =? 1) = false) by (apply Z.eqb_neq; exact Hc).
    cbn [check_spacing_loop1] in L. cbv zeta in L. fold ty_space in L. rewrite Hr in L.
    rewrite (check1_some _ _ _ _ Hts), Hty, str_eqb_refl in L. cbn [truthy] in L.
    rewrite Hts in L. cbn [need_tok] in L. rewrite Hc1, Hn in L. replace (i + 1 - 1) with i in L by lia. rewrite Hts in L.
    destruct b'.
    - right. destruct (HB eq_refl) as [l [c Hin]]. exists l, c.
      cbn [negb] in L. repeat sp_step' L; try discriminate; apply spacing_loop_mono in L as [_ [Y ->]];
        rewrite ?in_app_iff; auto 12.
    - left. cbn [negb] in L. repeat sp_step' L; try discriminate; apply spacing_loop_mono in L as [_ [Y ->]];
        repeat match goal with Q : Some _ = Some _ |- _ => inversion Q; subst; clear Q end;
        rewrite ?in_app_iff; cbn [In]; auto 12.
  Qed.

  (* W15: SPACE TAB (the space not in column 1, not after another SPACE): MIXED_SPACE_TAB at the space, or already given *)
  Theorem check_spacing_space_tab v h1 rest E v' :
    v_history v = h1 :: rest -> str_in h1 spacing_skipped = false ->
    t_col ts <> 1 -> truthy (check1 toks (i + 1) (s "TAB")) = true ->
    check_spacing toks scope v = Ok (E, v') ->
    In (s "MIXED_SPACE_TAB", t_line ts, t_col ts) E \/ has_code (s "MIXED_SPACE_TAB") E.
  Proof.
    intros Hh Hs Hc Hn H. destruct (spacing_reaches _ _ _ _ _ Hh Hs H) as [fuel' [a' [b' [E' [i1 [a1 [b1 [[HA HB] L]]]]]]]].
    assert (Hr : in_range0 i (zlen (py_slice_to toks scope)) = true).
    { unfold in_range0. fold (slice_len toks scope). apply andb_true_iff. split; [apply Z.leb_le|apply Z.ltb_lt]; lia. }
    assert (Hc1 : (t_col ts =? 1) = false) by (apply Z.eqb_neq; exact Hc).
    assert (Hns : truthy (check1 toks (i + 1) ty_space) = false).
    { unfold check1 in Hn |- *. destruct (peek toks (i + 1)) as [t|]; [|reflexivity]. cbn [truthy] in Hn |- *.
      destruct (str_eqb (t_type t) (s "TAB")) eqn:Q; [|discriminate]. apply str_eqb_eq in Q. rewrite Q. reflexivity. }
    cbn [check_spacing_loop1] in L. cbv zeta in L. fold ty_space in L. rewrite Hr in L.
    rewrite (check1_some _ _ _ _ Hts), Hty, str_eqb_refl in L. cbn [truthy] in L.
    rewrite Hts in L. cbn [need_tok] in L. rewrite Hc1, Hns, Hn in L. replace (i + 1 - 1) with i in L by lia. rewrite Hts in L.
    (* the flag at this point is a' or was just set by the TAB-before-SPACE test *)
    repeat sp_step' L; try discriminate; apply spacing_loop_mono in L as [_ [Y ->]];
      repeat match goal with Q : Some _ = Some _ |- _ => inversion Q; subst; clear Q end;
      first [ left; rewrite ?in_app_iff; cbn [In]; solve [auto 12]
            | right; unfold has_code; do 2 eexists; rewrite ?in_app_iff; cbn [In]; solve [auto 14]
            | right; destruct a'; [destruct (HA eq_refl) as [l [c Hin]]; exists l, c; rewrite ?in_app_iff; solve [auto 12]|discriminate] ].
  Qed.

  (* ---- with CheckSpacing total on what the registry passes (Proofs/SpacingTotal.v), the same three without the hypothesis
     that the check returned normally *)
  Hypothesis Hscope : 0 <= scope.

  Theorem check_spacing_trailing_space_total v h1 rest :
    v_history v = h1 :: rest -> str_in h1 spacing_skipped = false ->
    t_col ts <> 1 ->
    truthy (checkl toks (i - 1) [s "LBRACE"; s "RBRACE"]) = false ->
    truthy (check1 toks (skip_ws toks i) (s "NEWLINE")) = true ->
    exists E v', check_spacing toks scope v = Ok (E, v') /\ In (s "SPC_BEFORE_NL", t_line ts, t_col ts) E.
  Proof.
    intros Hh Hs Hc Hb Hnl. destruct (check_spacing_total toks scope Hscope v) as [[E v'] R]; [rewrite Hh; discriminate|].
    exists E, v'. split; [exact R|]. eapply check_spacing_trailing_space; eassumption.
  Qed.

  Theorem check_spacing_double_space_total v h1 rest :
    v_history v = h1 :: rest -> str_in h1 spacing_skipped = false ->
    t_col ts <> 1 -> truthy (check1 toks (i + 1) ty_space) = true ->
    exists E v', check_spacing toks scope v = Ok (E, v') /\
      (In (s "CONSECUTIVE_SPC", t_line ts, t_col ts) E \/ has_code (s "CONSECUTIVE_SPC") E).
  Proof.
    intros Hh Hs Hc Hn. destruct (check_spacing_total toks scope Hscope v) as [[E v'] R]; [rewrite Hh; discriminate|].
    exists E, v'. split; [exact R|]. eapply check_spacing_double_space; eassumption.
  Qed.

  Theorem check_spacing_space_tab_total v h1 rest :
    v_history v = h1 :: rest -> str_in h1 spacing_skipped = false ->
    t_col ts <> 1 -> truthy (check1 toks (i + 1) (s "TAB")) = true ->
    exists E v', check_spacing toks scope v = Ok (E, v') /\
      (In (s "MIXED_SPACE_TAB", t_line ts, t_col ts) E \/ has_code (s "MIXED_SPACE_TAB") E).
  Proof.
    intros Hh Hs Hc Hn. destruct (check_spacing_total toks scope Hscope v) as [[E v'] R]; [rewrite Hh; discriminate|].
    exists E, v'. split; [exact R|]. eapply check_spacing_space_tab; eassumption.
  Qed.
End Patterns.

(* W05 on the first line of a statement, without the hypothesis that the check returned normally *)
Theorem check_spacing_leading_space_total toks scope v h1 rest ts t1 :
  0 <= scope -> v_history v = h1 :: rest -> str_in h1 spacing_skipped = false ->
  peek toks 0 = Some ts -> t_type ts = ty_space -> t_col ts = 1 -> 0 < slice_len toks scope ->
  peek toks (after_spaces toks scope) = Some t1 ->
  exists E v', check_spacing toks scope v = Ok (E, v') /\
    In ((if truthy (check1 toks (after_spaces toks scope + 1) (s "NEWLINE")) then s "SPACE_EMPTY_LINE" else s "SPACE_REPLACE_TAB"),
        t_line t1, t_col t1) E.
Proof.
  intros Hsc Hh Hs H0 Hty Hc Hr H1. destruct (check_spacing_total toks scope Hsc v) as [[E v'] R]; [rewrite Hh; discriminate|].
  exists E, v'. split; [exact R|]. eapply check_spacing_leading_space; eassumption.
Qed.

