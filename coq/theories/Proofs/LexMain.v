(* The tokenizer as a whole: termination (the fuel is never exhausted), tiling of the input by the
   recorded spans, and C09 - every token carries the true position of its first raw character. *)
From NV Require Import Model.Base Model.Diag Model.Lexer Model.NumRe Spec.TruePos Spec.Normalise Spec.LexProps
  Proofs.StrOrder Proofs.LexInv Proofs.LexInv2.
From Coq Require Import Lia.

Local Open Scope Z_scope.

Lemma wf_init src : wf src (init src).
Proof. exists []. cbn. repeat split. Qed.

Lemma wf_true_pos src x : wf src x -> true_pos src (off x) = (line x, col x).
Proof.
  intros [pre [H1 [H2 H3]]]. unfold true_pos. rewrite H1, H2, firstn_app_exact. now rewrite H3.
Qed.

Section Main.
  Variable uw ud : N -> bool.
  Variable src : str.

  Lemma lex_loop_no_hang : forall fuel x acc, wf src x -> (List.length (rest x) < fuel)%nat ->
    lex_loop uw ud fuel x acc <> Hang.
  Proof.
    induction fuel as [|fuel IH]; intros x acc Hw Hf; [lia|]. cbn [lex_loop].
    pose proof (step_post_holds src uw ud x Hw) as H.
    destruct (step uw ud x) as [|i x'|e]; [discriminate| |discriminate].
    cbn in H. destruct H as [Hw' [Ho _]]. apply IH; [assumption|].
    pose proof (wf_len _ _ Hw). pose proof (wf_len _ _ Hw'). lia.
  Qed.

  Theorem lex_no_hang : lex uw ud src <> Hang.
  Proof. unfold lex. apply lex_loop_no_hang; [apply wf_init|cbn; lia]. Qed.

  Lemma lex_loop_spec : forall fuel x acc items xf, wf src x ->
    lex_loop uw ud fuel x acc = Ok (items, xf) ->
    exists new, items = rev acc ++ new /\ spans_tile new (off x) (List.length src) = true /\
                c09_ok src new = true /\ wf src xf /\ rest xf = [].
  Proof.
    induction fuel as [|fuel IH]; intros x acc items xf Hw; cbn [lex_loop]; [discriminate|].
    pose proof (step_post_holds src uw ud x Hw) as H.
    destruct (step uw ud x) as [|i x'|e]; [| |discriminate].
    - intros E; inversion E; subst. exists []. cbn in H. rewrite app_nil_r.
      repeat split; try assumption. cbn. apply Nat.eqb_eq. pose proof (wf_len _ _ Hw). rewrite H in H0. cbn in H0. lia.
    - cbn in H. destruct H as [Hw' [Ho [Hlo [Hhi Hpos]]]]. intros E.
      destruct (IH x' (i :: acc) items xf Hw' E) as [new [H1 [H2 [H3 [H4 H5]]]]].
      exists (i :: new). cbn [rev] in H1. rewrite <- app_assoc in H1. cbn in H1.
      split; [exact H1|]. split.
      + cbn [spans_tile]. rewrite Hlo, Hhi, Nat.eqb_refl. cbn [andb].
        replace (Nat.ltb (off x) (off x')) with true by (symmetry; apply Nat.ltb_lt; lia). exact H2.
      + split; [|split; assumption]. unfold c09_ok. cbn [forallb]. fold (c09_ok src new). rewrite H3, andb_true_r.
        destruct i as [t lo hi|lo|lo hi]; cbn [c09_item_ok]; try reflexivity.
        cbn [item_lo] in Hlo. subst lo. unfold c09_tok_ok. rewrite (wf_true_pos _ _ Hw).
        destruct Hpos as [-> ->]. now rewrite !Z.eqb_refl.
  Qed.

  (* C09 + the tiling half of C10, for every input string *)
  Theorem lex_positions_and_tiling items xf : lex uw ud src = Ok (items, xf) ->
    spans_tile items 0 (List.length src) = true /\ c09_ok src items = true /\ rest xf = [] /\ off xf = List.length src.
  Proof.
    unfold lex. intros E.
    destruct (lex_loop_spec _ _ _ _ _ (wf_init src) E) as [new [H1 [H2 [H3 [H4 H5]]]]].
    cbn in H1. subst items. repeat split; try assumption.
    pose proof (wf_len _ _ H4). rewrite H5 in H. cbn in H. lia.
  Qed.
End Main.
