(* The tokenizer as a whole: termination (the fuel is never exhausted), tiling of the input by the
   recorded spans, and C09 - every token carries the true position of its first raw character. *)
From NV Require Import Model.Base Model.Diag Model.Lexer Model.NumRe Spec.TruePos Spec.Normalise Spec.LexProps
  Proofs.StrOrder Proofs.LexInv Proofs.LexInv2.
From Coq Require Import Lia.

Local Open Scope Z_scope.

Lemma wf_init src : wf (src, []) (init src).
Proof. split; [exists []; cbn; repeat split|exists []; reflexivity]. Qed.

Lemma wf_true_pos src x : wf src x -> true_pos (fst src) (off x) = (line x, col x).
Proof.
  intros [[pre [H1 [H2 H3]]] _]. unfold true_pos. rewrite H1, H2, firstn_app_exact. now rewrite H3.
Qed.

(* the same state is well formed relative to its own diagnostics *)
Lemma wf_rebase src E x : wf (src, E) x -> wf (src, errs x) x.
Proof. intros [H _]. split; [exact H|exists []; reflexivity]. Qed.

Section Main.
  Variable uw ud : N -> bool.
  Variable src : str.

  Lemma lex_loop_no_hang : forall fuel E x acc, wf (src, E) x -> (List.length (rest x) < fuel)%nat ->
    lex_loop uw ud fuel x acc <> Hang.
  Proof.
    induction fuel as [|fuel IH]; intros E x acc Hw Hf; [lia|]. cbn [lex_loop].
    pose proof (step_post_holds (src, E) uw ud x Hw) as H.
    destruct (step uw ud x) as [|i x'|e]; [discriminate| |discriminate].
    cbn in H. destruct H as [Hw' [Ho _]]. apply (IH E); [assumption|].
    pose proof (wf_len _ _ Hw). pose proof (wf_len _ _ Hw'). cbn [fst] in *. lia.
  Qed.

  Theorem lex_no_hang : lex uw ud src <> Hang.
  Proof. unfold lex. apply (lex_loop_no_hang _ []); [apply wf_init|cbn; lia]. Qed.

  (* a bad-lexeme step records its diagnostic *)
  Lemma step_bad_records E x lo x' : wf (src, E) x -> step uw ud x = StepItem (IBad lo) x' ->
    exists d hint, In d (errs x') /\ d_name d = s "BAD_LEXEME" /\
              d_hls d = [mkhl (line x) (col x) (Some 1) hint].
  Proof.
    intros Hw. unfold step. destruct (rest x) as [|c r].
    - destruct (try_parsers uw ud parsers x); discriminate.
    - destruct (at_splice (c :: r)).
      + destruct (peek1 (c :: r)) as [[? ?]|]; discriminate.
      + destruct (try_parsers uw ud parsers x); try discriminate.
        cbv zeta. intros H; inversion H; subst. eexists. eexists. split; [left; reflexivity|]. split; reflexivity.
  Qed.

  Lemma wf_skipn E x : wf (src, E) x -> skipn (off x) src = rest x.
  Proof.
    intros [[pre [H1 [H2 _]]] _]. cbn [fst] in H1. rewrite H1, H2.
    rewrite skipn_app, skipn_all, Nat.sub_diag. reflexivity.
  Qed.

  (* a skip step consumed exactly one line splice *)
  Lemma step_skip_splice E x lo hi x' : wf (src, E) x -> step uw ud x = StepItem (ISkip lo hi) x' ->
    is_splice (sub src lo hi) = true.
  Proof.
    intros Hw. unfold step. destruct (rest x) as [|c r] eqn:Er.
    - destruct (try_parsers uw ud parsers x); discriminate.
    - destruct (at_splice (c :: r)) eqn:Es.
      + destruct (at_splice_cases _ Es) as [[r' Ec]|[r' Ec]]; rewrite Ec.
        * rewrite peek1_splice1. intros H; inversion H; subst. unfold sub. cbn [advance set_pos off].
          replace (off x + 2 - off x)%nat with 2%nat by lia. rewrite (wf_skipn _ _ Hw), Er, Ec. reflexivity.
        * rewrite peek1_splice2. intros H; inversion H; subst. unfold sub. cbn [advance set_pos off].
          replace (off x + 4 - off x)%nat with 4%nat by lia. rewrite (wf_skipn _ _ Hw), Er, Ec. reflexivity.
      + destruct (try_parsers uw ud parsers x); discriminate.
  Qed.

  Definition item_reported (ds : list diag) (i : item) : bool :=
    match i with
    | IBad lo => bad_reported src ds lo
    | ISkip lo hi => is_splice (sub src lo hi)
    | ITok _ _ _ => true
    end.

  Lemma lex_loop_spec : forall fuel E x acc items xf, wf (src, E) x ->
    lex_loop uw ud fuel x acc = Ok (items, xf) ->
    exists new, items = rev acc ++ new /\ spans_tile new (off x) (List.length src) = true /\
                c09_ok src new = true /\ wf (src, E) xf /\ rest xf = [] /\
                forallb (item_reported (errs xf)) new = true.
  Proof.
    induction fuel as [|fuel IH]; intros E x acc items xf Hw; cbn [lex_loop]; [discriminate|].
    pose proof (step_post_holds (src, E) uw ud x Hw) as H.
    destruct (step uw ud x) as [|i x'|e] eqn:Est; [| |discriminate].
    - intros Eq; inversion Eq; subst. exists []. cbn in H. rewrite app_nil_r.
      repeat split; try assumption; try reflexivity; try (destruct Hw; assumption).
      cbn. apply Nat.eqb_eq. pose proof (wf_len _ _ Hw). rewrite H in H0. cbn in H0. lia.
    - cbn in H. destruct H as [Hw' [Ho [Hlo [Hhi Hpos]]]]. intros Eq.
      destruct (IH E x' (i :: acc) items xf Hw' Eq) as [new [H1 [H2 [H3 [H4 [H5 H6]]]]]].
      exists (i :: new). cbn [rev] in H1. rewrite <- app_assoc in H1. cbn in H1.
      split; [exact H1|]. split.
      { cbn [spans_tile]. rewrite Hlo, Hhi, Nat.eqb_refl. cbn [andb].
        replace (Nat.ltb (off x) (off x')) with true by (symmetry; apply Nat.ltb_lt; lia). exact H2. }
      split.
      { unfold c09_ok. cbn [forallb]. fold (c09_ok src new). rewrite H3, andb_true_r.
        destruct i as [t lo hi|lo|lo hi]; cbn [c09_item_ok]; try reflexivity.
        cbn [item_lo] in Hlo. subst lo. unfold c09_tok_ok.
        pose proof (wf_true_pos _ _ Hw) as Htp. cbn [fst] in Htp. rewrite Htp.
        destruct Hpos as [-> ->]. now rewrite !Z.eqb_refl. }
      split; [exact H4|]. split; [exact H5|].
      cbn [forallb]. rewrite H6, andb_true_r.
      destruct i as [t lo hi|lo|lo hi]; cbn [item_reported]; try reflexivity;
        [|exact (step_skip_splice E x lo hi x' Hw Est)].
      (* the diagnostic recorded by this step is still there at the end *)
      destruct (step_bad_records E x lo x' Hw Est) as [d [hint [Hd [Hn Hh]]]].
      destruct (IH (errs x') x' (IBad lo :: acc) items xf (wf_rebase _ _ _ Hw') Eq) as [_ [_ [_ [_ [[_ [nw Hext]] _]]]]].
      cbn [snd] in Hext. unfold bad_reported. cbn [item_lo] in Hlo. subst lo.
      pose proof (wf_true_pos _ _ Hw) as Htp. cbn [fst] in Htp. rewrite Htp.
      apply existsb_exists. exists d. split; [rewrite Hext; apply in_or_app; now right|].
      rewrite Hn, Hh. cbn. rewrite !Z.eqb_refl. reflexivity.
  Qed.

  (* C09, the tiling half of C10 and "no character is silently discarded", for every input string *)
  Theorem lex_positions_and_tiling items xf : lex uw ud src = Ok (items, xf) ->
    spans_tile items 0 (List.length src) = true /\ c09_ok src items = true /\ rest xf = [] /\
    off xf = List.length src /\ forallb (item_reported (errs xf)) items = true.
  Proof.
    unfold lex. intros E.
    destruct (lex_loop_spec _ _ _ _ _ _ (wf_init src) E) as [new [H1 [H2 [H3 [H4 [H5 H6]]]]]].
    cbn in H1. subst items. repeat split; try assumption.
    pose proof (wf_len _ _ H4). rewrite H5 in H. cbn in H. lia.
  Qed.
End Main.
