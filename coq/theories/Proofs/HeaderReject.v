(* C13, reject direction at FILE level: source text -> tokenizer model -> statement turns -> generated CheckHeader
   machine.  A file that begins with k >= 1 one-line block comments whose text is not a header (a template line removed,
   a frame of the wrong width, a keyword line replaced) and goes on with a statement that is recognised and does not
   begin with a block comment gets exactly one INVALID_HEADER; so does a file whose first token is not a block comment
   (no header, code / empty line / // comment first).  The oracle of the primaries is arbitrary except for `induced`. *)
From NV Require Import Model.Base Model.Diag Model.Lexer Model.RuleChecks Model.EngineTok0 Model.Engine Model.RegistryOrder
  Gen.Registry Gen.IsComment Model.EngineTok
  Model.HeaderRe Model.HeaderState Gen.HeaderRe Gen.HeaderSM Model.Header Proofs.HeaderReProofs Proofs.HeaderProofs
  Proofs.LineShift Proofs.LineShiftCor Proofs.CommentLines Proofs.HeaderLex Proofs.HeaderTurns.
From Coq Require Import Lia.

Local Open Scope Z_scope.

Definition diag_count (evs : list hevent) : nat := count_code INVALID_HEADER (run_from ctx_init evs).

(* the first token (if any) is not a block comment *)
Definition first_tok_not_block (ts : list token) : bool :=
  match ts with t :: _ => negb (str_eqb (t_type t) MULT_COMMENT) | [] => true end.

Lemma event_not_block name ts : first_tok_not_block ts = true -> is_block_ev (event_of name ts) = false.
Proof.
  unfold is_block_ev, event_of. destruct ts as [|t ts]; cbn [first_tok_not_block ev_rule ev_tok_type]; intros H.
  - rewrite andb_false_r. reflexivity.
  - apply negb_true_iff in H. change Model.Header.MULT_COMMENT with MULT_COMMENT. rewrite H, andb_false_r. reflexivity.
Qed.

Lemma comment_tokens_length : forall bs o l, List.length (tokens_of (comment_items o l bs)) = (2 * List.length bs)%nat.
Proof.
  induction bs as [|b bs IH]; intros o l; [reflexivity|]. cbn [comment_items]. unfold tokens_of in *. cbn [flat_map app List.length].
  rewrite IH. lia.
Qed.

Lemma ce_blocks : forall bs, forallb is_block_ev (map ce bs) = true.
Proof. induction bs; cbn [map forallb]; auto. Qed.
Lemma ce_values : forall bs, map ev_tok_value (map ce bs) = map comment_text bs.
Proof. induction bs as [|b bs IH]; cbn [map]; [reflexivity|]. rewrite IH. reflexivity. Qed.
Lemma lines_text_comment_lines : forall bs, lines_text (map comment_text bs) = comment_lines bs.
Proof. reflexivity. Qed.

(* ------------------------------------------------------------------ token level *)
(* k comment lines that are not a header, then a recognised statement that does not begin with a block comment *)
Theorem tokens_reject_lines : forall oracle bs o l X name jmp m,
  induced oracle (tokens_of (comment_items o l bs) ++ X) -> bs <> [] ->
  oracle (List.length bs) = Matched name jmp -> first_tok_not_block X = true ->
  ~ searches header_re (comment_lines bs) ->
  diag_count (events_upto oracle (tokens_of (comment_items o l bs) ++ X) (List.length bs + S m)) = 1%nat.
Proof.
  intros oracle bs o l X name jmp m Hind Hne Ho HX Hn.
  rewrite (comment_events oracle bs o l X Hind (S m)). cbn [events_range]. rewrite Ho.
  destruct (comment_turns oracle bs o l X Hind (List.length bs)) as [Hr _]; [lia|]. rewrite Hr.
  rewrite <- (comment_tokens_length bs o l), skipn_app, skipn_all, Nat.sub_diag. cbn [skipn app].
  destruct bs as [|b0 bs']; [congruence|]. cbn [map].
  apply (reject_text (ce b0) (map ce bs') (event_of name X)).
  - apply (ce_blocks (b0 :: bs')).
  - apply event_not_block. exact HX.
  - change (ce b0 :: map ce bs') with (map ce (b0 :: bs')). rewrite ce_values, lines_text_comment_lines. exact Hn.
Qed.

(* the first statement is recognised and does not begin with a block comment (no header at all) *)
Theorem tokens_reject_first : forall oracle T name jmp m,
  oracle 0%nat = Matched name jmp -> first_tok_not_block T = true ->
  diag_count (events_upto oracle T (S m)) = 1%nat.
Proof.
  intros oracle T name jmp m Ho HT. unfold events_upto. cbn [events_range remaining]. rewrite Ho. cbn [app].
  apply (reject_first_not_block (event_of name T)). apply event_not_block. exact HT.
Qed.

(* ------------------------------------------------------------------ file level *)
Lemma first_tok_sh k d items :
  first_tok_not_block (tokens_of (map (sh_item k d) items)) = first_tok_not_block (tokens_of items).
Proof. rewrite tokens_of_sh. destruct (tokens_of items) as [|t ts]; reflexivity. Qed.

Theorem file_reject_lines : forall uw ud bs src items xf items' xf' oracle name jmp m,
  forallb body_ok bs = true -> bs <> [] -> ~ searches header_re (comment_lines bs) ->
  lex uw ud src = Ok (items, xf) -> first_tok_not_block (tokens_of items) = true ->
  lex uw ud (comment_lines bs ++ src) = Ok (items', xf') ->
  induced oracle (tokens_of items') -> oracle (List.length bs) = Matched name jmp ->
  diag_count (events_upto oracle (tokens_of items') (List.length bs + S m)) = 1%nat.
Proof.
  intros uw ud bs src items xf items' xf' oracle name jmp m Hb Hne Hn Hsrc Hft Hfile Hind Ho.
  rewrite (lex_comment_lines_then_text uw ud bs src items xf Hb Hsrc) in Hfile.
  apply (f_equal (fun r : outcome (list item * st) => match r with Ok (i, _) => i | _ => [] end)) in Hfile.
  cbv beta iota in Hfile. subst items'. rewrite tokens_of_app in *.
  apply (tokens_reject_lines oracle bs 0%nat 1 _ name jmp m Hind Hne Ho); [|exact Hn].
  rewrite first_tok_sh. exact Hft.
Qed.

Theorem file_reject_first : forall uw ud file items' xf' oracle name jmp m,
  lex uw ud file = Ok (items', xf') -> first_tok_not_block (tokens_of items') = true ->
  oracle 0%nat = Matched name jmp ->
  diag_count (events_upto oracle (tokens_of items') (S m)) = 1%nat.
Proof. intros uw ud file items' xf' oracle name jmp m _ Hft Ho. exact (tokens_reject_first oracle _ name jmp m Ho Hft). Qed.

(* ------------------------------------------------------------------ the mutated headers are comment lines *)
Lemma map_remove_nth {A B} (g : A -> B) : forall k l, map g (remove_nth k l) = remove_nth k (map g l).
Proof. intros k l. revert k. induction l as [|a l IH]; intros k; destruct k; cbn [remove_nth map]; auto. rewrite IH. reflexivity. Qed.
Lemma map_replace_nth {A B} (g : A -> B) : forall k x l, map g (replace_nth k x l) = replace_nth k (g x) (map g l).
Proof. intros k x l. revert k. induction l as [|a l IH]; intros k; destruct k; cbn [replace_nth map]; auto. rewrite IH. reflexivity. Qed.
Lemma forallb_remove_nth {A} (p : A -> bool) : forall k l, forallb p l = true -> forallb p (remove_nth k l) = true.
Proof.
  intros k l. revert k. induction l as [|a l IH]; intros k H; destruct k; cbn [remove_nth forallb] in *; auto;
    apply andb_prop in H; destruct H as [H1 H2]; auto. rewrite H1. cbn [andb]. auto.
Qed.
Lemma forallb_replace_nth {A} (p : A -> bool) : forall k x l, p x = true -> forallb p l = true -> forallb p (replace_nth k x l) = true.
Proof.
  intros k x l Hx. revert k. induction l as [|a l IH]; intros k H; destruct k; cbn [replace_nth forallb] in *; auto;
    apply andb_prop in H; destruct H as [H1 H2]; [rewrite Hx|rewrite H1]; cbn [andb]; auto.
Qed.

Lemma hm6_is_comment_lines j f : lines_text (hm6_lines j f) = comment_lines (remove_nth j (template_mids f)).
Proof. unfold hm6_lines, template, comment_lines, text_of_lines, lines_text. rewrite <- map_remove_nth. reflexivity. Qed.
Lemma hm7_is_comment_lines last n f :
  lines_text (hm7_lines last n f) = comment_lines (replace_nth (if last then 10 else 0)%nat (frame_mid n) (template_mids f)).
Proof. unfold hm7_lines, template, comment_lines, text_of_lines, lines_text. rewrite (map_replace_nth comment_text). reflexivity. Qed.
Lemma hm8_is_comment_lines k x f :
  lines_text (hm8_lines k x f) = comment_lines (replace_nth k (mid_of x (art_of k)) (template_mids f)).
Proof. unfold hm8_lines, template, comment_lines, text_of_lines, lines_text. rewrite (map_replace_nth comment_text). reflexivity. Qed.

Lemma chain_stars : forall n p, (p = 32%N \/ p = 42%N) -> chain_ok p (stars n ++ [32%N; 42%N]) = true.
Proof.
  induction n as [|n IH]; intros p Hp.
  - destruct Hp as [-> | ->]; reflexivity.
  - change (stars (S n) ++ [32%N; 42%N]) with (42%N :: (stars n ++ [32%N; 42%N])). cbn [chain_ok].
    rewrite (IH 42%N) by (right; reflexivity). destruct Hp as [-> | ->]; reflexivity.
Qed.

Lemma body_ok_frame n : body_ok (frame_mid n) = true.
Proof.
  unfold body_ok, frame_mid. change ((32%N :: stars n ++ [32%N]) ++ [42%N]) with (32%N :: ((stars n ++ [32%N]) ++ [42%N])).
  rewrite <- app_assoc. cbn [app chain_ok]. rewrite (chain_stars n 32%N) by (left; reflexivity). reflexivity.
Qed.

(* ------------------------------------------------------------------ Hm6, Hm7, Hm8 at file level.
   src = the text after the header part: any text the tokenizer accepts whose first token is not a block comment;
   `oracle k = Matched ..`: the statement that begins there is recognised (k = number of leading comment lines). *)
Theorem file_reject_Hm6 : forall uw ud j f src items xf items' xf' oracle name jmp m,
  (j < 11)%nat -> fields_lex_ok f = true -> fields_plain f = true ->
  lex uw ud src = Ok (items, xf) -> first_tok_not_block (tokens_of items) = true ->
  lex uw ud (lines_text (hm6_lines j f) ++ src) = Ok (items', xf') ->
  induced oracle (tokens_of items') -> oracle 10%nat = Matched name jmp ->
  diag_count (events_upto oracle (tokens_of items') (10 + S m)) = 1%nat.
Proof.
  intros uw ud j f src items xf items' xf' oracle name jmp m Hj Hl Hp Hsrc Hft Hfile Hind Ho.
  rewrite hm6_is_comment_lines in Hfile.
  assert (HL : List.length (remove_nth j (template_mids f)) = 10%nat) by (rewrite length_remove_nth; cbn; lia).
  rewrite <- HL in Ho |- *.
  apply (file_reject_lines uw ud _ src items xf items' xf' oracle name jmp m); auto.
  - apply forallb_remove_nth. apply template_bodies_ok. exact Hl.
  - intros E. rewrite E in HL. discriminate.
  - rewrite <- hm6_is_comment_lines. apply hm6_rejected; assumption.
Qed.

Theorem file_reject_Hm7 : forall uw ud last n f src items xf items' xf' oracle name jmp m,
  n <> 74%nat -> fields_lex_ok f = true -> fields_plain f = true ->
  lex uw ud src = Ok (items, xf) -> first_tok_not_block (tokens_of items) = true ->
  lex uw ud (lines_text (hm7_lines last n f) ++ src) = Ok (items', xf') ->
  induced oracle (tokens_of items') -> oracle 11%nat = Matched name jmp ->
  diag_count (events_upto oracle (tokens_of items') (11 + S m)) = 1%nat.
Proof.
  intros uw ud last n f src items xf items' xf' oracle name jmp m Hn Hl Hp Hsrc Hft Hfile Hind Ho.
  rewrite hm7_is_comment_lines in Hfile.
  set (bs := replace_nth (if last then 10 else 0)%nat (frame_mid n) (template_mids f)) in *.
  assert (HL : List.length bs = 11%nat) by (unfold bs; rewrite length_replace_nth; reflexivity).
  rewrite <- HL in Ho |- *.
  apply (file_reject_lines uw ud bs src items xf items' xf' oracle name jmp m); auto.
  - apply forallb_replace_nth; [apply body_ok_frame|apply template_bodies_ok; exact Hl].
  - intros E. rewrite E in HL. discriminate.
  - unfold bs. rewrite <- hm7_is_comment_lines. apply hm7_rejected; assumption.
Qed.

Theorem file_reject_Hm8 : forall uw ud k x f src items xf items' xf' oracle name jmp m,
  (k = 5 \/ k = 7 \/ k = 8)%nat -> fields_lex_ok f = true -> fields_plain f = true ->
  chain_ok 32 x = true -> no_char 42 x = true -> starts_with (keyword_of k) (textline x (art_of k)) = false ->
  lex uw ud src = Ok (items, xf) -> first_tok_not_block (tokens_of items) = true ->
  lex uw ud (lines_text (hm8_lines k x f) ++ src) = Ok (items', xf') ->
  induced oracle (tokens_of items') -> oracle 11%nat = Matched name jmp ->
  diag_count (events_upto oracle (tokens_of items') (11 + S m)) = 1%nat.
Proof.
  intros uw ud k x f src items xf items' xf' oracle name jmp m Hk Hl Hp Hx Hxs Hkw Hsrc Hft Hfile Hind Ho.
  rewrite hm8_is_comment_lines in Hfile.
  set (bs := replace_nth k (mid_of x (art_of k)) (template_mids f)) in *.
  assert (HL : List.length bs = 11%nat) by (unfold bs; rewrite length_replace_nth; reflexivity).
  rewrite <- HL in Ho |- *.
  apply (file_reject_lines uw ud bs src items xf items' xf' oracle name jmp m); auto.
  - apply forallb_replace_nth; [|apply template_bodies_ok; exact Hl].
    destruct Hk as [ -> | [ -> | -> ] ]; apply (body_ok_mid x _ _ eq_refl Hx); reflexivity.
  - intros E. rewrite E in HL. discriminate.
  - unfold bs. rewrite <- hm8_is_comment_lines. apply hm8_rejected; assumption.
Qed.

(* ------------------------------------------------------------------ discharging `first_tok_not_block` from the text *)
(* a text that begins with an empty line: its first item is the NEWLINE token (step_newline: whatever follows) *)
Lemma lex_newline_first : forall uw ud r items xf, lex uw ud (10%N :: r) = Ok (items, xf) ->
  exists its, items = ITok (mktok NEWLINE 1 1 None) 0 1 :: its.
Proof.
  intros uw ud r items xf H. unfold lex, init in H. cbn [lex_loop] in H. rewrite step_newline in H.
  rewrite lex_loop_acc in H. destruct (lex_loop uw ud _ _ []) as [[its x']| | |]; cbn [pre_items rev app] in H; try discriminate.
  inversion H; subst. eexists. reflexivity.
Qed.

Lemma blank_line_first_tok : forall uw ud r items xf, lex uw ud (10%N :: r) = Ok (items, xf) ->
  first_tok_not_block (tokens_of items) = true.
Proof. intros uw ud r items xf H. destruct (lex_newline_first uw ud r items xf H) as (its & ->). reflexivity. Qed.

(* Hm3 (and every file that begins with an empty line): exactly one, once the empty line is recognised as a statement *)
Theorem file_reject_Hm3 : forall uw ud r items' xf' oracle name jmp m,
  lex uw ud (10%N :: r) = Ok (items', xf') -> oracle 0%nat = Matched name jmp ->
  diag_count (events_upto oracle (tokens_of items') (S m)) = 1%nat.
Proof.
  intros uw ud r items' xf' oracle name jmp m H Ho.
  exact (file_reject_first uw ud _ items' xf' oracle name jmp m H (blank_line_first_tok uw ud r items' xf' H) Ho).
Qed.
