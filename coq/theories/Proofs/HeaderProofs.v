(* C13: the header expression of check_header.py (Gen/HeaderRe.v) against the stdheader template, and the
   generated CheckHeader state machine (Gen/HeaderSM.v) over statement events.  All statements are
   unbounded: every field value, every trace. *)
From NV Require Import Model.Base Model.HeaderRe Model.HeaderState Gen.HeaderRe Gen.HeaderSM Model.Header
  Proofs.HeaderReProofs.
From Coq Require Import Lia.

Local Open Scope nat_scope.

(* =================================================================== 1. the pattern, segment by segment *)
Definition P_frame : list atom :=
  lits (s "/* ") ++ [Rep 74 (Some 74) (CLit 42)] ++ lits (s " */") ++ [One CAny].
Definition P_plain : list atom :=
  lits (s "/*") ++ [Rep 0 None CAny] ++ lits (s "*/") ++ [One CAny].
Definition P_file : list atom :=
  lits (s "/*") ++ [Rep 3 (Some 3) CAny; Mark true 1; Rep 0 None (CNot 32); Mark false 1; Rep 0 None CAny] ++
  lits (s "*/") ++ [One CAny].
Definition P_by : list atom :=
  lits (s "/*   By: ") ++ [Mark true 2; Rep 0 None (CNot 32); Mark false 2; Rep 0 None CAny] ++
  lits (s "*/") ++ [One CAny].
Definition P_stamp (kw : str) (g : nat) : list atom :=
  lits (s "/*   " ++ kw ++ s ": ") ++
  [Mark true g; Rep 0 None (CNot 32); One (CLit 32); Rep 0 None (CNot 32); Mark false g] ++
  lits (s " by ") ++ [Mark true (S g); Rep 0 None (CNot 32); Mark false (S g); Rep 0 None CAny] ++
  lits (s "*/") ++ [One CAny].

(* the tie to the source: the generated pattern IS this sequence of eleven line patterns *)
Lemma header_re_shape :
  header_re = P_frame ++ P_plain ++ P_plain ++ P_file ++ P_plain ++ P_by ++ P_plain ++
              P_stamp (s "Created") 3 ++ P_stamp (s "Updated") 5 ++ P_plain ++ P_frame.
Proof. reflexivity. Qed.

Lemma header_re_used_with_search : header_re_method = "search"%string /\ header_re_dotall = true.
Proof. split; reflexivity. Qed.

Lemma end_any : forall c, matches [One CAny] [c].
Proof. intros c. simpl. exists c, []. auto. Qed.

Lemma seg_frame : forall c, matches P_frame (frame_line ++ [c]).
Proof. intros c. apply fullb_correct. vm_compute. reflexivity. Qed.

Lemma seg_plain : forall m c, matches P_plain (comment_of m ++ [c]).
Proof.
  intros m c. unfold P_plain, comment_of. rewrite <- !app_assoc. apply matches_lits.
  apply (matches_star CAny m); [apply all_in_any|]. apply matches_lits. apply end_any.
Qed.

Lemma matches_mark : forall o k p t, matches p t -> matches (Mark o k :: p) t.
Proof. intros. exact H. Qed.

Lemma matches_star_nil : forall cs p t, matches p t -> matches (Rep 0 None cs :: p) t.
Proof. intros cs p t H. apply (matches_star cs [] p t); auto. Qed.

Lemma seg_file : forall m c, 3 <= List.length m -> matches P_file (comment_of m ++ [c]).
Proof.
  intros m c Hm. unfold P_file, comment_of. rewrite <- !app_assoc. apply matches_lits.
  rewrite <- (firstn_skipn 3 m). rewrite <- !app_assoc. cbn [app].
  apply matches_rep_exact; [apply all_in_any|rewrite firstn_length; lia|].
  apply matches_mark. apply matches_star_nil. apply matches_mark.
  apply (matches_star CAny (skipn 3 m)); [apply all_in_any|]. apply matches_lits. apply end_any.
Qed.

Lemma seg_by : forall r c, matches P_by ((s "/*   By: " ++ r ++ s "*/") ++ [c]).
Proof.
  intros r c. unfold P_by. rewrite <- !app_assoc. apply matches_lits. cbn [app].
  apply matches_mark. apply matches_star_nil. apply matches_mark.
  apply (matches_star CAny r); [apply all_in_any|]. apply matches_lits. apply end_any.
Qed.

Lemma seg_stamp : forall kw g x y r c, no_char 32 x = true -> no_char 32 y = true ->
  matches (P_stamp kw g) (((s "/*   " ++ kw ++ s ": ") ++ x ++ [32%N] ++ y ++ s " by " ++ r ++ s "*/") ++ [c]).
Proof.
  intros kw g x y r c Hx Hy. unfold P_stamp. rewrite <- !app_assoc.
  rewrite (app_assoc kw (s ": ")). rewrite (app_assoc (s "/*   ") (kw ++ s ": ")).
  apply matches_lits. cbn [app].
  apply matches_mark. apply (matches_star (CNot 32) x); [exact Hx|].
  apply matches_one; [reflexivity|]. apply (matches_star (CNot 32) y); [exact Hy|]. apply matches_mark.
  apply matches_lits. cbn [app]. apply matches_mark. apply matches_star_nil. apply matches_mark.
  apply (matches_star CAny r); [apply all_in_any|]. apply matches_lits. apply end_any.
Qed.

(* eleven comment lines of the header layout, whatever stands in the free parts *)
Definition stamp_line (kw x y r : str) : str :=
  (s "/*   " ++ kw ++ s ": ") ++ x ++ [32%N] ++ y ++ s " by " ++ r ++ s "*/".

Inductive shape : list str -> Prop :=
| shape_intro : forall m2 m3 m4 m5 r6 m7 x8 y8 r8 x9 y9 r9 m10,
    3 <= List.length m4 ->
    no_char 32 x8 = true -> no_char 32 y8 = true -> no_char 32 x9 = true -> no_char 32 y9 = true ->
    shape [frame_line; comment_of m2; comment_of m3; comment_of m4; comment_of m5;
           s "/*   By: " ++ r6 ++ s "*/"; comment_of m7;
           stamp_line (s "Created") x8 y8 r8; stamp_line (s "Updated") x9 y9 r9;
           comment_of m10; frame_line].

Theorem shape_accepted : forall ls, shape ls -> matches header_re (lines_text ls).
Proof.
  intros ls H. destruct H. rewrite header_re_shape. unfold lines_text. cbn [map List.concat].
  rewrite app_nil_r.
  apply matches_cat; [exact (seg_frame _)|].
  apply matches_cat; [exact (seg_plain _ _)|].
  apply matches_cat; [exact (seg_plain _ _)|].
  apply matches_cat; [exact (seg_file _ _ H)|].
  apply matches_cat; [exact (seg_plain _ _)|].
  apply matches_cat; [exact (seg_by _ _)|].
  apply matches_cat; [exact (seg_plain _ _)|].
  apply matches_cat; [exact (seg_stamp _ _ _ _ _ _ H0 H1)|].
  apply matches_cat; [exact (seg_stamp _ _ _ _ _ _ H2 H3)|].
  apply matches_cat; [exact (seg_plain _ _)|].
  exact (seg_frame _).
Qed.

(* =================================================================== 2. the template has that shape *)
Lemma firstn_app_le : forall (a b : str) n, List.length a <= n -> firstn n (a ++ b) = a ++ firstn (n - List.length a) b.
Proof.
  intros a b n H. rewrite firstn_app. rewrite firstn_all2 by exact H. reflexivity.
Qed.

Lemma no_char_app : forall c a b, no_char c (a ++ b) = no_char c a && no_char c b.
Proof. intros. unfold no_char. apply forallb_app. Qed.

Lemma template_shape : forall f, stamps_ok f = true -> shape (template f).
Proof.
  intros f H. unfold stamps_ok in H.
  repeat (apply andb_prop in H; destruct H as [H ?]).
  repeat match goal with X : Nat.leb _ _ = true |- _ => apply Nat.leb_le in X end.
  unfold template, template_mids. cbn [map].
  (* By line *)
  assert (E6 : comment_of (mid_of (by_text f) art6) =
               s "/*   By: " ++ (firstn (45 - 4) (f_user f ++ s " <" ++ f_mail f ++ s ">") ++
                 sp (70 - List.length (trunc (by_text f) art6) - List.length art6) ++ art6 ++ sp 3) ++ s "*/").
  { unfold comment_of, mid_of. set (n := 70 - List.length (trunc (by_text f) art6) - List.length art6).
    unfold trunc, by_text. change (70 - List.length art6) with 45.
    rewrite (firstn_app_le (s "By: ")) by (cbn; lia). change (List.length (s "By: ")) with 4.
    change (s "/*   By: ") with (s "/*" ++ sp 3 ++ s "By: ").
    rewrite <- !app_assoc. reflexivity. }
  (* Created / Updated lines *)
  assert (ES : forall kw d e u art, List.length art = 25 -> List.length kw = 7 ->
             List.length d + List.length e <= 31 ->
             comment_of (mid_of ((kw ++ s ": ") ++ d ++ s " " ++ e ++ s " by " ++ u) art) =
             stamp_line kw d e (firstn (45 - (14 + List.length d + List.length e)) u ++
                                sp (70 - List.length (trunc ((kw ++ s ": ") ++ d ++ s " " ++ e ++ s " by " ++ u) art) - List.length art)
                                ++ art ++ sp 3)).
  { intros kw d e u art Ha Hk Hl. unfold comment_of, mid_of, stamp_line.
    set (n := 70 - List.length (trunc ((kw ++ s ": ") ++ d ++ s " " ++ e ++ s " by " ++ u) art) - List.length art).
    unfold trunc. rewrite Ha. change (70 - 25) with 45.
    replace ((kw ++ s ": ") ++ d ++ s " " ++ e ++ s " by " ++ u)
      with (((kw ++ s ": ") ++ d ++ s " " ++ e ++ s " by ") ++ u) by (rewrite <- !app_assoc; reflexivity).
    assert (HL : List.length ((kw ++ s ": ") ++ d ++ s " " ++ e ++ s " by ") = 14 + List.length d + List.length e).
    { rewrite !app_length. rewrite Hk. change (List.length (s ": ")) with 2. change (List.length (s " ")) with 1.
      change (List.length (s " by ")) with 4. lia. }
    rewrite firstn_app_le by (rewrite HL; lia). rewrite HL.
    change (s " ") with [32%N]. change (sp 3) with (s "   ").
    rewrite <- !app_assoc. reflexivity. }
  rewrite E6.
  unfold created_text, updated_text.
  change (s "Created: ") with (s "Created" ++ s ": "). change (s "Updated: ") with (s "Updated" ++ s ": ").
  rewrite (ES (s "Created") (f_cdate f) (f_ctime f) (f_cuser f) art8) by (try reflexivity; lia).
  rewrite (ES (s "Updated") (f_udate f) (f_utime f) (f_uuser f) art9) by (try reflexivity; lia).
  apply shape_intro; auto.
  unfold mid_of. rewrite !app_length. change (List.length (sp 3)) with 3. lia.
Qed.

(* (b) every header the template produces is accepted, whatever the field values *)
Theorem header_accepted : forall f, stamps_ok f = true -> searches header_re (lines_text (template f)).
Proof. intros f H. apply matches_searches. apply shape_accepted. apply template_shape. exact H. Qed.

Theorem header_accepted_b : forall f rest, stamps_ok f = true ->
  searchb header_re (lines_text (template f) ++ rest) = true.
Proof. intros f rest H. apply searchb_correct. apply searches_app_r. apply header_accepted. exact H. Qed.

(* =================================================================== 3. the state machine *)
Definition cnt (st : hstate) : nat := count_code INVALID_HEADER st.

Lemma cnt_emit : forall a b h e, cnt (mkhs a b h (e ++ [INVALID_HEADER])) = S (cnt (mkhs a b h e)).
Proof.
  intros. unfold cnt, count_code. simpl. rewrite filter_app, app_length. simpl.
  change (str_eqb INVALID_HEADER INVALID_HEADER) with true. simpl. lia.
Qed.

(* what the generated run_step does, case by case (a readable restatement, proved equal).
   `verdict`: the accumulated text is checked once and the machine stops. *)
Definition verdict (st : hstate) : hstate :=
  mkhs true true (hs_header st)
       (if searchb header_re (hs_header st) then hs_errs st else hs_errs st ++ [INVALID_HEADER]).

Definition step_spec (st : hstate) (ev : hevent) : hstate :=
  if hs_parsed st then st
  else if is_block_ev ev then
         (* a block comment in column 1: its text joins the header text *)
         mkhs true false (hs_header st ++ ev_tok_value ev ++ [10%N]) (hs_errs st)
       else if hs_started st then
              (* anything else - a statement that is not a comment, a // comment, a comment after blanks -
                 ends the leading block: the text is checked *)
              verdict st
            else
              (* nothing accumulated yet: not a header *)
              mkhs (is_comment_ev ev) true (hs_header st) (hs_errs st ++ [INVALID_HEADER]).

Lemma run_step_spec : forall st ev, run_step st ev = step_spec st ev.
Proof.
  intros [a b h e] ev. unfold run_step, step_spec, verdict, parse_header, check_header, is_block_ev, is_comment_ev,
    check_token0, is_False, set_started, set_parsed, set_header, emit. cbn [hs_started hs_parsed hs_header hs_errs].
  change (s "IsComment") with IsComment. change (s "MULT_COMMENT") with MULT_COMMENT.
  change (s "INVALID_HEADER") with INVALID_HEADER.
  destruct b; cbn [Bool.eqb]; [reflexivity|].
  destruct (str_eqb (ev_rule ev) IsComment); cbn [andb negb].
  - destruct (str_eqb (ev_tok_type ev) MULT_COMMENT); [reflexivity|].
    destruct a; cbn [Bool.eqb].
    + destruct (searchb header_re h); reflexivity.
    + reflexivity.
  - destruct a; cbn [Bool.eqb andb].
    + destruct (searchb header_re h); reflexivity.
    + reflexivity.
Qed.

Lemma run_parsed : forall evs st, hs_parsed st = true -> run_from st evs = st.
Proof.
  induction evs as [|ev evs IH]; intros st H; [reflexivity|].
  unfold run_from in *. simpl. rewrite run_step_spec. unfold step_spec. rewrite H. apply IH. exact H.
Qed.

Lemma run_from_app : forall a b st, run_from st (a ++ b) = run_from (run_from st a) b.
Proof. intros. unfold run_from. apply fold_left_app. Qed.

Lemma run_from_cons : forall ev evs st, run_from st (ev :: evs) = run_from (run_step st ev) evs.
Proof. reflexivity. Qed.

Lemma cnt_verdict : forall st, cnt (verdict st) = cnt st \/ cnt (verdict st) = S (cnt st).
Proof.
  intros [a b h e]. unfold verdict. cbn [hs_header hs_errs]. destruct (searchb header_re h).
  - left. reflexivity.
  - right. rewrite cnt_emit. reflexivity.
Qed.

(* (c) at most one INVALID_HEADER, for every trace *)
Lemma once_inv : forall evs st, (hs_parsed st = true \/ cnt st = 0) -> cnt st <= 1 -> cnt (run_from st evs) <= 1.
Proof.
  induction evs as [|ev evs IH]; intros st H1 H2; [exact H2|].
  rewrite run_from_cons. destruct (hs_parsed st) eqn:Hp.
  - rewrite run_step_spec. unfold step_spec. rewrite Hp. apply IH; auto.
  - destruct H1 as [H1|H1]; [discriminate|].
    rewrite run_step_spec. unfold step_spec. rewrite Hp.
    destruct (is_block_ev ev).
    + apply IH; [right; exact H1|]. unfold cnt in *. exact H2.
    + destruct (hs_started st).
      * apply IH; [left; reflexivity|]. destruct (cnt_verdict st) as [E|E]; rewrite E; lia.
      * apply IH; [left; reflexivity|]. destruct st as [a b h e]. cbn [hs_header hs_errs]. rewrite cnt_emit.
        unfold cnt in *. cbn in *. lia.
Qed.

Theorem at_most_once : forall evs, invalid_count evs <= 1.
Proof.
  intros evs. unfold invalid_count, run_events. apply (once_inv evs ctx_init); [right; reflexivity|].
  vm_compute. lia.
Qed.

(* a run of block-comment statements only accumulates their texts *)
Lemma lines_text_app : forall a b, lines_text (a ++ b) = lines_text a ++ lines_text b.
Proof. intros. unfold lines_text. rewrite map_app, concat_app. reflexivity. Qed.

Lemma lines_text_cons : forall l ls, lines_text (l :: ls) = l ++ 10%N :: lines_text ls.
Proof. intros. unfold lines_text. cbn [map List.concat]. rewrite <- app_assoc. reflexivity. Qed.

Lemma run_blocks : forall evs st, hs_parsed st = false -> forallb is_block_ev evs = true ->
  run_from st evs = mkhs (match evs with [] => hs_started st | _ => true end) false
                         (hs_header st ++ lines_text (map ev_tok_value evs)) (hs_errs st).
Proof.
  induction evs as [|ev evs IH]; intros st Hp Hb.
  - destruct st as [a b h e]. cbn in *. subst. rewrite app_nil_r. reflexivity.
  - cbn [forallb] in Hb. apply andb_prop in Hb. destruct Hb as [Hev Hb].
    rewrite run_from_cons, run_step_spec. unfold step_spec. rewrite Hp, Hev.
    rewrite IH; [|reflexivity|exact Hb]. cbn [hs_started hs_parsed hs_header hs_errs map].
    rewrite lines_text_cons. rewrite <- !app_assoc. cbn [app]. destruct evs; reflexivity.
Qed.

(* once a matching text has been accumulated nothing can be emitted any more, whatever follows *)
Lemma run_matching : forall rest st, hs_parsed st = false -> hs_started st = true ->
  searches header_re (hs_header st) -> cnt (run_from st rest) = cnt st.
Proof.
  induction rest as [|ev rest IH]; intros st Hp Hs Hm; [reflexivity|].
  rewrite run_from_cons, run_step_spec. unfold step_spec. rewrite Hp, Hs.
  destruct (is_block_ev ev).
  - rewrite IH; [reflexivity|reflexivity|reflexivity|]. cbn [hs_header]. apply searches_app_r. exact Hm.
  - rewrite run_parsed by reflexivity. unfold verdict. apply searchb_correct in Hm. rewrite Hm.
    destruct st; reflexivity.
Qed.

(* acceptance: leading block comments whose text matches; ANY statements may follow *)
Theorem accept_trace : forall b0 blocks rest,
  forallb is_block_ev (b0 :: blocks) = true ->
  searches header_re (lines_text (map ev_tok_value (b0 :: blocks))) ->
  invalid_count ((b0 :: blocks) ++ rest) = 0.
Proof.
  intros b0 blocks rest Hb Hs. unfold invalid_count, run_events. rewrite run_from_app.
  rewrite (run_blocks (b0 :: blocks) ctx_init eq_refl Hb).
  change (count_code INVALID_HEADER) with cnt. rewrite run_matching; try reflexivity.
  cbn [hs_header]. change (hs_header ctx_init) with (@nil N). cbn [app]. exact Hs.
Qed.

(* rejection 1 (Hm1, Hm2, Hm3, Hm4 and every file whose first statement is not a block comment in column 1) *)
Theorem reject_first_not_block : forall ev rest, is_block_ev ev = false -> invalid_count (ev :: rest) = 1.
Proof.
  intros ev rest H. unfold invalid_count, run_events. rewrite run_from_cons, run_step_spec. unfold step_spec.
  cbn [ctx_init hs_parsed hs_started hs_header hs_errs]. rewrite H. rewrite run_parsed by reflexivity. reflexivity.
Qed.

Theorem reject_first_not_comment : forall ev rest, is_comment_ev ev = false -> invalid_count (ev :: rest) = 1.
Proof.
  intros ev rest H. apply reject_first_not_block. unfold is_block_ev. rewrite H. reflexivity.
Qed.

(* rejection 2 (Hm5..Hm8, a line written as //): leading block comments whose text does not match, then
   any statement that is not a block comment in column 1 *)
Theorem reject_text : forall b0 blocks ev rest, forallb is_block_ev (b0 :: blocks) = true ->
  is_block_ev ev = false -> ~ searches header_re (lines_text (map ev_tok_value (b0 :: blocks))) ->
  invalid_count ((b0 :: blocks) ++ ev :: rest) = 1.
Proof.
  intros b0 blocks ev rest Hb Hc Hn. unfold invalid_count, run_events. rewrite run_from_app.
  rewrite (run_blocks (b0 :: blocks) ctx_init eq_refl Hb). rewrite run_from_cons, run_step_spec. unfold step_spec.
  cbn [hs_parsed hs_started hs_header hs_errs]. rewrite Hc. change (hs_header ctx_init) with (@nil N). cbn [app].
  unfold verdict. cbn [hs_header hs_errs].
  destruct (searchb header_re (lines_text (map ev_tok_value (b0 :: blocks)))) eqn:E.
  - exfalso. apply Hn. apply searchb_correct. exact E.
  - rewrite run_parsed by reflexivity. reflexivity.
Qed.

Lemma block_events : forall ls, forallb is_block_ev (map comment_event ls) = true.
Proof. induction ls; simpl; auto. Qed.

Lemma values_of_comment_events : forall ls, map ev_tok_value (map comment_event ls) = ls.
Proof. induction ls; simpl; congruence. Qed.

(* =================================================================== 4. occurrences of "/*" in texts *)
Definition W : str := s "/*".

(* u is quiet: appending it in front of anything adds no occurrence of "/*" *)
Definition quiet (u : str) : Prop := forall v, occ W (u ++ v) = occ W v.

Lemma quiet_app : forall a b, quiet a -> quiet b -> quiet (a ++ b).
Proof. intros a b Ha Hb v. rewrite <- app_assoc, Ha, Hb. reflexivity. Qed.

Lemma quiet_nil : quiet [].
Proof. intros v. reflexivity. Qed.

Lemma sw_W : forall c t, starts_with W (c :: t) = N.eqb 47 c && match t with d :: _ => N.eqb 42 d | [] => false end.
Proof. intros c t. unfold W. cbn. destruct t; [rewrite andb_false_r; reflexivity|]. rewrite andb_true_r. reflexivity. Qed.

Lemma quiet_no_slash : forall u, no_char 47 u = true -> quiet u.
Proof.
  induction u as [|c u IH]; intros H v; [reflexivity|]. cbn [no_char forallb] in H. apply andb_prop in H. destruct H as [Hc Hu].
  cbn [app occ]. rewrite sw_W. apply negb_true_iff in Hc. rewrite N.eqb_sym in Hc. rewrite Hc. cbn [andb].
  rewrite (IH Hu v). reflexivity.
Qed.

(* star-free and followed by a space *)
Lemma quiet_no_star_sp : forall u, no_char 42 u = true -> quiet (u ++ [32%N]).
Proof.
  induction u as [|c u IH]; intros H v.
  - cbn [app occ]. rewrite sw_W. reflexivity.
  - cbn [no_char forallb] in H. apply andb_prop in H. destruct H as [Hc Hu]. cbn [app occ].
    rewrite sw_W. rewrite <- app_assoc.
    assert (E : match u ++ [32%N] ++ v with d :: _ => N.eqb 42 d | [] => false end = false).
    { destruct u as [|d u]; [reflexivity|]. cbn [app]. cbn [no_char forallb] in Hu. apply andb_prop in Hu. destruct Hu as [Hd _].
      apply negb_true_iff in Hd. rewrite N.eqb_sym. exact Hd. }
    rewrite E, andb_false_r. rewrite app_assoc. rewrite (IH Hu v). reflexivity.
Qed.

Lemma no_char_repeat : forall c d n, N.eqb d c = false -> no_char c (repeat d n) = true.
Proof. induction n; intros H; simpl; auto. rewrite H. simpl. auto. Qed.

Lemma no_char_firstn : forall c n x, no_char c x = true -> no_char c (firstn n x) = true.
Proof.
  intros c. induction n as [|n IH]; intros x H; [reflexivity|]. destruct x as [|d x]; [reflexivity|].
  cbn [firstn]. unfold no_char in *. cbn [forallb] in *. apply andb_prop in H. destruct H as [H1 H2].
  rewrite H1. cbn [andb]. apply IH. exact H2.
Qed.

Lemma quiet_frame_mid : forall n, quiet (frame_mid n).
Proof.
  intros n. apply quiet_no_slash. unfold frame_mid. change (32%N :: stars n ++ [32%N]) with ([32%N] ++ stars n ++ [32%N]).
  rewrite !no_char_app. unfold stars. rewrite no_char_repeat by reflexivity. reflexivity.
Qed.

Lemma quiet_mid_of : forall l r, no_char 42 l = true -> no_char 42 r = true -> quiet (mid_of l r).
Proof.
  intros l r Hl Hr. unfold mid_of. change (sp 3) with (sp 2 ++ [32%N]) at 2.
  rewrite !app_assoc. apply quiet_no_star_sp. rewrite <- !app_assoc. rewrite !no_char_app.
  unfold trunc. rewrite (no_char_firstn 42 _ l Hl), Hr. unfold sp. rewrite !no_char_repeat by reflexivity. reflexivity.
Qed.

(* a comment line counts for exactly one "/*" *)
Definition cline (l : str) : Prop := starts_with W l = true /\ forall v, occ W (l ++ 10%N :: v) = S (occ W v).

Lemma cline_comment_of : forall m, quiet m -> cline (comment_of m).
Proof.
  intros m Hq. split; [reflexivity|]. intros v. unfold comment_of. rewrite <- !app_assoc.
  change (s "/*" ++ m ++ s "*/" ++ 10%N :: v) with (47%N :: 42%N :: m ++ s "*/" ++ 10%N :: v).
  cbn [occ]. rewrite !sw_W. cbn [N.eqb Pos.eqb andb].
  replace (match m ++ s "*/" ++ 10%N :: v with [] => false | d :: _ => false end) with false by (destruct (m ++ s "*/" ++ 10%N :: v); reflexivity).
  rewrite Hq. cbn. destruct v as [|d v]; cbn; [reflexivity|]. destruct (starts_with W (d :: v)); reflexivity.
Qed.

Lemma occ_lines : forall ls v, Forall cline ls -> occ W (lines_text ls ++ v) = List.length ls + occ W v.
Proof.
  induction ls as [|l ls IH]; intros v H; [reflexivity|]. inversion H; subst.
  rewrite lines_text_cons. rewrite <- app_assoc. cbn [app]. destruct H2 as [_ H2]. rewrite H2, IH by assumption. reflexivity.
Qed.

Lemma occ_lines0 : forall ls, Forall cline ls -> occ W (lines_text ls) = List.length ls.
Proof. intros ls H. rewrite <- (app_nil_r (lines_text ls)). rewrite occ_lines by exact H. simpl. lia. Qed.

(* the pattern needs eleven "/*" *)
Lemma re_needs_11 : forall t, searches header_re t -> 11 <= occ W t.
Proof. intros t H. apply (search_occ W) in H. exact H. Qed.

Theorem too_few_comments_rejected : forall ls, Forall cline ls -> List.length ls <= 10 ->
  ~ searches header_re (lines_text ls).
Proof. intros ls H L Hs. apply re_needs_11 in Hs. rewrite occ_lines0 in Hs by exact H. lia. Qed.

(* =================================================================== 5. template lines are comment lines *)
Lemma plain_star : forall x, plain x = true -> no_char 42 x = true.
Proof. intros x H. unfold plain in H. apply andb_prop in H. tauto. Qed.

Lemma template_mids_quiet : forall f, fields_plain f = true -> Forall quiet (template_mids f).
Proof.
  intros f H. unfold fields_plain in H. repeat (apply andb_prop in H; destruct H as [H ?]).
  repeat match goal with X : plain _ = true |- _ => apply plain_star in X end.
  assert (Hq : forall r, no_char 42 r = true -> quiet (mid_of [] r)) by (intros r Hr; apply quiet_mid_of; [reflexivity|exact Hr]).
  unfold template_mids.
  apply Forall_cons; [exact (quiet_frame_mid 74)|].
  apply Forall_cons; [exact (Hq [] eq_refl)|].
  apply Forall_cons; [exact (Hq art3 eq_refl)|].
  apply Forall_cons; [apply quiet_mid_of; [assumption|reflexivity]|].
  apply Forall_cons; [exact (Hq art5 eq_refl)|].
  apply Forall_cons; [apply quiet_mid_of; [|reflexivity]|].
  { unfold by_text. rewrite !no_char_app. repeat match goal with X : no_char 42 ?x = true |- context [no_char 42 ?x] => rewrite X end. reflexivity. }
  apply Forall_cons; [exact (Hq art7 eq_refl)|].
  apply Forall_cons; [apply quiet_mid_of; [|reflexivity]|].
  { unfold created_text. rewrite !no_char_app. repeat match goal with X : no_char 42 ?x = true |- context [no_char 42 ?x] => rewrite X end. reflexivity. }
  apply Forall_cons; [apply quiet_mid_of; [|reflexivity]|].
  { unfold updated_text. rewrite !no_char_app. repeat match goal with X : no_char 42 ?x = true |- context [no_char 42 ?x] => rewrite X end. reflexivity. }
  apply Forall_cons; [exact (Hq [] eq_refl)|].
  apply Forall_cons; [exact (quiet_frame_mid 74)|]. apply Forall_nil.
Qed.

Lemma Forall_map_cline : forall ms, Forall quiet ms -> Forall cline (map comment_of ms).
Proof. induction 1; simpl; constructor; auto using cline_comment_of. Qed.

Lemma template_clines : forall f, fields_plain f = true -> Forall cline (template f).
Proof. intros f H. apply Forall_map_cline. apply template_mids_quiet. exact H. Qed.

Lemma Forall_remove_nth : forall {A} (P : A -> Prop) k l, Forall P l -> Forall P (remove_nth k l).
Proof.
  intros A P k l H. revert k. induction H; intros k; destruct k; simpl; auto.
Qed.

Lemma Forall_replace_nth : forall {A} (P : A -> Prop) k x l, P x -> Forall P l -> Forall P (replace_nth k x l).
Proof.
  intros A P k x l Hx H. revert k. induction H; intros k; destruct k; simpl; auto.
Qed.

Lemma length_remove_nth : forall {A} k (l : list A), k < List.length l -> List.length (remove_nth k l) = List.length l - 1.
Proof.
  intros A k l. revert k. induction l as [|a l IH]; intros k H; simpl in *; [lia|].
  destruct k; simpl; [lia|]. rewrite IH by lia. lia.
Qed.

Lemma length_replace_nth : forall {A} k x (l : list A), List.length (replace_nth k x l) = List.length l.
Proof. intros A k x l. revert k. induction l; intros k; destruct k; simpl; auto. Qed.

(* (d) Hm6: one line removed *)
Theorem hm6_rejected : forall k f, k < 11 -> fields_plain f = true ->
  ~ searches header_re (lines_text (hm6_lines k f)).
Proof.
  intros k f Hk Hf. apply too_few_comments_rejected.
  - apply Forall_remove_nth. apply template_clines. exact Hf.
  - unfold hm6_lines. rewrite length_remove_nth; unfold template, template_mids; simpl; lia.
Qed.

(* (d) Hm5: one block comment *)
Lemma quiet_join : forall sep ms, quiet sep -> Forall quiet ms -> quiet (join sep ms).
Proof.
  intros sep ms Hs H. induction H as [|m ms Hm H IH]; [apply quiet_nil|].
  destruct ms as [|m' ms]; [exact Hm|]. change (join sep (m :: m' :: ms)) with (m ++ sep ++ join sep (m' :: ms)).
  apply quiet_app; [exact Hm|]. apply quiet_app; [exact Hs|exact IH].
Qed.

Theorem hm5_rejected : forall f, fields_plain f = true -> ~ searches header_re (lines_text [hm5_text f]).
Proof.
  intros f Hf. apply too_few_comments_rejected; [|simpl; lia].
  constructor; [|constructor]. apply cline_comment_of. apply quiet_join.
  - apply quiet_no_slash. reflexivity.
  - apply template_mids_quiet. exact Hf.
Qed.

(* =================================================================== 6. where the keywords must stand *)
Lemma occ_app_slash : forall x y, occ W (x ++ 47%N :: y) = occ W x + occ W (47%N :: y).
Proof.
  induction x as [|a x IH]; intros y; [reflexivity|]. cbn [app].
  change (occ W (a :: x ++ 47%N :: y)) with ((if starts_with W (a :: x ++ 47%N :: y) then 1 else 0) + occ W (x ++ 47%N :: y)).
  change (occ W (a :: x)) with ((if starts_with W (a :: x) then 1 else 0) + occ W x).
  rewrite IH. rewrite (sw_W a (x ++ 47%N :: y)), (sw_W a x).
  destruct x as [|b x]; cbn [app]; [|lia]. change (42 =? 47)%N with false. lia.
Qed.

Lemma W_head : forall y, starts_with W y = true -> exists y', y = 47%N :: 42%N :: y'.
Proof.
  intros y H. destruct y as [|a y]; [discriminate|]. rewrite sw_W in H. apply andb_prop in H. destruct H as [Ha Hb].
  destruct y as [|b y]; [discriminate|]. apply N.eqb_eq in Ha. apply N.eqb_eq in Hb. subst. eauto.
Qed.

Lemma anchor_unique : forall x y x' y', x ++ y = x' ++ y' -> starts_with W y = true -> starts_with W y' = true ->
  occ W y = occ W y' -> y = y'.
Proof.
  intros x y x' y' E Hy Hy' Ho.
  assert (K : forall d a b, a = d ++ b -> starts_with W a = true -> starts_with W b = true -> occ W a = occ W b -> d = []).
  { intros d a b -> Ha Hb Hab. destruct (W_head _ Hb) as (b' & ->). rewrite (occ_app_slash d) in Hab.
    destruct d as [|c d]; [reflexivity|]. exfalso. cbn [app] in Ha. rewrite sw_W in Ha. apply andb_prop in Ha. destruct Ha as [Hc Hd].
    destruct d as [|e d].
    - cbn in Hd. discriminate.
    - cbn [app] in Hd. cbn [occ] in Hab. rewrite sw_W in Hab. rewrite Hc, Hd in Hab. cbn [andb] in Hab. lia. }
  destruct (app_eq_split x y x' y' E) as (d & [(-> & Hd)|(-> & Hd)]).
  - rewrite (K d y y' Hd Hy Hy' Ho) in Hd. exact Hd.
  - symmetry in Ho. rewrite (K d y' y Hd Hy' Hy Ho) in Hd. symmetry. exact Hd.
Qed.

Lemma Forall_skipn : forall {A} (P : A -> Prop) n l, Forall P l -> Forall P (skipn n l).
Proof. intros A P n. induction n; intros l H; [exact H|]. destruct l; [constructor|]. inversion H; subst. simpl. auto. Qed.
Lemma Forall_firstn : forall {A} (P : A -> Prop) n l, Forall P l -> Forall P (firstn n l).
Proof. intros A P n. induction n; intros l H; [constructor|]. destruct l; [constructor|]. inversion H; subst. simpl. auto. Qed.

Lemma anchored_lines : forall ls x y k1 k2, Forall cline ls -> lines_text ls = x ++ y -> starts_with W y = true ->
  k1 <= occ W x -> k2 <= occ W y -> k1 + k2 = List.length ls -> 1 <= k2 -> y = lines_text (skipn k1 ls).
Proof.
  intros ls x y k1 k2 Hc E Hy H1 H2 Hk Hpos.
  destruct (W_head _ Hy) as (y' & Ey).
  assert (Ht : occ W (x ++ y) = List.length ls) by (rewrite <- E; apply occ_lines0; exact Hc).
  rewrite Ey in Ht. rewrite (occ_app_slash x) in Ht. rewrite <- Ey in Ht.
  assert (Hl : List.length (skipn k1 ls) = k2) by (rewrite skipn_length; lia).
  rewrite <- (firstn_skipn k1 ls) in E. rewrite lines_text_app in E.
  apply (anchor_unique x y (lines_text (firstn k1 ls)) (lines_text (skipn k1 ls))).
  - symmetry. exact E.
  - exact Hy.
  - destruct (skipn k1 ls) as [|l r] eqn:Es; [simpl in Hl; lia|]. rewrite lines_text_cons.
    apply Forall_skipn with (n := k1) in Hc. rewrite Es in Hc. inversion Hc; subst. destruct H3 as [H3 _].
    apply starts_with_app_r. exact H3.
  - rewrite occ_lines0 by (apply Forall_skipn; exact Hc). lia.
Qed.

Lemma starts_with_line : forall w l v, no_char 10 w = true -> starts_with w (l ++ 10%N :: v) = true -> starts_with w l = true.
Proof.
  induction w as [|a w IH]; intros l v Hw H; [reflexivity|]. cbn [no_char forallb] in Hw. apply andb_prop in Hw. destruct Hw as [Ha Hw].
  destruct l as [|b l].
  - cbn in H. apply andb_prop in H. destruct H as [H _]. apply negb_true_iff in Ha. congruence.
  - cbn in *. apply andb_prop in H. destruct H as [H1 H2]. rewrite H1. cbn. eapply IH; eauto.
Qed.

(* the general statement: cut the pattern after n atoms; the k1 + 1-th line must start with what follows *)
Theorem line_anchor : forall n ls, Forall cline ls -> List.length ls = 11 ->
  1 <= occ_pat W (skipn n header_re) ->
  occ_pat W (firstn n header_re) + occ_pat W (skipn n header_re) = 11 ->
  starts_with W (lead (skipn n header_re)) = true ->
  searches header_re (lines_text ls) ->
  starts_with (lead (skipn n header_re)) (lines_text (skipn (occ_pat W (firstn n header_re)) ls)) = true.
Proof.
  intros n ls Hc Hl Hpos Hsum HW Hs.
  destruct (search_anchor W header_re _ n Hs) as (x & y & E & H1 & H2 & H3).
  assert (Hy : starts_with W y = true) by (eapply starts_with_trans; eauto).
  rewrite <- (anchored_lines ls x y (occ_pat W (firstn n header_re)) (occ_pat W (skipn n header_re)) Hc E Hy H1 H2); auto; lia.
Qed.

(* index of the first atom of each keyword in the generated pattern *)
Fixpoint find_lead (w : str) (p : list atom) (fuel : nat) : nat :=
  match fuel with
  | O => O
  | S fuel' => if starts_with w (lead p) then O else match p with [] => O | _ :: r => S (find_lead w r fuel') end
  end.
Definition idx (k : nat) : nat := find_lead (keyword_of k) header_re 200.

Theorem keyword_needed : forall k ls, (k = 5 \/ k = 7 \/ k = 8) -> Forall cline ls -> List.length ls = 11 ->
  searches header_re (lines_text ls) -> starts_with (keyword_of k) (nth k ls []) = true.
Proof.
  intros k ls Hk Hc Hl Hs.
  assert (G : forall n w, 1 <= occ_pat W (skipn n header_re) ->
              occ_pat W (firstn n header_re) + occ_pat W (skipn n header_re) = 11 ->
              starts_with W (lead (skipn n header_re)) = true ->
              starts_with w (lead (skipn n header_re)) = true -> no_char 10 w = true ->
              starts_with w (nth (occ_pat W (firstn n header_re)) ls []) = true).
  { intros n w A B C D F. pose proof (line_anchor n ls Hc Hl A B C Hs) as H.
    pose proof (starts_with_trans _ _ _ D H) as H'.
    assert (Hlen : occ_pat W (firstn n header_re) < List.length ls) by lia.
    rewrite <- (firstn_skipn (occ_pat W (firstn n header_re)) ls) at 1.
    rewrite app_nth2; rewrite firstn_length; [|lia].
    replace (occ_pat W (firstn n header_re) - Nat.min (occ_pat W (firstn n header_re)) (List.length ls)) with 0 by lia.
    destruct (skipn (occ_pat W (firstn n header_re)) ls) as [|l r] eqn:Es.
    - assert (List.length (skipn (occ_pat W (firstn n header_re)) ls) = 0) by (rewrite Es; reflexivity).
      rewrite skipn_length in H0. lia.
    - rewrite lines_text_cons in H'. cbn [nth]. eapply starts_with_line; eauto. }
  destruct Hk as [ -> | [ -> | -> ] ].
  - apply (G (idx 5) (keyword_of 5)); vm_compute; first [reflexivity | lia].
  - apply (G (idx 7) (keyword_of 7)); vm_compute; first [reflexivity | lia].
  - apply (G (idx 8) (keyword_of 8)); vm_compute; first [reflexivity | lia].
Qed.

Definition last_frame_idx : nat := List.length header_re - 81 + 2.

Theorem frames_needed : forall ls, Forall cline ls -> List.length ls = 11 -> searches header_re (lines_text ls) ->
  starts_with frame_line (nth 0 ls []) = true /\ starts_with frame_line (nth 10 ls []) = true.
Proof.
  intros ls Hc Hl Hs.
  assert (G : forall n k, k = occ_pat W (firstn n header_re) -> 1 <= occ_pat W (skipn n header_re) ->
              k + occ_pat W (skipn n header_re) = 11 ->
              starts_with W (lead (skipn n header_re)) = true ->
              starts_with frame_line (lead (skipn n header_re)) = true ->
              starts_with frame_line (nth k ls []) = true).
  { intros n k -> A B C D. pose proof (line_anchor n ls Hc Hl A B C Hs) as H.
    pose proof (starts_with_trans _ _ _ D H) as H'.
    rewrite <- (firstn_skipn (occ_pat W (firstn n header_re)) ls) at 1.
    rewrite app_nth2; rewrite firstn_length; [|lia].
    replace (occ_pat W (firstn n header_re) - Nat.min (occ_pat W (firstn n header_re)) (List.length ls)) with 0 by lia.
    destruct (skipn (occ_pat W (firstn n header_re)) ls) as [|l r] eqn:Es.
    - assert (List.length (skipn (occ_pat W (firstn n header_re)) ls) = 0) by (rewrite Es; reflexivity).
      rewrite skipn_length in H0. lia.
    - rewrite lines_text_cons in H'. cbn [nth]. eapply starts_with_line; eauto. }
  split.
  - apply (G 0 0); vm_compute; first [reflexivity | lia].
  - apply (G (find_lead frame_line (skipn 1 header_re) 200 + 1) 10); vm_compute; first [reflexivity | lia].
Qed.

(* (d) Hm8: the By / Created / Updated line does not begin with its keyword *)
Theorem hm8_rejected : forall k x f, (k = 5 \/ k = 7 \/ k = 8) -> fields_plain f = true -> no_char 42 x = true ->
  starts_with (keyword_of k) (textline x (art_of k)) = false ->
  ~ searches header_re (lines_text (hm8_lines k x f)).
Proof.
  intros k x f Hk Hf Hx Hn Hs.
  assert (Hc : Forall cline (hm8_lines k x f)).
  { apply Forall_replace_nth; [|apply template_clines; exact Hf]. apply cline_comment_of. apply quiet_mid_of; [exact Hx|].
    destruct Hk as [ -> | [ -> | -> ] ]; reflexivity. }
  assert (Hl : List.length (hm8_lines k x f) = 11) by (unfold hm8_lines; rewrite length_replace_nth; reflexivity).
  pose proof (keyword_needed k _ Hk Hc Hl Hs) as H.
  assert (E : nth k (hm8_lines k x f) [] = textline x (art_of k)) by (destruct Hk as [ -> | [ -> | -> ] ]; reflexivity).
  rewrite E in H. congruence.
Qed.

(* (d) Hm7: a frame line with n <> 74 stars *)
Lemma stars_prefix : forall a b x y, starts_with (stars a ++ 32%N :: x) (stars b ++ 32%N :: y) = true -> a = b.
Proof.
  induction a as [|a IH]; intros b x y H; destruct b as [|b]; auto.
  - cbn in H. discriminate.
  - cbn in H. discriminate.
  - cbn in H. f_equal. eapply IH. exact H.
Qed.

Lemma frame_prefix : forall n, starts_with frame_line (frame_n n) = true -> n = 74.
Proof.
  intros n H. unfold frame_line, frame_n, comment_of, frame_mid in H.
  change (s "/*" ++ (32%N :: stars 74 ++ [32%N]) ++ s "*/") with (s "/* " ++ stars 74 ++ 32%N :: s "*/") in H.
  change (s "/*" ++ (32%N :: stars n ++ [32%N]) ++ s "*/") with (s "/* " ++ (stars n ++ [32%N]) ++ s "*/") in H.
  rewrite <- app_assoc in H. rewrite starts_with_app in H. cbn [app] in H. symmetry. eapply stars_prefix. exact H.
Qed.

Theorem hm7_rejected : forall last n f, n <> 74 -> fields_plain f = true ->
  ~ searches header_re (lines_text (hm7_lines last n f)).
Proof.
  intros last n f Hn Hf Hs.
  assert (Hc : Forall cline (hm7_lines last n f)).
  { apply Forall_replace_nth; [|apply template_clines; exact Hf]. apply cline_comment_of. apply quiet_frame_mid. }
  assert (Hl : List.length (hm7_lines last n f) = 11) by (unfold hm7_lines; rewrite length_replace_nth; reflexivity).
  destruct (frames_needed _ Hc Hl Hs) as [H0 H10]. apply Hn. apply frame_prefix.
  destruct last; [exact H10|exact H0].
Qed.

(* =================================================================== 7. the property, on traces *)
(* C13, first half: the eleven template lines, then ANY statements (further block comments in column 1 are
   appended to the header text, the search still succeeds; the first statement of any other kind - code, an empty
   line, a // comment, a comment after blanks - triggers the one check, which succeeds; end of file: no check). *)
Theorem accept : forall f rest, stamps_ok f = true -> invalid_count (header_events f ++ rest) = 0.
Proof.
  intros f rest Hf. pose proof (header_accepted f Hf) as Hs.
  unfold header_events. remember (template f) as ls eqn:E.
  destruct ls as [|l ls]; [unfold template, template_mids in E; cbn [map] in E; discriminate|].
  cbn [map]. apply accept_trace.
  - change (comment_event l :: map comment_event ls) with (map comment_event (l :: ls)). apply block_events.
  - change (comment_event l :: map comment_event ls) with (map comment_event (l :: ls)).
    rewrite values_of_comment_events. exact Hs.
Qed.

(* what used to be finding C13-comment-after-header: a // comment (or any other statement) directly below the header *)
Corollary accept_comment_after_header : forall f x rest, stamps_ok f = true ->
  invalid_count (header_events f ++ line_comment_event x :: rest) = 0.
Proof. intros f x rest Hf. apply accept. exact Hf. Qed.

Definition code_event : hevent := mkev (s "IsVarDeclaration") (s "INT") (s "int").
Definition empty_line_event : hevent := mkev (s "IsEmptyLine") (s "NEWLINE") [10%N].
(* a block comment after blanks: the statement's first token is the TAB *)
Definition indented_comment_event : hevent := mkev IsComment (s "TAB") [9%N].

Theorem reject_Hm4 : forall f rest, invalid_count (hm4_events f ++ rest) = 1.
Proof.
  intros f rest. unfold hm4_events, template_mids. cbn [map app].
  apply reject_first_not_block. reflexivity.
Qed.

Theorem reject_Hm5 : forall f ev rest, fields_plain f = true -> is_block_ev ev = false ->
  invalid_count (hm5_events f ++ ev :: rest) = 1.
Proof.
  intros f ev rest Hf He. unfold hm5_events. apply reject_text; auto. apply hm5_rejected. exact Hf.
Qed.

Lemma reject_lines : forall ls ev rest, ls <> [] -> is_block_ev ev = false ->
  ~ searches header_re (lines_text ls) -> invalid_count (map comment_event ls ++ ev :: rest) = 1.
Proof.
  intros ls ev rest Hne He Hn. destruct ls as [|l ls]; [congruence|]. cbn [map].
  apply reject_text; auto.
  - change (comment_event l :: map comment_event ls) with (map comment_event (l :: ls)). apply block_events.
  - change (comment_event l :: map comment_event ls) with (map comment_event (l :: ls)).
    rewrite values_of_comment_events. exact Hn.
Qed.

Theorem reject_Hm6 : forall k f ev rest, k < 11 -> fields_plain f = true -> is_block_ev ev = false ->
  invalid_count (map comment_event (hm6_lines k f) ++ ev :: rest) = 1.
Proof.
  intros k f ev rest Hk Hf He. apply reject_lines; auto.
  - intros E. assert (H : List.length (hm6_lines k f) = 10) by (unfold hm6_lines; rewrite length_remove_nth; simpl; lia).
    rewrite E in H. discriminate.
  - apply hm6_rejected; auto.
Qed.

Theorem reject_Hm7 : forall last n f ev rest, n <> 74 -> fields_plain f = true -> is_block_ev ev = false ->
  invalid_count (map comment_event (hm7_lines last n f) ++ ev :: rest) = 1.
Proof.
  intros last n f ev rest Hn Hf He. apply reject_lines; auto.
  - destruct last; discriminate.
  - apply hm7_rejected; auto.
Qed.

Theorem reject_Hm8 : forall k x f ev rest, (k = 5 \/ k = 7 \/ k = 8) -> fields_plain f = true ->
  no_char 42 x = true -> starts_with (keyword_of k) (textline x (art_of k)) = false ->
  is_block_ev ev = false ->
  invalid_count (map comment_event (hm8_lines k x f) ++ ev :: rest) = 1.
Proof.
  intros k x f ev rest Hk Hf Hx Hn He. apply reject_lines; auto.
  - destruct Hk as [ -> | [ -> | -> ] ]; discriminate.
  - apply hm8_rejected; auto.
Qed.

(* Hm4, one line only: line k+1 of the header written as a // comment (whatever the other lines are written as
   afterwards): the k block comments before it are checked alone, or nothing was accumulated *)
Theorem reject_line_as_line_comment : forall k f rest, k < 11 -> fields_plain f = true ->
  invalid_count (hm4k_events k f ++ rest) = 1.
Proof.
  intros k f rest Hk Hf. unfold hm4k_events. rewrite <- !app_assoc. cbn [app].
  destruct k as [|k].
  - cbn [firstn map app]. apply reject_first_not_block. reflexivity.
  - apply reject_lines.
    + unfold template, template_mids. cbn [map firstn]. discriminate.
    + reflexivity.
    + apply too_few_comments_rejected.
      * apply Forall_firstn. apply template_clines. exact Hf.
      * rewrite firstn_length. lia.
Qed.

(* a // comment above an otherwise perfect header *)
Theorem reject_line_comment_above : forall x f rest, invalid_count (line_comment_event x :: header_events f ++ rest) = 1.
Proof. intros x f rest. apply reject_first_not_block. reflexivity. Qed.

(* the "non-comment statement follows" guard cannot be dropped: finding C13-comments-only *)
Theorem reject_refuted_comments_only :
  exists f, fields_ok f = true /\ invalid_count (map comment_event (hm6_lines 3 f)) = 0.
Proof. exists hud_fields. split; vm_compute; reflexivity. Qed.

(* the registry schedule of CheckHeader, the other mentions of its state/code in the package, the initial state *)
Lemma schedule_and_footprint :
  header_check_schedule = ([], false, true, false) /\
  header_other_mentions =
    [("norminette/colors.py"%string, "constant INVALID_HEADER"%string);
     ("norminette/context.py"%string, "writes self.header"%string);
     ("norminette/context.py"%string, "writes self.header_parsed"%string);
     ("norminette/context.py"%string, "writes self.header_started"%string);
     ("norminette/norm_error.py"%string, "constant INVALID_HEADER"%string)] /\
  ctx_init = mkhs false false [] [].
Proof. repeat split; reflexivity. Qed.

(* =================================================================== 8. non-vacuity *)
Example hud_is_the_sample : template hud_fields = sample_header_1012.
Proof. vm_compute. reflexivity. Qed.

Example hud_fields_ok : fields_ok hud_fields = true.
Proof. reflexivity. Qed.

Example hud_accepted : invalid_count (header_events hud_fields ++ [empty_line_event; code_event]) = 0.
Proof. vm_compute. reflexivity. Qed.

(* the former finding, now accepted: // comment, indented comment, block comment, then code *)
Example hud_comment_below_accepted :
  map invalid_count
    [header_events hud_fields ++ [line_comment_event (s " note"); empty_line_event; code_event];
     header_events hud_fields ++ [indented_comment_event; empty_line_event; code_event];
     header_events hud_fields ++ [comment_event (s "/* note */"); line_comment_event (s " x"); code_event];
     header_events hud_fields ++ [line_comment_event (s " only a comment follows")]]
  = [0; 0; 0; 0].
Proof. vm_compute. reflexivity. Qed.

(* // first, and one header line written as // : exactly one *)
Example hud_line_comment_variants_rejected :
  map invalid_count
    [line_comment_event (s " x") :: header_events hud_fields ++ [empty_line_event];
     hm4k_events 0 hud_fields ++ [empty_line_event]; hm4k_events 5 hud_fields ++ [empty_line_event];
     hm4k_events 10 hud_fields ++ [empty_line_event];
     map comment_event (hm7_lines true 73 hud_fields) ++ [line_comment_event (s " x"); code_event];
     map comment_event (hm6_lines 4 hud_fields) ++ [indented_comment_event; code_event]]
  = [1; 1; 1; 1; 1; 1].
Proof. vm_compute. reflexivity. Qed.

Example hud_mutations_rejected :
  map invalid_count
    [[code_event]; code_event :: header_events hud_fields; empty_line_event :: header_events hud_fields;
     hm4_events hud_fields ++ [empty_line_event]; hm5_events hud_fields ++ [empty_line_event];
     map comment_event (hm6_lines 1 hud_fields) ++ [empty_line_event];
     map comment_event (hm7_lines false 73 hud_fields) ++ [empty_line_event];
     map comment_event (hm7_lines true 75 hud_fields) ++ [empty_line_event];
     map comment_event (hm8_lines 5 (s "vgauther <vgauther@student.42.fr>") hud_fields) ++ [empty_line_event];
     map comment_event (hm8_lines 7 (s "Create: 2018/03/29 13:47:14 by vgauther") hud_fields) ++ [empty_line_event]]
  = [1; 1; 1; 1; 1; 1; 1; 1; 1; 1].
Proof. vm_compute. reflexivity. Qed.

Example hm8_guard_satisfiable :
  starts_with (keyword_of 5) (textline (s "vgauther <vgauther@student.42.fr>") (art_of 5)) = false /\
  starts_with (keyword_of 8) (textline (s "Update: x y by z") (art_of 8)) = false.
Proof. split; reflexivity. Qed.

(* a matcher example on a text that is not a template instance: a long file name is truncated *)
Example long_name_accepted :
  searchb header_re (lines_text (template
    (mkfields (repeat 97%N 100) (s "a b") [] (s "d") (s "t") [] (repeat 100%N 20) (repeat 116%N 11) (s "zz")))) = true.
Proof. vm_compute. reflexivity. Qed.

(* two characters more in date+time cut the " by " (one more is still saved by the leading blank of the
   ASCII art): no longer a header, so a bound on the stamps is needed *)
Example stamps_bound_needed :
  searchb header_re (lines_text (template
    (mkfields (s "f.c") (s "u") (s "m") (s "d") (s "t") [] (repeat 100%N 20) (repeat 116%N 13) (s "zz")))) = false.
Proof. vm_compute. reflexivity. Qed.
