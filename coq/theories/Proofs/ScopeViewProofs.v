(* C01: the scope-name / indentation part of the context view, tied to the scope-trace model (Model/ScopeTrace.v over
   Gen/ScopeOps.v) instead of being assumed.
   1. Gen/ScopeIndent.v (regenerated from scope.py on every run): a scope's indent is its parent's + 1, 0 without parent, and
      nothing else writes it - so the indentation of the current scope is the length of the scope chain minus one.
   2. For EVERY statement trace (no well-nestedness needed) that the model can run from the initial state, the chain is
      non-global scopes on top of exactly one GlobalScope at the bottom (run_depth_inv).  Hence: the current scope is the
      global one  <->  the chain has length 1  <->  the indentation is 0.
   3. `view_of q v`: the view a check sees at a statement reached with model state q.  The checks' scope-name hypotheses
      "at global scope" / "not at global scope" become facts about the indentation, which CheckLineIndent's hypothesis equates
      with the number of leading tabs of the line. *)
From NV Require Import Model.Base Model.RuleChecks Model.ScopeBase Gen.ScopeOps Gen.ScopeIndent Model.ScopeTrace
  Proofs.StrOrder Proofs.ScopeTraceProofs.
From Coq Require Import Lia String.
Local Open Scope Z_scope.

Lemma scope_indent_tie :
  scope_indent_rule = "parent.indent + 1 if parent is not None else 0"%string /\
  indent_write_sites =
    ["norminette/context.py: self.indent = 0"; "norminette/rules/is_preprocessor_statement.py: context.preproc.indent += 1";
     "norminette/rules/is_preprocessor_statement.py: context.preproc.indent += 1";
     "norminette/rules/is_preprocessor_statement.py: context.preproc.indent += 1";
     "norminette/rules/is_preprocessor_statement.py: context.preproc.indent -= 1";
     "norminette/scope.py: self.indent = parent.indent + 1 if parent is not None else 0"]%string.
Proof. split; reflexivity. Qed.

(* ------------------------------------------------------------------ the shape of every reachable chain *)
Definition ng (k : str) : Prop := str_eqb k k_global = false.
Definition kinds (c : list sc) : list str := map s_kind c.
Definition kinds_inv (ks : list str) : Prop := exists ks1, ks = (ks1 ++ [k_global])%list /\ Forall ng ks1.

Lemma inv_cons k ks : ng k -> kinds_inv ks -> kinds_inv (k :: ks).
Proof. intros Hk [ks1 [-> H]]. exists (k :: ks1). split; [reflexivity|]. now constructor. Qed.
Lemma inv_tl k k2 r : kinds_inv (k :: k2 :: r) -> kinds_inv (k2 :: r).
Proof.
  intros [ks1 [E H]]. destruct ks1 as [|a ks1]; [destruct r; discriminate|]. cbn [app] in E. inversion E; subst.
  exists ks1. split; [assumption|]. now inversion H.
Qed.
Lemma inv_head_global k r : kinds_inv (k :: r) -> (str_eqb k k_global = true <-> r = []).
Proof.
  intros [ks1 [E H]]. destruct ks1 as [|a ks1]; cbn [app] in E; inversion E; subst.
  - split; [reflexivity|intros _; apply str_eqb_refl].
  - inversion H; subst. unfold ng in *. split; [congruence|]. intros Q. destruct ks1; discriminate.
Qed.

Lemma inner_sites_nonglobal : forallb (fun x => negb (str_eqb (snd (fst x)) k_global)) inner_sites = true.
Proof. vm_compute. reflexivity. Qed.
Lemma inner_multi_nonglobal r cls m : inner_multi r cls = Some m -> ng cls.
Proof.
  unfold inner_multi. destruct (find _ inner_sites) as [[[r0 c0] m0]|] eqn:F; [|discriminate]. intros _.
  apply find_some in F as [Hin Hc]. cbn [fst snd] in Hc. apply andb_true_iff in Hc as [_ Hc]. apply str_eqb_eq in Hc. subst c0.
  pose proof inner_sites_nonglobal as A. rewrite forallb_forall in A. specialize (A _ Hin). cbn [fst snd] in A.
  now apply negb_true_iff in A.
Qed.
Lemma block_classes_nonglobal :
  forallb (fun kv => negb (str_eqb (snd kv) k_global)) block_start_classes = true /\ str_eqb block_start_default k_global = false.
Proof. split; vm_compute; reflexivity. Qed.
Lemma assoc_in' k (l : list (str * str)) v : assoc k l = Some v -> exists k', In (k', v) l.
Proof.
  induction l as [|[a b] l IH]; cbn [assoc]; [discriminate|]. destruct (str_eqb k a).
  - intros H; inversion H; subst. exists a. now left.
  - intros H. destruct (IH H) as [k' Hk]. exists k'. now right.
Qed.
Lemma scan_nonglobal : forall hist lines cls, block_start_scan hist lines = BsNew cls -> ng cls.
Proof.
  induction hist as [|item r IH]; intros lines cls; cbn [block_start_scan]; [discriminate|].
  destruct (str_in item block_start_skipped); [apply IH|].
  destruct (negb (str_in item block_start_openers) || str_in item block_start_openers && (lines >=? 1)); [|discriminate].
  destruct block_classes_nonglobal as [A B].
  destruct (assoc item block_start_classes) as [c|] eqn:E; intros H; injection H as <-; [|exact B].
  destruct (assoc_in' _ _ _ E) as [k' Hin]. rewrite forallb_forall in A. specialize (A _ Hin). cbn [snd] in A. now apply negb_true_iff in A.
Qed.

Definition sub_ok (sub : option subref) : Prop := forall x, sub = Some (SubChild x) -> ng (s_kind x).

Lemma ctx_update_inv : forall fuel hist c sub c' sub', kinds_inv (kinds c) -> sub_ok sub ->
  ctx_update fuel hist c sub = Some (c', sub') -> kinds_inv (kinds c').
Proof.
  induction fuel as [|f IH]; intros hist c sub c' sub' Hc Hs; cbn [ctx_update]; [discriminate|].
  destruct (match hist with h :: _ => str_in h update_skipped | [] => false end); [intros H; inversion H; subst; exact Hc|].
  set (cs := match sub with Some r => (apply_sub c r, None) | None => (c, sub) end).
  assert (Hc1 : fst cs <> [] -> kinds_inv (kinds (fst cs))).
  { unfold cs. destruct sub as [[x|]|]; cbn [fst apply_sub]; intros Hne.
    - cbn [kinds map]. apply inv_cons; [apply Hs; reflexivity|exact Hc].
    - destruct c as [|h [|p r]]; cbn [tl] in *; try congruence. cbn [kinds map] in *. now apply inv_tl in Hc.
    - exact Hc. }
  destruct cs as [c1 s1]. cbn [fst] in Hc1. destruct c1 as [|h [|p r]]; [discriminate| |].
  - destruct (_ && _ && _); [discriminate|]. intros H; inversion H; subst. apply Hc1. discriminate.
  - destruct (_ && _ && _).
    + apply IH; [|intros x Hx; discriminate]. specialize (Hc1 ltac:(discriminate)). cbn [kinds map] in *. apply inv_tl in Hc1. exact Hc1.
    + intros H; inversion H; subst. apply Hc1. discriminate.
Qed.

Lemma step_inv q x q' : kinds_inv (kinds (chain q)) -> step q x = Some q' -> kinds_inv (kinds (chain q')).
Proof.
  intros Hq. unfold step.
  assert (PE : forall c2 sub, primary_effect q x = Some (c2, sub) -> kinds c2 = kinds (chain q) /\ sub_ok sub).
  { unfold primary_effect. destruct (chain q) as [|h rest]; [discriminate|]. intros c2 sub.
    destruct (str_eqb (st_rule x) r_block_start).
    - destruct (block_start_scan (hist q) (s_lines h)) eqn:B; intros H; inversion H; subst; (split; [reflexivity|]); intros y Hy; try discriminate.
      inversion Hy; subst. cbn [new_scope s_kind]. exact (scan_nonglobal _ _ _ B).
    - destruct (str_eqb (st_rule x) r_block_end).
      + unfold block_end_effect. destruct (negb (str_eqb (s_kind h) k_control)).
        * destruct rest as [|p r]; intros H; inversion H; subst; (split; [reflexivity|]); intros y Hy; discriminate.
        * intros H; inversion H; subst. split; [reflexivity|]. intros y Hy; discriminate.
      + destruct (st_opens x) as [cls|]; [|intros H; inversion H; subst; split; [reflexivity|intros y Hy; discriminate]].
        destruct (inner_multi (st_rule x) cls) as [m|] eqn:M; [|discriminate]. intros H; inversion H; subst. split; [reflexivity|].
        intros y Hy. inversion Hy; subst. cbn [new_scope s_kind]. exact (inner_multi_nonglobal _ _ _ M). }
  destruct (primary_effect q x) as [[c2 sub]|]; [|discriminate]. destruct (PE c2 sub eq_refl) as [K S]. clear PE.
  destruct c2 as [|h rest]; [discriminate|].
  destruct (line_count_run _ _ _ _) as [l e2].
  destruct (ctx_update _ _ _ _) as [[c s']|] eqn:U; [|discriminate]. intros H; inversion H; subst. cbn [chain].
  refine (ctx_update_inv _ _ _ _ _ _ _ S U). rewrite <- K in Hq. cbn [kinds map s_kind add_instr] in *. exact Hq.
Qed.

(* every chain the model can reach from the initial state: non-global scopes above one GlobalScope *)
Theorem run_depth_inv : forall l q q', kinds_inv (kinds (chain q)) -> run q l = Some q' -> kinds_inv (kinds (chain q')).
Proof.
  induction l as [|x l IH]; intros q q' Hq; cbn [run]; [intros H; inversion H; subst; exact Hq|].
  destruct (step q x) as [q1|] eqn:S; [|discriminate]. apply IH. exact (step_inv _ _ _ Hq S).
Qed.
Lemma state0_inv : kinds_inv (kinds (chain state0)).
Proof. exists []. split; [reflexivity|constructor]. Qed.

(* ------------------------------------------------------------------ the view at a statement *)
(* what a check sees when the model is in state q: scope name = class of the current scope, indentation = depth of the chain
   (scope_indent_tie), history = the model's history *)
Definition view_of (q : state) (v : view) : Prop :=
  match chain q with
  | h :: _ => v_scope_name v = s_kind h /\ v_scope_indent v = zlen (chain q) - 1 /\ v_history v = hist q
              /\ v_scope_global v = str_eqb (s_kind h) k_global
  | [] => False
  end.

Theorem traced_scope_name : forall l q v, run state0 l = Some q -> view_of q v ->
  (str_eqb (v_scope_name v) (s "GlobalScope") = true <-> v_scope_indent v = 0) /\ 0 <= v_scope_indent v.
Proof.
  intros l q v Hr Hv. pose proof (run_depth_inv l state0 q state0_inv Hr) as Hi. unfold view_of in Hv.
  destruct (chain q) as [|h r] eqn:C; [destruct Hv|]. destruct Hv as (Hn & Hd & _ & _). cbn [kinds map] in Hi.
  pose proof (inv_head_global _ _ Hi) as G. rewrite Hn, Hd. unfold zlen. cbn [List.length].
  change (s "GlobalScope") with k_global. split; [|lia]. rewrite G. split.
  - intros E. apply map_eq_nil in E. subst. cbn. lia.
  - intros E. destruct r; [reflexivity|cbn [List.length] in E; lia].
Qed.
