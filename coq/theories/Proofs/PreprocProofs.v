(* Token-local theorems about the generated model of CheckPreprocessorIndent (Gen/PreprocChecks.v), property C02:
   operators P04 P05 P06 (spacing between a directive name and its argument), P09 P12 (column 1, file level only),
   P10 P11 (indentation of the directive name).  Unbounded in the tokens; no evaluation of concrete inputs. *)
From Coq Require Import List ZArith Bool Lia.
Import ListNotations.
From NV Require Import Model.Base Model.Lexer Model.RuleChecks Model.PreprocBase Gen.PreprocChecks.
Open Scope Z_scope.

Lemma Ok_inj_pp : forall (A : Type) (a b : A), Ok a = Ok b -> a = b.
Proof. intros A a b H. exact (f_equal (fun o => match o with Ok x => x | _ => a end) H). Qed.

Definition at_tok (c : str) (t : token) : em := (c, t_line t, t_col t).
Definition codes_in (l : list str) (T : list em) : Prop := Forall (fun e => In (em_code e) l) T.

Lemma codes_in_nil : forall l, codes_in l []. Proof. intros; constructor. Qed.
Lemma codes_in_app : forall l a b, codes_in l a -> codes_in l b -> codes_in l (a ++ b).
Proof. intros; apply Forall_app; split; assumption. Qed.
Lemma codes_in_one : forall l c x y, In c l -> codes_in l [(c, x, y)].
Proof. intros; constructor; [exact H | constructor]. Qed.

Lemma emit_ok : forall c ot E E', emit c ot E = Ok E' -> exists t, ot = Some t /\ E' = E ++ [at_tok c t].
Proof. intros c [t|] E E' H; simpl in H; [|discriminate]. apply Ok_inj_pp in H. exists t; split; [reflexivity | symmetry; exact H]. Qed.

Lemma bind_ok : forall (A B : Type) (a : A) (f : A -> outcome B), bind (Ok a) f = f a.
Proof. reflexivity. Qed.

Ltac fin := subst; repeat rewrite <- app_assoc; simpl; repeat rewrite app_nil_r; reflexivity.

(* ---- the argument part *)
Definition args_codes : list str := [ppi_c_nospace; ppi_c_tab2; ppi_c_consec].
Definition args_reached (toks : list token) (i4 : Z) : bool :=
  negb (truthy (check1 toks (skip_ws_c toks i4) ppi_nl2) || is_none (peek toks (skip_ws_c toks i4))).
Definition sp_end (toks : list token) (i4 : Z) : Z := skip_while toks (fun x => truthy (check1 toks x ppi_sp3)) i4.

Definition nospace_part (toks : list token) (i4 : Z) : list em :=
  if negb (truthy (checkl toks i4 [ppi_sp2; ppi_tab2])) then match peek toks i4 with Some t => [at_tok ppi_c_nospace t] | None => [] end else [].
Definition tab2_part (toks : list token) (i4 : Z) : list em :=
  if truthy (check1 toks (sp_end toks i4) ppi_tab3) then match peek toks (sp_end toks i4) with Some t => [at_tok ppi_c_tab2 t] | None => [] end else [].
Definition consec_part (toks : list token) (i4 : Z) : list em :=
  if skip_ws toks i4 - i4 >? 1 then match peek toks i4 with Some t => [at_tok ppi_c_consec t] | None => [] end else [].
Definition args_part (toks : list token) (i4 : Z) : list em :=
  if args_reached toks i4 then nospace_part toks i4 ++ tab2_part toks i4 ++ consec_part toks i4 else [].

(* exact emissions of the argument part *)
Lemma ppi_args_exact : forall toks i4 E4 E, ppi_args toks i4 E4 = Ok E -> E = E4 ++ args_part toks i4.
Proof.
  intros toks i4 E4 E H. unfold ppi_args in H. unfold args_part, args_reached.
  destruct (truthy (check1 toks (skip_ws_c toks i4) ppi_nl2) || is_none (peek toks (skip_ws_c toks i4))) eqn:R; simpl.
  - apply Ok_inj_pp in H. rewrite app_nil_r. symmetry; exact H.
  - unfold nospace_part, tab2_part, consec_part, sp_end.
    destruct (negb (truthy (checkl toks i4 [ppi_sp2; ppi_tab2]))) eqn:C1.
    + destruct (emit ppi_c_nospace (peek toks i4) E4) as [E5| | |] eqn:M1; simpl in H; try discriminate.
      apply emit_ok in M1. destruct M1 as [t1 [P1 ->]]. rewrite P1.
      destruct (truthy (check1 toks (skip_while toks (fun x => truthy (check1 toks x ppi_sp3)) i4) ppi_tab3)) eqn:C2.
      * destruct (emit ppi_c_tab2 _ (E4 ++ [at_tok ppi_c_nospace t1])) as [E6| | |] eqn:M2; simpl in H; try discriminate.
        apply emit_ok in M2. destruct M2 as [t2 [P2 ->]]. rewrite P2.
        destruct (skip_ws toks i4 - i4 >? 1) eqn:C3.
        -- apply emit_ok in H. destruct H as [t3 [P3 ->]]. rewrite P1 in P3. injection P3 as <-. fin.
        -- apply Ok_inj_pp in H. fin.
      * simpl in H. destruct (skip_ws toks i4 - i4 >? 1) eqn:C3.
        -- apply emit_ok in H. destruct H as [t3 [P3 ->]]. rewrite P1 in P3. injection P3 as <-. fin.
        -- apply Ok_inj_pp in H. fin.
    + simpl in H.
      destruct (truthy (check1 toks (skip_while toks (fun x => truthy (check1 toks x ppi_sp3)) i4) ppi_tab3)) eqn:C2.
      * destruct (emit ppi_c_tab2 _ E4) as [E6| | |] eqn:M2; simpl in H; try discriminate.
        apply emit_ok in M2. destruct M2 as [t2 [P2 ->]]. rewrite P2.
        destruct (skip_ws toks i4 - i4 >? 1) eqn:C3.
        -- apply emit_ok in H. destruct H as [t3 [P3 ->]]. rewrite P3. fin.
        -- apply Ok_inj_pp in H. fin.
      * simpl in H. destruct (skip_ws toks i4 - i4 >? 1) eqn:C3.
        -- apply emit_ok in H. destruct H as [t3 [P3 ->]]. rewrite P3. fin.
        -- apply Ok_inj_pp in H. fin.
Qed.

(* ---- the indentation part *)
Definition expected_indent (toks : list token) (n : Z) (t3 : token) (pindent : Z) (ind : Z) : Prop :=
  exists i1, ppi_indent_of toks n t3 pindent = Ok i1 /\ ind = Z.max 0 i1.
Definition has_args (toks : list token) (n : Z) (t3 : token) : bool :=
  truthy (checkl toks n [ppi_id2; ppi_if2]) && optstr_in (t_val t3) ppi_argumented.
Definition indent_part (h t3 : token) (ind : Z) : list em :=
  (if t_col t3 - t_col h - 1 >? ind then [at_tok ppi_c_many h] else []) ++ (if t_col t3 - t_col h - 1 <? ind then [at_tok ppi_c_bad h] else []).

Lemma ppi_body_exact : forall toks n h t3 pindent E3 E, ppi_body toks n h t3 pindent E3 = Ok E ->
  exists ind, expected_indent toks n t3 pindent ind /\
    E = E3 ++ indent_part h t3 ind ++ (if has_args toks n t3 then args_part toks (n + 1) else []).
Proof.
  intros toks n h t3 pindent E3 E H. unfold ppi_body in H.
  destruct (ppi_indent_of toks n t3 pindent) as [i1| | |] eqn:I; unfold bind in H; cbv beta iota zeta in H; try discriminate.
  exists (Z.max 0 i1). split; [exists i1; split; [exact I | reflexivity]|].
  unfold has_args, indent_part, at_tok.
  destruct (truthy (checkl toks n [ppi_id2; ppi_if2]) && optstr_in (t_val t3) ppi_argumented).
  - apply ppi_args_exact in H. rewrite H. fin.
  - apply Ok_inj_pp in H. fin.
Qed.

(* ---- the whole check *)
Definition start_part (h : token) : list em := if negb (t_col h =? 1) then [at_tok ppi_c_start h] else [].
Definition global_part (glob : bool) (h : token) : list em := if glob then [] else [at_tok ppi_c_global h].
Definition name_pos (toks : list token) : Z := skip_ws toks (skip_ws toks 0 + 1).
Definition empty_directive (toks : list token) : bool := truthy (check1 toks (skip_ws_c toks (skip_ws toks 0 + 1)) ppi_nl1).
Definition sp1_end (toks : list token) : Z := skip_while toks (fun x => truthy (check1 toks x ppi_sp1)) (skip_ws toks 0 + 1).
Definition tab1_part (toks : list token) : list em :=
  if truthy (check1 toks (sp1_end toks) ppi_tab1) then match peek toks (sp1_end toks) with Some t => [at_tok ppi_c_tab1 t] | None => [] end else [].

(* EXACT emissions whenever the check ends normally and the line starts with a token h (the `#`) *)
Theorem ppi_exact : forall toks glob pindent h E, peek toks (skip_ws toks 0) = Some h ->
  check_preproc_indent toks glob pindent = Ok E ->
  (empty_directive toks = true /\ E = start_part h ++ global_part glob h) \/
  (empty_directive toks = false /\ exists t3 ind, peek toks (name_pos toks) = Some t3 /\ expected_indent toks (name_pos toks) t3 pindent ind /\
     E = start_part h ++ global_part glob h ++ tab1_part toks ++ indent_part h t3 ind ++
         (if has_args toks (name_pos toks) t3 then args_part toks (name_pos toks + 1) else [])).
Proof.
  intros toks glob pindent h E Hh H. unfold check_preproc_indent in H. cbv zeta in H. rewrite Hh in H. cbv beta iota in H.
  fold (empty_directive toks) in H. fold (sp1_end toks) in H. fold (name_pos toks) in H.
  set (E1 := if negb (t_col h =? 1) then _ else _) in H.
  assert (HS : E1 = start_part h) by reflexivity. clearbody E1. subst E1.
  assert (G : (if glob then Ok (start_part h) else emit ppi_c_global (Some h) (start_part h)) = Ok (start_part h ++ global_part glob h)).
  { unfold global_part, at_tok. destruct glob; simpl; [rewrite app_nil_r|]; reflexivity. }
  rewrite G in H. rewrite bind_ok in H.
  destruct (empty_directive toks) eqn:Ed.
  - left. split; [reflexivity|]. apply Ok_inj_pp in H. symmetry. exact H.
  - right. split; [reflexivity|].
    assert (T : (if truthy (check1 toks (sp1_end toks) ppi_tab1) then emit ppi_c_tab1 (peek toks (sp1_end toks)) (start_part h ++ global_part glob h)
                 else Ok (start_part h ++ global_part glob h)) = Ok ((start_part h ++ global_part glob h) ++ tab1_part toks) \/
                (if truthy (check1 toks (sp1_end toks) ppi_tab1) then emit ppi_c_tab1 (peek toks (sp1_end toks)) (start_part h ++ global_part glob h)
                 else Ok (start_part h ++ global_part glob h)) = Crash AttributeError).
    { unfold tab1_part. destruct (truthy (check1 toks (sp1_end toks) ppi_tab1)).
      - destruct (peek toks (sp1_end toks)); simpl; [left | right]; reflexivity.
      - left. rewrite app_nil_r. reflexivity. }
    destruct T as [T | T]; rewrite T in H; [|discriminate]. rewrite bind_ok in H.
    destruct (peek toks (name_pos toks)) as [t3|] eqn:P3; [|discriminate].
    unfold need_tok in H. apply ppi_body_exact in H. destruct H as [ind [X ->]].
    exists t3, ind. split; [reflexivity|]. split; [exact X|]. fin.
Qed.

(* ---- the operators *)
Section Operators.
  Variables (toks : list token) (glob : bool) (pindent : Z) (h : token) (E : list em).
  Hypothesis Hh : peek toks (skip_ws toks 0) = Some h.
  Hypothesis Hrun : check_preproc_indent toks glob pindent = Ok E.

  (* P09: a `#` that is not in column 1 is reported *)
  Theorem ppi_start_reported : t_col h <> 1 -> In (at_tok ppi_c_start h) E.
  Proof.
    intro C. assert (S : start_part h = [at_tok ppi_c_start h]).
    { unfold start_part. destruct (t_col h =? 1) eqn:Q; [apply Z.eqb_eq in Q; contradiction | reflexivity]. }
    destruct (ppi_exact _ _ _ _ _ Hh Hrun) as [[_ ->] | [_ [t3 [ind [_ [_ ->]]]]]]; rewrite S; simpl; left; reflexivity.
  Qed.

  (* P12: a directive anywhere but at file level is reported *)
  Theorem ppi_global_reported : glob = false -> In (at_tok ppi_c_global h) E.
  Proof.
    intro C. destruct (ppi_exact _ _ _ _ _ Hh Hrun) as [[_ ->] | [_ [t3 [ind [_ [_ ->]]]]]]; rewrite C; unfold global_part;
      apply in_or_app; right; simpl; left; reflexivity.
  Qed.

  Section Named.
    Hypothesis Hne : empty_directive toks = false.
    Variable t3 : token.
    Hypothesis H3 : peek toks (name_pos toks) = Some t3.

    Lemma named_exact : exists ind, expected_indent toks (name_pos toks) t3 pindent ind /\
       E = start_part h ++ global_part glob h ++ tab1_part toks ++ indent_part h t3 ind ++
         (if has_args toks (name_pos toks) t3 then args_part toks (name_pos toks + 1) else []).
    Proof.
      destruct (ppi_exact _ _ _ _ _ Hh Hrun) as [[X _] | [_ [t3' [ind [P [X ->]]]]]]; [rewrite Hne in X; discriminate|].
      rewrite H3 in P. injection P as <-. exists ind. split; [exact X | reflexivity].
    Qed.

    (* P10 / P11: the directive name is too far from / too close to the `#` *)
    Theorem ppi_many_reported : forall ind, expected_indent toks (name_pos toks) t3 pindent ind ->
      t_col t3 - t_col h - 1 > ind -> In (at_tok ppi_c_many h) E.
    Proof.
      intros ind [i1 [I1 ->]] C. destruct named_exact as [ind' [[i1' [I1' ->]] ->]]. rewrite I1 in I1'. apply Ok_inj_pp in I1'. subst i1'.
      apply in_or_app; right. apply in_or_app; right. apply in_or_app; right. apply in_or_app; left.
      unfold indent_part. apply in_or_app; left. destruct (t_col t3 - t_col h - 1 >? Z.max 0 i1) eqn:Q; [left; reflexivity|].
      rewrite Z.gtb_ltb in Q. rewrite Z.ltb_ge in Q. lia.
    Qed.
    Theorem ppi_bad_reported : forall ind, expected_indent toks (name_pos toks) t3 pindent ind ->
      t_col t3 - t_col h - 1 < ind -> In (at_tok ppi_c_bad h) E.
    Proof.
      intros ind [i1 [I1 ->]] C. destruct named_exact as [ind' [[i1' [I1' ->]] ->]]. rewrite I1 in I1'. apply Ok_inj_pp in I1'. subst i1'.
      apply in_or_app; right. apply in_or_app; right. apply in_or_app; right. apply in_or_app; left.
      unfold indent_part. apply in_or_app; right. destruct (t_col t3 - t_col h - 1 <? Z.max 0 i1) eqn:Q; [left; reflexivity|].
      rewrite Z.ltb_ge in Q. lia.
    Qed.

    (* P04 P05 P06: between the name of an argumented directive and its argument *)
    Hypothesis Hargs : has_args toks (name_pos toks) t3 = true.
    Hypothesis Hreach : args_reached toks (name_pos toks + 1) = true.
    Lemma args_in : forall e, In e (nospace_part toks (name_pos toks + 1) ++ tab2_part toks (name_pos toks + 1) ++ consec_part toks (name_pos toks + 1)) -> In e E.
    Proof.
      intros e X. destruct named_exact as [ind [_ ->]]. rewrite Hargs. unfold args_part. rewrite Hreach.
      apply in_or_app; right. apply in_or_app; right. apply in_or_app; right. apply in_or_app; right. exact X.
    Qed.
    Theorem ppi_nospace_reported : forall t, peek toks (name_pos toks + 1) = Some t ->
      str_in (t_type t) [ppi_sp2; ppi_tab2] = false -> In (at_tok ppi_c_nospace t) E.
    Proof.
      intros t P C. apply args_in. apply in_or_app; left. unfold nospace_part, checkl. rewrite P. cbv beta iota. rewrite C. cbv beta iota delta [truthy negb]. left; reflexivity.
    Qed.
    Theorem ppi_tab_reported : forall t, peek toks (sp_end toks (name_pos toks + 1)) = Some t ->
      str_eqb (t_type t) ppi_tab3 = true -> In (at_tok ppi_c_tab2 t) E.
    Proof.
      intros t P C. apply args_in. apply in_or_app; right. apply in_or_app; left. unfold tab2_part, check1. rewrite P. cbv beta iota. rewrite C. cbv beta iota delta [truthy]. left; reflexivity.
    Qed.
    Theorem ppi_consec_reported : forall t, peek toks (name_pos toks + 1) = Some t ->
      skip_ws toks (name_pos toks + 1) - (name_pos toks + 1) > 1 -> In (at_tok ppi_c_consec t) E.
    Proof.
      intros t P C. apply args_in. apply in_or_app; right. apply in_or_app; right. unfold consec_part. rewrite P.
      destruct (skip_ws toks (name_pos toks + 1) - (name_pos toks + 1) >? 1) eqn:Q; [left; reflexivity|].
      rewrite Z.gtb_ltb in Q. rewrite Z.ltb_ge in Q. lia.
    Qed.
  End Named.
End Operators.

(* ---- crash condition (property C05): the check ends normally or raises AttributeError, never anything else; and with a token at
   the start of the line and at the directive name it never raises unless a value-less IDENTIFIER is met *)
Definition oka {A} (r : outcome A) : Prop := match r with Ok _ => True | Crash AttributeError => True | _ => False end.
Lemma oka_bind : forall A B (x : outcome A) (f : A -> outcome B), oka x -> (forall a, oka (f a)) -> oka (bind x f).
Proof. intros A B [a| |e|] f H1 H2; simpl in *; try contradiction; [apply H2 | destruct e; try contradiction; exact I]. Qed.
Lemma oka_ok : forall A (a : A), oka (Ok a). Proof. intros; exact I. Qed.
Lemma oka_emit : forall c ot E, oka (emit c ot E). Proof. intros c [t|] E; exact I. Qed.
Lemma oka_need_tok : forall A ot (k : token -> outcome A), (forall t, oka (k t)) -> oka (need_tok ot k).
Proof. intros A [t|] k H; simpl; [apply H | exact I]. Qed.
Lemma oka_need_val : forall A o (k : str -> outcome A), (forall t, oka (k t)) -> oka (need_val o k).
Proof. intros A [t|] k H; simpl; [apply H | exact I]. Qed.
Ltac oka_tac := repeat first
  [ apply oka_ok | apply oka_emit | apply oka_bind; [|intros] | apply oka_need_tok; intros | apply oka_need_val; intros
  | match goal with |- oka (if ?c then _ else _) => destruct c end
  | progress cbv zeta ].

Theorem ppi_ok_or_attribute_error : forall toks glob pindent,
  (exists E, check_preproc_indent toks glob pindent = Ok E) \/ check_preproc_indent toks glob pindent = Crash AttributeError.
Proof.
  intros. assert (H : oka (check_preproc_indent toks glob pindent)).
  { unfold check_preproc_indent, ppi_body, ppi_indent_of, ppi_args. oka_tac. }
  destruct (check_preproc_indent toks glob pindent) as [E| |e|]; simpl in H; try contradiction.
  - left. exists E. reflexivity.
  - right. destruct e; try contradiction. reflexivity.
Qed.

