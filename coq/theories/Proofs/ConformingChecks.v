(* C01: the translated checks (Gen/RuleChecks.v, Gen/MoreChecks.v - regenerated from the source on every run) emit NOTHING
   on the statements of a conforming file.  Every theorem is about the generated function itself, for ANY token list /
   statement length / context view that satisfies the stated conforming conditions (unbounded in the program: `toks` is
   the whole remaining file).  The conditions are of three kinds:
     K  token kinds that no conforming unit contains (Spec.Conforming.forbidden_kinds; tied to the text by
        Proofs/ConformingProofs.conforming_text_tokens: the tokens of a rendered conforming text have the kinds lx_type says);
     P  positions (columns), which C09 / C03 (Proofs/LexMain, Proofs/WidthProofs) derive from the text;
     V  the context view at the statement (history, scope name, indentation), which the unmodelled primaries produce:
        given-view hypotheses, exercised by the search of tools/harness/c01.py. *)
From NV Require Import Model.Base Model.Lexer Model.RuleChecks Model.CounterBase Gen.RuleChecks Gen.MoreChecks Spec.Conforming
  Proofs.StrOrder Proofs.RuleChecksProofs Proofs.RuleChecksProofs2 Proofs.MoreChecksProofs.
From Coq Require Import Lia.
Local Open Scope Z_scope.

(* ------------------------------------------------------------------ token kinds *)
Definition free (kinds : list str) (toks : list token) : Prop := Forall (fun t => str_in (t_type t) kinds = false) toks.

Lemma peek_In toks i t : peek toks i = Some t -> In t toks.
Proof.
  unfold peek, py_nth. destruct ((0 <=? i) && (i <? zlen toks)); [apply nth_error_In|].
  destruct ((i <? 0) && (- zlen toks <=? i)); [apply nth_error_In|discriminate].
Qed.

Lemma str_in_false_eqb ty kinds x : str_in x kinds = false -> str_in ty kinds = true -> str_eqb x ty = false.
Proof.
  intros Hx Hty. destruct (str_eqb x ty) eqn:E; [|reflexivity]. apply str_eqb_eq in E. subst. congruence.
Qed.

Lemma free_check1 kinds toks i ty : free kinds toks -> str_in ty kinds = true ->
  truthy (check1 toks i ty) = false /\ is_true (check1 toks i ty) = false.
Proof.
  intros Hf Hty. unfold check1. destruct (peek toks i) as [t|] eqn:E; [|split; reflexivity].
  apply peek_In in E. unfold free in Hf. rewrite Forall_forall in Hf. specialize (Hf _ E).
  rewrite (str_in_false_eqb ty kinds _ Hf Hty). split; reflexivity.
Qed.

Lemma free_weaken kinds kinds' toks : free kinds toks -> (forall x, str_in x kinds' = true -> str_in x kinds = true) -> free kinds' toks.
Proof.
  unfold free. intros H Hs. rewrite Forall_forall in *. intros t Ht. specialize (H t Ht).
  destruct (str_in (t_type t) kinds') eqn:E; [|reflexivity]. apply Hs in E. congruence.
Qed.

Lemma free_forbidden toks : free forbidden_kinds toks -> forall ty, str_in ty forbidden_kinds = true ->
  forall i, truthy (check1 toks i ty) = false /\ is_true (check1 toks i ty) = false.
Proof. intros H ty Hty i. now apply (free_check1 forbidden_kinds). Qed.

(* ------------------------------------------------------------------ CheckTernary: silent (K) *)
Theorem ternary_silent toks scope v : free forbidden_kinds toks -> check_ternary toks scope v = Ok ([], v).
Proof.
  intros Hf. rewrite check_ternary_value. f_equal. f_equal.
  induction (zrange 0 scope) as [|i l IH]; [reflexivity|]. cbn [flat_map]. rewrite IH, app_nil_r.
  unfold tern_em. destruct (peek toks i) as [t|] eqn:E; [|reflexivity].
  apply peek_In in E. unfold free in Hf. rewrite Forall_forall in Hf. specialize (Hf _ E).
  rewrite (str_in_false_eqb ty_tern forbidden_kinds _ Hf eq_refl). reflexivity.
Qed.

(* ------------------------------------------------------------------ CheckLineLen: silent (P: no token of the statement beyond column 81;
   by C03_token_in_line every token that starts on a line of width <= 80 has column <= 81) *)
Theorem line_len_silent toks scope v : (forall t, In t (py_slice_to toks scope) -> t_col t <= 81) ->
  check_line_len toks scope v = Ok ([], v).
Proof.
  intros Hc. destruct (check_line_len_spec toks scope v) as [E [H1 [_ H3]]]. rewrite H1.
  destruct E as [|e E]; [reflexivity|]. exfalso. destruct (H3 e (or_introl eq_refl)) as [t [Ht [Hgt _]]].
  specialize (Hc t Ht). lia.
Qed.

(* ------------------------------------------------------------------ CheckLabel: silent (K: no goto, no colon anywhere) *)
Theorem label_silent toks scope v : free forbidden_kinds toks -> check_label toks scope v = Ok ([], v).
Proof.
  intros Hf. unfold check_label. cbv zeta.
  destruct (negb (str_in (v_scope_name v) [s "Function"; s "ControlStructure"])); [reflexivity|].
  destruct (free_forbidden toks Hf (s "GOTO") eq_refl (skip_ws toks 0)) as [-> _].
  destruct (is_false (check1 toks (skip_ws toks 0) (s "IDENTIFIER"))); [reflexivity|].
  destruct (free_forbidden toks Hf (s "COLON") eq_refl (skip_ws toks (skip_ws toks 0 + 1))) as [-> _]. reflexivity.
Qed.

(* ------------------------------------------------------------------ CheckManyInstructions: silent (P: the statement starts in column 1) *)
Theorem many_instructions_silent toks scope v t0 : peek toks 0 = Some t0 -> t_col t0 <= 1 ->
  check_many_instructions toks scope v = Ok ([], v).
Proof.
  intros H0 Hc. rewrite (check_many_instructions_value _ _ _ _ H0).
  replace (t_col t0 >? 1) with false by (symmetry; rewrite Z.gtb_ltb; apply Z.ltb_ge; lia). reflexivity.
Qed.

(* ------------------------------------------------------------------ CheckLineIndent: silent (V: k leading tabs = the indentation of the scope) *)
(* (a) after an empty line, a comment, a preprocessor line: not looked at *)
Theorem line_indent_skipped toks scope v h1 rest : v_history v = h1 :: rest -> str_in h1 indent_skipped = true ->
  check_line_indent toks scope v = Ok ([], v).
Proof.
  intros Hh Hs. unfold check_line_indent. cbv zeta. unfold hist_back. rewrite Hh. cbn [Nat.sub nth_error need_hist].
  fold indent_skipped. rewrite Hs. reflexivity.
Qed.
(* (b) a statement that is not a brace line, indented by exactly the scope's indentation *)
Theorem line_indent_silent toks scope v k h1 rest t0 :
  v_history v = h1 :: rest -> str_in h1 indent_skipped = false -> leading toks [ty_tab] k ->
  (forall t, peek toks (Z.of_nat k) = Some t -> str_in (t_type t) [s "LBRACE"; s "RBRACE"] = false) ->
  peek toks 0 = Some t0 -> v_scope_indent v = Z.of_nat k ->
  exists v', check_line_indent toks scope v = Ok ([], v') /\ v_scope_indent v' = v_scope_indent v.
Proof.
  intros Hh Hs Hl Hb H0 Hi. destruct (check_line_indent_value toks scope v k h1 rest t0 Hh Hs Hl Hb H0) as [v' [H1 H2]].
  exists v'. split; [|exact H2]. rewrite H1, Hi.
  replace (Z.of_nat k >? Z.of_nat k) with false by (symmetry; rewrite Z.gtb_ltb; apply Z.ltb_irrefl). reflexivity.
Qed.
(* (c) a closing brace, one tab less than the scope it closes *)
Theorem line_indent_rbrace_silent toks scope v k h1 rest t0 tb :
  v_history v = h1 :: rest -> str_in h1 indent_skipped = false -> leading toks [ty_tab] k ->
  peek toks (Z.of_nat k) = Some tb -> t_type tb = s "RBRACE" -> peek toks 0 = Some t0 ->
  v_scope_indent v = Z.of_nat k + 1 ->
  exists v', check_line_indent toks scope v = Ok ([], v').
Proof.
  intros Hh Hs Hl Hb Hty H0 Hi. unfold check_line_indent. cbv zeta. unfold hist_back. rewrite Hh. cbn [Nat.sub nth_error need_hist].
  fold indent_skipped. rewrite Hs. fold ty_tab.
  assert (Hbr : truthy (checkl toks (Z.of_nat k) [s "LBRACE"; s "RBRACE"]) = true).
  { rewrite (checkl_some _ _ _ _ Hb), Hty. reflexivity. }
  assert (Hr : is_true (check1 toks (Z.of_nat k) (s "RBRACE")) = true).
  { rewrite (check1_some _ _ _ _ Hb), Hty. reflexivity. }
  assert (Hgt : (v_scope_indent v >? 0) = true) by (rewrite Z.gtb_ltb; apply Z.ltb_lt; lia).
  destruct (negb (str_eqb h1 (s "IsPreprocessorStatement")) && v_scope_global v && v_include_allowed v);
    cbn [v_scope_indent set_include_allowed]; rewrite (skip_tabs_leading _ _ Hl), Hbr, Hgt; cbn [andb]; rewrite Hr, Hi;
    replace (Z.of_nat k + 1 - 1 >? Z.of_nat k) with false by (symmetry; rewrite Z.gtb_ltb; apply Z.ltb_ge; lia);
    replace (Z.of_nat k >? Z.of_nat k + 1 - 1) with false by (symmetry; rewrite Z.gtb_ltb; apply Z.ltb_ge; lia);
    eexists; reflexivity.
Qed.

(* (d) an opening brace: one tab less than the scope when the statement before it (blank / comment / preprocessor lines apart)
   is the control statement, function header or type declaration it belongs to - the scope is entered before the `{` *)
Fixpoint brace_parent (rest : list str) : bool :=
  match rest with
  | [] => false
  | x :: r => if str_eqb x (s "IsEmptyLine") || str_eqb x (s "IsComment") || str_eqb x (s "IsPreprocessorStatement") then brace_parent r
              else str_in x [s "IsControlStatement"; s "IsFuncDeclaration"; s "IsUserDefinedType"]
  end.

Lemma brace_hist_walk (g : Z) (E : list em) (v : view) : forall rest e,
  for_each rest (fun x_item (st : Z * Z * list em * view) => let '(x_expected, x_got, E, v) := st in
     if str_eqb x_item (s "IsEmptyLine") || str_eqb x_item (s "IsComment") || str_eqb x_item (s "IsPreprocessorStatement")
     then Ok (false, (x_expected, x_got, E, v))
     else if negb (str_in x_item [s "IsControlStatement"; s "IsFuncDeclaration"; s "IsUserDefinedType"])
          then Ok (true, (x_expected, x_got, E, v))
          else let x_expected := x_expected - 1 in Ok (true, (x_expected, x_got, E, v))) (e, g, E, v)
  = Ok (if brace_parent rest then e - 1 else e, g, E, v).
Proof.
  induction rest as [|x r IH]; intros e; cbn [for_each brace_parent]; [reflexivity|].
  destruct (str_eqb x (s "IsEmptyLine") || str_eqb x (s "IsComment") || str_eqb x (s "IsPreprocessorStatement")); [apply IH|].
  destruct (str_in x [s "IsControlStatement"; s "IsFuncDeclaration"; s "IsUserDefinedType"]); reflexivity.
Qed.

Lemma hist_without_newest v h1 rest : v_history v = h1 :: rest ->
  rev (py_slice_to (py_history v) (hist_len v - 1)) = rest.
Proof.
  intros Hh. unfold py_history, hist_len, py_slice_to, zlen. rewrite Hh. cbn [rev List.length].
  replace (Z.of_nat (S (Datatypes.length rest)) - 1 <? 0) with false by (symmetry; apply Z.ltb_ge; lia).
  replace (Z.to_nat (Z.of_nat (S (Datatypes.length rest)) - 1)) with (Datatypes.length (rev rest)) by (rewrite rev_length; lia).
  rewrite firstn_app, Nat.sub_diag, firstn_all. cbn [firstn]. rewrite app_nil_r. apply rev_involutive.
Qed.

Theorem line_indent_lbrace_silent toks scope v k h1 rest t0 tb :
  v_history v = h1 :: rest -> str_in h1 indent_skipped = false -> leading toks [ty_tab] k ->
  peek toks (Z.of_nat k) = Some tb -> t_type tb = s "LBRACE" -> peek toks 0 = Some t0 ->
  v_scope_indent v = Z.of_nat k + (if brace_parent rest then 1 else 0) ->
  exists v', check_line_indent toks scope v = Ok ([], v').
Proof.
  intros Hh Hs Hl Hb Hty H0 Hi. unfold check_line_indent. cbv zeta. unfold hist_back. rewrite Hh. cbn [Nat.sub nth_error need_hist].
  fold indent_skipped. rewrite Hs. fold ty_tab.
  assert (Hbr : truthy (checkl toks (Z.of_nat k) [s "LBRACE"; s "RBRACE"]) = true) by (rewrite (checkl_some _ _ _ _ Hb), Hty; reflexivity).
  assert (Hr : is_true (check1 toks (Z.of_nat k) (s "RBRACE")) = false) by (rewrite (check1_some _ _ _ _ Hb), Hty; reflexivity).
  assert (Fin : forall v0 : view, v_history v0 = h1 :: rest -> v_scope_indent v0 = v_scope_indent v ->
    exists v', (if truthy (checkl toks (Z.of_nat k) [s "LBRACE"; s "RBRACE"]) && (v_scope_indent v0 >? 0)
     then if is_true (check1 toks (Z.of_nat k) (s "RBRACE"))
          then (if v_scope_indent v0 - 1 >? Z.of_nat k then bind (emit (s "TOO_FEW_TAB") (peek toks 0) []) (fun E => Ok (E, v0))
                else if Z.of_nat k >? v_scope_indent v0 - 1 then bind (emit (s "TOO_MANY_TAB") (peek toks 0) []) (fun E => Ok (E, v0)) else Ok ([], v0))
          else bind (for_each (rev (py_slice_to (py_history v0) (hist_len v0 - 1)))
                 (fun x_item (st : Z * Z * list em * view) => let '(x_expected, x_got, E, v) := st in
                  if str_eqb x_item (s "IsEmptyLine") || str_eqb x_item (s "IsComment") || str_eqb x_item (s "IsPreprocessorStatement")
                  then Ok (false, (x_expected, x_got, E, v))
                  else if negb (str_in x_item [s "IsControlStatement"; s "IsFuncDeclaration"; s "IsUserDefinedType"])
                       then Ok (true, (x_expected, x_got, E, v))
                       else let x_expected := x_expected - 1 in Ok (true, (x_expected, x_got, E, v)))
                 (v_scope_indent v0, Z.of_nat k, [], v0))
                 (fun st => let '(x_expected, x_got, E, v) := st in
                  if x_expected >? x_got then bind (emit (s "TOO_FEW_TAB") (peek toks 0) E) (fun E => Ok (E, v))
                  else if x_got >? x_expected then bind (emit (s "TOO_MANY_TAB") (peek toks 0) E) (fun E => Ok (E, v)) else Ok (E, v))
     else if v_scope_indent v0 >? Z.of_nat k then bind (emit (s "TOO_FEW_TAB") (peek toks 0) []) (fun E => Ok (E, v0))
          else if Z.of_nat k >? v_scope_indent v0 then bind (emit (s "TOO_MANY_TAB") (peek toks 0) []) (fun E => Ok (E, v0)) else Ok ([], v0))
    = Ok ([], v')).
  { intros v0 Hh0 Hi0. rewrite Hbr, Hr, Hi0. cbn [andb]. destruct (v_scope_indent v >? 0) eqn:G.
    - rewrite (hist_without_newest v0 h1 rest Hh0), brace_hist_walk. cbn [bind].
      assert (Q : (if brace_parent rest then v_scope_indent v - 1 else v_scope_indent v) = Z.of_nat k) by (destruct (brace_parent rest); lia).
      rewrite Q. replace (Z.of_nat k >? Z.of_nat k) with false by (symmetry; rewrite Z.gtb_ltb; apply Z.ltb_irrefl). eexists; reflexivity.
    - rewrite Z.gtb_ltb in G. apply Z.ltb_ge in G.
      assert (Q : v_scope_indent v = Z.of_nat k) by (destruct (brace_parent rest); lia).
      rewrite Q. replace (Z.of_nat k >? Z.of_nat k) with false by (symmetry; rewrite Z.gtb_ltb; apply Z.ltb_irrefl). eexists; reflexivity. }
  destruct (negb (str_eqb h1 (s "IsPreprocessorStatement")) && v_scope_global v && v_include_allowed v);
    rewrite (skip_tabs_leading _ _ Hl).
  - apply (Fin (set_include_allowed v false)); [exact Hh|reflexivity].
  - apply (Fin v); [exact Hh|reflexivity].
Qed.

(* ------------------------------------------------------------------ CheckUtypeDeclaration (the translated part: TYPE_NOT_GLOBAL, FORBIDDEN_<type>) *)
(* in a header, at global scope or inside a user defined type (G declares types only there) *)
Theorem utype_silent_in_header toks scope ftype v : str_eqb ftype (s ".c") = false ->
  str_in (v_scope_name v) [s "GlobalScope"; s "UserDefinedType"] = true ->
  check_utype_forbidden toks scope ftype v = Ok ([], v).
Proof. intros Hf Hs. unfold check_utype_forbidden. cbv zeta. rewrite Hf, Hs. reflexivity. Qed.

(* ------------------------------------------------------------------ CheckExpressionStatement: silent (the whole check) *)
(* position j of the statement: not the end; a keyword is followed by a blank / line end / `)` / comment; a `*` or `&` does not
   directly follow an identifier (G puts a space before a binary star and nothing but an opening bracket or operator before a
   unary one); after `return` (and blanks) comes `;`, or `(` whose matching `)` - found by Context.skip_nest - is followed by `;` *)
Definition return_ok (toks : list token) (j : Z) : bool :=
  let T := skip_ws toks (j + 1) in
  negb (is_false (check1 toks T (s "SEMI_COLON")) && is_false (check1 toks T (s "LPARENTHESIS")))
  && (if is_false (check1 toks T (s "SEMI_COLON"))
      then match skip_nest toks T with Ok x => negb (is_false (check1 toks (x + 1) (s "SEMI_COLON"))) | _ => false end
      else true).

Definition expr_pos_ok (toks : list token) (j : Z) : bool :=
  is_false (checkl toks j [s "SEMI_COLON"; s "NEWLINE"])
  && (negb (is_true (check1 toks j (s "RETURN"))) || return_ok toks j)
  && negb (is_true (checkl toks j expression_kw) && is_false (checkl toks (j + 1) after_kw_ok))
  && negb (is_true (checkl toks j [s "MULT"; s "BWISE_AND"]) && (j >? 0) && is_true (check1 toks (j - 1) (s "IDENTIFIER"))).

Lemma expr_quiet_run toks scope v : forall (k : nat) fuel i E, (k < fuel)%nat ->
  (forall j, i <= j < i + Z.of_nat k -> expr_pos_ok toks j = true) ->
  is_false (checkl toks (i + Z.of_nat k) [s "SEMI_COLON"; s "NEWLINE"]) = false ->
  check_expression_statement_loop1 fuel toks scope i E v = Ok (None, (i + Z.of_nat k, E, v)).
Proof.
  induction k as [|k IH]; intros fuel i E Hf Hok Hend; (destruct fuel as [|f]; [lia|]); cbn [check_expression_statement_loop1]; cbv zeta.
  - replace (i + Z.of_nat 0) with i in * by lia. rewrite Hend. reflexivity.
  - assert (H := Hok i ltac:(lia)). unfold expr_pos_ok in H.
    apply andb_true_iff in H as [H HC]. apply andb_true_iff in H as [H HB]. apply andb_true_iff in H as [HA HD].
    apply negb_true_iff in HB, HC. fold after_kw_ok. rewrite HA.
    assert (R : check_expression_statement_loop1 f toks scope (i + 1) E v = Ok (None, (i + Z.of_nat (S k), E, v))).
    { replace (i + Z.of_nat (S k)) with (i + 1 + Z.of_nat k) by lia. apply IH; [lia| |].
      - intros j Hj. apply Hok. lia.
      - replace (i + 1 + Z.of_nat k) with (i + Z.of_nat (S k)) by lia. exact Hend. }
    assert (RR : (if is_true (check1 toks i (s "RETURN"))
                  then if is_false (check1 toks (skip_ws toks (i + 1)) (s "SEMI_COLON")) && is_false (check1 toks (skip_ws toks (i + 1)) (s "LPARENTHESIS"))
                       then bind (emit (s "RETURN_PARENTHESIS") (peek toks (skip_ws toks (i + 1))) E) (fun E0 => Ok (Some tt, (i, E0, v)))
                       else if is_false (check1 toks (skip_ws toks (i + 1)) (s "SEMI_COLON"))
                            then bind (skip_nest toks (skip_ws toks (i + 1))) (fun x_tmp =>
                                   if is_false (check1 toks (x_tmp + 1) (s "SEMI_COLON"))
                                   then bind (emit (s "RETURN_PARENTHESIS") (peek toks (x_tmp + 1)) E) (fun E0 => Ok (Some tt, (i, E0, v)))
                                   else check_expression_statement_loop1 f toks scope (i + 1) E v)
                            else check_expression_statement_loop1 f toks scope (i + 1) E v
                  else check_expression_statement_loop1 f toks scope (i + 1) E v)
                 = Ok (None, (i + Z.of_nat (S k), E, v))).
    { destruct (is_true (check1 toks i (s "RETURN"))); [|exact R]. cbn [negb orb] in HD. unfold return_ok in HD. cbv zeta in HD.
      apply andb_true_iff in HD as [H1 H2]. apply negb_true_iff in H1. rewrite H1.
      destruct (is_false (check1 toks (skip_ws toks (i + 1)) (s "SEMI_COLON"))); [|exact R].
      destruct (skip_nest toks (skip_ws toks (i + 1))) as [x| | |]; try discriminate. cbn [bind].
      apply negb_true_iff in H2. rewrite H2. exact R. }
    destruct (is_true (checkl toks i expression_kw)) eqn:K.
    + cbn [andb] in HB. rewrite HB.
      destruct (is_true (checkl toks i [s "MULT"; s "BWISE_AND"]) && (i >? 0)) eqn:M.
      * cbn [andb] in HC. rewrite HC. exact RR.
      * exact RR.
    + destruct (is_true (checkl toks i [s "MULT"; s "BWISE_AND"]) && (i >? 0)) eqn:M.
      * cbn [andb] in HC. rewrite HC. exact RR.
      * exact RR.
Qed.

(* the first n tokens are fine and token n is the `;` or the line end (or the tokens end there): nothing is reported *)
Theorem expression_statement_silent toks scope v (n : nat) : (n < List.length toks + 2)%nat ->
  (forall j, 0 <= j < Z.of_nat n -> expr_pos_ok toks j = true) ->
  is_false (checkl toks (Z.of_nat n) [s "SEMI_COLON"; s "NEWLINE"]) = false ->
  check_expression_statement toks scope v = Ok ([], v).
Proof.
  intros Hn Hok Hend. unfold check_expression_statement. cbv zeta.
  rewrite (expr_quiet_run toks scope v n (loop_fuel toks) 0 []); [reflexivity| | |].
  - unfold loop_fuel. lia.
  - intros j Hj. apply Hok. lia.
  - exact Hend.
Qed.

(* ------------------------------------------------------------------ CheckEmptyLine: silent (V) *)
Ltac el_atoms :=
  repeat match goal with
  | |- context [str_eqb ?a ?b] => destruct (str_eqb a b) eqn:?
  | |- context [v_vdecl_allowed ?v] => destruct (v_vdecl_allowed v) eqn:?
  end.

(* (a) on a statement that is not an empty line: the declarations of a function are closed (an empty line, a comment or the end of
   a block came first, or this is a declaration / the global scope), and no code follows a preprocessor line directly *)
Theorem empty_line_silent_on_statement toks scope v h1 rest :
  v_history v = h1 :: rest -> str_eqb h1 r_empty = false ->
  (str_eqb (v_scope_name v) n_global || str_eqb h1 r_vardecl || negb (v_vdecl_allowed v) || str_eqb h1 r_comment
   || (str_eqb h1 r_blockend && str_eqb (v_scope_name v) (s "Function"))) = true ->
  (match rest with h2 :: _ => negb (str_eqb h2 r_preproc) | [] => true end || str_eqb h1 r_preproc || str_eqb h1 r_comment) = true ->
  exists v', check_empty_line toks scope v = Ok ([], v').
Proof.
  intros Hh He Ha Hp.
  assert (J : forall c : bool, c = false -> forall E0 v0, v_history v0 = v_history v -> v_scope_name v0 = v_scope_name v ->
    (if c then bind (emit (s "NL_AFTER_PREPROC") (peek toks 0) E0) (fun E1 =>
        need_hist (hist_back v0 1) (fun hs6 => if negb (str_eqb hs6 (s "IsEmptyLine")) then Ok (E1, v0) else Crash Unmodelled))
     else need_hist (hist_back v0 1) (fun hs6 => if negb (str_eqb hs6 (s "IsEmptyLine")) then Ok (E0, v0) else Crash Unmodelled))
    = Ok (E0, v0)).
  { intros c -> E0 v0 H1 _. unfold hist_back. rewrite H1, Hh. cbn [Nat.sub nth_error need_hist]. unfold r_empty in He. now rewrite He. }
  clear J.
  assert (P : (hist_len v >? 1) && str_eqb (hist_back_d v 2) (s "IsPreprocessorStatement")
              && negb (str_eqb (hist_back_d v 1) (s "IsPreprocessorStatement")) && negb (str_eqb (hist_back_d v 1) (s "IsEmptyLine"))
              && negb (str_eqb (hist_back_d v 1) (s "IsComment")) = false).
  { unfold hist_len, hist_back_d, zlen. rewrite Hh. unfold r_preproc, r_comment in Hp. destruct rest as [|h2 rest']; [reflexivity|].
    cbn [nth Nat.sub List.length].
    destruct (str_eqb h2 (s "IsPreprocessorStatement")); destruct (str_eqb h1 (s "IsPreprocessorStatement"));
      destruct (str_eqb h1 (s "IsComment")); cbn in Hp |- *; try discriminate; rewrite ?andb_false_r; reflexivity. }
  assert (T : forall E0 (v0 : view), v_history v0 = v_history v ->
     need_hist (hist_back v0 1) (fun hs6 => if negb (str_eqb hs6 (s "IsEmptyLine")) then Ok (E0, v0) else @Crash (list em * view) Unmodelled) = Ok (E0, v0)).
  { intros E0 v0 H1. unfold hist_back. rewrite H1, Hh. cbn [Nat.sub nth_error need_hist]. unfold r_empty in He. now rewrite He. }
  clear T.
  unfold check_empty_line. cbv zeta.
  assert (F1 : ((hist_len v =? 1) && str_eqb (hist_back_d v 1) (s "IsEmptyLine")) = false).
  { unfold hist_back_d. rewrite Hh. cbn [nth Nat.sub]. unfold r_empty in He. rewrite He. apply andb_false_r. }
  rewrite F1.
  assert (H1b : hist_back v 1 = Some h1) by (unfold hist_back; rewrite Hh; reflexivity).
  assert (H1c : forall b, hist_back (set_vdecl_allowed v b) 1 = Some h1) by (intros b0; unfold hist_back, set_vdecl_allowed; cbn [v_history]; rewrite Hh; reflexivity).
  assert (P' : forall b, (hist_len (set_vdecl_allowed v b) >? 1) && str_eqb (hist_back_d (set_vdecl_allowed v b) 2) (s "IsPreprocessorStatement")
              && negb (str_eqb (hist_back_d (set_vdecl_allowed v b) 1) (s "IsPreprocessorStatement"))
              && negb (str_eqb (hist_back_d (set_vdecl_allowed v b) 1) (s "IsEmptyLine"))
              && negb (str_eqb (hist_back_d (set_vdecl_allowed v b) 1) (s "IsComment")) = false) by (intros b0; exact P).
  unfold r_empty, r_vardecl, r_comment, r_blockend, n_global in *.
  destruct (str_eqb (v_scope_name v) (s "GlobalScope")) eqn:G; cbn [negb].
  { rewrite P, ?H1b. cbn [need_hist]. rewrite ?He. cbn [negb]. eexists; reflexivity. }
  rewrite ?H1b. cbn [need_hist].
  destruct (str_eqb h1 (s "IsVarDeclaration")) eqn:D; cbn [negb andb].
  { rewrite P, ?H1b. cbn [need_hist]. rewrite ?He. cbn [negb]. eexists; reflexivity. }
  destruct (v_vdecl_allowed v) eqn:A; cbn [negb andb].
  2:{ rewrite P, ?H1b. cbn [need_hist]. rewrite ?He. cbn [negb]. eexists; reflexivity. }
  rewrite ?H1c. cbn [need_hist str_in existsb]. rewrite ?He. cbn [orb].
  destruct (str_eqb h1 (s "IsComment")) eqn:C; cbn [negb orb].
  { rewrite P', ?H1c. cbn [need_hist]. rewrite ?He. cbn [negb]. eexists; reflexivity. }
  cbn [orb negb] in Ha. cbn [v_scope_name set_vdecl_allowed]. rewrite Ha.
  rewrite P', ?H1c. cbn [need_hist]. rewrite ?He. cbn [negb]. eexists; reflexivity.
Qed.

(* (b) on an empty line: a bare line end, not the first statement of the file, not the last token, not after another empty line,
   and - inside a function - directly after the declarations *)
Theorem empty_line_silent_on_empty_line toks scope v h2 rest t0 t1 :
  v_history v = r_empty :: h2 :: rest -> str_eqb h2 r_empty = false ->
  (str_eqb h2 r_vardecl || str_eqb (v_scope_name v) n_global) = true ->
  peek toks 0 = Some t0 -> t_type t0 = s "NEWLINE" -> peek toks 1 = Some t1 ->
  exists v', check_empty_line toks scope v = Ok ([], v').
Proof.
  intros Hh H2 Hg H0 Hn H1. el_open Hh. rewrite (check1_some _ _ _ _ H0), H0, Hn. change (0 + 1) with 1. rewrite H1, H2. str_consts.
  cbn [negb andb orb need_hist is_false truthy is_none str_in existsb]. rewrite ?andb_false_r.
  destruct (str_eqb h2 (s "IsVarDeclaration")) eqn:D; destruct (str_eqb (v_scope_name v) (s "GlobalScope")) eqn:G;
    cbn [negb andb orb] in *; try discriminate;
    destruct (v_vdecl_allowed v); cbn [negb andb orb need_hist str_in existsb]; rewrite ?H2, ?D, ?G;
    cbn [negb andb orb need_hist str_in existsb is_false truthy is_none]; rewrite ?andb_false_r; eexists; reflexivity.
Qed.
