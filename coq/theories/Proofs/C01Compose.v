(* C01: composition of the finished properties into the partial theorem for the code set
     K = {INVALID_HEADER} + HEADER_PROT_* + the lexical codes,
   and the K1 statement (positive since the repair).  Cited: Props/C13 (header), Props/C14 (guard), Props/C04 (verdict / exit), Props/C11 (K1),
   Proofs/EmittersProofs (who can emit a code of K, from Gen/Emitters.v regenerated from the source on every run),
   Proofs/ConformingProofs (silence of the tokenizer on conforming statement lines). *)
From NV Require Import Model.Base Model.Diag Model.Lexer Model.Errors Model.Cli Spec.CConst Spec.Conforming
  Gen.ErrOrder Gen.MainExit Gen.Emitters Gen.HeaderRe Gen.HeaderSM Model.Header Model.GuardBase Gen.Guard Model.Guard
  Proofs.EmittersProofs Proofs.ConformingProofs Proofs.ConformingChecks Proofs.ConformingCounters Proofs.ConformingSpacing
  Proofs.ConformingControl Proofs.ConformingTraced Proofs.ConformingNames Proofs.ConformingPreproc.
From NV Require Import Model.PreprocBase Gen.PreprocChecks.
From NV Require Import Model.NameBase Gen.NameChecks Model.ScopeBase Gen.ScopeOps.
From NV Require Import Model.RuleChecks Gen.RuleChecks Gen.MoreChecks Proofs.RuleChecksProofs Proofs.RuleChecksProofs2
  Proofs.MoreChecksProofs.
From NV Require Props.C04 Props.C11 Props.C13 Props.C14.
From Coq Require Import String.
Local Open Scope string_scope.

(* the three ties of K to the source: a diagnostic of K can only come from the modelled place *)
Definition K_emitters_tied : Prop :=
  only_in "norminette/rules/check_header.py" "INVALID_HEADER" = true /\
  forallb (only_in "norminette/rules/check_preprocessor_protection.py") header_prot_codes = true /\
  forallb (only_in lexer_file) lexical_codes = true /\ opaque_free = true.

Lemma K_emitters : K_emitters_tied.
Proof.
  split; [exact only_emitter_INVALID_HEADER|]. split; [exact only_emitter_HEADER_PROT|].
  split; [exact only_emitter_lexical|exact emitters_opaque_free].
Qed.

(* ------------------------------------------------------------------ the translated checks: silent on conforming statements *)
(* the codes of the checks proved silent as a whole that ONE file only can emit (Gen/Emitters.v).  LINE_TOO_LONG is also
   emitted by check_comment_line_len.py, TOO_MANY_INSTR by check_assignation.py and SPACE_EMPTY_LINE by check_spacing.py:
   FORBIDDEN_CHAR_NAME fits the f-string pattern FORBIDDEN_<type> of check_utype_declaration.py and TOO_MANY_LINES is shared by
   check_brace.py and check_line_count.py, TAB_REPLACE_SPACE by check_preprocessor_indent.py, check_utype_declaration.py and
   check_variable_indent.py: for those six codes only the named check is proved silent, not the code *)
Definition silent_check_codes : list (string * string) :=
  [("norminette/rules/check_ternary.py", "TERNARY_FBIDDEN");
   ("norminette/rules/check_label.py", "GOTO_FBIDDEN"); ("norminette/rules/check_label.py", "LABEL_FBIDDEN");
   ("norminette/rules/check_functions_count.py", "TOO_MANY_FUNCS");
   ("norminette/rules/check_identifier_name.py", "WRONG_SCOPE_FCT");
   ("norminette/rules/check_comment.py", "WRONG_SCOPE_COMMENT"); ("norminette/rules/check_comment.py", "COMMENT_ON_INSTR");
   ("norminette/rules/check_preprocessor_indent.py", "PREPROC_START_LINE"); ("norminette/rules/check_preprocessor_indent.py", "PREPOC_ONLY_GLOBAL");
   ("norminette/rules/check_preprocessor_indent.py", "TOO_MANY_WS"); ("norminette/rules/check_preprocessor_indent.py", "PREPROC_BAD_INDENT");
   ("norminette/rules/check_preprocessor_indent.py", "PREPROC_NO_SPACE"); ("norminette/rules/check_preprocessor_indent.py", "CONSECUTIVE_WS");
   ("norminette/rules/check_empty_line.py", "EMPTY_LINE_FILE_START"); ("norminette/rules/check_empty_line.py", "NL_AFTER_VAR_DECL");
   ("norminette/rules/check_empty_line.py", "NL_AFTER_PREPROC"); ("norminette/rules/check_empty_line.py", "CONSECUTIVE_NEWLINES");
   ("norminette/rules/check_empty_line.py", "EMPTY_LINE_FUNCTION"); ("norminette/rules/check_empty_line.py", "EMPTY_LINE_EOF")].
Lemma silent_check_codes_tied : forallb (fun fc => only_in (fst fc) (snd fc)) silent_check_codes = true.
Proof. vm_compute. reflexivity. Qed.

(* the tokens of a conforming text contain none of the kinds G never writes *)
Lemma free_of_types kinds (toks : list token) : forallb (fun ty => negb (str_in ty kinds)) (map t_type toks) = true -> free kinds toks.
Proof.
  unfold free. induction toks as [|t toks IH]; cbn [map forallb]; intros H; constructor.
  - apply andb_true_iff in H as [H _]. now apply negb_true_iff in H.
  - apply IH. now apply andb_true_iff in H as [_ H].
Qed.
Lemma free_suffix kinds (a b : list token) : free kinds (a ++ b)%list -> free kinds b.
Proof. unfold free. intros H. apply Forall_app in H. tauto. Qed.

Theorem conforming_text_kinds : forall ls, chain ls = true -> kinds_ok ls = true ->
  exists items xf, lex nouni nouni (render ls) = Ok (items, xf) /\ errs xf = [] /\
    forall done toks, tokens_of items = (done ++ toks)%list -> free forbidden_kinds toks.
Proof.
  intros ls Hc Hk. destruct (conforming_text_tokens ls Hc) as (items & xf & H1 & H2 & _ & _ & H5).
  exists items, xf. split; [exact H1|]. split; [exact H2|]. intros done toks E.
  apply (free_suffix _ done). rewrite <- E. apply free_of_types. rewrite H5. unfold kinds_ok in Hk.
  clear -Hk. induction ls as [|a ls IH]; [reflexivity|]. cbn [map forallb] in *. apply andb_true_iff in Hk as [A B].
  rewrite A. cbn [andb]. now apply IH.
Qed.

Definition C01_checks_silent_statement : Prop :=
  (* nineteen codes of checks proved silent as a whole can only come from those checks *)
  forallb (fun fc => only_in (fst fc) (snd fc)) silent_check_codes = true /\
  (* K: every statement (remaining tokens `toks`) of a conforming text - any number of lines - is free of the forbidden kinds *)
  (forall ls, chain ls = true -> kinds_ok ls = true ->
     exists items xf, lex nouni nouni (render ls) = Ok (items, xf) /\ errs xf = [] /\
       forall done toks, tokens_of items = (done ++ toks)%list -> free forbidden_kinds toks) /\
  (* CheckTernary, CheckLabel: silent on every statement of such a text, in every context *)
  (forall toks scope v, free forbidden_kinds toks -> check_ternary toks scope v = Ok ([], v)) /\
  (forall toks scope v, free forbidden_kinds toks -> check_label toks scope v = Ok ([], v)) /\
  (* CheckLineLen: no token of the statement beyond column 81 (C03: every token that starts on a line of width <= 80) *)
  (forall toks scope v, (forall t, In t (py_slice_to toks scope) -> (t_col t <= 81)%Z) -> check_line_len toks scope v = Ok ([], v)) /\
  (* CheckManyInstructions: the statement starts in column 1 *)
  (forall toks scope v t0, peek toks 0 = Some t0 -> (t_col t0 <= 1)%Z -> check_many_instructions toks scope v = Ok ([], v)) /\
  (* CheckEmptyLine: on a statement, and on an empty line *)
  (forall toks scope v h1 rest, v_history v = h1 :: rest -> str_eqb h1 r_empty = false ->
     (str_eqb (v_scope_name v) n_global || str_eqb h1 r_vardecl || negb (v_vdecl_allowed v) || str_eqb h1 r_comment
      || (str_eqb h1 r_blockend && str_eqb (v_scope_name v) (s "Function"))) = true ->
     (match rest with h2 :: _ => negb (str_eqb h2 r_preproc) | [] => true end || str_eqb h1 r_preproc || str_eqb h1 r_comment) = true ->
     exists v', check_empty_line toks scope v = Ok ([], v')) /\
  (forall toks scope v h2 rest t0 t1, v_history v = r_empty :: h2 :: rest -> str_eqb h2 r_empty = false ->
     (str_eqb h2 r_vardecl || str_eqb (v_scope_name v) n_global) = true ->
     peek toks 0 = Some t0 -> t_type t0 = s "NEWLINE" -> peek toks 1 = Some t1 ->
     exists v', check_empty_line toks scope v = Ok ([], v')) /\
  (* CheckFunctionsCount (whole check: at most 5 definitions in the file) and the counters of CheckBrace (25 lines),
     CheckVariableDeclaration (5 variables), CheckFuncDeclaration (4 parameters): Proofs/ConformingCounters.v *)
  counters_silent_statement /\
  (* CheckLineIndent (whole check): skipped statements; k tabs = the scope's indentation; `}` one tab less; `{` one tab less when it
     follows its control statement / function header / type declaration *)
  (forall toks scope v h1 rest, v_history v = h1 :: rest -> str_in h1 indent_skipped = true -> check_line_indent toks scope v = Ok ([], v)) /\
  (forall toks scope v k h1 rest t0, v_history v = h1 :: rest -> str_in h1 indent_skipped = false -> leading toks [ty_tab] k ->
     (forall t, peek toks (Z.of_nat k) = Some t -> str_in (t_type t) [s "LBRACE"; s "RBRACE"] = false) ->
     peek toks 0 = Some t0 -> v_scope_indent v = Z.of_nat k ->
     exists v', check_line_indent toks scope v = Ok ([], v') /\ v_scope_indent v' = v_scope_indent v) /\
  (forall toks scope v k h1 rest t0 tb, v_history v = h1 :: rest -> str_in h1 indent_skipped = false -> leading toks [ty_tab] k ->
     peek toks (Z.of_nat k) = Some tb -> t_type tb = s "RBRACE" -> peek toks 0 = Some t0 -> v_scope_indent v = (Z.of_nat k + 1)%Z ->
     exists v', check_line_indent toks scope v = Ok ([], v')) /\
  (forall toks scope v k h1 rest t0 tb, v_history v = h1 :: rest -> str_in h1 indent_skipped = false -> leading toks [ty_tab] k ->
     peek toks (Z.of_nat k) = Some tb -> t_type tb = s "LBRACE" -> peek toks 0 = Some t0 ->
     v_scope_indent v = (Z.of_nat k + (if brace_parent rest then 1 else 0))%Z ->
     exists v', check_line_indent toks scope v = Ok ([], v')) /\
  (* CheckExpressionStatement (whole check, `return` included: expr_pos_ok / return_ok) *)
  (forall toks scope v (n : nat), (n < List.length toks + 2)%nat -> (forall j, (0 <= j < Z.of_nat n)%Z -> expr_pos_ok toks j = true) ->
     is_false (checkl toks (Z.of_nat n) [s "SEMI_COLON"; s "NEWLINE"]) = false -> check_expression_statement toks scope v = Ok ([], v)) /\
  (* CheckSpacing (whole check): every position of the statement slice satisfies sp_ok *)
  (forall toks scope v, v_history v <> [] -> (forall j, (0 <= j < slice_len toks scope)%Z -> sp_ok toks j = true) ->
     check_spacing toks scope v = Ok ([], v)) /\
  (* CheckControlStatement (the translated part: WRONG_SCOPE, EXP_NEWLINE, FORBIDDEN_CS, ASSIGN_IN_CONTROL) *)
  (forall toks scope v n, str_eqb (v_scope_name v) (s "GlobalScope") = false -> (0 <= n <= zlen toks)%Z ->
     (forall j, (0 <= j < n)%Z -> cs_pos_ok toks n j = true) -> is_false (check1 toks n (s "NEWLINE")) = false ->
     check_control_statement toks scope v = Ok ([], v)) /\
  (* the same with scope name / indentation derived from the scope-trace model (Proofs/ConformingTraced.v) *)
  traced_silent_statement /\
  (* CheckIdentifierName (whole check): function names and recorded variable names over [a-z0-9_], functions at global scope *)
  (forall toks last glob udt fname fpos vars,
     (str_eqb last ident_func_rule = true -> (glob || udt) = true /\ exists f, fname = Some f /\ legal_name f = true) ->
     forallb (fun x => legal_name (fst (fst x))) vars = true -> check_identifier_name toks last glob udt fname fpos vars = Ok []) /\
  (* CheckComment (whole check): no comment token in the remaining tokens; or - outside functions - every comment of the line first
     after the blanks or followed by blanks / comments only *)
  (forall toks hist cls, forallb (fun t => negb (str_in (t_type t) comment_types)) toks = true -> check_comment toks hist cls = []) /\
  (forall toks hist cls, comment_inside_function hist cls = false ->
     comment_line_ok true (collect_line toks (skip_ws toks 0)) = true -> check_comment toks hist cls = []) /\
  (* CheckLineCount (whole check): it can never report - its guard compares the parent rule with a name no primary has *)
  (forall glob hist lines nl, forallb is_primary hist = true -> snd (line_count_run glob (parent_rule hist) lines nl) = []) /\
  (* CheckPreprocessorIndent (whole check): at global scope, `#` in column 1, no tab before the directive name, the name at the
     expected indentation (preproc.indent = pindent: view hypothesis), one space before the argument - ppi_line_ok *)
  (forall toks pindent, ppi_line_ok toks pindent = true -> check_preproc_indent toks true pindent = Ok []) /\
  (* CheckUtypeDeclaration (translated part), in a header *)
  (forall toks scope ftype v, str_eqb ftype (s ".c") = false -> str_in (v_scope_name v) [s "GlobalScope"; s "UserDefinedType"] = true ->
     check_utype_forbidden toks scope ftype v = Ok ([], v)).

Lemma checks_silent : C01_checks_silent_statement.
Proof.
  split; [exact silent_check_codes_tied|]. split; [exact conforming_text_kinds|].
  split; [exact ternary_silent|]. split; [exact label_silent|]. split; [exact line_len_silent|].
  split; [exact many_instructions_silent|]. split; [exact empty_line_silent_on_statement|].
  split; [exact empty_line_silent_on_empty_line|]. split; [exact counters_silent|].
  split; [exact line_indent_skipped|]. split; [exact line_indent_silent|]. split; [exact line_indent_rbrace_silent|].
  split; [exact line_indent_lbrace_silent|]. split; [exact expression_statement_silent|]. split; [exact spacing_silent|].
  split; [exact control_statement_silent|]. split; [exact traced_silent|].
  split; [exact identifier_name_silent|]. split; [exact comment_silent_no_comments|]. split; [exact comment_silent|].
  split; [exact line_count_silent|]. split; [exact preproc_indent_silent|]. exact utype_silent_in_header.
Qed.

Definition C01_partial_K_statement : Prop :=
  (* the translated checks are silent on conforming statements (ten checks, see C01_checks_silent_statement) *)
  C01_checks_silent_statement /\
  (* K is tied to its emitters *)
  K_emitters_tied /\
  (* (a) header: any field values with well-formed stamps, ANY statements after the header: no INVALID_HEADER (Props/C13) *)
  (forall f rest, Header.stamps_ok f = true -> Header.invalid_count (Header.header_events f ++ rest) = 0%nat) /\
  (* (b) guard: a .h unit  trivia* #ifndef G  # define G  balanced-body  #endif trivia*  : no HEADER_PROT_* ; a unit that is
         not a header: none at all, whatever it contains (Props/C14) *)
  (forall base, file_type base = s ".h" -> forall pre body post a,
     Forall (fun x => is_trivia x = true) pre -> balanced body -> Forall (fun x => is_trivia x = true) post ->
     emitted base (pre ++ SPre DIfndef (guard_of base) :: SPre DDefine (guard_of base) :: body ++ SPre DEndif a :: post) = []) /\
  (forall base t, file_type base <> s ".h" -> emitted base t = []) /\
  (* (c) lexical codes: a conforming statement line of ANY length (identifiers, single spaces, one-character operators,
         brackets, the listed constants / keywords / long operators) is tokenized into one token per lexeme and the
         tokenizer records no diagnostic at all (Proofs/ConformingProofs) *)
  (forall ls, chain ls = true ->
     exists items xf, lex nouni nouni (render ls) = Ok (items, xf) /\ errs xf = [] /\ rest xf = [] /\
                      List.length items = List.length ls /\ forallb is_tok items = true) /\
  (* (d) verdict and exit: a file whose diagnostics are all Notices has status OK (printed `<name>: OK!`, Props/C04
         C04_verdict_block) and a run whose files all have status OK exits 0 (Props/C04) *)
  (forall ds, (forall d, In d ds -> d_level d = s "Notice") -> status ds = s "OK") /\
  (forall files, (forall f, In f files -> status (f_errors f) = s "OK") -> exit_code files = 0%Z).

Lemma partial_K : C01_partial_K_statement.
Proof.
  split; [exact checks_silent|].
  split; [exact K_emitters|].
  split; [exact Props.C13.C13_accept|].
  split; [exact Props.C14.C14_accept|].
  split; [exact Props.C14.C14_G8|].
  split; [exact conforming_line_silent|].
  split.
  - intros ds H. now apply Props.C04.C04_status_ok_iff.
  - intros files H. now apply Props.C04.C04_exit_iff.
Qed.

(* K1 (former finding C01-K1-hex-b-digits, repaired in the source), from the lexer model: the conforming statement
   `i = 0xb3ba;` (0xb3ba is a valid hexadecimal constant of the shape Spec/CConst.shape_k1,
   Props/C11.C11_accepted_hex_b_digits) lexes without any diagnostic: status OK, exit 0 as far as the lexer is concerned *)
Definition k1_line : str := s "i = 0xb3ba;".
Definition k1_silent : bool :=
  match lex nouni nouni k1_line with
  | Ok (_, xf) =>
      negb (nonempty (errs xf)) && str_eqb (status (errs xf)) (s "OK") && Z.eqb (exit_code [mkfile (s "a.c") (errs xf)]) 0
  | _ => false
  end.

Lemma accepted_K1 :
  shape_k1 (s "0xb3ba") = true /\ int_body (s "0xb3ba") = Some Hex /\
  lex_one_ok (s "CONSTANT") (s "0xb3ba") (s ";") = true /\ k1_silent = true.
Proof.
  destruct Props.C11.C11_accepted_hex_b_digits as (A & B & C & _).
  split; [exact A|]. split; [exact B|]. split; [exact C|]. vm_compute. reflexivity.
Qed.

(* the same line with a constant outside the K1 shape is covered by (c) *)
Example k1_neighbour_silent :
  chain [ident (s "i"); LSpace; LOp 61; LSpace; LAtom (s "0xab1"); LOp 59] = true.
Proof. vm_compute. reflexivity. Qed.
