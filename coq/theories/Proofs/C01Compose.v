(* C01: composition of the finished properties into the partial theorem for the code set
     K = {INVALID_HEADER} + HEADER_PROT_* + the lexical codes,
   and the K1 statement (positive since the repair).  Cited: Props/C13 (header), Props/C14 (guard), Props/C04 (verdict / exit), Props/C11 (K1),
   Proofs/EmittersProofs (who can emit a code of K, from Gen/Emitters.v regenerated from the source on every run),
   Proofs/ConformingProofs (silence of the tokenizer on conforming statement lines). *)
From NV Require Import Model.Base Model.Diag Model.Lexer Model.Errors Model.Cli Spec.CConst Spec.Conforming
  Gen.ErrOrder Gen.MainExit Gen.Emitters Gen.HeaderRe Gen.HeaderSM Model.Header Model.GuardBase Gen.Guard Model.Guard
  Proofs.EmittersProofs Proofs.ConformingProofs.
From NV Require Props.C04 Props.C11 Props.C13 Props.C14.
From Coq Require Import String.
Local Open Scope string_scope.

(* the three ties of K to the source: a diagnostic of K can only come from the modelled place *)
Definition K_emitters_tied : Prop :=
  only_in "norminette/rules/check_header.py" "INVALID_HEADER" = true /\
  forallb (only_in "norminette/rules/check_preprocessor_protection.py") header_prot_codes = true /\
  forallb (only_in lexer_file) lexical_codes = true /\ opaque_free = true.

Lemma K_emitters : K_emitters_tied.
Proof.
  split; [exact only_emitter_INVALID_HEADER|]. split; [exact only_emitter_HEADER_PROT|].
  split; [exact only_emitter_lexical|exact emitters_opaque_free].
Qed.

Definition C01_partial_K_statement : Prop :=
  (* K is tied to its emitters *)
  K_emitters_tied /\
  (* (a) header: any field values with well-formed stamps, ANY statements after the header: no INVALID_HEADER (Props/C13) *)
  (forall f rest, Header.stamps_ok f = true -> Header.invalid_count (Header.header_events f ++ rest) = 0%nat) /\
  (* (b) guard: a .h unit  trivia* #ifndef G  # define G  balanced-body  #endif trivia*  : no HEADER_PROT_* ; a unit that is
         not a header: none at all, whatever it contains (Props/C14) *)
  (forall base, file_type base = s ".h" -> forall pre body post a,
     Forall (fun x => is_trivia x = true) pre -> balanced body -> Forall (fun x => is_trivia x = true) post ->
     emitted base (pre ++ SPre DIfndef (guard_of base) :: SPre DDefine (guard_of base) :: body ++ SPre DEndif a :: post) = []) /\
  (forall base t, file_type base <> s ".h" -> emitted base t = []) /\
  (* (c) lexical codes: a conforming statement line of ANY length (identifiers, single spaces, one-character operators,
         brackets, the listed constants / keywords / long operators) is tokenized into one token per lexeme and the
         tokenizer records no diagnostic at all (Proofs/ConformingProofs) *)
  (forall ls, chain ls = true ->
     exists items xf, lex nouni nouni (render ls) = Ok (items, xf) /\ errs xf = [] /\ rest xf = [] /\
                      List.length items = List.length ls /\ forallb is_tok items = true) /\
  (* (d) verdict and exit: a file whose diagnostics are all Notices has status OK (printed `<name>: OK!`, Props/C04
         C04_verdict_block) and a run whose files all have status OK exits 0 (Props/C04) *)
  (forall ds, (forall d, In d ds -> d_level d = s "Notice") -> status ds = s "OK") /\
  (forall files, (forall f, In f files -> status (f_errors f) = s "OK") -> exit_code files = 0%Z).

Lemma partial_K : C01_partial_K_statement.
Proof.
  split; [exact K_emitters|].
  split; [exact Props.C13.C13_accept|].
  split; [exact Props.C14.C14_accept|].
  split; [exact Props.C14.C14_G8|].
  split; [exact conforming_line_silent|].
  split.
  - intros ds H. now apply Props.C04.C04_status_ok_iff.
  - intros files H. now apply Props.C04.C04_exit_iff.
Qed.

(* K1 (former finding C01-K1-hex-b-digits, repaired in the source), from the lexer model: the conforming statement
   `i = 0xb3ba;` (0xb3ba is a valid hexadecimal constant of the shape Spec/CConst.shape_k1,
   Props/C11.C11_accepted_hex_b_digits) lexes without any diagnostic: status OK, exit 0 as far as the lexer is concerned *)
Definition k1_line : str := s "i = 0xb3ba;".
Definition k1_silent : bool :=
  match lex nouni nouni k1_line with
  | Ok (_, xf) =>
      negb (nonempty (errs xf)) && str_eqb (status (errs xf)) (s "OK") && Z.eqb (exit_code [mkfile (s "a.c") (errs xf)]) 0
  | _ => false
  end.

Lemma accepted_K1 :
  shape_k1 (s "0xb3ba") = true /\ int_body (s "0xb3ba") = Some Hex /\
  lex_one_ok (s "CONSTANT") (s "0xb3ba") (s ";") = true /\ k1_silent = true.
Proof.
  destruct Props.C11.C11_accepted_hex_b_digits as (A & B & C & _).
  split; [exact A|]. split; [exact B|]. split; [exact C|]. vm_compute. reflexivity.
Qed.

(* the same line with a constant outside the K1 shape is covered by (c) *)
Example k1_neighbour_silent :
  chain [ident (s "i"); LSpace; LOp 61; LSpace; LAtom (s "0xab1"); LOp 59] = true.
Proof. vm_compute. reflexivity. Qed.
