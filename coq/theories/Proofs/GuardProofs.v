(* C14 - proofs about the include-guard model (Model/Guard.v over the generated Gen.Guard.prot_run). *)
From NV Require Import Model.Base Model.GuardBase Gen.Guard Gen.Registry Model.Guard Proofs.StrOrder.
From Coq Require Import Lia.

(* ====================================================================== ties to the source *)
(* the helpers the hand-written part stands for (IsPreprocessorStatement.run and its check_* methods, PreProcessors,
   Macro, skip_ws/peek_token/check_token, Registry.run_rules, Rule.__eq__, File.__init__): any edit changes the fingerprint *)
Lemma guard_source_tie :
  helper_fingerprints =
  [("IsPreprocessorStatement.run"%string, "48a46efb9364135d5587"%string);
   ("IsPreprocessorStatement.check_define"%string, "fd0af073f96d7a23da4a"%string);
   ("IsPreprocessorStatement.check_if"%string, "253bcc99a52ab6b60919"%string);
   ("IsPreprocessorStatement.check_elif"%string, "3c0afe23745e0e037cd8"%string);
   ("IsPreprocessorStatement.check_ifdef"%string, "c4ed40de330b99826894"%string);
   ("IsPreprocessorStatement.check_ifndef"%string, "379b2a6aa71f0ec26d3a"%string);
   ("IsPreprocessorStatement.check_else"%string, "ca52ce0c4bf13144ac0d"%string);
   ("IsPreprocessorStatement.check_endif"%string, "347640b99ba61b3be6b8"%string);
   ("context.PreProcessors"%string, "491920c469f97a7b8d24"%string);
   ("context.Macro"%string, "a2ac579f6f7279f40917"%string);
   ("context.Context.skip_ws"%string, "8a2f7cd42bbf735d2091"%string);
   ("context.Context.peek_token"%string, "d088a963519c514bd22b"%string);
   ("context.Context.check_token"%string, "8df73448beb7e789b2b1"%string);
   ("registry.Registry.run_rules"%string, "32df293fcb9dde5268b3"%string);
   ("rule.Rule.__eq__"%string, "bc234333279ed021bbc6"%string);
   ("file.File.__init__"%string, "cc0d0724822971e5539a"%string)]
  /\ ctx_init_preproc_state =
     ["Context: self.history = []"%string; "Context: self.protected = False"%string;
      "PreProcessors: self.indent = 0"%string; "PreProcessors: self.macros = []"%string]
  /\ prot_depends_on = [s "IsPreprocessorStatement"]
  /\ prot_class_bases = ["Rule"%string; "Check"%string].
Proof. repeat split; reflexivity. Qed.

(* frame: nothing else in the package writes context.protected, preproc.indent, preproc.macros or context.history
   (attribute-name based, so Scope.indent shows up too) *)
Lemma guard_state_writers :
  state_writers =
  [("norminette/context.py"%string, "Context.__init__"%string, "Assign self.history"%string);
   ("norminette/context.py"%string, "Context.__init__"%string, "Assign self.protected"%string);
   ("norminette/context.py"%string, "PreProcessors.__init__"%string, "Assign self.indent"%string);
   ("norminette/context.py"%string, "PreProcessors.__init__"%string, "Assign self.macros"%string);
   ("norminette/context.py"%string, "PreProcessors.indent"%string, "Assign self._indent"%string);
   ("norminette/registry.py"%string, "Registry.run_rules"%string, "call context.history.append"%string);
   ("norminette/rules/check_preprocessor_protection.py"%string, "CheckPreprocessorProtection.run"%string, "Assign context.protected"%string);
   ("norminette/rules/is_preprocessor_statement.py"%string, "IsPreprocessorStatement.check_define"%string, "call context.preproc.macros.append"%string);
   ("norminette/rules/is_preprocessor_statement.py"%string, "IsPreprocessorStatement.check_endif"%string, "AugAssign context.preproc.indent"%string);
   ("norminette/rules/is_preprocessor_statement.py"%string, "IsPreprocessorStatement.check_if"%string, "AugAssign context.preproc.indent"%string);
   ("norminette/rules/is_preprocessor_statement.py"%string, "IsPreprocessorStatement.check_ifdef"%string, "AugAssign context.preproc.indent"%string);
   ("norminette/rules/is_preprocessor_statement.py"%string, "IsPreprocessorStatement.check_ifndef"%string, "AugAssign context.preproc.indent"%string);
   ("norminette/scope.py"%string, "Scope.__init__"%string, "Assign self.indent"%string)].
Proof. reflexivity. Qed.

(* the check is registered on IsPreprocessorStatement only (never on every rule, at start or at end), and
   IsPreprocessorStatement is tried before every other primary rule *)
Lemma guard_registry_tie :
  existsb (fun k => str_eqb (c_name k) (s "CheckPreprocessorProtection")
                    && match c_depends k with [d] => str_eqb d (s "IsPreprocessorStatement") | _ => false end
                    && negb (c_start k) && negb (c_rule k) && negb (c_end k)) checks = true
  /\ forallb (fun p => str_eqb (p_name p) (s "IsPreprocessorStatement") || Z.ltb (p_priority p) 100) primaries = true
  /\ existsb (fun p => str_eqb (p_name p) (s "IsPreprocessorStatement") && Z.eqb (p_priority p) 100
                       && match p_scope p with [] => true | _ => false end) primaries = true.
Proof. repeat split; vm_compute; reflexivity. Qed.

Lemma directive_effect_eq : forall k,
  directive_effect k =
  match k with
  | DIfndef | DIf | DIfdef => (1, false)
  | DEndif => (-1, false)
  | DDefine => (0, true)
  | _ => (0, false)
  end.
Proof. destruct k; reflexivity. Qed.

(* ====================================================================== guard_of *)
Definition guard_char (c : N) : N := if N.eqb (ascii_upper c) 46 then 95%N else ascii_upper c.

Lemma guard_of_map : forall b, guard_of b = map guard_char b.
Proof. intros b. unfold guard_of, py_replace1, py_upper. rewrite map_map. reflexivity. Qed.

Lemma guard_of_app : forall a b, guard_of (a ++ b) = guard_of a ++ guard_of b.
Proof. intros. rewrite !guard_of_map. apply map_app. Qed.

Lemma guard_of_length : forall b, List.length (guard_of b) = List.length b.
Proof. intros. rewrite guard_of_map. apply map_length. Qed.

Lemma ascii_upper_cases : forall c,
  ((97 <= c <= 122)%N /\ ascii_upper c = (c - 32)%N) \/ (~ (97 <= c <= 122)%N /\ ascii_upper c = c).
Proof.
  intros c. unfold ascii_upper.
  destruct (N.leb_spec 97 c); destruct (N.leb_spec c 122); simpl; [left|right|right|right]; split; try reflexivity; lia.
Qed.

Lemma guard_char_idem : forall c, guard_char (guard_char c) = guard_char c.
Proof.
  intros c. unfold guard_char.
  destruct (ascii_upper_cases c) as [[Hr Hu]|[Hr Hu]]; rewrite Hu.
  - destruct (N.eqb_spec (c - 32) 46); [lia|].
    destruct (ascii_upper_cases (c - 32)) as [[Hr' Hu']|[Hr' Hu']]; rewrite Hu'; [lia|].
    destruct (N.eqb_spec (c - 32) 46); [lia|reflexivity].
  - destruct (N.eqb_spec c 46).
    + change (ascii_upper 95) with 95%N. reflexivity.
    + rewrite Hu. destruct (N.eqb_spec c 46); [contradiction|reflexivity].
Qed.

Lemma guard_of_idem : forall b, guard_of (guard_of b) = guard_of b.
Proof.
  intros b. rewrite !guard_of_map, map_map. apply map_ext. intros; apply guard_char_idem.
Qed.

(* the alphabet of the property's base names, and of the symbols the check can expect *)
Definition name_char (c : N) : Prop := (97 <= c <= 122)%N \/ (48 <= c <= 57)%N \/ c = 95%N \/ c = 46%N.
Definition macro_char (c : N) : Prop := (65 <= c <= 90)%N \/ (48 <= c <= 57)%N \/ c = 95%N.

Lemma guard_char_alphabet : forall c, name_char c -> macro_char (guard_char c).
Proof.
  intros c H. unfold guard_char, macro_char.
  destruct (ascii_upper_cases c) as [[Hr Hu]|[Hr Hu]]; rewrite Hu.
  - destruct (N.eqb_spec (c - 32) 46); lia.
  - destruct (N.eqb_spec c 46); [lia|]. unfold name_char in H. lia.
Qed.

Lemma guard_of_alphabet : forall b, Forall name_char b -> Forall macro_char (guard_of b).
Proof.
  intros b H. rewrite guard_of_map. induction H; simpl; constructor; auto using guard_char_alphabet.
Qed.

(* a symbol over the macro alphabet is its own upper-casing: the expected symbol never triggers HEADER_PROT_UPPER on itself *)
Lemma guard_of_upper_fixed : forall b, py_upper (guard_of b) = guard_of b.
Proof.
  intros b. rewrite guard_of_map. unfold py_upper. rewrite map_map. apply map_ext. intros c.
  unfold guard_char. destruct (ascii_upper_cases c) as [[Hr Hu]|[Hr Hu]]; rewrite Hu.
  - destruct (N.eqb_spec (c - 32) 46); [reflexivity|].
    destruct (ascii_upper_cases (c - 32)) as [[Hr' Hu']|[Hr' Hu']]; rewrite Hu'; [lia|reflexivity].
  - destruct (N.eqb_spec c 46); [reflexivity|exact Hu].
Qed.

(* agreement with the running interpreter: str.upper on every ASCII code point, the source's own guard expression
   and os.path.splitext on the sample names (tables regenerated by the translator on every run) *)
Lemma ascii_upper_live_table :
  forallb (fun n => str_eqb (py_upper [N.of_nat n]) (nth n live_ascii_upper [])) (seq 0 128) = true
  /\ List.length live_ascii_upper = 128%nat.
Proof. split; vm_compute; reflexivity. Qed.

Lemma ascii_upper_live : forall c, (c < 128)%N -> py_upper [c] = nth (N.to_nat c) live_ascii_upper [].
Proof.
  intros c H. destruct ascii_upper_live_table as [T _].
  rewrite forallb_forall in T. specialize (T (N.to_nat c)).
  rewrite N2Nat.id in T. apply str_eqb_eq. apply T. apply in_seq. lia.
Qed.

Lemma py_upper_live : forall b, Forall (fun c => (c < 128)%N) b ->
  py_upper b = List.concat (map (fun c => nth (N.to_nat c) live_ascii_upper []) b).
Proof.
  intros b H. induction H as [|c b Hc _ IH]; [reflexivity|].
  change (py_upper (c :: b)) with (py_upper [c] ++ py_upper b).
  rewrite IH, (ascii_upper_live c Hc). reflexivity.
Qed.

Lemma guard_of_live_samples :
  forallb (fun p => str_eqb (guard_of (fst p)) (snd p)) live_guard_samples = true
  /\ Nat.leb 10 (List.length live_guard_samples) = true.
Proof. split; vm_compute; reflexivity. Qed.

Lemma file_type_live_samples :
  forallb (fun p => str_eqb (file_type (fst p)) (snd p)) live_splitext_samples = true
  /\ Nat.leb 20 (List.length live_splitext_samples) = true.
Proof. split; vm_compute; reflexivity. Qed.

(* ---- File.type of a header name ---- *)
Lemma split_last_dot_h : forall stem, split_last_dot (stem ++ s ".h") = Some (stem, s "h").
Proof.
  induction stem as [|c r IH]; [reflexivity|].
  change ((c :: r) ++ s ".h") with (c :: (r ++ s ".h")). simpl split_last_dot at 1.
  change (List.map N_of_ascii (list_ascii_of_string ".h")) with (s ".h").
  rewrite IH. reflexivity.
Qed.

Lemma file_type_h : forall stem, existsb (fun ch => negb (N.eqb ch 46)) stem = true ->
  file_type (stem ++ s ".h") = s ".h".
Proof. intros stem H. unfold file_type. rewrite split_last_dot_h, H. reflexivity. Qed.

(* an empty stem or a stem of dots only: no extension, the file is not treated as a header *)
Lemma file_type_dots : forall stem, existsb (fun ch => negb (N.eqb ch 46)) stem = false ->
  file_type (stem ++ s ".h") = [].
Proof. intros stem H. unfold file_type. rewrite split_last_dot_h, H. reflexivity. Qed.

(* ====================================================================== what the generated check does, by statement kind *)
Definition hp_all := s "HEADER_PROT_ALL".
Definition hp_all_af := s "HEADER_PROT_ALL_AF".
Definition hp_name := s "HEADER_PROT_NAME".
Definition hp_upper := s "HEADER_PROT_UPPER".
Definition hp_nodef := s "HEADER_PROT_NODEF".
Definition hp_mult := s "HEADER_PROT_MULT".
Definition hdrs := [s "IsComment"; s "IsEmptyLine"].

Definition prot_spec (x : stmt) (rest : list stmt) (c : gctx) : gctx * list str :=
  if negb (str_eqb (g_ftype c) (s ".h")) then (c, []) else
  match x with
  | SPre DEndif _ =>
      if Z.eqb (g_indent c) 0 && negb (g_protected c) then
        (set_protected c true,
         (if forallb is_trivia rest then [] else [hp_all_af])
         ++ (if has_macro_defined c (guard_of (g_basename c)) then [] else [hp_nodef]))
      else (c, [])
  | SPre DIfndef a =>
      if negb (Z.eqb (g_indent c) 1) then (c, []) else
      (c, (if negb (str_eqb a (guard_of (g_basename c))) && negb (g_protected c)
           then (if str_eqb (py_upper a) (guard_of (g_basename c)) then [hp_upper] else [hp_name]) else [])
          ++ (if g_protected c then [hp_mult]
              else if next_truthy (filterfalse_in hdrs (removelast (g_history c))) then [hp_all] else []))
  | _ => (c, [])
  end.

Lemma prot_run_spec : forall x rest c, prot_run (view_of x rest) c = prot_spec x rest c.
Proof.
  intros x rest c. unfold prot_run, prot_spec, guard_of, hdrs.
  destruct (str_eqb (g_ftype c) (s ".h")); [|reflexivity].
  destruct x as [k a| | |]; [|reflexivity..].
  destruct k; try reflexivity.
  - (* ifndef *)
    cbv [view_of dir_token directive_name v_dir v_arg v_trail].
    destruct (Z.eqb (g_indent c) 1); [|reflexivity].
    change (tok_value (Some (s "IDENTIFIER", a))) with a.
    destruct (str_eqb a (py_replace1 46 95 (py_upper (g_basename c))));
      destruct (g_protected c);
      destruct (str_eqb (py_upper a) (py_replace1 46 95 (py_upper (g_basename c))));
      destruct (next_truthy (filterfalse_in [s "IsComment"; s "IsEmptyLine"] (removelast (g_history c))));
      reflexivity.
  - (* endif *)
    cbv [view_of dir_token directive_name v_dir v_arg v_trail trail_of].
    destruct (Z.eqb (g_indent c) 0); [|reflexivity].
    destruct (g_protected c); [reflexivity|].
    destruct (forallb is_trivia rest);
      destruct (has_macro_defined c (py_replace1 46 95 (py_upper (g_basename c)))); reflexivity.
Qed.

(* ====================================================================== the primary's effect *)
Definition indent_after (i : Z) (k : dkind) : Z :=
  if opens k then Z.max 0 (i + 1) else if dkind_eqb k DEndif then Z.max 0 (i + -1) else i.

Lemma apply_primary_pre : forall c k a,
  apply_primary c (SPre k a) =
  mkctx (g_ftype c) (g_basename c) (indent_after (g_indent c) k)
        (if dkind_eqb k DDefine then g_macros c ++ [a] else g_macros c)
        (g_protected c) (g_history c ++ [s "IsPreprocessorStatement"]).
Proof. intros c k a. unfold apply_primary. rewrite directive_effect_eq. destruct k; reflexivity. Qed.

Lemma apply_primary_other : forall c x, (forall k a, x <> SPre k a) ->
  apply_primary c x = mkctx (g_ftype c) (g_basename c) (g_indent c) (g_macros c) (g_protected c) (g_history c ++ [rule_name x]).
Proof. intros c x H. destruct x; try reflexivity. exfalso; eapply H; reflexivity. Qed.

Definition defs (l : list stmt) : list str :=
  flat_map (fun x => match x with SPre DDefine a => [a] | _ => [] end) l.

Definition adv (l : list stmt) (c : gctx) : gctx := fold_left apply_primary l c.

Lemma ap_ftype : forall c x, g_ftype (apply_primary c x) = g_ftype c.
Proof. intros c [k a| | |]; try reflexivity. rewrite apply_primary_pre. reflexivity. Qed.
Lemma ap_basename : forall c x, g_basename (apply_primary c x) = g_basename c.
Proof. intros c [k a| | |]; try reflexivity. rewrite apply_primary_pre. reflexivity. Qed.
Lemma ap_protected : forall c x, g_protected (apply_primary c x) = g_protected c.
Proof. intros c [k a| | |]; try reflexivity. rewrite apply_primary_pre. reflexivity. Qed.
Lemma ap_history : forall c x, g_history (apply_primary c x) = g_history c ++ [rule_name x].
Proof. intros c [k a| | |]; try reflexivity. rewrite apply_primary_pre. reflexivity. Qed.
Lemma ap_macros : forall c x, g_macros (apply_primary c x) = g_macros c ++ defs [x].
Proof.
  intros c [k a| | |]; try (simpl; rewrite app_nil_r; reflexivity).
  rewrite apply_primary_pre. destruct k; simpl; rewrite ?app_nil_r; reflexivity.
Qed.
Lemma ap_indent : forall c x,
  g_indent (apply_primary c x) = match x with SPre k _ => indent_after (g_indent c) k | _ => g_indent c end.
Proof. intros c [k a| | |]; try reflexivity. rewrite apply_primary_pre. reflexivity. Qed.

Lemma adv_ftype : forall l c, g_ftype (adv l c) = g_ftype c.
Proof. induction l; intros c; simpl; [reflexivity|]. unfold adv in IHl. rewrite IHl. apply ap_ftype. Qed.
Lemma adv_basename : forall l c, g_basename (adv l c) = g_basename c.
Proof. induction l; intros c; simpl; [reflexivity|]. unfold adv in IHl. rewrite IHl. apply ap_basename. Qed.
Lemma adv_protected : forall l c, g_protected (adv l c) = g_protected c.
Proof. induction l; intros c; simpl; [reflexivity|]. unfold adv in IHl. rewrite IHl. apply ap_protected. Qed.
Lemma adv_history : forall l c, g_history (adv l c) = g_history c ++ map rule_name l.
Proof.
  induction l; intros c; simpl; [rewrite app_nil_r; reflexivity|].
  unfold adv in IHl. rewrite IHl, ap_history, <- app_assoc. reflexivity.
Qed.
Lemma defs_cons : forall x l, defs (x :: l) = defs [x] ++ defs l.
Proof. intros. unfold defs. simpl. rewrite app_nil_r. reflexivity. Qed.
Lemma adv_macros : forall l c, g_macros (adv l c) = g_macros c ++ defs l.
Proof.
  induction l; intros c; simpl; [rewrite app_nil_r; reflexivity|].
  unfold adv in IHl. rewrite IHl, ap_macros, <- app_assoc, <- defs_cons. reflexivity.
Qed.

Definition nocond (x : stmt) : Prop := is_cond x = false.

Lemma adv_indent_nocond : forall l c, Forall nocond l -> g_indent (adv l c) = g_indent c.
Proof.
  induction l; intros c H; simpl; [reflexivity|]. inversion H; subst.
  unfold adv in IHl. rewrite IHl by assumption. rewrite ap_indent.
  destruct a as [k a| | |]; try reflexivity. unfold nocond in H2. simpl in H2.
  unfold indent_after. destruct k; try reflexivity; discriminate.
Qed.

Lemma adv_indent_balanced : forall l d d' c, depth_after d l = Some d' -> g_indent c = 1 + Z.of_nat d ->
  g_indent (adv l c) = 1 + Z.of_nat d'.
Proof.
  induction l as [|x l IH]; intros d d' c H Hi.
  - simpl in H. injection H as <-. exact Hi.
  - change (adv (x :: l) c) with (adv l (apply_primary c x)). cbn [depth_after] in H.
    destruct x as [k a| | |]; try (eapply IH; [exact H|rewrite ap_indent; exact Hi]).
    destruct (opens k) eqn:Ho.
    + eapply IH; [exact H|]. rewrite ap_indent. unfold indent_after. rewrite Ho. lia.
    + destruct (dkind_eqb k DEndif) eqn:He.
      * destruct d as [|d0]; [discriminate|]. eapply IH; [exact H|].
        rewrite ap_indent. unfold indent_after. rewrite Ho, He. lia.
      * eapply IH; [exact H|]. rewrite ap_indent. unfold indent_after. rewrite Ho, He. exact Hi.
Qed.

Lemma has_macro_defs : forall g l, existsb (fun m => str_eqb m g) (defs l) = defines g l.
Proof.
  intros g. induction l as [|x l IH]; [reflexivity|].
  rewrite defs_cons, existsb_app, IH. unfold defines. simpl existsb at 2.
  destruct x as [k a| | |]; try reflexivity. destruct k; try reflexivity. simpl. rewrite orb_false_r. reflexivity.
Qed.

Lemma has_macro_adv : forall l c g, has_macro_defined (adv l c) g = has_macro_defined c g || defines g l.
Proof. intros. unfold has_macro_defined. rewrite adv_macros, existsb_app, has_macro_defs. reflexivity. Qed.

(* ====================================================================== the trace loop *)
Lemma step_eq : forall c x rest,
  step c x rest = match x with SPre _ _ => prot_spec x rest (apply_primary c x) | _ => (apply_primary c x, []) end.
Proof. intros c x rest. unfold step. destruct x; try reflexivity. apply prot_run_spec. Qed.

Lemma run_from_cons : forall c x r,
  run_from c (x :: r) =
  (fst (run_from (fst (step c x r)) r), snd (step c x r) ++ snd (run_from (fst (step c x r)) r)).
Proof. intros. simpl. destruct (step c x r). simpl. destruct (run_from g r). reflexivity. Qed.

Lemma run_from_quiet : forall c x r c1, step c x r = (c1, []) -> run_from c (x :: r) = run_from c1 r.
Proof. intros c x r c1 H. simpl. rewrite H. destruct (run_from c1 r). reflexivity. Qed.

Lemma In_emitted_here : forall code c x r, In code (snd (step c x r)) -> In code (snd (run_from c (x :: r))).
Proof. intros. rewrite run_from_cons. simpl. apply in_or_app. left. assumption. Qed.

Lemma In_emitted_later : forall code c x r, In code (snd (run_from (fst (step c x r)) r)) ->
  In code (snd (run_from c (x :: r))).
Proof. intros. rewrite run_from_cons. simpl. apply in_or_app. right. assumption. Qed.

(* statements that are not #if/#ifdef/#ifndef/#endif never make the check emit or change anything *)
Lemma step_nocond : forall c x rest, nocond x -> step c x rest = (apply_primary c x, []).
Proof.
  intros c x rest H. rewrite step_eq. destruct x as [k a| | |]; try reflexivity.
  unfold prot_spec. destruct (negb (str_eqb (g_ftype (apply_primary c (SPre k a))) (s ".h"))); [reflexivity|].
  unfold nocond in H. simpl in H. destruct k; try reflexivity; discriminate.
Qed.

Lemma nocond_quiet : forall pre c tail, Forall nocond pre -> run_from c (pre ++ tail) = run_from (adv pre c) tail.
Proof.
  induction pre as [|x pre IH]; intros c tail H; [reflexivity|]. inversion H; subst.
  change ((x :: pre) ++ tail) with (x :: (pre ++ tail)).
  rewrite (run_from_quiet _ _ _ _ (step_nocond c x (pre ++ tail) H2)). apply IH. assumption.
Qed.

(* inside an open conditional (indent >= 1 before the statement and the list never closes more than it opened)
   the check is silent and changes nothing *)
Lemma body_quiet : forall body d d' c tail,
  depth_after d body = Some d' -> g_indent c = 1 + Z.of_nat d ->
  run_from c (body ++ tail) = run_from (adv body c) tail.
Proof.
  induction body as [|x body IH]; intros d d' c tail H Hi; [reflexivity|].
  change ((x :: body) ++ tail) with (x :: (body ++ tail)).
  assert (Hq : step c x (body ++ tail) = (apply_primary c x, [])).
  { rewrite step_eq. destruct x as [k a| | |]; try reflexivity.
    unfold prot_spec. destruct (negb (str_eqb (g_ftype (apply_primary c (SPre k a))) (s ".h"))); [reflexivity|].
    destruct k; try reflexivity.
    - rewrite ap_indent. unfold indent_after. simpl opens. cbv iota.
      destruct (Z.eqb_spec (Z.max 0 (g_indent c + 1)) 1); [lia|reflexivity].
    - rewrite ap_indent. unfold indent_after. simpl opens. simpl dkind_eqb. cbv iota.
      simpl in H. destruct d as [|d0]; [discriminate|].
      destruct (Z.eqb_spec (Z.max 0 (g_indent c + -1)) 0); [lia|reflexivity]. }
  rewrite (run_from_quiet _ _ _ _ Hq).
  simpl in H. destruct x as [k a| | |]; try (eapply IH; [exact H|rewrite ap_indent; exact Hi]).
  destruct (opens k) eqn:Ho.
  - eapply IH; [exact H|]. rewrite ap_indent. unfold indent_after. rewrite Ho. lia.
  - destruct (dkind_eqb k DEndif) eqn:He.
    + destruct d as [|d0]; [discriminate|]. eapply IH; [exact H|].
      rewrite ap_indent. unfold indent_after. rewrite Ho, He. lia.
    + eapply IH; [exact H|]. rewrite ap_indent. unfold indent_after. rewrite Ho, He. exact Hi.
Qed.

(* the opening #ifndef at depth 0 *)
Lemma step_ifndef0 : forall c a rest, g_ftype c = s ".h" -> g_indent c = 0 ->
  step c (SPre DIfndef a) rest =
  (apply_primary c (SPre DIfndef a),
   (if negb (str_eqb a (guard_of (g_basename c))) && negb (g_protected c)
    then (if str_eqb (py_upper a) (guard_of (g_basename c)) then [hp_upper] else [hp_name]) else [])
   ++ (if g_protected c then [hp_mult]
       else if next_truthy (filterfalse_in hdrs (g_history c)) then [hp_all] else [])).
Proof.
  intros c a rest Hf Hi. rewrite step_eq. unfold prot_spec.
  rewrite ap_ftype, Hf. change (negb (str_eqb (s ".h") (s ".h"))) with false. cbv iota.
  rewrite ap_indent, Hi. change (negb (Z.eqb (indent_after 0 DIfndef) 1)) with false. cbv iota.
  rewrite ap_basename, ap_protected, ap_history, removelast_last. reflexivity.
Qed.

(* the #endif that brings the depth back to 0, guard not yet closed *)
Lemma step_endif_close : forall c a rest, g_ftype c = s ".h" -> 0 <= g_indent c <= 1 -> g_protected c = false ->
  step c (SPre DEndif a) rest =
  (set_protected (apply_primary c (SPre DEndif a)) true,
   (if forallb is_trivia rest then [] else [hp_all_af])
   ++ (if has_macro_defined c (guard_of (g_basename c)) then [] else [hp_nodef])).
Proof.
  intros c a rest Hf Hi Hp. rewrite step_eq. unfold prot_spec.
  rewrite ap_ftype, Hf. change (negb (str_eqb (s ".h") (s ".h"))) with false. cbv iota.
  rewrite ap_indent, ap_protected, Hp. unfold indent_after. simpl opens. simpl dkind_eqb. cbv iota.
  destruct (Z.eqb_spec (Z.max 0 (g_indent c + -1)) 0) as [_|Hn]; [|lia].
  simpl andb. cbv iota. rewrite ap_basename. reflexivity.
Qed.

Lemma trivia_nocond : forall l, Forall (fun x => is_trivia x = true) l -> Forall nocond l.
Proof. intros l H. induction H; constructor; auto. destruct x; try discriminate; reflexivity. Qed.

Lemma trivia_history : forall l, Forall (fun x => is_trivia x = true) l -> filterfalse_in hdrs (map rule_name l) = [].
Proof. intros l H. induction H; [reflexivity|]. destruct x; try discriminate; simpl; exact IHForall. Qed.

Lemma trivia_forallb : forall l, Forall (fun x => is_trivia x = true) l -> forallb is_trivia l = true.
Proof. intros l H. induction H; [reflexivity|]. simpl. rewrite H. exact IHForall. Qed.

Lemma nontrivia_history : forall l, existsb (fun x => negb (is_trivia x)) l = true ->
  next_truthy (filterfalse_in hdrs (map rule_name l)) = true.
Proof.
  induction l as [|x l IH]; [discriminate|]. simpl existsb. intros H.
  destruct x as [k a| | |]; try reflexivity; simpl in H; simpl; apply IH; exact H.
Qed.

Lemma init_fields : forall base,
  g_indent (init_ctx base) = 0 /\ g_protected (init_ctx base) = false /\ g_macros (init_ctx base) = []
  /\ g_history (init_ctx base) = [] /\ g_basename (init_ctx base) = base /\ g_ftype (init_ctx base) = file_type base.
Proof. intros. repeat split. Qed.

(* state after `pre ++ [#ifndef x]` when pre contains no conditional *)
Section Shapes.
Variable base : str.
Hypothesis Hh : file_type base = s ".h".
Let G := guard_of base.

Definition after_pre (pre : list stmt) : gctx := adv pre (init_ctx base).

Lemma after_pre_fields : forall pre, Forall nocond pre ->
  g_ftype (after_pre pre) = s ".h" /\ g_indent (after_pre pre) = 0 /\ g_protected (after_pre pre) = false
  /\ g_basename (after_pre pre) = base /\ g_history (after_pre pre) = map rule_name pre
  /\ g_macros (after_pre pre) = defs pre.
Proof.
  intros pre H. unfold after_pre.
  rewrite adv_ftype, adv_indent_nocond, adv_protected, adv_basename, adv_history, adv_macros by assumption.
  simpl. rewrite Hh. repeat split.
Qed.

(* ---- C14_accept ---- *)
Lemma accept : forall pre body post a,
  Forall (fun x => is_trivia x = true) pre -> balanced body -> Forall (fun x => is_trivia x = true) post ->
  emitted base (pre ++ SPre DIfndef G :: SPre DDefine G :: body ++ SPre DEndif a :: post) = [].
Proof.
  intros pre body post a Hpre Hbal Hpost. unfold emitted.
  pose proof (trivia_nocond _ Hpre) as Hnc.
  rewrite nocond_quiet by exact Hnc. fold (after_pre pre).
  destruct (after_pre_fields pre Hnc) as (Hf & Hi & Hp & Hb & Hhist & Hm).
  set (c1 := after_pre pre) in *.
  (* #ifndef G *)
  assert (S1 : step c1 (SPre DIfndef G) (SPre DDefine G :: body ++ SPre DEndif a :: post)
               = (apply_primary c1 (SPre DIfndef G), [])).
  { rewrite step_ifndef0 by assumption. rewrite Hb, Hp, Hhist. fold G. rewrite str_eqb_refl.
    rewrite (trivia_history _ Hpre). reflexivity. }
  rewrite (run_from_quiet _ _ _ _ S1).
  set (c2 := apply_primary c1 (SPre DIfndef G)).
  (* # define G *)
  assert (S2 : step c2 (SPre DDefine G) (body ++ SPre DEndif a :: post) = (apply_primary c2 (SPre DDefine G), []))
    by (apply step_nocond; reflexivity).
  rewrite (run_from_quiet _ _ _ _ S2).
  set (c3 := apply_primary c2 (SPre DDefine G)).
  assert (Hi3 : g_indent c3 = 1 + Z.of_nat 0).
  { unfold c3, c2. rewrite !ap_indent, Hi. reflexivity. }
  rewrite (body_quiet body 0 0 c3 _ Hbal Hi3).
  set (c4 := adv body c3).
  assert (Hf4 : g_ftype c4 = s ".h") by (unfold c4, c3, c2; rewrite adv_ftype, !ap_ftype; exact Hf).
  assert (Hi4 : g_indent c4 = 1) by (unfold c4; rewrite (adv_indent_balanced body 0 0 c3 Hbal Hi3); reflexivity).
  assert (Hp4 : g_protected c4 = false) by (unfold c4, c3, c2; rewrite adv_protected, !ap_protected; exact Hp).
  assert (Hb4 : g_basename c4 = base) by (unfold c4, c3, c2; rewrite adv_basename, !ap_basename; exact Hb).
  assert (Hm4 : has_macro_defined c4 G = true).
  { unfold c4. rewrite has_macro_adv. unfold has_macro_defined, c3. rewrite ap_macros, existsb_app.
    simpl. rewrite str_eqb_refl. rewrite !orb_true_r. reflexivity. }
  rewrite run_from_cons. rewrite step_endif_close by (try assumption; lia).
  cbn [fst snd]. rewrite Hb4. fold G. rewrite Hm4, (trivia_forallb _ Hpost).
  pose proof (nocond_quiet post (set_protected (apply_primary c4 (SPre DEndif a)) true) [] (trivia_nocond _ Hpost)) as Q.
  rewrite app_nil_r in Q. rewrite Q. reflexivity.
Qed.

(* ---- G1 / G2: the symbol of the opening #ifndef ---- *)
Lemma open_symbol : forall pre x rest, Forall nocond pre ->
  x <> G ->
  In (if str_eqb (py_upper x) G then hp_upper else hp_name) (emitted base (pre ++ SPre DIfndef x :: rest)).
Proof.
  intros pre x rest Hnc Hx. unfold emitted. rewrite nocond_quiet by exact Hnc. fold (after_pre pre).
  destruct (after_pre_fields pre Hnc) as (Hf & Hi & Hp & Hb & Hhist & Hm).
  apply In_emitted_here. rewrite step_ifndef0 by assumption. rewrite Hb, Hp. fold G.
  apply str_eqb_neq in Hx. rewrite Hx. simpl. apply in_or_app. left.
  destruct (str_eqb (py_upper x) G); left; reflexivity.
Qed.

Lemma G1 : forall pre x rest, Forall nocond pre -> x <> G -> py_upper x <> G ->
  In hp_name (emitted base (pre ++ SPre DIfndef x :: rest)).
Proof.
  intros pre x rest Hnc Hx Hu. pose proof (open_symbol pre x rest Hnc Hx) as H.
  apply str_eqb_neq in Hu. rewrite Hu in H. exact H.
Qed.

Lemma G2 : forall pre x rest, Forall nocond pre -> x <> G -> py_upper x = G ->
  In hp_upper (emitted base (pre ++ SPre DIfndef x :: rest)).
Proof.
  intros pre x rest Hnc Hx Hu. pose proof (open_symbol pre x rest Hnc Hx) as H.
  apply str_eqb_eq in Hu. rewrite Hu in H. exact H.
Qed.

(* state when the #endif closing the first top-level conditional is reached *)
Lemma reach_endif : forall pre x body a post code,
  Forall nocond pre -> balanced body ->
  (let c4 := adv body (apply_primary (after_pre pre) (SPre DIfndef x)) in
   In code (snd (run_from c4 (SPre DEndif a :: post)))) ->
  In code (emitted base (pre ++ SPre DIfndef x :: body ++ SPre DEndif a :: post)).
Proof.
  intros pre x body a post code Hnc Hbal H. unfold emitted.
  rewrite nocond_quiet by exact Hnc. fold (after_pre pre).
  destruct (after_pre_fields pre Hnc) as (Hf & Hi & Hp & Hb & Hhist & Hm).
  apply In_emitted_later. rewrite step_ifndef0 by assumption. cbn [fst].
  assert (Hi3 : g_indent (apply_primary (after_pre pre) (SPre DIfndef x)) = 1 + Z.of_nat 0)
    by (rewrite ap_indent, Hi; reflexivity).
  rewrite (body_quiet body 0 0 _ _ Hbal Hi3). exact H.
Qed.

Lemma at_endif_fields : forall pre x body, Forall nocond pre -> balanced body ->
  let c4 := adv body (apply_primary (after_pre pre) (SPre DIfndef x)) in
  g_ftype c4 = s ".h" /\ g_indent c4 = 1 /\ g_protected c4 = false /\ g_basename c4 = base
  /\ forall g, has_macro_defined c4 g = defines g (pre ++ body).
Proof.
  intros pre x body Hnc Hbal c4.
  destruct (after_pre_fields pre Hnc) as (Hf & Hi & Hp & Hb & Hhist & Hm).
  assert (Hi3 : g_indent (apply_primary (after_pre pre) (SPre DIfndef x)) = 1 + Z.of_nat 0)
    by (rewrite ap_indent, Hi; reflexivity).
  unfold c4. rewrite adv_ftype, ap_ftype, adv_protected, ap_protected, adv_basename, ap_basename.
  rewrite (adv_indent_balanced body 0 0 _ Hbal Hi3).
  repeat split; try assumption.
  intros g. rewrite has_macro_adv. unfold has_macro_defined. rewrite ap_macros, Hm. simpl defs. rewrite app_nil_r.
  rewrite has_macro_defs. unfold defines. rewrite existsb_app. reflexivity.
Qed.

(* ---- G3: the expected symbol is not #defined before the guard closes ---- *)
Lemma G3 : forall pre x body a post, Forall nocond pre -> balanced body ->
  defines G (pre ++ body) = false ->
  In hp_nodef (emitted base (pre ++ SPre DIfndef x :: body ++ SPre DEndif a :: post)).
Proof.
  intros pre x body a post Hnc Hbal Hd. apply reach_endif; try assumption.
  destruct (at_endif_fields pre x body Hnc Hbal) as (Hf & Hi & Hp & Hb & Hm).
  cbv zeta. apply In_emitted_here. rewrite step_endif_close by (try assumption; lia).
  rewrite Hb. fold G. rewrite Hm, Hd. cbn [snd]. apply in_or_app. right. left. reflexivity.
Qed.

(* ---- G6: something that is neither blank nor comment after the closing #endif ---- *)
Lemma G6 : forall pre x body a post, Forall nocond pre -> balanced body ->
  existsb (fun y => negb (is_trivia y)) post = true ->
  In hp_all_af (emitted base (pre ++ SPre DIfndef x :: body ++ SPre DEndif a :: post)).
Proof.
  intros pre x body a post Hnc Hbal Hpost. apply reach_endif; try assumption.
  destruct (at_endif_fields pre x body Hnc Hbal) as (Hf & Hi & Hp & Hb & Hm).
  cbv zeta. apply In_emitted_here. rewrite step_endif_close by (try assumption; lia).
  assert (Hfa : forallb is_trivia post = false).
  { clear - Hpost. induction post as [|y l IH]; [discriminate|]. simpl in *.
    destruct (is_trivia y); simpl in *; [apply IH; exact Hpost|reflexivity]. }
  rewrite Hfa. cbn [snd]. left. reflexivity.
Qed.

(* ---- G4: a second top-level #ifndef after the first conditional was closed ---- *)
Lemma G4 : forall pre x body a mid y rest, Forall nocond pre -> balanced body -> Forall nocond mid ->
  In hp_mult (emitted base (pre ++ SPre DIfndef x :: body ++ SPre DEndif a :: mid ++ SPre DIfndef y :: rest)).
Proof.
  intros pre x body a mid y rest Hnc Hbal Hmid. apply reach_endif; try assumption.
  destruct (at_endif_fields pre x body Hnc Hbal) as (Hf & Hi & Hp & Hb & Hm).
  cbv zeta. set (c4 := adv body (apply_primary (after_pre pre) (SPre DIfndef x))) in *.
  apply In_emitted_later. rewrite step_endif_close by (try assumption; lia). cbn [fst].
  rewrite nocond_quiet by exact Hmid.
  set (c5 := set_protected (apply_primary c4 (SPre DEndif a)) true).
  apply In_emitted_here.
  assert (Hf6 : g_ftype (adv mid c5) = s ".h").
  { rewrite adv_ftype. change (g_ftype c5) with (g_ftype (apply_primary c4 (SPre DEndif a))).
    rewrite ap_ftype. exact Hf. }
  assert (Hi6 : g_indent (adv mid c5) = 0).
  { rewrite adv_indent_nocond by exact Hmid.
    change (g_indent c5) with (g_indent (apply_primary c4 (SPre DEndif a))).
    rewrite ap_indent, Hi. reflexivity. }
  rewrite step_ifndef0 by assumption.
  rewrite adv_protected. change (g_protected c5) with true. cbn [snd].
  rewrite andb_false_r. apply in_or_app. right. left. reflexivity.
Qed.

(* ---- G5: a statement that is neither blank nor comment before the opening #ifndef ---- *)
Lemma G5 : forall pre x rest, Forall nocond pre -> existsb (fun y => negb (is_trivia y)) pre = true ->
  In hp_all (emitted base (pre ++ SPre DIfndef x :: rest)).
Proof.
  intros pre x rest Hnc Hex. unfold emitted. rewrite nocond_quiet by exact Hnc. fold (after_pre pre).
  destruct (after_pre_fields pre Hnc) as (Hf & Hi & Hp & Hb & Hhist & Hm).
  apply In_emitted_here. rewrite step_ifndef0 by assumption. rewrite Hp, Hhist, (nontrivia_history _ Hex).
  cbn [snd]. apply in_or_app. right. left. reflexivity.
Qed.

End Shapes.

(* ---- G8: anything that is not a .h file ---- *)
Lemma not_header_silent : forall t c, g_ftype c <> s ".h" -> snd (run_from c t) = [].
Proof.
  induction t as [|x t IH]; intros c H; [reflexivity|].
  assert (Hq : step c x t = (apply_primary c x, [])).
  { rewrite step_eq. destruct x as [k a| | |]; try reflexivity.
    unfold prot_spec. rewrite ap_ftype. apply str_eqb_neq in H. rewrite H. reflexivity. }
  rewrite (run_from_quiet _ _ _ _ Hq). apply IH. rewrite ap_ftype. exact H.
Qed.

Lemma G8 : forall base t, file_type base <> s ".h" -> emitted base t = [].
Proof. intros base t H. unfold emitted. apply not_header_silent. exact H. Qed.

(* ---- G7: without #ifndef and #endif the check never says anything, whatever the file declares ---- *)
Definition no_guard_directive (x : stmt) : Prop :=
  match x with SPre DIfndef _ | SPre DEndif _ => False | _ => True end.

Lemma unguarded_silent : forall t c, Forall no_guard_directive t -> snd (run_from c t) = [].
Proof.
  induction t as [|x t IH]; intros c H; [reflexivity|]. inversion H; subst.
  assert (Hq : step c x t = (apply_primary c x, [])).
  { rewrite step_eq. destruct x as [k a| | |]; try reflexivity.
    unfold prot_spec. destruct (negb (str_eqb (g_ftype (apply_primary c (SPre k a))) (s ".h"))); [reflexivity|].
    destruct k; try reflexivity; contradiction. }
  rewrite (run_from_quiet _ _ _ _ Hq). apply IH. assumption.
Qed.

Lemma G7_refuted :
  exists base t, file_type base = s ".h" /\ In SDecl t /\ Forall no_guard_directive t /\ emitted base t = [].
Proof.
  exists (s "foo.h"), [SComment; SBlank; SPre DInclude []; SBlank; SDecl; SDecl].
  split; [vm_compute; reflexivity|]. split; [simpl; tauto|]. split; [repeat constructor|]. vm_compute. reflexivity.
Qed.

(* ====================================================================== non-vacuity *)
Definition ex_body : list stmt :=
  [SBlank; SPre DInclude []; SPre DDefine (s "BUF"); SPre DIfndef (s "X"); SPre DDefine (s "X"); SPre DIf [];
   SDecl; SPre DElif []; SPre DElse []; SPre DEndif []; SPre DEndif []; SDecl; SComment; SDecl; SBlank].

Example ex_balanced : balanced ex_body /\ ~ balanced [SPre DEndif []; SPre DIf []] /\ ~ balanced [SPre DIfdef []].
Proof. repeat split; try reflexivity; intro H; discriminate H. Qed.

Example ex_file_type :
  file_type (s "a.b..h") = s ".h" /\ file_type (s ".a.h") = s ".h" /\ file_type (s "9.h") = s ".h"
  /\ file_type (s ".h") = [] /\ file_type (s "..h") = [] /\ file_type (s "foo.c") = s ".c".
Proof. repeat split; reflexivity. Qed.

Example ex_accept :
  emitted (s "get_next_line.h")
    ([SComment; SBlank] ++ SPre DIfndef (s "GET_NEXT_LINE_H") :: SPre DDefine (s "GET_NEXT_LINE_H") :: ex_body
     ++ SPre DEndif [] :: [SBlank; SComment]) = []
  /\ guard_of (s "get_next_line.h") = s "GET_NEXT_LINE_H" /\ guard_of (s "a.b..h") = s "A_B__H".
Proof. repeat split; vm_compute; reflexivity. Qed.

Example ex_mutations :
  let b := s "foo.h" in let g := s "FOO_H" in
  emitted b (SPre DIfndef (s "BAR_H") :: SPre DDefine (s "BAR_H") :: ex_body ++ [SPre DEndif []]) = [hp_name; hp_nodef]
  /\ emitted b (SPre DIfndef (s "Foo_h") :: SPre DDefine (s "Foo_h") :: ex_body ++ [SPre DEndif []]) = [hp_upper; hp_nodef]
  /\ emitted b (SPre DIfndef g :: ex_body ++ [SPre DEndif []]) = [hp_nodef]
  /\ emitted b (SPre DIfndef g :: SPre DDefine g :: ex_body ++ SPre DEndif [] :: SBlank :: SPre DIfndef g :: SPre DDefine g :: [SPre DEndif []])
     = [hp_all_af; hp_mult]
  /\ emitted b (SComment :: SDecl :: SPre DIfndef g :: SPre DDefine g :: ex_body ++ [SPre DEndif []]) = [hp_all]
  /\ emitted b (SPre DIfndef g :: SPre DDefine g :: ex_body ++ [SPre DEndif []; SBlank; SDecl]) = [hp_all_af]
  /\ emitted b (SComment :: ex_body) = [hp_name; hp_all; hp_all_af; hp_nodef]   (* no guard: the #ifndef X of ex_body is taken for one *)
  /\ emitted b [SComment; SDecl; SDecl] = []
  /\ emitted (s "foo.c") (SDecl :: SPre DIfndef (s "BAR_H") :: ex_body ++ [SPre DEndif []; SDecl]) = [].
Proof. cbv zeta. repeat split; vm_compute; reflexivity. Qed.

(* ====================================================================== packaged statements for Props/C14.v *)
Lemma guard_of_shape : forall a b,
  guard_of (a ++ b) = guard_of a ++ guard_of b /\ List.length (guard_of b) = List.length b
  /\ py_upper (guard_of b) = guard_of b.
Proof. intros a b. exact (conj (guard_of_app a b) (conj (guard_of_length b) (guard_of_upper_fixed b))). Qed.

Lemma live_samples :
  (forallb (fun p => str_eqb (guard_of (fst p)) (snd p)) live_guard_samples = true
   /\ Nat.leb 10 (List.length live_guard_samples) = true)
  /\ (forallb (fun p => str_eqb (file_type (fst p)) (snd p)) live_splitext_samples = true
      /\ Nat.leb 20 (List.length live_splitext_samples) = true).
Proof. exact (conj guard_of_live_samples file_type_live_samples). Qed.

Lemma unguarded_never_reported : forall base t, Forall no_guard_directive t -> emitted base t = [].
Proof. intros base t. exact (unguarded_silent t (init_ctx base)). Qed.

Lemma state_frame :
  map (fun e => fst (fst e)) state_writers =
  ["norminette/context.py"; "norminette/context.py"; "norminette/context.py"; "norminette/context.py";
   "norminette/context.py"; "norminette/registry.py"; "norminette/rules/check_preprocessor_protection.py";
   "norminette/rules/is_preprocessor_statement.py"; "norminette/rules/is_preprocessor_statement.py";
   "norminette/rules/is_preprocessor_statement.py"; "norminette/rules/is_preprocessor_statement.py";
   "norminette/rules/is_preprocessor_statement.py"; "norminette/scope.py"]%string.
Proof. rewrite guard_state_writers. reflexivity. Qed.
