(* C12: sweeps over the operator/bracket tables in every spelling (finite, complete: vm_compute), and the
   unbounded theorems: greedy reading of a capture-free marked text gives the intended characters; a line splice
   in front of any text is skipped as one item and only moves the position to the next line. *)
From Coq Require Import Lia.
From NV Require Import Model.Base Model.Diag Model.Lexer Spec.CConst Spec.Respell Gen.Dict Proofs.StrOrder Proofs.LexInv Proofs.LexInv2.

Lemma op_sweep_ok : op_sweep all_ops = true.
Proof. vm_cast_no_check (eq_refl true). Qed.
Lemma pair_sweep_ok : forallb (fun a => forallb (fun b => pair_ok (fst a) (fst b)) all_ops) all_ops = true.
Proof. vm_cast_no_check (eq_refl true). Qed.

Lemma op_sweep_spec tbl : op_sweep tbl = true ->
  forall w ty w' r, In (w, ty) tbl -> In w' (respellings w) -> reads_as w' w = true -> In r op_rests ->
    rest_applies w r = true -> one_op_ok ty w' r = true.
Proof.
  unfold op_sweep. intros H w ty w' r Hk Hw Hr Hin Ha.
  rewrite forallb_forall in H. specialize (H _ Hk). cbn [fst snd] in H.
  rewrite forallb_forall in H. specialize (H _ Hw). rewrite Hr in H. cbn [negb orb] in H.
  rewrite forallb_forall in H. specialize (H _ Hin). rewrite Ha in H. exact H.
Qed.

Lemma every_spelling_same_token w ty w' r : In (w, ty) all_ops -> In w' (respellings w) -> reads_as w' w = true ->
  In r op_rests -> rest_applies w r = true -> one_op_ok ty w' r = true.
Proof. exact (op_sweep_spec all_ops op_sweep_ok w ty w' r). Qed.

Lemma forallb_pairs_spec {A} (f : A -> A -> bool) (l : list A) :
  forallb (fun a => forallb (fun b => f a b) l) l = true -> forall a b, In a l -> In b l -> f a b = true.
Proof.
  intros H a b Ha Hb. rewrite forallb_forall in H. specialize (H _ Ha). rewrite forallb_forall in H. exact (H _ Hb).
Qed.
Lemma longest_match_every_spelling a b : In a all_ops -> In b all_ops -> pair_ok (fst a) (fst b) = true.
Proof. exact (forallb_pairs_spec (fun a b => pair_ok (fst a) (fst b)) all_ops pair_sweep_ok a b). Qed.

(* ------------------------------------------------------------------ peek on marked texts *)
Lemma firstn_cons3 {A} (c : A) l : firstn 3 (c :: l) = c :: firstn 2 l.
Proof. reflexivity. Qed.
Lemma firstn_cons2 {A} (c : A) l : firstn 2 (c :: l) = c :: firstn 1 l.
Proof. reflexivity. Qed.
Lemma firstn_len_app {A} (a b : list A) n : List.length a = n -> firstn n (a ++ b) = a.
Proof. intros <-. apply firstn_app_exact. Qed.
Lemma skipn_len_app {A} (a b : list A) n : List.length a = n -> skipn n (a ++ b) = b.
Proof. intros <-. induction a; cbn; auto. Qed.

Lemma in_table_assoc k c tbl : in_table k c tbl = true -> assoc k tbl = Some [c].
Proof.
  unfold in_table. destruct (assoc k tbl) as [v|]; [|discriminate]. intros H. apply str_eqb_eq in H. now subst.
Qed.

Lemma peek1_alt3 k c nxt : in_table k c trigraphs = true -> List.length k = 3%nat -> peek1 (k ++ nxt) = Some ([c], 3%nat).
Proof.
  intros Ht Hl. destruct k as [|a k']; [discriminate|]. unfold peek1. cbn [app].
  change (a :: k' ++ nxt) with ((a :: k') ++ nxt). rewrite (firstn_len_app (a :: k') nxt 3 Hl).
  rewrite (in_table_assoc _ _ _ Ht). reflexivity.
Qed.
Lemma peek1_alt2 k c nxt : in_table k c digraphs = true -> List.length k = 2%nat ->
  assoc (firstn 3 (k ++ nxt)) trigraphs = None -> peek1 (k ++ nxt) = Some ([c], 2%nat).
Proof.
  intros Ht Hl Hn. destruct k as [|a k']; [discriminate|]. unfold peek1. cbn [app].
  change (a :: k' ++ nxt) with ((a :: k') ++ nxt). rewrite Hn.
  rewrite (firstn_len_app (a :: k') nxt 2 Hl). rewrite (in_table_assoc _ _ _ Ht). reflexivity.
Qed.

Lemma render_cons m ms : render (m :: ms) = render1 m ++ render ms.
Proof. reflexivity. Qed.

Theorem peek_respell_gen : forall ms fuel, wf_marks ms = true -> (List.length (render ms) < fuel)%nat ->
  logical fuel (render ms) = canon ms.
Proof.
  induction ms as [|m ms IH]; intros fuel Hwf Hf.
  - destruct fuel; reflexivity.
  - destruct fuel as [|f]; [inversion Hf|].
    rewrite render_cons in *. destruct m as [c|k c]; cbn [render1 canon map canon1 wf_marks] in *.
    + cbn [app] in *. destruct (assoc (c :: firstn 2 (render ms)) trigraphs) eqn:E3; [discriminate|].
      destruct (assoc (c :: firstn 1 (render ms)) digraphs) eqn:E2; [discriminate|].
      cbn [logical]. unfold peek1. rewrite firstn_cons3, E3, firstn_cons2, E2. cbn [app skipn].
      f_equal. apply IH; [exact Hwf|]. cbn [List.length] in Hf. lia.
    + apply andb_true_iff in Hwf as [Hk Hwf]. apply orb_true_iff in Hk as [Hk|Hk].
      * apply andb_true_iff in Hk as [Ht Hl]. apply Nat.eqb_eq in Hl.
        cbn [logical]. rewrite (peek1_alt3 k c (render ms) Ht Hl). rewrite (skipn_len_app k (render ms) 3 Hl).
        cbn [app]. f_equal. apply IH; [exact Hwf|]. rewrite app_length in Hf. lia.
      * apply andb_true_iff in Hk as [Hk Hn]. apply andb_true_iff in Hk as [Ht Hl]. apply Nat.eqb_eq in Hl.
        destruct (assoc (firstn 3 (k ++ render ms)) trigraphs) eqn:E3; [discriminate|].
        cbn [logical]. rewrite (peek1_alt2 k c (render ms) Ht Hl E3). rewrite (skipn_len_app k (render ms) 2 Hl).
        cbn [app]. f_equal. apply IH; [exact Hwf|]. rewrite app_length in Hf. lia.
Qed.

Theorem peek_respell ms : wf_marks ms = true -> reads_as (render ms) (canon ms) = true.
Proof.
  intros H. unfold reads_as. rewrite (peek_respell_gen ms _ H (Nat.lt_succ_diag_r _)). apply str_eqb_refl.
Qed.

(* canon of a marked text does not depend on the spellings chosen: two marked texts with the same canon read as
   the same character stream *)
Corollary respelling_same_stream ms ms' : wf_marks ms = true -> wf_marks ms' = true -> canon ms = canon ms' ->
  logical (S (List.length (render ms))) (render ms) = logical (S (List.length (render ms'))) (render ms').
Proof.
  intros H H' E. rewrite (peek_respell_gen ms _ H (Nat.lt_succ_diag_r _)), (peek_respell_gen ms' _ H' (Nat.lt_succ_diag_r _)). exact E.
Qed.

(* ------------------------------------------------------------------ splices between tokens *)
Lemma step_splice1 uw ud x r : rest x = 92%N :: 10%N :: r ->
  step uw ud x = StepItem (ISkip (off x) (off x + 2)) (mkst r (off x + 2) (line x + 1) 1 (errs x)).
Proof.
  intros Hr. unfold step. rewrite Hr.
  assert (Ha : at_splice (92%N :: 10%N :: r) = true) by (destruct r as [|a [|b r']]; reflexivity).
  rewrite Ha, peek1_splice1. unfold set_pos, advance. cbn [rest off line col errs]. rewrite Hr. reflexivity.
Qed.
Lemma step_splice2 uw ud x r : rest x = 63%N :: 63%N :: 47%N :: 10%N :: r ->
  step uw ud x = StepItem (ISkip (off x) (off x + 4)) (mkst r (off x + 4) (line x + 1) 1 (errs x)).
Proof.
  intros Hr. unfold step. rewrite Hr.
  assert (Ha : at_splice (63%N :: 63%N :: 47%N :: 10%N :: r) = true) by reflexivity.
  rewrite Ha, peek1_splice2. unfold set_pos, advance. cbn [rest off line col errs]. rewrite Hr. reflexivity.
Qed.

(* a splice in front of ANY text: the tokenizer skips it as one item and goes on with the text on the next line;
   no token, no diagnostic *)
Theorem splice_then_text uw ud (sp src : str) : sp = splice1 \/ sp = splice2 ->
  step uw ud (init (sp ++ src)) =
    StepItem (ISkip 0 (List.length sp)) (mkst src (List.length sp) 2 1 []).
Proof.
  intros [-> | ->]; [apply (step_splice1 uw ud (init (splice1 ++ src)) src)|apply (step_splice2 uw ud (init (splice2 ++ src)) src)]; reflexivity.
Qed.

Example wf_marks_example :
  wf_marks [Plain 97; Alt (s "<:") 91; Plain 49; Alt (s "??)") 93; Plain 32; Alt (s "%:") 35; Plain 60; Plain 60; Alt (s "??!") 124]%N = true /\
  wf_marks [Plain 60; Alt (s ":>") 93]%N = false.
Proof. vm_compute. split; reflexivity. Qed.
