(* The position invariant of the lexer model: in every reachable state the consumed prefix,
   the offset and the (line, column) agree with the independent TruePos specification, and
   every pop advances.  Part 1: tables, peek, pop. *)
From NV Require Import Model.Base Model.Diag Model.Lexer Spec.TruePos Proofs.StrOrder.
From Coq Require Import Lia.

Local Open Scope Z_scope.

(* ------------------------------------------------------------------ generic list facts *)
Lemma zl_app (a b : str) : zl (a ++ b) = zl a + zl b.
Proof. unfold zl. rewrite app_length. lia. Qed.

Lemma firstn_app_skipn_firstn {A} (n m : nat) (l : list A) :
  firstn (n + m) l = firstn n l ++ firstn m (skipn n l).
Proof.
  revert l; induction n as [|n IH]; intros l; cbn; [reflexivity|].
  destruct l as [|a l]; cbn; [now rewrite firstn_nil|]. now rewrite IH.
Qed.

Lemma skipn_skipn' {A} (n m : nat) (l : list A) : skipn m (skipn n l) = skipn (n + m) l.
Proof.
  revert l; induction n as [|n IH]; intros l; cbn; [reflexivity|].
  destruct l as [|a l]; cbn; [now rewrite skipn_nil|]. apply IH.
Qed.

(* ------------------------------------------------------------------ plain segments *)
Definition plainc (c : N) : bool := negb (N.eqb c 10) && negb (N.eqb c 9).
Definition plain (seg : str) : Prop := forallb plainc seg = true.

Lemma plain_app a b : plain a -> plain b -> plain (a ++ b).
Proof. unfold plain. rewrite forallb_app. intros -> ->. reflexivity. Qed.

Lemma plain_firstn n a : plain a -> plain (firstn n a).
Proof.
  unfold plain. revert n; induction a as [|c a IH]; intros [|n] H; cbn in *; try reflexivity.
  apply andb_true_iff in H as [H1 H2]. rewrite H1. now apply IH.
Qed.

Lemma adv_plainc l c ch : plainc ch = true -> adv (l, c) ch = (l, c + 1).
Proof.
  unfold plainc, adv. intros H. apply andb_true_iff in H as [H1 H2].
  apply negb_true_iff in H1, H2. now rewrite H1, H2.
Qed.

Lemma pos_after_plain seg : forall l c, plain seg -> pos_after (l, c) seg = (l, c + zl seg).
Proof.
  unfold pos_after, plain. induction seg as [|ch seg IH]; intros l c H; cbn [fold_left forallb] in *.
  - f_equal. unfold zl. cbn. lia.
  - apply andb_true_iff in H as [H1 H2]. rewrite (adv_plainc _ _ _ H1). rewrite IH by assumption.
    f_equal. unfold zl. cbn [List.length]. lia.
Qed.

Lemma pos_after_app p a b : pos_after p (a ++ b) = pos_after (pos_after p a) b.
Proof. unfold pos_after. apply fold_left_app. Qed.

(* ------------------------------------------------------------------ well-formed states *)
(* positional part: consumed prefix, offset and (line, column) agree with TruePos *)
Definition wfp (src : str) (x : st) : Prop :=
  exists pre, src = pre ++ rest x /\ off x = List.length pre /\ (line x, col x) = pos_after (1, 1) pre.
(* ... and the diagnostics recorded so far extend a given list E (nothing is ever retracted).
   The context is the pair (source, E). *)
Definition ctx := (str * list diag)%type.
Definition wf (src : ctx) (x : st) : Prop :=
  wfp (fst src) x /\ exists new, errs x = new ++ snd src.

Definition raw_advance (n : nat) (x : st) : st :=
  let (l, c) := pos_after (line x, col x) (firstn n (rest x)) in advance n (set_pos l c x).

Lemma wf_raw_advance src x n : wf src x -> (n <= List.length (rest x))%nat -> wf src (raw_advance n x).
Proof.
  intros [[pre [H1 [H2 H3]]] He] Hn. unfold raw_advance.
  destruct (pos_after (line x, col x) (firstn n (rest x))) as [l c] eqn:E.
  split; [|exact He].
  exists (pre ++ firstn n (rest x)). cbn. repeat split.
  - rewrite <- app_assoc, firstn_skipn. exact H1.
  - rewrite app_length, firstn_length_le by assumption. lia.
  - rewrite pos_after_app, <- H3. now rewrite E.
Qed.

Lemma wf_add_err src d x : wf src x -> wf src (add_err d x).
Proof.
  intros [[pre H] [new He]]. split; [exists pre; exact H|]. exists (d :: new). cbn. now rewrite He.
Qed.

Lemma wf_len src x : wf src x -> List.length (fst src) = (off x + List.length (rest x))%nat.
Proof. intros [[pre [H1 [H2 _]]] _]. rewrite H1, app_length. lia. Qed.

(* a state that only differs from a well-formed one by position fields taken from another
   well-formed state (the restore of parse_char_literal) *)
Lemma wf_restore src x x' : wf src x -> wf src x' ->
  wf src (mkst (rest x) (off x) (line x) (col x) (errs x')).
Proof. intros [[pre H] _] [_ He]. split; [exists pre; exact H|exact He]. Qed.

Lemma off_raw_advance n x : off (raw_advance n x) = (off x + n)%nat.
Proof. unfold raw_advance. destruct (pos_after _ _). reflexivity. Qed.
Lemma rest_raw_advance n x : rest (raw_advance n x) = skipn n (rest x).
Proof. unfold raw_advance. destruct (pos_after _ _). reflexivity. Qed.
Lemma errs_raw_advance n x : errs (raw_advance n x) = errs x.
Proof. unfold raw_advance. destruct (pos_after _ _). reflexivity. Qed.

Lemma raw_advance_add_err n d x : raw_advance n (add_err d x) = add_err d (raw_advance n x).
Proof. unfold raw_advance. cbn. destruct (pos_after _ _). reflexivity. Qed.

(* ------------------------------------------------------------------ the generated tables *)
Definition value_ok (v : str) : bool := match v with [c] => plainc c | _ => false end.
Definition entry_ok (n : nat) (kv : str * str) : bool :=
  Nat.eqb (List.length (fst kv)) n && forallb plainc (fst kv) && value_ok (snd kv).

Lemma trigraphs_ok : forallb (entry_ok 3) trigraphs = true.
Proof. vm_compute. reflexivity. Qed.
Lemma digraphs_ok : forallb (entry_ok 2) digraphs = true.
Proof. vm_compute. reflexivity. Qed.

Lemma assoc_in k l v : assoc k l = Some v -> In (k, v) l.
Proof.
  induction l as [|[a b] l IH]; cbn; [discriminate|].
  destruct (str_eqb k a) eqn:E.
  - intros H. inversion H; subst. apply str_eqb_eq in E. subst. now left.
  - intros H. right. now apply IH.
Qed.

Lemma assoc_entry_ok n tbl k v : forallb (entry_ok n) tbl = true -> assoc k tbl = Some v ->
  List.length k = n /\ plain k /\ exists c, v = [c] /\ plainc c = true.
Proof.
  intros Ht Ha. apply assoc_in in Ha. rewrite forallb_forall in Ht. specialize (Ht _ Ha).
  unfold entry_ok in Ht. cbn [fst snd] in Ht.
  apply andb_true_iff in Ht as [Ht Hv]. apply andb_true_iff in Ht as [Hl Hp].
  apply Nat.eqb_eq in Hl. split; [assumption|]. split; [exact Hp|].
  unfold value_ok in Hv. destruct v as [|c [|? ?]]; try discriminate. now exists c.
Qed.

(* ------------------------------------------------------------------ peek1 *)
Lemma firstn_length_eq {A} n (l : list A) : List.length (firstn n l) = n -> (n <= List.length l)%nat.
Proof. rewrite firstn_length. lia. Qed.

Inductive peek_spec (r : str) (ch : str) (n : nat) : Prop :=
| PeekRaw a r' : r = a :: r' -> ch = [a] -> n = 1%nat -> peek_spec r ch n
| PeekAlt c : (n = 2%nat \/ n = 3%nat) -> (n <= List.length r)%nat -> plain (firstn n r) ->
              ch = [c] -> plainc c = true -> peek_spec r ch n.

Lemma peek1_spec r ch n : peek1 r = Some (ch, n) -> peek_spec r ch n.
Proof.
  unfold peek1. destruct r as [|a r']; [discriminate|].
  destruct (assoc (firstn 3 (a :: r')) trigraphs) as [t|] eqn:E3.
  - intros H; inversion H; subst.
    destruct (assoc_entry_ok _ _ _ _ trigraphs_ok E3) as [Hl [Hp [c [-> Hc]]]].
    eapply PeekAlt; [now right|now apply firstn_length_eq|exact Hp|reflexivity|exact Hc].
  - destruct (assoc (firstn 2 (a :: r')) digraphs) as [d|] eqn:E2.
    + intros H; inversion H; subst.
      destruct (assoc_entry_ok _ _ _ _ digraphs_ok E2) as [Hl [Hp [c [-> Hc]]]].
      eapply PeekAlt; [now left|now apply firstn_length_eq|exact Hp|reflexivity|exact Hc].
    + intros H; inversion H; subst. eapply PeekRaw; reflexivity.
Qed.

Lemma peek_spec_bounds r ch n : peek_spec r ch n -> (1 <= n <= List.length r)%nat.
Proof. intros [a r' -> _ ->|c Hn Hl _ _ _]; cbn; lia. Qed.

Lemma peek1_none r : peek1 r = None -> r = [].
Proof.
  unfold peek1. destruct r as [|a r']; [reflexivity|].
  destruct (assoc _ trigraphs); [discriminate|]. destruct (assoc _ digraphs); discriminate.
Qed.

(* ------------------------------------------------------------------ pop_finish *)
(* what the inner loop of pop hands over: the translated text `char` and the raw segment *)
Inductive seg_ok (char seg : str) : Prop :=
| SegNl : seg = [10%N] -> char = [10%N] -> seg_ok char seg
| SegTab p : seg = p ++ [9%N] -> plain p -> ends_with [9%N] char = true -> is_nl char = false -> seg_ok char seg
| SegPlain : plain seg -> seg <> [] -> ends_with [9%N] char = false -> is_nl char = false -> seg_ok char seg.

Lemma pop_finish_spec us x char size :
  (size <= List.length (rest x))%nat -> seg_ok char (firstn size (rest x)) ->
  exists t, pop_finish us x char size = PopOk t (raw_advance size x).
Proof.
  intros Hs Hseg. unfold pop_finish, raw_advance.
  assert (Hlen : List.length (firstn size (rest x)) = size) by (now apply firstn_length_le).
  destruct Hseg as [Hs1 Hc | p Hs1 Hp Ht Hn | Hp Hne Ht Hn].
  - (* newline *)
    subst char. rewrite Hs1. cbn [is_nl nl str_eqb N.eqb Pos.eqb andb ends_with List.length Nat.leb Nat.sub skipn].
    rewrite Hs1 in Hlen. cbn in Hlen. subst size.
    cbn. eexists. unfold advance, set_pos. cbn. repeat f_equal; lia.
  - (* tab, possibly escaped *)
    rewrite Hn, Ht. rewrite Hs1. rewrite pos_after_app, (pos_after_plain p _ _ Hp).
    rewrite Hs1, app_length in Hlen. cbn [List.length] in Hlen.
    cbn [pos_after fold_left adv N.eqb Pos.eqb].
    unfold advance, set_pos. cbn [rest off line col errs].
    replace (zl p) with (Z.of_nat size - 1) by (unfold zl; lia).
    replace (col x + Z.of_nat size - 1 - 1) with (col x + (Z.of_nat size - 1) - 1) by lia.
    set (m := (col x + (Z.of_nat size - 1) - 1) mod 4).
    eexists. f_equal. f_equal. lia.
  - rewrite Hn, Ht. rewrite (pos_after_plain _ _ _ Hp). unfold zl. rewrite Hlen.
    eexists. unfold advance, set_pos. cbn [rest off line col errs]. reflexivity.
Qed.

(* ------------------------------------------------------------------ ends_with / is_nl on plain text *)
Lemma skipn_last {A} (u : list A) (c : A) : skipn (List.length (u ++ [c]) - 1) (u ++ [c]) = [c].
Proof.
  rewrite app_length. cbn [List.length]. replace (List.length u + 1 - 1)%nat with (List.length u + 0)%nat by lia.
  rewrite skipn_app, Nat.add_0_r, skipn_all, Nat.sub_diag. reflexivity.
Qed.

Lemma ends_with_tab_last u c : ends_with [9%N] (u ++ [c]) = N.eqb 9 c.
Proof.
  unfold ends_with. cbn [List.length]. rewrite skipn_last.
  rewrite app_length. cbn [List.length]. replace (Nat.leb 1 (List.length u + 1)) with true by (symmetry; apply Nat.leb_le; lia).
  cbn. now rewrite andb_true_r.
Qed.

Lemma plain_last u c : plain (u ++ [c]) -> plainc c = true.
Proof. unfold plain. rewrite forallb_app. cbn. intros H. apply andb_true_iff in H as [_ H]. now rewrite andb_true_r in H. Qed.

Lemma plainc_not_tab c : plainc c = true -> N.eqb 9 c = false.
Proof. unfold plainc. intros H. apply andb_true_iff in H as [_ H]. apply negb_true_iff in H. now rewrite N.eqb_sym. Qed.

Lemma plain_text t : plain t -> t <> [] -> ends_with [9%N] t = false /\ is_nl t = false.
Proof.
  intros Hp Hne. destruct (exists_last Hne) as [u [c ->]]. split.
  - rewrite ends_with_tab_last. apply plainc_not_tab. now apply plain_last in Hp.
  - unfold is_nl, nl. destruct u as [|a u]; cbn.
    + apply plain_last in Hp. unfold plainc in Hp. apply andb_true_iff in Hp as [Hp _].
      apply negb_true_iff in Hp. now rewrite Hp.
    + destruct u; cbn; now rewrite andb_false_r.
Qed.

Lemma chr_in_In c l : chr_in c l = true -> In c l.
Proof. unfold chr_in. intros H. apply existsb_exists in H as [y [Hy E]]. apply N.eqb_eq in E. now subst. Qed.

Lemma chr_in_plain c l : forallb plainc l = true -> chr_in c l = true -> plainc c = true.
Proof. intros Hl Hc. apply chr_in_In in Hc. rewrite forallb_forall in Hl. now apply Hl. Qed.

Lemma hexdigits_plain : forallb plainc hexadecimal_digits = true.
Proof. vm_compute. reflexivity. Qed.
Lemma octdigits_plain : forallb plainc octal_digits = true.
Proof. vm_compute. reflexivity. Qed.
Lemma escape_letters_plain : forallb plainc pop_escape_letters = true.
Proof. vm_compute. reflexivity. Qed.

Lemma is_substr1_In a y : is_substr [a] y = true -> In a y.
Proof.
  induction y as [|b y IH]; cbn.
  - discriminate.
  - intros H. apply orb_true_iff in H as [H|H].
    + apply andb_true_iff in H as [H _]. apply N.eqb_eq in H. now left.
    + right. now apply IH.
Qed.

Lemma is_substr1_plain a y : forallb plainc y = true -> is_substr [a] y = true -> plainc a = true.
Proof. intros Hy H. apply is_substr1_In in H. rewrite forallb_forall in Hy. now apply Hy. Qed.

(* ------------------------------------------------------------------ span, hex_after are prefixes *)
Lemma span_prefix p l : forall a b, NumRe.span p l = (a, b) -> l = a ++ b /\ forallb p a = true.
Proof.
  induction l as [|c l IH]; intros a b; cbn.
  - intros H; inversion H; subst. now split.
  - destruct (p c) eqn:E.
    + destruct (NumRe.span p l) as [x y] eqn:Es. intros H; inversion H; subst.
      destruct (IH _ _ eq_refl) as [-> Hx]. split; [reflexivity|]. cbn. now rewrite E.
    + intros H; inversion H; subst. now split.
Qed.

Lemma firstn_app_exact {A} (a b : list A) : firstn (List.length a) (a ++ b) = a.
Proof. rewrite firstn_app, Nat.sub_diag, firstn_all. cbn. now rewrite app_nil_r. Qed.

Lemma hex_after_prefix r : exists b, r = hex_after r ++ b /\ forallb plainc (hex_after r) = true.
Proof.
  unfold hex_after. destruct r as [|a r']; [exists []; now split|].
  destruct (chr_in a hexadecimal_digits) eqn:Ea; [|exists (a :: r'); now split].
  pose proof (chr_in_plain _ _ hexdigits_plain Ea) as Pa.
  destruct r' as [|b r'']; [exists []; split; [reflexivity|cbn; now rewrite Pa]|].
  destruct (chr_in b hexadecimal_digits) eqn:Eb.
  - pose proof (chr_in_plain _ _ hexdigits_plain Eb) as Pb.
    exists r''. split; [reflexivity|cbn; now rewrite Pa, Pb].
  - exists (b :: r''). split; [reflexivity|cbn; now rewrite Pa].
Qed.

(* ------------------------------------------------------------------ pop_escape *)
Lemma bs_seg r char size : peek_spec r char size -> is_bs char = true ->
  char = [92%N] /\ plain (firstn size r) /\ (1 <= size <= List.length r)%nat.
Proof.
  intros Hp Hb. pose proof (peek_spec_bounds _ _ _ Hp) as Hbd.
  destruct Hp as [a r' -> -> ->|c Hn Hl Hpl -> Hc].
  - unfold is_bs, bs in Hb. cbn in Hb. rewrite andb_true_r in Hb. apply N.eqb_eq in Hb. subst a.
    repeat split; try (cbn; lia). 
  - unfold is_bs, bs in Hb. cbn in Hb. rewrite andb_true_r in Hb. apply N.eqb_eq in Hb. subst c.
    repeat split; try assumption; lia.
Qed.

Lemma plain_cons c t : plainc c = true -> plain t -> plain (c :: t).
Proof. unfold plain. cbn. intros -> ->. reflexivity. Qed.

Lemma plain_bs_text t : plain t -> ends_with [9%N] (92%N :: t) = false /\ is_nl (92%N :: t) = false.
Proof. intros Ht. apply plain_text; [apply plain_cons; [reflexivity|assumption]|discriminate]. Qed.

Lemma skipn_length_le {A} n (l : list A) : (List.length (skipn n l) = List.length l - n)%nat.
Proof. apply skipn_length. Qed.

Opaque hex_after.
Lemma pop_escape_spec x char size temp tsize char' size' x' :
  peek_spec (rest x) char size -> is_bs char = true ->
  peek_spec (skipn size (rest x)) temp tsize -> is_nl temp = false ->
  pop_escape x char size temp tsize = (char', size', x') ->
  (size' <= List.length (rest x))%nat /\ (1 <= size')%nat /\ seg_ok char' (firstn size' (rest x)) /\
  (x' = x \/ exists d, x' = add_err d x).
Proof.
  intros Hp Hb Ht Hn.
  destruct (bs_seg _ _ _ Hp Hb) as [-> [Hbs Hsz]].
  pose proof (peek_spec_bounds _ _ _ Ht) as Htb. rewrite skipn_length in Htb.
  (* the raw characters of temp *)
  assert (Htseg : (exists a, firstn tsize (skipn size (rest x)) = [a] /\ temp = [a] /\ tsize = 1%nat /\ a <> 10%N)
                  \/ (plain (firstn tsize (skipn size (rest x))) /\ exists c, temp = [c] /\ plainc c = true)).
  { destruct Ht as [a r' Hr -> ->|c Hc2 Hl Hpl -> Hc].
    - left. exists a. rewrite Hr. repeat split. intros ->. discriminate.
    - right. split; [assumption|]. now exists c. }
  assert (Hsplit : forall k, firstn (size + k) (rest x) = firstn size (rest x) ++ firstn k (skipn size (rest x)))
    by (intros k; apply firstn_app_skipn_firstn).
  unfold pop_escape.
  destruct (is_substr temp pop_escape_letters) eqn:B1.
  { intros E; injection E as <- <- <-. rewrite Hsplit.
    split; [lia|]. split; [lia|]. split; [|now left].
    destruct Htseg as [[a [Ha [-> [-> Hne]]]]|[Hpl [c [-> Hc]]]].
    - rewrite Ha. pose proof (is_substr1_plain _ _ escape_letters_plain B1) as Pa.
      destruct (plain_bs_text [a]) as [E1 E2]; [apply plain_cons; [assumption|reflexivity]|].
      apply SegPlain; [apply plain_app; [assumption|apply plain_cons; [assumption|reflexivity]]| |exact E1|exact E2].
      intros H. apply app_eq_nil in H as [_ H]. discriminate.
    - destruct (plain_bs_text [c]) as [E1 E2]; [apply plain_cons; [assumption|reflexivity]|].
      apply SegPlain; [apply plain_app; assumption| |exact E1|exact E2].
      intros H. apply app_eq_nil in H as [H _].
      assert (List.length (firstn size (rest x)) = size) by (apply firstn_length_le; lia). rewrite H in H0. cbn in H0. lia. }
  destruct (str_eqb temp (s "x")) eqn:B2.
  { apply str_eqb_eq in B2. change (s "x") with [120%N] in B2. subst temp.
    assert (Hfirst1 : plain (firstn 1 (skipn size (rest x)))).
    { destruct Htseg as [[a [Ha [Hta [-> Hne]]]]|[Hpl _]].
      - rewrite Ha. inversion Hta; subst. reflexivity.
      - replace (firstn 1 (skipn size (rest x))) with (firstn 1 (firstn tsize (skipn size (rest x)))).
        + now apply plain_firstn.
        + rewrite firstn_firstn. f_equal. lia. }
    assert (HS : firstn (S size) (rest x) = firstn size (rest x) ++ firstn 1 (skipn size (rest x))).
    { rewrite <- Hsplit. f_equal. lia. }
    assert (HSp : plain (firstn (S size) (rest x))) by (rewrite HS; now apply plain_app).
    assert (HSl : (S size <= List.length (rest x))%nat) by lia.
    assert (Hnoh : forall d, (S size <= List.length (rest x))%nat /\ (1 <= S size)%nat /\
                     seg_ok ([92%N] ++ [120%N]) (firstn (S size) (rest x)) /\
                     (add_err d x = x \/ exists d0, add_err d x = add_err d0 x)).
    { intros d. split; [lia|]. split; [lia|]. split; [|right; now exists d].
      destruct (plain_bs_text [120%N]) as [E1 E2]; [reflexivity|].
      apply SegPlain; [assumption| |exact E1|exact E2].
      intros H. assert (List.length (firstn (S size) (rest x)) = S size) by (apply firstn_length_le; lia).
      rewrite H in H0. cbn in H0. lia. }
    cbv zeta.
    destruct (skipn (S size) (rest x)) as [|a after'] eqn:Ea.
    - intros E; injection E as <- <- <-. apply Hnoh.
    - destruct (chr_in a hexadecimal_digits) eqn:Eh.
      + intros E; injection E as <- <- <-.
        destruct (hex_after_prefix (a :: after')) as [b [Hb1 Hb2]].
        set (h := hex_after (a :: after')) in *.
        assert (Hlen : (List.length h <= List.length (rest x) - S size)%nat).
        { rewrite <- skipn_length, Ea, Hb1, app_length. lia. }
        split; [lia|]. split; [lia|]. split; [|now left].
        assert (Hf : firstn (S size + List.length h) (rest x) = firstn (S size) (rest x) ++ h).
        { rewrite firstn_app_skipn_firstn, Ea, Hb1. now rewrite firstn_app_exact. }
        change (S (size + List.length h)) with (S size + List.length h)%nat. rewrite Hf.
        destruct (plain_bs_text (120%N :: h)) as [E1 E2]; [apply plain_cons; [reflexivity|exact Hb2]|].
        apply SegPlain; [apply plain_app; [assumption|exact Hb2]| |exact E1|exact E2].
        intros H. apply app_eq_nil in H as [H _].
        assert (List.length (firstn (S size) (rest x)) = S size) by (apply firstn_length_le; lia).
        rewrite H in H0. cbn in H0. lia.
      + intros E; injection E as <- <- <-. apply Hnoh. }
  destruct (is_substr temp octal_digits) eqn:B3.
  { destruct (NumRe.span (fun c => chr_in c octal_digits) (skipn size (rest x))) as [o r2] eqn:Es.
    intros E; injection E as <- <- <-.
    destruct (span_prefix _ _ _ _ Es) as [Ho1 Ho2].
    assert (Hop : plain o).
    { unfold plain. apply forallb_forall. intros c Hc. rewrite forallb_forall in Ho2.
      eapply chr_in_plain; [apply octdigits_plain|now apply Ho2]. }
    assert (Hlen : (List.length o <= List.length (rest x) - size)%nat).
    { rewrite <- skipn_length, Ho1, app_length. lia. }
    split; [lia|]. split; [lia|]. split; [|now left].
    rewrite Hsplit, Ho1, firstn_app_exact.
    destruct (plain_bs_text o) as [E1 E2]; [assumption|].
    apply SegPlain; [apply plain_app; assumption| |exact E1|exact E2].
    intros H. apply app_eq_nil in H as [H _].
    assert (List.length (firstn size (rest x)) = size) by (apply firstn_length_le; lia). rewrite H in H0. cbn in H0. lia. }
  intros E; injection E as <- <- <-. rewrite Hsplit.
  split; [lia|]. split; [lia|]. split; [|right; eexists; reflexivity].
  destruct Htseg as [[a [Ha [-> [-> Hne]]]]|[Hpl [c [-> Hc]]]].
  - rewrite Ha. destruct (N.eqb_spec a 9) as [->|Hn9].
    + eapply SegTab; [reflexivity|assumption|reflexivity|reflexivity].
    + assert (Pa : plainc a = true).
      { unfold plainc. apply andb_true_iff. split; apply negb_true_iff; now apply N.eqb_neq. }
      destruct (plain_bs_text [a]) as [E1 E2]; [apply plain_cons; [assumption|reflexivity]|].
      apply SegPlain; [apply plain_app; [assumption|apply plain_cons; [assumption|reflexivity]]| |exact E1|exact E2].
      intros H. apply app_eq_nil in H as [_ H]. discriminate.
  - destruct (plain_bs_text [c]) as [E1 E2]; [apply plain_cons; [assumption|reflexivity]|].
    apply SegPlain; [apply plain_app; assumption| |exact E1|exact E2].
    intros H. apply app_eq_nil in H as [H _].
    assert (List.length (firstn size (rest x)) = size) by (apply firstn_length_le; lia). rewrite H in H0. cbn in H0. lia.
Qed.
Transparent hex_after.

(* ------------------------------------------------------------------ pop *)
Lemma peek_seg_ok r char size : peek_spec r char size -> seg_ok char (firstn size r).
Proof.
  intros [a r' -> -> ->|c Hn Hl Hpl -> Hc].
  - cbn [firstn]. destruct (N.eqb_spec a 10) as [->|H10]; [now apply SegNl|].
    destruct (N.eqb_spec a 9) as [->|H9].
    + apply (SegTab _ _ []); [reflexivity|reflexivity|reflexivity|reflexivity].
    + assert (Pa : plainc a = true).
      { unfold plainc. apply andb_true_iff. split; apply negb_true_iff; now apply N.eqb_neq. }
      destruct (plain_text [a]) as [E1 E2]; [apply plain_cons; [assumption|reflexivity]|discriminate|].
      apply SegPlain; [apply plain_cons; [assumption|reflexivity]|discriminate|exact E1|exact E2].
  - destruct (plain_text [c]) as [E1 E2]; [apply plain_cons; [assumption|reflexivity]|discriminate|].
    apply SegPlain; [assumption| |exact E1|exact E2].
    intros H. assert (List.length (firstn size r) = size) by (now apply firstn_length_le).
    rewrite H in H0. cbn in H0. lia.
Qed.

Definition pop_post (src : ctx) (x : st) (r : popres) : Prop :=
  match r with
  | PopOk _ x' => wf src x' /\ (off x < off x')%nat
  | PopEOF x' => wf src x' /\ (off x <= off x')%nat
  | PopMIL => True
  end.

Lemma pop_finish_post src us x x0 char size :
  wf src x -> (x = x0 \/ exists d, x = add_err d x0) ->
  (1 <= size <= List.length (rest x))%nat -> seg_ok char (firstn size (rest x)) ->
  pop_post src x0 (pop_finish us x char size).
Proof.
  intros Hw Hx Hs Hseg. destruct (pop_finish_spec us x char size) as [t ->]; [lia|assumption|].
  cbn. split; [apply wf_raw_advance; [assumption|lia]|].
  rewrite off_raw_advance. destruct Hx as [->|[d ->]]; cbn; lia.
Qed.

Lemma splice_is_raw_advance x size temp tsize char :
  peek_spec (rest x) char size -> is_bs char = true ->
  peek_spec (skipn size (rest x)) temp tsize -> is_nl temp = true ->
  set_pos (line x + 1) 1 (advance (S size) x) = raw_advance (S size) x /\ (S size <= List.length (rest x))%nat.
Proof.
  intros Hp Hb Ht Hn. destruct (bs_seg _ _ _ Hp Hb) as [_ [Hbs Hsz]].
  pose proof (peek_spec_bounds _ _ _ Ht) as Htb. rewrite skipn_length in Htb.
  assert (H1 : firstn 1 (skipn size (rest x)) = [10%N]).
  { destruct Ht as [a r' Hr -> ->|c Hc2 Hl Hpl -> Hc].
    - unfold is_nl, nl in Hn. cbn in Hn. rewrite andb_true_r in Hn. apply N.eqb_eq in Hn. subst. now rewrite Hr.
    - unfold is_nl, nl in Hn. cbn in Hn. rewrite andb_true_r in Hn. apply N.eqb_eq in Hn. subst. discriminate. }
  split; [|lia]. unfold raw_advance.
  replace (S size) with (size + 1)%nat by lia.
  rewrite firstn_app_skipn_firstn, H1, pos_after_app, (pos_after_plain _ _ _ Hbs). cbn. reflexivity.
Qed.

Lemma pop_inner_post src : forall fuel us ue x, wf src x -> pop_post src x (pop_inner fuel us ue x).
Proof.
  induction fuel as [|fuel IH]; intros us ue x Hw; cbn [pop_inner]; [exact I|].
  destruct (peek1 (rest x)) as [[char size]|] eqn:Ep; [|cbn; split; [assumption|lia]].
  pose proof (peek1_spec _ _ _ Ep) as Hp. pose proof (peek_spec_bounds _ _ _ Hp) as Hb.
  pose proof (peek_seg_ok _ _ _ Hp) as Hseg.
  destruct (is_bs char) eqn:Ebs; cbn [negb].
  2: { apply pop_finish_post; [assumption|now left|lia|assumption]. }
  destruct (peek1 (skipn size (rest x))) as [[temp tsize]|] eqn:Ep2.
  2: { apply pop_finish_post; [assumption|now left|lia|assumption]. }
  pose proof (peek1_spec _ _ _ Ep2) as Hp2.
  destruct (is_nl temp) eqn:Enl; cbn [negb].
  - (* line splice *)
    destruct (splice_is_raw_advance _ _ _ _ _ Hp Ebs Hp2 Enl) as [-> Hsz].
    assert (Hw' : wf src (raw_advance (S size) x)) by (now apply wf_raw_advance).
    destruct (peek1 (rest (raw_advance (S size) x))) eqn:Ep3.
    + specialize (IH us ue _ Hw'). destruct (pop_inner fuel us ue (raw_advance (S size) x)); cbn in *.
      * destruct IH as [H1 H2]. split; [assumption|]. rewrite off_raw_advance in H2. lia.
      * destruct IH as [H1 H2]. split; [assumption|]. rewrite off_raw_advance in H2. lia.
      * exact I.
    + cbn. split; [assumption|]. rewrite off_raw_advance. lia.
  - destruct ue.
    + destruct (pop_escape x char size temp tsize) as [[char' size'] x'] eqn:Ee.
      destruct (pop_escape_spec _ _ _ _ _ _ _ _ Hp Ebs Hp2 Enl Ee) as [H1 [H2 [H3 H4]]].
      assert (Hr : rest x' = rest x) by (destruct H4 as [->|[d ->]]; reflexivity).
      apply pop_finish_post.
      * destruct H4 as [->|[d ->]]; [assumption|now apply wf_add_err].
      * exact H4.
      * rewrite Hr. lia.
      * now rewrite Hr.
    + apply pop_finish_post; [assumption|now left|lia|assumption].
Qed.

Lemma pop1_post src us ue x : wf src x -> pop_post src x (pop1 us ue x).
Proof. apply pop_inner_post. Qed.

Lemma popn_post src : forall n x acc, wf src x ->
  match popn n x acc with
  | PopOk _ x' => wf src x' /\ (off x + n <= off x')%nat
  | PopEOF x' => wf src x' /\ (off x <= off x')%nat
  | PopMIL => True
  end.
Proof.
  induction n as [|n IH]; intros x acc Hw; cbn [popn]; [split; [assumption|lia]|].
  pose proof (pop1_post src false false x Hw) as H1.
  destruct (pop1 false false x) as [c x'|x'|]; cbn in H1; [|assumption|exact I].
  destruct H1 as [Hw' Ho]. specialize (IH x' (acc ++ c) Hw').
  destruct (popn n x' (acc ++ c)); [|destruct IH; split; [assumption|lia]|exact I].
  destruct IH. split; [assumption|lia].
Qed.
