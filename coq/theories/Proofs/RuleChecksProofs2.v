(* Token-local theorems, second part: CheckLineIndent, CheckSpacing; the lift to files over the generic engine. *)
From NV Require Import Model.Base Model.RuleChecks Gen.RuleChecks Proofs.StrOrder Proofs.RuleChecksProofs.
From Coq Require Import Lia.
Local Open Scope Z_scope.

(* ------------------------------------------------------------------ CheckLineIndent (operators W06, W07) *)
Definition ty_tab := s "TAB".
Definition indent_skipped : list str := [s "IsEmptyLine"; s "IsComment"; s "IsPreprocessorStatement"; s "IsVariableDeclaration"].

Lemma skip_tabs_leading toks k : leading toks [ty_tab] k ->
  skip_while toks (fun x_got => truthy (check1 toks x_got ty_tab)) 0 = Z.of_nat k.
Proof.
  intros [H1 H2]. rewrite (skip_while_run toks _ 0 k); [lia| | | |lia].
  - intros j Hj. destruct (H1 j) as [t [E Q]]; [lia|]. rewrite (check1_some _ _ _ _ E).
    cbn [str_in existsb] in Q. rewrite orb_false_r in Q. now rewrite Q.
  - cbn [Z.add]. unfold check1. destruct (peek toks (Z.of_nat k)) eqn:E; [|reflexivity].
    specialize (H2 _ eq_refl). cbn [str_in existsb] in H2. rewrite orb_false_r in H2. now rewrite H2.
  - intros j Hp _. destruct (Z.ltb_spec j 0) as [Hn|Hn].
    + pose proof (zlen_nonneg toks). lia.
    + eapply check1_true_lt; eassumption.
Qed.

(* A statement that starts with exactly k tabs followed by something that is not a brace (any other token, or the
   end), matched by a primary other than the four skipped ones: the check compares k with the scope's indentation and
   reports at the first token - TOO_FEW_TAB iff k < indent, TOO_MANY_TAB iff k > indent, nothing iff k = indent. *)
Theorem check_line_indent_value toks scope v k h1 rest t0 :
  v_history v = h1 :: rest -> str_in h1 indent_skipped = false ->
  leading toks [ty_tab] k ->
  (forall t, peek toks (Z.of_nat k) = Some t -> str_in (t_type t) [s "LBRACE"; s "RBRACE"] = false) ->
  peek toks 0 = Some t0 ->
  exists v', check_line_indent toks scope v =
    Ok ((if v_scope_indent v >? Z.of_nat k then [(s "TOO_FEW_TAB", t_line t0, t_col t0)]
         else if Z.of_nat k >? v_scope_indent v then [(s "TOO_MANY_TAB", t_line t0, t_col t0)] else []), v') /\
    v_scope_indent v' = v_scope_indent v.
Proof.
  intros Hh Hs Hl Hb H0. unfold check_line_indent. cbv zeta. unfold hist_back. rewrite Hh. cbn [Nat.sub nth_error need_hist].
  fold indent_skipped. rewrite Hs. fold ty_tab.
  assert (Hnb : truthy (checkl toks (Z.of_nat k) [s "LBRACE"; s "RBRACE"]) = false).
  { unfold checkl. destruct (peek toks (Z.of_nat k)) eqn:E; [|reflexivity]. now rewrite (Hb _ eq_refl). }
  destruct (negb (str_eqb h1 (s "IsPreprocessorStatement")) && v_scope_global v && v_include_allowed v).
  - rewrite (skip_tabs_leading _ _ Hl), Hnb. cbn [andb]. rewrite H0. cbn [emit bind app]. eexists. split.
    { destruct (v_scope_indent v >? Z.of_nat k); [reflexivity|]. destruct (Z.of_nat k >? v_scope_indent v); reflexivity. }
    reflexivity.
  - rewrite (skip_tabs_leading _ _ Hl), Hnb. cbn [andb]. rewrite H0. cbn [emit bind app]. eexists. split.
    { destruct (v_scope_indent v >? Z.of_nat k); [reflexivity|]. destruct (Z.of_nat k >? v_scope_indent v); reflexivity. }
    reflexivity.
Qed.
Definition ty_space := s "SPACE".
Definition spacing_skipped : list str := [s "IsEmptyLine"; s "IsPreprocessorStatement"].

Ltac sp_step H :=
  match type of H with
  | (if ?c then _ else _) = _ => destruct c
  | need_tok ?o _ = _ => destruct o; cbn [need_tok] in H
  | bind (emit _ ?o _) _ = _ => destruct o; cbn [emit bind] in H
  end.

(* the loop only appends to the diagnostics and leaves the view alone *)
Lemma spacing_loop_mono toks scope : forall fuel i a b E v i' a' b' E' v',
  check_spacing_loop1 fuel toks scope i a b E v = Ok (i', a', b', E', v') -> v' = v /\ exists X, E' = E ++ X.
Proof.
  induction fuel as [|f IH]; intros i a b E v i' a' b' E' v' H; [discriminate|].
  cbn [check_spacing_loop1] in H. cbv zeta in H.
  repeat sp_step H; try discriminate;
  try (inversion H; subst; split; [reflexivity|exists []; now rewrite app_nil_r]);
  apply IH in H as [-> [X ->]]; (split; [reflexivity|]); rewrite <- ?app_assoc; eexists; reflexivity.
Qed.

(* W05 on the first line of a statement: the statement starts with a SPACE in column 1.  After the run of spaces
   (bounded by the statement) the check reports the next token: SPACE_EMPTY_LINE when a NEWLINE follows THAT token
   (sic: i + 1), SPACE_REPLACE_TAB otherwise. *)
Definition after_spaces (toks : list token) (scope : Z) : Z :=
  skip_while toks (fun x_i => (x_i <? scope) && truthy (check1 toks x_i ty_space)) 0.

Theorem check_spacing_leading_space toks scope v h1 rest ts t1 E v' :
  v_history v = h1 :: rest -> str_in h1 spacing_skipped = false ->
  peek toks 0 = Some ts -> t_type ts = ty_space -> t_col ts = 1 -> 0 < slice_len toks scope ->
  peek toks (after_spaces toks scope) = Some t1 ->
  check_spacing toks scope v = Ok (E, v') ->
  In ((if truthy (check1 toks (after_spaces toks scope + 1) (s "NEWLINE")) then s "SPACE_EMPTY_LINE" else s "SPACE_REPLACE_TAB"),
      t_line t1, t_col t1) E.
Proof.
  intros Hh Hs H0 Hty Hc Hr H1 H. unfold check_spacing in H. cbv zeta in H. unfold hist_back in H. rewrite Hh in H.
  cbn [Nat.sub nth_error need_hist] in H. fold spacing_skipped in H. rewrite Hs in H.
  unfold loop_fuel in H. remember (S (2 * Datatypes.length toks)) as f0 eqn:Hf0. clear Hf0. cbn [check_spacing_loop1] in H. cbv zeta in H.
  unfold in_range0 in H. fold (slice_len toks scope) in H.
  replace ((0 <=? 0) && (0 <? slice_len toks scope)) with true in H by (symmetry; apply andb_true_iff; split; [reflexivity|apply Z.ltb_lt; lia]).
  fold ty_space in H. rewrite (check1_some _ _ _ _ H0), Hty, str_eqb_refl in H. cbn [truthy] in H.
  change (if 0 >? 0 then 0 - 1 else 0) with 0 in H. rewrite (check1_some _ _ _ _ H0), Hty in H.
  replace (str_eqb ty_space (s "TAB")) with false in H by reflexivity. cbn [truthy] in H.
  rewrite H0 in H. cbn [need_tok] in H. rewrite Hc in H. cbn [Z.eqb Pos.eqb] in H.
  fold (after_spaces toks scope) in H. rewrite H1 in H. cbn [emit bind app] in H.
  destruct (truthy (check1 toks (after_spaces toks scope + 1) (s "NEWLINE")));
  match type of H with bind ?x _ = _ => destruct x as [[[[[i' a'] b'] E1] v1]| | |] eqn:L; cbn [bind] in H; try discriminate end;
  inversion H; subst; apply spacing_loop_mono in L as [_ [X ->]]; now left.
Qed.

Theorem check_spacing_skips toks scope v h1 rest :
  v_history v = h1 :: rest -> str_in h1 spacing_skipped = true -> check_spacing toks scope v = Ok ([], v).
Proof.
  intros Hh Hs. unfold check_spacing. cbv zeta. unfold hist_back. rewrite Hh. cbn [Nat.sub nth_error need_hist].
  fold spacing_skipped. now rewrite Hs.
Qed.
