(* C14 - include-guard validation as a step function over the statement trace of one file.
   What is generated and what is written by hand:
     Gen.Guard.prot_run          CheckPreprocessorProtection.run, translated from the source on every run;
     Gen.Guard.directive_table   what each IsPreprocessorStatement.check_<directive> does to preproc.indent/macros;
     here                        the abstract statements, their view for prot_run, IsPreprocessorStatement's
                                 effect via that table, run_rules' history append, os.path.splitext, the trace loop.
   The hand-written parts are pinned by AST fingerprints (Proofs/GuardProofs.v: guard_source_tie) and compared with
   the implementation statement by statement by the check (tools/harness/c14.py).  No proofs here. *)
From NV Require Import Model.Base Model.GuardBase Gen.Guard.

(* ---- statements ---- *)
Inductive dkind :=
| DIfndef | DDefine | DEndif | DIf | DIfdef | DElse | DElif | DInclude
| DOther     (* undef pragma error warning import: accepted, no effect on the state modelled here *)
| DNull.     (* `#` alone on a line: IsPreprocessorStatement.run returns before dispatching *)

Inductive stmt :=
| SPre (k : dkind) (arg : str)   (* arg = value of the first token after the directive name (the macro of
                                    #ifndef/#ifdef/#define); irrelevant for the other kinds *)
| SDecl                          (* any statement matched by another primary rule (declaration, prototype, ...) *)
| SBlank                         (* IsEmptyLine *)
| SComment.                      (* IsComment *)

Definition dkind_eqb (a b : dkind) : bool :=
  match a, b with
  | DIfndef, DIfndef | DDefine, DDefine | DEndif, DEndif | DIf, DIf | DIfdef, DIfdef | DElse, DElse
  | DElif, DElif | DInclude, DInclude | DOther, DOther | DNull, DNull => true
  | _, _ => false
  end.

(* the directive name IsPreprocessorStatement.run dispatches on (lower-cased token value, or token type for if/else) *)
Definition directive_name (k : dkind) : option str :=
  match k with
  | DIfndef => Some (s "ifndef") | DDefine => Some (s "define") | DEndif => Some (s "endif")
  | DIf => Some (s "if") | DIfdef => Some (s "ifdef") | DElse => Some (s "else") | DElif => Some (s "elif")
  | DInclude => Some (s "include") | DOther => Some (s "pragma") | DNull => None
  end.

(* the directive-name token: `if` and `else` are keyword tokens (type IF / ELSE, no value), the others identifiers *)
Definition dir_token (k : dkind) : option gtok :=
  match k with
  | DIf => Some (s "IF", []) | DElse => Some (s "ELSE", [])
  | DNull => Some (s "NEWLINE", [])
  | _ => match directive_name k with Some n => Some (s "IDENTIFIER", n) | None => None end
  end.

Definition is_trivia (x : stmt) : bool := match x with SBlank | SComment => true | _ => false end.

(* first token after the directive that is neither white space, newline nor comment, looking through the rest
   of the file: blank and comment statements consist of such tokens only, every other statement starts with
   a token that is none of them *)
Definition trail_of (rest : list stmt) : option gtok :=
  if forallb is_trivia rest then None else Some (s "TOKEN", []).

Definition view_of (x : stmt) (rest : list stmt) : gview :=
  match x with
  | SPre k a =>
      mkview (dir_token k)
             (match k with DIfndef | DIfdef | DDefine => Some (s "IDENTIFIER", a) | _ => Some (s "NEWLINE", []) end)
             (trail_of rest)
  | _ => mkview None None None
  end.

(* ---- the primary rule: name appended to context.history by run_rules, state effect of IsPreprocessorStatement ---- *)
Definition rule_name (x : stmt) : str :=
  match x with
  | SPre _ _ => s "IsPreprocessorStatement"
  | SBlank => s "IsEmptyLine"
  | SComment => s "IsComment"
  | SDecl => s "IsOther"
  end.

Fixpoint lookup_directive (n : str) (t : list (str * (Z * bool))) : option (Z * bool) :=
  match t with
  | [] => None
  | (m, e) :: t' => if str_eqb n m then Some e else lookup_directive n t'
  end.

Definition directive_effect (k : dkind) : Z * bool :=
  match directive_name k with
  | Some n => match lookup_directive n directive_table with Some e => e | None => (0, false) end
  | None => (0, false)
  end.

Definition apply_primary (c : gctx) (x : stmt) : gctx :=
  let h := g_history c ++ [rule_name x] in
  match x with
  | SPre k a =>
      let '(d, m) := directive_effect k in
      mkctx (g_ftype c) (g_basename c)
            (if Z.eqb d 0 then g_indent c else Z.max 0 (g_indent c + d))   (* indent setter: max(0, value) *)
            (if m then g_macros c ++ [a] else g_macros c)
            (g_protected c) h
  | _ => mkctx (g_ftype c) (g_basename c) (g_indent c) (g_macros c) (g_protected c) h
  end.

(* one iteration of Registry.run that matched statement x, `rest` = the statements after it *)
Definition step (c : gctx) (x : stmt) (rest : list stmt) : gctx * list str :=
  let c1 := apply_primary c x in
  match x with
  | SPre _ _ => prot_run (view_of x rest) c1      (* dependencies["IsPreprocessorStatement"] *)
  | _ => (c1, [])
  end.

Fixpoint run_from (c : gctx) (t : list stmt) : gctx * list str :=
  match t with
  | [] => (c, [])
  | x :: r => let '(c1, e1) := step c x r in
              let '(c2, e2) := run_from c1 r in (c2, e1 ++ e2)
  end.

(* the same run, keeping the context and the emissions after every statement (for the correspondence) *)
Fixpoint run_states (c : gctx) (t : list stmt) : list (gctx * list str) :=
  match t with
  | [] => []
  | x :: r => let '(c1, e1) := step c x r in (c1, e1) :: run_states c1 r
  end.

(* ---- File: type = os.path.splitext(basename)[1] for a name without directory separator:
        the part from the last dot on, unless everything before that dot is dots (or nothing) ---- *)
Fixpoint split_last_dot (p : str) : option (str * str) :=     (* (before the last dot, after it) *)
  match p with
  | [] => None
  | ch :: r =>
      match split_last_dot r with
      | Some (a, b) => Some (ch :: a, b)
      | None => if N.eqb ch 46 then Some ([], r) else None
      end
  end.

Definition file_type (p : str) : str :=
  match split_last_dot p with
  | Some (a, b) => if existsb (fun ch => negb (N.eqb ch 46)) a then 46%N :: b else []
  | None => []
  end.

Definition init_ctx (base : str) : gctx := mkctx (file_type base) base 0 [] false [].

Definition emitted (base : str) (t : list stmt) : list str := snd (run_from (init_ctx base) t).

(* the symbol the check expects: the source's expression, as translated in prot_run *)
Definition guard_of (base : str) : str := py_replace1 46 95 (py_upper base).

(* ---- shapes used by the theorems ---- *)
Definition opens (k : dkind) : bool := match k with DIf | DIfdef | DIfndef => true | _ => false end.
Definition is_cond (x : stmt) : bool :=
  match x with SPre k _ => opens k || dkind_eqb k DEndif | _ => false end.

(* nesting depth after a statement list, None when an #endif has no opener inside the list *)
Fixpoint depth_after (d : nat) (l : list stmt) : option nat :=
  match l with
  | [] => Some d
  | SPre k _ :: r =>
      if opens k then depth_after (S d) r
      else if dkind_eqb k DEndif then match d with O => None | S d' => depth_after d' r end
      else depth_after d r
  | _ :: r => depth_after d r
  end.
Definition balanced (l : list stmt) : Prop := depth_after 0 l = Some 0%nat.

Definition defines (g : str) (l : list stmt) : bool :=
  existsb (fun x => match x with SPre DDefine a => str_eqb a g | _ => false end) l.

(* ---- encoding of run_states for the correspondence: per statement a flat list of integers
        [indent; protected; len history; index of the last history name; n macros; len and chars of the last macro;
        n codes; code indices]  (history and macros only ever grow at the end, so length + last element after EVERY
        statement determine the lists) ---- *)
Definition code_index (c : str) : Z :=
  if str_eqb c (s "HEADER_PROT_ALL") then 0 else if str_eqb c (s "HEADER_PROT_ALL_AF") then 1
  else if str_eqb c (s "HEADER_PROT_NAME") then 2 else if str_eqb c (s "HEADER_PROT_UPPER") then 3
  else if str_eqb c (s "HEADER_PROT_NODEF") then 4 else if str_eqb c (s "HEADER_PROT_MULT") then 5 else 99.
Definition hist_index (c : str) : Z :=
  if str_eqb c (s "IsComment") then 0 else if str_eqb c (s "IsEmptyLine") then 1
  else if str_eqb c (s "IsPreprocessorStatement") then 2 else if str_eqb c (s "IsOther") then 3 else 99.
Definition enc_str (x : str) : list Z := zlen x :: map Z.of_N x.
Definition enc_state (r : gctx * list str) : list Z :=
  let '(c, em) := r in
  [g_indent c; if g_protected c then 1 else 0; zlen (g_history c); hist_index (last (g_history c) [])]
  ++ zlen (g_macros c) :: enc_str (last (g_macros c) [])
  ++ zlen em :: map code_index em.
Definition run_case (base : str) (t : list stmt) : list Z * list (list Z) :=
  (enc_str (file_type base) ++ enc_str (guard_of base), map enc_state (run_states (init_ctx base) t)).

Fixpoint zlist_eqb (a b : list Z) : bool :=
  match a, b with
  | [], [] => true
  | x :: a', y :: b' => Z.eqb x y && zlist_eqb a' b'
  | _, _ => false
  end.
Fixpoint zlists_eqb (a b : list (list Z)) : bool :=
  match a, b with
  | [], [] => true
  | x :: a', y :: b' => zlist_eqb x y && zlists_eqb a' b'
  | _, _ => false
  end.
Definition zs (l : list Z) : str := map Z.to_N l.
(* cases = (id, base name, trace, expected head, expected states); result = the cases where the model differs, with its answer *)
Definition mismatches (cases : list (Z * str * list stmt * list Z * list (list Z))) : list (Z * (list Z * list (list Z))) :=
  flat_map (fun '(i, b, t, eh, es) =>
              let r := run_case b t in
              if zlist_eqb (fst r) eh && zlists_eqb (snd r) es then [] else [(i, r)]) cases.
