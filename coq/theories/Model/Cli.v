(* norminette.__main__.main() after argument parsing and file selection: the analysis loop,
   the fatal path, the report and the exit status.  exit_code is Gen.MainExit.exit_code,
   translated from the sys.exit(...) expression of the source on every run. *)
From NV Require Export Model.Errors.

(* what the analysis of one file produced *)
Inductive fres :=
| RDiags (ds : list diag)          (* lexer + registry.run returned normally *)
| RFatal (msg : str)               (* CParsingError *)
| RCrash (e : exn).                (* any other exception: not caught by main() *)

Record fin := mkfin { fi_path : str; fi_base : str; fi_res : fres }.

Inductive report :=
| RepHuman (out : str)
| RepJson (files : list (str * jfile))       (* (path, json_of file); bytes are json.dumps's *)
| RepFatal (out : str).                      (* the one-line fatal diagnostic, printed by the loop *)

Fixpoint analyse_all (fs : list fin) (acc : list file) : outcome (list file + str * str) :=
  match fs with
  | [] => Ok (inl (rev acc))
  | f :: r =>
      match fi_res f with
      | RDiags ds => analyse_all r (mkfile (fi_base f) ds :: acc)
      | RFatal m => Ok (inr (fi_path f, m))
      | RCrash e => Crash e
      end
  end.

Definition red (m : str) : str := [esc] ++ s "[31m" ++ m ++ [esc] ++ s "[0m".

(* (report, exit status) *)
Definition run_all (json : bool) (use_colors : bool) (fs : list fin) : outcome (report * Z) :=
  do r <- analyse_all fs [];
  match r with
  | inr (path, m) => Ok (RepFatal (path ++ s ": Error!" ++ [10; 9]%N ++ red m ++ [10%N]), 1)
  | inl files =>
      if json then
        Ok (RepJson (combine (map fi_path fs) (map json_of files)), exit_code files)
      else
        do out <- human_fmt use_colors files;
        Ok (RepHuman out, exit_code files)
  end.
