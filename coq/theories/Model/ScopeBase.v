(* Base types of the scope-bookkeeping trace model (properties C03 / C07): a scope object as a value, the scope chain
   as a list (innermost first), what `context.sub` can hold, the effects a primary can have on a match.
   Gen/ScopeOps.v (generated from the source) is written over these types; Model/ScopeTrace.v composes them. *)
From NV Require Export Model.Base.

(* norminette.scope.Scope: class name (type(scope).__name__ = scope.name), lines, instructions, multiline *)
Record sc := mksc { s_kind : str; s_lines : Z; s_instr : Z; s_multi : bool }.

Definition add_lines (p : sc) (n : Z) : sc := mksc (s_kind p) (s_lines p + n) (s_instr p) (s_multi p).
Definition add_instr (p : sc) (n : Z) : sc := mksc (s_kind p) (s_lines p) (s_instr p + n) (s_multi p).
Definition set_multi (p : sc) (b : bool) : sc := mksc (s_kind p) (s_lines p) (s_instr p) b.

(* context.sub: a new child of the current scope (scope.inner(Class)), or the parent object (scope.outer()) *)
Inductive subref := SubChild (c : sc) | SubParent.

(* chain = current scope :: its ancestors.  `self.scope = self.sub` *)
Definition apply_sub (chain : list sc) (r : subref) : list sc :=
  match r with SubChild c => c :: chain | SubParent => tl chain end.

(* IsBlockStart on a match: nothing / a new scope of class cls with multiline = True in context.sub /
   the current scope becomes multiline *)
Inductive bs_effect := BsNone | BsNew (cls : str) | BsMark.
(* IsBlockEnd on a match: context.sub = the parent, obtained with the given method (outer / get_outer: what it does to
   the parent) / the current scope's multiline flag is cleared *)
Inductive be_effect := BeSub (leave : sc -> sc -> sc) | BeUnmark.

Definition is_class (c : string) (x : sc) : bool := str_eqb (s_kind x) (s c).
