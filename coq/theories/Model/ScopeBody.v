(* Statement sequences of well-nested function bodies and files, as the registry loop sees them (C03 / C07).
     body  ::= ( skipped | unit1 )*
     unit1 ::= plain statement                                   (any primary without a scope effect)
             | control statement that opens nothing              (`while (x);`, `else ;`)
             | control  gap  `{`  body  `}`                       (braced body; gap = blank/comment/preprocessor lines)
             | control  skipped*  unit1                           (one-instruction body - which may again be a control
                                                                  structure, of any depth; else / else if are control statements)
   A function is  header  gap  `{`  body  `}` ; a user-defined type has the same shape with its own opener.
   No proofs here. *)
From NV Require Export Model.ScopeTrace.

Definition r_ctl := s "IsControlStatement".
Definition r_func := s "IsFuncDeclaration".
Definition r_utype := s "IsUserDefinedType".

(* primaries with a scope effect, and the three that Context.update / IsBlockStart skip *)
(* (the last one is no primary at all: it is the name CheckLineCount compares the parent rule with) *)
Definition r_cfd := s "CheckFuncDeclarations".
Definition special_rules : list str := [r_block_start; r_block_end; r_ctl; r_func; r_utype; r_cfd] ++ update_skipped.
Definition plain (r : str) : bool := negb (str_in r special_rules).
Definition skipped (r : str) : bool := str_in r update_skipped.

Definition s_ctl (nl : Z) : stmt := mkstmt r_ctl nl (Some k_control).
Definition s_ctl0 (nl : Z) : stmt := mkstmt r_ctl nl None.
Definition s_open (nl : Z) : stmt := mkstmt r_block_start nl None.
Definition s_close (nl : Z) : stmt := mkstmt r_block_end nl None.

Definition total_nl (l : list stmt) : Z := fold_right (fun x a => st_nl x + a) 0 l.
Definition is_skip (x : stmt) : Prop := skipped (st_rule x) = true /\ st_opens x = None.
Definition skips (l : list stmt) : Prop := Forall is_skip l.
(* blank/comment/preprocessor statements between an opener and its `{`: IsBlockStart takes one line off per statement, so the
   `{` belongs to the opener as long as they hold no more line ends than statements *)
Definition gap_ok (l : list stmt) : Prop := skips l /\ total_nl l - zlen l < 1.

Inductive unit1 : list stmt -> Prop :=
| U_plain : forall r nl, plain r = true -> unit1 [mkstmt r nl None]
| U_ctl0 : forall nl, unit1 [s_ctl0 nl]
| U_braced : forall nl gap nlo b nlc, gap_ok gap -> body b -> unit1 (s_ctl nl :: gap ++ s_open nlo :: b ++ [s_close nlc])
| U_one : forall nl gap u, skips gap -> unit1 u -> unit1 (s_ctl nl :: gap ++ u)
with body : list stmt -> Prop :=
| B_nil : body []
| B_skip : forall x b, is_skip x -> body b -> body (x :: b)
| B_unit : forall u b, unit1 u -> body b -> body (u ++ b).

Scheme unit1_ind2 := Minimality for unit1 Sort Prop
  with body_ind2 := Minimality for body Sort Prop.
Combined Scheme unit1_body_ind from unit1_ind2, body_ind2.

(* header gap `{` body `}` *)
Definition block_of (opener : stmt) (gap : list stmt) (nlo : Z) (b : list stmt) (nlc : Z) : list stmt :=
  opener :: gap ++ s_open nlo :: b ++ [s_close nlc].
Definition s_func (nl : Z) : stmt := mkstmt r_func nl (Some k_function).

(* a file: skipped statements, plain statements (globals, prototypes), functions, user-defined types *)
Inductive top_unit : list stmt -> Prop :=
| T_skip : forall x, is_skip x -> top_unit [x]
| T_plain : forall r nl, plain r = true -> top_unit [mkstmt r nl None]
| T_func : forall nl gap nlo b nlc, gap_ok gap -> body b -> top_unit (block_of (s_func nl) gap nlo b nlc)
| T_utype : forall cls nl gap nlo b nlc, inner_multi r_utype cls = Some false -> str_eqb cls k_control = false ->
    gap_ok gap -> body b -> top_unit (block_of (mkstmt r_utype nl (Some cls)) gap nlo b nlc).
Inductive file : list stmt -> Prop :=
| F_nil : file []
| F_cons : forall u f, top_unit u -> file f -> file (u ++ f).
