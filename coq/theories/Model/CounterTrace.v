(* The two scope-held counters of C03 on top of the scope-trace model: GlobalScope.functions (incremented by
   IsFuncDeclaration on a match, tested by CheckFunctionsCount) and Scope.vars (incremented and tested by
   CheckVariableDeclaration when the current scope is a Function).  Both checks are dependents of the matched primary, so they
   see the scope that was current BEFORE Context.update; the counters live in the scope objects: `vars` is kept as a list
   parallel to the scope chain (a new scope starts at counters_start, popped scopes take their counter with them).
   What the model takes from the trace: which statements are IsFuncDeclaration / IsVarDeclaration matches (st_rule). *)
From NV Require Export Model.RuleChecks Model.CounterBase Model.ScopeTrace Gen.Counters.

Definition r_func_decl := s "IsFuncDeclaration".
Definition r_var_decl := s "IsVarDeclaration".

Record cstate := mkc {
  base : state;
  functions : Z;               (* GlobalScope.functions *)
  vars : list Z;               (* scope.vars, parallel to chain base *)
  fems : list str;             (* codes emitted by CheckFunctionsCount, newest first *)
  vems : list str              (* codes emitted by CheckVariableDeclaration's counting branch, newest first *)
}.

Definition head_kind (b : state) : str := match chain b with h :: _ => s_kind h | [] => [] end.

(* keep the counter list parallel to the chain: scopes are pushed one at a time, popped several at a time *)
Definition resize (vs : list Z) (n : nat) : list Z :=
  let m := List.length vs in
  if Nat.ltb m n then repeat counters_start (n - m) ++ vs else skipn (m - n) vs.

Definition cstep (q : cstate) (x : stmt) : option cstate :=
  match step (base q) x with
  | None => None
  | Some b' =>
      let name := head_kind (base q) in
      let '(f, fe) := if str_eqb (st_rule x) r_func_decl
                      then (functions q + func_decl_increment, functions_count_run name (functions q + func_decl_increment))
                      else (functions q, []) in
      let '(vs, ve) := if str_eqb (st_rule x) r_var_decl
                       then match vars q with
                            | v0 :: r => let '(v1, e) := var_decl_run name v0 in (v1 :: r, e)
                            | [] => ([], [])
                            end
                       else (vars q, []) in
      Some (mkc b' f (resize vs (List.length (chain b'))) (fe ++ fems q) (ve ++ vems q))
  end.

Fixpoint crun (q : cstate) (l : list stmt) : option cstate :=
  match l with
  | [] => Some q
  | x :: r => match cstep q x with Some q' => crun q' r | None => None end
  end.

Definition cstate0 : cstate := mkc state0 counters_start [counters_start] [] [].

(* ---- replay (tools/harness/scopecorr.py): after every statement functions, the vars of every scope of the chain, and the
   numbers of TOO_MANY_FUNCS / TOO_MANY_VARS_FUNC added by the statement *)
Definition cobs := (Z * list Z * Z * Z)%type.
Fixpoint zlist_eqb (a b : list Z) : bool :=
  match a, b with [], [] => true | x :: a', y :: b' => (x =? y) && zlist_eqb a' b' | _, _ => false end.
Fixpoint creplay (q : cstate) (l : list (stmt * cobs)) (k : Z) : Z :=
  match l with
  | [] => -1
  | (x, (f, vs, nf, nv)) :: r =>
      match cstep q x with
      | None => -2 - k
      | Some q' =>
          if (functions q' =? f) && zlist_eqb (vars q') vs && (zlen (fems q') - zlen (fems q) =? nf)
             && (zlen (vems q') - zlen (vems q) =? nv) then creplay q' r (k + 1) else k
      end
  end.

(* ---- replay of the argument counter: tokens as in tools/harness/c02.py *)
Definition args_agrees (r : outcome (Z * Z * list em)) (oc : Z) (E : list em) : bool :=
  match r with
  | Ok (_, _, E') => (oc =? 0) && em_eqb_list E' E
  | Fatal _ => oc =? 1 | Crash _ => oc =? 2 | Hang => oc =? 3
  end.
