(* Support for the generated models of the small checks (Gen/RuleChecks.v, property C02):
   the part of norminette.context.Context that those checks use, as total functions over the
   list of remaining tokens `toks` (context.tokens), the statement length `scope`
   (context.tkn_scope) and an abstract view of the rest of the context.

   Hand-written here (and pinned by source fingerprints in Gen/RuleChecks.v, validated on every
   run by the correspondence of tools/harness/c02.py): peek_token, check_token, skip_ws,
   new_error, Python list indexing/slicing.  No proofs here. *)
From NV Require Export Model.Base Model.Lexer Gen.Lists.

(* one emitted diagnostic: code, line, column of the highlighted token
   (Context.new_error -> Error.from_name(code, highlights=[Highlight.from_token(tkn)])) *)
Definition em := (str * Z * Z)%type.
Definition em_code (e : em) : str := fst (fst e).
Definition em_line (e : em) : Z := snd (fst e).
Definition em_col (e : em) : Z := snd e.

(* What the checks read of the context besides the tokens.
   v_history: context.history as rule names, NEWEST FIRST (history[-1] is the head);
   it is non-empty whenever a check runs (run_rules appends the primary first). *)
Record view := mkview {
  v_history : list str;
  v_scope_name : str;            (* context.scope.name *)
  v_scope_global : bool;         (* type(context.scope) is GlobalScope *)
  v_scope_indent : Z;            (* context.scope.indent *)
  v_include_allowed : bool;      (* context.scope.include_allowed *)
  v_vdecl_allowed : bool         (* context.scope.vdeclarations_allowed *)
}.
Definition set_include_allowed (v : view) (b : bool) : view :=
  mkview (v_history v) (v_scope_name v) (v_scope_global v) (v_scope_indent v) b (v_vdecl_allowed v).
Definition set_vdecl_allowed (v : view) (b : bool) : view :=
  mkview (v_history v) (v_scope_name v) (v_scope_global v) (v_scope_indent v) (v_include_allowed v) b.

(* ---- Python sequence access *)
(* l[k] for any int k (negative counts from the end); None = IndexError *)
Definition py_nth {A} (l : list A) (k : Z) : option A :=
  let n := zlen l in
  if (0 <=? k) && (k <? n) then nth_error l (Z.to_nat k)
  else if (k <? 0) && (- n <=? k) then nth_error l (Z.to_nat (n + k))
  else None.
(* l[:k] *)
Definition py_slice_to {A} (l : list A) (k : Z) : list A :=
  if k <? 0 then firstn (Z.to_nat (zlen l + k)) l else firstn (Z.to_nat k) l.

(* context.history in Python order (oldest first) *)
Definition py_history (v : view) : list str := rev (v_history v).
(* context.history[-k] for k >= 1 on the newest-first representation *)
Definition hist_back (v : view) (k : nat) : option str := nth_error (v_history v) (k - 1).
(* the same, total: only used by generated code under a guard `len(context.history) ...` that makes
   the entry exist *)
Definition hist_back_d (v : view) (k : nat) : str := nth (k - 1) (v_history v) [].
Definition hist_len (v : view) : Z := zlen (v_history v).

(* ---- Context.peek_token / check_token *)
Definition peek (toks : list token) (pos : Z) : option token := py_nth toks pos.
(* check_token(pos, "X"): True / False / None *)
Definition check1 (toks : list token) (pos : Z) (ty : str) : option bool :=
  match peek toks pos with Some t => Some (str_eqb (t_type t) ty) | None => None end.
(* check_token(pos, (..)) / check_token(pos, [..]) *)
Definition checkl (toks : list token) (pos : Z) (tys : list str) : option bool :=
  match peek toks pos with Some t => Some (str_in (t_type t) tys) | None => None end.
(* the four Python idioms on the three-valued result *)
Definition truthy (o : option bool) : bool := match o with Some true => true | _ => false end.
Definition is_true (o : option bool) : bool := match o with Some true => true | _ => false end.
Definition is_false (o : option bool) : bool := match o with Some false => true | _ => false end.
Definition is_some {A} (o : option A) : bool := match o with Some _ => true | None => false end.
Definition is_none {A} (o : option A) : bool := match o with Some _ => false | None => true end.

(* len(context.tokens[: context.tkn_scope]) *)
Definition slice_len (toks : list token) (scope : Z) : Z := zlen (py_slice_to toks scope).
(* range(lo, hi) *)
Definition zrange (lo hi : Z) : list Z := map (fun k => lo + Z.of_nat k) (seq 0 (Z.to_nat (hi - lo))).
Definition in_range0 (x n : Z) : bool := (0 <=? x) && (x <? n).

(* `while C(i): i += 1` - every such loop of the modelled checks tests a token at i (or i < tkn_scope),
   so it ends at the latest at the end of the tokens; fuel 2*len+2 is never exhausted (Proofs) *)
Fixpoint skip_while_f (fuel : nat) (p : Z -> bool) (i : Z) : Z :=
  match fuel with
  | O => i
  | S f => if p i then skip_while_f f p (i + 1) else i
  end.
Definition loop_fuel (toks : list token) : nat := S (S (2 * List.length toks)).
Definition skip_while (toks : list token) (p : Z -> bool) (i : Z) : Z := skip_while_f (loop_fuel toks) p i.

(* list.remove(x): first occurrence *)
Fixpoint remove_first (x : str) (l : list str) : list str :=
  match l with [] => [] | y :: r => if str_eqb x y then r else y :: remove_first x r end.
(* Context.skip_ws(pos) with nl=False, comment=False *)
Definition ws_no_nl : list str := remove_first (s "NEWLINE") ctx_whitespaces.
Definition skip_ws (toks : list token) (pos : Z) : Z :=
  skip_while toks (fun i => truthy (checkl toks i ws_no_nl)) pos.

(* context.new_error(code, tkn): tkn = None raises AttributeError in Highlight.from_token *)
Definition emit (code : str) (ot : option token) (E : list em) : outcome (list em) :=
  match ot with
  | Some t => Ok (E ++ [(code, t_line t, t_col t)])
  | None => Crash AttributeError
  end.
(* `tok_a or tok_b` (a Token object is always truthy) *)
Definition or_tok (a b : option token) : option token := match a with Some t => Some t | None => b end.
(* an attribute read on the result of peek_token *)
Definition need_tok {A} (ot : option token) (k : token -> outcome A) : outcome A :=
  match ot with Some t => k t | None => Crash AttributeError end.
(* context.history[-k] outside any guard: IndexError when missing *)
Definition need_hist {A} (o : option str) (k : str -> outcome A) : outcome A :=
  match o with Some x => k x | None => Crash IndexError end.

(* for x in l: body (break = true in the first component) *)
Fixpoint for_each {A St} (l : list A) (body : A -> St -> outcome (bool * St)) (st : St) : outcome St :=
  match l with
  | [] => Ok st
  | x :: r => match body x st with
              | Ok (true, st') => Ok st'
              | Ok (false, st') => for_each r body st'
              | Fatal m => Fatal m | Crash e => Crash e | Hang => Hang
              end
  end.

Definition z_in (x : Z) (l : list Z) : bool := existsb (Z.eqb x) l.

(* result of a check's run(): the diagnostics it added (oldest first) and the context view afterwards *)
Definition result := outcome (list em * view).

(* ---- replay of recorded invocations (tools/harness/c02.py): tokens are given as (type id, line, col) *)
Definition mk_tok (ty : str) (l c : Z) : token := mktok ty l c None.
Definition res_code (r : result) : Z := match r with Ok _ => 0 | Fatal _ => 1 | Crash _ => 2 | Hang => 3 end.
Fixpoint em_eqb_list (a b : list em) : bool :=
  match a, b with
  | [], [] => true
  | (c1, l1, k1) :: a', (c2, l2, k2) :: b' => str_eqb c1 c2 && (l1 =? l2) && (k1 =? k2) && em_eqb_list a' b'
  | _, _ => false
  end.
(* expected: outcome class, emitted list, include_allowed / vdeclarations_allowed afterwards *)
Definition agrees (r : result) (oc : Z) (E : list em) (ia va : bool) : bool :=
  match r with
  | Ok (E', v') => (oc =? 0) && em_eqb_list E' E && Bool.eqb (v_include_allowed v') ia && Bool.eqb (v_vdecl_allowed v') va
  | _ => res_code r =? oc
  end.
