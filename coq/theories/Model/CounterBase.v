(* Context.skip_nest, by hand (pinned by fingerprint in Gen/Counters.v; validated by the correspondence of
   tools/harness/scopecorr.py on every CheckFuncDeclaration invocation).  No proofs here. *)
From NV Require Export Model.Base Model.RuleChecks.

Definition nest_openers : list str := [s "LBRACKET"; s "LBRACE"; s "LPARENTHESIS"].
Definition nest_closers : list str := [s "RBRACKET"; s "RBRACE"; s "RPARENTHESIS"].
(* rbrackets[lbrackets.index(c)] *)
Definition closer_of (ty : str) : option str :=
  if str_eqb ty (s "LBRACKET") then Some (s "RBRACKET")
  else if str_eqb ty (s "LBRACE") then Some (s "RBRACE")
  else if str_eqb ty (s "LPARENTHESIS") then Some (s "RPARENTHESIS")
  else None.
Definition msg_ended : str := s "Error: Code ended unexpectedly.".
Definition msg_unclosed : str := s "Error: Nested parentheses, braces or brackets are not correctly closed".

(* skip_nest(pos): pos itself when the token is no opening bracket; else the index of the matching closing bracket, nested
   brackets of all three kinds being skipped recursively; CParsingError when the tokens end first.  Every step of the scan and
   every recursive call takes one unit of fuel: Hang is never reached with fuel > number of tokens (Proofs). *)
Fixpoint skip_nest_f (fuel : nat) (toks : list token) (pos : Z) {struct fuel} : outcome Z :=
  match fuel with
  | O => Hang
  | S f =>
      match peek toks pos with
      | None => Fatal msg_ended
      | Some t =>
          match closer_of (t_type t) with
          | None => Ok pos
          | Some c => nest_scan_f f toks c (pos + 1)
          end
      end
  end
with nest_scan_f (fuel : nat) (toks : list token) (c : str) (i : Z) {struct fuel} : outcome Z :=
  match fuel with
  | O => Hang
  | S f =>
      match peek toks i with
      | None => Fatal msg_unclosed
      | Some t =>
          if str_in (t_type t) nest_openers then
            match skip_nest_f f toks i with
            | Ok j => nest_scan_f f toks c (j + 1)
            | Fatal m => Fatal m | Crash e => Crash e | Hang => Hang
            end
          else if str_in (t_type t) nest_closers && str_eqb c (t_type t) then Ok i
          else nest_scan_f f toks c (i + 1)
      end
  end.
Definition skip_nest (toks : list token) (pos : Z) : outcome Z := skip_nest_f (loop_fuel toks) toks pos.
