(* The statement-trace model of the scope bookkeeping (C03: the 25 lines; C07: depth back at file level).
   A statement is what the registry loop saw: the primary that matched, how many line-end tokens it holds, and - for the
   three primaries that can open a scope - the class they handed to scope.inner() on this match (decided by what follows in
   the text, e.g. `while (x);` opens nothing).  `step` = what one turn of Registry.run does to the scope chain on a MATCH:
     1. the primary's scope effect (Gen.ScopeOps: block_start_scan / block_end_effect; inner() for the openers),
     2. Registry.run_rules: scope.instructions += 1, history.append,
     3. CheckBrace's line test (it depends on IsBlockStart and IsBlockEnd and runs before the `_rule` checks),
     4. CheckLineCount: scope.lines += line ends (still the OLD scope: update comes last),
     5. Context.update.
   Not modelled: side effects of primaries that were tried and failed (IsBlockEnd calls outer() before it can still
   return False for a malformed `} name;` of a user-defined type), and the three `while type(sc) != GlobalScope:
   sc = sc.outer()` walks (IsFuncDeclaration / IsFuncPrototype.check_func_format, CheckIdentifierName), which only run
   with the global scope current, where they do nothing.  The correspondence of tools/harness/scopecorr.py compares the
   chain after every statement of real runs. *)
From NV Require Export Model.Base Model.ScopeBase Gen.ScopeOps.

Record stmt := mkstmt {
  st_rule : str;                 (* name of the matched primary *)
  st_nl : Z;                     (* tokens of the statement whose type is in line_count_types *)
  st_opens : option str          (* class given to scope.inner() by IsFuncDeclaration / IsControlStatement / IsUserDefinedType *)
}.

Record state := mkstate {
  chain : list sc;               (* context.scope :: ancestors *)
  hist : list str;               (* context.history, newest first *)
  ems : list str                 (* codes emitted by the two line checks, newest first *)
}.

Definition r_block_start := s "IsBlockStart".
Definition r_block_end := s "IsBlockEnd".
Definition k_control := s "ControlStructure".
Definition k_function := s "Function".
Definition k_global := s "GlobalScope".

(* does this primary hand this class to inner() somewhere, and with which multiline afterwards (default False) *)
Definition inner_multi (rule cls : str) : option bool :=
  match find (fun x => str_eqb (fst (fst x)) rule && str_eqb (snd (fst x)) cls) inner_sites with
  | Some (_, _, Some b) => Some b
  | Some (_, _, None) => Some false
  | None => None
  end.

(* 1. the primary's effect: the chain (current scope possibly re-flagged, parent possibly credited) and context.sub *)
Definition primary_effect (q : state) (x : stmt) : option (list sc * option subref) :=
  match chain q with
  | [] => None
  | h :: rest =>
      if str_eqb (st_rule x) r_block_start then
        match block_start_scan (hist q) (s_lines h) with
        | BsNone => Some (h :: rest, None)
        | BsNew cls => Some (h :: rest, Some (SubChild (new_scope cls true)))
        | BsMark => Some (set_multi h true :: rest, None)
        end
      else if str_eqb (st_rule x) r_block_end then
        match block_end_effect (str_eqb (s_kind h) k_control) with
        | BeSub leave =>
            match rest with
            | p :: r => Some (h :: leave h p :: r, Some SubParent)
            | [] => Some ([h], None)                  (* GlobalScope.outer() is None: context.sub = None *)
            end
        | BeUnmark => Some (set_multi h false :: rest, None)
        end
      else
        match st_opens x with
        | None => Some (h :: rest, None)
        | Some cls =>
            match inner_multi (st_rule x) cls with
            | Some m => Some (h :: rest, Some (SubChild (new_scope cls m)))
            | None => None                            (* the trace claims an effect the source does not have *)
            end
        end
  end.

Definition is_brace_rule (r : str) : bool := str_eqb r r_block_start || str_eqb r r_block_end.

Definition step (q : state) (x : stmt) : option state :=
  match primary_effect q x with
  | None => None
  | Some ([], _) => None
  | Some (h :: rest, sub) =>
      let h := add_instr h 1 in                                   (* 2 *)
      let hist' := st_rule x :: hist q in
      let e1 := if is_brace_rule (st_rule x) then brace_line_test (s_kind h) (s_lines h) else [] in   (* 3 *)
      let '(l, e2) := line_count_run (str_eqb (s_kind h) k_global) (parent_rule hist') (s_lines h) (st_nl x) in   (* 4 *)
      let h := mksc (s_kind h) l (s_instr h) (s_multi h) in
      match ctx_update (S (S (List.length rest))) hist' (h :: rest) sub with       (* 5 *)
      | Some (c, _) => Some (mkstate c hist' (e2 ++ e1 ++ ems q))
      | None => None
      end
  end.

Fixpoint run (q : state) (l : list stmt) : option state :=
  match l with
  | [] => Some q
  | x :: r => match step q x with Some q' => run q' r | None => None end
  end.

Definition global0 : sc := new_scope k_global false.
Definition state0 : state := mkstate [global0] [] [].

(* ---- replay of recorded traces (tools/harness/scopecorr.py) *)
(* after every statement: the chain as (class id, lines, instructions) and the number of codes emitted by that statement *)
Definition obs := (list (Z * Z * Z) * Z)%type.
Fixpoint chain_eqb (names : list str) (c : list sc) (o : list (Z * Z * Z)) : bool :=
  match c, o with
  | [], [] => true
  | x :: c', (k, l, i) :: o' =>
      str_eqb (s_kind x) (nth (Z.to_nat k) names []) && (s_lines x =? l) && (s_instr x =? i) && chain_eqb names c' o'
  | _, _ => false
  end.
(* index of the first statement after which model and implementation differ (-1: none; -2-k: the model is stuck at k) *)
Fixpoint replay (names : list str) (q : state) (l : list (stmt * obs)) (k : Z) : Z :=
  match l with
  | [] => -1
  | (x, (oc, n)) :: r =>
      match step q x with
      | None => -2 - k
      | Some q' =>
          if chain_eqb names (chain q') oc && (zlen (ems q') - zlen (ems q) =? n) then replay names q' r (k + 1) else k
      end
  end.
