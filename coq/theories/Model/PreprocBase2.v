(* Support for Gen/PreprocChecks2.v (CheckPreprocessorInclude, CheckPreprocessorDefine), hand-written; no proofs here.
   - scan_until: `while not context.check_token(i, T): i += 1` - the loop has no bound in the source: past the last token
     check_token returns None for ever, so it stops iff a token of type T sits at a position >= i; None = it runs on (Hang);
   - str.strip(chars) / str.strip() on ASCII white space, os.path.splitext (posixpath: the extension starts at the last dot of the
     last path component, leading dots of the component do not count), str.isupper on ASCII. *)
From NV Require Export Model.Base Model.Lexer Model.RuleChecks Model.PreprocBase.
Open Scope Z_scope.

Fixpoint scan_until (fuel : nat) (toks : list token) (ty : str) (i : Z) : option Z :=
  match fuel with
  | O => None
  | S f => if truthy (check1 toks i ty) then Some i
           else if is_none (peek toks i) then None else scan_until f toks ty (i + 1)
  end.

Fixpoint lstrip_chars (set : str) (x : str) : str :=
  match x with [] => [] | c :: r => if chr_in c set then lstrip_chars set r else x end.
Definition strip_chars (set : str) (x : str) : str := rev (lstrip_chars set (rev (lstrip_chars set x))).
Definition py_ascii_ws : str := [32%N; 9%N; 10%N; 13%N; 11%N; 12%N; 28%N; 29%N; 30%N; 31%N].

(* index of the last occurrence *)
Fixpoint rfind_from (c : N) (x : str) (k : nat) (best : option nat) : option nat :=
  match x with [] => best | d :: r => rfind_from c r (S k) (if N.eqb c d then Some k else best) end.
Definition rfind (c : N) (x : str) : option nat := rfind_from c x 0 None.
Definition py_splitext_ext (p : str) : str :=
  match rfind 46%N p with
  | None => []
  | Some d =>
      let f := match rfind 47%N p with None => O | Some k => S k end in
      if (f <=? d)%nat && existsb (fun c => negb (N.eqb c 46%N)) (firstn (d - f) (skipn f p)) then skipn d p else []
  end.

Definition py_isupper_ascii (x : str) : bool :=
  existsb (fun c => (65 <=? c)%N && (c <=? 90)%N) x && negb (existsb (fun c => (97 <=? c)%N && (c <=? 122)%N) x).
