(* Diagnostics as values: norminette.errors.Highlight / Error. *)
From NV Require Export Model.Base.

Record hl := mkhl { h_line : Z; h_col : Z; h_len : option Z; h_hint : option str }.
Record diag := mkdiag { d_name : str; d_text : str; d_level : str; d_hls : list hl }.

Definition hl0 : hl := mkhl 0 0 None None.

(* Python's  x or ''  on an Optional[str] *)
Definition or_empty (o : option str) : str :=
  match o with Some x => match x with [] => [] | _ => x end | None => [] end.

(* Python's builtin min() on a non-empty list: first minimal element w.r.t. `<`.
   On the empty list Python raises ValueError; the generated callers only reach
   it behind a non-emptiness test, the default is never observed. *)
Definition min_by {A} (lt : A -> A -> bool) (d : A) (l : list A) : A :=
  match l with
  | [] => d
  | x :: r => fold_left (fun m y => if lt y m then y else m) r x
  end.

Definition nonempty {A} (l : list A) : bool := match l with [] => false | _ => true end.

(* lexicographic `<` on pairs of ints: Python tuple comparison *)
Definition pair_ltb (a b : Z * Z) : bool :=
  if Z.eqb (fst a) (fst b) then Z.ltb (snd a) (snd b) else Z.ltb (fst a) (fst b).
