(* One turn of Registry.run at TOKEN level, at global scope, for the primaries that are modelled
   (Gen/IsComment.v: IsComment whole, IsPreprocessorStatement up to its first `return False, 0`):

       for rule in rules.primaries:                      (order = Model/RegistryOrder.primaries_order)
           if rule.scope and context.scope not in rule.scope: continue
           ret, jump = self.run_rules(context, rule)
           if ret is True: ... context.pop_tokens(jump); break
       else: (no primary matched)

   `turn` answers Some result when the modelled primaries decide the turn, None when an unmodelled primary (or the
   unmodelled rest of IsPreprocessorStatement) would have to be asked.  Model/Engine.v runs the loop with the primaries
   abstracted as an oracle; `induced` says that an oracle agrees with the token-level turn wherever that is decided.
   Definitions only. *)
From NV Require Import Model.Base Model.Lexer Model.RuleChecks Model.EngineTok0 Model.Engine Model.RegistryOrder
  Gen.Registry Gen.IsComment Model.HeaderState.

Definition prim_run (name : str) (toks : list token) : option (bool * Z) :=
  if str_eqb name (s "IsPreprocessorStatement") then ispreproc_prefix toks
  else if str_eqb name (s "IsComment") then Some (iscomment_run toks)
  else None.

(* `rule.scope and context.scope not in rule.scope` is false, for context.scope = the global scope *)
Definition applies_global (name : str) : bool :=
  match find (fun p => str_eqb (p_name p) name) primaries with
  | Some p => match p_scope p with [] => true | sc => str_in (s "GlobalScope") sc end
  | None => false
  end.

Fixpoint turn (order : list str) (toks : list token) : option tryres :=
  match order with
  | [] => Some NoMatch
  | name :: r =>
      if negb (applies_global name) then turn r toks
      else
        match prim_run name toks with
        | Some (true, j) => Some (Matched name j)
        | Some (false, _) => turn r toks
        | None => None
        end
  end.

(* context.pop_tokens(stop): tokens[stop:] *)
Definition pop_toks (toks : list token) (stop : Z) : list token :=
  skipn (List.length toks - slice_from (List.length toks) stop) toks.

(* the tokens that remain before iteration k of the loop, following the oracle (Model/Engine.run) *)
Fixpoint remaining (oracle : nat -> tryres) (toks : list token) (k : nat) : list token :=
  match k with
  | O => toks
  | S k' =>
      let r := remaining oracle toks k' in
      match oracle k' with
      | Matched _ j => pop_toks r j
      | NoMatch => tl r
      | _ => []
      end
  end.

(* the oracle is the one the token-level primaries induce, wherever they decide *)
Definition induced (oracle : nat -> tryres) (toks : list token) : Prop :=
  forall k r, remaining oracle toks k <> [] -> turn primaries_order (remaining oracle toks k) = Some r -> oracle k = r.

(* what CheckHeader.run sees after primary `name` matched on `toks` (run_rules: history.append(rule), then the
   checks of checks_run_on name, before the tokens are popped) *)
Definition event_of (name : str) (toks : list token) : hevent :=
  match toks with
  | t :: _ => mkev name (t_type t) (match t_val t with Some v => v | None => [] end)
  | [] => mkev name [] []
  end.

(* the CheckHeader events of iterations start .. start + count - 1 *)
Fixpoint events_range (oracle : nat -> tryres) (toks : list token) (start count : nat) : list hevent :=
  match count with
  | O => []
  | S c =>
      (match oracle start with
       | Matched name _ => [event_of name (remaining oracle toks start)]
       | _ => []
       end) ++ events_range oracle toks (S start) c
  end.
Definition events_upto (oracle : nat -> tryres) (toks : list token) (n : nat) : list hevent := events_range oracle toks 0 n.
