(* Support for Gen/PreprocChecks.v (property C02, fourth batch), hand-written; no proofs here.
   skip_ws with comment=True (Context.skip_ws is pinned by its fingerprint in tools/translate_rules.py), membership of a token
   value (a string or None) in a tuple, str.upper() on ASCII (identifier values are ASCII: the lexer's identifier characters),
   the read of `.value.upper` on a token value. *)
From NV Require Export Model.Base Model.Lexer Model.RuleChecks.
Open Scope Z_scope.

Definition ws_no_nl_c : list str := ws_no_nl ++ [s "COMMENT"; s "MULT_COMMENT"].
Definition skip_ws_c (toks : list token) (pos : Z) : Z :=
  skip_while toks (fun i => truthy (checkl toks i ws_no_nl_c)) pos.

Definition optstr_eqb (a b : option str) : bool :=
  match a, b with Some x, Some y => str_eqb x y | None, None => true | _, _ => false end.
Definition optstr_in (x : option str) (l : list (option str)) : bool := existsb (optstr_eqb x) l.

Definition ascii_upper_chr (c : N) : N := if (97 <=? c)%N && (c <=? 122)%N then (c - 32)%N else c.
Definition ascii_upper (x : str) : str := map ascii_upper_chr x.

(* an attribute read on a token value that may be None *)
Definition need_val {A} (o : option str) (k : str -> outcome A) : outcome A :=
  match o with Some x => k x | None => Crash AttributeError end.

(* tokens of a recorded window with their recorded values *)
Fixpoint with_vals (toks : list token) (vals : list (option str)) : list token :=
  match toks, vals with
  | t :: r, w :: ws => mktok (t_type t) (t_line t) (t_col t) w :: with_vals r ws
  | _, _ => toks
  end.
