(* C14: the turn of the registry loop with IsComment, IsEmptyLine (Gen/IsEmptyLine.v, Model/EngineTokE.turn_e) AND
   IsPreprocessorStatement's matcher for the guard lines (Gen/IsPreproc.v) translated.  It is Model/EngineTokE.turn_e with the
   parameter for the untranslated primaries answering for IsPreprocessorStatement through the translated matcher; nothing
   of EngineTok / EngineTokE / GuardTurn is changed.  Definitions only. *)
From NV Require Import Model.Base Model.Lexer Model.RuleChecks Model.Engine Model.RegistryOrder Gen.Registry
  Model.EngineTok Model.EngineTokE Model.GuardTok Gen.IsPreproc.

Definition um_g (um : str -> list token -> option (bool * Z)) (name : str) (toks : list token) : option (bool * Z) :=
  if str_eqb name PRE then ispreproc_run toks else um name toks.

Definition turn_ge (um : str -> list token -> option (bool * Z)) (order : list str) (toks : list token) : option tryres :=
  turn_e (um_g um) order toks.

Definition induced_ge (um : str -> list token -> option (bool * Z)) (oracle : nat -> tryres) (toks : list token) : Prop :=
  induced_e (um_g um) oracle toks.
