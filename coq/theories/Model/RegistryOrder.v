(* The order in which rules run: rules/__init__.py sorts the primaries by priority (descending),
   registry.py sorts every dependency list by class name (descending).  Both are `sorted(...)`
   over lists whose initial order comes from os.listdir / __subclasses__. *)
From NV Require Export Model.Base Model.Errors Gen.Registry.

Definition prio_before (a b : primary_decl) : bool := Z.ltb (p_priority b) (p_priority a).
Definition name_before (a b : str) : bool := str_ltb b a.

Definition sort_primaries (l : list primary_decl) : list primary_decl := sort_by prio_before l.
Definition sort_names (l : list str) : list str := sort_by name_before l.

Definition primaries_order : list str := map p_name (sort_primaries primaries).

Definition dependents (key : str) (cs : list check_decl) : list str :=
  map c_name (filter (fun c => str_in key (c_depends c)) cs).
Definition rule_checks_unsorted (cs : list check_decl) : list str := map c_name (filter c_rule cs).

(* what run_rules executes, in order, after primary `p` matched *)
Definition checks_run_on (p : str) : list str :=
  sort_names (dependents p checks) ++ sort_names (rule_checks_unsorted checks).
