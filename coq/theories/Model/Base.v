(* Base definitions shared by every model: strings as lists of code points,
   outcomes (Python exceptions made explicit), small list helpers with Python
   semantics.  No proofs here. *)
From Coq Require Export List NArith ZArith Bool String Ascii.
Export ListNotations.
Open Scope Z_scope.

Definition str := list N.

Definition s (x : string) : str :=
  List.map N_of_ascii (list_ascii_of_string x).

Fixpoint str_eqb (a b : str) : bool :=
  match a, b with
  | [], [] => true
  | x :: a', y :: b' => N.eqb x y && str_eqb a' b'
  | _, _ => false
  end.

(* Python str `<` : lexicographic on code points *)
Fixpoint str_ltb (a b : str) : bool :=
  match a, b with
  | [], [] => false
  | [], _ :: _ => true
  | _ :: _, [] => false
  | x :: a', y :: b' =>
      if N.ltb x y then true else if N.ltb y x then false else str_ltb a' b'
  end.

Definition str_in (x : str) (l : list str) : bool := existsb (str_eqb x) l.

Fixpoint assoc (k : str) (l : list (str * str)) : option str :=
  match l with
  | [] => None
  | (a, b) :: l' => if str_eqb k a then Some b else assoc k l'
  end.

Definition chr_in (c : N) (l : str) : bool := existsb (N.eqb c) l.

Definition zlen {A} (l : list A) : Z := Z.of_nat (List.length l).

Fixpoint starts_with (p x : str) : bool :=
  match p, x with
  | [], _ => true
  | a :: p', b :: x' => N.eqb a b && starts_with p' x'
  | _ :: _, [] => false
  end.

(* str.endswith: compare p with the last |p| characters of x *)
Definition ends_with (p x : str) : bool :=
  Nat.leb (List.length p) (List.length x) && str_eqb p (skipn (List.length x - List.length p) x).

(* Python exceptions that the modelled code can raise *)
Inductive exn :=
| UnexpectedEOF | MaybeInfiniteLoop | RecursionError | TypeError | IndexError
| AttributeError | KeyError | UnboundLocalError | AssertionError | Unmodelled.

Inductive outcome (A : Type) :=
| Ok (a : A)
| Fatal (m : str)          (* CParsingError: the controlled, reported failure *)
| Crash (e : exn)          (* any other exception: a traceback *)
| Hang.                    (* fuel of a loop that is unbounded in the Python code ran out *)
Arguments Ok {A} a.
Arguments Fatal {A} m.
Arguments Crash {A} e.
Arguments Hang {A}.

Definition bind {A B} (x : outcome A) (f : A -> outcome B) : outcome B :=
  match x with
  | Ok a => f a
  | Fatal m => Fatal m
  | Crash e => Crash e
  | Hang => Hang
  end.
Notation "'do' x <- a ; b" := (bind a (fun x => b))
  (at level 200, x pattern, a at level 100, b at level 200).

Definition exn_eqb (a b : exn) : bool :=
  match a, b with
  | UnexpectedEOF, UnexpectedEOF | MaybeInfiniteLoop, MaybeInfiniteLoop
  | RecursionError, RecursionError | TypeError, TypeError | IndexError, IndexError
  | AttributeError, AttributeError | KeyError, KeyError
  | UnboundLocalError, UnboundLocalError | AssertionError, AssertionError
  | Unmodelled, Unmodelled => true
  | _, _ => false
  end.

(* decimal rendering of a non-negative integer (Python str(int) / format) *)
Fixpoint uint_digits (u : Decimal.uint) : str :=
  match u with
  | Decimal.Nil => []
  | Decimal.D0 r => 48%N :: uint_digits r | Decimal.D1 r => 49%N :: uint_digits r
  | Decimal.D2 r => 50%N :: uint_digits r | Decimal.D3 r => 51%N :: uint_digits r
  | Decimal.D4 r => 52%N :: uint_digits r | Decimal.D5 r => 53%N :: uint_digits r
  | Decimal.D6 r => 54%N :: uint_digits r | Decimal.D7 r => 55%N :: uint_digits r
  | Decimal.D8 r => 56%N :: uint_digits r | Decimal.D9 r => 57%N :: uint_digits r
  end.
Definition dec_of_N (n : N) : str := uint_digits (N.to_uint n).
Definition dec_of_Z (z : Z) : str :=
  match z with
  | Z0 => [48%N]
  | Zpos p => dec_of_N (Npos p)
  | Zneg p => 45%N :: dec_of_N (Npos p)
  end.

Definition pad_left (w : nat) (x : str) : str :=       (* format spec  :>w  *)
  repeat 32%N (w - List.length x) ++ x.
Definition pad_right (w : nat) (x : str) : str :=      (* format spec  :<w  *)
  x ++ repeat 32%N (w - List.length x).
