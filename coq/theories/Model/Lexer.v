(* norminette.lexer.lexer.Lexer - executable model, definitions only (proofs are in Proofs/).
   The state carries the REMAINING raw text, so that raw_peek is a prefix of it and every
   advance is a drop; `off` counts the raw characters consumed so far (the Python __pos).
   Tables (dictionary, suffix lists, escape letters, operator sets, loop bounds, the order of
   the sub-parsers) are Gen.Dict / Gen.LexTables, regenerated from the source on every run.
   The four numeric regular expressions are the hand-specialised matchers of Model/NumRe.v. *)
From NV Require Export Model.Base Model.Diag Gen.Dict Gen.LexTables Gen.Catalogue Model.NumRe.

Record token := mktok { t_type : str; t_line : Z; t_col : Z; t_val : option str }.

Record st := mkst { rest : str; off : nat; line : Z; col : Z; errs : list diag (* newest first *) }.

Definition advance (n : nat) (x : st) : st :=
  mkst (skipn n (rest x)) (off x + n) (line x) (col x) (errs x).
Definition set_pos (l c : Z) (x : st) : st := mkst (rest x) (off x) l c (errs x).
Definition add_err (d : diag) (x : st) : st := mkst (rest x) (off x) (line x) (col x) (d :: errs x).

Definition from_name (name level : str) (hls : list hl) : diag :=
  mkdiag name (match assoc name catalogue with Some t => t | None => [] end) level hls.
Definition lv_error : str := s "Error".
Definition lv_notice : str := s "Notice".

(* ------------------------------------------------------------------ raw_peek / peek *)
(* raw_peek(offset=0, collect=n): None at end of input, else the (possibly shorter) slice *)
Definition raw_peek (n : nat) (r : str) : option str :=
  match r with [] => None | _ => Some (firstn n r) end.

(* one step of peek(): (translated text, raw size) *)
Definition peek1 (r : str) : option (str * nat) :=
  match r with
  | [] => None
  | a :: _ =>
      match assoc (firstn 3 r) trigraphs with
      | Some t => Some (t, 3%nat)
      | None =>
          match assoc (firstn 2 r) digraphs with
          | Some d => Some (d, 2%nat)
          | None => Some ([a], 1%nat)
          end
      end
  end.

(* peek(times=2) *)
Definition peek2 (r : str) : option (str * nat) :=
  match peek1 r with
  | None => None
  | Some (c1, n1) =>
      match peek1 (skipn n1 r) with
      | None => Some (c1, n1)
      | Some (c2, n2) => Some (c1 ++ c2, (n1 + n2)%nat)
      end
  end.

Definition nl : str := [10%N].
Definition bs : str := [92%N].
Definition is_nl (c : str) : bool := str_eqb c nl.
Definition is_bs (c : str) : bool := str_eqb c bs.

(* Python `x in "abc"` for a one-character (or longer) string x: substring test; the model only
   ever applies it to translated characters, which are one code point long in the shipped
   tables, but the definition is the substring test so that a table change cannot fool it *)
Fixpoint is_substr (x y : str) : bool :=
  starts_with x y || match y with [] => false | _ :: y' => is_substr x y' end.

(* ------------------------------------------------------------------ pop *)
Inductive popres :=
| PopOk (text : str) (x : st)
| PopEOF (x : st)                   (* UnexpectedEOF raised with the lexer in state x *)
| PopMIL.                           (* MaybeInfiniteLoop *)

(* the hex digits after \x : raw_peek(offset=size, collect=2) *)
Definition hex_after (r : str) : str :=
  match r with
  | a :: r' =>
      if chr_in a hexadecimal_digits then
        match r' with
        | b :: _ => if chr_in b hexadecimal_digits then [a; b] else [a]
        | [] => [a]
        end
      else []
  | [] => []
  end.

(* the escape branch of pop: `char`/`size` hold the backslash, (temp, tsize) the next peek.
   Returns the new (char, size) and the state with a possible Notice added. *)
Definition pop_escape (x : st) (char : str) (size : nat) (temp : str) (tsize : nat) : str * nat * st :=
  if is_substr temp pop_escape_letters then (char ++ temp, (size + tsize)%nat, x)
  else if str_eqb temp (s "x") then
    let size1 := S size in
    let after := skipn size1 (rest x) in
    match after with
    | a :: _ =>
        if chr_in a hexadecimal_digits then
          let h := hex_after after in (char ++ temp ++ h, (size1 + List.length h)%nat, x)
        else
          (char ++ temp, size1,
           add_err (from_name (s "NO_HEX_DIGITS") lv_notice [mkhl (line x) (col x + Z.of_nat size1 - 1) (Some 1) None]) x)
    | [] =>
        (char ++ temp, size1,
         add_err (from_name (s "NO_HEX_DIGITS") lv_notice [mkhl (line x) (col x + Z.of_nat size1 - 1) (Some 1) None]) x)
    end
  else if is_substr temp octal_digits then
    let (o, _) := span (fun c => chr_in c octal_digits) (skipn size (rest x)) in
    (char ++ o, (size + List.length o)%nat, x)
  else
    (char ++ temp, (size + tsize)%nat,
     add_err (from_name (s "UNKNOWN_ESCAPE") lv_notice [mkhl (line x) (col x + Z.of_nat size) (Some 1) None]) x).

(* what happens after the inner loop: newline / tab bookkeeping, then the advance *)
Definition pop_finish (use_spaces : bool) (x : st) (char : str) (size : nat) : popres :=
  let x1 := if is_nl char then set_pos (line x + 1) 0 x else x in
  let '(char2, x2) :=
    if ends_with [9%N] char then
      (* `size - 1` raw characters (an escaping backslash) precede the tab *)
      let tab_column := col x1 + Z.of_nat size - 1 in
      let spaces := 4 - ((tab_column - 1) mod 4) in
      (if use_spaces && str_eqb char [9%N] then repeat 32%N (Z.to_nat spaces) else char,
       set_pos (line x1) (col x1 + spaces - 1) x1)
    else (char, x1) in
  PopOk char2 (advance size (set_pos (line x2) (col x2 + Z.of_nat size) x2)).

(* the `for _ in range(100)` loop of pop; fuel = pop_loop_bound *)
Fixpoint pop_inner (fuel : nat) (use_spaces use_escape : bool) (x : st) : popres :=
  match fuel with
  | O => PopMIL
  | S fuel' =>
      match peek1 (rest x) with
      | None => PopEOF x
      | Some (char, size) =>
          if negb (is_bs char) then pop_finish use_spaces x char size
          else
            match peek1 (skipn size (rest x)) with
            | None => pop_finish use_spaces x char size
            | Some (temp, tsize) =>
                if negb (is_nl temp) then
                  if use_escape then
                    let '(char', size', x') := pop_escape x char size temp tsize in
                    pop_finish use_spaces x' char' size'
                  else pop_finish use_spaces x char size
                else
                  (* line splice *)
                  let x' := set_pos (line x + 1) 1 (advance (S size) x) in
                  match peek1 (rest x') with
                  | None => PopEOF x'
                  | Some _ => pop_inner fuel' use_spaces use_escape x'
                  end
            end
      end
  end.

Definition pop1 (use_spaces use_escape : bool) (x : st) : popres :=
  pop_inner pop_loop_bound use_spaces use_escape x.

Fixpoint popn (times : nat) (x : st) (acc : str) : popres :=
  match times with
  | O => PopOk acc x
  | S t =>
      match pop1 false false x with
      | PopOk c x' => popn t x' (acc ++ c)
      | PopEOF x' => PopEOF x'
      | PopMIL => PopMIL
      end
  end.

(* ------------------------------------------------------------------ sub-parsers *)
Inductive pres :=
| PNone                              (* the sub-parser returned None (state untouched) *)
| PTok (t : token) (x : st)
| PExn (e : exn).                    (* an exception escaped the sub-parser *)

Definition tok_at (x : st) (ty : str) (v : option str) : token := mktok ty (line x) (col x) v.

(* the prefix loop shared by the char and string parsers.  Returns None when the sub-parser
   returns (raw_peek gave nothing), else the popped prefix and the state *)
Fixpoint quote_prefix (q : N) (ps : list str) (x : st) : option (popres) :=
  match ps with
  | [] => Some (PopOk [] x)
  | p :: ps' =>
      match raw_peek (S (List.length p)) (rest x) with
      | None => None
      | Some [] => None
      | Some r =>
          if starts_with p r && ends_with [q] r then Some (popn (List.length p) x [])
          else quote_prefix q ps' x
      end
  end.

Definition first_is (c : N) (r : str) : bool := match r with a :: _ => N.eqb a c | [] => false end.

Definition zl (x : str) : Z := Z.of_nat (List.length x).

Inductive cloop := CDone (value : str) (chars : nat) (x : st) | CMIL.

(* the `for _ in range(100)` loop of parse_char_literal; l0 c0 = position of the literal *)
Fixpoint char_loop (fuel : nat) (l0 c0 : Z) (value : str) (chars : nat) (x : st) : cloop :=
  match fuel with
  | O => CMIL
  | S fuel' =>
      match pop1 false true x with
      | PopMIL => CMIL
      | PopEOF x' =>
          CDone value chars (add_err (from_name (s "UNEXPECTED_EOF_CHR") lv_error [mkhl l0 c0 (Some (zl value)) None]) x')
      | PopOk c x' =>
          if is_nl c then
            (* the newline is left for the next token: the state saved before the pop is restored,
               diagnostics added by the pop (none for a newline) stay *)
            CDone value chars
              (add_err (from_name (s "UNEXPECTED_EOL_CHR") lv_error
                          [mkhl l0 c0 (Some (zl value)) None;
                           mkhl l0 (c0 + zl value) (Some 1) (Some (s "Perhaps you forgot a single quote (')?"))])
                       (mkst (rest x) (off x) (line x) (col x) (errs x')))
          else if str_eqb c [39%N] then CDone (value ++ c) chars x'
          else char_loop fuel' l0 c0 (value ++ c) (S chars) x'
      end
  end.

Definition hint_char_as_string : str :=
  s "Perhaps you want a string (double quote, " ++ [34%N] ++ s ") instead of a char (single quote, ')?".

Definition parse_char_literal (x : st) : pres :=
  match quote_prefix 39%N quote_prefixes x with
  | None => PNone
  | Some PopMIL => PExn MaybeInfiniteLoop
  | Some (PopEOF _) => PExn UnexpectedEOF
  | Some (PopOk pre x1) =>
      if negb (first_is 39%N (rest x1)) then PNone
      else
        match pop1 false false x1 with
        | PopMIL => PExn MaybeInfiniteLoop
        | PopEOF _ => PExn UnexpectedEOF
        | PopOk q x2 =>
            let l0 := line x in let c0 := col x in
            match char_loop char_loop_bound l0 c0 (pre ++ q) 0 x2 with
            | CMIL => PExn MaybeInfiniteLoop
            | CDone value chars x3 =>
                let x4 := if Nat.eqb chars 0 && ends_with [39; 39]%N value
                          then add_err (from_name (s "EMPTY_CHAR") lv_error [mkhl l0 c0 (Some (zl value)) None]) x3 else x3 in
                let x5 := if Nat.ltb 1 chars && ends_with [39%N] value
                          then add_err (from_name (s "CHAR_AS_STRING") lv_error
                                          [mkhl l0 c0 (Some (zl value)) None; mkhl l0 c0 (Some 1) (Some hint_char_as_string)]) x4
                          else x4 in
                PTok (mktok (s "CHAR_CONST") l0 c0 (Some value)) x5
            end
        end
  end.

Inductive sloop := SDone (value : str) (closed : bool) (x : st) | SMIL | SHang.

(* `while self.peek() is not None:` of parse_string_literal; fuel = remaining length + 1 *)
Fixpoint string_loop (fuel : nat) (value : str) (x : st) : sloop :=
  match fuel with
  | O => SHang
  | S fuel' =>
      match peek1 (rest x) with
      | None => SDone value false x
      | Some _ =>
          match pop1 false true x with
          | PopMIL => SMIL
          | PopEOF x' => string_loop fuel' value x'
          | PopOk c x' =>
              if str_eqb c [34%N] then SDone (value ++ c) true x'
              else string_loop fuel' (value ++ c) x'
          end
      end
  end.

Definition hint_string : str := s "Perhaps you forgot a double quote (" ++ [34%N] ++ s ")?".

Definition parse_string_literal (x : st) : pres :=
  match peek1 (rest x) with
  | None => PNone
  | Some _ =>
      match quote_prefix 34%N quote_prefixes x with
      | None => PNone
      | Some PopMIL => PExn MaybeInfiniteLoop
      | Some (PopEOF _) => PExn UnexpectedEOF
      | Some (PopOk pre x1) =>
          if negb (first_is 34%N (rest x1)) then PNone
          else
            match pop1 false false x1 with
            | PopMIL => PExn MaybeInfiniteLoop
            | PopEOF _ => PExn UnexpectedEOF
            | PopOk q x2 =>
                let l0 := line x in let c0 := col x in
                match string_loop (S (List.length (rest x2))) (pre ++ q) x2 with
                | SMIL => PExn MaybeInfiniteLoop
                | SHang => PExn Unmodelled
                | SDone value closed x3 =>
                    let x4 := if closed then x3
                              else add_err (from_name (s "UNEXPECTED_EOF_STR") lv_error
                                              [mkhl l0 c0 (Some (zl value)) None;
                                               mkhl l0 (c0 + zl value) (Some 1) (Some hint_string)]) x3 in
                    PTok (mktok (s "STRING") l0 c0 (Some value)) x4
                end
            end
      end
  end.

Definition of_popres (r : popres) (k : str -> st -> pres) : pres :=
  match r with
  | PopOk t x => k t x
  | PopEOF _ => PExn UnexpectedEOF
  | PopMIL => PExn MaybeInfiniteLoop
  end.

Section WithClasses.
  (* Python's Unicode-aware \w and \d on non-ASCII code points *)
  Variable uw ud : N -> bool.

  Definition hint_space : str := s "Perhaps you forgot a space ( )?".

  (* highlights of _check_bad_prefix: one per character of Constant outside the bucket *)
  Fixpoint bad_digit_hls (l0 c0 : Z) (idx : Z) (bucket : str) (cs : str) : list hl :=
    match cs with
    | [] => []
    | c :: r =>
        (if chr_in c bucket then [] else [mkhl l0 (c0 + idx) (Some 1) None]) ++ bad_digit_hls l0 c0 (idx + 1) bucket r
    end.

  Definition check_bad_prefix (name : str) (bucket : str) (l0 c0 : Z) (prefix const : str) (x : st) : st :=
    match bad_digit_hls l0 c0 (zl prefix) bucket const with
    | [] => x
    | hls => add_err (from_name (s "INVALID_" ++ name ++ s "_INT") lv_error hls) x
    end.

  Definition parse_integer_literal (x : st) : pres :=
    match int_match uw ud (rest x) with
    | None => PNone
    | Some (prefix, const, suffix) =>
        let l0 := line x in let c0 := col x in
        let n := (List.length prefix + List.length const + List.length suffix)%nat in
        of_popres (popn n x []) (fun slice x1 =>
          let x2 :=
            if str_in suffix integer_suffixes then x1
            else
              let string_length := zl slice - zl suffix in
              match suffix with
              | c :: _ =>
                  if chr_in c (s "+-")
                  then add_err (from_name (s "MAXIMAL_MUNCH") lv_error [mkhl l0 (c0 + string_length) (Some 1) (Some hint_space)]) x1
                  else add_err (from_name (s "INVALID_SUFFIX") lv_error [mkhl l0 (c0 + string_length) (Some (zl suffix)) None]) x1
              | [] => x1      (* unreachable: '' is a suffix of the table; Python would raise IndexError *)
              end in
          let x3 :=
            if str_in prefix [s "0b"; s "0B"] then check_bad_prefix (s "BIN") (s "01") l0 c0 prefix const x2
            else if str_eqb prefix (s "0") then check_bad_prefix (s "OCT") (s "01234567") l0 c0 prefix const x2
            else if str_in prefix [s "0x"; s "0X"] then check_bad_prefix (s "HEX") (s "0123456789abcdefABCDEF") l0 c0 prefix const x2
            else x2 in
          PTok (mktok (s "CONSTANT") l0 c0 (Some slice)) x3)
    end.

  Definition count_chr (c : N) (x : str) : nat := List.length (filter (N.eqb c) x).

  (* str.strip(chars) *)
  Fixpoint lstrip (set : str) (x : str) : str :=
    match x with
    | a :: r => if chr_in a set then lstrip set r else x
    | [] => []
    end.
  Definition strip (set : str) (x : str) : str := rev (lstrip set (rev (lstrip set x))).

  Definition parse_float_literal (x : st) : pres :=
    match rest x with
    | [] => PNone
    | _ =>
        let l0 := line x in let c0 := col x in
        let m :=
          match fexp_match uw ud (rest x) with
          | Some g => Some (0%nat, g)
          | None =>
              match ffrac_match uw ud (rest x) with
              | Some g => Some (1%nat, g)
              | None => match fhex_match uw ud (rest x) with Some g => Some (2%nat, g) | None => None end
              end
          end in
        match m with
        | None => PNone
        | Some (ty, (const, expo, suffix)) =>
            let column := c0 + zl const in
            let badhex := strip (hexadecimal_digits ++ s ".") const in
            let verdict : option (option diag) :=     (* None = `return` (hexadecimal integer) *)
              if nonempty expo && negb (exp_ok_in ud (if Nat.eqb ty 2 then [112; 80]%N else [101; 69]%N) expo) then
                Some (Some (from_name (s "BAD_EXPONENT") lv_error [mkhl l0 column (Some (zl expo + zl suffix)) None]))
              else if Nat.eqb ty 2 && negb (chr_in 46%N const) && negb (nonempty expo) then None
              else if Nat.eqb ty 2 && negb (str_in badhex [s "x"; s "X"]) then
                Some (Some (from_name (s "MULTIPLE_X") lv_error [mkhl l0 (column - zl const + 1) (Some (zl badhex)) None]))
              else if Nat.eqb (count_chr 46%N const) 1 && Nat.ltb 0 (count_chr 46%N suffix) then
                Some (Some (from_name (s "MULTIPLE_DOTS") lv_error [mkhl l0 column (Some (zl expo + zl suffix)) None]))
              else if negb (str_in suffix float_suffixes) then
                Some (Some (from_name (s "BAD_FLOAT_SUFFIX") lv_error [mkhl l0 (column + zl expo) (Some (zl suffix)) None]))
              else Some None in
            match verdict with
            | None => PNone   (* "Hexadecimal Integer": falls through to parse_integer_literal *)
            | Some err =>
              let x1 := match err with Some e => add_err e x | None => x end in
              let n := (List.length const + List.length expo + List.length suffix)%nat in
              of_popres (popn n x1 []) (fun slice x2 => PTok (mktok (s "CONSTANT") l0 c0 (Some slice)) x2)
            end
        end
    end.
End WithClasses.

Inductive mloop := MDone (value : str) (eof : bool) (x : st) | MMIL | MHang.

Fixpoint mc_loop (fuel : nat) (value : str) (x : st) : mloop :=
  match fuel with
  | O => MHang
  | S fuel' =>
      match peek1 (rest x) with
      | None => MDone value true x
      | Some _ =>
          match pop1 true false x with
          | PopMIL => MMIL
          | PopEOF x' => MDone value true x'
          | PopOk c x' =>
              let v := value ++ c in
              if ends_with (s "*/") v then MDone v false x' else mc_loop fuel' v x'
          end
      end
  end.

Definition parse_multi_line_comment (x : st) : pres :=
  match raw_peek 2 (rest x) with
  | Some r =>
      if negb (str_eqb r (s "/*")) then PNone
      else
        of_popres (popn 2 x []) (fun v x1 =>
          let l0 := line x in let c0 := col x in
          match mc_loop (S (List.length (rest x1))) v x1 with
          | MMIL => PExn MaybeInfiniteLoop
          | MHang => PExn Unmodelled
          | MDone value eof x2 =>
              let x3 := if eof then add_err (from_name (s "UNEXPECTED_EOF_MC") lv_error [mkhl l0 c0 (Some (zl value)) None]) x2
                        else x2 in
              PTok (mktok (s "MULT_COMMENT") l0 c0 (Some value)) x3
          end)
  | None => PNone
  end.

Inductive lloop := LDone (value : str) (x : st) | LMIL | LHang.

Fixpoint lc_loop (fuel : nat) (value : str) (x : st) : lloop :=
  match fuel with
  | O => LHang
  | S fuel' =>
      match peek1 (rest x) with
      | None => LDone value x
      | Some (c, _) =>
          if is_nl c then LDone value x
          else
            match pop1 false false x with
            | PopMIL => LMIL
            | PopEOF x' => LDone value x'
            | PopOk t x' => lc_loop fuel' (value ++ t) x'
            end
      end
  end.

Definition parse_line_comment (x : st) : pres :=
  match raw_peek 2 (rest x) with
  | Some r =>
      if negb (str_eqb r (s "//")) then PNone
      else
        of_popres (popn 2 x []) (fun v x1 =>
          match lc_loop (S (List.length (rest x1))) v x1 with
          | LMIL => PExn MaybeInfiniteLoop
          | LHang => PExn Unmodelled
          | LDone value x2 => PTok (mktok (s "COMMENT") (line x) (col x) (Some value)) x2
          end)
  | None => PNone
  end.

Definition is_letter (c : N) : bool :=
  ((65 <=? c) && (c <=? 90) || (97 <=? c) && (c <=? 122))%N.
Definition is_ident_start (c : N) : bool := is_letter c || N.eqb c 95.
Definition is_ident_char (c : N) : bool := is_letter c || N.eqb c 95 || ((48 <=? c) && (c <=? 57))%N.

Inductive iloop := IDone (value : str) (x : st) | IExn (e : exn).

Fixpoint ident_loop (fuel : nat) (value : str) (x : st) : iloop :=
  match fuel with
  | O => IExn Unmodelled
  | S fuel' =>
      match rest x with
      | [] => IDone value x
      | c :: _ =>
          if negb (is_ident_char c) then IDone value x
          else
            match pop1 false false x with
            | PopOk t x' => ident_loop fuel' (value ++ t) x'
            | PopEOF _ => IExn UnexpectedEOF
            | PopMIL => IExn MaybeInfiniteLoop
            end
      end
  end.

Definition parse_identifier (x : st) : pres :=
  match rest x with
  | [] => PNone
  | c :: _ =>
      if negb (is_ident_start c) then PNone
      else
        of_popres (pop1 false false x) (fun v x1 =>
          match ident_loop (S (List.length (rest x1))) v x1 with
          | IExn e => PExn e
          | IDone value x2 =>
              match assoc value keywords with
              | Some k => PTok (mktok k (line x) (col x) None) x2
              | None => PTok (mktok (s "IDENTIFIER") (line x) (col x) (Some value)) x2
              end
          end)
  end.

(* Token(operators[<popped text>], pos): KeyError when the text is no operator *)
Definition op_token (x0 : st) (r : popres) : pres :=
  of_popres r (fun t x1 =>
    match assoc t operators with
    | Some ty => PTok (mktok ty (line x0) (col x0) None) x1
    | None => PExn KeyError
    end).

Definition parse_operator (x : st) : pres :=
  match peek1 (rest x) with
  | None => PNone
  | Some (char, _) =>
      if negb (is_substr char op_start_chars) then PNone
      else
        let single := op_token x (pop1 false false x) in
        if is_substr char op_multi_chars then
          if match raw_peek 3 (rest x) with Some r => str_in r op_three | None => false end
          then op_token x (popn 3 x [])
          else
            match peek2 (rest x) with
            | None => PExn TypeError          (* unpacking None; unreachable: peek() succeeded *)
            | Some (temp, _) =>
                if str_in temp op_two then op_token x (popn 2 x [])
                else if str_eqb temp (char ++ s "=") && match assoc temp operators with Some _ => true | None => false end
                then op_token x (popn 2 x [])
                else if is_substr char op_double_chars && str_eqb temp (char ++ char)
                then op_token x (popn 2 x [])
                else single
            end
        else single
  end.

Definition parse_whitespace (x : st) : pres :=
  match rest x with
  | [] => PNone
  | c :: _ =>
      if negb (chr_in c ws_chars) then PNone
      else
        let ty := if N.eqb c 32 then Some (s "SPACE") else if N.eqb c 9 then Some (s "TAB")
                  else if N.eqb c 10 then Some (s "NEWLINE") else None in
        match ty with
        | None => PExn UnboundLocalError     (* `token` unbound: a whitespace set wider than the three tests *)
        | Some ty => of_popres (pop1 false false x) (fun _ x1 => PTok (mktok ty (line x) (col x) None) x1)
        end
  end.

Definition parse_brackets (x : st) : pres :=
  match peek1 (rest x) with
  | None => PNone
  | Some (char, _) =>
      match assoc char brackets with
      | None => PNone
      | Some _ =>
          of_popres (pop1 false false x) (fun v x1 =>
            match assoc v brackets with
            | Some ty => PTok (mktok ty (line x) (col x) None) x1
            | None => PExn KeyError
            end)
      end
  end.

Section Lex.
  Variable uw ud : N -> bool.

  Definition run_parser (name : str) (x : st) : pres :=
    if str_eqb name (s "parse_float_literal") then parse_float_literal uw ud x
    else if str_eqb name (s "parse_integer_literal") then parse_integer_literal uw ud x
    else if str_eqb name (s "parse_char_literal") then parse_char_literal x
    else if str_eqb name (s "parse_string_literal") then parse_string_literal x
    else if str_eqb name (s "parse_identifier") then parse_identifier x
    else if str_eqb name (s "parse_whitespace") then parse_whitespace x
    else if str_eqb name (s "parse_line_comment") then parse_line_comment x
    else if str_eqb name (s "parse_multi_line_comment") then parse_multi_line_comment x
    else if str_eqb name (s "parse_operator") then parse_operator x
    else if str_eqb name (s "parse_brackets") then parse_brackets x
    else PExn Unmodelled.

  Fixpoint try_parsers (names : list str) (x : st) : pres :=
    match names with
    | [] => PNone
    | n :: r => match run_parser n x with PNone => try_parsers r x | other => other end
    end.

  Inductive item :=
  | ITok (t : token) (lo hi : nat)     (* a token and the raw span it consumed *)
  | IBad (lo : nat)                    (* one raw character reported as BAD_LEXEME *)
  | ISkip (lo hi : nat).               (* a line splice between tokens *)

  Inductive stepres := StepEnd | StepItem (i : item) (x : st) | StepExn (e : exn).

  Definition at_splice (r : str) : bool :=
    match raw_peek 2 r, raw_peek 4 r with
    | Some a, Some b => str_eqb a [92; 10]%N || str_eqb b [63; 63; 47; 10]%N
    | _, _ => false
    end.


  (* one turn of get_next_token's loop (flattened: splice skip, sub-parsers, end, bad lexeme) *)
  Definition step (x : st) : stepres :=
    match rest x with
    | [] => match try_parsers parsers x with PNone => StepEnd | PTok t x' => StepItem (ITok t (off x) (off x')) x' | PExn e => StepExn e end
    | c :: _ =>
        if at_splice (rest x) then
          match peek1 (rest x) with
          | Some (_, size) => let x' := set_pos (line x + 1) 1 (advance (S size) x) in StepItem (ISkip (off x) (off x')) x'
          | None => StepExn TypeError
          end
        else
          match try_parsers parsers x with
          | PTok t x' => StepItem (ITok t (off x) (off x')) x'
          | PExn e => StepExn e
          | PNone =>
              (* Error.from_name BAD_LEXEME (catalogue text) and one highlight of length 1 whose hint is the quoted character *)
              let d := from_name (s "BAD_LEXEME") lv_error [mkhl (line x) (col x) (Some 1) (Some ([39%N] ++ [c] ++ [39%N]))] in
              let x' := advance 1 (set_pos (line x) (col x + 1) (add_err d x)) in
              StepItem (IBad (off x)) x'
          end
    end.

  Fixpoint lex_loop (fuel : nat) (x : st) (acc : list item) : outcome (list item * st) :=
    match fuel with
    | O => Hang
    | S fuel' =>
        match step x with
        | StepEnd => Ok (rev acc, x)
        | StepExn e => Crash e
        | StepItem i x' => lex_loop fuel' x' (i :: acc)
        end
    end.

  Definition init (src : str) : st := mkst src 0 1 1 [].

  (* the whole tokenizer: items in order, final state (diagnostics newest first) *)
  Definition lex (src : str) : outcome (list item * st) := lex_loop (S (List.length src)) (init src) [].

  Definition tokens_of (items : list item) : list token :=
    flat_map (fun i => match i with ITok t _ _ => [t] | _ => [] end) items.
End Lex.
