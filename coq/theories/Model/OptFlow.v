(* C16 - main()'s option plumbing as a def/use program (Gen/OptFlow.v, translated statement by statement from
   norminette/__main__.py) and a taint analysis over it.  Executable definitions, no proofs.
   Variables hold references; all objects (File objects with their diagnostics, Context, stdout ...) are the one variable
   HEAP; EXIT = "the process has left main()".  A statement is an ARBITRARY function from the values of its uses to the
   values of its defs (an oracle `sem`): whatever Lexer / Context / Registry.run / the formatters do is covered. *)
From NV Require Export Model.Base.

Definition fstmt : Type := string * list string * list string.      (* (label, uses, defs) *)
Definition fs_label (x : fstmt) : string := fst (fst x).
Definition fs_uses (x : fstmt) : list string := snd (fst x).
Definition fs_defs (x : fstmt) : list string := snd x.

Definition smem (x : string) (l : list string) : bool := existsb (String.eqb x) l.
Definition intersects (a b : list string) : bool := existsb (fun x => smem x b) a.

(* the set of variables on which two runs may differ, after one statement *)
Definition taint_step (T : list string) (st : fstmt) : list string :=
  if intersects (fs_uses st) T then fs_defs st ++ T else T.
Definition taint_all (T : list string) (p : list fstmt) : list string := fold_left taint_step p T.

(* the statements that receive a value the two runs may differ on, in program order *)
Fixpoint reached (T : list string) (p : list fstmt) : list string :=
  match p with
  | [] => []
  | st :: r => (if intersects (fs_uses st) T then [fs_label st] else []) ++ reached (taint_step T st) r
  end.

(* semantics: environments, one statement, a program *)
Section Sem.
  Context {V : Type}.
  Variable sem : fstmt -> list V -> list V.
  Definition env := string -> V.

  Fixpoint index_of (x : string) (l : list string) : option nat :=
    match l with
    | [] => None
    | y :: r => if String.eqb x y then Some 0%nat else match index_of x r with Some i => Some (S i) | None => None end
    end.

  Definition exec (st : fstmt) (e : env) : env :=
    fun x => match index_of x (fs_defs st) with
             | Some i => nth i (sem st (map e (fs_uses st))) (e x)
             | None => e x
             end.
  Definition run_flow (p : list fstmt) (e : env) : env := fold_left (fun e st => exec st e) p e.

  Definition agree_off (T : list string) (e1 e2 : env) : Prop := forall x, smem x T = false -> e1 x = e2 x.
End Sem.

(* the presentation options: colours, output format, -o *)
Definition presentation_sources : list string := ["args.no_colors"; "args.format"; "args.only_filename"]%string.
