(* norminette.errors: Errors.__iter__ (sort), the two formatters.  Executable model, no proofs.
   hl_lt / err_lt / status come from Gen.ErrOrder (translated from the source on every run). *)
From NV Require Export Model.Base Model.Diag Gen.ErrOrder Gen.Catalogue Gen.MainExit.

(* list.sort(): stable; for lists shorter than 64 CPython runs a binary insertion sort
   that uses only `<`; on a strict weak order its result is the stable sorted permutation,
   which is what this linear insertion computes. *)
Fixpoint insert_by {A} (lt : A -> A -> bool) (x : A) (l : list A) : list A :=
  match l with
  | [] => [x]
  | y :: r => if lt x y then x :: l else y :: insert_by lt x r
  end.
Definition sort_by {A} (lt : A -> A -> bool) (l : list A) : list A :=
  fold_left (fun acc x => insert_by lt x acc) l [].

Definition sort_diags (ds : list diag) : list diag := sort_by err_lt ds.

(* error_color: first colour whose table contains the name (dict order) *)
Fixpoint error_color (tbl : list (str * list str)) (name : str) : option str :=
  match tbl with
  | [] => None
  | (c, names) :: r => if str_in name names then Some c else error_color r name
  end.

Definition esc : N := 27%N.
Definition colorize (use_colors : bool) (d : diag) : str :=
  match error_color color_table (d_name d) with
  | Some c => if use_colors then [esc; 91 (* [ *)]%N ++ c ++ s "m" ++ d_text d ++ [esc] ++ s "[0m"
              else d_text d
  | None => d_text d
  end.

(* one diagnostic line of the humanized format; error.highlights[0] raises IndexError when empty *)
Definition human_line (use_colors : bool) (d : diag) : outcome str :=
  match d_hls d with
  | [] => Crash IndexError
  | h :: _ =>
      Ok ([10%N] ++ d_level d ++ s ": " ++ pad_right 20 (d_name d) ++ s " "
          ++ s "(line: " ++ pad_left 3 (dec_of_Z (h_line h)) ++ s ", col: " ++ pad_left 3 (dec_of_Z (h_col h))
          ++ s "):" ++ [9%N] ++ colorize use_colors d)
  end.

Fixpoint human_lines (use_colors : bool) (ds : list diag) : outcome str :=
  match ds with
  | [] => Ok []
  | d :: r => do a <- human_line use_colors d; do b <- human_lines use_colors r; Ok (a ++ b)
  end.

Definition human_file (use_colors : bool) (f : file) : outcome str :=
  do ls <- human_lines use_colors (sort_diags (f_errors f));
  Ok (f_base f ++ s ": " ++ status (f_errors f) ++ s "!" ++ ls ++ [10%N]).

Fixpoint human_fmt (use_colors : bool) (fs : list file) : outcome str :=
  match fs with
  | [] => Ok []
  | f :: r => do a <- human_file use_colors f; do b <- human_fmt use_colors r; Ok (a ++ b)
  end.

(* Structural views of the two reports: what a reader can get back from each format. *)
Record dview := mkdview { v_level : str; v_name : str; v_line : Z; v_col : Z; v_text : str }.
Record fview := mkfview { v_status : str; v_diags : list dview }.

Definition dview_of (d : diag) : option dview :=
  match d_hls d with
  | [] => None
  | h :: _ => Some (mkdview (d_level d) (d_name d) (h_line h) (h_col h) (d_text d))
  end.

Fixpoint omap {A B} (f : A -> option B) (l : list A) : option (list B) :=
  match l with
  | [] => Some []
  | x :: r => match f x, omap f r with Some y, Some ys => Some (y :: ys) | _, _ => None end
  end.

(* what the humanized report says about a file *)
Definition human_view (f : file) : option fview :=
  match omap dview_of (sort_diags (f_errors f)) with
  | Some vs => Some (mkfview (status (f_errors f)) vs)
  | None => None
  end.

(* the JSON report: asdict(error) for each error of the sorted list *)
Record jfile := mkjfile { j_status : str; j_errors : list diag }.
Definition json_of (f : file) : jfile := mkjfile (status (f_errors f)) (sort_diags (f_errors f)).
Definition json_view (f : file) : option fview :=
  match omap dview_of (j_errors (json_of f)) with
  | Some vs => Some (mkfview (j_status (json_of f)) vs)
  | None => None
  end.
