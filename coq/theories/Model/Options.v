(* C16 - what norminette.__main__.main() does with its options.  Executable definitions, no proofs.

   argparse and open() are MODELLED here, not verified: `args_of` says what argparse hands to main()
   for the flags of Gen.Options.argparse_table, `mf_source = None` stands for "read from disk".
   The registry loop is Model.Engine.run with the state threaded through (run_st below erases to
   Engine.run: Proofs/OptionsProofs.run_st_erases); the rules are an ORACLE `step`. *)
From NV Require Export Model.Base Model.Diag Model.Errors Model.Cli Model.Engine.
From NV Require Import Gen.Options.

(* ------------------------------------------------------------------ the command line *)
Inductive fmt := FHuman | FJson.

(* one occurrence of an option on the command line *)
Inductive flag :=
| FlNoColors | FlFormat (f : fmt) | FlOnlyFilename | FlDebug (n : nat)      (* -d = FlDebug 1, -dd = FlDebug 2 *)
| FlR (w : str) | FlCfile (c : str) | FlHfile (c : str) | FlFilename (n : str) | FlPath (p : str).

(* the argparse namespace main() reads (dest names of Gen.Options.argparse_table) *)
Record args := mkargs {
  a_no_colors : bool;            (* store_true *)
  a_format : fmt;                (* store, default 'humanized', choices = formatter names *)
  a_only_filename : bool;        (* store_true; parsed, never read (Gen.Options.main_args_reads) *)
  a_debug : Z;                   (* count, default 0 *)
  a_R : option (list str);       (* store with nargs=1: None, or the one-word list of the LAST -R *)
  a_cfile : option str;          (* store: last occurrence *)
  a_hfile : option str;
  a_filename : option str;
  a_file : list str }.           (* positional, nargs='*' *)

Definition args0 : args := mkargs false FHuman false 0 None None None None [].

Definition apply_flag (a : args) (f : flag) : args :=
  match f with
  | FlNoColors => mkargs true (a_format a) (a_only_filename a) (a_debug a) (a_R a) (a_cfile a) (a_hfile a) (a_filename a) (a_file a)
  | FlFormat x => mkargs (a_no_colors a) x (a_only_filename a) (a_debug a) (a_R a) (a_cfile a) (a_hfile a) (a_filename a) (a_file a)
  | FlOnlyFilename => mkargs (a_no_colors a) (a_format a) true (a_debug a) (a_R a) (a_cfile a) (a_hfile a) (a_filename a) (a_file a)
  | FlDebug n => mkargs (a_no_colors a) (a_format a) (a_only_filename a) (a_debug a + Z.of_nat n) (a_R a) (a_cfile a) (a_hfile a) (a_filename a) (a_file a)
  | FlR w => mkargs (a_no_colors a) (a_format a) (a_only_filename a) (a_debug a) (Some [w]) (a_cfile a) (a_hfile a) (a_filename a) (a_file a)
  | FlCfile c => mkargs (a_no_colors a) (a_format a) (a_only_filename a) (a_debug a) (a_R a) (Some c) (a_hfile a) (a_filename a) (a_file a)
  | FlHfile c => mkargs (a_no_colors a) (a_format a) (a_only_filename a) (a_debug a) (a_R a) (a_cfile a) (Some c) (a_filename a) (a_file a)
  | FlFilename n => mkargs (a_no_colors a) (a_format a) (a_only_filename a) (a_debug a) (a_R a) (a_cfile a) (a_hfile a) (Some n) (a_file a)
  | FlPath p => mkargs (a_no_colors a) (a_format a) (a_only_filename a) (a_debug a) (a_R a) (a_cfile a) (a_hfile a) (a_filename a) (a_file a ++ [p])
  end.

Definition args_of (fl : list flag) : args := fold_left apply_flag fl args0.

(* ------------------------------------------------------------------ what the analysis sees *)
(* Python truthiness of an Optional[str] *)
Definition truthy (o : option str) : bool := match o with Some (_ :: _) => true | _ => false end.
Definition or_else (o : option str) (d : str) : str := match o with Some (c :: r) => c :: r | _ => d end.

Definition check_define_word : str := s "CheckDefine".

(* Context.__init__: self.debug = int(debug); preproc.skip_define = "CheckDefine" in (added_value or []) *)
Record ctxopts := mkctxopts { c_debug : Z; c_skip_define : bool }.
Definition skip_define_of (r : option (list str)) : bool :=
  match r with None => false | Some l => str_in check_define_word l end.
Definition ctx_of_args (a : args) : ctxopts := mkctxopts (a_debug a) (skip_define_of (a_R a)).
Definition ctx_of_options (fl : list flag) : ctxopts := ctx_of_args (args_of fl).

(* norminette.file.File: path, given source (None = open(path).read() on first use) *)
Record mfile := mkmfile { mf_path : str; mf_source : option str }.

(* os.path.basename on POSIX: what follows the last '/' *)
Fixpoint basename_aux (p acc : str) : str :=
  match p with
  | [] => rev acc
  | c :: r => if N.eqb c 47 then basename_aux r [] else basename_aux r (c :: acc)
  end.
Definition basename (p : str) : str := basename_aux p [].

(* open(path).read() in text mode: universal newlines (CRLF and lone CR become LF); UTF-8 decoding is the identity on
   the code points of valid UTF-8.  MODELLED (CPython library behaviour), validated by the harness on real files. *)
Fixpoint universal_newlines (x : str) : str :=
  match x with
  | [] => []
  | c :: r =>
      if N.eqb c 13 then
        10%N :: match r with
                | c2 :: r' => if N.eqb c2 10 then universal_newlines r' else universal_newlines r
                | [] => universal_newlines r
                end
      else c :: universal_newlines r
  end.
Definition disk_of_raw (raw : str -> option str) : str -> option str :=
  fun p => match raw p with Some x => Some (universal_newlines x) | None => None end.

(* main(): file_data.replace("\r\n", "\n").replace("\r", "\n") - the two str.replace passes, left to right *)
Fixpoint py_replace_crlf (x : str) : str :=
  match x with
  | [] => []
  | c :: r =>
      match r with
      | c2 :: r' => if N.eqb c 13 && N.eqb c2 10 then 10%N :: py_replace_crlf r' else c :: py_replace_crlf r
      | [] => [c]
      end
  end.
Definition py_replace_cr (x : str) : str := map (fun c => if N.eqb c 13 then 10%N else c) x.
Definition translate_inline (x : str) : str := py_replace_cr (py_replace_crlf x).

(* main(): `if args.cfile or args.hfile:` one File(file_name, file_data); else one File(item) per selected path
   (the path selection itself is C15's model; here the explicit regular files) *)
Definition files_of_args (a : args) : list mfile :=
  if truthy (a_cfile a) || truthy (a_hfile a) then
    [mkmfile (or_else (a_filename a) (if truthy (a_cfile a) then s "file.c" else s "file.h"))
             (Some (translate_inline (if truthy (a_cfile a) then or_else (a_cfile a) [] else or_else (a_hfile a) [])))]
  else map (fun p => mkmfile p None) (a_file a).

(* what Lexer(file) / Context(file, ...) can observe of a File, given the disk *)
Record finput := mkfinput { fi_in_path : str; fi_in_base : str; fi_in_source : option str }.
Definition input_of (disk : str -> option str) (f : mfile) : finput :=
  mkfinput (mf_path f) (basename (mf_path f))
           (match mf_source f with Some x => Some x | None => disk (mf_path f) end).


(* ------------------------------------------------------------------ the registry loop with its state *)
(* What the primaries and their checks do at one turn of the loop, as a function of the debug level and of
   the whole context (tokens, scopes, diagnostics so far ...): an oracle over an abstract state. *)
Inductive sres (St : Type) :=
| SMatched (name : str) (jump : Z) (st : St)
| SNoMatch (st : St)
| SFatal (m : str)
| SCrash (e : exn).
Arguments SMatched {St} name jump st.
Arguments SNoMatch {St} st.
Arguments SFatal {St} m.
Arguments SCrash {St} e.

Definition erase_sres {St} (r : sres St) : tryres :=
  match r with
  | SMatched name jump _ => Matched name jump
  | SNoMatch _ => NoMatch
  | SFatal m => TFatal m
  | SCrash e => TCrash e
  end.

Definition raises {St} (r : sres St) : bool :=
  match r with SFatal _ | SCrash _ => true | _ => false end.

(* Registry.run, same shape as Engine.run, threading the state *)
Fixpoint run_st {St} (fuel : nat) (step : Z -> St -> sres St) (debug : Z) (st : St) (n unrec : nat) (acc : list seg)
  : outcome (list seg * St) :=
  match fuel with
  | O => Hang
  | S f =>
      match n with
      | O => if Nat.ltb 0 unrec && (debug =? 0) then Fatal unrec_msg else Ok (rev acc, st)
      | S _ =>
          match step debug st with
          | SMatched name jump st' =>
              if Nat.ltb 0 unrec && (debug =? 0) then Fatal unrec_msg
              else let n' := slice_from n jump in run_st f step debug st' n' 0 (SMatch name n n' :: acc)
          | SNoMatch st' => run_st f step debug st' (n - 1) (S unrec) (SUnrec n :: acc)
          | SFatal m => Fatal m
          | SCrash e => Crash e
          end
      end
  end.

(* the iteration-indexed oracle of Engine.run that a state-passing oracle induces from a start state *)
Fixpoint oracle_from {St} (step : Z -> St -> sres St) (debug : Z) (st : St) (i : nat) : tryres :=
  match i with
  | O => erase_sres (step debug st)
  | S i' => match step debug st with
            | SMatched _ _ st' | SNoMatch st' => oracle_from step debug st' i'
            | _ => NoMatch
            end
  end.

Definition outcome_map {A B} (f : A -> B) (x : outcome A) : outcome B :=
  match x with Ok a => Ok (f a) | Fatal m => Fatal m | Crash e => Crash e | Hang => Hang end.

(* ---- rules that emit: state = (core, diagnostics so far); a turn returns the new core and the NEW diagnostics *)
Definition emit_step (Core : Type) := bool (* skip_define *) -> Z (* debug *) -> Core -> sres (Core * list diag).

Definition lift_emit {Core} (es : emit_step Core) (skip : bool) : Z -> Core * list diag -> sres (Core * list diag) :=
  fun d st =>
    match es skip d (fst st) with
    | SMatched name jump (c, ds) => SMatched name jump (c, snd st ++ ds)
    | SNoMatch (c, ds) => SNoMatch (c, snd st ++ ds)
    | SFatal m => SFatal m
    | SCrash e => SCrash e
    end.

Definition map_emitted {Core} (f : list diag -> list diag) (r : sres (Core * list diag)) : sres (Core * list diag) :=
  match r with
  | SMatched name jump (c, ds) => SMatched name jump (c, f ds)
  | SNoMatch (c, ds) => SNoMatch (c, f ds)
  | SFatal m => SFatal m
  | SCrash e => SCrash e
  end.

(* ------------------------------------------------------------------ -R CheckDefine *)
(* the codes emitted after the guard of CheckPreprocessorDefine.run, from the source *)
Definition silenced_codes : list str := define_codes_after_guard.
Definition keep_diag (d : diag) : bool := negb (str_in (d_name d) silenced_codes).
Definition filter_silenced (ds : list diag) : list diag := filter keep_diag ds.

(* what the property calls "the #define-value diagnostics" *)
Definition define_value_codes : list str := [s "PREPROC_CONSTANT"].

(* emission structure of CheckPreprocessorDefine.run on one `#define` line, over what it observes:
   is the statement a #define at all, name.isupper(), LPARENTHESIS after the name, and whether the value part is
   rejected (the two PREPROC_CONSTANT sites are on exclusive paths: the first one returns).  The skip_define guard
   stands between the name / function-like-macro checks and the value checks (Gen.Options.define_codes_before_guard /
   define_codes_after_guard). *)
Record define_obs := mkdobs { do_is_define : bool; do_name_upper : bool; do_lparen : bool; do_bad_value : bool }.
Definition define_check (skip : bool) (o : define_obs) : list str :=
  if negb (do_is_define o) then []
  else (if do_name_upper o then [] else [s "MACRO_NAME_CAPITAL"])
       ++ (if do_lparen o then [s "MACRO_FUNC_FORBIDDEN"] else [])
       ++ (if skip then [] else if do_bad_value o then [s "PREPROC_CONSTANT"] else []).

(* ------------------------------------------------------------------ the report *)
Definition use_colors_of (a : args) : bool := negb (a_no_colors a).
Definition is_json (a : args) : bool := match a_format a with FJson => true | FHuman => false end.

(* main() after the analysis loop: format(files, use_colors=not args.no_colors); print; exit *)
Definition report_of (a : args) (fs : list fin) : outcome (Cli.report * Z) := run_all (is_json a) (use_colors_of a) fs.

(* what a reader gets back from either format: per file (name shown, verdict, diagnostics) *)
Definition shown_name (json : bool) (path base : str) : str := if json then path else base.
Definition file_view (json : bool) (f : file) : option fview := if json then json_view f else human_view f.
Definition views (a : args) (files : list file) : option (list fview) := omap (file_view (is_json a)) files.

(* the humanized text as a function of the views alone *)
Definition colorize_v (use_colors : bool) (v : dview) : str :=
  match error_color color_table (v_name v) with
  | Some c => if use_colors then [esc; 91]%N ++ c ++ s "m" ++ v_text v ++ [esc] ++ s "[0m" else v_text v
  | None => v_text v
  end.
Definition render_line (use_colors : bool) (v : dview) : str :=
  [10%N] ++ v_level v ++ s ": " ++ pad_right 20 (v_name v) ++ s " "
  ++ s "(line: " ++ pad_left 3 (dec_of_Z (v_line v)) ++ s ", col: " ++ pad_left 3 (dec_of_Z (v_col v))
  ++ s "):" ++ [9%N] ++ colorize_v use_colors v.
Definition render_file (use_colors : bool) (bv : str * fview) : str :=
  fst bv ++ s ": " ++ v_status (snd bv) ++ s "!" ++ List.concat (map (render_line use_colors) (v_diags (snd bv))) ++ [10%N].
Definition render_views (use_colors : bool) (bvs : list (str * fview)) : str := List.concat (map (render_file use_colors) bvs).

(* removing the SGR sequences  ESC [ ... m  from a text *)
Fixpoint strip_esc_aux (inside : bool) (x : str) : str :=
  match x with
  | [] => []
  | c :: r =>
      if inside then (if N.eqb c 109 then strip_esc_aux false r else strip_esc_aux true r)
      else if N.eqb c esc then strip_esc_aux true r else c :: strip_esc_aux false r
  end.
Definition strip_esc (x : str) : str := strip_esc_aux false x.

Definition no_esc (x : str) : bool := negb (chr_in esc x).
Definition dview_plain (v : dview) : bool := no_esc (v_level v) && no_esc (v_name v) && no_esc (v_text v).
Definition fview_plain (bv : str * fview) : bool :=
  no_esc (fst bv) && no_esc (v_status (snd bv)) && forallb dview_plain (v_diags (snd bv)).

(* ------------------------------------------------------------------ reviewed tables (compared with Gen.Options) *)
Definition reviewed_debug_reads : list (string * string * string) :=
  [("norminette/__main__.py", "main", "STORE debug = args.debug");
   ("norminette/__main__.py", "main", "args.debug: assigned to debug");
   ("norminette/__main__.py", "main", "debug: argument 2 of Context");
   ("norminette/context.py", "Context.__init__", "STORE self.debug = int(debug)");
   ("norminette/context.py", "Context.__init__", "debug: argument 0 of int");
   ("norminette/context.py", "Context.dprint", "self.debug: compare < 2 guarding return; rest of function print-only");
   ("norminette/registry.py", "Registry.run", "context.debug: compare == 0 guarding raise CParsingError");
   ("norminette/rules/check_utype_declaration.py", "CheckUtypeDeclaration.run", "context.debug: compare == 0 guarding raise CParsingError");
   ("norminette/rules/check_utype_declaration.py", "CheckUtypeDeclaration.run", "context.debug: compare >= 1 guarding pass");
   ("norminette/rules/is_expression_statement.py", "IsExpressionStatement.check_reserved_keywords", "context.debug: compare == 0 guarding raise CParsingError")]%string.

(* a use of the debug level that can only print, raise the controlled error, or pass the value along *)
Definition presentation_use (k : string) : bool :=
  existsb (String.eqb k)
    ["STORE debug = args.debug"; "args.debug: assigned to debug"; "debug: argument 2 of Context";
     "STORE self.debug = int(debug)"; "debug: argument 0 of int";
     "self.debug: compare < 2 guarding return; rest of function print-only";
     "context.debug: compare == 0 guarding raise CParsingError";
     "context.debug: compare >= 1 guarding pass"]%string.

Definition reviewed_skip_reads : list (string * string * string) :=
  [("norminette/context.py", "Context.__init__", "STORE self.preproc.skip_define = 'CheckDefine' in (added_value or [])");
   ("norminette/context.py", "Context.__init__", "added_value: in self.preproc.skip_define = 'CheckDefine' in (added_value or [])");
   ("norminette/context.py", "PreProcessors.__init__", "STORE self.skip_define = False");
   ("norminette/rules/check_preprocessor_define.py", "CheckPreprocessorDefine.run", "context.preproc.skip_define: truth test guarding return")]%string.

Definition reviewed_define_after_guard_calls : list string :=
  ["context.check_token"; "context.new_error"; "context.peek_token"; "context.skip_ws"]%string.

Definition reviewed_silenced_code_mentions : list (string * string) :=
  [("norminette/norm_error.py", "PREPROC_CONSTANT"); ("norminette/rules/check_preprocessor_define.py", "PREPROC_CONSTANT")]%string.

(* computed diagnostic codes: none can spell one of the silenced codes (prefixes INVALID_ / FORBIDDEN_; the generic
   wrappers pass on what their callers give them) *)
Definition reviewed_dynamic_emitters : list (string * string * string) :=
  [("norminette/context.py", "Context.new_error", "errno");
   ("norminette/context.py", "Context.new_warning", "errno");
   ("norminette/errors.py", "Errors.add", "*args");
   ("norminette/errors.py", "Errors.add", "error");
   ("norminette/lexer/lexer.py", "Lexer.parse_float_literal", "error");
   ("norminette/lexer/lexer.py", "Lexer.parse_integer_literal._check_bad_prefix", "f'INVALID_{name}_INT'");
   ("norminette/rules/check_utype_declaration.py", "CheckUtypeDeclaration.run", "f'FORBIDDEN_{token.type}'")]%string.

Definition reviewed_main_args_reads : list (string * string * string) :=
  [("R", "main", "context = Context(file, tokens, debug, args.R)");
   ("cfile", "main", "file_data = args.cfile if args.cfile else args.hfile");
   ("cfile", "main", "file_name = args.filename or ('file.c' if args.cfile else 'file.h')");
   ("cfile", "main", "if args.cfile or args.hfile");
   ("debug", "main", "debug = args.debug");
   ("file", "main", "stack += args.file if args.file else [it for it in glob.glob('**/*.[ch]', recursive=True) if not os.path.isdir(it)]");
   ("filename", "main", "file_name = args.filename or ('file.c' if args.cfile else 'file.h')");
   ("format", "main.<lambda>", "format = next(filter(lambda it: it.name == args.format, formatters))");
   ("hfile", "main", "file_data = args.cfile if args.cfile else args.hfile");
   ("hfile", "main", "if args.cfile or args.hfile");
   ("no_colors", "main", "errors = format(files, use_colors=not args.no_colors)");
   ("use_gitignore", "main", "if args.use_gitignore")]%string.

Definition reviewed_inline_branch : list string :=
  ["file_name = args.filename or ('file.c' if args.cfile else 'file.h')";
   "file_data = args.cfile if args.cfile else args.hfile";
   "file_data = file_data.replace('\r\n', '\n').replace('\r', '\n')";
   "file = File(file_name, file_data)";
   "files.append(file)"]%string.

Definition reviewed_formatter_option_reads : list (string * string * string) :=
  [("HumanizedErrorsFormatter._colorize_error_text", "self.use_colors", "if not self.use_colors or not color");
   ("HumanizedErrorsFormatter.use_colors", "self.options", "return self.options.get('use_colors', True)");
   ("_formatter.__init__", "options", "self.options = options")]%string.

Definition reviewed_argparse_table : list (list string * string * string * string * string) :=
  [(["file"], "file", "store", "None", "'*'");
   (["-d"; "--debug"], "debug", "count", "0", "");
   (["-o"; "--only-filename"], "only_filename", "store_true", "False", "");
   (["-v"; "--version"], "version", "version", "None", "");
   (["--cfile"], "cfile", "store", "None", "");
   (["--hfile"], "hfile", "store", "None", "");
   (["--filename"], "filename", "store", "None", "");
   (["--use-gitignore"], "use_gitignore", "store_true", "None", "");
   (["-f"; "--format"], "format", "store", "'humanized'", "");
   (["--no-colors"], "no_colors", "store_true", "None", "");
   (["-R"], "R", "store", "None", "1")]%string.
