(* norminette.__main__.main(): which files are checked (property C15).
   An abstract file system (finite tree), Python's glob / pathlib behaviour as main() uses it, the growing
   work list, the `git check-ignore` filter relative to an oracle, and - at the end - the independent
   specification `wanted`.  Patterns, suffix tuple, messages and exit codes come from Gen.Select, which is
   regenerated from /repo's __main__.py on every run.  No proofs here.

   What is modelled, not verified: the operating system (a directory is a finite list of uniquely named
   entries, listed in the order os.scandir yields them = the order of `children`), CPython's glob/fnmatch/
   pathlib (written out below as read from the 3.12 sources), git (an oracle).  Symbolic links, special
   files, permissions, names containing '/' or glob magic in a *directory argument* are outside the model. *)
From NV Require Export Model.Base Gen.Select.
From Coq Require Import Lia.

Inductive node := File | Dir (children : list (str * node)).
Definition path := list str.                     (* components, outermost first *)

Fixpoint find_child (x : str) (ch : list (str * node)) : option node :=
  match ch with
  | [] => None
  | (y, m) :: r => if str_eqb x y then Some m else find_child x r
  end.

Fixpoint lookup (n : node) (p : path) : option node :=
  match p with
  | [] => Some n
  | c :: p' =>
      match n with
      | File => None
      | Dir ch => match find_child c ch with Some m => lookup m p' | None => None end
      end
  end.

(* ------------------------------------------------------------------ names *)
(* glob._ishidden *)
Definition hidden (x : str) : bool := match x with 46%N :: _ => true | _ => false end.

(* fnmatch of one path component against the atoms of a pattern ( * ? literal [set] ) *)
Fixpoint fnm (pat : list patom) (x : str) {struct pat} : bool :=
  match pat with
  | [] => match x with [] => true | _ => false end
  | PStar :: p' =>
      (fix try (y : str) : bool := fnm p' y || match y with [] => false | _ :: y' => try y' end) x
  | PAny :: p' => match x with _ :: x' => fnm p' x' | [] => false end
  | PLit c :: p' => match x with c' :: x' => N.eqb c c' && fnm p' x' | [] => false end
  | PSet cs :: p' => match x with c' :: x' => chr_in c' cs && fnm p' x' | [] => false end
  end.

(* glob._glob1: names starting with '.' are dropped unless the pattern itself starts with '.' *)
Definition pat_hidden (pat : list patom) : bool := match pat with PLit 46%N :: _ => true | _ => false end.
Definition visible (pat : list patom) (x : str) : bool := (pat_hidden pat || negb (hidden x)) && fnm pat x.

(* pathlib.PurePath.suffix:  i = name.rfind('.');  name[i:] if 0 < i < len(name) - 1 else ''  *)
Fixpoint last_dot_tail (x : str) : option str :=        (* name[name.rfind('.'):] *)
  match x with
  | [] => None
  | c :: r => match last_dot_tail r with
              | Some t => Some t
              | None => if N.eqb c 46 then Some x else None
              end
  end.
Definition py_suffix (name : str) : str :=
  match last_dot_tail name with
  | Some t => if Nat.ltb (List.length t) (List.length name) && Nat.ltb 1 (List.length t) then t else []
  | None => []
  end.
Definition suffix_accepted (name : str) : bool := str_in (py_suffix name) accepted_suffixes.

(* repr() of a str.  Code points >= 128 are rendered as themselves (true of printable ones only). *)
Definition hex_digit (n : N) : N := if N.ltb n 10 then (48 + n)%N else (87 + n)%N.
Definition repr_char (q c : N) : str :=
  if N.eqb c 92 then [92; 92]%N
  else if N.eqb c q then [92%N; q]
  else if N.eqb c 10 then [92; 110]%N
  else if N.eqb c 13 then [92; 114]%N
  else if N.eqb c 9 then [92; 116]%N
  else if N.ltb c 32 || N.eqb c 127 then [92%N; 120%N; hex_digit (c / 16); hex_digit (c mod 16)]
  else [c].
Definition py_repr (x : str) : str :=
  let q := if chr_in 39%N x && negb (chr_in 34%N x) then 34%N else 39%N in
  [q] ++ flat_map (repr_char q) x ++ [q].

(* ------------------------------------------------------------------ glob *)
Definition pref (x : str) (gm : path * node) : path * node := (x :: fst gm, snd gm).

Section Glob.
  Variable pat : list patom.

  (* the entries of one directory that match, files and directories alike *)
  Definition direct (ch : list (str * node)) : list (path * node) :=
    flat_map (fun xm : str * node => if visible pat (fst xm) then [([fst xm], snd xm)] else []) ch.

  (* glob("D/**/<pat>", recursive=True) relative to D: D itself first, then every non-hidden directory below it in
     pre-order (_glob2/_rlistdir with dironly), each contributing its matching entries (_glob1) *)
  Fixpoint glob_rec (n : node) : list (path * node) :=
    match n with
    | File => []
    | Dir ch =>
        direct ch ++
        (fix deep (l : list (str * node)) : list (path * node) :=
           match l with
           | [] => []
           | (x, m) :: r => (if hidden x then [] else map (pref x) (glob_rec m)) ++ deep r
           end) ch
    end.

  (* the same pattern without recursive=True: `**` is an ordinary `*`, exactly one directory level *)
  Definition glob_flat (n : node) : list (path * node) :=
    match n with
    | File => []
    | Dir ch =>
        flat_map (fun xm : str * node =>
                    if hidden (fst xm) then []
                    else match snd xm with Dir ch' => map (pref (fst xm)) (direct ch') | File => [] end) ch
    end.

  Definition glob_items (recursive : bool) (n : node) : list (path * node) :=
    if recursive then glob_rec n else glob_flat n.

  (* an upper bound of the number of work-list entries a directory generates (fuel of the loop) *)
  Fixpoint weight (n : node) : nat :=
    match n with
    | File => O
    | Dir ch =>
        (fix sum (l : list (str * node)) : nat :=
           match l with
           | [] => O
           | (x, m) :: r =>
               ((if visible pat x then S (weight m) else O) + (if hidden x then O else weight m) + sum r)%nat
           end) ch
    end.
End Glob.

(* ------------------------------------------------------------------ work-list items *)
(* i_raw: the string handed to File(...) / git;  (i_abs, i_comps): pathlib.Path(item) after normalisation *)
Record item := mkitem { i_raw : str; i_abs : bool; i_comps : path }.

Fixpoint join_slash (p : path) : str :=
  match p with
  | [] => []
  | [x] => x
  | x :: r => x ++ 47%N :: join_slash r
  end.

(* str(path) *)
Definition render (it : item) : str :=
  if i_abs it then 47%N :: join_slash (i_comps it)
  else match i_comps it with [] => [46%N] | _ => join_slash (i_comps it) end.

(* path.name *)
Definition item_name (it : item) : str := last (i_comps it) [].

(* one result of glob(str(path) + "/**/...") *)
Definition child_item (it : item) (g : path) : item :=
  mkitem (render it ++ 47%N :: join_slash g) (i_abs it) (i_comps it ++ g).
(* one result of glob("**/...") in the current directory *)
Definition rel_item (g : path) : item := mkitem (join_slash g) false g.
Definition dot_item : item := mkitem [46%N] false [].

Inductive sel_result :=
| Selected (files : list item) (msgs : list str)     (* the list `files` and what was printed *)
| Exited (code : Z) (msgs : list str).               (* sys.exit(code) during the selection *)

Definition fval (it : item) (e c : string) : outcome str :=
  if String.eqb e "path" && String.eqb c "s" then Ok (render it)
  else if String.eqb e "path.name" && String.eqb c "r" then Ok (py_repr (item_name it))
  else if String.eqb e "target.path" && String.eqb c "r" then Ok (py_repr (i_raw it))
  else Crash Unmodelled.

Fixpoint render_msg (ps : list fpart) (it : item) : outcome str :=
  match ps with
  | [] => Ok []
  | FLit t :: r => do x <- render_msg r it; Ok (t ++ x)
  | FVal e c :: r => do v <- fval it e c; do x <- render_msg r it; Ok (v ++ x)
  end.

Fixpoint git_action (c : Z) (tbl : list (Z * string)) : string :=
  match tbl with
  | [] => "drop"          (* no branch of the if/elif chain taken: neither kept nor reported *)
  | (k, a) :: r => if Z.eqb c k then a else git_action c r
  end.

Section Select.
  Variable root : node.                  (* the directory tree, from "/" *)
  Variable cwd : path.                   (* the current directory *)
  Variable check_ignore : item -> Z.     (* exit status of `git check-ignore -q <item>` *)

  Definition apath (it : item) : path := if i_abs it then i_comps it else cwd ++ i_comps it.

  (* `not os.path.isdir(it)` on a glob result: the string is resolved again *)
  Definition not_dir (it : item) : bool :=
    match lookup root (apath it) with Some (Dir _) => false | _ => true end.
  Definition keep_files (files_only : bool) (l : list item) : list item :=
    if files_only then filter not_dir l else l.

  Definition kids (it : item) (n : node) : list item :=
    keep_files glob_dir_files_only
      (map (fun gm => child_item it (fst gm)) (glob_items glob_dir_last glob_dir_recursive n)).

  (* for item in stack: ... stack += ...   (a list that grows while it is iterated = a FIFO queue).
     The tests are made in the order of Gen.Select.test_order: exists, is_file (suffix), is_dir. *)
  Fixpoint loop (fuel : nat) (queue : list item) (files : list item) (msgs : list str) : outcome sel_result :=
    match queue with
    | [] => Ok (Selected (rev files) (rev msgs))
    | it :: q =>
        match fuel with
        | O => Hang
        | S f =>
            match lookup root (apath it) with
            | None =>
                do m <- render_msg msg_missing it;
                Ok (Exited exit_missing (rev (m :: msgs)))
            | Some File =>
                if suffix_accepted (item_name it) then loop f q (it :: files) msgs
                else
                  do m <- render_msg msg_bad_suffix it;
                  match exit_bad_suffix with
                  | None => loop f q files (m :: msgs)
                  | Some c => Ok (Exited c (rev (m :: msgs)))
                  end
            | Some (Dir ch) => loop f (q ++ kids it (Dir ch)) files msgs
            end
        end
    end.

  Definition stack0 (args : list item) : list item :=
    match args with
    | [] => match lookup root cwd with
            | Some n => keep_files glob_cwd_files_only
                          (map (fun gm => rel_item (fst gm)) (glob_items glob_cwd_last glob_cwd_recursive n))
            | None => []
            end
    | _ => args
    end.

  Definition item_weight (it : item) : nat :=
    match lookup root (apath it) with Some n => weight glob_dir_last n | None => O end.
  Definition cost (q : list item) : nat := list_sum (map (fun it => S (item_weight it)) q).

  Fixpoint git_filter (fs acc : list item) (msgs : list str) : outcome sel_result :=
    match fs with
    | [] => Ok (Selected (rev acc) msgs)
    | f :: r =>
        let a := git_action (check_ignore f) git_codes in
        if String.eqb a "keep" then git_filter r (f :: acc) msgs
        else if String.eqb a "exit" then
          do m <- render_msg msg_git_fatal f; Ok (Exited exit_git_fatal (msgs ++ [m]))
        else git_filter r acc msgs
    end.

  Definition select (use_gitignore : bool) (args : list item) : outcome sel_result :=
    let q := stack0 args in
    do r <- loop (S (cost q)) q [] [];
    match r with
    | Selected fs ms => if use_gitignore then git_filter fs [] ms else Ok r
    | Exited _ _ => Ok r
    end.

  (* ---------------------------------------------------------------- the specification, written independently *)
  (* "ending in .c or .h": the last two characters are '.' and 'c' or 'h' *)
  Fixpoint is_src (x : str) : bool :=
    match x with
    | [] => false
    | a :: r =>
        match r with
        | [b] => N.eqb a 46 && (N.eqb b 99 || N.eqb b 104)
        | _ => is_src r
        end
    end.

  (* all regular files below a directory whose name ends in .c or .h, as paths relative to it *)
  Fixpoint src_below (n : node) : list path :=
    match n with
    | File => []
    | Dir ch =>
        (fix go (l : list (str * node)) : list path :=
           match l with
           | [] => []
           | (x, m) :: r =>
               match m with
               | File => if is_src x then [[x]] else []
               | Dir _ => map (cons x) (src_below m)
               end ++ go r
           end) ch
    end.

  Inductive want := WFiles (ps : list path) | WReject (name : str) | WMissing.

  Definition want_of (a : item) : want :=
    match lookup root (apath a) with
    | None => WMissing
    | Some File => if is_src (item_name a) then WFiles [apath a] else WReject (item_name a)
    | Some (Dir ch) => WFiles (map (app (apath a)) (src_below (Dir ch)))
    end.

  (* with no argument the current directory tree is used *)
  Definition eff_args (args : list item) : list item := match args with [] => [dot_item] | _ => args end.

  Definition wanted_files (args : list item) : list path :=
    flat_map (fun a => match want_of a with WFiles ps => ps | _ => [] end) (eff_args args).
  Definition wanted_rejects (args : list item) : list item :=
    filter (fun a => match want_of a with WReject _ => true | _ => false end) (eff_args args).
  Definition wanted_abort (args : list item) : bool :=
    existsb (fun a => match want_of a with WMissing => true | _ => false end) (eff_args args).
End Select.

(* ------------------------------------------------------------------ guards of the partial theorems *)
Fixpoint nodupb (l : list str) : bool :=
  match l with [] => true | x :: r => negb (str_in x r) && nodupb r end.

(* a directory lists every name once *)
Fixpoint wfb (n : node) : bool :=
  match n with
  | File => true
  | Dir ch =>
      nodupb (map fst ch) &&
      (fix all (l : list (str * node)) : bool :=
         match l with [] => true | (_, m) :: r => wfb m && all r end) ch
  end.

(* below this directory: no name starts with '.' *)
Fixpoint cleanb (n : node) : bool :=
  match n with
  | File => true
  | Dir ch =>
      (fix all (l : list (str * node)) : bool :=
         match l with
         | [] => true
         | (x, m) :: r =>
             negb (hidden x) && cleanb m && all r
         end) ch
  end.

(* ------------------------------------------------------------------ flat encoding of a result (for the harness) *)
Definition enc_str (x : str) : list Z := Z.of_nat (List.length x) :: map Z.of_N x.
Definition enc_list {A} (f : A -> list Z) (l : list A) : list Z := Z.of_nat (List.length l) :: flat_map f l.
Definition enc_item (it : item) : list Z :=
  (if i_abs it then 1 else 0) :: enc_list enc_str (i_comps it) ++ enc_str (i_raw it).
Definition enc_result (r : outcome sel_result) : list Z :=
  match r with
  | Ok (Selected fs ms) => 0 :: enc_list enc_item fs ++ enc_list enc_str ms
  | Ok (Exited c ms) => 1 :: c :: enc_list enc_str ms
  | Fatal _ => [2]
  | Crash _ => [3]
  | Hang => [4]
  end.

(* ignored set given as a list of absolute component paths *)
Fixpoint path_eqb (a b : path) : bool :=
  match a, b with
  | [], [] => true
  | x :: a', y :: b' => str_eqb x y && path_eqb a' b'
  | _, _ => false
  end.
Definition oracle_of (cwd : path) (ignored : list path) (fatal : bool) (it : item) : Z :=
  if fatal then 128
  else if existsb (path_eqb (apath cwd it)) ignored then 0 else 1.
