(* Support for Gen/NameChecks.v (CheckIdentifierName, CheckComment).  Hand-written: the history scan at the end of
   CheckComment.is_inside_a_function (pinned by fingerprint in tools/translate_names.py, validated by the correspondence of
   tools/harness/c02.py on every recorded invocation), and small list helpers.  No proofs here. *)
From NV Require Export Model.Base Model.RuleChecks.

(* one new_error(code, tok) per element of l *)
Fixpoint emit_each {A} (code : str) (ot : option token) (l : list A) (E : list em) : outcome (list em) :=
  match l with
  | [] => Ok E
  | _ :: r => match emit code ot E with Ok E' => emit_each code ot r E' | Fatal m => Fatal m | Crash e => Crash e | Hang => Hang end
  end.

Fixpoint strs_eqb (a b : list str) : bool :=
  match a, b with [], [] => true | x :: a', y :: b' => str_eqb x y && strs_eqb a' b' | _, _ => false end.

(* `while context.peek_token(i) and not context.check_token(i, "NEWLINE"): tokens.append(context.peek_token(i)); i += 1` *)
Fixpoint take_line (l : list token) : list token :=
  match l with [] => [] | t :: r => if str_eqb (t_type t) (s "NEWLINE") then [] else t :: take_line r end.
Definition collect_line (toks : list token) (i : Z) : list token :=
  if i <? 0 then [] else take_line (skipn (Z.to_nat i) toks).

(* is_inside_a_function, third part: going back through the history, the first `IsFuncDeclaration` whose next record is an
   `IsBlockStart`; then forward again from the record after that brace, counting braces from 1: inside iff the count never
   reaches 0.  hist: newest first; acc: the records already passed, most recently passed first *)
Fixpoint walk_braces (l : list str) (stack : Z) : Z :=
  match l with
  | [] => stack
  | r :: rest =>
      if stack >? 0 then
        if str_eqb r (s "IsBlockStart") then walk_braces rest (stack + 1)
        else if str_eqb r (s "IsBlockEnd") then walk_braces rest (stack - 1)
        else walk_braces rest stack
      else stack
  end.
Fixpoint scan_func (h acc : list str) : bool :=
  match h with
  | [] => false
  | r :: rest =>
      if str_eqb r (s "IsFuncDeclaration") && (match acc with l :: _ => str_eqb l (s "IsBlockStart") | [] => false end)
      then negb (walk_braces (tl acc) 1 =? 0)
      else scan_func rest (r :: acc)
  end.
Definition inside_function_scan (hist : list str) : bool := scan_func hist [].
