(* norminette.registry.Registry.run - the main loop, generic in the rules.
   What the primaries decide at each turn of the loop is an ORACLE (iteration -> result): the
   theorems quantify over every oracle, i.e. over every rule set; the harness feeds the model
   the results the real primaries returned and compares token consumption and outcome.
   Tokens are abstracted to their number: the loop only slices. *)
From NV Require Export Model.Base.

Inductive tryres :=
| Matched (name : str) (jump : Z)     (* some primary returned (True, jump) *)
| NoMatch                             (* the for-else branch: no primary matched *)
| TFatal (m : str)                    (* a rule raised CParsingError *)
| TCrash (e : exn).                   (* a rule raised anything else *)

(* len(tokens[stop:]) for a list of n tokens: Python slicing, negative stop counts from the end *)
Definition slice_from (n : nat) (stop : Z) : nat :=
  if stop <? 0 then Nat.min n (Z.to_nat (- stop)) else (n - Z.to_nat stop)%nat.

Inductive seg :=
| SMatch (name : str) (before after : nat)    (* a statement: tokens remaining before / after *)
| SUnrec (before : nat).                      (* one token set aside as unrecognised *)

Definition unrec_msg : str := s "Error: Unrecognized line".

Fixpoint run (fuel : nat) (oracle : nat -> tryres) (iter : nat) (debug : Z) (n unrec : nat) (acc : list seg)
  : outcome (list seg) :=
  match fuel with
  | O => Hang
  | S f =>
      match n with
      | O =>
          (* after the loop (the `_end` checks are an empty list, Gen.Registry): pending
             unrecognised tokens are fatal unless debugging *)
          if Nat.ltb 0 unrec && (debug =? 0) then Fatal unrec_msg else Ok (rev acc)
      | S _ =>
          match oracle iter with
          | Matched name jump =>
              if Nat.ltb 0 unrec && (debug =? 0) then Fatal unrec_msg
              else
                let n' := slice_from n jump in
                run f oracle (S iter) debug n' 0 (SMatch name n n' :: acc)
          | NoMatch => run f oracle (S iter) debug (n - 1) (S unrec) (SUnrec n :: acc)
          | TFatal m => Fatal m
          | TCrash e => Crash e
          end
      end
  end.

Definition run_file (oracle : nat -> tryres) (debug : Z) (ntokens : nat) : outcome (list seg) :=
  run (S ntokens) oracle 0 debug ntokens 0 [].

Definition seg_before (x : seg) : nat := match x with SMatch _ b _ => b | SUnrec b => b end.
Definition seg_after (x : seg) : nat := match x with SMatch _ _ a => a | SUnrec b => (b - 1)%nat end.

(* consecutive, non-empty statements from n tokens down to none *)
Fixpoint chain (segs : list seg) (n : nat) : bool :=
  match segs with
  | [] => Nat.eqb n 0
  | x :: r => Nat.eqb (seg_before x) n && Nat.ltb (seg_after x) n && chain r (seg_after x)
  end.

Definition is_unrec (x : seg) : bool := match x with SUnrec _ => true | _ => false end.
