(* C14: the turn of the registry loop at token level with IsPreprocessorStatement's matcher translated in full for the
   directives ifndef / define / endif (Gen/IsPreproc.v) - Model/EngineTok.turn only knows its first test.
   `turn_g` decides every turn that `turn` decides, with the same answer (Proofs/GuardMatch.turn_refines), and in addition
   the turns on `#ifndef X`, `#define X`, `#endif` lines.  Definitions only. *)
From NV Require Import Model.Base Model.Lexer Model.RuleChecks Model.Engine Model.RegistryOrder Gen.Registry
  Model.EngineTok Model.GuardTok Gen.IsPreproc.

Definition prim_run_g (name : str) (toks : list token) : option (bool * Z) :=
  if str_eqb name PRE then ispreproc_run toks else prim_run name toks.

Fixpoint turn_g (order : list str) (toks : list token) : option tryres :=
  match order with
  | [] => Some NoMatch
  | name :: r =>
      if negb (applies_global name) then turn_g r toks
      else
        match prim_run_g name toks with
        | Some (true, j) => Some (Matched name j)
        | Some (false, _) => turn_g r toks
        | None => None
        end
  end.

(* the oracle is the one the token-level primaries induce, wherever the translated ones decide *)
Definition induced_g (oracle : nat -> tryres) (toks : list token) : Prop :=
  forall k r, remaining oracle toks k <> [] -> turn_g primaries_order (remaining oracle toks k) = Some r -> oracle k = r.
