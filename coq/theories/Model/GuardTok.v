(* C14 at TOKEN level: what CheckPreprocessorProtection sees of one turn of Registry.run, computed on the real
   token list (Model/Lexer tokens, Model/RuleChecks peek / skip_ws), and the run of the guard state over the turns
   of the loop with the primaries abstracted as an oracle (Model/Engine, Model/EngineTok.remaining).
   The statement-level model (Model/Guard.v) is the abstraction of this one; Proofs/GuardTok.v relates them.
   Definitions only. *)
From NV Require Import Model.Base Model.Lexer Model.RuleChecks Model.Engine Model.EngineTok Gen.Lists
  Model.GuardBase Gen.Guard Model.Guard.

(* Context.skip_ws(pos, nl=True, comment=True): whitespaces (NEWLINE kept) + COMMENT, MULT_COMMENT *)
Definition trivia_types : list str := ctx_whitespaces ++ [s "COMMENT"; s "MULT_COMMENT"].
Definition skip_ws_nc (toks : list token) (pos : Z) : Z :=
  skip_while toks (fun i => truthy (checkl toks i trivia_types)) pos.

(* Context.skip_ws(pos, comment=True): blanks (no NEWLINE) + COMMENT, MULT_COMMENT *)
Definition ws_comment_types : list str := ws_no_nl ++ [s "COMMENT"; s "MULT_COMMENT"].
Definition skip_ws_c (toks : list token) (pos : Z) : Z :=
  skip_while toks (fun i => truthy (checkl toks i ws_comment_types)) pos.
(* token.type / token.value of a token that is known to be there (None only past the end, excluded by a preceding test) *)
Definition otype (t : option token) : str := match t with Some t => t_type t | None => [] end.
Definition ovalue (t : option token) : str := match t with Some t => match t_val t with Some v => v | None => [] end | None => [] end.

(* a token as (type, value): keyword / operator / white-space tokens have value None, read as "" (never read by the
   check on such tokens: it tests the type first) *)
Definition gtok_of (t : option token) : option gtok :=
  match t with Some t => Some (t_type t, match t_val t with Some v => v | None => [] end) | None => None end.

(* the positions CheckPreprocessorProtection.run visits (Gen/Guard.v header): toks = context.tokens when the check
   runs = everything from the current statement to the end of the file *)
Definition tok_view (toks : list token) : gview :=
  let h := skip_ws toks 0 in
  let d := skip_ws toks (h + 1) in
  mkview (gtok_of (peek toks d))
         (gtok_of (peek toks (skip_ws toks (d + 1))))
         (gtok_of (peek toks (skip_ws_nc toks (d + 1)))).

Definition ascii_lower (c : N) : N := if (N.leb 65 c && N.leb c 90)%bool then (c + 32)%N else c.
Definition py_lower (x : str) : str := map ascii_lower x.

(* IsPreprocessorStatement.run: `direc = (token.value if token.type == "IDENTIFIER" else token.type).lower()`,
   None for the null directive (`#` NEWLINE: returns before dispatching) *)
Definition tok_direc (v : gview) : option str :=
  match v_dir v with
  | Some (ty, val) =>
      if str_eqb ty (s "NEWLINE") then None
      else Some (py_lower (if str_eqb ty (s "IDENTIFIER") then val else ty))
  | None => None
  end.

Definition PRE : str := s "IsPreprocessorStatement".

(* context.history as the guard model keeps it: the three names the check can tell apart, everything else collapsed
   (prot_run only tests membership in (IsComment, IsEmptyLine)) *)
Definition norm_name (nm : str) : str :=
  if str_in nm [s "IsComment"; s "IsEmptyLine"; PRE] then nm else s "IsOther".

(* run_rules: history.append(rule); IsPreprocessorStatement.check_<direc>: indent / macros through the generated table *)
Definition tok_apply_primary (c : gctx) (nm : str) (v : gview) : gctx :=
  let h := g_history c ++ [norm_name nm] in
  if str_eqb nm PRE then
    let '(d, m) := match tok_direc v with
                   | Some n => match lookup_directive n directive_table with Some e => e | None => (0, false) end
                   | None => (0, false)
                   end in
    mkctx (g_ftype c) (g_basename c)
          (if Z.eqb d 0 then g_indent c else Z.max 0 (g_indent c + d))
          (if m then g_macros c ++ [tok_value (v_arg v)] else g_macros c)
          (g_protected c) h
  else mkctx (g_ftype c) (g_basename c) (g_indent c) (g_macros c) (g_protected c) h.

(* one turn in which primary `nm` matched, toks = the tokens remaining before the turn *)
Definition tok_step (c : gctx) (nm : str) (toks : list token) : gctx * list str :=
  let v := tok_view toks in
  let c1 := tok_apply_primary c nm v in
  if str_eqb nm PRE then prot_run v c1 else (c1, []).

(* turns start .. start + count - 1 of the loop (a turn without match sets one token aside and runs no rule) *)
Fixpoint tok_run (oracle : nat -> tryres) (toks : list token) (start count : nat) (c : gctx) : gctx * list str :=
  match count with
  | O => (c, [])
  | S n =>
      match oracle start with
      | Matched nm _ =>
          let '(c1, e1) := tok_step c nm (remaining oracle toks start) in
          let '(c2, e2) := tok_run oracle toks (S start) n c1 in (c2, e1 ++ e2)
      | _ => tok_run oracle toks (S start) n c
      end
  end.

(* the HEADER_PROT_* codes of the first n turns on a file named base *)
Definition tok_emitted (base : str) (oracle : nat -> tryres) (toks : list token) (n : nat) : list str :=
  snd (tok_run oracle toks 0 n (init_ctx base)).

(* ---- the three lines of the guard as (type, value) sequences ---- *)
Definition tv (t : token) : str * option str := (t_type t, t_val t).
Definition ifndef_line (x : str) : list (str * option str) :=
  [(s "HASH", None); (s "IDENTIFIER", Some (s "ifndef")); (s "SPACE", None); (s "IDENTIFIER", Some x); (s "NEWLINE", None)].
Definition define_line (x : str) : list (str * option str) :=
  [(s "HASH", None); (s "SPACE", None); (s "IDENTIFIER", Some (s "define")); (s "SPACE", None); (s "IDENTIFIER", Some x);
   (s "NEWLINE", None)].
Definition endif_line : list (str * option str) :=
  [(s "HASH", None); (s "IDENTIFIER", Some (s "endif")); (s "NEWLINE", None)].

(* and as text *)
Definition ifndef_text (x : str) : str := s "#ifndef " ++ x ++ [10%N].
Definition define_text (x : str) : str := s "# define " ++ x ++ [10%N].
Definition endif_text : str := s "#endif" ++ [10%N].
