(* Context.eol, modelled by hand for the generated primaries of Gen/IsComment.v (pinned by the source fingerprint
   Gen.IsComment.eol_fingerprint in Model/EngineTok.v, compared on every run by tools/harness/c13.py):

       while self.check_token(pos, ["TAB", "SPACE", "NEWLINE"]) is True:
           if self.check_token(pos, "NEWLINE"):
               pos += 1
               break
           pos += 1
       return pos                                                                                      *)
From NV Require Export Model.Base Model.RuleChecks.

Fixpoint eol_f (fuel : nat) (toks : list token) (pos : Z) : Z :=
  match fuel with
  | O => pos
  | S f =>
      if is_true (checkl toks pos [s "TAB"; s "SPACE"; s "NEWLINE"]) then
        if truthy (check1 toks pos (s "NEWLINE")) then pos + 1 else eol_f f toks (pos + 1)
      else pos
  end.
(* the loop ends at the latest at the end of the tokens *)
Definition eol (toks : list token) (pos : Z) : Z := eol_f (loop_fuel toks) toks pos.
