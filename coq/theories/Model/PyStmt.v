(* A tiny imperative target language for the statement-by-statement translation of the file-selection part of
   norminette.__main__.main() (Gen/SelectCode.v).  Hand-written: the state, the sequencing combinators and the two
   `for` loops of Python (over a list that the body extends; over a fixed list).  No proofs here.
   T is the type of the Python values on the work lists (the strings handed to File / the File objects). *)
From NV Require Export Model.Base.

Section Py.
  Variable T : Type.

  (* the four local lists of main() that the translated statements read and write, and what was printed *)
  Record st := mkst { st_stack : list T; st_files : list T; st_tmp : list T; st_out : list str }.

  Inductive res :=
  | Next (s : st)                          (* fall through to the next statement *)
  | Exit (code : Z) (out : list str)       (* sys.exit(code); out = everything printed so far *)
  | Stuck.                                 (* fuel of `for item in stack` exhausted (never, see select_terminates) *)

  Definition stmt := st -> res.

  Definition s_skip : stmt := fun s => Next s.
  Definition s_seq (a b : stmt) : stmt := fun s => match a s with Next s' => b s' | r => r end.
  Definition s_if (c : bool) (a b : stmt) : stmt := if c then a else b.
  Definition s_print (m : str) : stmt := fun s => Next (mkst (st_stack s) (st_files s) (st_tmp s) (st_out s ++ [m])).
  Definition s_exit (code : Z) : stmt := fun s => Exit code (st_out s).

  Definition s_stack_set (l : list T) : stmt := fun s => Next (mkst l (st_files s) (st_tmp s) (st_out s)).
  Definition s_stack_extend (l : list T) : stmt := fun s => Next (mkst (st_stack s ++ l) (st_files s) (st_tmp s) (st_out s)).
  Definition s_files_append (x : T) : stmt := fun s => Next (mkst (st_stack s) (st_files s ++ [x]) (st_tmp s) (st_out s)).
  Definition s_files_set_tmp : stmt := fun s => Next (mkst (st_stack s) (st_tmp s) (st_tmp s) (st_out s)).
  Definition s_tmp_set (l : list T) : stmt := fun s => Next (mkst (st_stack s) (st_files s) l (st_out s)).
  Definition s_tmp_append (x : T) : stmt := fun s => Next (mkst (st_stack s) (st_files s) (st_tmp s ++ [x]) (st_out s)).

  (* `for item in stack: body` where body may do `stack += ...`: Python iterates by index, so the appended entries are
     visited too.  st_stack holds the part of the list that has not been visited yet. *)
  Fixpoint s_for_stack (fuel : nat) (body : T -> stmt) (s : st) : res :=
    match st_stack s with
    | [] => Next s
    | x :: q =>
        match fuel with
        | O => Stuck
        | S f =>
            match body x (mkst q (st_files s) (st_tmp s) (st_out s)) with
            | Next s' => s_for_stack f body s'
            | r => r
            end
        end
    end.

  (* `for x in l: body` over a list the body does not change *)
  Fixpoint s_for_list (body : T -> stmt) (l : list T) (s : st) : res :=
    match l with
    | [] => Next s
    | x :: r => match body x s with Next s' => s_for_list body r s' | e => e end
    end.
  (* `for target in files:` reads the list once, when the loop starts *)
  Definition s_for_files (body : T -> stmt) : stmt := fun s => s_for_list body (st_files s) s.
End Py.

Arguments Next {T} s.
Arguments Exit {T} code out.
Arguments Stuck {T}.
Arguments s_skip {T}.
Arguments s_seq {T} a b.
Arguments s_if {T} c a b.
Arguments s_print {T} m.
Arguments s_exit {T} code.
Arguments s_stack_set {T} l.
Arguments s_stack_extend {T} l.
Arguments s_files_append {T} x.
Arguments s_files_set_tmp {T}.
Arguments s_tmp_set {T} l.
Arguments s_tmp_append {T} x.
Arguments s_for_stack {T} fuel body s.
Arguments s_for_files {T} body.
Arguments s_for_list {T} body l s.
