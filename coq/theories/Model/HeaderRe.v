(* The regular-expression fragment used by CheckHeader.check_header (rules/check_header.py):
   a flat sequence of atoms - one character of a class, a (bounded or unbounded) repeat of a class,
   group marks (no back-references, so groups are transparent for matching).
   `matches` is the denotation (exact match of a whole string), `fullb` the executable backtracking
   matcher, `searchb` / `matchb` are Python's `pattern.search` / `pattern.match` as yes/no questions.
   No proofs here (Proofs/HeaderProofs.v). *)
From NV Require Import Model.Base.

Inductive cset :=
| CAny                 (* `.` under DOTALL *)
| CLit (c : N)         (* a literal character *)
| CNot (c : N).        (* `[^c]`, and `.` without DOTALL = CNot 10 *)

Definition cs_in (cs : cset) (c : N) : bool :=
  match cs with
  | CAny => true
  | CLit d => N.eqb c d
  | CNot d => negb (N.eqb c d)
  end.

Inductive atom :=
| One (cs : cset)                            (* exactly one character of cs *)
| Rep (lo : nat) (hi : option nat) (cs : cset)   (* cs{lo,hi}; hi = None: unbounded.  `x*` = Rep 0 None x *)
| Mark (opening : bool) (k : nat).           (* `(` / `)` of capture group k *)

Definition all_in (cs : cset) (u : str) : bool := forallb (cs_in cs) u.

Definition le_opt (n : nat) (h : option nat) : Prop :=
  match h with None => True | Some m => (n <= m)%nat end.

(* denotation: the whole string t is matched by the atom sequence p *)
Fixpoint matches (p : list atom) (t : str) : Prop :=
  match p with
  | [] => t = []
  | One cs :: r => exists c t', t = c :: t' /\ cs_in cs c = true /\ matches r t'
  | Rep lo hi cs :: r =>
      exists u v, t = u ++ v /\ all_in cs u = true /\ (lo <= List.length u)%nat /\
                  le_opt (List.length u) hi /\ matches r v
  | Mark _ _ :: r => matches r t
  end.

(* pattern.search(t) is not None  /  pattern.match(t) is not None *)
Definition searches (p : list atom) (t : str) : Prop :=
  exists a b c, t = a ++ b ++ c /\ matches p b.
Definition matches_prefix (p : list atom) (t : str) : Prop :=
  exists b c, t = b ++ c /\ matches p b.

(* ---------------------------------------------------------------- executable matcher *)
(* n mandatory characters of cs *)
Fixpoint take_in (cs : cset) (n : nat) (t : str) : option str :=
  match n with
  | O => Some t
  | S n' => match t with
            | c :: t' => if cs_in cs c then take_in cs n' t' else None
            | [] => None
            end
  end.

(* (`if` rather than `||`/`&&`: vm_compute evaluates the arguments of orb/andb eagerly)
   optional part of a repeat: try the continuation k here, else consume one more character
   (b = how many more may be consumed; None = no limit) *)
Fixpoint rep_go (cs : cset) (k : str -> bool) (t : str) (b : option nat) {struct t} : bool :=
  if k t then true else
  match t with
  | [] => false
  | c :: t' =>
      if cs_in cs c then
        match b with
        | None => rep_go cs k t' None
        | Some O => false
        | Some (S n) => rep_go cs k t' (Some n)
        end
      else false
  end.

Definition budget (lo : nat) (hi : option nat) : option (option nat) :=
  match hi with
  | None => Some None
  | Some h => if Nat.ltb h lo then None else Some (Some (h - lo)%nat)
  end.

Fixpoint fullb (p : list atom) (t : str) {struct p} : bool :=
  match p with
  | [] => match t with [] => true | _ :: _ => false end
  | One cs :: r => match t with c :: t' => if cs_in cs c then fullb r t' else false | [] => false end
  | Mark _ _ :: r => fullb r t
  | Rep lo hi cs :: r =>
      match budget lo hi, take_in cs lo t with
      | Some b, Some t1 => rep_go cs (fullb r) t1 b
      | _, _ => false
      end
  end.

(* ---------------------------------------------------------------- the same question, tabulated
   `fullb` backtracks (exponential on near-misses: every `[^ ]*` and `.*` is retried); `tab p t` computes
   fullb p u for EVERY suffix u of t at once, atom by atom from the end of the pattern, in
   |p| * |t| steps.  Proofs/HeaderProofs.v: tab p t = map (fullb p) (suffixes t). *)
Fixpoint suffixes (t : str) : list str :=
  t :: match t with [] => [] | _ :: t' => suffixes t' end.

Definition is_nil (u : str) : bool := match u with [] => true | _ :: _ => false end.
Definition end_v (t : str) : list bool := map is_nil (suffixes t).

Fixpoint one_v (cs : cset) (t : str) (v : list bool) : list bool :=
  match t with
  | [] => [false]
  | c :: t' => (if cs_in cs c then hd false (tl v) else false) :: one_v cs t' (tl v)
  end.

(* V: the continuation at this position; W: the repeat with one iteration less *)
Fixpoint opt_v (cs : cset) (t : str) (V W : list bool) : list bool :=
  match t with
  | [] => [hd false V]
  | c :: t' =>
      (if hd false V then true else if cs_in cs c then hd false (tl W) else false)
        :: opt_v cs t' (tl V) (tl W)
  end.

Fixpoint star_v (cs : cset) (t : str) (V : list bool) : list bool :=
  match t with
  | [] => [hd false V]
  | c :: t' =>
      let rest := star_v cs t' (tl V) in
      (if hd false V then true else if cs_in cs c then hd false rest else false) :: rest
  end.

Fixpoint iter {A} (n : nat) (f : A -> A) (x : A) : A :=
  match n with O => x | S n' => f (iter n' f x) end.

Fixpoint tab (p : list atom) (t : str) {struct p} : list bool :=
  match p with
  | [] => end_v t
  | One cs :: r => one_v cs t (tab r t)
  | Mark _ _ :: r => tab r t
  | Rep lo hi cs :: r =>
      match budget lo hi with
      | None => map (fun _ => false) (suffixes t)
      | Some None => iter lo (one_v cs t) (star_v cs t (tab r t))
      | Some (Some k) => let V := tab r t in iter lo (one_v cs t) (iter k (opt_v cs t V) V)
      end
  end.

Definition fullb_fast (p : list atom) (t : str) : bool := hd false (tab p t).

Definition any_star : atom := Rep 0 None CAny.

Definition searchb (p : list atom) (t : str) : bool := fullb_fast (any_star :: p ++ [any_star]) t.
Definition matchb (p : list atom) (t : str) : bool := fullb_fast (p ++ [any_star]) t.

(* ---------------------------------------------------------------- literal structure of a pattern *)
(* the characters every match of p must start with *)
Fixpoint lead (p : list atom) : str :=
  match p with
  | One (CLit c) :: r => c :: lead r
  | Rep lo (Some hi) (CLit c) :: r => if Nat.eqb lo hi then repeat c lo ++ lead r else []
  | Mark _ _ :: r => lead r
  | _ => []
  end.

(* does this atom consume at least one character? *)
Definition consuming (a : atom) : bool :=
  match a with
  | One _ => true
  | Rep (S _) _ _ => true
  | _ => false
  end.

(* number of positions of the word w in a text / forced by a pattern *)
Fixpoint occ (w t : str) : nat :=
  match t with
  | [] => O
  | _ :: t' => ((if starts_with w t then 1 else 0) + occ w t')%nat
  end.

Fixpoint occ_pat (w : str) (p : list atom) : nat :=
  match p with
  | [] => O
  | a :: r => ((if consuming a && starts_with w (lead p) then 1 else 0) + occ_pat w r)%nat
  end.
