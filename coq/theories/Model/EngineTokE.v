(* Model/EngineTok.turn extended: IsEmptyLine is translated too (Gen/IsEmptyLine.v), and what the primaries that are NOT
   translated return is a parameter `um` (name -> tokens -> result, None = unknown), so that assumptions about them can
   be stated.  `turn` and `induced` of Model/EngineTok.v are unchanged; refinement lemmas in Proofs/EmptyLineTurn.v:
   turn .. = Some r -> turn_e um .. = Some r, induced_e um -> induced.  Definitions only. *)
From NV Require Import Model.Base Model.Lexer Model.RuleChecks Model.EngineTok0 Model.Engine Model.RegistryOrder
  Gen.Registry Gen.IsComment Gen.IsEmptyLine Model.EngineTok.

Definition prim_run_e (um : str -> list token -> option (bool * Z)) (name : str) (toks : list token) : option (bool * Z) :=
  match prim_run name toks with
  | Some r => Some r
  | None => if str_eqb name (s "IsEmptyLine") then Some (isemptyline_run toks) else um name toks
  end.

Fixpoint turn_e (um : str -> list token -> option (bool * Z)) (order : list str) (toks : list token) : option tryres :=
  match order with
  | [] => Some NoMatch
  | name :: r =>
      if negb (applies_global name) then turn_e um r toks
      else
        match prim_run_e um name toks with
        | Some (true, j) => Some (Matched name j)
        | Some (false, _) => turn_e um r toks
        | None => None
        end
  end.

Definition induced_e (um : str -> list token -> option (bool * Z)) (oracle : nat -> tryres) (toks : list token) : Prop :=
  forall k r, remaining oracle toks k <> [] -> turn_e um primaries_order (remaining oracle toks k) = Some r -> oracle k = r.

(* the primaries that Registry.run tries after IsComment and before IsEmptyLine (not translated) *)
Definition between_comment_and_emptyline : list str :=
  [s "IsFuncPrototype"; s "IsFuncDeclaration"; s "IsFunctionCall"; s "IsVarDeclaration"].

(* THE ASSUMPTION about them: they do not recognise a statement whose first token is NEWLINE *)
Definition declines_newline (um : str -> list token -> option (bool * Z)) : Prop :=
  forall name (t : token) rest, In name between_comment_and_emptyline -> t_type t = s "NEWLINE" ->
    exists j, um name (t :: rest) = Some (false, j).
