(* C14 - the vocabulary the GENERATED translation of CheckPreprocessorProtection.run (Gen/Guard.v) is
   written in: the part of the context the method reads and writes, the view of the current
   preprocessor statement at the token positions the method visits, and the few Python string
   operations it uses.  No proofs here. *)
From NV Require Import Model.Base.

(* ---- Python string operations, restricted to what the method uses ---- *)
(* str.upper() on ASCII text (base names are over [a-z0-9_.], C identifiers are ASCII by the lexer's
   parse_identifier): character-wise, a..z -> A..Z.  Non-ASCII input is outside the model; Gen/Guard.v
   carries the live table of chr(i).upper() for i < 128, compared in Proofs/GuardProofs.v. *)
Definition ascii_upper (c : N) : N :=
  if (N.leb 97 c && N.leb c 122)%bool then (c - 32)%N else c.
Definition py_upper (x : str) : str := map ascii_upper x.

(* str.replace(a, b) with two one-character arguments (the translator fails on anything else) *)
Definition py_replace1 (a b : N) (x : str) : str :=
  map (fun c => if N.eqb c a then b else c) x.

(* ---- tokens as the method sees them: (type, value) ; None = peek_token past the end ---- *)
Definition gtok := (str * str)%type.
Definition tok_type (t : option gtok) : str := match t with Some (ty, _) => ty | None => [] end.
Definition tok_value (t : option gtok) : str := match t with Some (_, v) => v | None => [] end.
Definition tok_is_none (t : option gtok) : bool := match t with Some _ => false | None => true end.
(* context.check_token(pos, "TYPE") used as a truth value: None (past the end) is falsy *)
Definition check_token_truth (t : option gtok) (ty : str) : bool :=
  match t with Some (ty', _) => str_eqb ty' ty | None => false end.

(* ---- the view of the current statement.  Positions, in the order run() reaches them:
        HASH = skip_ws(0) (the '#', present because IsPreprocessorStatement matched),
        DIR  = skip_ws(HASH+1)            the directive name token,
        ARG  = skip_ws(DIR+1)             the token after it on the line,
        TRAIL= skip_ws(DIR+1, nl=True, comment=True)   first token after the directive that is not
               white space, newline or comment - in the REST OF THE FILE (context.tokens still holds
               everything from the current statement to the end when the check runs). ---- *)
Record gview := mkview { v_dir : option gtok; v_arg : option gtok; v_trail : option gtok }.

(* ---- the part of Context / PreProcessors / File the method touches ---- *)
Record gctx := mkctx {
  g_ftype : str;              (* context.file.type   = os.path.splitext(basename)[1] *)
  g_basename : str;           (* context.file.basename *)
  g_indent : Z;               (* context.preproc.indent (property setter: max(0, value)) *)
  g_macros : list str;        (* [m.name for m in context.preproc.macros] *)
  g_protected : bool;         (* context.protected *)
  g_history : list str        (* [r.name for r in context.history] *)
}.

Definition set_protected (c : gctx) (b : bool) : gctx :=
  mkctx (g_ftype c) (g_basename c) (g_indent c) (g_macros c) b (g_history c).

(* PreProcessors.has_macro_defined *)
Definition has_macro_defined (c : gctx) (name : str) : bool := existsb (fun m => str_eqb m name) (g_macros c).

(* itertools.filterfalse(lambda item: item in headers, history) ; Rule.__eq__(str) compares the name *)
Definition filterfalse_in (headers : list str) (h : list str) : list str :=
  filter (fun item => negb (str_in item headers)) h.
(* `if next(it, None):` - rule objects are truthy (Rule defines neither __bool__ nor __len__: checked by the
   translator), so this is "the iterator is not empty" *)
Definition next_truthy (h : list str) : bool := match h with [] => false | _ :: _ => true end.
